// Driver C06: the real storage key functions, a real badger store and HTTP-level instance
// histories against Model.Keys / Model.KV.
package main

import (
	"bytes"
	"encoding/binary"
	"encoding/json"
	"fmt"
	"math"
	"net/url"
	"os"
	"strings"
	"time"

	"github.com/janelia-flyem/dvid/datastore"
	"github.com/janelia-flyem/dvid/datatype/annotation"
	"github.com/janelia-flyem/dvid/datatype/imageblk"
	"github.com/janelia-flyem/dvid/datatype/imagetile"
	"github.com/janelia-flyem/dvid/datatype/keyvalue"
	"github.com/janelia-flyem/dvid/datatype/labelarray"
	"github.com/janelia-flyem/dvid/datatype/labelblk"
	"github.com/janelia-flyem/dvid/datatype/labelmap"
	"github.com/janelia-flyem/dvid/datatype/labelsz"
	"github.com/janelia-flyem/dvid/datatype/labelvol"
	"github.com/janelia-flyem/dvid/datatype/neuronjson"
	"github.com/janelia-flyem/dvid/datatype/tarsupervoxels"
	"github.com/janelia-flyem/dvid/dvid"
	"github.com/janelia-flyem/dvid/dvid/verifhook"
	"github.com/janelia-flyem/dvid/storage"

	"verif/harness/dv"
	"verif/harness/lib"
)

var grid = []uint32{0, 1, 255, 256, 1 << 31, math.MaxUint32 - 1, math.MaxUint32}

type jcase struct {
	Kind  string   `json:"kind"`
	I     uint32   `json:"i,omitempty"`
	V     uint32   `json:"v,omitempty"`
	C     uint32   `json:"c,omitempty"`
	Cls   uint8    `json:"cls,omitempty"`
	TK    []byte   `json:"tk,omitempty"`
	Key   []byte   `json:"key,omitempty"`
	Nil   bool     `json:"nil,omitempty"`
	DT    int      `json:"dt,omitempty"`
	Idx   int      `json:"idx,omitempty"`
	Seed  uint64   `json:"seed,omitempty"`
	Shape string   `json:"shape,omitempty"`
	N     int      `json:"n,omitempty"`
}

// ---- Coq printing helpers ----

func resBytes(cls string, b []byte) string { return lib.CoqRes(cls, lib.CoqBytes(b)) }

func pairBytes(a, b []byte) string { return "(" + lib.CoqBytes(a) + ", " + lib.CoqBytes(b) + ")" }

func coqStore(kvs []*storage.KeyValue) string {
	ss := make([]string, len(kvs))
	for i, kv := range kvs {
		ss[i] = pairBytes(kv.K, kv.V)
	}
	return "[" + strings.Join(ss, ";\n    ") + "]"
}

func coqKeys(ks [][]byte) string {
	ss := make([]string, len(ks))
	for i, k := range ks {
		ss[i] = lib.CoqBytes(k)
	}
	return "[" + strings.Join(ss, ";\n    ") + "]"
}

func exact(b []byte) []byte { // capacity == length, as the models assume
	c := make([]byte, len(b))
	copy(c, b)
	return c
}

// ---- the real key functions ----

var stub *datastore.Data // a data instance whose id is set per call

func stubFor(i uint32) { stub.SetInstanceID(dvid.InstanceID(i)) }

func ctxFor(i, v uint32) *datastore.VersionedCtx {
	stub.SetInstanceID(dvid.InstanceID(i))
	return datastore.NewVersionedCtx(stub, dvid.VersionID(v))
}

type parsed struct {
	tkCls  string
	tk     []byte
	idsCls string
	ids    [3]uint32
	verCls string
	ver    uint32
}

func parseKey(k []byte, isNil bool) (p parsed) {
	var key storage.Key
	if !isNil {
		key = storage.Key(k)
	}
	pan, _ := lib.Recover(func() {
		tk, err := storage.TKeyFromKey(key)
		if err != nil {
			p.tkCls = "err"
		} else {
			p.tkCls, p.tk = "ok", tk
		}
	})
	if pan {
		p.tkCls = "panic"
	}
	if !isNil {
		pan, _ = lib.Recover(func() {
			a, b, c, err := storage.DataKeyToLocalIDs(key)
			if err != nil {
				p.idsCls = "err"
			} else {
				p.idsCls, p.ids = "ok", [3]uint32{uint32(a), uint32(b), uint32(c)}
			}
		})
		if pan {
			p.idsCls = "panic"
		}
	}
	pan, _ = lib.Recover(func() {
		ctx := ctxFor(1, 1)
		v, err := ctx.VersionFromKey(key)
		if err != nil {
			p.verCls = "err"
		} else {
			p.verCls, p.ver = "ok", uint32(v)
		}
	})
	if pan {
		p.verCls = "panic"
	}
	return
}

func update(k []byte, i, v, c uint32) (string, []byte) {
	k2 := exact(k)
	cls := "ok"
	pan, _ := lib.Recover(func() {
		if err := storage.UpdateDataKey(storage.Key(k2), dvid.InstanceID(i), dvid.VersionID(v), dvid.ClientID(c)); err != nil {
			cls = "err"
		}
	})
	if pan {
		return "panic", nil
	}
	return cls, k2
}

func coqIDs(cls string, ids [3]uint32) string {
	return lib.CoqRes(cls, fmt.Sprintf("(%d, %d, %d)", ids[0], ids[1], ids[2]))
}

func digestStep(h uint64, b byte) uint64 { return h*1099511628211 + uint64(b) + 1 }
func digest(h uint64, bs []byte) uint64 {
	for _, b := range bs {
		h = digestStep(h, b)
	}
	return h
}

// ---- raw store access ----

func kvdb() storage.OrderedKeyValueDB {
	s, err := storage.DefaultKVStore()
	if err != nil {
		panic(err)
	}
	return s.(storage.OrderedKeyValueDB)
}

func dumpData() []*storage.KeyValue {
	db := kvdb()
	lo := storage.MinDataKey()
	hi := append(storage.MaxDataKey(), bytes.Repeat([]byte{0xFF}, 300)...)
	ch := make(chan *storage.KeyValue)
	var out []*storage.KeyValue
	done := make(chan struct{})
	go func() {
		for kv := range ch {
			if kv == nil {
				break
			}
			out = append(out, kv)
		}
		close(done)
	}()
	if err := db.RawRangeQuery(lo, hi, false, ch, nil); err != nil {
		panic(err)
	}
	<-done
	return out
}

func wipeData() {
	db := kvdb()
	for _, kv := range dumpData() {
		db.RawDelete(kv.K)
	}
}

func main() {
	o := lib.ParseOpts()
	rng := lib.NewRand(o.Seed)
	run := lib.NewRun("C06", o)
	run.Header("From DV Require Import Base.Prelude Model.KeysRun.", "Local Open Scope N_scope.")

	dv.Quiet()
	dv.Open()
	defer shutdown()
	root, err := dv.NewRepo("c06")
	if err != nil {
		fmt.Fprintln(os.Stderr, err)
		os.Exit(2)
	}
	rootV, _ := datastore.VersionFromUUID(dvid.UUID(root))
	// a second repo with a committed root and one child: storage-level reads at the child resolve over two versions
	chainRoot, err := dv.NewRepo("c06chain")
	if err != nil {
		fmt.Fprintln(os.Stderr, err)
		os.Exit(2)
	}
	dv.Commit(chainRoot)
	chainChild, _ := dv.NewVersion(chainRoot)
	chainRootV, _ := datastore.VersionFromUUID(dvid.UUID(chainRoot))
	chainChildV, err2 := datastore.VersionFromUUID(dvid.UUID(chainChild))
	if err2 != nil || chainChildV <= chainRootV {
		fmt.Fprintln(os.Stderr, "c06: no child version for the chain scenario:", err2)
		os.Exit(2)
	}
	stub, err = datastore.NewDataService(keyvalue.NewType(), dvid.UUID(root), 7, "stub", dvid.NewConfig())
	if err != nil {
		fmt.Fprintln(os.Stderr, err)
		os.Exit(2)
	}

	// ---------- case builders ----------
	addKey := func(kind string, i, v, c uint32, tk []byte) {
		ctx := ctxFor(i, v)
		key := []byte(ctx.ConstructKey(storage.TKey(tk)))
		tomb := []byte(ctx.TombstoneKey(storage.TKey(tk)))
		mn, _ := ctx.MinVersionKey(storage.TKey(tk))
		mx, _ := ctx.MaxVersionKey(storage.TKey(tk))
		ucls, upd := update(key, i, v, c)
		p := parseKey(exact(upd), false)
		p0 := parseKey(exact(key), false)
		m1, m2 := storage.Key(key).IsTombstone(), storage.Key(tomb).IsTombstone()
		bd := lib.NewBinder()
		term := bd.Wrap(fmt.Sprintf("CKey %d %d %d %s %s %s %s %s %s %s %s %s %s (%s, %s)", i, v, c, bd.Bytes(tk), bd.Bytes(key),
			coqIDs(p0.idsCls, p0.ids), lib.CoqRes(ucls, bd.Bytes(upd)), lib.CoqRes(p.tkCls, bd.Bytes(p.tk)), coqIDs(p.idsCls, p.ids), lib.CoqRes(p.verCls, lib.CoqN(uint64(p.ver))),
			bd.Bytes(tomb), bd.Bytes(mn), bd.Bytes(mx), lib.CoqBool(m1), lib.CoqBool(m2)))
		run.Count("tkey-len:" + lenClass(len(tk)))
		run.Add(kind, term, jcase{Kind: "key", I: i, V: v, C: c, TK: tk}, fmt.Sprintf("key/%d/%d/%d/%x", i, v, c, tk))
	}
	addKeyLite := func(kind string, i, v, c uint32, tk []byte) {
		key := []byte(ctxFor(i, v).ConstructKey(storage.TKey(tk)))
		ucls, upd := update(key, i, v, c)
		p := parseKey(exact(upd), false)
		term := fmt.Sprintf("(CKeyLite %d %d %d %s %s %s)", i, v, c, lib.CoqBytes(tk), resBytes(ucls, upd), coqIDs(p.idsCls, p.ids))
		run.Add(kind, term, jcase{Kind: "keylite", I: i, V: v, C: c, TK: tk}, fmt.Sprintf("key/%d/%d/%d/%x", i, v, c, tk))
	}
	addUpdTomb := func(i0, v0, i, v, c uint32, tk []byte) {
		tomb := []byte(ctxFor(i0, v0).TombstoneKey(storage.TKey(tk)))
		ucls, upd := update(tomb, i, v, c)
		p := parseKey(exact(upd), false)
		ist := ucls == "ok" && storage.Key(upd).IsTombstone()
		term := fmt.Sprintf("(CUpdTomb %d %d %d %d %d %s %s %s %s %s)", i0, v0, i, v, c, lib.CoqBytes(tk), resBytes(ucls, upd), lib.CoqBool(ist),
			coqIDs(p.idsCls, p.ids), resBytes(p.tkCls, p.tk))
		run.Add("update-tombstone", term, jcase{Kind: "updtomb", I: i, V: v, C: c, TK: tk, N: int(i0), Seed: uint64(v0)}, fmt.Sprintf("updtomb/%d/%d/%d/%x", i, v, c, tk))
	}
	addRange := func(i uint32, cls uint8) {
		ctx := ctxFor(i, 1)
		a1, b1 := ctx.KeyRange()
		a2, b2 := storage.DataInstanceKeyRange(dvid.InstanceID(i))
		a3, b3 := ctx.TKeyClassRange(storage.TKeyClass(cls))
		term := fmt.Sprintf("(CRange %d %d %s %s %s)", i, cls, pairBytes(a1, b1), pairBytes(a2, b2), pairBytes(a3, b3))
		run.Add("range", term, jcase{Kind: "range", I: i, Cls: cls}, fmt.Sprintf("range/%d/%d", i, cls))
	}
	addParse := func(k []byte, isNil bool, i, v, c uint32) {
		p := parseKey(exact(k), isNil)
		ucls, upd := "ok", []byte(nil)
		ks := "None"
		if !isNil {
			ucls, upd = update(k, i, v, c)
			ks = "(Some " + lib.CoqBytes(k) + ")"
		}
		if isNil {
			p.idsCls = "err"
		}
		term := fmt.Sprintf("(CParse %s %d %d %d %s %s %s %s)", ks, i, v, c, resBytes(p.tkCls, p.tk), coqIDs(p.idsCls, p.ids),
			lib.CoqRes(p.verCls, lib.CoqN(uint64(p.ver))), resBytes(ucls, upd))
		run.Count("parse-result:" + p.tkCls + "/" + p.idsCls + "/" + p.verCls)
		run.Add("parse", term, jcase{Kind: "parse", Key: k, Nil: isNil, I: i, V: v, C: c}, fmt.Sprintf("parse/%x/%v", k, isNil))
	}
	// zyx: the ZYX index whose 12 key bytes are b (z, y, x big-endian, offset by MinInt32)
	zyx := func(b []byte) dvid.IndexZYX {
		z := int32(int64(binary.BigEndian.Uint32(b[0:4])) + math.MinInt32)
		y := int32(int64(binary.BigEndian.Uint32(b[4:8])) + math.MinInt32)
		x := int32(int64(binary.BigEndian.Uint32(b[8:12])) + math.MinInt32)
		return dvid.IndexZYX{x, y, z}
	}
	addTKey := func(dt, idx int, d []byte) {
		d = append([]byte(nil), d...)
		// normalise the caller data to what the typed arguments can express (see Model/KeysRun.v class_table)
		switch dt*10 + idx {
		case 50: // plane bytes (7) ++ scale ++ 3 ++ ZYX index
			d = pad(d, 21)
			d[1] %= 6
			for j := 2 + int(d[1]); j < 7; j++ {
				d[j] = 0
			}
			d[8] = 3
		case 90, 110:
			if len(d) < 8 {
				d = pad(d, 8)
			}
		}
		cls, tk, dcls, dec := "ok", []byte(nil), "err", []byte(nil)
		pan, _ := lib.Recover(func() {
			var t storage.TKey
			var err error
			switch dt*10 + idx {
			case 0:
				t, err = keyvalue.NewTKey(string(d))
			case 10:
				t, err = neuronjson.NewTKey(string(d))
			case 11:
				t, err = neuronjson.NewJSONSchemaTKey()
			case 12:
				t, err = neuronjson.NewSchemaTKey()
			case 13:
				t, err = neuronjson.NewSchemaBatchTKey()
			case 20:
				t, err = annotation.NewTagTKey(annotation.Tag(d))
			case 21:
				t = annotation.NewLabelTKey(binary.BigEndian.Uint64(pad(d, 8)))
			case 22:
				b := pad(d, 12)
				z := int32(int64(binary.BigEndian.Uint32(b[0:4])) + math.MinInt32)
				y := int32(int64(binary.BigEndian.Uint32(b[4:8])) + math.MinInt32)
				x := int32(int64(binary.BigEndian.Uint32(b[8:12])) + math.MinInt32)
				t = annotation.NewBlockTKey(dvid.ChunkPoint3d{x, y, z})
			case 30:
				if len(d) == 0 {
					d = []byte{0}
				}
				t = labelmap.NewBlockTKeyByCoord(d[0], dvid.IZYXString(d[1:]))
			case 31:
				t = labelmap.NewLabelIndexTKey(binary.BigEndian.Uint64(pad(d, 8)))
			case 32:
				t = labelmap.NewAffinitiesTKey(binary.BigEndian.Uint64(pad(d, 8)))
			case 40:
				t = imageblk.NewTKeyByCoord(dvid.IZYXString(d))
				if len(d) == 12 { // the typed constructor must agree on a 12-byte coordinate
					ix := zyx(d)
					if t2 := imageblk.NewTKey(&ix); !bytes.Equal(t, t2) {
						t, err = t2, fmt.Errorf("imageblk.NewTKey(idx) differs from NewTKeyByCoord")
					}
				}
			case 41:
				t = imageblk.MetaTKey()
			case 50:
				var plane dvid.DataShape
				plane, err = dvid.BytesToDataShape(d[0:7])
				if err == nil {
					ix := zyx(d[9:21])
					t, err = imagetile.NewTKey(dvid.ChunkPoint3d{ix[0], ix[1], ix[2]}, plane, imagetile.Scaling(d[7]))
				}
			case 60:
				if len(d) == 0 {
					d = []byte{0}
				}
				t = labelarray.NewBlockTKeyByCoord(d[0], dvid.IZYXString(d[1:]))
				if len(d) == 13 {
					ix := zyx(d[1:])
					if t2 := labelarray.NewBlockTKey(d[0], &ix); !bytes.Equal(t, t2) {
						t, err = t2, fmt.Errorf("labelarray.NewBlockTKey differs from NewBlockTKeyByCoord")
					}
				}
			case 61:
				t = labelarray.NewLabelIndexTKey(binary.BigEndian.Uint64(pad(d, 8)))
			case 70:
				t = labelblk.NewTKeyByCoord(dvid.IZYXString(d))
				if len(d) == 12 {
					ix := zyx(d)
					if t2 := labelblk.NewTKey(&ix); !bytes.Equal(t, t2) {
						t, err = t2, fmt.Errorf("labelblk.NewTKey(idx) differs from NewTKeyByCoord")
					}
				}
			case 80: // body = type ++ BE32(MaxUint32 - size) ++ BE64(label)
				b := pad(d, 13)
				t = labelsz.NewTypeSizeLabelTKey(labelsz.IndexType(b[0]), math.MaxUint32-binary.BigEndian.Uint32(b[1:5]), binary.BigEndian.Uint64(b[5:13]))
			case 81:
				b := pad(d, 9)
				t = labelsz.NewTypeLabelTKey(labelsz.IndexType(b[0]), binary.BigEndian.Uint64(b[1:9]))
			case 90:
				t = labelvol.NewTKey(binary.BigEndian.Uint64(d[0:8]), dvid.IZYXString(d[8:]))
			case 110:
				t, err = tarsupervoxels.NewTKey(binary.BigEndian.Uint64(d[0:8]), string(d[8:]))
			default:
				err = fmt.Errorf("no constructor for table entry %d/%d", dt, idx)
			}
			if err != nil {
				cls = "err"
				return
			}
			tk = t
		})
		if pan {
			cls = "panic"
		}
		if cls == "ok" {
			pan, _ := lib.Recover(func() {
				var s string
				var err error
				switch dt*10 + idx {
				case 0:
					s, err = keyvalue.DecodeTKey(tk)
				case 10:
					s, err = neuronjson.DecodeTKey(tk)
				case 20:
					var tg annotation.Tag
					tg, err = annotation.DecodeTagTKey(tk)
					s = string(tg)
				default:
					err = fmt.Errorf("n/a")
				}
				if err == nil {
					dcls, dec = "ok", []byte(s)
				}
			})
			if pan {
				dcls = "panic"
			}
		}
		term := fmt.Sprintf("(CTKey %d%%nat %d%%nat %s %s %s)", dt, idx, lib.CoqBytes(d), resBytes(cls, tk), resBytes(dcls, dec))
		run.Count(fmt.Sprintf("tkey-class:%d/%d:%s", dt, idx, cls))
		run.Add("tkey", term, jcase{Kind: "tkey", DT: dt, Idx: idx, TK: d}, fmt.Sprintf("tkey/%d/%d/%x", dt, idx, d))
	}
	addSplit := func(k []byte) {
		cls, u, v, mcls, m := "ok", []byte(nil), []byte(nil), "err", []byte(nil)
		pan, _ := lib.Recover(func() {
			a, b, err := storage.SplitKey(storage.Key(exact(k)))
			if err != nil {
				cls = "err"
				return
			}
			u, v = a, b
		})
		if pan {
			cls = "panic"
		}
		if cls == "ok" {
			if p2, _ := lib.Recover(func() { m = storage.MergeKey(storage.Key(exact(u)), exact(v)) }); p2 {
				mcls = "panic"
			} else {
				mcls = "ok"
			}
		}
		term := fmt.Sprintf("(CSplit %s %s %s)", lib.CoqBytes(k), lib.CoqRes(cls, pairBytes(u, v)), resBytes(mcls, m))
		run.Count("split-result:" + cls)
		run.Add("split", term, jcase{Kind: "split", Key: k}, fmt.Sprintf("split/%x", k))
	}
	addDigest := func(tk []byte) {
		var dk, dt, dmin, dmax, du uint64
		for _, i := range grid {
			for _, v := range grid {
				ctx := ctxFor(i, v)
				dk = digest(dk, ctx.ConstructKey(storage.TKey(tk)))
				dt = digest(dt, ctx.TombstoneKey(storage.TKey(tk)))
				a, _ := ctx.MinVersionKey(storage.TKey(tk))
				b, _ := ctx.MaxVersionKey(storage.TKey(tk))
				dmin = digest(dmin, a)
				dmax = digest(dmax, b)
			}
		}
		base := []byte(ctxFor(0, 0).ConstructKey(storage.TKey(tk)))
		for _, i := range grid {
			for _, v := range grid {
				for _, c := range grid {
					cls, k := update(base, i, v, c)
					if cls == "ok" {
						du = digest(du, k)
					} else {
						du = digestStep(du, 254)
					}
				}
			}
		}
		g := make([]uint64, len(grid))
		for i, x := range grid {
			g[i] = uint64(x)
		}
		term := fmt.Sprintf("(CDigest %s %s %d %d %d %d %d)", lib.CoqNList(g), lib.CoqBytes(tk), dk, dt, dmin, dmax, du)
		run.Count("grid-points") // 49 + 343 per digest case, see rule
		run.Add("grid-digest", term, jcase{Kind: "digest", TK: tk}, fmt.Sprintf("digest/%x", tk))
	}

	type entry struct {
		i     uint32
		tk    []byte
		v, c  uint32
		tomb  bool
	}
	entryKey := func(e entry) []byte {
		ctx := ctxFor(e.i, e.v)
		var k []byte
		if e.tomb {
			k = ctx.TombstoneKey(storage.TKey(e.tk))
		} else {
			k = ctx.ConstructKey(storage.TKey(e.tk))
		}
		_, k2 := update(k, e.i, e.v, e.c)
		return k2
	}
	addOrder := func(seed uint64, n int) {
		r := lib.NewRand(seed)
		wipeData()
		// TKeys prefix free per instance: terminated strings without the terminator inside, and one fixed-length class
		mk := func() []byte {
			switch r.Intn(3) {
			case 0:
				s := make([]byte, r.Intn(4))
				for j := range s {
					s[j] = byte(1 + r.Intn(255))
				}
				t, _ := neuronjson.NewTKey(string(s))
				return t
			case 1:
				return labelmap.NewLabelIndexTKey(uint64(r.Pick(0, 1, 255, 256, 65535)) << uint(r.Pick(0, 8, 32, 56)))
			default:
				s := make([]byte, r.Intn(3))
				for j := range s {
					s[j] = byte(r.Pick(1, 0xFF, 0x61, 0x62))
				}
				t, _ := neuronjson.NewTKey(string(s))
				return t
			}
		}
		seen := map[string]bool{}
		var es []entry
		db := kvdb()
		for len(es) < n {
			e := entry{i: grid[r.Intn(len(grid))], tk: mk(), v: grid[r.Intn(len(grid))], c: grid[r.Intn(len(grid))], tomb: r.Chance(0.3)}
			k := entryKey(e)
			if seen[string(k)] {
				continue
			}
			seen[string(k)] = true
			es = append(es, e)
			if err := db.RawPut(k, []byte{}); err != nil {
				panic(err)
			}
		}
		var keys [][]byte
		for _, kv := range dumpData() {
			keys = append(keys, kv.K)
		}
		wipeData()
		ss := make([]string, len(es))
		for j, e := range es {
			m := 3
			if e.tomb {
				m = 0x4F
			}
			// marker byte as the Go code wrote it
			k := entryKey(e)
			m = int(k[len(k)-1])
			ss[j] = fmt.Sprintf("(%d, %s, %d, %d, %d)", e.i, lib.CoqBytes(e.tk), e.v, e.c, m)
		}
		term := fmt.Sprintf("(COrder [%s]\n   %s)", strings.Join(ss, "; "), coqKeys(keys))
		run.Count("order-entries")
		run.Add("order", term, jcase{Kind: "order", Seed: seed, N: n}, fmt.Sprintf("order/%d/%d", seed, n))
	}

	// storage-level scenario: shape names the generator, seed its randomness
	addStore := func(shape string, seed uint64) {
		r := lib.NewRand(seed)
		wipeData()
		db := kvdb()
		v := uint32(rootV)
		var steps []string
		put := func(i uint32, tk, val []byte) {
			if err := db.Put(ctxFor(i, v), storage.TKey(tk), val); err != nil {
				panic(err)
			}
			steps = append(steps, fmt.Sprintf("SPut %d %d %s %s", i, v, lib.CoqBytes(tk), lib.CoqBytes(val)))
		}
		del := func(i uint32, tk []byte) {
			if err := db.Delete(ctxFor(i, v), storage.TKey(tk)); err != nil {
				panic(err)
			}
			steps = append(steps, fmt.Sprintf("SDelete %d %d %s", i, v, lib.CoqBytes(tk)))
		}
		get := func(i uint32, tk []byte) {
			cls := "ok"
			var val []byte
			pan, _ := lib.Recover(func() {
				b, err := db.Get(ctxFor(i, v), storage.TKey(tk))
				if err != nil {
					cls = "err"
				}
				val = b
			})
			if pan {
				cls = "panic"
			}
			steps = append(steps, fmt.Sprintf("SGet %d %d %s %s", i, v, lib.CoqBytes(tk), lib.CoqRes(cls, lib.CoqOption(val != nil, lib.CoqBytes(val)))))
		}
		dropInstance := func(i uint32) {
			stub.SetInstanceID(dvid.InstanceID(i))
			if err := storage.DeleteDataInstance(stub); err != nil {
				panic(err)
			}
			steps = append(steps, fmt.Sprintf("SDropInstance %d", i))
		}
		deleteAllV := func(i uint32) {
			if err := db.DeleteAll(ctxFor(i, v)); err != nil {
				panic(err)
			}
			steps = append(steps, fmt.Sprintf("SDeleteAllV %d", i))
		}
		val := func() []byte { return []byte{byte(1 + r.Intn(250)), byte(r.Intn(256))} }
		var before []*storage.KeyValue
		switch shape {
		case "drop", "deleteall":
			// three neighbouring instances with equal-length keys; the middle (or first, or last) one is removed
			mid := grid[r.Intn(len(grid))]
			ids := []uint32{mid - 1, mid, mid + 1} // uint32 arithmetic wraps like the ids do
			nk := 1 + r.Intn(4)
			for _, i := range ids {
				for j := 0; j < nk; j++ {
					put(i, labelmap.NewLabelIndexTKey(uint64(j*7+1)), val())
				}
			}
			steps = nil
			before = dumpData()
			which := ids[r.Intn(3)]
			if shape == "drop" {
				dropInstance(which)
			} else {
				deleteAllV(which)
			}
		case "prefix":
			// TKeys that are prefixes of one another under one instance and version
			i := grid[r.Intn(len(grid))]
			before = dumpData()
			corpus := tkeyCorpus()
			for n := 0; n < 6+r.Intn(6); n++ {
				tk := corpus[r.Intn(len(corpus))]
				switch r.Intn(5) {
				case 0:
					del(i, tk)
				default:
					put(i, tk, val())
				}
			}
			for _, tk := range corpus {
				get(i, tk)
			}
		case "prefixchain":
			// TKeys that extend one another by bytes sorting between, before and after the version ids of the
			// shorter TKey's entries (T ++ BE32(version) ++ ...): written at a committed root, then every one
			// of them overwritten or deleted at the child, then read at the child
			i := grid[r.Intn(len(grid))]
			before = dumpData()
			be := func(x uint32) []byte { return []byte{byte(x >> 24), byte(x >> 16), byte(x >> 8), byte(x)} }
			base := tkeyCorpus()[r.Intn(len(tkeyCorpus()))]
			if len(base) > 12 {
				base = base[:12]
			}
			cat := func(parts ...[]byte) []byte {
				var out []byte
				for _, p := range parts {
					out = append(out, p...)
				}
				return out
			}
			ff := []byte{0xFF, 0xFF, 0xFF, 0xFF, 0xFF}
			tks := [][]byte{base, cat(base, be(uint32(chainRootV)), ff), cat(base, be(uint32(chainChildV)), ff), cat(base, be(uint32(chainRootV))),
				cat(base, be(0)), cat(base, be(uint32(chainChildV)+1), []byte{0}), cat(base, []byte{0}), cat(base, be(uint32(chainRootV)), []byte{0, 0, 0, 0, 0x4F})}
			v = uint32(chainRootV)
			for _, tk := range tks {
				if r.Chance(0.85) {
					put(i, tk, val())
				}
			}
			v = uint32(chainChildV)
			for _, tk := range tks {
				if r.Chance(0.4) {
					del(i, tk)
				} else {
					put(i, tk, val())
				}
			}
			for _, tk := range tks {
				get(i, tk)
			}
			v = uint32(rootV)
		default: // "mixed": random operations over neighbouring instances
			base := grid[r.Intn(len(grid))]
			ids := []uint32{base, base + 1, base + 2}
			before = dumpData()
			corpus := tkeyCorpus()
			for n := 0; n < 10+r.Intn(10); n++ {
				i := ids[r.Intn(3)]
				tk := corpus[r.Intn(len(corpus))]
				switch r.Intn(10) {
				case 0:
					dropInstance(i)
				case 1:
					deleteAllV(i)
				case 2, 3:
					del(i, tk)
				case 4:
					get(i, tk)
				default:
					put(i, tk, val())
				}
			}
		}
		after := dumpData()
		wipeData()
		term := fmt.Sprintf("(CStore %s\n   [%s]\n   %s)", coqStore(before), strings.Join(steps, ";\n    "), coqStore(after))
		run.Count("store-shape:" + shape)
		run.Add("store", term, jcase{Kind: "store", Shape: shape, Seed: seed}, fmt.Sprintf("store/%s/%d", shape, seed))
	}

	histN := 0
	addHist := func(seed uint64, wrap bool, lifecycle bool, race bool) {
		r := lib.NewRand(seed)
		wipeData()
		histN++
		if wrap {
			// reachable through the configuration file: instance_id_start
			if err := datastore.Initialize(false, datastore.Config{InstanceStart: dvid.InstanceID(math.MaxUint32 - 1)}); err != nil {
				panic(err)
			}
		}
		names := map[int]string{}
		ids := map[int]uint32{}
		var steps []string
		newInst := func(slot int, name string) {
			if err := dv.NewInstance(root, "keyvalue", name, nil); err != nil {
				panic(err)
			}
			d, err := datastore.GetDataByUUIDName(dvid.UUID(root), dvid.InstanceName(name))
			if err != nil {
				panic(err)
			}
			names[slot], ids[slot] = name, uint32(d.InstanceID())
			// right after creation nothing may be stored under the new id
			empty := true
			stubFor(uint32(d.InstanceID()))
			lo, hi := storage.NewDataContext(stub, 0).KeyRange()
			for _, kv := range dumpData() {
				if bytes.Compare(kv.K, lo) >= 0 && bytes.Compare(kv.K, hi) < 0 {
					empty = false
				}
			}
			if kr := dv.Get("/api/node/" + root + "/" + name + "/keys"); kr.Status != 200 || strings.TrimSpace(string(kr.Body)) != "[]" {
				empty = false
			}
			steps = append(steps, fmt.Sprintf("HNew %d%%nat %d %s", slot, d.InstanceID(), lib.CoqBool(empty)))
		}
		keyURL := func(slot int, k []byte) string {
			return "/api/node/" + root + "/" + names[slot] + "/key/" + url.PathEscape(string(k))
		}
		// Deletion runs in a goroutine of the server.  It is over when the repo no longer lists the
		// name; its final repo save must not overlap another repo mutation (saveToStore re-enters
		// the repo's read lock through GobEncode and deadlocks against a waiting writer), hence the pause.
		waitGone := func(name string) {
			for n := 0; n < 4000; n++ {
				info := string(dv.Get("/api/repo/" + root + "/info").Body)
				if !strings.Contains(info, `"`+name+`"`) {
					break
				}
				time.Sleep(5 * time.Millisecond)
			}
			time.Sleep(40 * time.Millisecond)
		}
		instKVs := func(id uint32) []*storage.KeyValue {
			stubFor(id)
			lo, hi := storage.NewDataContext(stub, 0).KeyRange()
			var l []*storage.KeyValue
			for _, kv := range dumpData() {
				if bytes.Compare(kv.K, lo) >= 0 && bytes.Compare(kv.K, hi) < 0 {
					l = append(l, kv)
				}
			}
			return l
		}
		// the key-values go after the metadata: give the deletion goroutine time to finish
		waitKeysGone := func(id uint32) {
			for n := 0; n < 400 && len(instKVs(id)) > 0; n++ {
				time.Sleep(5 * time.Millisecond)
			}
		}
		drop := func(slot int) {
			if err := datastore.DeleteDataByName(dvid.UUID(root), dvid.InstanceName(names[slot]), ""); err != nil {
				panic(err)
			}
			waitGone(names[slot])
			waitKeysGone(ids[slot])
			steps = append(steps, fmt.Sprintf("HDrop %d%%nat", slot))
		}
		// An interrupted deletion: repoT.deleteData saves the repo without the instance and the process
		// dies before storage.DeleteDataInstance has removed the key-values.  The state is produced by
		// letting the deletion complete and putting the instance's key-values back (RawPut).
		crashDrop := func(slot int) {
			kvs := instKVs(ids[slot])
			if err := datastore.DeleteDataByName(dvid.UUID(root), dvid.InstanceName(names[slot]), ""); err != nil {
				panic(err)
			}
			waitGone(names[slot])
			waitKeysGone(ids[slot])
			for _, kv := range kvs {
				if err := kvdb().RawPut(kv.K, kv.V); err != nil {
					panic(err)
				}
			}
			steps = append(steps, fmt.Sprintf("HCrashDrop %d%%nat", slot))
		}
		restart := func() {
			datastore.CloseReopenTest()
			var err error
			stub, err = datastore.NewDataService(keyvalue.NewType(), dvid.UUID(root), 7, "stub", dvid.NewConfig())
			if err != nil {
				panic(err)
			}
			steps = append(steps, "HRestart")
		}
		corpus := [][]byte{[]byte("a"), []byte("ab"), []byte("b"), []byte("a\x00b"), []byte("a\x00"), []byte("zz z"), []byte("\xc3\xa9"), []byte("k%41")}
		view := func(slot int) string {
			r := dv.Get("/api/node/" + root + "/" + names[slot] + "/keys")
			ks := "Err"
			if r.Status == 200 {
				var l []string
				if json.Unmarshal(r.Body, &l) == nil {
					bs := make([][]byte, len(l))
					for i, s := range l {
						bs[i] = []byte(s)
					}
					ks = "(Ok " + coqKeys(bs) + ")"
				}
			}
			gs := make([]string, len(corpus))
			for i, k := range corpus {
				g := dv.Get(keyURL(slot, k))
				switch {
				case g.Status == 200:
					gs[i] = fmt.Sprintf("(%s, Ok (Some %s))", lib.CoqBytes(k), lib.CoqBytes(g.Body))
				case g.Status == 404:
					gs[i] = fmt.Sprintf("(%s, Ok None)", lib.CoqBytes(k))
				default:
					gs[i] = fmt.Sprintf("(%s, Err)", lib.CoqBytes(k))
				}
			}
			return "(" + ks + ", [" + strings.Join(gs, "; ") + "])"
		}
		sfx := fmt.Sprintf("%d", histN)
		ctr := 0
		writes := func(count int, slots []int) {
			for n := 0; n < count; n++ {
				slot := slots[r.Intn(len(slots))]
				k := corpus[r.Intn(len(corpus))]
				if r.Chance(0.25) {
					resp := dv.Delete(keyURL(slot, k))
					steps = append(steps, fmt.Sprintf("HDel %d%%nat %s %s", slot, lib.CoqBytes(k), lib.CoqBool(resp.Status == 200)))
				} else {
					ctr++
					body := []byte{byte('A' + slot), byte(ctr)}
					resp := dv.Post(keyURL(slot, k), body)
					steps = append(steps, fmt.Sprintf("HPost %d%%nat %s %s %s", slot, lib.CoqBytes(k), lib.CoqBytes(body), lib.CoqBool(resp.Status == 200)))
				}
			}
		}
		if race {
			// Delete an instance and re-create its name at once, while the deletion goroutine has not
			// yet removed the old instance from the repo (it is held at the yield point at the start of
			// repoT.deleteData when the tree has it; otherwise the attempt simply comes later), writes
			// to the new instance, then the deletion runs to its end.  Afterwards the instance that was
			// created must exist with exactly its own data.
			name := "R" + sfx
			newInst(0, name)
			writes(4, []int{0})
			cur := 0
			parked := make(chan struct{}, 8)
			release := make(chan struct{})
			verifhook.Set(func(site string) {
				if site == "datastore.deleteData.start" {
					parked <- struct{}{}
					<-release
				}
			})
			for round := 0; round < 3; round++ {
				oldID := ids[cur]
				if err := datastore.DeleteDataByName(dvid.UUID(root), dvid.InstanceName(name), ""); err != nil {
					run.Count("race:delete-refused-instance-missing")
					break
				}
				steps = append(steps, fmt.Sprintf("HDropHeld %d%%nat", cur))
				held := false
				select {
				case <-parked:
					held = true
				case <-time.After(300 * time.Millisecond):
				}
				run.Count(fmt.Sprintf("race:deletion-held:%v", held))
				if !held {
					// no yield point in this tree: the deletion has run; the re-creation comes after it
					waitGone(name)
					waitKeysGone(oldID)
					steps = append(steps, "HRelease")
				}
				next := cur + 1
				accepted := dv.NewInstance(root, "keyvalue", name, nil) == nil
				if accepted {
					d, err := datastore.GetDataByUUIDName(dvid.UUID(root), dvid.InstanceName(name))
					if err != nil {
						accepted = false
					} else {
						names[next], ids[next] = name, uint32(d.InstanceID())
						steps = append(steps, fmt.Sprintf("HTryNew %d%%nat (Some %d)", next, d.InstanceID()))
						writes(3, []int{next})
					}
				}
				if !accepted {
					steps = append(steps, fmt.Sprintf("HTryNew %d%%nat None", next))
				}
				if held {
					release <- struct{}{}
					waitKeysGone(oldID)
					time.Sleep(80 * time.Millisecond)
					steps = append(steps, "HRelease")
				}
				if !accepted {
					waitGone(name)
					newInst(next, name)
				}
				writes(3, []int{next})
				cur = next
			}
			verifhook.Set(nil)
			time.Sleep(80 * time.Millisecond)
			vw := fmt.Sprintf("[(%d%%nat, %s)]", cur, view(cur))
			if datastore.DeleteDataByName(dvid.UUID(root), dvid.InstanceName(name), "") == nil {
				waitGone(name)
			}
			time.Sleep(100 * time.Millisecond)
			wipeData()
			term := fmt.Sprintf("(CRace %d\n   [%s]\n   %s)", rootV, strings.Join(steps, "; "), vw)
			run.Add("race", term, jcase{Kind: "hist", Seed: seed, Shape: "race"}, fmt.Sprintf("hist/%d/race", seed))
			return
		}
		if lifecycle {
			// instance life cycle with restarts: the instance with the highest id is deleted and its
			// deletion interrupted, another one is deleted completely, the server restarts, new
			// instances are created (one under the name of the interrupted one)
			for j, nm := range []string{"A", "B", "C", "D"} {
				newInst(j, nm+sfx)
			}
			writes(12+r.Intn(6), []int{0, 1, 2, 3})
			ctr++
			dv.Post(keyURL(3, corpus[0]), []byte{'D', byte(ctr)}) // the doomed instance holds something
			steps = append(steps, fmt.Sprintf("HPost 3%%nat %s %s true", lib.CoqBytes(corpus[0]), lib.CoqBytes([]byte{'D', byte(ctr)})))
			before := view(1)
			if r.Bool() {
				drop(2)
				crashDrop(3)
			} else {
				crashDrop(3)
				drop(2)
			}
			restart()
			after := view(1)
			newInst(4, "E"+sfx)
			writes(4, []int{0, 4})
			if r.Bool() {
				restart()
			}
			newInst(5, "D"+sfx) // the name of the instance whose deletion was interrupted
			anew := view(5)
			var keys [][]byte
			for _, kv := range dumpData() {
				keys = append(keys, kv.K)
			}
			for _, nm := range []string{"A", "B", "E", "D"} {
				if datastore.DeleteDataByName(dvid.UUID(root), dvid.InstanceName(nm+sfx), "") == nil {
					waitGone(nm + sfx)
				}
			}
			time.Sleep(100 * time.Millisecond)
			wipeData()
			term := fmt.Sprintf("(CHist %d\n   [%s]\n   %s\n   %s\n   %s\n   %s)", rootV, strings.Join(steps, "; "), coqKeys(keys), before, after, anew)
			run.Count("hist-lifecycle")
			run.Add("history", term, jcase{Kind: "hist", Seed: seed, Shape: "lifecycle"}, fmt.Sprintf("hist/%d/lifecycle", seed))
			return
		}
		newInst(0, "A"+sfx)
		newInst(1, "B"+sfx)
		for n := 0; n < 14+r.Intn(10); n++ {
			slot := r.Intn(2)
			k := corpus[r.Intn(len(corpus))]
			if r.Chance(0.25) {
				resp := dv.Delete(keyURL(slot, k))
				steps = append(steps, fmt.Sprintf("HDel %d%%nat %s %s", slot, lib.CoqBytes(k), lib.CoqBool(resp.Status == 200)))
			} else {
				ctr++
				body := []byte{byte('A' + slot), byte(ctr)}
				resp := dv.Post(keyURL(slot, k), body)
				steps = append(steps, fmt.Sprintf("HPost %d%%nat %s %s %s", slot, lib.CoqBytes(k), lib.CoqBytes(body), lib.CoqBool(resp.Status == 200)))
			}
		}
		before := view(1)
		drop(0)
		after := view(1)
		newInst(2, "A"+sfx) // same name again
		anew := view(2)
		if wrap && r.Bool() {
			drop(1) // the instance with the largest id
		}
		var keys [][]byte
		for _, kv := range dumpData() {
			keys = append(keys, kv.K)
		}
		// clean up for the next case (not part of the case)
		for _, nm := range []string{"A" + sfx, "B" + sfx} {
			if datastore.DeleteDataByName(dvid.UUID(root), dvid.InstanceName(nm), "") == nil {
				waitGone(nm)
			}
		}
		wipeData()
		if wrap {
			if err := datastore.Initialize(false, datastore.Config{}); err != nil {
				panic(err)
			}
		}
		term := fmt.Sprintf("(CHist %d\n   [%s]\n   %s\n   %s\n   %s\n   %s)", rootV, strings.Join(steps, "; "), coqKeys(keys), before, after, anew)
		run.Count(fmt.Sprintf("hist-wrap:%v", wrap))
		run.Add("history", term, jcase{Kind: "hist", Seed: seed, Nil: wrap}, fmt.Sprintf("hist/%d/%v", seed, wrap))
	}

	// ---------- replay ----------
	if o.Replay != "" {
		var c jcase
		if err := lib.LoadReplay(o.Replay, &c); err != nil {
			fmt.Fprintln(os.Stderr, err)
			os.Exit(2)
		}
		switch c.Kind {
		case "key":
			addKey("key", c.I, c.V, c.C, c.TK)
		case "keylite":
			addKeyLite("key-cube", c.I, c.V, c.C, c.TK)
		case "updtomb":
			addUpdTomb(uint32(c.N), uint32(c.Seed), c.I, c.V, c.C, c.TK)
		case "range":
			addRange(c.I, c.Cls)
		case "parse":
			addParse(c.Key, c.Nil, c.I, c.V, c.C)
		case "tkey":
			addTKey(c.DT, c.Idx, c.TK)
		case "split":
			addSplit(c.Key)
		case "digest":
			addDigest(c.TK)
		case "order":
			addOrder(c.Seed, c.N)
		case "store":
			addStore(c.Shape, c.Seed)
		case "hist":
			addHist(c.Seed, c.Nil, c.Shape == "lifecycle", c.Shape == "race")
		}
		run.Finish("c06case", "replay", tail)
		shutdown()
		os.Exit(0)
	}

	// ---------- generation ----------
	thorough := o.Thorough()
	corpus := tkeyCorpus()

	// full boundary cube with one short TKey (outputs compared literally) ...
	for _, i := range grid {
		for _, v := range grid {
			for _, c := range grid {
				addKeyLite("key-cube", i, v, c, []byte{0xb1, 0x01})
			}
		}
	}
	// ... one coordinate at a time with every TKey of the corpus ...
	for _, tk := range corpus {
		for n, x := range grid {
			addKey("key-axis", x, 1, 0, tk)
			if thorough || n == 0 || n == 4 || n == 6 {
				addKey("key-axis", 1, x, 0, tk)
			}
			if thorough {
				addKey("key-axis", 1, 1, x, tk)
			}
		}
	}
	// ... the whole cube x corpus by digest ...
	for _, tk := range corpus {
		addDigest(tk)
	}
	// ... and random points
	nRand := 30
	if thorough {
		nRand = 1500
	}
	if o.N > 0 {
		nRand = o.N
	}
	for n := 0; n < nRand; n++ {
		tk := rng.Bytes(rng.Intn(12))
		if rng.Chance(0.3) {
			tk = corpus[rng.Intn(len(corpus))]
		}
		pick := func() uint32 {
			if rng.Chance(0.4) {
				return grid[rng.Intn(len(grid))]
			}
			return uint32(rng.U64())
		}
		addKey("key-random", pick(), pick(), pick(), tk)
	}
	// a tombstone key stays a tombstone key when its ids are rewritten (push / copy remap ids this way)
	for n, tk := range corpus {
		addUpdTomb(grid[n%len(grid)], 1, grid[(n+3)%len(grid)], grid[(n+5)%len(grid)], grid[(n+1)%len(grid)], tk)
		addUpdTomb(uint32(rng.U64()), uint32(rng.U64()), uint32(rng.U64()), uint32(rng.U64()), uint32(rng.U64()), tk)
	}
	for _, i := range grid {
		for _, cls := range []uint8{0, 1, 177, 255} {
			addRange(i, cls)
		}
	}
	// malformed and short keys
	addParse(nil, true, 1, 2, 3)
	addParse([]byte{}, false, 1, 2, 3)
	for _, p := range []byte{0, 1, 2, 3, 255} {
		for _, n := range []int{1, 2, 4, 5, 6, 9, 10, 13, 14, 15, 20} {
			k := append([]byte{p}, rng.Bytes(n-1)...)
			addParse(k, false, uint32(rng.U64()), grid[rng.Intn(len(grid))], uint32(rng.U64()))
		}
	}
	nMal := 40
	if thorough {
		nMal = 800
	}
	for n := 0; n < nMal; n++ {
		k := rng.Bytes(rng.Intn(24))
		if len(k) > 0 && rng.Chance(0.7) {
			k[0] = 1
		}
		addParse(k, false, uint32(rng.U64()), uint32(rng.U64()), uint32(rng.U64()))
	}
	// datatype constructors
	strs := [][]byte{{}, []byte("a"), []byte("ab"), []byte("a\x00b"), []byte("a\x00"), {0}, {0, 0}, {0xFF}, {0xFF, 0xFF, 0xFF}, []byte("12345678901234567890")}
	for _, s := range strs {
		addTKey(0, 0, s)
		addTKey(1, 0, s)
		addTKey(2, 0, s)
	}
	for _, idx := range []int{1, 2, 3} {
		addTKey(1, idx, nil)
	}
	for n := 0; n < 6; n++ {
		addTKey(2, 1, rng.Bytes(8))
		addTKey(2, 2, rng.Bytes(12))
		addTKey(3, 1, rng.Bytes(8))
		addTKey(3, 2, rng.Bytes(8))
		addTKey(3, 0, rng.Bytes(13))
	}
	for _, n := range []int{1, 5, 12, 14, 20} { // IZYXString shorter / longer than 12 bytes
		addTKey(3, 0, rng.Bytes(n))
	}
	addTKey(2, 1, bytes.Repeat([]byte{0xFF}, 8))
	addTKey(2, 2, bytes.Repeat([]byte{0}, 12))
	addTKey(2, 2, bytes.Repeat([]byte{0xFF}, 12))
	// round 4: every other datatype's constructors.  Coordinates: 00.. = MinInt32, 7fffffff = -1, 80000000 = 0,
	// ff.. = MaxInt32; labels 0, 1, 2^63, 2^64-1.
	coords := [][]byte{bytes.Repeat([]byte{0}, 12), bytes.Repeat([]byte{0xFF}, 12),
		{0x7F, 0xFF, 0xFF, 0xFF, 0x7F, 0xFF, 0xFF, 0xFF, 0x7F, 0xFF, 0xFF, 0xFF},
		{0x80, 0, 0, 0, 0x80, 0, 0, 0, 0x80, 0, 0, 0},
		{0x80, 0, 0, 1, 0x7F, 0xFF, 0xFF, 0xFE, 0, 0, 0, 0}, rng.Bytes(12)}
	labels := [][]byte{bytes.Repeat([]byte{0}, 8), {0, 0, 0, 0, 0, 0, 0, 1}, {0x80, 0, 0, 0, 0, 0, 0, 0}, bytes.Repeat([]byte{0xFF}, 8),
		{0, 0, 0, 0, 0, 0, 0, 9}, {0, 0, 0, 0, 0, 0, 0, 10}, {0, 0, 0, 0, 0x3B, 0x9A, 0xCA, 0x00}, rng.Bytes(8)}
	cat := func(bs ...[]byte) []byte { return bytes.Join(bs, nil) }
	for _, c := range coords {
		addTKey(4, 0, c)
		addTKey(7, 0, c)
		addTKey(6, 0, cat([]byte{byte(rng.Intn(8))}, c))
		addTKey(5, 0, cat([]byte{3, 2, byte(rng.Intn(3)), byte(rng.Intn(3)), 0, 0, 0, byte(rng.Intn(10)), 3}, c))
		addTKey(9, 0, cat(labels[rng.Intn(len(labels))], c))
	}
	addTKey(5, 0, cat([]byte{2, 5, 1, 2, 3, 4, 5, 255, 3}, coords[2])) // a plane that is not 3d: first byte is not the class byte
	addTKey(4, 1, nil)
	for _, n := range []int{0, 1, 5, 11, 13, 20} { // coordinate strings of the wrong length go through unchecked
		addTKey(4, 0, rng.Bytes(n))
		addTKey(7, 0, rng.Bytes(n))
		addTKey(9, 0, rng.Bytes(8+n))
		addTKey(6, 0, rng.Bytes(1+n))
	}
	addTKey(4, 0, []byte("a"))
	addTKey(4, 0, []byte("ab"))
	for _, l := range labels {
		addTKey(6, 1, l)
		addTKey(8, 0, cat([]byte{byte(rng.Intn(6))}, rng.Bytes(4), l))
		addTKey(8, 1, cat([]byte{byte(rng.Intn(6))}, l))
		addTKey(9, 0, l)
		addTKey(11, 0, cat(l, []byte("dat")))
	}
	addTKey(11, 0, cat(labels[1], []byte("a")))
	addTKey(11, 0, cat(labels[1], []byte("ab")))
	addTKey(11, 0, cat(labels[3], nil))
	addTKey(11, 0, cat(labels[3], []byte{0, 0xFF, '.'}))
	// SplitKey / MergeKey: constructed keys over the grid and the TKey corpus, metadata and blob keys, malformed keys
	for _, tk := range tkeyCorpus() {
		i, v, c := grid[rng.Intn(len(grid))], grid[rng.Intn(len(grid))], grid[rng.Intn(len(grid))]
		ctx := ctxFor(i, v)
		_, k := update(ctx.ConstructKey(storage.TKey(tk)), i, v, c)
		addSplit(k)
		addSplit(ctx.TombstoneKey(storage.TKey(tk)))
		addSplit(append([]byte{0}, tk...))
		addSplit(append([]byte{2}, tk...))
	}
	addSplit(nil)
	for n := 1; n <= 10; n++ {
		addSplit(append([]byte{1}, rng.Bytes(n-1)...))
	}
	for n := 0; n < 12; n++ {
		addSplit(rng.Bytes(1 + rng.Intn(20)))
	}

	// real badger store: order
	nOrd := 2
	if thorough {
		nOrd = 12
	}
	for n := 0; n < nOrd; n++ {
		addOrder(rng.U64(), 60)
	}
	// storage-level scenarios
	nSt := 8
	if thorough {
		nSt = 80
	}
	for n := 0; n < nSt; n++ {
		addStore("drop", rng.U64())
		addStore("deleteall", rng.U64())
	}
	for n := 0; n < nSt/2; n++ {
		addStore("prefix", rng.U64())
		addStore("prefixchain", rng.U64())
		addStore("mixed", rng.U64())
	}
	// HTTP-level instance histories
	nH := 3
	if thorough {
		nH = 20
	}
	for n := 0; n < nH; n++ {
		addHist(rng.U64(), false, false, false)
	}
	for n := 0; n < 1+nH/3; n++ {
		addHist(rng.U64(), true, false, false)
	}
	nR := 2
	if thorough {
		nR = 10
	}
	for n := 0; n < nR; n++ {
		addHist(rng.U64(), false, false, true)
	}
	// life cycles with restarts last: a restart replaces the store objects the earlier sections hold
	nL := 2
	if thorough {
		nL = 8
	}
	for n := 0; n < nL; n++ {
		addHist(rng.U64(), false, true, false)
	}
	run.Extra["grid"] = grid
	run.Extra["digest_points_per_case"] = 49*4 + 343
	run.Finish("c06case",
		"boundary grid {0,1,255,256,2^31,2^32-2,2^32-1}^3 literally with one TKey, per axis with the TKey corpus (empty, 0x00/0xFF runs, prefix pairs, datatype keys), the whole cube x corpus by digest, random ids/TKeys; malformed keys; every datatype package's TKey constructors (generated table; MinInt32/-1/0/MaxInt32 coordinates, labels 0/1/2^63/2^64-1, wrong-length coordinate strings); SplitKey/MergeKey on constructed, metadata, blob and malformed keys; RawRangeQuery order on badger; storage-level drop/DeleteAll/prefix/mixed scenarios over neighbouring instance ids; HTTP A/B histories with deletion and re-creation incl. instance ids wrapping at 2^32; delete-and-recreate-at-once rounds with the deletion goroutine held before it removes the instance by name; instance life cycles with restarts (complete and interrupted deletion of the highest id, re-creation under the same name, emptiness of every new instance by raw dump); distinct by (kind, inputs)",
		tail)
}

// shutdown closes the datastore but never lets a slow engine shutdown keep the driver alive
// (check.py removes the scratch directory itself).
func shutdown() {
	done := make(chan struct{})
	go func() { dv.Close(); close(done) }()
	select {
	case <-done:
	case <-time.After(10 * time.Second):
	}
}

func pad(d []byte, n int) []byte {
	b := make([]byte, n)
	copy(b, d)
	return b
}

func lenClass(n int) string {
	switch {
	case n == 0:
		return "0"
	case n <= 2:
		return "1-2"
	case n <= 8:
		return "3-8"
	default:
		return ">8"
	}
}

// tkeyCorpus: empty, single bytes, 0x00 / 0xFF runs, pairs where one is a prefix of the other,
// and TKeys as the datatypes make them.
func tkeyCorpus() [][]byte {
	kv := func(s string) []byte { return append([]byte{177, 1}, append([]byte(s), 0)...) }
	return [][]byte{
		{},
		{0},
		{0xFF},
		{0, 0, 0, 0},
		{0xFF, 0xFF, 0xFF, 0xFF, 0xFF, 0xFF, 0xFF, 0xFF, 0xFF, 0xFF},
		{177, 1},
		kv("a"),
		kv("a\x00b"),
		kv("ab"),
		append(kv("a"), 0, 0, 0, 1, 0, 0, 0, 0, 3), // looks like kv("a") followed by a version suffix
		{187, 1, 0, 0, 0, 0, 0, 0, 0, 5},
	}
}

const tail = `
Definition spec_fail := Eval vm_compute in c06_spec_fail cases.
Definition model_mismatch := Eval vm_compute in c06_model_mismatch cases.
`
