// Driver C01: version resolution. (i) the real repoManager.findMatch on synthetic DAGs through
// the verif hook; (ii) HTTP histories on a keyvalue instance over a real badger store.
package main

import (
	"encoding/json"
	"fmt"
	"os"
	"strconv"
	"strings"

	"github.com/janelia-flyem/dvid/datastore"
	"github.com/janelia-flyem/dvid/dvid"
	"verif/harness/dv"
	"verif/harness/kvhist"
	"verif/harness/lib"
)

type entry struct {
	V    int  `json:"v"`
	Tomb bool `json:"tomb"`
	ID   int  `json:"id"`
}

type dagCase struct {
	Kind    string  `json:"kind"`
	Parents [][]int `json:"parents"` // Parents[i] = ordered parents of node i+1
	Entries []entry `json:"entries"` // in the order handed to the resolver
	V       int     `json:"v"`
}

type histCase struct {
	Kind string       `json:"kind"`
	Ops  []kvhist.Hop `json:"ops"`
}

func coqDag(parents [][]int) string {
	var ss []string
	for i := len(parents) - 1; i >= 0; i-- {
		if len(parents[i]) == 0 {
			continue
		}
		ps := make([]string, len(parents[i]))
		for j, p := range parents[i] {
			ps[j] = strconv.Itoa(p)
		}
		ss = append(ss, fmt.Sprintf("(%d,[%s])", i+1, strings.Join(ps, ";")))
	}
	return "[" + strings.Join(ss, ";") + "]"
}

func coqEntries(es []entry) string {
	ss := make([]string, len(es))
	for i, e := range es {
		if e.Tomb {
			ss[i] = fmt.Sprintf("(%d,Tomb)", e.V)
		} else {
			ss[i] = fmt.Sprintf("(%d,Val %d)", e.V, e.ID)
		}
	}
	return "[" + strings.Join(ss, ";") + "]"
}

// runHook calls the real findMatch.
func runHook(c dagCase) string {
	parents := map[dvid.VersionID][]dvid.VersionID{}
	for i, ps := range c.Parents {
		var l []dvid.VersionID
		for _, p := range ps {
			l = append(l, dvid.VersionID(p))
		}
		parents[dvid.VersionID(i+1)] = l
	}
	var es []datastore.VerifEntry
	for _, e := range c.Entries {
		es = append(es, datastore.VerifEntry{V: dvid.VersionID(e.V), Tombstone: e.Tomb, ID: uint64(e.ID)})
	}
	var res string
	p, _ := lib.Recover(func() {
		fv, id, found, err := datastore.VerifFindMatch(parents, es, dvid.VersionID(c.V))
		switch {
		case err != nil:
			res = "ObsErr"
		case !found:
			res = "ObsNone"
		default:
			res = fmt.Sprintf("(ObsVal %d (Some %d))", id, fv)
		}
	})
	if p {
		return "ObsErr"
	}
	return res
}

// relabel gives the nodes 1..n arbitrary distinct version ids (not topological; values around the
// byte boundaries of the 4-byte version field of a storage key).
func relabel(rng *lib.Rand, c dagCase) (ids []int) {
	pool := []int{1, 2, 3, 7, 254, 255, 256, 257, 511, 512, 65535, 65536, 65537, 70000, 1 << 24, 1<<24 + 1, 1<<31 - 1, 1000, 20, 21, 22, 500, 700}
	used := map[int]bool{}
	for i := 0; i < len(c.Parents); i++ {
		for {
			x := pool[rng.Intn(len(pool))]
			if rng.Chance(0.3) {
				x = 1 + rng.Intn(100000)
			}
			if !used[x] {
				used[x] = true
				ids = append(ids, x)
				break
			}
		}
	}
	return
}

func addDag2(run *lib.Run, c dagCase, ids []int) {
	parents := map[dvid.VersionID][]dvid.VersionID{}
	var dagS []string
	for i := len(c.Parents) - 1; i >= 0; i-- {
		var l []dvid.VersionID
		var ps []string
		for _, p := range c.Parents[i] {
			l = append(l, dvid.VersionID(ids[p-1]))
			ps = append(ps, strconv.Itoa(ids[p-1]))
		}
		parents[dvid.VersionID(ids[i])] = l
		if len(ps) > 0 {
			dagS = append(dagS, fmt.Sprintf("(%d,[%s])", ids[i], strings.Join(ps, ";")))
		}
	}
	var es []datastore.VerifEntry
	var esS []string
	for _, e := range c.Entries {
		es = append(es, datastore.VerifEntry{V: dvid.VersionID(ids[e.V-1]), Tombstone: e.Tomb, ID: uint64(e.ID)})
		if e.Tomb {
			esS = append(esS, fmt.Sprintf("(%d,Tomb)", ids[e.V-1]))
		} else {
			esS = append(esS, fmt.Sprintf("(%d,Val %d)", ids[e.V-1], e.ID))
		}
	}
	obs := func(id uint64, found bool, err error) string {
		switch {
		case err != nil:
			return "ObsErr"
		case !found:
			return "ObsNone"
		}
		return fmt.Sprintf("(ObsVal %d None)", id)
	}
	var okv, obest string
	p, _ := lib.Recover(func() {
		a, af, ae, b, bf, be := datastore.VerifVersionedRead(parents, es, dvid.VersionID(ids[c.V-1]))
		okv, obest = obs(a, af, ae), obs(b, bf, be)
	})
	if p {
		okv, obest = "ObsErr", "ObsErr"
	}
	term := fmt.Sprintf("CDag2 [%s] [%s] %d %d %s %s", strings.Join(dagS, ";"), strings.Join(esS, ";"), ids[c.V-1], len(c.Parents)+2, okv, obest)
	run.Count("dag2-shape:" + shape(c))
	c.Kind = "relabelled-dag"
	b, _ := json.Marshal(struct {
		C   dagCase
		IDs []int
	}{c, ids})
	run.Add("relabelled-dag", term, struct {
		Kind string  `json:"kind"`
		C    dagCase `json:"c"`
		IDs  []int   `json:"ids"`
	}{"relabelled-dag", c, ids}, "dag2/"+string(b))
}

func shape(c dagCase) string {
	merges, maxp := 0, 0
	for _, ps := range c.Parents {
		if len(ps) > 1 {
			merges++
		}
		if len(ps) > maxp {
			maxp = len(ps)
		}
	}
	switch {
	case merges == 0 && maxp <= 1:
		return "tree"
	case maxp >= 3:
		return "merge3+"
	case merges >= 2:
		return "nested-merges"
	default:
		return "merge2"
	}
}

func addDag(run *lib.Run, c dagCase) {
	o := runHook(c)
	term := fmt.Sprintf("CDag %s %s %d %d %s", coqDag(c.Parents), coqEntries(c.Entries), c.V, len(c.Parents)+2, o)
	run.Count("dag-shape:" + shape(c))
	run.Count("dag-result:" + strings.Fields(strings.Trim(o, "()"))[0])
	b, _ := json.Marshal(c)
	run.Add(c.Kind, term, c, "dag/"+string(b))
}

// randomDag: nodes 1..n, node i>1 gets 1..3 ordered distinct parents among 1..i-1, biased to merges.
func randomDag(rng *lib.Rand, n int) [][]int {
	parents := make([][]int, n)
	for i := 2; i <= n; i++ {
		np := 1
		if i > 2 && rng.Chance(0.45) {
			np = 2
			if i > 3 && rng.Chance(0.35) {
				np = 3
			}
		}
		seen := map[int]bool{}
		for len(parents[i-1]) < np {
			p := 1 + rng.Intn(i-1)
			if rng.Chance(0.5) && i > 2 { // prefer recent nodes: deeper graphs
				p = i - 1 - rng.Intn(min(3, i-1))
			}
			if !seen[p] {
				seen[p] = true
				parents[i-1] = append(parents[i-1], p)
			}
		}
	}
	return parents
}

func randomEntries(rng *lib.Rand, n int) []entry {
	var es []entry
	for v := 1; v <= n; v++ {
		switch rng.Intn(5) {
		case 0, 1:
			es = append(es, entry{V: v, ID: 100 + v})
		case 2:
			es = append(es, entry{V: v, Tomb: true})
		}
	}
	// the store may return the per-version entries in any order
	for i := len(es) - 1; i > 0; i-- {
		j := rng.Intn(i + 1)
		es[i], es[j] = es[j], es[i]
	}
	return es
}

// ---- the lineage-merge family: a root, 2 or 3 lineages hanging off it, each a chain of 1..3 versions with
// every placement of value / deletion / nothing, merged in every parent order; queried at the merge node and at
// a child of it.  Enumerated completely (two lineages: 3 x 39 x 39 x 2 = 9126 members); the quick tier takes a
// sample stratified so that members with a deletion that is re-created further down are over-represented.
func lineagePatterns() [][]int { // 0 nothing, 1 value, 2 deletion
	var out [][]int
	for n := 1; n <= 3; n++ {
		tot := 1
		for i := 0; i < n; i++ {
			tot *= 3
		}
		for c := 0; c < tot; c++ {
			p := make([]int, n)
			q := c
			for i := range p {
				p[i] = q % 3
				q /= 3
			}
			out = append(out, p)
		}
	}
	return out
}

func lineageCase(rootEnt int, pats [][]int, order []int, tail bool) dagCase {
	parents := [][]int{{}}
	var es []entry
	put := func(v, e int) {
		switch e {
		case 1:
			es = append(es, entry{V: v, ID: 100 + v})
		case 2:
			es = append(es, entry{V: v, Tomb: true})
		}
	}
	put(1, rootEnt)
	heads := make([]int, len(pats))
	for b, p := range pats {
		prev := 1
		for _, e := range p {
			parents = append(parents, []int{prev})
			prev = len(parents)
			put(prev, e)
		}
		heads[b] = prev
	}
	var mp []int
	for _, o := range order {
		mp = append(mp, heads[o])
	}
	parents = append(parents, mp)
	v := len(parents)
	if tail {
		parents = append(parents, []int{v})
		v = len(parents)
	}
	return dagCase{Kind: "lineage-merge", Parents: parents, Entries: es, V: v}
}

func hasRecreate(p []int) bool {
	for i, e := range p {
		if e == 2 {
			for _, f := range p[i+1:] {
				if f == 1 {
					return true
				}
			}
		}
	}
	return false
}

func addLineageFamily(run *lib.Run, rng *lib.Rand, all bool, sample int) {
	pats := lineagePatterns()
	type member struct {
		root   int
		a, b   int
		swap   bool
		weight int
	}
	var ms []member
	for root := 0; root < 3; root++ {
		for a := range pats {
			for b := range pats {
				w := 1
				if hasRecreate(pats[a]) || hasRecreate(pats[b]) {
					w = 6
				}
				ms = append(ms, member{root, a, b, false, w}, member{root, a, b, true, w})
			}
		}
	}
	emit := func(m member) {
		order := []int{0, 1}
		if m.swap {
			order = []int{1, 0}
		}
		c := lineageCase(m.root, [][]int{pats[m.a], pats[m.b]}, order, rng.Chance(0.3))
		shuffleEntries(rng, c.Entries)
		// through the resolver itself, or through the full read path (real keys, VersionedKeyValue /
		// GetBestKeyVersion) with relabelled version ids
		if rng.Chance(0.5) {
			addDag(run, c)
		} else {
			c.Kind = ""
			addDag2(run, c, relabel(rng, c))
		}
	}
	if all {
		for _, m := range ms {
			emit(m)
		}
	} else {
		tot := 0
		for _, m := range ms {
			tot += m.weight
		}
		for i := 0; i < sample; i++ {
			x := rng.Intn(tot)
			for _, m := range ms {
				if x < m.weight {
					emit(m)
					break
				}
				x -= m.weight
			}
		}
	}
	// three lineages, sampled
	n3 := sample / 4
	if all {
		n3 = 3000
	}
	for i := 0; i < n3; i++ {
		ps := [][]int{pats[rng.Intn(len(pats))], pats[rng.Intn(len(pats))], pats[rng.Intn(len(pats))]}
		order := []int{0, 1, 2}
		for j := 2; j > 0; j-- {
			k := rng.Intn(j + 1)
			order[j], order[k] = order[k], order[j]
		}
		c := lineageCase(rng.Intn(3), ps, order, rng.Chance(0.3))
		shuffleEntries(rng, c.Entries)
		if rng.Chance(0.5) {
			addDag(run, c)
		} else {
			c.Kind = ""
			addDag2(run, c, relabel(rng, c))
		}
	}
	run.Extra["lineage_merge_family_complete"] = all
}

func shuffleEntries(rng *lib.Rand, es []entry) {
	for i := len(es) - 1; i > 0; i-- {
		j := rng.Intn(i + 1)
		es[i], es[j] = es[j], es[i]
	}
}

// ---- exhaustive enumeration: every ordered-parent DAG on nodes 1..n (1..3 parents each) ----

func orderedSubsets(m, maxLen int) [][]int {
	var out [][]int
	var rec func(cur []int, used int)
	rec = func(cur []int, used int) {
		if len(cur) > 0 {
			out = append(out, append([]int{}, cur...))
		}
		if len(cur) == maxLen {
			return
		}
		for x := 1; x <= m; x++ {
			if used&(1<<uint(x)) == 0 {
				rec(append(cur, x), used|1<<uint(x))
			}
		}
	}
	rec(nil, 0)
	return out
}

func enumDags(n int) [][][]int {
	dags := [][][]int{{{}}}
	for i := 2; i <= n; i++ {
		var next [][][]int
		for _, d := range dags {
			for _, ps := range orderedSubsets(i-1, 3) {
				nd := append(append([][]int{}, d...), ps)
				next = append(next, nd)
			}
		}
		dags = next
	}
	return dags
}

func addEnum(run *lib.Run, parents [][]int) {
	n := len(parents)
	np := 1
	for i := 0; i < n; i++ {
		np *= 3
	}
	codes := make([]string, 0, np*n)
	for p := 0; p < np; p++ {
		var es []entry
		q := p
		for i := 1; i <= n; i++ {
			switch q % 3 {
			case 1:
				es = append(es, entry{V: i, ID: 100 + i})
			case 2:
				es = append(es, entry{V: i, Tomb: true})
			}
			q /= 3
		}
		for v := 1; v <= n; v++ {
			o := runHook(dagCase{Parents: parents, Entries: es, V: v})
			switch {
			case o == "ObsNone":
				codes = append(codes, "0")
			case o == "ObsErr":
				codes = append(codes, "1")
			default:
				var id, u int
				fmt.Sscanf(o, "(ObsVal %d (Some %d))", &id, &u)
				if id != 100+u {
					codes = append(codes, "999")
				} else {
					codes = append(codes, strconv.Itoa(2+u))
				}
			}
		}
	}
	run.Count(fmt.Sprintf("enum-dag-n%d", n))
	run.Count("enum-reads:" + strconv.Itoa(len(codes)))
	term := fmt.Sprintf("CEnum %s %d [%s]", coqDag(parents), n, strings.Join(codes, ";"))
	c := dagCase{Kind: "enum", Parents: parents}
	b, _ := json.Marshal(parents)
	run.Add("enum", term, c, "enum/"+string(b))
}

func min(a, b int) int {
	if a < b {
		return a
	}
	return b
}

// ---- HTTP histories ----

func runHistory(run *lib.Run, rng *lib.Rand, nops, nkeys int, replay []kvhist.Hop, unversioned bool) {
	runHistoryB(run, rng, nops, nkeys, replay, unversioned, false)
}

func runHistoryB(run *lib.Run, rng *lib.Rand, nops, nkeys int, replay []kvhist.Hop, unversioned, bursts bool) {
	var extra map[string]string
	kind, ctor := "history", "CHist"
	if unversioned {
		extra = map[string]string{"versioned": "false"}
		kind, ctor = "unversioned", "CUnv"
	}
	h, err := kvhist.NewWith(rng, "kv", extra)
	if err != nil {
		fmt.Fprintln(os.Stderr, err)
		os.Exit(2)
	}
	if replay != nil {
		h.Replay(replay)
	} else if bursts {
		h.Bursts(3, nkeys, 24)
		h.Sweep(nkeys)
	} else {
		h.Random(nops, nkeys, 12)
		h.Sweep(nkeys)
	}
	term := fmt.Sprintf("%s %s [%s]", ctor, h.CoqOps(), strings.Join(h.Obs, ";"))
	if !unversioned {
		// the same final state through the range endpoint at every version
		term += " " + h.RangeSweep("kv")
	}
	merges := 0
	for _, o := range h.Ops {
		if o.Op == "child" && len(o.Parents) > 1 {
			merges++
		}
		run.Count("hist-op:" + o.Op)
	}
	for _, ob := range h.Obs {
		if strings.HasPrefix(ob, "ORead") {
			run.Count("hist-read:" + strings.Fields(strings.Trim(ob[6:], "()"))[0])
		}
	}
	run.Count(fmt.Sprintf("hist-merges:%d", min(merges, 3)))
	b, _ := json.Marshal(h.Ops)
	run.Add(kind, term, histCase{Kind: kind, Ops: h.Ops}, kind+"/"+string(b))
}

func main() {
	o := lib.ParseOpts()
	rng := lib.NewRand(o.Seed)
	run := lib.NewRun("C01", o)
	run.Header("From DV Require Import Base.Prelude Model.Dag Model.Resolve Model.Core Model.ResolveRun.", "Local Open Scope N_scope.")
	dv.Quiet()
	dv.Open()
	defer dv.Close()

	if o.Replay != "" {
		var raw map[string]json.RawMessage
		if err := lib.LoadReplay(o.Replay, &raw); err != nil {
			fmt.Fprintln(os.Stderr, err)
			os.Exit(2)
		}
		var kind string
		json.Unmarshal(raw["kind"], &kind)
		if kind == "history" || kind == "unversioned" {
			var hc histCase
			lib.LoadReplay(o.Replay, &hc)
			runHistory(run, rng, 0, 3, hc.Ops, kind == "unversioned")
		} else if kind == "relabelled-dag" {
			var rc struct {
				C   dagCase `json:"c"`
				IDs []int   `json:"ids"`
			}
			lib.LoadReplay(o.Replay, &rc)
			addDag2(run, rc.C, rc.IDs)
		} else if kind == "enum" {
			var dc dagCase
			lib.LoadReplay(o.Replay, &dc)
			addEnum(run, dc.Parents)
		} else {
			var dc dagCase
			lib.LoadReplay(o.Replay, &dc)
			addDag(run, dc)
		}
		run.Finish("c01case", "replay", tail)
		return
	}

	// corpus: the two resolver defects repaired by the fix: commit, in both parent orders, plus basics
	val := func(v int) entry { return entry{V: v, ID: 100 + v} }
	tomb := func(v int) entry { return entry{V: v, Tomb: true} }
	corpus := []dagCase{
		{Parents: [][]int{{}, {1}, {1}, {3}, {2, 3, 4}}, Entries: []entry{val(1), val(2), val(3), tomb(4)}, V: 5},
		{Parents: [][]int{{}, {1}, {1}, {3}, {4, 3, 2}}, Entries: []entry{val(1), val(2), val(3), tomb(4)}, V: 5},
		{Parents: [][]int{{}, {1}, {1}, {2, 3}, {2, 3}, {4, 5}}, Entries: []entry{val(2), val(3), val(5)}, V: 6},
		{Parents: [][]int{{}, {1}, {1}, {2, 3}, {2, 3}, {5, 4}}, Entries: []entry{val(2), val(3), val(5)}, V: 6},
		{Parents: [][]int{{}, {1}, {1}, {2, 3}}, Entries: []entry{val(2), val(3)}, V: 4},  // unresolved conflict
		{Parents: [][]int{{}, {1}, {1}, {2, 3}}, Entries: []entry{val(1), tomb(2)}, V: 4}, // delete on one side hides the root value
		{Parents: [][]int{{}, {1}, {2}, {3, 1}}, Entries: []entry{val(1), val(3)}, V: 4},  // parent that is an ancestor of the other
		{Parents: [][]int{{}, {1}, {2}, {1, 3}}, Entries: []entry{val(1), tomb(3)}, V: 4},
		{Parents: [][]int{{}, {1}, {2}}, Entries: []entry{val(1), tomb(2)}, V: 3},    // chain, deletion hides
		{Parents: [][]int{{}, {1}, {1}}, Entries: []entry{val(2)}, V: 3},             // sibling write invisible
		{Parents: [][]int{{}, {1}}, Entries: []entry{val(2), tomb(2), val(1)}, V: 2}, // duplicate version in key list: later wins
	}
	for _, c := range corpus {
		c.Kind = "corpus"
		addDag(run, c)
	}
	nDag := 900
	if o.Thorough() {
		nDag = 12000
	}
	if o.N > 0 {
		nDag = o.N
	}
	for i := 0; i < nDag; i++ {
		n := 2 + rng.Intn(9)
		c := dagCase{Kind: "random-dag", Parents: randomDag(rng, n), Entries: randomEntries(rng, n), V: 1 + rng.Intn(n)}
		if rng.Chance(0.7) {
			c.V = n // the newest node sees the most structure
		}
		addDag(run, c)
	}
	addLineageFamily(run, rng, o.Thorough(), 500)
	// exhaustive: every DAG with <= 3 nodes (quick) / <= 4 nodes (thorough: 60 DAGs x 81 placements
	// x 4 versions) and, in the thorough tier, 150 random 5-node DAGs, each over all 3^n placements
	// and all queried versions
	maxN := 3
	if o.Thorough() {
		maxN = 4
	}
	total := 0
	for n := 2; n <= maxN; n++ {
		for _, d := range enumDags(n) {
			addEnum(run, d)
			total++
		}
	}
	if o.Thorough() {
		all5 := enumDags(5)
		for i := 0; i < 150; i++ {
			addEnum(run, all5[rng.Intn(len(all5))])
		}
	}
	run.Extra["exhaustive_dags_up_to_nodes"] = maxN
	run.Extra["exhaustive"] = false
	// the same random DAGs with arbitrary (non-topological, byte-boundary) version ids through the
	// full read path (real keys, VersionFromKey, VersionedKeyValue / GetBestKeyVersion)
	nDag2 := 300
	if o.Thorough() {
		nDag2 = 4000
	}
	for i := 0; i < nDag2; i++ {
		n := 2 + rng.Intn(8)
		c := dagCase{Parents: randomDag(rng, n), Entries: randomEntries(rng, n), V: 1 + rng.Intn(n)}
		if rng.Chance(0.7) {
			c.V = n
		}
		addDag2(run, c, relabel(rng, c))
	}
	nHist := 12
	if o.Thorough() {
		nHist = 120
	}
	for i := 0; i < nHist; i++ {
		runHistory(run, rng, 45, 3, nil, false)
	}
	// histories made of lineage-merge bursts (deletions re-created down a lineage, unresolved conflicts
	// deleted or overwritten at the merge node, reads below the merge)
	for i := 0; i < nHist/2+2; i++ {
		runHistoryB(run, rng, 0, 2, nil, false, true)
	}
	// unversioned instances: every uuid of the repo reads and writes the same datum
	for i := 0; i < nHist/4+1; i++ {
		runHistory(run, rng, 30, 3, nil, true)
	}
	run.Finish("c01case",
		"synthetic DAGs (<=10 nodes, 1-3 ordered parents, biased to merges and deep graphs) x random value/tombstone/nothing placements x random key-list order through the real findMatch; HTTP histories (put/delete/commit/branch/newversion/merge incl. refused writes) on a keyvalue instance with a final sweep of every key at every version; distinct = distinct (DAG, placement, order, version) or op sequence",
		tail)
}

const tail = `
Definition spec_fail := Eval vm_compute in c01_spec_fail cases.
Definition model_mismatch := Eval vm_compute in c01_model_mismatch cases.
`
