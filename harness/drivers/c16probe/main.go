package main

import (
	"fmt"
	"os"

	"github.com/janelia-flyem/dvid/datastore"
	"github.com/janelia-flyem/dvid/dvid"
	"github.com/janelia-flyem/dvid/storage"
	"verif/harness/dv"
)

func show(tag, url string) {
	r := dv.Get(url)
	b := string(r.Body)
	if len(b) > 150 {
		b = b[:150]
	}
	fmt.Printf("  %-34s %d %s\n", tag, r.Status, b)
}
func reads(tag, uuid string) {
	b := "/api/node/" + uuid + "/nj/"
	show(tag+" keys", b+"keys")
	show(tag+" keyrange/200/300", b+"keyrange/200/300")
	show(tag+" fieldtimes", b+"fieldtimes")
	show(tag+" counts", b+"fields?counts=true")
}
func post(uuid, key, body string) {
	r := dv.Post("/api/node/"+uuid+"/nj/key/"+key+"?u=u", []byte(body))
	if r.Status != 200 {
		fmt.Printf("POST %s -> %d %s\n", key, r.Status, r.Body)
	}
}
func setInmemory(root string, v []string) {
	d, err := datastore.GetDataByUUIDName(dvid.UUID(root), "nj")
	if err != nil {
		fmt.Println(err)
		os.Exit(1)
	}
	store, err := storage.GetAssignedStore(d)
	if err != nil {
		fmt.Println(err)
		os.Exit(1)
	}
	cfg := store.GetStoreConfig()
	cfg.Set("inmemory", v)
}

func main() {
	dv.Quiet()
	dv.Open()
	defer dv.Close()
	root, _ := dv.NewRepo("r")
	dv.NewInstance(root, "neuronjson", "nj", nil)
	post(root, "10", `{"bodyid":10,"a":1}`)
	dv.Commit(root)
	m1, _ := dv.NewVersion(root)
	post(m1, "20", `{"bodyid":20,"a":1}`)
	which := "a"
	if len(os.Args) > 1 {
		which = os.Args[1]
	}
	switch which {
	case "a": // branch exists before the config is read
		b1, r := dv.Branch(root, "b")
		fmt.Println("branch", r.Status)
		post(b1, "30", `{"bodyid":30,"b":1}`)
		reads("m1(mem)", m1)
		reads("b1(store)", b1)
		reads("root(store)", root)
		setInmemory(root, []string{":b", root[:8]})
		datastore.CloseReopenTest()
		fmt.Println("-- after reopen with inmemory [:b, root]")
		reads("m1", m1)
		reads("b1", b1)
		reads("root", root)
		post(b1, "40", `{"bodyid":40,"b":2}`)
		r2 := dv.Delete("/api/node/" + b1 + "/nj/key/30?u=u")
		fmt.Println("del", r2.Status)
		reads("b1 after writes", b1)
		dv.Commit(b1)
		b2, _ := dv.NewVersion(b1)
		post(b2, "50", `{"bodyid":50,"b":3}`)
		reads("b1 (committed)", b1)
		reads("b2 (head b)", b2)
		reads("m1", m1)
	case "c": // config names a branch that does not exist yet
		setInmemory(root, []string{":b"})
		datastore.CloseReopenTest()
		b1, r := dv.Branch(root, "b")
		fmt.Println("branch", r.Status)
		reads("b1 (created after init)", b1)
		post(b1, "30", `{"bodyid":30,"b":1}`)
		reads("b1 after post", b1)
		datastore.CloseReopenTest()
		reads("b1 after reopen", b1)
	case "d": // static = the open master head
		setInmemory(root, []string{m1[:8]})
		datastore.CloseReopenTest()
		post(m1, "60", `{"bodyid":60,"a":1}`)
		reads("m1 static+head", m1)
		dv.Commit(m1)
		m2, _ := dv.NewVersion(m1)
		reads("m2 (new head)", m2)
		reads("m1 (static)", m1)
	case "m": // master head after a restart when the committed leaf has only a branch child
		root2, _ := dv.NewRepo("r2")
		dv.NewInstance(root2, "neuronjson", "nj", nil)
		post(root2, "10", `{"bodyid":10,"a":1}`)
		dv.Commit(root2)
		b1, _ := dv.Branch(root2, "b")
		_, v, err := datastore.GetBranchHead(dvid.UUID(root2), "master")
		fmt.Println("before reopen: master head", v, err)
		datastore.CloseReopenTest()
		_, v, err = datastore.GetBranchHead(dvid.UUID(root2), "master")
		fmt.Println("after reopen: master head", v, err)
		_, v, err = datastore.GetBranchHead(dvid.UUID(root2), "b")
		fmt.Println("after reopen: b head", v, err, b1[:6])
		c, r := dv.NewVersion(root2)
		fmt.Println("newversion", r.Status)
		post(c, "20", `{"bodyid":20,"a":1}`)
		reads("child", c)
	case "e": // unknown static uuid
		setInmemory(root, []string{"deadbeef"})
		datastore.CloseReopenTest()
		reads("m1", m1)
		post(m1, "70", `{"bodyid":70,"a":1}`)
		reads("m1", m1)
	}
}
