// Driver C09: labels.MakeBlock / SubvolumeToBlock / MakeLabelVolume / Value / GetPointLabels /
// CalcNumLabels / WriteRLEs / WriteBinaryBlocks / ReceiveBinaryBlocks / (Un)MarshalBinary
// against Model.Block and Model.BlockViews, both directions.
package main

import (
	"bytes"
	"encoding/binary"
	"encoding/hex"
	"fmt"
	"os"
	"sort"
	"strings"
	"time"

	"github.com/janelia-flyem/dvid/datatype/common/labels"
	"github.com/janelia-flyem/dvid/dvid"
	"verif/harness/lib"
	"verif/harness/lib/blk"
)

type jcase struct {
	Kind   string      `json:"kind"`
	G      [3]int      `json:"g"`
	W      [3]int      `json:"w,omitempty"`
	Off    [3]int      `json:"off,omitempty"`
	Paints []blk.Paint `json:"paints"`
	Lbls   []uint64    `json:"lbls,omitempty"`
	Main   uint64      `json:"main,omitempty"`
	BC     [3]int32    `json:"bc,omitempty"`
	Pts    [][3]int    `json:"pts,omitempty"`
	Order  string      `json:"order,omitempty"`
	Blocks []jblock    `json:"blocks,omitempty"` // multi-block streams (rlem, binm)
}

type jblock struct {
	Paints []blk.Paint `json:"paints"`
	BC     [3]int32    `json:"bc"`
}

func hx(b []byte) string { return `(hx "` + hex.EncodeToString(b) + `"%string)` }

func resBytes(cls string, b []byte) string { return lib.CoqRes(cls, hx(b)) }

func coqPts(pts [][3]int) string {
	ss := make([]string, len(pts))
	for i, p := range pts {
		ss[i] = fmt.Sprintf("(%d,%d,%d)", p[0], p[1], p[2])
	}
	return "[" + strings.Join(ss, ";") + "]"
}

func coqAssoc(m map[uint64]int32) string {
	ks := make([]uint64, 0, len(m))
	for k := range m {
		ks = append(ks, k)
	}
	sort.Slice(ks, func(i, j int) bool { return ks[i] < ks[j] })
	ss := make([]string, len(ks))
	for i, k := range ks {
		ss[i] = fmt.Sprintf("(%d,%d)", k, uint32(m[k]))
	}
	return "[" + strings.Join(ss, ";") + "]"
}

// goMakeBlock runs MakeBlock and returns class and block.
func goMakeBlock(arr []byte, g [3]int) (cls string, b *labels.Block) {
	p, _ := lib.Recover(func() {
		blk, err := labels.MakeBlock(arr, dvid.Point3d{int32(8 * g[0]), int32(8 * g[1]), int32(8 * g[2])})
		if err != nil {
			cls = "err"
			return
		}
		cls, b = "ok", blk
	})
	if p {
		return "panic", nil
	}
	return
}

func goDecode(b *labels.Block) (cls string, d uint64) {
	p, _ := lib.Recover(func() {
		out, _ := b.MakeLabelVolume()
		cls, d = "ok", blk.DigestBytes(out)
	})
	if p {
		return "panic", 0
	}
	return
}

func goUnmarshal(data []byte) (cls string, b *labels.Block) {
	p, _ := lib.Recover(func() {
		var nb labels.Block
		if err := nb.UnmarshalBinary(data); err != nil {
			cls = "err"
			return
		}
		cls, b = "ok", &nb
	})
	if p {
		return "panic", nil
	}
	return
}

// goRLEs runs WriteRLEs on one positioned block; a panic inside the writer goroutine is caught there.
func goRLEs(b *labels.Block, bc [3]int32, lbls []uint64) (cls string, runs [][4]int64) {
	return goRLEsM([]*labels.Block{b}, [][3]int32{bc}, lbls)
}

// goRLEsM streams the positioned blocks, in order, to one WriteRLEs.
func goRLEsM(bs []*labels.Block, bcs [][3]int32, lbls []uint64) (cls string, runs [][4]int64) {
	var buf bytes.Buffer
	op := labels.NewOutputOp(&buf)
	set := labels.Set{}
	for _, l := range lbls {
		set[l] = struct{}{}
	}
	done := make(chan string, 1)
	go func() {
		defer func() {
			if e := recover(); e != nil {
				done <- "panic"
			}
		}()
		labels.WriteRLEs(set, op, dvid.Bounds{})
		done <- "returned"
	}()
	for k, b := range bs {
		pb := labels.PositionedBlock{Block: *b, BCoord: dvid.ChunkPoint3d{bcs[k][0], bcs[k][1], bcs[k][2]}.ToIZYXString()}
		op.Process(&pb)
	}
	errc := make(chan error, 1)
	go func() { errc <- op.Finish() }()
	select {
	case s := <-done:
		if s == "panic" {
			return "panic", nil
		}
		select {
		case err := <-errc:
			if err != nil {
				return "err", nil
			}
		case <-time.After(5 * time.Second):
			return "panic", nil
		}
	case err := <-errc:
		if err != nil {
			return "err", nil
		}
	case <-time.After(10 * time.Second):
		return "panic", nil
	}
	out := buf.Bytes()
	for i := 0; i+16 <= len(out); i += 16 {
		runs = append(runs, [4]int64{
			int64(int32(binary.LittleEndian.Uint32(out[i:]))), int64(int32(binary.LittleEndian.Uint32(out[i+4:]))),
			int64(int32(binary.LittleEndian.Uint32(out[i+8:]))), int64(binary.LittleEndian.Uint32(out[i+12:]))})
	}
	sort.Slice(runs, func(i, j int) bool {
		a, c := runs[i], runs[j]
		if a[2] != c[2] {
			return a[2] < c[2]
		}
		if a[1] != c[1] {
			return a[1] < c[1]
		}
		return a[0] < c[0]
	})
	return "ok", runs
}

func coqRuns(runs [][4]int64) string {
	// flat list of integers (x y z length per run), regrouped by Model.BlockRun.unflat: half the text
	ss := make([]string, 0, 4*len(runs))
	for _, r := range runs {
		ss = append(ss, lib.CoqZ(r[0]), lib.CoqZ(r[1]), lib.CoqZ(r[2]), lib.CoqZ(r[3]))
	}
	return "(unflat [" + strings.Join(ss, ";") + "]%Z)"
}

func goBinary(b *labels.Block, bc [3]int32, main uint64, lbls []uint64) (cls string, out []byte, mcls string, mask uint64) {
	cls, out, mcls, ms := goBinaryM([]*labels.Block{b}, [][3]int32{bc}, main, lbls)
	if mcls == "ok" {
		if len(ms) != 1 {
			return cls, out, "err", 0
		}
		mask = uint64(ms[0][3])
	}
	return cls, out, mcls, mask
}

// goBinaryM streams the positioned blocks to one WriteBinaryBlocks and reads the result back:
// per received block its voxel offset and the digest of its mask.
func goBinaryM(bs []*labels.Block, bcs [][3]int32, main uint64, lbls []uint64) (cls string, out []byte, mcls string, masks [][4]int64) {
	var buf bytes.Buffer
	op := labels.NewOutputOp(&buf)
	set := labels.Set{}
	for _, l := range lbls {
		set[l] = struct{}{}
	}
	done := make(chan string, 1)
	go func() {
		defer func() {
			if e := recover(); e != nil {
				done <- "panic"
			}
		}()
		labels.WriteBinaryBlocks(main, set, op, dvid.Bounds{})
		done <- "returned"
	}()
	for k, b := range bs {
		pb := labels.PositionedBlock{Block: *b, BCoord: dvid.ChunkPoint3d{bcs[k][0], bcs[k][1], bcs[k][2]}.ToIZYXString()}
		op.Process(&pb)
	}
	errc := make(chan error, 1)
	go func() { errc <- op.Finish() }()
	select {
	case s := <-done:
		if s == "panic" {
			return "panic", nil, "err", nil
		}
		if err := <-errc; err != nil {
			return "err", nil, "err", nil
		}
	case err := <-errc:
		if err != nil {
			return "err", nil, "err", nil
		}
	case <-time.After(10 * time.Second):
		return "panic", nil, "err", nil
	}
	out = append([]byte{}, buf.Bytes()...)
	cls = "ok"
	if len(out) == 0 {
		return cls, out, "err", nil
	}
	p, _ := lib.Recover(func() {
		bbs, err := labels.ReceiveBinaryBlocks(bytes.NewReader(out))
		if err != nil {
			mcls = "err"
			return
		}
		for _, bb := range bbs {
			vals := make([]uint64, len(bb.Voxels))
			for i, v := range bb.Voxels {
				if v {
					vals[i] = 1
				}
			}
			masks = append(masks, [4]int64{int64(bb.Offset[0]), int64(bb.Offset[1]), int64(bb.Offset[2]), int64(blk.Digest(vals))})
		}
		mcls = "ok"
	})
	if p {
		mcls = "panic"
	}
	return
}

func resN(cls string, v uint64) string { return lib.CoqRes(cls, lib.CoqN(v)) }

func main() {
	o := lib.ParseOpts()
	rng := lib.NewRand(o.Seed)
	run := lib.NewRun("C09", o)
	run.Header("From Coq Require Import String.", "From DV Require Import Base.Prelude Model.Block Model.BlockViews Model.BlockRun.", "Local Open Scope N_scope.")

	samplePts := func(g [3]int, n int) [][3]int {
		pts := [][3]int{{0, 0, 0}, {8*g[0] - 1, 8*g[1] - 1, 8*g[2] - 1}, {7, 7, 7}, {8, 0, 0}}
		for i := 0; i < n; i++ {
			pts = append(pts, [3]int{rng.Intn(8 * g[0]), rng.Intn(8 * g[1]), rng.Intn(8 * g[2])})
		}
		return pts
	}

	addEnc := func(c jcase) {
		arr := blk.Expand(8*c.G[0], 8*c.G[1], 8*c.G[2], c.Paints)
		ab := blk.ToBytes(arr)
		cls, b := goMakeBlock(ab, c.G)
		var data []byte
		var dec, dec2, wlv uint64
		var vals, ptl []uint64
		counts := map[uint64]int32{}
		if cls == "ok" {
			data, _ = b.MarshalBinary()
			data = append([]byte{}, data...)
			dc, d := goDecode(b)
			if dc != "ok" {
				cls = dc
			}
			dec = d
			wp, _ := lib.Recover(func() {
				var buf bytes.Buffer
				if err := b.WriteLabelVolume(&buf); err != nil {
					wlv = ^d
					return
				}
				if buf.Len()%8 != 0 {
					wlv = ^d
					return
				}
				wlv = blk.DigestBytes(buf.Bytes())
			})
			if wp {
				cls = "panic"
			}
			uc, b2 := goUnmarshal(data)
			if uc == "ok" {
				_, dec2 = goDecode(b2)
				d2, _ := b2.MarshalBinary()
				if !bytes.Equal(d2, data) {
					dec2 = ^dec2
				}
			} else {
				dec2 = ^dec
			}
			pp, _ := lib.Recover(func() {
				dpts := make([]dvid.Point3d, len(c.Pts))
				for i, p := range c.Pts {
					dpts[i] = dvid.Point3d{int32(p[0]), int32(p[1]), int32(p[2])}
					vals = append(vals, b.Value(dpts[i]))
				}
				ptl = b.GetPointLabels(dpts)
				counts = b.CalcNumLabels(nil)
			})
			if pp {
				cls = "panic"
			}
		}
		term := fmt.Sprintf("(CEnc %d %d %d %s %s %d %d %d %s %s %s %s)", c.G[0], c.G[1], c.G[2], blk.CoqPaints(c.Paints),
			resBytes(cls, data), dec, dec2, wlv, coqPts(c.Pts), lib.CoqNList(vals), lib.CoqNList(ptl), coqAssoc(counts))
		nl := blk.Distinct(arr)
		run.Count(fmt.Sprintf("enc:size:%dx%dx%d", c.G[0], c.G[1], c.G[2]))
		run.Count("enc:labels:" + blk.Bucket(nl))
		run.Count("enc:result:" + cls)
		run.Add("enc", term, c, fmt.Sprintf("enc/%v/%d/%x", c.G, nl, blk.Digest(arr)))
	}

	addSub := func(c jcase) {
		vol := blk.Expand(c.W[0], c.W[1], c.W[2], c.Paints)
		vb := blk.ToBytes(vol)
		var cls string
		var data []byte
		var dec uint64
		p, _ := lib.Recover(func() {
			// block index 0 with the subvolume starting at -off puts the block at offset off of the array
			sv := dvid.NewSubvolume(dvid.Point3d{int32(-c.Off[0]), int32(-c.Off[1]), int32(-c.Off[2])},
				dvid.Point3d{int32(c.W[0]), int32(c.W[1]), int32(c.W[2])})
			b, err := labels.SubvolumeToBlock(sv, vb, dvid.IndexZYX{0, 0, 0}, dvid.Point3d{int32(8 * c.G[0]), int32(8 * c.G[1]), int32(8 * c.G[2])})
			if err != nil {
				cls = "err"
				return
			}
			d, _ := b.MarshalBinary()
			data = append([]byte{}, d...)
			out, _ := b.MakeLabelVolume()
			cls, dec = "ok", blk.DigestBytes(out)
		})
		if p {
			cls = "panic"
		}
		term := fmt.Sprintf("(CSub %d %d %d %d %d %d %d %d %d %s %s %d)", c.W[0], c.W[1], c.W[2], c.Off[0], c.Off[1], c.Off[2],
			c.G[0], c.G[1], c.G[2], blk.CoqPaints(c.Paints), resBytes(cls, data), dec)
		run.Count("sub:result:" + cls)
		run.Count(fmt.Sprintf("sub:offset-mod8:%d,%d,%d", c.Off[0]%8, c.Off[1]%8, c.Off[2]%8))
		run.Add("sub", term, c, fmt.Sprintf("sub/%v/%v/%v/%x", c.W, c.Off, c.G, blk.Digest(vol)))
	}

	addView := func(c jcase) {
		arr := blk.Expand(8*c.G[0], 8*c.G[1], 8*c.G[2], c.Paints)
		cls, b := goMakeBlock(blk.ToBytes(arr), c.G)
		var data []byte
		if cls == "ok" {
			d, _ := b.MarshalBinary()
			data = append([]byte{}, d...)
		}
		neg := "nonneg"
		if c.BC[0] < 0 || c.BC[1] < 0 || c.BC[2] < 0 {
			neg = "negative"
		}
		if c.Kind == "rle" {
			rc, runs := "err", [][4]int64(nil)
			if cls == "ok" {
				rc, runs = goRLEs(b, c.BC, c.Lbls)
			}
			term := fmt.Sprintf("(CRle %d %d %d %s %s %s %s %s %s %s)", c.G[0], c.G[1], c.G[2], blk.CoqPaints(c.Paints), lib.CoqNList(c.Lbls),
				lib.CoqZ(int64(c.BC[0])), lib.CoqZ(int64(c.BC[1])), lib.CoqZ(int64(c.BC[2])), resBytes(cls, data), lib.CoqRes(rc, coqRuns(runs)))
			run.Count("rle:bcoord:" + neg)
			run.Count("rle:result:" + rc)
			run.Add("rle", term, c, fmt.Sprintf("rle/%v/%v/%v/%x", c.G, c.BC, c.Lbls, blk.Digest(arr)))
		} else {
			oc, out, mc, mask := "err", []byte(nil), "err", uint64(0)
			if cls == "ok" {
				oc, out, mc, mask = goBinary(b, c.BC, c.Main, c.Lbls)
			}
			term := fmt.Sprintf("(CBin %d %d %d %s %d %s %s %s %s %s %s %s)", c.G[0], c.G[1], c.G[2], blk.CoqPaints(c.Paints), c.Main, lib.CoqNList(c.Lbls),
				lib.CoqZ(int64(c.BC[0])), lib.CoqZ(int64(c.BC[1])), lib.CoqZ(int64(c.BC[2])), resBytes(cls, data), resBytes(oc, out), resN(mc, mask))
			run.Count("bin:bcoord:" + neg)
			run.Count("bin:result:" + oc)
			run.Add("bin", term, c, fmt.Sprintf("bin/%v/%v/%v/%x", c.G, c.BC, c.Lbls, blk.Digest(arr)))
		}
	}

	addMulti := func(c jcase) {
		var bs []*labels.Block
		var bcs [][3]int32
		var gob, blocks []string
		ok := true
		var dsum uint64
		for _, jb := range c.Blocks {
			arr := blk.Expand(8*c.G[0], 8*c.G[1], 8*c.G[2], jb.Paints)
			dsum = dsum*31 + blk.Digest(arr)
			cls, b := goMakeBlock(blk.ToBytes(arr), c.G)
			var data []byte
			if cls == "ok" {
				d, _ := b.MarshalBinary()
				data = append([]byte{}, d...)
				bs = append(bs, b)
				bcs = append(bcs, jb.BC)
			} else {
				ok = false
			}
			gob = append(gob, resBytes(cls, data))
			blocks = append(blocks, fmt.Sprintf("(%s, (%s%%Z,%s%%Z,%s%%Z))", blk.CoqPaints(jb.Paints), lib.CoqZ(int64(jb.BC[0])), lib.CoqZ(int64(jb.BC[1])), lib.CoqZ(int64(jb.BC[2]))))
		}
		hdr := fmt.Sprintf("%d %d %d [%s]", c.G[0], c.G[1], c.G[2], strings.Join(blocks, "; "))
		if c.Kind == "rlem" {
			rc, runs := "err", [][4]int64(nil)
			if ok {
				rc, runs = goRLEsM(bs, bcs, c.Lbls)
			}
			term := fmt.Sprintf("(CRleM %s %s [%s] %s)", hdr, lib.CoqNList(c.Lbls), strings.Join(gob, "; "), lib.CoqRes(rc, coqRuns(runs)))
			run.Count(fmt.Sprintf("rlem:blocks:%d", len(c.Blocks)))
			run.Count("rlem:result:" + rc)
			run.Add("rlem", term, c, fmt.Sprintf("rlem/%d/%v/%x", len(c.Blocks), c.Lbls, dsum))
		} else {
			oc, out, mc, ms := "err", []byte(nil), "err", [][4]int64(nil)
			if ok {
				oc, out, mc, ms = goBinaryM(bs, bcs, c.Main, c.Lbls)
			}
			mss := make([]string, len(ms))
			for i, m := range ms {
				mss[i] = fmt.Sprintf("(%s%%Z,%s%%Z,%s%%Z,%d)", lib.CoqZ(m[0]), lib.CoqZ(m[1]), lib.CoqZ(m[2]), uint64(m[3]))
			}
			term := fmt.Sprintf("(CBinM %s %d %s [%s] %s %s)", hdr, c.Main, lib.CoqNList(c.Lbls), strings.Join(gob, "; "), resBytes(oc, out),
				lib.CoqRes(mc, "["+strings.Join(mss, ";")+"]"))
			run.Count(fmt.Sprintf("binm:blocks:%d", len(c.Blocks)))
			run.Count("binm:result:" + oc)
			run.Add("binm", term, c, fmt.Sprintf("binm/%d/%v/%x", len(c.Blocks), c.Lbls, dsum))
		}
	}

	addAlias := func(c jcase) {
		arr := blk.Expand(8*c.G[0], 8*c.G[1], 8*c.G[2], c.Paints)
		c1, c2 := "err", "err"
		var d1, d2 uint64
		p, _ := lib.Recover(func() {
			a, err := labels.MakeBlock(blk.ToBytes(arr), dvid.Point3d{int32(8 * c.G[0]), int32(8 * c.G[1]), int32(8 * c.G[2])})
			if err != nil {
				return
			}
			ser, _ := a.MarshalBinary()
			// (1) parse from a read buffer, then refill the buffer with another block's bytes
			buf := make([]byte, len(ser)) // a fresh allocation: 8-byte aligned like a decompressed value
			copy(buf, ser)
			var parsed labels.Block
			if err := parsed.UnmarshalBinary(buf); err != nil {
				return
			}
			other := labels.MakeSolidBlock(^uint64(0), a.Size)
			ob, _ := other.MarshalBinary()
			for i := range buf {
				buf[i] = ob[i%len(ob)] ^ byte(i)
			}
			copy(buf, ob)
			c1, d1 = goDecode(&parsed)
			if back, _ := parsed.MarshalBinary(); !bytes.Equal(back, ser) && c1 == "ok" {
				d1 = ^d1
			}
			// (2) marshal, parse a clone from those bytes, overwrite the clone's label table in place
			keep := append([]byte{}, ser...)
			var clone labels.Block
			if err := clone.UnmarshalBinary(ser); err != nil {
				return
			}
			for i := range clone.Labels {
				clone.Labels[i] = ^clone.Labels[i]
			}
			for i := range clone.SBIndices {
				clone.SBIndices[i] = 0
			}
			c2, d2 = goDecode(a)
			if now, _ := a.MarshalBinary(); !bytes.Equal(now, keep) && c2 == "ok" {
				d2 = ^d2
			}
		})
		if p {
			c1 = "panic"
		}
		term := fmt.Sprintf("(CAlias %d %d %d %s %s %s)", c.G[0], c.G[1], c.G[2], blk.CoqPaints(c.Paints), resN(c1, d1), resN(c2, d2))
		run.Count("alias:result:" + c1 + "/" + c2)
		run.Add("alias", term, c, fmt.Sprintf("alias/%v/%x", c.G, blk.Digest(arr)))
	}

	addDec := func(c jcase) {
		arr := blk.Expand(8*c.G[0], 8*c.G[1], 8*c.G[2], c.Paints)
		tbl := blk.TableOrder(arr, c.Order)
		data := blk.ModelEncode(arr, c.G, tbl)
		cls, b := goUnmarshal(data)
		var dec uint64
		var vals []uint64
		if cls == "ok" {
			cls, dec = goDecode(b)
			if cls == "ok" {
				p, _ := lib.Recover(func() {
					for _, pt := range c.Pts {
						vals = append(vals, b.Value(dvid.Point3d{int32(pt[0]), int32(pt[1]), int32(pt[2])}))
					}
				})
				if p {
					cls = "panic"
				}
			}
		}
		term := fmt.Sprintf("(CDec %d %d %d %s %s %s %s %s %s)", c.G[0], c.G[1], c.G[2], blk.CoqPaints(c.Paints), lib.CoqNList(tbl), hx(data),
			resN(cls, dec), coqPts(c.Pts), lib.CoqNList(vals))
		run.Count("dec:order:" + c.Order)
		run.Count("dec:result:" + cls)
		run.Add("dec", term, c, fmt.Sprintf("dec/%v/%s/%x", c.G, c.Order, blk.Digest(arr)))
	}

	dispatch := func(c jcase) {
		switch c.Kind {
		case "enc":
			addEnc(c)
		case "sub":
			addSub(c)
		case "rle", "bin":
			addView(c)
		case "rlem", "binm":
			addMulti(c)
		case "alias":
			addAlias(c)
		case "dec":
			addDec(c)
		}
	}

	if o.Replay != "" {
		var c jcase
		if err := lib.LoadReplay(o.Replay, &c); err != nil {
			fmt.Fprintln(os.Stderr, err)
			os.Exit(2)
		}
		dispatch(c)
		run.Finish("c09case", "replay", tail)
		return
	}

	const top = ^uint64(0)
	g2 := [3]int{2, 2, 2}
	full := func(g [3]int) [6]int { return [6]int{0, 0, 0, 8 * g[0], 8 * g[1], 8 * g[2]} }
	sb0 := [6]int{0, 0, 0, 8, 8, 8}

	// ---- corpus: the named cases of the quantifier ----
	addEnc(jcase{Kind: "enc", G: g2, Paints: []blk.Paint{blk.Fill(0)}, Pts: samplePts(g2, 2)})
	addEnc(jcase{Kind: "enc", G: g2, Paints: []blk.Paint{blk.Fill(top)}, Pts: samplePts(g2, 2)})
	addEnc(jcase{Kind: "enc", G: g2, Paints: []blk.Paint{blk.Fill(1), blk.Box([6]int{3, 0, 0, 8, 8, 8}, 2)}, Pts: samplePts(g2, 4)})
	// an odd number of sub-blocks (SBIndices 2-byte aligned; refused before C09-2-fix): 24^3 and 24x24x40
	g3 := [3]int{3, 3, 3}
	addEnc(jcase{Kind: "enc", G: g3, Paints: []blk.Paint{blk.Fill(1), blk.Box([6]int{0, 0, 0, 3, 24, 24}, 7)}, Pts: samplePts(g3, 4)})
	addEnc(jcase{Kind: "enc", G: g3, Paints: []blk.Paint{blk.Fill(5)}, Pts: [][3]int{{0, 0, 0}, {23, 23, 23}}})
	{
		odd := []blk.Paint{blk.Hash([6]int{0, 0, 0, 24, 24, 24}, 4, uint64(rng.Intn(1<<16)), []uint64{1, 2, 3, ^uint64(0)}), blk.Cyc([6]int{8, 8, 8, 16, 16, 16}, 9, 3, uint64(2+rng.Intn(60)))}
		addEnc(jcase{Kind: "enc", G: g3, Paints: odd, Pts: samplePts(g3, 6)})
		if o.Thorough() {
			addView(jcase{Kind: "rle", G: g3, Paints: odd, Lbls: []uint64{1, 3}, BC: [3]int32{-1, 0, 1}})
			addDec(jcase{Kind: "dec", G: g3, Paints: odd, Pts: samplePts(g3, 3), Order: "desc"})
			addView(jcase{Kind: "bin", G: g3, Paints: odd, Lbls: []uint64{2}, Main: 2, BC: [3]int32{0, -1, 0}})
			g5 := [3]int{3, 3, 5}
			addEnc(jcase{Kind: "enc", G: g5, Paints: []blk.Paint{blk.Hash([6]int{0, 0, 0, 24, 24, 40}, 2, 5, []uint64{1, 2, 3})}, Pts: samplePts(g5, 6)})
		}
	}

	// solid blocks (label 0, a small label, 2^64-1) over the size sweep — voxel counts that are and are
	// not multiples of 4096 — through every decoder: MakeLabelVolume, WriteLabelVolume, Value, counts
	solidSizes := [][3]int{{2, 2, 2}, {3, 3, 3}, {2, 3, 5}, {5, 2, 2}, {2, 2, 3}}
	if o.Thorough() {
		solidSizes = append(solidSizes, [3]int{7, 7, 7}, [3]int{3, 3, 5}, [3]int{4, 4, 4})
	}
	for i, g := range solidSizes {
		l := []uint64{0, 5, top}[(i+int(o.Seed))%3]
		addEnc(jcase{Kind: "enc", G: g, Paints: []blk.Paint{blk.Fill(l)}, Pts: samplePts(g, 2)})
	}
	// a parsed block must not share memory with the bytes it was parsed from
	addAlias(jcase{Kind: "alias", G: g2, Paints: []blk.Paint{blk.Fill(3)}})
	addAlias(jcase{Kind: "alias", G: g2, Paints: []blk.Paint{blk.Fill(1), blk.Cyc(sb0, 2, 1, uint64(2+rng.Intn(30)))}})
	addAlias(jcase{Kind: "alias", G: [3]int{2, 2, 3}, Paints: []blk.Paint{blk.Hash([6]int{0, 0, 0, 16, 16, 24}, 2, uint64(rng.Intn(1<<16)), []uint64{1, 2, 3})}})

	// n distinct labels in one sub-block (bit widths 1..9, non powers of two), near 2^64-1 for some
	counts := []int{2, 3, 4, 5, 7, 8, 9, 15, 16, 17, 31, 32, 33, 63, 64, 65, 127, 128, 129, 255, 256, 257, 300, 511, 512}
	pick := map[int]bool{2: true, 3: true, 512: true}
	nPick := 6
	if o.Thorough() {
		nPick = len(counts)
	}
	if o.N > 0 {
		nPick = o.N
	}
	for len(pick) < nPick+3 && len(pick) < len(counts) {
		pick[counts[rng.Intn(len(counts))]] = true
	}
	for _, n := range counts {
		if !pick[n] {
			continue
		}
		stride := uint64(1 + rng.Intn(1000))
		base := uint64(rng.Intn(5))
		if rng.Chance(0.4) {
			base = top - stride*uint64(n-1) // the largest label is 2^64-1
		}
		ps := []blk.Paint{blk.Fill(uint64(rng.Pick(0, 1, 77))), blk.Cyc(sb0, base, stride, uint64(n))}
		if rng.Bool() {
			// the same sub-block pattern somewhere else, so byte offsets of later sub-blocks are exercised
			ps = append(ps, blk.Cyc([6]int{8, 8, 8, 16, 16, 16}, base+stride, stride, uint64(1+rng.Intn(n))))
		}
		addEnc(jcase{Kind: "enc", G: g2, Paints: ps, Pts: samplePts(g2, 6)})
		if n == 512 || n == 3 || rng.Chance(0.3) {
			addDec(jcase{Kind: "dec", G: g2, Paints: ps, Pts: samplePts(g2, 4), Order: []string{"desc", "asc", "rot"}[rng.Intn(3)]})
		}
	}

	// non-cubic sizes and random blobby content
	sizes := [][3]int{{2, 2, 3}, {2, 3, 2}, {3, 2, 2}, {2, 2, 4}, {4, 2, 2}, {2, 3, 4}}
	nSizes := 2
	nRand := 3
	if o.Thorough() {
		nSizes, nRand = len(sizes), 30
	}
	randPaints := func(g [3]int) []blk.Paint {
		pal := make([]uint64, 2+rng.Intn(12))
		for i := range pal {
			switch rng.Intn(4) {
			case 0:
				pal[i] = 0
			case 1:
				pal[i] = top - uint64(rng.Intn(3))
			default:
				pal[i] = uint64(rng.Intn(1 << 20))
			}
		}
		ps := []blk.Paint{blk.Hash(full(g), uint64(rng.Pick(1, 2, 3, 4, 8)), uint64(rng.Intn(1<<16)), pal)}
		if rng.Bool() {
			x0, y0, z0 := rng.Intn(8*g[0]), rng.Intn(8*g[1]), rng.Intn(8*g[2])
			ps = append(ps, blk.Box([6]int{x0, y0, z0, x0 + 1 + rng.Intn(8*g[0]-x0), y0 + 1 + rng.Intn(8*g[1]-y0), z0 + 1 + rng.Intn(8*g[2]-z0)}, uint64(rng.Intn(5))))
		}
		return ps
	}
	for i := 0; i < nSizes; i++ {
		g := sizes[(int(o.Seed)+i)%len(sizes)]
		if o.Thorough() {
			g = sizes[i]
		}
		ps := randPaints(g)
		addEnc(jcase{Kind: "enc", G: g, Paints: ps, Pts: samplePts(g, 6)})
		addDec(jcase{Kind: "dec", G: g, Paints: ps, Pts: samplePts(g, 3), Order: "desc"})
	}
	for i := 0; i < nRand; i++ {
		addEnc(jcase{Kind: "enc", G: g2, Paints: randPaints(g2), Pts: samplePts(g2, 6)})
	}

	// SubvolumeToBlock: every offset class mod 8 over a run, offsets at both ends of the volume
	nSub := 4
	if o.Thorough() {
		nSub = 40
	}
	for i := 0; i < nSub; i++ {
		g := g2
		off := [3]int{rng.Intn(9), rng.Intn(9), rng.Intn(9)}
		w := [3]int{16 + off[0] + rng.Intn(3), 16 + off[1] + rng.Intn(3), 16 + off[2] + rng.Intn(3)}
		if i == 0 {
			off, w = [3]int{0, 0, 0}, [3]int{16, 16, 16}
		}
		pal := []uint64{1, 2, 3, top, 0, 9}
		ps := []blk.Paint{blk.Hash([6]int{0, 0, 0, w[0], w[1], w[2]}, uint64(rng.Pick(1, 2, 3)), uint64(rng.Intn(1<<16)), pal[:2+rng.Intn(5)])}
		addSub(jcase{Kind: "sub", G: g, W: w, Off: off, Paints: ps})
	}
	// a block that does not fit: error expected, not a finding
	addSub(jcase{Kind: "sub", G: g2, W: [3]int{20, 20, 20}, Off: [3]int{5, 0, 0}, Paints: []blk.Paint{blk.Fill(1), blk.Box([6]int{0, 0, 0, 4, 4, 4}, 2)}})

	// run-length and binary views, at non-negative and negative block coordinates
	nView := 3
	if o.Thorough() {
		nView = 25
	}
	bcs := [][3]int32{{0, 0, 0}, {1, 2, 3}, {-1, -1, -1}, {-2, 0, 1}, {0, -3, 0}}
	for i := 0; i < nView; i++ {
		g := g2
		if i%3 == 2 {
			g = sizes[rng.Intn(len(sizes))]
		}
		pal := []uint64{1, 2, 3, 4, 0}
		cs := uint64(rng.Pick(1, 2, 4))
		if g != g2 && !o.Thorough() {
			cs = uint64(rng.Pick(2, 4)) // fewer runs to print for the larger blocks
		}
		ps := []blk.Paint{blk.Hash(full(g), cs, uint64(rng.Intn(1<<16)), pal[:2+rng.Intn(4)])}
		if rng.Bool() {
			ps = append(ps, blk.Box([6]int{0, 0, 0, 8, 8, 8}, uint64(rng.Pick(1, 2, 9)))) // a one-label sub-block
		}
		lbls := []uint64{uint64(1 + rng.Intn(3))}
		if rng.Chance(0.4) {
			lbls = append(lbls, uint64(1+rng.Intn(4))+3*uint64(rng.Intn(2)))
			if lbls[1] == lbls[0] {
				lbls = lbls[:1]
			}
		}
		bc := bcs[i%len(bcs)]
		addView(jcase{Kind: "rle", G: g, Paints: ps, Lbls: lbls, BC: bc})
		addView(jcase{Kind: "bin", G: g, Paints: ps, Lbls: lbls, Main: lbls[0], BC: bcs[(i+1)%len(bcs)]})
	}
	// sub-block classes with respect to a label set of 1-4 labels {10, 13, 16, 19}: solid in the set,
	// several set labels and nothing else, mixed with background, none of the set — in random order
	setOf := func(k int) []uint64 { return []uint64{10, 13, 16, 19}[:k] }
	classPaints := func(g [3]int, k int, none bool) []blk.Paint {
		ps := []blk.Paint{blk.Fill(uint64(rng.Pick(0, 1, 2)))}
		if none {
			if rng.Bool() {
				ps = append(ps, blk.Hash(full(g), 2, uint64(rng.Intn(1<<16)), []uint64{0, 1, 2}))
			}
			return ps
		}
		// every class about equally often, in a random order over the sub-blocks
		nsb := g[0] * g[1] * g[2]
		classes := make([]int, nsb)
		for i := range classes {
			classes[i] = i % 4
		}
		for i := nsb - 1; i > 0; i-- {
			j := rng.Intn(i + 1)
			classes[i], classes[j] = classes[j], classes[i]
		}
		sb := 0
		for sz := 0; sz < g[2]; sz++ {
			for sy := 0; sy < g[1]; sy++ {
				for sx := 0; sx < g[0]; sx, sb = sx+1, sb+1 {
					box := [6]int{8 * sx, 8 * sy, 8 * sz, 8*sx + 8, 8*sy + 8, 8*sz + 8}
					switch classes[sb] {
					case 0:
						ps = append(ps, blk.Box(box, setOf(k)[rng.Intn(k)]))
					case 1:
						if k >= 2 {
							ps = append(ps, blk.Cyc(box, 10, 3, uint64(2+rng.Intn(k-1))))
						} else {
							ps = append(ps, blk.Box(box, 10))
						}
					case 2:
						pal := append([]uint64{uint64(rng.Pick(0, 1, 2))}, setOf(k)[:1+rng.Intn(k)]...)
						ps = append(ps, blk.Hash(box, uint64(rng.Pick(1, 2, 4)), uint64(rng.Intn(1<<16)), pal))
					default: // none of the set: keep the fill or two background labels
						if rng.Bool() {
							ps = append(ps, blk.Cyc(box, 1, 1, 2))
						}
					}
				}
			}
		}
		return ps
	}
	nClass := 4
	if o.Thorough() {
		nClass = 25
	}
	for i := 0; i < nClass; i++ {
		k := 1 + rng.Intn(4)
		if i%4 != 0 {
			k = 2 + rng.Intn(3) // label sets of several labels most of the time
		}
		ps := classPaints(g2, k, false)
		addView(jcase{Kind: "bin", G: g2, Paints: ps, Lbls: setOf(k), Main: 10, BC: bcs[rng.Intn(len(bcs))]})
		if i%4 == 0 {
			addView(jcase{Kind: "rle", G: g2, Paints: ps, Lbls: setOf(k), BC: bcs[rng.Intn(len(bcs))]})
		}
	}
	// streams of several positioned blocks to one writer: runs of blocks along X, some holding none of
	// the labels, gaps and row changes; labels reach the block faces through the full sub-blocks
	stream := func(k int) []jblock {
		var bl []jblock
		x, y, z := int32(rng.Intn(3)-2), int32(rng.Intn(3)-1), int32(rng.Intn(2))
		n := 3 + rng.Intn(2)
		for j := 0; j < n; j++ {
			bl = append(bl, jblock{Paints: classPaints(g2, k, j > 0 && j < n-1 && rng.Chance(0.5)), BC: [3]int32{x, y, z}})
			switch {
			case rng.Chance(0.75):
				x++
			case rng.Bool():
				x += 2 // a gap: the next block is not the +X neighbour
			default:
				x, y = x-1, y+1 // next row
			}
		}
		return bl
	}
	// corpus: label reaches the +X face of block 0, block 1 holds none of the labels, label starts at the -X face of block 2
	addMulti(jcase{Kind: "rlem", G: g2, Lbls: []uint64{10}, Blocks: []jblock{
		{Paints: []blk.Paint{blk.Fill(1), blk.Box([6]int{5, 2, 3, 16, 9, 4}, 10)}, BC: [3]int32{-1, 0, 0}},
		{Paints: []blk.Paint{blk.Fill(1), blk.Box([6]int{0, 0, 0, 9, 9, 9}, 2)}, BC: [3]int32{0, 0, 0}},
		{Paints: []blk.Paint{blk.Fill(2), blk.Box([6]int{0, 2, 3, 7, 9, 4}, 10)}, BC: [3]int32{1, 0, 0}}}})
	nStream := 1
	if o.Thorough() {
		nStream = 15
	}
	for i := 0; i < nStream; i++ {
		k := 1 + rng.Intn(4)
		addMulti(jcase{Kind: "rlem", G: g2, Lbls: setOf(k), Blocks: stream(k)})
		k = 1 + rng.Intn(4)
		addMulti(jcase{Kind: "binm", G: g2, Lbls: setOf(k), Main: 10, Blocks: stream(k)})
	}
	// solid blocks and absent labels
	addView(jcase{Kind: "rle", G: g2, Paints: []blk.Paint{blk.Fill(4)}, Lbls: []uint64{4}, BC: [3]int32{-1, 0, 0}})
	addView(jcase{Kind: "bin", G: g2, Paints: []blk.Paint{blk.Fill(4)}, Lbls: []uint64{4}, Main: 4, BC: [3]int32{0, 0, 0}})
	addView(jcase{Kind: "rle", G: g2, Paints: []blk.Paint{blk.Fill(4), blk.Box(sb0, 5)}, Lbls: []uint64{6}, BC: [3]int32{0, 0, 0}})
	addView(jcase{Kind: "bin", G: g2, Paints: []blk.Paint{blk.Fill(4), blk.Box(sb0, 5)}, Lbls: []uint64{4, 5}, Main: 4, BC: [3]int32{0, 1, 0}})

	run.Finish("c09case",
		"label arrays described by paint operations (fill, box, n-label cycle in one sub-block, hashed palette cells) over the named cases of the quantifier: solid 0 and 2^64-1, 2..512 labels in one sub-block, non-cubic and odd sizes, every subvolume offset class, views at negative block coordinates; distinct by (kind, size, parameters, content digest)",
		tail)
}

const tail = `
Definition spec_fail := Eval vm_compute in c09_spec_fail cases.
Definition model_mismatch := Eval vm_compute in c09_model_mismatch cases.
`
