// Driver C05: range, listing and streaming queries against point reads, on random branched
// histories of a keyvalue instance — storage level (OrderedKeyValueDB with a VersionedCtx) and HTTP.
package main

import (
	"archive/tar"
	"bytes"
	"encoding/json"
	"fmt"
	"io"
	"net/url"
	"os"
	"sort"
	"strings"
	"time"

	"github.com/janelia-flyem/dvid/datastore"
	"github.com/janelia-flyem/dvid/datatype/keyvalue"
	"github.com/janelia-flyem/dvid/dvid"
	"github.com/janelia-flyem/dvid/storage"

	"verif/harness/dv"
	"verif/harness/kvhist"
	"verif/harness/lib"
)

type jcase struct {
	Kind    string `json:"kind"`
	Seed    uint64 `json:"seed"`
	Version int    `json:"version,omitempty"` // index into the history's versions (1-based); 0 = DeleteRange case
	Special string `json:"special,omitempty"`
	N       int    `json:"n,omitempty"` // which DeleteRange of the history
}

func shutdown() {
	done := make(chan struct{})
	go func() { dv.Close(); close(done) }()
	select {
	case <-done:
	case <-time.After(10 * time.Second):
	}
}

func resList(cls string, items []string) string {
	switch cls {
	case "ok":
		return "(Ok [" + strings.Join(items, "; ") + "])"
	case "panic":
		return "Panic"
	}
	return "Err"
}

// jsonObject decodes {"k":v,...} keeping the order and the raw value text.
func jsonObject(b []byte) (keys []string, vals [][]byte, err error) {
	dec := json.NewDecoder(bytes.NewReader(b))
	t, err := dec.Token()
	if err != nil {
		return nil, nil, err
	}
	if d, ok := t.(json.Delim); !ok || d != '{' {
		return nil, nil, fmt.Errorf("not an object")
	}
	for dec.More() {
		t, err := dec.Token()
		if err != nil {
			return nil, nil, err
		}
		k, ok := t.(string)
		if !ok {
			return nil, nil, fmt.Errorf("bad key")
		}
		var raw json.RawMessage
		if err := dec.Decode(&raw); err != nil {
			return nil, nil, err
		}
		keys = append(keys, k)
		vals = append(vals, []byte(raw))
	}
	if _, err := dec.Token(); err != nil {
		return nil, nil, err
	}
	return
}

func tarEntries(b []byte) (keys []string, vals [][]byte, err error) {
	tr := tar.NewReader(bytes.NewReader(b))
	for {
		hdr, err := tr.Next()
		if err == io.EOF {
			return keys, vals, nil
		}
		if err != nil {
			return nil, nil, err
		}
		v, err := io.ReadAll(tr)
		if err != nil {
			return nil, nil, err
		}
		keys = append(keys, hdr.Name)
		vals = append(vals, v)
	}
}

type world struct {
	h        *kvhist.Hist
	data     datastore.DataService
	db       storage.OrderedKeyValueDB
	inst     uint32
	universe []string // every key string ever written
	special  string
}

func (w *world) verID(v int) dvid.VersionID {
	id, err := datastore.VersionFromUUID(dvid.UUID(w.h.UUIDs[v-1]))
	if err != nil {
		panic(err)
	}
	return id
}
func (w *world) ctx(v int) *datastore.VersionedCtx { return datastore.NewVersionedCtx(w.data, w.verID(v)) }

func (w *world) dump() []*storage.KeyValue {
	lo, hi := w.ctx(1).KeyRange()
	ch := make(chan *storage.KeyValue)
	var out []*storage.KeyValue
	done := make(chan struct{})
	go func() {
		for kv := range ch {
			if kv == nil {
				break
			}
			out = append(out, kv)
		}
		close(done)
	}()
	if err := w.db.RawRangeQuery(lo, hi, false, ch, nil); err != nil {
		panic(err)
	}
	<-done
	return out
}

func tkeyOf(k string) storage.TKey {
	tk, err := keyvalue.NewTKey(k)
	if err != nil {
		panic(err)
	}
	return tk
}

// table: the real resolver's verdict per stored TKey at one version
func (w *world) table(bd *lib.Binder, v int, entries []*storage.KeyValue) string {
	ctx := w.ctx(v)
	groups := map[string][]*storage.KeyValue{}
	var order []string
	for _, kv := range entries {
		tk, err := storage.TKeyFromKey(kv.K)
		if err != nil {
			panic(err)
		}
		if _, ok := groups[string(tk)]; !ok {
			order = append(order, string(tk))
		}
		groups[string(tk)] = append(groups[string(tk)], kv)
	}
	var rows []string
	for _, tk := range order {
		ver := "VNone"
		kv, err := ctx.VersionedKeyValue(groups[tk])
		switch {
		case err != nil:
			ver = "VConflict"
		case kv != nil:
			ver = "VSome " + bd.Bytes(kv.K)
		}
		rows = append(rows, fmt.Sprintf("(%s, %s)", bd.Bytes([]byte(tk)), ver))
	}
	return "[" + strings.Join(rows, "; ") + "]"
}

func coqStore(bd *lib.Binder, kvs []*storage.KeyValue) string {
	ss := make([]string, len(kvs))
	for i, kv := range kvs {
		ss[i] = "(" + bd.Bytes(kv.K) + ", " + bd.Bytes(kv.V) + ")"
	}
	return "[" + strings.Join(ss, ";\n    ") + "]"
}

func (w *world) dbGet(v int, tk storage.TKey) string {
	cls := "ok"
	var val []byte
	pan, _ := lib.Recover(func() {
		b, err := w.db.Get(w.ctx(v), tk)
		if err != nil {
			cls = "err"
		}
		val = b
	})
	if pan {
		return "Panic"
	}
	if cls == "err" {
		return "Err"
	}
	if val == nil {
		return "(Ok None)"
	}
	return "(Ok (Some " + lib.CoqBytes(val) + "))"
}

func (w *world) url(v int, rest string) string { return w.h.URL(v, rest) }

func httpList(r dv.Resp) (string, []string) {
	if r.Class() == "panic" {
		return "panic", nil
	}
	if r.Status != 200 {
		return "err", nil
	}
	var l []string
	if err := json.Unmarshal(r.Body, &l); err != nil {
		return "panic", nil
	}
	return "ok", l
}

func strItems(l []string) []string {
	ss := make([]string, len(l))
	for i, s := range l {
		ss[i] = lib.CoqString(s)
	}
	return ss
}

func pairItems(bd *lib.Binder, ks []string, vs [][]byte) []string {
	ss := make([]string, len(ks))
	for i := range ks {
		ss[i] = "(" + lib.CoqString(ks[i]) + ", " + bd.Bytes(vs[i]) + ")"
	}
	return ss
}

func (w *world) versionCase(run *lib.Run, seed uint64, v int, rng *lib.Rand, nq int) {
	bd := lib.NewBinder()
	entries := w.dump()
	table := w.table(bd, v, entries)
	ctx := w.ctx(v)
	// point reads
	var pts []string
	for _, k := range w.universe {
		g := dv.Get(w.url(v, "key/"+url.PathEscape(k)))
		hg := "Err"
		switch {
		case g.Class() == "panic":
			hg = "Panic"
		case g.Status == 200:
			hg = "(Ok (Some " + bd.Bytes(g.Body) + "))"
		case g.Status == 404:
			hg = "(Ok None)"
		}
		pts = append(pts, fmt.Sprintf("(%s, %s, %s)", lib.CoqString(k), w.dbGet(v, tkeyOf(k)), hg))
	}
	cls, all := httpList(dv.Get(w.url(v, "keys")))
	allKeys := resList(cls, strItems(all))
	// keyvalues?json=true for every key string
	body, _ := json.Marshal(w.universe)
	mr := dv.Do("GET", w.url(v, "keyvalues?json=true"), body)
	multi := "Err"
	if mr.Class() == "panic" {
		multi = "Panic"
	} else if mr.Status == 200 {
		ks, vs, err := jsonObject(mr.Body)
		if err != nil {
			multi = "Panic"
		} else {
			multi = resList("ok", pairItems(bd, ks, vs))
		}
	}
	// intervals: ends drawn from the keys visible at this version (so that lo and hi are themselves
	// members of the answer), from the other keys, and from their prefixes, extensions and neighbours;
	// the whole space, single keys, empty intervals
	var visible []string
	for _, k := range w.universe {
		if w.visible(v, k) {
			visible = append(visible, k)
		}
	}
	base := func() string {
		if len(visible) > 0 && rng.Chance(0.6) {
			return visible[rng.Intn(len(visible))]
		}
		return w.universe[rng.Intn(len(w.universe))]
	}
	pickEnd := func() string {
		k := base()
		if rng.Chance(0.5) {
			return k
		}
		return neighbour(rng, k)
	}
	var qs []string
	for n := 0; n < nq; n++ {
		lo, hi := pickEnd(), pickEnd()
		switch {
		case n == 0:
			lo, hi = "0", "z" // whole space
		case n == 1:
			lo = base()
			hi = lo // single key
		case n == 2:
			lo, hi = base(), base() // both ends stored keys
			if lo > hi {
				lo, hi = hi, lo
			}
		case lo > hi && rng.Chance(0.8):
			lo, hi = hi, lo
		}
		run.Count("interval-ends-visible:" + endsVisible(lo, hi, visible))
		run.Count("interval:" + intervalKind(lo, hi, w.universe))
		ta, tb := tkeyOf(lo), tkeyOf(hi)
		rcls, rItems := "ok", []string(nil)
		pan, _ := lib.Recover(func() {
			tkvs, err := w.db.GetRange(ctx, ta, tb)
			if err != nil {
				rcls = "err"
				return
			}
			for _, tkv := range tkvs {
				rItems = append(rItems, "("+bd.Bytes(tkv.K)+", "+bd.Bytes(tkv.V)+")")
			}
		})
		if pan {
			rcls = "panic"
		}
		kcls, kItems := "ok", []string(nil)
		pan, _ = lib.Recover(func() {
			tks, err := w.db.KeysInRange(ctx, ta, tb)
			if err != nil {
				kcls = "err"
				return
			}
			for _, tk := range tks {
				kItems = append(kItems, bd.Bytes(tk))
			}
		})
		if pan {
			kcls = "panic"
		}
		a, b := url.PathEscape(lo), url.PathEscape(hi)
		hcls, hl := httpList(dv.Get(w.url(v, "keyrange/"+a+"/"+b)))
		decode := func(r dv.Resp, f func([]byte) ([]string, [][]byte, error)) string {
			if r.Class() == "panic" {
				return "Panic"
			}
			if r.Status != 200 {
				return "Err"
			}
			ks, vs, err := f(r.Body)
			if err != nil {
				return "Panic"
			}
			return resList("ok", pairItems(bd, ks, vs))
		}
		hj := decode(dv.Get(w.url(v, "keyrangevalues/"+a+"/"+b+"?json=true")), jsonObject)
		ht := decode(dv.Get(w.url(v, "keyrangevalues/"+a+"/"+b+"?jsontar=true")), tarEntries)
		qs = append(qs, fmt.Sprintf("{| q_lo := %s; q_hi := %s; q_range := %s; q_keys := %s; q_http_keyrange := %s; q_http_json := %s; q_http_tar := %s |}",
			lib.CoqString(lo), lib.CoqString(hi), resList(rcls, rItems), resList(kcls, kItems), resList(hcls, strItems(hl)), hj, ht))
	}
	term := bd.Wrap(fmt.Sprintf("CVersion %d %d %s\n   %s\n   %s\n   [%s]\n   %s\n   %s\n   [%s]", w.inst, w.verID(v), w.dagTerm(), coqStore(bd, entries), table,
		strings.Join(pts, "; "), allKeys, multi, strings.Join(qs, ";\n    ")))
	run.Count(fmt.Sprintf("versions-in-history:%d", len(w.h.UUIDs)))
	run.Add("version", term, jcase{Kind: "version", Seed: seed, Version: v, Special: w.special}, fmt.Sprintf("version/%d/%d", seed, v))
}

func (w *world) visible(v int, k string) bool {
	b, err := w.db.Get(w.ctx(v), tkeyOf(k))
	return err == nil && b != nil
}

// neighbour: a prefix, an extension, the successor or the predecessor string of k
func neighbour(rng *lib.Rand, k string) string {
	switch rng.Intn(4) {
	case 0:
		if len(k) > 1 {
			return k[:len(k)-1]
		}
		return k
	case 1:
		return k + string(rune('0'+rng.Intn(10)))
	case 2:
		b := []byte(k)
		b[len(b)-1]++
		return string(b)
	}
	b := []byte(k)
	if b[len(b)-1] > '0' {
		b[len(b)-1]--
	}
	return string(b)
}

func endsVisible(lo, hi string, visible []string) string {
	in := func(s string) bool {
		for _, k := range visible {
			if k == s {
				return true
			}
		}
		return false
	}
	switch {
	case lo == hi && in(lo):
		return "single-stored-key"
	case in(lo) && in(hi):
		return "both"
	case in(hi):
		return "hi-only"
	case in(lo):
		return "lo-only"
	}
	return "neither"
}

func intervalKind(lo, hi string, universe []string) string {
	in := func(s string) bool {
		for _, k := range universe {
			if k == s {
				return true
			}
		}
		return false
	}
	switch {
	case lo > hi:
		return "empty"
	case lo == hi:
		return "single"
	case strings.HasPrefix(hi, lo) || strings.HasPrefix(lo, hi):
		return "prefix-related"
	case in(lo) && in(hi):
		return "both-existing"
	case in(lo) || in(hi):
		return "one-existing"
	}
	return "neither-existing"
}

// parents of every version, from the recorded child requests
// dagTerm: the version DAG in DVID version ids, one row per version (the root with no parents), for
// the refinement checker (Model/KVRangeRun.v refine_version_ok / refine_delete_ok); "[]" = not given
func (w *world) dagTerm() string {
	ps := w.parents()
	n := len(w.h.UUIDs)
	for c := range ps {
		if c > n {
			return "[]"
		}
	}
	if len(ps) != n-1 {
		return "[]"
	}
	rows := make([]string, 0, n)
	for v := 1; v <= n; v++ {
		var pl []string
		for _, p := range ps[v] {
			pl = append(pl, fmt.Sprintf("%d", w.verID(p)))
		}
		rows = append(rows, fmt.Sprintf("(%d, [%s])", w.verID(v), strings.Join(pl, "; ")))
	}
	return "[" + strings.Join(rows, "; ") + "]"
}

func (w *world) parents() map[int][]int {
	ps := map[int][]int{}
	n := 1
	for i, o := range w.h.Ops {
		if o.Op == "child" && w.h.Obs[i] == "OAccepted" {
			n++
			ps[n] = o.Parents
		}
	}
	return ps
}

// deleteRangeCases: several db.DeleteRange calls per history, each on an uncommitted version that sees
// keys (a fresh child of a committed version when needed), with both interval ends drawn from the
// keys visible there: hi = a stored key, lo = a stored key, lo = hi = a stored key, neighbours.
// Point reads of every key at the version, its parents, its siblings and the root, range reads at the
// version, and (last case) reads at a new descendant.  only > 0: emit just that case (replay).
func (w *world) deleteRangeCases(run *lib.Run, seed uint64, rng *lib.Rand, count, only int) {
	for n := 1; n <= count; n++ {
		emit := only == 0 || only == n
		// an open version that sees something
		v := 0
		for _, o := range w.h.OpenList() {
			for _, k := range w.universe {
				if w.visible(o, k) {
					v = o
				}
			}
		}
		if v == 0 || rng.Chance(0.4) {
			if lk := w.h.LockedList(); len(lk) > 0 {
				how := "newversion"
				if rng.Bool() {
					how = "branch"
				}
				before := len(w.h.UUIDs)
				w.h.Child(how, []int{lk[rng.Intn(len(lk))]})
				if len(w.h.UUIDs) > before {
					v = len(w.h.UUIDs)
				}
			}
		}
		if v == 0 {
			if op := w.h.OpenList(); len(op) > 0 {
				v = op[0]
			} else {
				run.Count("delete-range:skipped-no-open-version")
				return
			}
		}
		var visible []string
		for _, k := range w.universe {
			if w.visible(v, k) {
				visible = append(visible, k)
			}
		}
		pick := func() string {
			if len(visible) > 0 {
				return visible[rng.Intn(len(visible))]
			}
			return w.universe[rng.Intn(len(w.universe))]
		}
		lo, hi := pick(), pick()
		mode := ""
		switch (n + int(seed%3)) % 4 {
		case 0:
			hi = lo
			mode = "single-stored-key"
		case 1:
			mode = "both-stored"
		case 2:
			lo = neighbour(rng, lo)
			mode = "hi-stored"
		default:
			hi = neighbour(rng, hi)
			mode = "lo-stored"
		}
		if lo > hi {
			lo, hi = hi, lo
		}
		// versions read: v, its parents, its siblings, the root
		ps := w.parents()
		vs := []int{v}
		add := func(x int) {
			for _, y := range vs {
				if y == x {
					return
				}
			}
			if len(vs) < 5 {
				vs = append(vs, x)
			}
		}
		for _, p := range ps[v] {
			add(p)
		}
		for c, cps := range ps {
			for _, p := range cps {
				for _, q := range ps[v] {
					if p == q && c != v {
						add(c)
					}
				}
			}
		}
		add(1)
		sort.Ints(vs[1:])
		bd := lib.NewBinder()
		before := w.dump()
		dagBefore := w.dagTerm()
		table := w.table(bd, v, before)
		reads := func() string {
			var ss []string
			for _, vv := range vs {
				for _, k := range w.universe {
					tk := tkeyOf(k)
					ss = append(ss, fmt.Sprintf("(%d, %s, %s)", w.verID(vv), bd.Bytes(tk), w.dbGet(vv, tk)))
				}
			}
			return "[" + strings.Join(ss, "; ") + "]"
		}
		keysIn := func(a, b storage.TKey) string {
			cls, items := "ok", []string(nil)
			pan, _ := lib.Recover(func() {
				tks, err := w.db.KeysInRange(w.ctx(v), a, b)
				if err != nil {
					cls = "err"
					return
				}
				for _, tk := range tks {
					items = append(items, bd.Bytes(tk))
				}
			})
			if pan {
				cls = "panic"
			}
			return resList(cls, items)
		}
		rb := reads()
		kb := keysIn(keyvalue.MinTKey, keyvalue.MaxTKey)
		ok := true
		pan, _ := lib.Recover(func() {
			if err := w.db.DeleteRange(w.ctx(v), tkeyOf(lo), tkeyOf(hi)); err != nil {
				ok = false
			}
		})
		if pan {
			ok = false
		}
		after := w.dump()
		ra := reads()
		ka := keysIn(keyvalue.MinTKey, keyvalue.MaxTKey)
		kin := keysIn(tkeyOf(lo), tkeyOf(hi))
		desc := "[]"
		if n == count {
			// a descendant: commit v, create a child, read every key there
			w.h.Commit(v)
			nb := len(w.h.UUIDs)
			w.h.Child("newversion", []int{v})
			if len(w.h.UUIDs) > nb {
				c := len(w.h.UUIDs)
				var ss []string
				for _, k := range w.universe {
					tk := tkeyOf(k)
					ss = append(ss, fmt.Sprintf("(%s, %s)", bd.Bytes(tk), w.dbGet(c, tk)))
				}
				desc = "[" + strings.Join(ss, "; ") + "]"
				run.Count("delete-range:descendant-read")
			}
		}
		if !emit {
			continue
		}
		term := bd.Wrap(fmt.Sprintf("CDeleteRange %d %d %s\n   %s\n   %s\n   %s %s %s\n   %s\n   %s\n   %s\n   %s %s %s\n   %s", w.inst, w.verID(v), dagBefore, coqStore(bd, before), table,
			bd.Bytes(tkeyOf(lo)), bd.Bytes(tkeyOf(hi)), lib.CoqBool(ok), coqStore(bd, after), rb, ra, kb, ka, kin, desc))
		run.Count("delete-range-ends:" + mode + "/visible-now:" + endsVisible(lo, hi, visible))
		run.Add("delete-range", term, jcase{Kind: "deleterange", Seed: seed, Special: w.special, N: n}, fmt.Sprintf("deleterange/%d/%d", seed, n))
	}
}

// ---- storage-API section: one instance whose TKeys lie in several classes ----

var mcClasses = []byte{2, 70, 177, 178, 255}

func mcUniverse() []storage.TKey {
	var u []storage.TKey
	for _, c := range mcClasses {
		for _, b := range [][]byte{{0, 0}, {0x61, 0x30}, {0xff, 0xff}} {
			u = append(u, storage.NewTKey(storage.TKeyClass(c), b))
		}
	}
	return u
}

func tkvItems(bd *lib.Binder, l []*storage.TKeyValue) []string {
	ss := make([]string, len(l))
	for i, e := range l {
		ss[i] = "(" + bd.Bytes(e.K) + ", " + bd.Bytes(e.V) + ")"
	}
	return ss
}

// multiClass builds a small branched history through db.Put / db.Delete under VersionedCtxs with TKeys
// of five classes, then asks, per version, every range consumer for intervals inside one class,
// across classes and over the whole TKey space; finally two DeleteRange calls (cross-class, whole
// space) on an open version.  only: "" all, "v<n>" that version case, "d<n>" that DeleteRange case.
//
// received: the repo is first taken through the receiving end of a push (datastore.VerifReceiveRepo,
// then a restart), which hands out new local version ids in an order unrelated to ancestry — an
// ancestor can have a larger id than its descendant — and the data is written at every version, as a
// push transfers it.
func multiClass(run *lib.Run, seed uint64, n int, thorough bool, only string, received bool) {
	rng := lib.NewRand(seed)
	name := fmt.Sprintf("mc%d", n)
	if received {
		name = fmt.Sprintf("rc%d", n)
	}
	h, err := kvhist.New(rng, name)
	if err != nil {
		panic(err)
	}
	w := &world{h: h, special: "multiclass"}
	bind := func() {
		d, err := datastore.GetDataByUUIDName(dvid.UUID(h.Root), dvid.InstanceName(h.Inst))
		if err != nil {
			panic(err)
		}
		w.data = d
		w.inst = uint32(d.InstanceID())
		if w.db, err = datastore.GetOrderedKeyValueDB(d); err != nil {
			panic(err)
		}
	}
	bind()
	uni := mcUniverse()
	ctr := 0
	write := func(v, count int) {
		for j := 0; j < count; j++ {
			tk := uni[rng.Intn(len(uni))]
			switch x := rng.Intn(10); {
			case x < 2:
				w.db.Delete(w.ctx(v), tk)
			case x == 2:
				w.db.Put(w.ctx(v), tk, []byte{}) // an empty value is a value
			default:
				ctr++
				w.db.Put(w.ctx(v), tk, []byte{tk[0], byte(ctr)})
			}
		}
	}
	openV := 4
	vs := []int{4, 2, 1, 3}
	if !received {
		write(1, 9)
		h.Commit(1)
		h.Child("branch", []int{1})     // 2
		h.Child("newversion", []int{1}) // 3
		write(2, 5)
		write(3, 5)
		h.Commit(2)
		h.Child("newversion", []int{2}) // 4, open
		write(4, 3)
	} else {
		h.Commit(1)
		h.Child("branch", []int{1})     // 2
		h.Child("newversion", []int{1}) // 3
		h.Commit(2)
		h.Commit(3)
		h.Child("newversion", []int{2}) // 4
		h.Child("merge", []int{3, 2})   // 5
		h.Commit(4)
		h.Child("newversion", []int{4}) // 6, open
		openV = 6
		vs = []int{6, 4, 2, 1, 5}
		// the order in which the receiver hands out its version ids: a random permutation with
		// at least one ancestor after its descendant
		order := make([]dvid.UUID, len(h.UUIDs))
		perm := make([]int, len(h.UUIDs))
		for j := range perm {
			perm[j] = j
		}
		for j := len(perm) - 1; j > 0; j-- {
			k := rng.Intn(j + 1)
			perm[j], perm[k] = perm[k], perm[j]
		}
		sorted := true
		for j := 1; j < len(perm); j++ {
			if perm[j] < perm[j-1] {
				sorted = false
			}
		}
		if sorted {
			for j, k := 0, len(perm)-1; j < k; j, k = j+1, k-1 {
				perm[j], perm[k] = perm[k], perm[j]
			}
		}
		for j, pj := range perm {
			order[j] = dvid.UUID(h.UUIDs[pj])
		}
		if err := datastore.VerifReceiveRepo(dvid.UUID(h.Root), "", order); err != nil {
			panic(err)
		}
		datastore.CloseReopenTest()
		bind()
		inv := 0
		for a := 1; a <= len(h.UUIDs); a++ {
			for b := a + 1; b <= len(h.UUIDs); b++ {
				if w.verID(a) > w.verID(b) {
					inv++
				}
			}
		}
		run.Count(fmt.Sprintf("received-repo:creation-order-inversions:%d", inv))
		for v := 1; v <= len(h.UUIDs); v++ {
			write(v, 4)
		}
	}

	minT := func(c byte) storage.TKey { return storage.MinTKey(storage.TKeyClass(c)) }
	maxT := func(c byte) storage.TKey { return storage.MaxTKey(storage.TKeyClass(c)) }
	type iv struct {
		lo, hi storage.TKey
		kind  string
	}
	intervals := func(r *lib.Rand, nq int) []iv {
		pc := func() byte { return mcClasses[r.Intn(len(mcClasses))] }
		l := []iv{{minT(storage.TKeyMinClass), maxT(storage.TKeyMaxClass), "whole-space"}}
		c := pc()
		l = append(l, iv{minT(c), maxT(c), "one-class"})
		c1, c2 := pc(), pc()
		if c1 > c2 {
			c1, c2 = c2, c1
		}
		if c1 == c2 {
			c1, c2 = mcClasses[0], mcClasses[len(mcClasses)-1]
		}
		l = append(l, iv{minT(c1), maxT(c2), "cross-class-bounds"})
		for len(l) < nq {
			a, b := uni[r.Intn(len(uni))], uni[r.Intn(len(uni))]
			if bytes.Compare(a, b) > 0 && r.Chance(0.85) {
				a, b = b, a
			}
			kind := "cross-class-keys"
			switch {
			case bytes.Compare(a, b) > 0:
				kind = "empty"
			case a[0] == b[0]:
				kind = "one-class-keys"
			}
			l = append(l, iv{a, b, kind})
		}
		return l
	}

	kindName := "multiclass"
	if received {
		kindName = "received"
	}
	nq := 6
	if thorough {
		nq = 9
	}
	if received && !thorough {
		nq = 4
	}
	for v := 1; v <= len(h.UUIDs); v++ {
		r := lib.NewRand(seed*131 + uint64(v))
		if only != "" && only != fmt.Sprintf("v%d", v) {
			continue
		}
		bd := lib.NewBinder()
		entries := w.dump()
		table := w.table(bd, v, entries)
		ctx := w.ctx(v)
		var pts []string
		for _, tk := range uni {
			pts = append(pts, fmt.Sprintf("(%s, %s)", bd.Bytes(tk), w.dbGet(v, tk)))
		}
		var qs []string
		for _, q := range intervals(r, nq) {
			run.Count("multiclass-interval:" + q.kind)
			rcls, rItems := "ok", []string(nil)
			if pan, _ := lib.Recover(func() {
				l, err := w.db.GetRange(ctx, q.lo, q.hi)
				if err != nil {
					rcls = "err"
					return
				}
				rItems = tkvItems(bd, l)
			}); pan {
				rcls = "panic"
			}
			kcls, kItems := "ok", []string(nil)
			if pan, _ := lib.Recover(func() {
				l, err := w.db.KeysInRange(ctx, q.lo, q.hi)
				if err != nil {
					kcls = "err"
					return
				}
				for _, tk := range l {
					kItems = append(kItems, bd.Bytes(tk))
				}
			}); pan {
				kcls = "panic"
			}
			pcls, pItems := "ok", []string(nil)
			if pan, _ := lib.Recover(func() {
				err := w.db.ProcessRange(ctx, q.lo, q.hi, &storage.ChunkOp{}, func(c *storage.Chunk) error {
					if c != nil && c.TKeyValue != nil {
						pItems = append(pItems, "("+bd.Bytes(c.K)+", "+bd.Bytes(c.V)+")")
					}
					return nil
				})
				if err != nil {
					pcls = "err"
				}
			}); pan {
				pcls = "panic"
			}
			scls, sItems := "ok", []string(nil)
			if pan, _ := lib.Recover(func() {
				ch := make(storage.KeyChan)
				done := make(chan struct{})
				go func() {
					for k := range ch {
						if k == nil {
							break
						}
						sItems = append(sItems, bd.Bytes(k))
					}
					close(done)
				}()
				if err := w.db.SendKeysInRange(ctx, q.lo, q.hi, ch); err != nil {
					scls = "err"
				}
				<-done
			}); pan {
				scls = "panic"
			}
			qs = append(qs, fmt.Sprintf("{| m_lo := %s; m_hi := %s; m_range := %s; m_keys := %s; m_process := %s; m_send := %s |}",
				bd.Bytes(q.lo), bd.Bytes(q.hi), resList(rcls, rItems), resList(kcls, kItems), resList(pcls, pItems), resList(scls, sItems)))
		}
		term := bd.Wrap(fmt.Sprintf("CMulti %d %d\n   %s\n   %s\n   [%s]\n   [%s]", w.inst, w.verID(v), coqStore(bd, entries), table,
			strings.Join(pts, "; "), strings.Join(qs, ";\n    ")))
		run.Add(kindName, term, jcase{Kind: kindName, Seed: seed, Special: fmt.Sprintf("v%d", v)}, fmt.Sprintf("%s/%d/%d", kindName, seed, v))
	}

	// DeleteRange across classes and over the whole space, on the open version
	dels := []iv{{minT(mcClasses[1]), maxT(mcClasses[3]), "cross-class-bounds"}, {minT(storage.TKeyMinClass), maxT(storage.TKeyMaxClass), "whole-space"}}
	for j, q := range dels {
		emit := only == "" || only == fmt.Sprintf("d%d", j+1)
		if only != "" && only[0] == 'v' {
			break
		}
		v := openV
		bd := lib.NewBinder()
		before := w.dump()
		table := w.table(bd, v, before)
		reads := func() string {
			var ss []string
			for _, vv := range vs {
				for _, tk := range uni {
					ss = append(ss, fmt.Sprintf("(%d, %s, %s)", w.verID(vv), bd.Bytes(tk), w.dbGet(vv, tk)))
				}
			}
			return "[" + strings.Join(ss, "; ") + "]"
		}
		keysIn := func(a, b storage.TKey) string {
			cls, items := "ok", []string(nil)
			if pan, _ := lib.Recover(func() {
				tks, err := w.db.KeysInRange(w.ctx(v), a, b)
				if err != nil {
					cls = "err"
					return
				}
				for _, tk := range tks {
					items = append(items, bd.Bytes(tk))
				}
			}); pan {
				cls = "panic"
			}
			return resList(cls, items)
		}
		rb := reads()
		kb := keysIn(minT(storage.TKeyMinClass), maxT(storage.TKeyMaxClass))
		ok := true
		if pan, _ := lib.Recover(func() {
			if err := w.db.DeleteRange(w.ctx(v), q.lo, q.hi); err != nil {
				ok = false
			}
		}); pan {
			ok = false
		}
		after := w.dump()
		ra := reads()
		ka := keysIn(minT(storage.TKeyMinClass), maxT(storage.TKeyMaxClass))
		kin := keysIn(q.lo, q.hi)
		if j == 0 {
			write(openV, 4) // something to delete for the whole-space call
		}
		if !emit {
			continue
		}
		term := bd.Wrap(fmt.Sprintf("CDeleteRange %d %d []\n   %s\n   %s\n   %s %s %s\n   %s\n   %s\n   %s\n   %s %s %s\n   []", w.inst, w.verID(v), coqStore(bd, before), table,
			bd.Bytes(q.lo), bd.Bytes(q.hi), lib.CoqBool(ok), coqStore(bd, after), rb, ra, kb, ka, kin))
		run.Count("multiclass-delete-range:" + q.kind)
		run.Add(kindName+"-delete", term, jcase{Kind: kindName, Seed: seed, Special: fmt.Sprintf("d%d", j+1)}, fmt.Sprintf("%s-del/%d/%d", kindName, seed, j))
	}
}

// ---- wide keys: every key length 1..80, every byte class ----

// first characters by class: ASCII control, punctuation, DEL, 2-, 3- and 4-byte UTF-8 (U+FFFF, an
// emoji, CJK extension B), invalid UTF-8 bytes, 0xF0.., 0xFF.  No NUL (refused) and no '/' (path separator).
var wideHeads = [][]byte{
	{0x01}, {0x1f}, []byte("!"), []byte("\""), []byte("%"), []byte("+"), []byte("?"), []byte("#"), []byte("\\"), []byte("~"),
	{0x7f}, []byte("\u00e9"), []byte("\u20ac"), []byte("\uffff"), []byte("\U0001F600"), []byte("\U00020000"),
	{0x80}, {0xbf}, {0xc3}, {0xf0}, {0xf8}, {0xff}, []byte("a"), []byte("Z"), []byte("0"), []byte(" "),
}

func wideKeys(rng *lib.Rand) []string {
	var ks []string
	for L := 1; L <= 80; L++ {
		h := wideHeads[(L*7+rng.Intn(3))%len(wideHeads)]
		if len(h) > L {
			h = wideHeads[(L+rng.Intn(11))%11] // a one-byte head
			if L == 1 && (h[0] == '.' || h[0] == '%') {
				h = []byte("~")
			}
		}
		b := append([]byte{}, h...)
		for len(b) < L {
			switch x := rng.Intn(12); {
			case x == 0 && len(b)+2 <= L:
				b = append(b, 0xc3, 0xa9)
			case x == 1:
				b = append(b, byte(0x80+rng.Intn(0x40))) // a stray continuation byte
			case x == 2:
				b = append(b, " !$&'()*+,;=:@[]^_`{|}~-"[rng.Intn(24)])
			default:
				b = append(b, "abcdefghijklmnopqrstuvwxyz0123456789"[rng.Intn(36)])
			}
		}
		ks = append(ks, string(b))
	}
	return ks
}

// how encoding/json renders a key name in a listing (invalid UTF-8 becomes U+FFFD)
func rendered(k string) string {
	b, _ := json.Marshal(k)
	var s string
	json.Unmarshal(b, &s)
	return s
}

func wideSection(run *lib.Run, seed uint64, n int, only int) {
	rng := lib.NewRand(seed)
	h, err := kvhist.New(rng, fmt.Sprintf("wd%d", n))
	if err != nil {
		panic(err)
	}
	w := &world{h: h, special: "wide"}
	d, err := datastore.GetDataByUUIDName(dvid.UUID(h.Root), dvid.InstanceName(h.Inst))
	if err != nil {
		panic(err)
	}
	w.data = d
	w.inst = uint32(d.InstanceID())
	if w.db, err = datastore.GetOrderedKeyValueDB(d); err != nil {
		panic(err)
	}
	w.universe = wideKeys(rng)
	back := map[string]string{}
	for _, k := range w.universe {
		r := rendered(k)
		if _, dup := back[r]; dup {
			panic("two keys render alike: " + r)
		}
		back[r] = k
	}
	unrender := func(l []string) []string {
		out := make([]string, len(l))
		for i, name := range l {
			if k, ok := back[name]; ok {
				out[i] = k
			} else {
				out[i] = name
			}
		}
		return out
	}
	ctr := 0
	post := func(v int, k string) {
		ctr++
		if r := dv.Post(w.url(v, "key/"+url.PathEscape(k)), []byte{byte('a' + ctr%26), byte('0' + ctr%10)}); r.Status != 200 {
			run.Count(fmt.Sprintf("wide:post-refused:%d", r.Status))
		}
	}
	for _, k := range w.universe {
		if rng.Chance(0.9) {
			post(1, k)
		}
	}
	h.Commit(1)
	h.Child("newversion", []int{1})
	for _, k := range w.universe {
		switch x := rng.Intn(10); {
		case x == 0:
			dv.Delete(w.url(2, "key/"+url.PathEscape(k)))
		case x <= 2:
			post(2, k)
		}
	}
	sorted := append([]string{}, w.universe...)
	sort.Strings(sorted) // byte order
	for v := 1; v <= 2; v++ {
		if only != 0 && only != v {
			continue
		}
		bd := lib.NewBinder()
		entries := w.dump()
		table := w.table(bd, v, entries)
		if v == 1 {
			// the first version is judged by the oracle only (no dump: keeps the cases file small)
			entries, table = nil, "[]"
		}
		ctx := w.ctx(v)
		var pts []string
		for _, k := range w.universe {
			g := dv.Get(w.url(v, "key/"+url.PathEscape(k)))
			hg := "Err"
			switch {
			case g.Class() == "panic":
				hg = "Panic"
			case g.Status == 200:
				hg = "(Ok (Some " + bd.Bytes(g.Body) + "))"
			case g.Status == 404:
				hg = "(Ok None)"
			}
			pts = append(pts, fmt.Sprintf("(%s, %s, %s)", bd.Bytes([]byte(k)), strings.Replace(w.dbGet(v, tkeyOf(k)), "(Ok (Some ", "(Ok (Some ", 1), hg))
		}
		cls, all := httpList(dv.Get(w.url(v, "keys")))
		byteItems := func(l []string) []string {
			ss := make([]string, len(l))
			for i, x := range l {
				ss[i] = bd.Bytes([]byte(x))
			}
			return ss
		}
		allKeys := resList(cls, byteItems(unrender(all)))
		var qs []string
		if v == 2 {
			type iv struct{ lo, hi string }
			var ivs []iv
			for j := 0; j+1 < len(sorted); j++ {
				ivs = append(ivs, iv{sorted[j], sorted[j+1]}) // every key once as lower, once as upper bound
			}
			for _, k := range sorted {
				ivs = append(ivs, iv{k, k})
			}
			for _, q := range ivs {
				ta, tb := tkeyOf(q.lo), tkeyOf(q.hi)
				rcls, rItems := "ok", []string(nil)
				if pan, _ := lib.Recover(func() {
					l, err := w.db.GetRange(ctx, ta, tb)
					if err != nil {
						rcls = "err"
						return
					}
					rItems = tkvItems(bd, l)
				}); pan {
					rcls = "panic"
				}
				kcls, kItems := "ok", []string(nil)
				if pan, _ := lib.Recover(func() {
					l, err := w.db.KeysInRange(ctx, ta, tb)
					if err != nil {
						kcls = "err"
						return
					}
					for _, tk := range l {
						kItems = append(kItems, bd.Bytes(tk))
					}
				}); pan {
					kcls = "panic"
				}
				hcls, hl := httpList(dv.Get(w.url(v, "keyrange/"+url.PathEscape(q.lo)+"/"+url.PathEscape(q.hi))))
				qs = append(qs, fmt.Sprintf("{| w_lo := %s; w_hi := %s; w_range := %s; w_keys := %s; w_http := %s |}",
					bd.Bytes([]byte(q.lo)), bd.Bytes([]byte(q.hi)), resList(rcls, rItems), resList(kcls, kItems), resList(hcls, byteItems(unrender(hl)))))
			}
			run.Count(fmt.Sprintf("wide:intervals:%d", len(ivs)))
		}
		term := bd.Wrap(fmt.Sprintf("CWide %d %d\n   %s\n   %s\n   [%s]\n   %s\n   [%s]", w.inst, w.verID(v), coqStore(bd, entries), table,
			strings.Join(pts, "; "), allKeys, strings.Join(qs, ";\n    ")))
		run.Count("wide:key-lengths-1-to-80")
		run.Add("wide", term, jcase{Kind: "wide", Seed: seed, Version: v}, fmt.Sprintf("wide/%d/%d", seed, v))
	}
}

// ---- ranges holding a number of keys at an internal batch threshold ----

func localConst(name string) int {
	b, err := os.ReadFile("../coq/Gen/LocalConstsKV.v")
	if err != nil {
		fmt.Fprintln(os.Stderr, "cannot read the generated constants:", err)
		os.Exit(2)
	}
	i := strings.Index(string(b), "Definition "+name+" : N := ")
	if i < 0 {
		fmt.Fprintln(os.Stderr, "generated constant missing:", name)
		os.Exit(2)
	}
	var v int
	fmt.Sscanf(string(b)[i+len("Definition "+name+" : N := "):], "%d", &v)
	return v
}

func be32(x int) []byte { return []byte{byte(x >> 24), byte(x >> 16), byte(x >> 8), byte(x)} }

var batchRepo *kvhist.Hist

// batchCase: what = 0 DeleteRange, 1 GetRange, 2 KeysInRange, 3 ProcessRange, 4 PutRange, 5 DeleteAll
func batchCase(run *lib.Run, what, count int) {
	rng := lib.NewRand(uint64(what*1000003 + count))
	if batchRepo == nil {
		h, err := kvhist.New(rng, "bt")
		if err != nil {
			panic(err)
		}
		batchRepo = h
	}
	root := batchRepo.Root
	threshold := localConst("n_badger_DeleteRange_BATCH_SIZE")
	if what == 5 {
		threshold = localConst("n_badger_DeleteAll_BATCH_SIZE")
	}
	mk := func(name string) (datastore.DataService, storage.OrderedKeyValueDB) {
		if err := dv.NewInstance(root, "keyvalue", name, nil); err != nil {
			panic(err)
		}
		d, err := datastore.GetDataByUUIDName(dvid.UUID(root), dvid.InstanceName(name))
		if err != nil {
			panic(err)
		}
		db, err := datastore.GetOrderedKeyValueDB(d)
		if err != nil {
			panic(err)
		}
		return d, db
	}
	ver, _ := datastore.VersionFromUUID(dvid.UUID(root))
	sfx := fmt.Sprintf("%d_%d", what, count)
	dPrev, dbPrev := mk("bp" + sfx)
	d, db := mk("bt" + sfx)
	dNext, dbNext := mk("bn" + sfx)
	ctx := datastore.NewVersionedCtx(d, ver)
	tk := func(i int) storage.TKey { return storage.NewTKey(100, be32(i)) }
	tkvs := make([]storage.TKeyValue, count)
	for i := range tkvs {
		tkvs[i] = storage.TKeyValue{K: tk(i), V: []byte{byte(i), 1}}
	}
	outside := []struct {
		db  storage.OrderedKeyValueDB
		ctx *datastore.VersionedCtx
		tk  storage.TKey
	}{
		{db, ctx, storage.NewTKey(99, be32(7))}, {db, ctx, storage.NewTKey(101, be32(0))}, {db, ctx, tk(count)},
		{dbPrev, datastore.NewVersionedCtx(dPrev, ver), tk(0)}, {dbNext, datastore.NewVersionedCtx(dNext, ver), tk(0)},
	}
	ok := true
	chk := func(err error) {
		if err != nil {
			ok = false
		}
	}
	if pan, _ := lib.Recover(func() {
		chk(db.PutRange(ctx, tkvs))
		for _, o := range outside {
			chk(o.db.Put(o.ctx, o.tk, []byte{9}))
		}
	}); pan {
		ok = false
	}
	readable := func() int {
		n := 0
		for i := 0; i < count; i++ {
			if b, err := db.Get(ctx, tk(i)); err == nil && b != nil {
				n++
			}
		}
		return n
	}
	outsideN := func() int {
		n := 0
		for _, o := range outside {
			if what == 5 && o.db == db {
				continue // DeleteAll removes the whole instance
			}
			if b, err := o.db.Get(o.ctx, o.tk); err == nil && b != nil {
				n++
			}
		}
		return n
	}
	ob := outsideN()
	found := 0
	lo, hi := tk(0), tk(count-1)
	inOrder := func(keys []storage.TKey) int {
		n := 0
		for i, k := range keys {
			if i < count && bytes.Equal(k, tk(i)) {
				n++
			}
		}
		if len(keys) != count {
			return -len(keys) - 1 + n*0
		}
		return n
	}
	if pan, _ := lib.Recover(func() {
		switch what {
		case 0:
			chk(db.DeleteRange(ctx, lo, hi))
			found = readable()
		case 1:
			l, err := db.GetRange(ctx, lo, hi)
			chk(err)
			ks := make([]storage.TKey, len(l))
			for i, e := range l {
				ks[i] = e.K
			}
			found = inOrder(ks)
		case 2:
			l, err := db.KeysInRange(ctx, lo, hi)
			chk(err)
			found = inOrder(l)
		case 3:
			var ks []storage.TKey
			chk(db.ProcessRange(ctx, lo, hi, &storage.ChunkOp{}, func(c *storage.Chunk) error {
				ks = append(ks, c.K)
				return nil
			}))
			found = inOrder(ks)
		case 4:
			found = readable()
		case 5:
			chk(db.DeleteAll(ctx))
			l, err := db.KeysInRange(ctx, storage.MinTKey(storage.TKeyMinClass), storage.MaxTKey(storage.TKeyMaxClass))
			chk(err)
			found = len(l)
		}
	}); pan {
		ok = false
	}
	if found < 0 {
		found = 0
	}
	oa := outsideN()
	// make room: the instances are not needed any more
	for _, x := range []struct {
		db storage.OrderedKeyValueDB
		d  datastore.DataService
	}{{dbPrev, dPrev}, {db, d}, {dbNext, dNext}} {
		x.db.DeleteAll(datastore.NewVersionedCtx(x.d, ver))
	}
	names := []string{"DeleteRange", "GetRange", "KeysInRange", "ProcessRange", "PutRange", "DeleteAll"}
	term := fmt.Sprintf("(CBatch %d%%nat %d %d %d %d %d %s)", what, threshold, count, found, ob, oa, lib.CoqBool(ok))
	run.Count(fmt.Sprintf("batch:%s:threshold-%d", names[what], threshold))
	run.Add("batch", term, jcase{Kind: "batch", N: what, Seed: uint64(count)}, fmt.Sprintf("batch/%d/%d", what, count))
}

func batchSection(run *lib.Run, thorough bool) {
	t := localConst("n_badger_DeleteRange_BATCH_SIZE")
	for _, c := range []int{t - 1, t, t + 1, 2 * t, 2*t + 1} {
		batchCase(run, 4, c)
		batchCase(run, 0, c)
		if thorough || c == t || c == 2*t {
			batchCase(run, 1, c)
			batchCase(run, 2, c)
			batchCase(run, 3, c)
		}
	}
	t = localConst("n_badger_DeleteAll_BATCH_SIZE")
	cs := []int{t - 1, t, t + 1}
	if thorough {
		cs = append(cs, 2*t, 2*t+1)
	}
	for _, c := range cs {
		batchCase(run, 5, c)
	}
}

// build one random branched history; special adds the empty-value shape
func build(seed uint64, n int, special string) *world {
	rng := lib.NewRand(seed)
	h, err := kvhist.New(rng, fmt.Sprintf("kv%d", n))
	if err != nil {
		panic(err)
	}
	nkeys := 12
	// some keys at the root, then (for "conflict") two branches that both write k1 and are merged
	for k := 0; k < 8; k++ {
		if rng.Chance(0.7) {
			h.Put(k, 1)
		}
	}
	if special == "conflict" {
		h.Put(1, 1)
		h.Commit(1)
		h.Child("branch", []int{1})
		h.Child("branch", []int{1})
		h.Put(1, 2)
		h.Put(1, 3)
		h.Put(4, 3)
		h.Commit(2)
		h.Commit(3)
		h.Child("merge", []int{2, 3})
	}
	h.Random(60, nkeys, 7)
	w := &world{h: h, special: special}
	d, err := datastore.GetDataByUUIDName(dvid.UUID(h.Root), dvid.InstanceName(h.Inst))
	if err != nil {
		panic(err)
	}
	w.data = d
	w.inst = uint32(d.InstanceID())
	w.db, err = datastore.GetOrderedKeyValueDB(d)
	if err != nil {
		panic(err)
	}
	for k := 0; k < nkeys; k++ {
		w.universe = append(w.universe, fmt.Sprintf("k%d", k))
	}
	// extra keys related to the numbered ones as prefixes / extensions / neighbours
	extras := []string{"k", "k1x", "k10z", "j9", "m", "k1 0"}
	open := h.OpenList()
	ctr := 500
	for _, k := range extras {
		w.universe = append(w.universe, k)
		if len(open) == 0 {
			continue
		}
		for n := 0; n < 2; n++ {
			v := open[rng.Intn(len(open))]
			ctr++
			body := []byte(fmt.Sprint(ctr))
			if special == "empty" && rng.Chance(0.5) {
				body = []byte{}
			}
			if rng.Chance(0.2) {
				dv.Delete(h.URL(v, "key/"+url.PathEscape(k)))
			} else {
				dv.Post(h.URL(v, "key/"+url.PathEscape(k)), body)
			}
		}
	}
	if special == "empty" && len(open) > 0 {
		// the observed shape: POST key/k with an empty body
		dv.Post(h.URL(open[0], "key/k3"), []byte{})
	}
	sort.Strings(w.universe)
	return w
}

func main() {
	o := lib.ParseOpts()
	run := lib.NewRun("C05", o)
	run.Header("From DV Require Import Base.Prelude Model.KVRangeRun.", "Local Open Scope N_scope.")
	dv.Quiet()
	dv.Open()
	defer shutdown()

	hist := 0
	doHistory := func(seed uint64, special string, onlyVersion int, onlyDelete bool, onlyN int) {
		hist++
		w := build(seed, hist, special)
		rng := lib.NewRand(seed ^ 0x5a5a)
		nq := 5
		if o.Thorough() {
			nq = 8
		}
		nv := len(w.h.UUIDs)
		// the same random stream whether or not a single case is replayed
		for v := 1; v <= nv; v++ {
			sub := lib.NewRand(seed*31 + uint64(v))
			if onlyDelete || (onlyVersion != 0 && onlyVersion != v) {
				continue
			}
			if !o.Thorough() && onlyVersion == 0 && nv > 4 && v != 1 && v != nv && sub.Chance(0.55) {
				run.Count("version:skipped-for-size")
				continue
			}
			w.versionCase(run, seed, v, sub, nq)
		}
		if onlyVersion == 0 {
			nd := 3
			if o.Thorough() {
				nd = 4
			}
			w.deleteRangeCases(run, seed, rng, nd, onlyN)
		}
		run.Count("history-special:" + special)
	}

	if o.Replay != "" {
		var c jcase
		if err := lib.LoadReplay(o.Replay, &c); err != nil {
			fmt.Fprintln(os.Stderr, err)
			os.Exit(2)
		}
		if c.Kind == "wide" {
			wideSection(run, c.Seed, 1, c.Version)
		} else if c.Kind == "batch" {
			batchCase(run, c.N, int(c.Seed))
		} else if c.Kind == "multiclass" || c.Kind == "received" {
			multiClass(run, c.Seed, 1, o.Thorough(), c.Special, c.Kind == "received")
		} else {
			doHistory(c.Seed, c.Special, c.Version, c.Kind == "deleterange", c.N)
		}
		run.Finish("c05case", "replay", tail)
		shutdown()
		os.Exit(0)
	}

	rng := lib.NewRand(o.Seed)
	nH := 3
	if o.Thorough() {
		nH = 24
	}
	if o.N > 0 {
		nH = o.N
	}
	for n := 0; n < nH; n++ {
		special := ""
		switch n % 3 {
		case 1:
			special = "conflict"
		case 2:
			special = "empty"
		}
		seed := rng.U64()
		doHistory(seed, special, 0, false, 0)
	}
	nM := 1
	if o.Thorough() {
		nM = 8
	}
	for n := 0; n < nM; n++ {
		multiClass(run, rng.U64(), n+1, o.Thorough(), "", false)
	}
	wideSection(run, rng.U64(), 1, 0)
	batchSection(run, o.Thorough())
	// last: a restart replaces the store objects of the earlier sections
	for n := 0; n < nM; n++ {
		multiClass(run, rng.U64(), n+1, o.Thorough(), "", true)
	}
	run.Finish("c05case",
		"keyvalue keys of every length 1..80 and every byte class (control, punctuation, DEL, 2/3/4-byte UTF-8, invalid UTF-8, leading 0xF0/0xFF) with every stored key once as lower and once as upper bound and as [k,k]; ranges holding exactly N-1, N, N+1, 2N, 2N+1 keys for the batch sizes N of badger DeleteRange / DeleteAll read from the source; storage-API sections: a repo taken through the receiving end of a push (version ids not in creation order: ancestors with larger ids than descendants), data written at every version, and a locally created one; an instance with TKeys in five classes written by db.Put/db.Delete over a branched DAG, per version GetRange, KeysInRange, ProcessRange, SendKeysInRange for intervals inside one class, across classes and over MinTKey(0)..MaxTKey(255), and DeleteRange across classes and over the whole space; random branched histories (puts, deletes, batch writes, commits, branches, merges; 12 numbered keys plus prefix/extension/neighbour keys; every third history with empty values); per version: db.Get and GET key/k of every key, keys, keyvalues, and intervals with ends drawn from existing keys, their prefixes, extensions and neighbours, the whole space, single keys and empty intervals, through GetRange, KeysInRange, keyrange, keyrangevalues json/tar; one DeleteRange per history; distinct by (history seed, version)",
		tail)
}

const tail = `
Definition spec_fail := Eval vm_compute in c05_spec_fail cases.
Definition model_mismatch := Eval vm_compute in c05_model_mismatch cases.
`
