// Driver C14: labels.Block.Downres and labels.DownresLabels at package level, and a labelmap
// instance with down-sampling enabled driven over HTTP (in-process server): after each sequence of
// writes the label arrays are read back at every scale and compared level against level.
package main

import (
	"bytes"
	"compress/gzip"
	"encoding/binary"
	"encoding/hex"
	"encoding/json"
	"fmt"
	"io"
	"os"
	"os/exec"
	"strings"
	"sync"
	"time"

	"github.com/janelia-flyem/dvid/datastore"
	"github.com/janelia-flyem/dvid/datatype/common/downres"
	"github.com/janelia-flyem/dvid/datatype/common/labels"
	"github.com/janelia-flyem/dvid/datatype/labelmap"
	"github.com/janelia-flyem/dvid/dvid"
	"verif/harness/dv"
	"verif/harness/lib"
	"verif/harness/lib/blk"
)

type jwrite struct {
	Off    [3]int      `json:"off"`
	Size   [3]int      `json:"size"`
	Paints []blk.Paint `json:"paints"`
	Child  bool        `json:"child,omitempty"` // commit the node and continue on a new child version before this write
	Par    int         `json:"par,omitempty"`   // consecutive writes with the same non-zero group are issued concurrently
	Delay  int         `json:"delay,omitempty"` // microseconds this write of a concurrent group starts after the group's first
	// how the label data is changed: "" = POST raw (mutate); "blocks" = POST blocks with the options below
	// (Off/Size in voxels of level Scale); "bodysplit" = Data.SplitLabels called directly (the /split
	// endpoint is off by default); "svsplit" = POST split-supervoxel.  For the splits Paints is the mask of
	// the split volume over the box Off/Size (non-zero = inside), intersected with the body / supervoxel.
	Via     string  `json:"via,omitempty"`
	Scale   int     `json:"scale,omitempty"`
	Downres bool    `json:"downres,omitempty"`
	NoIndex bool    `json:"noindexing,omitempty"`
	Comp    string  `json:"compression,omitempty"`
	Label   uint64  `json:"label,omitempty"`  // body or supervoxel to split
	NoDown  bool    `json:"nodown,omitempty"` // svsplit with downres=false
	At      *[3]int `json:"at,omitempty"`     // Label = the supervoxel (svsplit) / body (bodysplit) found at this voxel when the write is issued
	// version-DAG histories: the version the write goes to.  0 = the root; 1 = the newversion child of the
	// root, 2 = its branch child.  The first write with Ver != 0 commits the root and opens BOTH children;
	// from then on the levels of both are read back after every step.
	Ver int `json:"ver,omitempty"`
}

// legal: false for the documented illegal option combinations of POST blocks (to be refused)
func (w jwrite) legal() bool {
	return w.Via != "blocks" || (!(w.Downres && w.Scale != 0) && (w.Comp == "" || w.Comp == "blocks"))
}

type jcase struct {
	Kind   string        `json:"kind"` // down | vote | http
	G      [3]int        `json:"g,omitempty"`
	Paints []blk.Paint   `json:"paints,omitempty"`
	Octs   [][]blk.Paint `json:"octs,omitempty"` // eight entries; null = nil octant
	N      [3]int        `json:"n,omitempty"`
	Max    int           `json:"max,omitempty"`
	Writes []jwrite      `json:"writes,omitempty"`
	Win    [3]int        `json:"win,omitempty"`
	WN     int           `json:"wn,omitempty"`
	WD     [3]int        `json:"wd,omitempty"` // window size per axis (default WN cubed)
	BS     [3]int        `json:"bs,omitempty"` // labelmap BlockSize (default 16,16,16)
	// read the levels back after EVERY write even though all writes are raw POSTs (emitted as CHist):
	// raw-only histories on cubic blocks are also evaluated by the block-level model in Coq
	Steps bool `json:"steps,omitempty"`
}

// dag: a history over a version DAG (some write names a version)
func (c jcase) dag() bool {
	for _, w := range c.Writes {
		if w.Ver != 0 {
			return true
		}
	}
	return false
}

func hx(b []byte) string { return `(hx "` + hex.EncodeToString(b) + `"%string)` }

func mkBlock(g [3]int, ps []blk.Paint) (*labels.Block, error) {
	return labels.MakeBlock(blk.ToBytes(blk.Expand(8*g[0], 8*g[1], 8*g[2], ps)), dvid.Point3d{int32(8 * g[0]), int32(8 * g[1]), int32(8 * g[2])})
}

// httpResult is what one labelmap history gives: the class of every write and the level digests.
type httpResult struct {
	Status []uint64            `json:"status"`
	Levels []string            `json:"levels"`
	Counts map[string]int      `json:"counts"`
	Tables map[int][][3]uint64 `json:"tables,omitempty"` // per split write: (old label, inside split volume 0/1, new label)
	// body splits whose request is outside the contract (empty split volume, or the whole body):
	// they have to be refused and change nothing
	Illegal map[int]bool `json:"illegal,omitempty"`
	// histories with other steps than raw writes: the levels read back after every step
	StepLevels [][]string `json:"step_levels,omitempty"`
	// version-DAG histories: after every step, for every version that exists then (the root alone, or
	// child 1 and child 2), the levels read back
	DagLevels [][][]string `json:"dag_levels,omitempty"`
}

// runHTTP plays one history against an in-process DVID.  It runs in a child process of the driver:
// a panic inside a server goroutine (e.g. a StoreDownres worker) cannot be recovered and would
// otherwise take the whole run with it.
func runHTTP(c jcase) (res httpResult) {
	res.Counts = map[string]int{}
	dv.Quiet()
	dv.Open()
	defer dv.Close()
	uuid, err := dv.NewRepo("c14")
	if err != nil {
		fmt.Fprintln(os.Stderr, err)
		os.Exit(2)
	}
	name := "lm"
	bs := c.BS
	if bs == [3]int{} {
		bs = [3]int{16, 16, 16}
	}
	wd := c.WD
	if wd == [3]int{} {
		wd = [3]int{c.WN, c.WN, c.WN}
	}
	if err := dv.NewInstance(uuid, "labelmap", name, map[string]string{"BlockSize": fmt.Sprintf("%d,%d,%d", bs[0], bs[1], bs[2]), "MaxDownresLevel": fmt.Sprint(c.Max)}); err != nil {
		fmt.Fprintln(os.Stderr, err)
		os.Exit(2)
	}
	res.Tables = map[int][][3]uint64{}
	res.Illegal = map[int]bool{}
	readWin := func(node string, body bool) []uint64 {
		q := "supervoxels=true"
		if body {
			q = "supervoxels=false"
		}
		r := dv.Get(fmt.Sprintf("/api/node/%s/%s/raw/0_1_2/%d_%d_%d/%d_%d_%d?%s", node, name, wd[0], wd[1], wd[2], c.Win[0], c.Win[1], c.Win[2], q))
		if r.Status != 200 || len(r.Body) != 8*wd[0]*wd[1]*wd[2] {
			return nil
		}
		return blk.FromBytes(r.Body)
	}
	classOf := func(r dv.Resp) uint64 {
		switch {
		case r.Status == 200:
			return 0
		case r.Status >= 500 && strings.Contains(string(r.Body), "anic"):
			return 2
		}
		return 1
	}
	post := func(i int, node string) uint64 {
		w := c.Writes[i]
		arr := blk.Expand(w.Size[0], w.Size[1], w.Size[2], w.Paints)
		switch w.Via {
		case "blocks":
			var buf bytes.Buffer
			for z := 0; z < w.Size[2]; z += bs[2] {
				for y := 0; y < w.Size[1]; y += bs[1] {
					for x := 0; x < w.Size[0]; x += bs[0] {
						sub := make([]uint64, 0, bs[0]*bs[1]*bs[2])
						for zz := z; zz < z+bs[2]; zz++ {
							for yy := y; yy < y+bs[1]; yy++ {
								o := (zz*w.Size[1]+yy)*w.Size[0] + x
								sub = append(sub, arr[o:o+bs[0]]...)
							}
						}
						b, err := labels.MakeBlock(blk.ToBytes(sub), dvid.Point3d{int32(bs[0]), int32(bs[1]), int32(bs[2])})
						if err != nil {
							return 1
						}
						ser, _ := b.MarshalBinary()
						var gz bytes.Buffer
						zw := gzip.NewWriter(&gz)
						zw.Write(ser)
						zw.Close()
						for _, v := range []int{floorDiv(w.Off[0]+x, bs[0]), floorDiv(w.Off[1]+y, bs[1]), floorDiv(w.Off[2]+z, bs[2]), gz.Len()} {
							binary.Write(&buf, binary.LittleEndian, int32(v))
						}
						buf.Write(gz.Bytes())
					}
				}
			}
			q := fmt.Sprintf("scale=%d&downres=%v&noindexing=%v", w.Scale, w.Downres, w.NoIndex)
			if w.Comp != "" {
				q += "&compression=" + w.Comp
			}
			res.Counts[fmt.Sprintf("http:blocks:scale=%d,downres=%v,noindexing=%v,compression=%q", w.Scale, w.Downres, w.NoIndex, w.Comp)]++
			return classOf(dv.Post(fmt.Sprintf("/api/node/%s/%s/blocks?%s", node, name, q), buf.Bytes()))
		case "bodysplit", "svsplit":
			datastore.BlockOnUpdating(dvid.UUID(node), dvid.InstanceName(name))
			before := readWin(node, false)
			of := readWin(node, w.Via == "bodysplit") // membership: body labels for a body split
			if before == nil || of == nil {
				return 1
			}
			if w.At != nil {
				w.Label = of[((w.At[2]-c.Win[2])*wd[1]+w.At[1]-c.Win[1])*wd[0]+w.At[0]-c.Win[0]]
			}
			inMask := func(x, y, z int) bool { // window-relative voxel
				ax, ay, az := c.Win[0]+x-w.Off[0], c.Win[1]+y-w.Off[1], c.Win[2]+z-w.Off[2]
				if ax < 0 || ay < 0 || az < 0 || ax >= w.Size[0] || ay >= w.Size[1] || az >= w.Size[2] {
					return false
				}
				return arr[(az*w.Size[1]+ay)*w.Size[0]+ax] != 0
			}
			var rles dvid.RLEs
			for z := 0; z < wd[2]; z++ {
				for y := 0; y < wd[1]; y++ {
					for x := 0; x < wd[0]; {
						if !(inMask(x, y, z) && of[(z*wd[1]+y)*wd[0]+x] == w.Label) {
							x++
							continue
						}
						x0 := x
						for x < wd[0] && inMask(x, y, z) && of[(z*wd[1]+y)*wd[0]+x] == w.Label {
							x++
						}
						rles = append(rles, dvid.NewRLE(dvid.Point3d{int32(c.Win[0] + x0), int32(c.Win[1] + y), int32(c.Win[2] + z)}, int32(x-x0)))
					}
				}
			}
			nSplit, nLabel := 0, 0
			for _, r := range rles {
				nSplit += int(r.Length())
			}
			for _, l := range of {
				if l == w.Label {
					nLabel++
				}
			}
			// SplitLabels refuses an empty split volume and one that takes the whole body;
			// SplitSupervoxel accepts both (the supervoxel is then renamed as a whole)
			if w.Via == "bodysplit" && (nSplit == 0 || nSplit >= nLabel) {
				res.Illegal[i] = true
				res.Counts["http:"+w.Via+":outside-contract"]++
			}
			buf := new(bytes.Buffer)
			buf.WriteByte(dvid.EncodingBinary)
			binary.Write(buf, binary.LittleEndian, uint8(3))
			binary.Write(buf, binary.LittleEndian, byte(0))
			buf.WriteByte(byte(0))
			binary.Write(buf, binary.LittleEndian, uint32(0))
			binary.Write(buf, binary.LittleEndian, uint32(len(rles)))
			rb, _ := rles.MarshalBinary()
			buf.Write(rb)
			res.Counts[fmt.Sprintf("http:%s:runs:%s", w.Via, blk.Bucket(len(rles)))]++
			var st uint64
			if w.Via == "bodysplit" {
				d, err := labelmap.GetByUUIDName(dvid.UUID(node), dvid.InstanceName(name))
				if err != nil {
					return 1
				}
				v, err := datastore.VersionFromUUID(dvid.UUID(node))
				if err != nil {
					return 1
				}
				if _, _, err = d.SplitLabels(v, w.Label, io.NopCloser(buf), dvid.ModInfo{User: "verif"}); err != nil {
					st = 1
				}
			} else {
				q := ""
				if w.NoDown {
					q = "?downres=false"
				}
				r := dv.Post(fmt.Sprintf("/api/node/%s/%s/split-supervoxel/%d%s", node, name, w.Label, q), buf.Bytes())
				if st = classOf(r); st != 0 {
					fmt.Fprintf(os.Stderr, "split-supervoxel %d: %d %s\n", w.Label, r.Status, r.Body)
				}
			}
			if st != 0 {
				return st
			}
			datastore.BlockOnUpdating(dvid.UUID(node), dvid.InstanceName(name))
			downres.BlockOnUpdating(dvid.UUID(node), dvid.InstanceName(name))
			after := readWin(node, false)
			if after == nil {
				return 1
			}
			// the relabelling Go performed, as a table (old label, inside the split volume, new label)
			seen := map[[2]uint64]bool{}
			var tbl [][3]uint64
			blocksChanged := map[[3]int]bool{}
			for z := 0; z < wd[2]; z++ {
				for y := 0; y < wd[1]; y++ {
					for x := 0; x < wd[0]; x++ {
						i := (z*wd[1]+y)*wd[0] + x
						if before[i] == after[i] {
							continue
						}
						blocksChanged[[3]int{x / bs[0], y / bs[1], z / bs[2]}] = true
						m := uint64(0)
						if inMask(x, y, z) {
							m = 1
						}
						if k := [2]uint64{before[i], m}; !seen[k] {
							seen[k] = true
							tbl = append(tbl, [3]uint64{before[i], m, after[i]})
						}
					}
				}
			}
			res.Tables[i] = tbl
			res.Counts[fmt.Sprintf("http:%s:blocks-changed:%d", w.Via, len(blocksChanged))]++
			res.Counts[fmt.Sprintf("http:%s:relabelled-classes:%d", w.Via, len(tbl))]++
			return 0
		}
		url := fmt.Sprintf("/api/node/%s/%s/raw/0_1_2/%d_%d_%d/%d_%d_%d", node, name, w.Size[0], w.Size[1], w.Size[2], w.Off[0], w.Off[1], w.Off[2])
		if i > 0 {
			url += "?mutate=true"
		}
		r := dv.Post(url, blk.ToBytes(arr))
		switch {
		case r.Status == 200:
			return 0
		case r.Status >= 500 && strings.Contains(string(r.Body), "anic"):
			return 2
		}
		return 1
	}
	readLevels := func(node string) []string { return readLevelsOf(c, node, name, wd) }
	hist := c.Steps
	for _, w := range c.Writes {
		if w.Via != "" {
			hist = true
		}
	}
	dag := c.dag()
	var kids [2]string // the two open sibling versions of a DAG history
	var status []uint64
	failed := false
	for i := 0; i < len(c.Writes) && !failed; {
		w := c.Writes[i]
		if dag {
			if w.Ver != 0 && kids[0] == "" {
				if r := dv.Commit(uuid); r.Status != 200 {
					fmt.Fprintln(os.Stderr, "commit:", r.Status, string(r.Body))
					os.Exit(2)
				}
				var r dv.Resp
				if kids[0], r = dv.NewVersion(uuid); r.Status != 200 || kids[0] == "" {
					fmt.Fprintln(os.Stderr, "newversion:", r.Status, string(r.Body))
					os.Exit(2)
				}
				if kids[1], r = dv.Branch(uuid, "side"); r.Status != 200 || kids[1] == "" {
					fmt.Fprintln(os.Stderr, "branch:", r.Status, string(r.Body))
					os.Exit(2)
				}
				res.Counts["http:dag:fork(newversion+branch)"]++
			}
			node := uuid
			if w.Ver != 0 {
				node = kids[w.Ver-1]
			}
			st := post(i, node)
			status = append(status, st)
			res.Counts[fmt.Sprintf("http:write-status-class:%d", st)]++
			res.Counts[fmt.Sprintf("http:dag:write-in-version:%d", w.Ver)]++
			if st != 0 && !(st == 1 && (!w.legal() || res.Illegal[i])) {
				failed = true
				break
			}
			if err := downres.BlockOnUpdating(dvid.UUID(node), dvid.InstanceName(name)); err != nil {
				failed = true
				break
			}
			if kids[0] == "" {
				res.DagLevels = append(res.DagLevels, [][]string{readLevels(uuid)})
			} else {
				res.DagLevels = append(res.DagLevels, [][]string{readLevels(kids[0]), readLevels(kids[1])})
			}
			i++
			continue
		}
		if w.Child {
			if r := dv.Commit(uuid); r.Status != 200 {
				fmt.Fprintln(os.Stderr, "commit:", r.Status, string(r.Body))
				os.Exit(2)
			}
			child, r := dv.NewVersion(uuid)
			if r.Status != 200 || child == "" {
				fmt.Fprintln(os.Stderr, "newversion:", r.Status, string(r.Body))
				os.Exit(2)
			}
			uuid = child
			res.Counts["http:child-version"]++
		}
		// a group of writes issued concurrently (disjoint blocks: the outcome must not depend on the order)
		j := i + 1
		for w.Par != 0 && j < len(c.Writes) && c.Writes[j].Par == w.Par && !c.Writes[j].Child {
			j++
		}
		gres := make([]uint64, j-i)
		if j-i == 1 {
			gres[0] = post(i, uuid)
		} else {
			var wg sync.WaitGroup
			for k := i; k < j; k++ {
				wg.Add(1)
				go func(k int) {
					defer wg.Done()
					time.Sleep(time.Duration(c.Writes[k].Delay) * time.Microsecond)
					gres[k-i] = post(k, uuid)
				}(k)
			}
			wg.Wait()
			res.Counts[fmt.Sprintf("http:concurrent-group:%d", j-i)]++
		}
		for q, st := range gres {
			status = append(status, st)
			res.Counts[fmt.Sprintf("http:write-status-class:%d", st)]++
			if st != 0 && !(st == 1 && (!c.Writes[i+q].legal() || res.Illegal[i+q])) {
				failed = true
			}
		}
		i = j
		if !failed {
			if err := downres.BlockOnUpdating(dvid.UUID(uuid), dvid.InstanceName(name)); err != nil {
				failed = true
			}
		}
		if hist && !failed {
			lv := readLevels(uuid)
			for range gres {
				res.StepLevels = append(res.StepLevels, lv)
			}
		}
	}
	var levels []string
	if !failed && !dag {
		levels = readLevels(uuid)
	}
	res.Status, res.Levels = status, levels
	return
}

func readLevelsOf(c jcase, uuid, name string, wd [3]int) (levels []string) {
	{
		n := wd
		off := c.Win
		for k := 0; k <= c.Max; k++ {
			url := fmt.Sprintf("/api/node/%s/%s/raw/0_1_2/%d_%d_%d/%d_%d_%d?scale=%d&supervoxels=true", uuid, name, n[0], n[1], n[2], off[0], off[1], off[2], k)
			r := dv.Get(url)
			switch {
			case r.Status == 200 && len(r.Body) == 8*n[0]*n[1]*n[2]:
				levels = append(levels, fmt.Sprintf("Ok %d", blk.DigestBytes(r.Body)))
			case r.Status >= 500 && strings.Contains(string(r.Body), "anic"):
				levels = append(levels, "Panic")
			default:
				levels = append(levels, "Err")
			}
			for j := range off {
				n[j] /= 2
				off[j] = floorDiv(off[j], 2)
			}
		}
	}
	return
}

func main() {
	o := lib.ParseOpts()
	if cf := os.Getenv("VERIF_C14_CHILD"); cf != "" {
		var c jcase
		b, err := os.ReadFile(cf)
		if err == nil {
			err = json.Unmarshal(b, &c)
		}
		if err != nil {
			fmt.Fprintln(os.Stderr, err)
			os.Exit(2)
		}
		res := runHTTP(c)
		out, _ := json.Marshal(res)
		fmt.Printf("\nC14RESULT %s\n", out)
		os.Exit(0)
	}
	rng := lib.NewRand(o.Seed)
	run := lib.NewRun("C14", o)
	run.Header("From Coq Require Import String.", "From DV Require Import Base.Prelude Model.Block Model.BlockRun Model.Downres Model.DownresRun.", "Local Open Scope N_scope.")

	addDown := func(c jcase) {
		var cls string
		var data []byte
		var dec uint64
		nilCount := 0
		p, _ := lib.Recover(func() {
			b, err := mkBlock(c.G, c.Paints)
			if err != nil {
				cls = "err"
				return
			}
			var octs [8]*labels.Block
			for i := 0; i < 8; i++ {
				if c.Octs[i] == nil {
					nilCount++
					continue
				}
				if octs[i], err = mkBlock(c.G, c.Octs[i]); err != nil {
					cls = "err"
					return
				}
			}
			if err = b.Downres(octs); err != nil {
				cls = "err"
				return
			}
			d, _ := b.MarshalBinary()
			data = append([]byte{}, d...)
			out, _ := b.MakeLabelVolume()
			cls, dec = "ok", blk.DigestBytes(out)
		})
		if p {
			cls = "panic"
		}
		os := make([]string, 8)
		for i := 0; i < 8; i++ {
			if c.Octs[i] == nil {
				os[i] = "None"
			} else {
				os[i] = "(Some " + blk.CoqPaints(c.Octs[i]) + ")"
			}
		}
		term := fmt.Sprintf("(CDown %d %d %d %s [%s] %s %d)", c.G[0], c.G[1], c.G[2], blk.CoqPaints(c.Paints), strings.Join(os, "; "), lib.CoqRes(cls, hx(data)), dec)
		run.Count(fmt.Sprintf("down:nil-octants:%d", nilCount))
		run.Count("down:result:" + cls)
		run.Add("down", term, c, fmt.Sprintf("down/%d/%x", nilCount, dec))
	}

	addVote := func(c jcase) {
		arr := blk.Expand(c.N[0], c.N[1], c.N[2], c.Paints)
		var cls string
		var lo []uint64
		p, _ := lib.Recover(func() {
			out, err := labels.DownresLabels(blk.ToBytes(arr), dvid.Point3d{int32(c.N[0]), int32(c.N[1]), int32(c.N[2])})
			if err != nil {
				cls = "err"
				return
			}
			cls, lo = "ok", blk.FromBytes(out)
		})
		if p {
			cls = "panic"
		}
		term := fmt.Sprintf("(CVote %d %d %d %s %s)", c.N[0], c.N[1], c.N[2], blk.CoqPaints(c.Paints), lib.CoqRes(cls, lib.CoqNList(lo)))
		run.Count("vote:result:" + cls)
		run.Add("vote", term, c, fmt.Sprintf("vote/%v/%x", c.N, blk.Digest(arr)))
	}

	// the HTTP histories are collected and played at the end, several child processes at a time
	var pending []jcase
	addHTTP := func(c jcase) { pending = append(pending, c) }
	playHTTP := func(c jcase) (res httpResult) {
		// the history runs in a child process (this binary with VERIF_C14_CHILD set)
		crashed := false
		{
			f, err := os.CreateTemp("", "c14case*.json")
			if err != nil {
				fmt.Fprintln(os.Stderr, err)
				os.Exit(2)
			}
			json.NewEncoder(f).Encode(c)
			f.Close()
			cmd := exec.Command(os.Args[0], "-outdir", o.OutDir)
			cmd.Env = append(os.Environ(), "VERIF_C14_CHILD="+f.Name())
			out, err := cmd.Output()
			os.Remove(f.Name())
			if i := bytes.LastIndex(out, []byte("C14RESULT ")); err == nil && i >= 0 {
				err = json.Unmarshal(out[i+len("C14RESULT "):], &res)
			} else if err == nil {
				err = fmt.Errorf("no result")
			}
			if err != nil {
				// the server process died: a panic outside any handler's recover
				crashed = true
				res = httpResult{Status: []uint64{2}, Counts: map[string]int{"http:server-process-died": 1}}
			}
		}
		_ = crashed
		return
	}
	emitHTTP := func(c jcase, res httpResult) {
		for k, n := range res.Counts {
			for q := 0; q < n; q++ {
				run.Count(k)
			}
		}
		status, levels := res.Status, res.Levels
		bs := c.BS
		if bs == [3]int{} {
			bs = [3]int{16, 16, 16}
		}
		wd := c.WD
		if wd == [3]int{} {
			wd = [3]int{c.WN, c.WN, c.WN}
		}
		ws := make([]string, len(status))
		for i := range status {
			w := c.Writes[i]
			ws[i] = fmt.Sprintf("(%s%%Z,%s%%Z,%s%%Z,(%d,%d,%d),%s)", lib.CoqZ(int64(w.Off[0])), lib.CoqZ(int64(w.Off[1])), lib.CoqZ(int64(w.Off[2])),
				w.Size[0], w.Size[1], w.Size[2], blk.CoqPaints(w.Paints))
		}
		hist := c.Steps
		for _, w := range c.Writes {
			if w.Via != "" {
				hist = true
			}
		}
		if hist {
			// every write of the history is printed (a refused illegal write leaves the state alone)
			ws = make([]string, len(c.Writes))
			for i, w := range c.Writes {
				pos := fmt.Sprintf("%s%%Z %s%%Z %s%%Z (%d,%d,%d)", lib.CoqZ(int64(w.Off[0])), lib.CoqZ(int64(w.Off[1])), lib.CoqZ(int64(w.Off[2])), w.Size[0], w.Size[1], w.Size[2])
				switch w.Via {
				case "":
					ws[i] = fmt.Sprintf("(WRaw %s %s)", pos, blk.CoqPaints(w.Paints))
				case "blocks":
					ws[i] = fmt.Sprintf("(WBlocks %d %v %v %s %s)", w.Scale, w.Downres, w.legal(), pos, blk.CoqPaints(w.Paints))
				default:
					var es []string
					for _, e := range res.Tables[i] {
						es = append(es, fmt.Sprintf("(%d,%d,%d)", e[0], e[1], e[2]))
					}
					ws[i] = fmt.Sprintf("(WRelabel %v %v %s %s [%s])", !w.NoDown, !res.Illegal[i], pos, blk.CoqPaints(w.Paints), strings.Join(es, ";"))
				}
				run.Count("http:via:" + map[string]string{"": "raw"}[w.Via] + w.Via)
			}
		}
		term := fmt.Sprintf("(CHttp %d [%s] %s %s %s (%d,%d,%d) %s [%s])", c.Max, strings.Join(ws, "; "), lib.CoqZ(int64(c.Win[0])), lib.CoqZ(int64(c.Win[1])), lib.CoqZ(int64(c.Win[2])),
			wd[0], wd[1], wd[2], lib.CoqNList(status), strings.Join(levels, "; "))
		if c.dag() {
			// every write printed as a history step, paired with its version
			vs := make([]string, len(c.Writes))
			for i, w := range c.Writes {
				pos := fmt.Sprintf("%s%%Z %s%%Z %s%%Z (%d,%d,%d)", lib.CoqZ(int64(w.Off[0])), lib.CoqZ(int64(w.Off[1])), lib.CoqZ(int64(w.Off[2])), w.Size[0], w.Size[1], w.Size[2])
				var t string
				switch w.Via {
				case "":
					t = fmt.Sprintf("(WRaw %s %s)", pos, blk.CoqPaints(w.Paints))
				case "blocks":
					t = fmt.Sprintf("(WBlocks %d %v %v %s %s)", w.Scale, w.Downres, w.legal(), pos, blk.CoqPaints(w.Paints))
				default:
					var es []string
					for _, e := range res.Tables[i] {
						es = append(es, fmt.Sprintf("(%d,%d,%d)", e[0], e[1], e[2]))
					}
					t = fmt.Sprintf("(WRelabel %v %v %s %s [%s])", !w.NoDown, !res.Illegal[i], pos, blk.CoqPaints(w.Paints), strings.Join(es, ";"))
				}
				vs[i] = fmt.Sprintf("(%d,%s)", w.Ver, t)
				if !hist {
					run.Count("http:via:" + map[string]string{"": "raw"}[w.Via] + w.Via)
				}
			}
			dl := make([]string, len(res.DagLevels))
			for i, per := range res.DagLevels {
				pv := make([]string, len(per))
				for q, lv := range per {
					pv[q] = "[" + strings.Join(lv, "; ") + "]"
				}
				dl[i] = "[" + strings.Join(pv, "; ") + "]"
			}
			term = fmt.Sprintf("(CDag %d (%d,%d,%d) [%s] %s %s %s (%d,%d,%d) %s [%s])", c.Max, bs[0], bs[1], bs[2], strings.Join(vs, "; "),
				lib.CoqZ(int64(c.Win[0])), lib.CoqZ(int64(c.Win[1])), lib.CoqZ(int64(c.Win[2])), wd[0], wd[1], wd[2], lib.CoqNList(status), strings.Join(dl, "; "))
			run.Count("http:dag-history")
		} else if hist {
			sl := make([]string, len(res.StepLevels))
			for i, lv := range res.StepLevels {
				sl[i] = "[" + strings.Join(lv, "; ") + "]"
			}
			term = fmt.Sprintf("(CHist %d (%d,%d,%d) [%s] %s %s %s (%d,%d,%d) %s [%s])", c.Max, bs[0], bs[1], bs[2], strings.Join(ws, "; "),
				lib.CoqZ(int64(c.Win[0])), lib.CoqZ(int64(c.Win[1])), lib.CoqZ(int64(c.Win[2])), wd[0], wd[1], wd[2], lib.CoqNList(status), strings.Join(sl, "; "))
		}
		run.Count(fmt.Sprintf("http:blocksize:%dx%dx%d", bs[0], bs[1], bs[2]))
		neg := "nonneg"
		if c.Win[0] < 0 || c.Win[1] < 0 || c.Win[2] < 0 {
			neg = "negative"
		}
		run.Count("http:window:" + neg)
		run.Count(fmt.Sprintf("http:maxlevel:%d", c.Max))
		run.Count(fmt.Sprintf("http:writes:%d", len(c.Writes)))
		run.Add("http", term, c, fmt.Sprintf("http/%v/%d/%d/%v", c.Win, c.Max, len(c.Writes), c.Writes[len(c.Writes)-1].Off))
	}

	flushHTTP := func() {
		results := make([]httpResult, len(pending))
		sem := make(chan struct{}, 4)
		var wg sync.WaitGroup
		for i := range pending {
			wg.Add(1)
			go func(i int) {
				defer wg.Done()
				sem <- struct{}{}
				results[i] = playHTTP(pending[i])
				<-sem
			}(i)
		}
		wg.Wait()
		for i := range pending {
			emitHTTP(pending[i], results[i])
		}
		pending = nil
	}

	dispatch := func(c jcase) {
		switch c.Kind {
		case "down":
			addDown(c)
		case "vote":
			addVote(c)
		case "http":
			addHTTP(c)
		}
	}

	if o.Replay != "" {
		var c jcase
		if err := lib.LoadReplay(o.Replay, &c); err != nil {
			fmt.Fprintln(os.Stderr, err)
			os.Exit(2)
		}
		dispatch(c)
		flushHTTP()
		run.Finish("c14case", "replay", tail)
		return
	}

	g2 := [3]int{2, 2, 2}
	full := [6]int{0, 0, 0, 16, 16, 16}
	nilOcts := func() [][]blk.Paint { return make([][]blk.Paint, 8) }
	noise := func(pal []uint64) []blk.Paint {
		return []blk.Paint{blk.Hash(full, uint64(rng.Pick(1, 1, 2, 4)), uint64(rng.Intn(1<<16)), pal)}
	}

	// ---- corpus ----
	// the recorded defect: one touched octant that is solid 0, seven untouched (nil) octants, parent full of labels
	for _, i := range []int{0, 5} {
		octs := nilOcts()
		octs[i] = []blk.Paint{blk.Fill(0)}
		addDown(jcase{Kind: "down", G: g2, Paints: noise([]uint64{1, 2, 3}), Octs: octs})
	}
	// all eight solid with the same label (shortcut legitimately fires), all eight nil, solid non-zero plus nil
	{
		octs := nilOcts()
		for i := range octs {
			octs[i] = []blk.Paint{blk.Fill(7)}
		}
		addDown(jcase{Kind: "down", G: g2, Paints: noise([]uint64{1, 2}), Octs: octs})
		addDown(jcase{Kind: "down", G: g2, Paints: noise([]uint64{1, 2}), Octs: nilOcts()})
		o2 := nilOcts()
		o2[3] = []blk.Paint{blk.Fill(9)}
		addDown(jcase{Kind: "down", G: g2, Paints: noise([]uint64{1, 2}), Octs: o2})
	}
	// a solid non-zero receiver (a stored parent over a uniform region) with some octants untouched
	{
		o1 := nilOcts()
		o1[int(o.Seed)%8] = noise([]uint64{6, 2, 0})
		addDown(jcase{Kind: "down", G: g2, Paints: []blk.Paint{blk.Fill(6)}, Octs: o1})
		o2 := nilOcts()
		o2[(int(o.Seed)+3)%8] = []blk.Paint{blk.Fill(9)}
		o2[(int(o.Seed)+6)%8] = []blk.Paint{blk.Fill(6)}
		addDown(jcase{Kind: "down", G: g2, Paints: []blk.Paint{blk.Fill(6)}, Octs: o2})
	}
	// votes: ties to the smaller label, zeros never win, all zero gives zero
	addVote(jcase{Kind: "vote", N: [3]int{4, 4, 4}, Paints: []blk.Paint{blk.Cyc([6]int{0, 0, 0, 4, 4, 4}, 0, 1, 3)}})
	addVote(jcase{Kind: "vote", N: [3]int{4, 2, 2}, Paints: []blk.Paint{blk.Fill(0), blk.Box([6]int{0, 0, 0, 1, 1, 1}, 5), blk.Box([6]int{2, 0, 0, 4, 2, 1}, 9), blk.Box([6]int{2, 0, 1, 4, 2, 2}, 3)}})

	nDown, nVote := 4, 4
	if o.Thorough() {
		nDown, nVote = 80, 40
	}
	for i := 0; i < nDown; i++ {
		octs := nilOcts()
		pal := []uint64{0, 1, 2, 3, ^uint64(0)}
		for j := range octs {
			switch rng.Intn(7) {
			case 0, 1, 2, 3: // untouched
			case 4:
				octs[j] = []blk.Paint{blk.Fill(pal[rng.Intn(len(pal))])}
			default:
				octs[j] = noise(pal[:2+rng.Intn(4)])
			}
		}
		base := noise([]uint64{4, 5, 0})
		if rng.Chance(0.3) {
			base = []blk.Paint{blk.Fill(uint64(rng.Pick(0, 6)))}
		}
		addDown(jcase{Kind: "down", G: g2, Paints: base, Octs: octs})
	}
	// non-cubic blocks (every dimension a multiple of 16): the octant offsets differ per axis
	ncSizes := blk.NonCubic(o.Thorough()) // X<Y, X>Z, all different (the sweep shared with C10)
	nNC := 2
	if o.Thorough() {
		nNC = 15
	}
	for i := 0; i < nNC; i++ {
		g := ncSizes[(int(o.Seed)+i)%3] // quick tier: two of the three smallest shapes (the all-different ones: thorough tier, and C10's chains)
		if o.Thorough() {
			g = ncSizes[i%len(ncSizes)]
		}
		fullg := [6]int{0, 0, 0, 8 * g[0], 8 * g[1], 8 * g[2]}
		octs := nilOcts()
		given := 0
		for j := range octs {
			switch rng.Intn(6) {
			case 0:
				octs[j] = []blk.Paint{blk.Fill(uint64(rng.Pick(0, 3, 7)))}
				given++
			case 1, 2:
				octs[j] = []blk.Paint{blk.Hash(fullg, uint64(rng.Pick(2, 4)), uint64(rng.Intn(1<<16)), []uint64{0, 1, 2, 3})}
				given++
			}
		}
		if given == 0 {
			octs[rng.Intn(8)] = []blk.Paint{blk.Hash(fullg, 2, uint64(rng.Intn(1<<16)), []uint64{1, 2})}
		}
		addDown(jcase{Kind: "down", G: g, Paints: []blk.Paint{blk.Hash(fullg, 4, uint64(rng.Intn(1<<16)), []uint64{4, 5, 0})}, Octs: octs})
	}
	for i := 0; i < nVote; i++ {
		n := [3]int{2 * (1 + rng.Intn(3)), 2 * (1 + rng.Intn(3)), 2 * (1 + rng.Intn(3))}
		pal := []uint64{0, 0, 1, 2, 3, ^uint64(0)}
		addVote(jcase{Kind: "vote", N: n, Paints: []blk.Paint{blk.Hash([6]int{0, 0, 0, n[0], n[1], n[2]}, 1, uint64(rng.Intn(1<<16)), pal[:2+rng.Intn(5)])}})
	}

	// ---- HTTP: a 32^3 window (2x2x2 scale-0 blocks of 16^3 = one scale-1 block = one octant of a scale-2 block), max level 2 ----
	nHTTP := 2
	if o.Thorough() {
		nHTTP = 20
	}
	wn := 32
	ingest := func(win [3]int, pal []uint64) jwrite {
		return jwrite{Off: win, Size: [3]int{wn, wn, wn}, Paints: []blk.Paint{blk.Hash([6]int{0, 0, 0, wn, wn, wn}, uint64(rng.Pick(1, 2, 4)), uint64(rng.Intn(1<<16)), pal)}}
	}
	// the read window of the corpus histories: the two level-0 blocks (0,0,0) and (1,0,0) of a 2x2x2 group
	// (the ingest still covers the whole group; the quick tier reads a quarter of it back)
	hwd := [3]int{32, 16, 16}
	if o.Thorough() {
		hwd = [3]int{32, 32, 32}
	}
	// corpus: overwrite one block with zeros after a full ingest (the setBlank defect at the HTTP level)
	{
		win := [3]int{0, 0, 0}
		addHTTP(jcase{Kind: "http", Max: 2, Win: win, WD: hwd, Writes: []jwrite{ingest(win, []uint64{1, 2, 3}),
			{Off: [3]int{16, 0, 0}, Size: [3]int{16, 16, 16}, Paints: []blk.Paint{blk.Fill(0)}}}})
	}
	// corpus: a window over negative block coordinates (predicted: negative octant index)
	{
		win := [3]int{-32, -32, -32}
		addHTTP(jcase{Kind: "http", Max: 2, Win: win, WD: hwd, Writes: []jwrite{
			{Off: win, Size: [3]int{32, 32, 32}, Paints: []blk.Paint{blk.Hash([6]int{0, 0, 0, 32, 32, 32}, 2, 77, []uint64{1, 2, 3})}}}})
	}
	// corpus: a mutating write that moves a box inside one block (per-label counts unchanged), on the
	// root version and on a child version, for max level 1..3
	for k, max := range []int{1, 2, 3} {
		win := [3]int{0, 0, 0}
		if k == 1 {
			win = [3]int{-32, 0, -32}
		}
		ing := ingest(win, []uint64{1, 2, 3})
		// block (1,0,0) of the window: label 7 with a 4x4x4 box of label 8
		ing.Paints = append(ing.Paints, blk.Box([6]int{16, 0, 0, 32, 16, 16}, 7), blk.Box([6]int{18, 2, 2, 22, 6, 6}, 8))
		move := jwrite{Off: [3]int{win[0] + 16, win[1], win[2]}, Size: [3]int{16, 16, 16},
			Paints: []blk.Paint{blk.Fill(7), blk.Box([6]int{9, 8, 3, 13, 12, 7}, 8)}, Child: k != 0}
		addHTTP(jcase{Kind: "http", Max: max, Win: win, WD: hwd, Writes: []jwrite{ing, move}})
	}
	// a labelmap instance with a non-cubic BlockSize: window = 2x2x2 blocks, every block rewritten once more
	ncBS := [][3]int{{16, 32, 16}, {32, 16, 16}, {16, 16, 32}, {16, 32, 48}}
	nNCH := 1
	if o.Thorough() {
		nNCH = 6
	}
	for i := 0; i < nNCH; i++ {
		bs := ncBS[(int(o.Seed)+i)%len(ncBS)]
		wd := [3]int{2 * bs[0], 2 * bs[1], 2 * bs[2]}
		if wd[0]*wd[1]*wd[2] > 40000 && !o.Thorough() {
			wd[2] = bs[2] // keep the window small: one block deep
		}
		win := [3]int{0, 0, 0}
		if rng.Bool() {
			win = [3]int{-wd[0], 0, 0}
		}
		ws := []jwrite{{Off: win, Size: wd, Paints: []blk.Paint{blk.Hash([6]int{0, 0, 0, wd[0], wd[1], wd[2]}, uint64(rng.Pick(1, 2)), uint64(rng.Intn(1<<16)), []uint64{1, 2, 3, 0})}}}
		// overwrite one block (solid or noisy)
		bo := [3]int{win[0] + bs[0]*rng.Intn(wd[0]/bs[0]), win[1] + bs[1]*rng.Intn(wd[1]/bs[1]), win[2] + bs[2]*rng.Intn(wd[2]/bs[2])}
		ps := []blk.Paint{blk.Fill(uint64(rng.Pick(0, 5)))}
		if rng.Bool() {
			ps = []blk.Paint{blk.Hash([6]int{0, 0, 0, bs[0], bs[1], bs[2]}, 2, uint64(rng.Intn(1<<16)), []uint64{0, 4, 1})}
		}
		ws = append(ws, jwrite{Off: bo, Size: bs, Paints: ps})
		addHTTP(jcase{Kind: "http", Max: 1 + rng.Intn(2), Win: win, WD: wd, BS: bs, Writes: ws})
	}
	// concurrent writes to sibling blocks of one parent: the pairs are disjoint, so whatever the
	// interleaving every level must afterwards be the down-sampling of level 0
	nConc := 2
	if o.Thorough() {
		nConc = 8
	}
	for i := 0; i < nConc; i++ {
		win := [3]int{0, 0, 0}
		ws := []jwrite{ingest(win, []uint64{1, 2, 3})}
		group := 0
		rounds := 2
		if o.Thorough() {
			rounds = 4
		}
		for round := 0; round < rounds; round++ {
			for _, pair := range [][2][3]int{{{0, 0, 0}, {16, 0, 0}}, {{0, 16, 0}, {16, 16, 0}}, {{0, 0, 16}, {0, 16, 16}}, {{16, 0, 16}, {16, 16, 16}}} {
				group++
				delay := []int{0, 100, 300, 700, 1500, 3000}[rng.Intn(6)]
				for q, off := range pair {
					d := 0
					if q == 1 {
						d = delay
					}
					ws = append(ws, jwrite{Off: off, Size: [3]int{16, 16, 16}, Par: group, Delay: d,
						Paints: []blk.Paint{blk.Hash([6]int{0, 0, 0, 16, 16, 16}, uint64(rng.Pick(2, 4)), uint64(rng.Intn(1<<16)), []uint64{uint64(10 + round), uint64(20 + q), 0})}})
				}
			}
		}
		addHTTP(jcase{Kind: "http", Max: 1 + rng.Intn(2), Win: win, WN: wn, Writes: ws})
	}
	// ---- histories through the other ways of changing label data; window = two level-0 blocks in x ----
	hwd = [3]int{32, 16, 16}
	hwins := [][3]int{{0, 0, 0}, {-32, 0, 16}, {32, -16, -32}, {0, 16, 16}}
	blockNoise := func(pal []uint64, n [3]int) []blk.Paint {
		if rng.Chance(0.25) {
			return []blk.Paint{blk.Fill(pal[rng.Intn(len(pal))])}
		}
		return []blk.Paint{blk.Hash([6]int{0, 0, 0, n[0], n[1], n[2]}, uint64(rng.Pick(1, 2, 4)), uint64(rng.Intn(1<<16)), pal)}
	}
	// (a) POST blocks with every combination of its options, one block per write, in a shuffled order;
	//     a write without downres (or at scale 1) leaves the other levels as they are, a write with
	//     downres refreshes what lies above the written block, an illegal combination is refused
	{
		type combo struct {
			scale  int
			dr, ni bool
			comp   string
		}
		var combos []combo
		for _, sc := range []int{0, 1} {
			for _, dr := range []bool{false, true} {
				for _, ni := range []bool{false, true} {
					for _, cp := range []string{"", "blocks", "gzip"} {
						combos = append(combos, combo{sc, dr, ni, cp})
					}
				}
			}
		}
		for a := len(combos) - 1; a > 0; a-- {
			b := rng.Intn(a + 1)
			combos[a], combos[b] = combos[b], combos[a]
		}
		nHist := 2
		per := len(combos) / nHist
		for h := 0; h < nHist; h++ {
			win := hwins[(int(o.Seed)+h)%len(hwins)]
			var ws []jwrite
			for q, cb := range combos[h*per : (h+1)*per] {
				off := [3]int{win[0] + 16*rng.Intn(2), win[1], win[2]}
				if cb.scale == 1 {
					off = [3]int{floorDiv(win[0], 32) * 16, floorDiv(win[1], 32) * 16, floorDiv(win[2], 32) * 16}
				}
				ws = append(ws, jwrite{Via: "blocks", Scale: cb.scale, Downres: cb.dr, NoIndex: cb.ni, Comp: cb.comp, Off: off, Size: [3]int{16, 16, 16},
					Paints: blockNoise([]uint64{uint64(1 + q), uint64(40 + q), 0}, [3]int{16, 16, 16})})
			}
			addHTTP(jcase{Kind: "http", Max: 2, Win: win, WD: hwd, Writes: ws})
		}
	}
	// (b) splits: a supervoxel that spans both blocks, a split volume that touches one or both; body
	//     splits (SplitLabels) and supervoxel splits, the second acting on what the first produced
	nSplit := 2
	if o.Thorough() {
		nSplit = 12
	}
	for i := 0; i < nSplit; i++ {
		win := hwins[(int(o.Seed)+i+1)%len(hwins)]
		x0, x1 := 2+rng.Intn(10), 20+rng.Intn(10) // the supervoxel's x extent crosses the block boundary at 16
		y0, z0 := rng.Intn(6), rng.Intn(6)
		y1, z1 := y0+4+rng.Intn(6), z0+4+rng.Intn(6)
		ing := jwrite{Off: win, Size: hwd, Paints: []blk.Paint{blk.Hash([6]int{0, 0, 0, 32, 16, 16}, uint64(rng.Pick(2, 4)), uint64(rng.Intn(1<<16)), []uint64{1, 2, 0}),
			blk.Box([6]int{x0, y0, z0, x1, y1, z1}, 7)}}
		if rng.Bool() {
			ing.Via, ing.Downres = "blocks", true
		}
		// split volume: a slab of the supervoxel inside the first block, or one across the boundary
		m1 := [6]int{x0, y0, z0, x0 + 1 + rng.Intn(15-x0), y1, z0 + 1 + rng.Intn(z1-z0)}
		if i%3 == 2 {
			m1 = [6]int{12, y0, z0, 20, y0 + 2, z1}
		}
		first, second := "bodysplit", "svsplit"
		if i%2 == 1 {
			first, second = second, first
		}
		// the second split volume lies right of x = cut (inside the second block); now and then it is
		// empty, or the whole of what is left (requests a split has to refuse / may accept)
		cut := 16
		if x1 > 25 && rng.Bool() {
			cut = 24
		}
		if rng.Chance(0.15) {
			cut = 32
		}
		mid := [3]int{win[0] + x1 - 1, win[1] + y1 - 1, win[2] + z1 - 1} // a voxel of the remaining part
		ws := []jwrite{ing,
			{Via: first, Label: 7, Off: win, Size: hwd, Paints: []blk.Paint{blk.Box(m1, 1)}},
			{Via: second, At: &mid, Off: win, Size: hwd, NoDown: second == "svsplit" && rng.Chance(0.2),
				Paints: []blk.Paint{blk.Box([6]int{x0, y0, z0, x1, y0 + 1 + rng.Intn(y1-y0), z1}, 1), blk.Box([6]int{0, 0, 0, cut, 16, 16}, 0)}}}
		addHTTP(jcase{Kind: "http", Max: 1 + rng.Intn(2), Win: win, WD: hwd, Writes: ws})
	}
	// (c) two-step histories: a uniform region first (solid stored parents at every level), then partial
	//     updates of single blocks
	nUni := 2
	if o.Thorough() {
		nUni = 10
	}
	for i := 0; i < nUni; i++ {
		win := hwins[(int(o.Seed)+i)%len(hwins)]
		u := uint64(rng.Pick(5, 1, 9))
		reg := 32 << uint(i%2) // 32^3: solid parent at level 1; 64^3: solid parents at levels 1 and 2
		base := [3]int{floorDiv(win[0], reg) * reg, floorDiv(win[1], reg) * reg, floorDiv(win[2], reg) * reg}
		ws := []jwrite{{Off: base, Size: [3]int{reg, reg, reg}, Paints: []blk.Paint{blk.Fill(u)}}}
		bx := 16 * rng.Intn(2) // one block of the window is updated, the other must keep the uniform label
		for j := 0; j < 1+rng.Intn(2); j++ {
			ws = append(ws, jwrite{Off: [3]int{win[0] + bx, win[1], win[2]}, Size: [3]int{16, 16, 16},
				Paints: blockNoise([]uint64{u, uint64(20 + j), 0}, [3]int{16, 16, 16}), Child: rng.Chance(0.25)})
		}
		addHTTP(jcase{Kind: "http", Max: 2 + i%2, Win: win, WD: hwd, Writes: ws})
	}
	for i := 0; i < nHTTP; i++ {
		win := [3]int{0, 0, 0}
		if rng.Chance(0.4) {
			win = [3]int{-32 * rng.Intn(2), -32 * rng.Intn(2), -32 * rng.Intn(2)}
		}
		ws := []jwrite{ingest(win, []uint64{1, 2, 3, 0}[:2+rng.Intn(3)])}
		for j := 0; j < 1+rng.Intn(2); j++ {
			// a touched set: one block, a row of blocks, or a 2x2x2 group
			sz := [][3]int{{16, 16, 16}, {32, 16, 16}, {32, 32, 32}, {16, 16, 32}}[rng.Intn(4)]
			off := [3]int{win[0] + 16*rng.Intn((wn-sz[0])/16+1), win[1] + 16*rng.Intn((wn-sz[1])/16+1), win[2] + 16*rng.Intn((wn-sz[2])/16+1)}
			ps := []blk.Paint{blk.Fill(uint64(rng.Pick(0, 0, 5, 1)))}
			if rng.Bool() {
				ps = []blk.Paint{blk.Hash([6]int{0, 0, 0, sz[0], sz[1], sz[2]}, uint64(rng.Pick(1, 2)), uint64(rng.Intn(1<<16)), []uint64{0, 4, 1})}
			}
			ws = append(ws, jwrite{Off: off, Size: sz, Paints: ps, Child: rng.Chance(0.3)})
		}
		if rng.Chance(0.6) {
			// count-preserving rearrangement of one block: same labels and counts, other positions
			bo := [3]int{16 * rng.Intn(2), 16 * rng.Intn(2), 16 * rng.Intn(2)}
			a, b := uint64(10+rng.Intn(3)), uint64(20+rng.Intn(3))
			e := 2 + rng.Intn(6)
			p1 := [3]int{rng.Intn(16 - e), rng.Intn(16 - e), rng.Intn(16 - e)}
			p2 := [3]int{rng.Intn(16 - e), rng.Intn(16 - e), rng.Intn(16 - e)}
			box := func(p [3]int) [6]int { return [6]int{p[0], p[1], p[2], p[0] + e, p[1] + e, p[2] + e} }
			off := [3]int{win[0] + bo[0], win[1] + bo[1], win[2] + bo[2]}
			ws = append(ws, jwrite{Off: off, Size: [3]int{16, 16, 16}, Paints: []blk.Paint{blk.Fill(a), blk.Box(box(p1), b)}},
				jwrite{Off: off, Size: [3]int{16, 16, 16}, Paints: []blk.Paint{blk.Fill(a), blk.Box(box(p2), b)}, Child: rng.Chance(0.4)})
		}
		addHTTP(jcase{Kind: "http", Max: 1 + rng.Intn(3), Win: win, WN: wn, Writes: ws})
	}

	// ---- raw-write histories for the block-level model (Model/DownresPyr.v bexec, Round 4) ----
	// BlockSize 16, max level 2, levels read after every write.  The written 2x2x2 group of blocks has
	// its low corner at an arbitrary block coordinate in -3..2 per axis (odd and negative included), so
	// the changed blocks fill SOME octants of several parents (stored parent as receiver), parents
	// straddle the origin, and the parents themselves fill some octants of two or more grandparents.
	nPyr := 1
	if o.Thorough() {
		nPyr = 10
	}
	for i := 0; i < nPyr; i++ {
		wb := [3]int{rng.Intn(6) - 3, rng.Intn(6) - 3, rng.Intn(6) - 3}
		if i == 0 {
			wb = [3]int{-3, -1, []int{0, 1, -2, -1}[int(o.Seed)%4]} // corpus: odd negative, -1 | 0 boundary
		}
		win := [3]int{16 * wb[0], 16 * wb[1], 16 * wb[2]}
		// quick tier: a row of two blocks (two parents, one octant each; one grandparent, two octants);
		// thorough: the 2x2x2 group
		grp := [3]int{32, 16, 16}
		if o.Thorough() {
			grp = [3]int{32, 32, 32}
		}
		ws := []jwrite{{Off: win, Size: grp, Paints: []blk.Paint{blk.Hash([6]int{0, 0, 0, grp[0], grp[1], grp[2]}, uint64(rng.Pick(1, 2, 4)), uint64(rng.Intn(1<<16)), []uint64{1, 2, 3, 0})}}}
		for j := 0; j < 2; j++ {
			// one block, a row of two, a 2x2 slab or a column, anywhere in the group
			sz := [][3]int{{16, 16, 16}, {32, 16, 16}, {16, 32, 32}, {16, 16, 32}}[rng.Intn(4)]
			for k := range sz {
				if sz[k] > grp[k] {
					sz[k] = grp[k]
				}
			}
			if j == 0 {
				sz = [3]int{16, 16, 16}
			}
			off := [3]int{win[0] + 16*rng.Intn((grp[0]-sz[0])/16+1), win[1] + 16*rng.Intn((grp[1]-sz[1])/16+1), win[2] + 16*rng.Intn((grp[2]-sz[2])/16+1)}
			ps := []blk.Paint{blk.Fill(uint64(rng.Pick(0, 5)))}
			if rng.Bool() {
				ps = []blk.Paint{blk.Hash([6]int{0, 0, 0, sz[0], sz[1], sz[2]}, uint64(rng.Pick(1, 2)), uint64(rng.Intn(1<<16)), []uint64{0, 4, 1})}
			}
			ws = append(ws, jwrite{Off: off, Size: sz, Paints: ps})
		}
		addHTTP(jcase{Kind: "http", Max: 2, Win: win, WD: grp, Steps: true, Writes: ws})
		run.Count("http:block-level-model")
	}

	// (d) histories over a version DAG: a root that holds data (a 32^3 group, then the window repainted
	//     with a supervoxel across the block boundary), committed; two sibling open versions (newversion
	//     child, branch child) written in an interleaved order through raw / blocks?downres=true /
	//     supervoxel split, one block (or, for a split, two) of the same level-1 / level-2 parent at a
	//     time; after every step ALL levels of BOTH versions are compared with what each version's own
	//     level 0 gives
	nDag := 1 // quick tier: one version-DAG history (each costs about 25 s of child servers and level reads)
	if o.Thorough() {
		nDag = 10
	}
	for i := 0; i < nDag; i++ {
		win := hwins[(int(o.Seed)+i)%len(hwins)]
		base := [3]int{floorDiv(win[0], 32) * 32, floorDiv(win[1], 32) * 32, floorDiv(win[2], 32) * 32}
		x0, x1 := 2+rng.Intn(10), 20+rng.Intn(10)
		y0, z0 := rng.Intn(6), rng.Intn(6)
		y1, z1 := y0+4+rng.Intn(6), z0+4+rng.Intn(6)
		ing := jwrite{Off: base, Size: [3]int{32, 32, 32}, Paints: []blk.Paint{blk.Hash([6]int{0, 0, 0, 32, 32, 32}, uint64(rng.Pick(2, 4)), uint64(rng.Intn(1<<16)), []uint64{1, 2, 3})}}
		if rng.Bool() {
			ing.Via, ing.Downres = "blocks", true
		}
		ws := []jwrite{ing, {Off: win, Size: hwd, Paints: []blk.Paint{blk.Hash([6]int{0, 0, 0, 32, 16, 16}, uint64(rng.Pick(2, 4)), uint64(rng.Intn(1<<16)), []uint64{1, 2, 0}),
			blk.Box([6]int{x0, y0, z0, x1, y1, z1}, 7)}}}
		kinds := []string{"", "blocks", "svsplit", "", "svsplit", "blocks"}
		for a := len(kinds) - 1; a > 0; a-- {
			b := rng.Intn(a + 1)
			kinds[a], kinds[b] = kinds[b], kinds[a]
		}
		nSteps := 4
		if o.Thorough() {
			nSteps = 6
		}
		v := 1 + rng.Intn(2)
		blocksOver := map[int]bool{}
		for q := 0; q < nSteps; q++ {
			if q > 0 && !rng.Chance(0.2) {
				v = 3 - v // mostly alternate between the siblings
			}
			bx := v - 1 // each sibling mostly keeps to its own block of the shared parent
			if rng.Chance(0.25) {
				bx = 1 - bx
			}
			// the part of the supervoxel's box inside block bx, window coordinates
			lo, hi := x0, 16
			if bx == 1 {
				lo, hi = 16, x1
			}
			// POST blocks over a block that already holds data leaves the label index of the supervoxels it
			// replaces as it was (an ingest call; the index is another property's subject), and a split of
			// such a supervoxel is then refused: no split after a blocks overwrite in the same version
			kind := kinds[q]
			if kind == "svsplit" && blocksOver[v] {
				kind = ""
			}
			if kind == "blocks" {
				blocksOver[v] = true
			}
			switch kind {
			case "svsplit":
				at := [3]int{win[0] + lo, win[1] + y0, win[2] + z0}
				ws = append(ws, jwrite{Ver: v, Via: "svsplit", At: &at, Off: win, Size: hwd,
					Paints: []blk.Paint{blk.Box([6]int{lo, y0, z0, lo + 1 + rng.Intn(hi-lo-1), y1, z0 + 1 + rng.Intn(z1-z0)}, 1)}})
			default:
				// an overwrite of the block: noise, and a fresh non-zero supervoxel where the box was
				ps := append(blockNoise([]uint64{uint64(10*v + q), uint64(40 + q), 0}, [3]int{16, 16, 16}), blk.Box([6]int{lo - 16*bx, y0, z0, hi - 16*bx, y1, z1}, uint64(70+10*v+q)))
				ws = append(ws, jwrite{Ver: v, Via: kind, Downres: kind == "blocks", Off: [3]int{win[0] + 16*bx, win[1], win[2]}, Size: [3]int{16, 16, 16}, Paints: ps})
			}
		}
		addHTTP(jcase{Kind: "http", Max: 2, Win: win, WD: hwd, Writes: ws})
	}

	flushHTTP()
	run.Finish("c14case",
		"Block.Downres with every mix of nil / solid / mixed octants over mixed and solid parents; DownresLabels on small arrays with ties and zeros; labelmap over HTTP: ingest of a 64^3 window then 1-2 overwrites of block groups (one block, a row, 2x2x2, solid 0), windows at non-negative and negative block coordinates, levels 0..2 read back; histories through POST blocks (all option combinations), body splits (SplitLabels) and supervoxel splits, uniform regions followed by partial updates; version-DAG histories: a committed root with data, a newversion child and a branch child both open, raw / blocks?downres / supervoxel-split steps interleaved between the siblings on blocks of one shared parent, all levels of both versions compared after every step; distinct by (kind, touch pattern, content digest)",
		tail)
}

func floorDiv(a, b int) int {
	q := a / b
	if (a%b != 0) && ((a < 0) != (b < 0)) {
		q--
	}
	return q
}

const tail = `
Definition spec_fail := Eval vm_compute in c14_spec_fail cases.
Definition model_mismatch := Eval vm_compute in c14_model_mismatch cases.
`
