// Driver C14: labels.Block.Downres and labels.DownresLabels at package level, and a labelmap
// instance with down-sampling enabled driven over HTTP (in-process server): after each sequence of
// writes the label arrays are read back at every scale and compared level against level.
package main

import (
	"bytes"
	"encoding/hex"
	"encoding/json"
	"fmt"
	"os"
	"os/exec"
	"strings"
	"sync"
	"time"

	"github.com/janelia-flyem/dvid/datatype/common/downres"
	"github.com/janelia-flyem/dvid/datatype/common/labels"
	_ "github.com/janelia-flyem/dvid/datatype/labelmap"
	"github.com/janelia-flyem/dvid/dvid"
	"verif/harness/dv"
	"verif/harness/lib"
	"verif/harness/lib/blk"
)

type jwrite struct {
	Off    [3]int      `json:"off"`
	Size   [3]int      `json:"size"`
	Paints []blk.Paint `json:"paints"`
	Child  bool        `json:"child,omitempty"` // commit the node and continue on a new child version before this write
	Par    int         `json:"par,omitempty"`   // consecutive writes with the same non-zero group are issued concurrently
	Delay  int         `json:"delay,omitempty"` // microseconds this write of a concurrent group starts after the group's first
}

type jcase struct {
	Kind   string        `json:"kind"` // down | vote | http
	G      [3]int        `json:"g,omitempty"`
	Paints []blk.Paint   `json:"paints,omitempty"`
	Octs   [][]blk.Paint `json:"octs,omitempty"` // eight entries; null = nil octant
	N      [3]int        `json:"n,omitempty"`
	Max    int           `json:"max,omitempty"`
	Writes []jwrite      `json:"writes,omitempty"`
	Win    [3]int        `json:"win,omitempty"`
	WN     int           `json:"wn,omitempty"`
	WD     [3]int        `json:"wd,omitempty"` // window size per axis (default WN cubed)
	BS     [3]int        `json:"bs,omitempty"` // labelmap BlockSize (default 16,16,16)
}

func hx(b []byte) string { return `(hx "` + hex.EncodeToString(b) + `"%string)` }

func mkBlock(g [3]int, ps []blk.Paint) (*labels.Block, error) {
	return labels.MakeBlock(blk.ToBytes(blk.Expand(8*g[0], 8*g[1], 8*g[2], ps)), dvid.Point3d{int32(8 * g[0]), int32(8 * g[1]), int32(8 * g[2])})
}

// httpResult is what one labelmap history gives: the class of every write and the level digests.
type httpResult struct {
	Status []uint64       `json:"status"`
	Levels []string       `json:"levels"`
	Counts map[string]int `json:"counts"`
}

// runHTTP plays one history against an in-process DVID.  It runs in a child process of the driver:
// a panic inside a server goroutine (e.g. a StoreDownres worker) cannot be recovered and would
// otherwise take the whole run with it.
func runHTTP(c jcase) (res httpResult) {
	res.Counts = map[string]int{}
	dv.Quiet()
	dv.Open()
	defer dv.Close()
	uuid, err := dv.NewRepo("c14")
	if err != nil {
		fmt.Fprintln(os.Stderr, err)
		os.Exit(2)
	}
	name := "lm"
	bs := c.BS
	if bs == [3]int{} {
		bs = [3]int{16, 16, 16}
	}
	wd := c.WD
	if wd == [3]int{} {
		wd = [3]int{c.WN, c.WN, c.WN}
	}
	if err := dv.NewInstance(uuid, "labelmap", name, map[string]string{"BlockSize": fmt.Sprintf("%d,%d,%d", bs[0], bs[1], bs[2]), "MaxDownresLevel": fmt.Sprint(c.Max)}); err != nil {
		fmt.Fprintln(os.Stderr, err)
		os.Exit(2)
	}
	post := func(i int, node string) uint64 {
		w := c.Writes[i]
		arr := blk.Expand(w.Size[0], w.Size[1], w.Size[2], w.Paints)
		url := fmt.Sprintf("/api/node/%s/%s/raw/0_1_2/%d_%d_%d/%d_%d_%d", node, name, w.Size[0], w.Size[1], w.Size[2], w.Off[0], w.Off[1], w.Off[2])
		if i > 0 {
			url += "?mutate=true"
		}
		r := dv.Post(url, blk.ToBytes(arr))
		switch {
		case r.Status == 200:
			return 0
		case r.Status >= 500 && strings.Contains(string(r.Body), "anic"):
			return 2
		}
		return 1
	}
	var status []uint64
	failed := false
	for i := 0; i < len(c.Writes) && !failed; {
		w := c.Writes[i]
		if w.Child {
			if r := dv.Commit(uuid); r.Status != 200 {
				fmt.Fprintln(os.Stderr, "commit:", r.Status, string(r.Body))
				os.Exit(2)
			}
			child, r := dv.NewVersion(uuid)
			if r.Status != 200 || child == "" {
				fmt.Fprintln(os.Stderr, "newversion:", r.Status, string(r.Body))
				os.Exit(2)
			}
			uuid = child
			res.Counts["http:child-version"]++
		}
		// a group of writes issued concurrently (disjoint blocks: the outcome must not depend on the order)
		j := i + 1
		for w.Par != 0 && j < len(c.Writes) && c.Writes[j].Par == w.Par && !c.Writes[j].Child {
			j++
		}
		gres := make([]uint64, j-i)
		if j-i == 1 {
			gres[0] = post(i, uuid)
		} else {
			var wg sync.WaitGroup
			for k := i; k < j; k++ {
				wg.Add(1)
				go func(k int) {
					defer wg.Done()
					time.Sleep(time.Duration(c.Writes[k].Delay) * time.Microsecond)
					gres[k-i] = post(k, uuid)
				}(k)
			}
			wg.Wait()
			res.Counts[fmt.Sprintf("http:concurrent-group:%d", j-i)]++
		}
		for _, st := range gres {
			status = append(status, st)
			res.Counts[fmt.Sprintf("http:write-status-class:%d", st)]++
			if st != 0 {
				failed = true
			}
		}
		i = j
		if !failed {
			if err := downres.BlockOnUpdating(dvid.UUID(uuid), dvid.InstanceName(name)); err != nil {
				failed = true
			}
		}
	}
	var levels []string
	if !failed {
		n := wd
		off := c.Win
		for k := 0; k <= c.Max; k++ {
			url := fmt.Sprintf("/api/node/%s/%s/raw/0_1_2/%d_%d_%d/%d_%d_%d?scale=%d&supervoxels=true", uuid, name, n[0], n[1], n[2], off[0], off[1], off[2], k)
			r := dv.Get(url)
			switch {
			case r.Status == 200 && len(r.Body) == 8*n[0]*n[1]*n[2]:
				levels = append(levels, fmt.Sprintf("Ok %d", blk.DigestBytes(r.Body)))
			case r.Status >= 500 && strings.Contains(string(r.Body), "anic"):
				levels = append(levels, "Panic")
			default:
				levels = append(levels, "Err")
			}
			for j := range off {
				n[j] /= 2
				off[j] = floorDiv(off[j], 2)
			}
		}
	}
	res.Status, res.Levels = status, levels
	return
}

func main() {
	o := lib.ParseOpts()
	if cf := os.Getenv("VERIF_C14_CHILD"); cf != "" {
		var c jcase
		b, err := os.ReadFile(cf)
		if err == nil {
			err = json.Unmarshal(b, &c)
		}
		if err != nil {
			fmt.Fprintln(os.Stderr, err)
			os.Exit(2)
		}
		res := runHTTP(c)
		out, _ := json.Marshal(res)
		fmt.Printf("\nC14RESULT %s\n", out)
		os.Exit(0)
	}
	rng := lib.NewRand(o.Seed)
	run := lib.NewRun("C14", o)
	run.Header("From Coq Require Import String.", "From DV Require Import Base.Prelude Model.Block Model.BlockRun Model.Downres Model.DownresRun.", "Local Open Scope N_scope.")

	addDown := func(c jcase) {
		var cls string
		var data []byte
		var dec uint64
		nilCount := 0
		p, _ := lib.Recover(func() {
			b, err := mkBlock(c.G, c.Paints)
			if err != nil {
				cls = "err"
				return
			}
			var octs [8]*labels.Block
			for i := 0; i < 8; i++ {
				if c.Octs[i] == nil {
					nilCount++
					continue
				}
				if octs[i], err = mkBlock(c.G, c.Octs[i]); err != nil {
					cls = "err"
					return
				}
			}
			if err = b.Downres(octs); err != nil {
				cls = "err"
				return
			}
			d, _ := b.MarshalBinary()
			data = append([]byte{}, d...)
			out, _ := b.MakeLabelVolume()
			cls, dec = "ok", blk.DigestBytes(out)
		})
		if p {
			cls = "panic"
		}
		os := make([]string, 8)
		for i := 0; i < 8; i++ {
			if c.Octs[i] == nil {
				os[i] = "None"
			} else {
				os[i] = "(Some " + blk.CoqPaints(c.Octs[i]) + ")"
			}
		}
		term := fmt.Sprintf("(CDown %d %d %d %s [%s] %s %d)", c.G[0], c.G[1], c.G[2], blk.CoqPaints(c.Paints), strings.Join(os, "; "), lib.CoqRes(cls, hx(data)), dec)
		run.Count(fmt.Sprintf("down:nil-octants:%d", nilCount))
		run.Count("down:result:" + cls)
		run.Add("down", term, c, fmt.Sprintf("down/%d/%x", nilCount, dec))
	}

	addVote := func(c jcase) {
		arr := blk.Expand(c.N[0], c.N[1], c.N[2], c.Paints)
		var cls string
		var lo []uint64
		p, _ := lib.Recover(func() {
			out, err := labels.DownresLabels(blk.ToBytes(arr), dvid.Point3d{int32(c.N[0]), int32(c.N[1]), int32(c.N[2])})
			if err != nil {
				cls = "err"
				return
			}
			cls, lo = "ok", blk.FromBytes(out)
		})
		if p {
			cls = "panic"
		}
		term := fmt.Sprintf("(CVote %d %d %d %s %s)", c.N[0], c.N[1], c.N[2], blk.CoqPaints(c.Paints), lib.CoqRes(cls, lib.CoqNList(lo)))
		run.Count("vote:result:" + cls)
		run.Add("vote", term, c, fmt.Sprintf("vote/%v/%x", c.N, blk.Digest(arr)))
	}

	addHTTP := func(c jcase) {
		// the history runs in a child process (this binary with VERIF_C14_CHILD set)
		var res httpResult
		crashed := false
		{
			f, err := os.CreateTemp("", "c14case*.json")
			if err != nil {
				fmt.Fprintln(os.Stderr, err)
				os.Exit(2)
			}
			json.NewEncoder(f).Encode(c)
			f.Close()
			cmd := exec.Command(os.Args[0], "-outdir", o.OutDir)
			cmd.Env = append(os.Environ(), "VERIF_C14_CHILD="+f.Name())
			out, err := cmd.Output()
			os.Remove(f.Name())
			if i := bytes.LastIndex(out, []byte("C14RESULT ")); err == nil && i >= 0 {
				err = json.Unmarshal(out[i+len("C14RESULT "):], &res)
			} else if err == nil {
				err = fmt.Errorf("no result")
			}
			if err != nil {
				// the server process died: a panic outside any handler's recover
				crashed = true
				res = httpResult{Status: []uint64{2}, Counts: map[string]int{"http:server-process-died": 1}}
			}
		}
		_ = crashed
		for k, n := range res.Counts {
			for q := 0; q < n; q++ {
				run.Count(k)
			}
		}
		status, levels := res.Status, res.Levels
		bs := c.BS
		if bs == [3]int{} {
			bs = [3]int{16, 16, 16}
		}
		wd := c.WD
		if wd == [3]int{} {
			wd = [3]int{c.WN, c.WN, c.WN}
		}
		ws := make([]string, len(status))
		for i := range status {
			w := c.Writes[i]
			ws[i] = fmt.Sprintf("(%s%%Z,%s%%Z,%s%%Z,(%d,%d,%d),%s)", lib.CoqZ(int64(w.Off[0])), lib.CoqZ(int64(w.Off[1])), lib.CoqZ(int64(w.Off[2])),
				w.Size[0], w.Size[1], w.Size[2], blk.CoqPaints(w.Paints))
		}
		term := fmt.Sprintf("(CHttp %d [%s] %s %s %s (%d,%d,%d) %s [%s])", c.Max, strings.Join(ws, "; "), lib.CoqZ(int64(c.Win[0])), lib.CoqZ(int64(c.Win[1])), lib.CoqZ(int64(c.Win[2])),
			wd[0], wd[1], wd[2], lib.CoqNList(status), strings.Join(levels, "; "))
		run.Count(fmt.Sprintf("http:blocksize:%dx%dx%d", bs[0], bs[1], bs[2]))
		neg := "nonneg"
		if c.Win[0] < 0 || c.Win[1] < 0 || c.Win[2] < 0 {
			neg = "negative"
		}
		run.Count("http:window:" + neg)
		run.Count(fmt.Sprintf("http:maxlevel:%d", c.Max))
		run.Count(fmt.Sprintf("http:writes:%d", len(c.Writes)))
		run.Add("http", term, c, fmt.Sprintf("http/%v/%d/%d/%v", c.Win, c.Max, len(c.Writes), c.Writes[len(c.Writes)-1].Off))
	}

	dispatch := func(c jcase) {
		switch c.Kind {
		case "down":
			addDown(c)
		case "vote":
			addVote(c)
		case "http":
			addHTTP(c)
		}
	}

	if o.Replay != "" {
		var c jcase
		if err := lib.LoadReplay(o.Replay, &c); err != nil {
			fmt.Fprintln(os.Stderr, err)
			os.Exit(2)
		}
		dispatch(c)
		run.Finish("c14case", "replay", tail)
		return
	}

	g2 := [3]int{2, 2, 2}
	full := [6]int{0, 0, 0, 16, 16, 16}
	nilOcts := func() [][]blk.Paint { return make([][]blk.Paint, 8) }
	noise := func(pal []uint64) []blk.Paint {
		return []blk.Paint{blk.Hash(full, uint64(rng.Pick(1, 1, 2, 4)), uint64(rng.Intn(1<<16)), pal)}
	}

	// ---- corpus ----
	// the recorded defect: one touched octant that is solid 0, seven untouched (nil) octants, parent full of labels
	for _, i := range []int{0, 5} {
		octs := nilOcts()
		octs[i] = []blk.Paint{blk.Fill(0)}
		addDown(jcase{Kind: "down", G: g2, Paints: noise([]uint64{1, 2, 3}), Octs: octs})
	}
	// all eight solid with the same label (shortcut legitimately fires), all eight nil, solid non-zero plus nil
	{
		octs := nilOcts()
		for i := range octs {
			octs[i] = []blk.Paint{blk.Fill(7)}
		}
		addDown(jcase{Kind: "down", G: g2, Paints: noise([]uint64{1, 2}), Octs: octs})
		addDown(jcase{Kind: "down", G: g2, Paints: noise([]uint64{1, 2}), Octs: nilOcts()})
		o2 := nilOcts()
		o2[3] = []blk.Paint{blk.Fill(9)}
		addDown(jcase{Kind: "down", G: g2, Paints: noise([]uint64{1, 2}), Octs: o2})
	}
	// votes: ties to the smaller label, zeros never win, all zero gives zero
	addVote(jcase{Kind: "vote", N: [3]int{4, 4, 4}, Paints: []blk.Paint{blk.Cyc([6]int{0, 0, 0, 4, 4, 4}, 0, 1, 3)}})
	addVote(jcase{Kind: "vote", N: [3]int{4, 2, 2}, Paints: []blk.Paint{blk.Fill(0), blk.Box([6]int{0, 0, 0, 1, 1, 1}, 5), blk.Box([6]int{2, 0, 0, 4, 2, 1}, 9), blk.Box([6]int{2, 0, 1, 4, 2, 2}, 3)}})

	nDown, nVote := 5, 4
	if o.Thorough() {
		nDown, nVote = 80, 40
	}
	for i := 0; i < nDown; i++ {
		octs := nilOcts()
		pal := []uint64{0, 1, 2, 3, ^uint64(0)}
		for j := range octs {
			switch rng.Intn(7) {
			case 0, 1, 2, 3: // untouched
			case 4:
				octs[j] = []blk.Paint{blk.Fill(pal[rng.Intn(len(pal))])}
			default:
				octs[j] = noise(pal[:2+rng.Intn(4)])
			}
		}
		base := noise([]uint64{4, 5, 0})
		if rng.Chance(0.3) {
			base = []blk.Paint{blk.Fill(uint64(rng.Pick(0, 6)))}
		}
		addDown(jcase{Kind: "down", G: g2, Paints: base, Octs: octs})
	}
	// non-cubic blocks (every dimension a multiple of 16): the octant offsets differ per axis
	ncSizes := [][3]int{{2, 4, 2}, {4, 2, 2}, {2, 2, 4}, {2, 3, 4}, {4, 3, 2}} // X<Y, X>Z, all different
	if o.Thorough() {
		ncSizes = append(ncSizes, [3]int{2, 4, 6}, [3]int{6, 4, 2})
	}
	nNC := 2
	if o.Thorough() {
		nNC = 15
	}
	for i := 0; i < nNC; i++ {
		g := ncSizes[(int(o.Seed)+i)%len(ncSizes)]
		if o.Thorough() {
			g = ncSizes[i%len(ncSizes)]
		}
		fullg := [6]int{0, 0, 0, 8 * g[0], 8 * g[1], 8 * g[2]}
		octs := nilOcts()
		given := 0
		for j := range octs {
			switch rng.Intn(6) {
			case 0:
				octs[j] = []blk.Paint{blk.Fill(uint64(rng.Pick(0, 3, 7)))}
				given++
			case 1, 2:
				octs[j] = []blk.Paint{blk.Hash(fullg, uint64(rng.Pick(2, 4)), uint64(rng.Intn(1<<16)), []uint64{0, 1, 2, 3})}
				given++
			}
		}
		if given == 0 {
			octs[rng.Intn(8)] = []blk.Paint{blk.Hash(fullg, 2, uint64(rng.Intn(1<<16)), []uint64{1, 2})}
		}
		addDown(jcase{Kind: "down", G: g, Paints: []blk.Paint{blk.Hash(fullg, 4, uint64(rng.Intn(1<<16)), []uint64{4, 5, 0})}, Octs: octs})
	}
	for i := 0; i < nVote; i++ {
		n := [3]int{2 * (1 + rng.Intn(3)), 2 * (1 + rng.Intn(3)), 2 * (1 + rng.Intn(3))}
		pal := []uint64{0, 0, 1, 2, 3, ^uint64(0)}
		addVote(jcase{Kind: "vote", N: n, Paints: []blk.Paint{blk.Hash([6]int{0, 0, 0, n[0], n[1], n[2]}, 1, uint64(rng.Intn(1<<16)), pal[:2+rng.Intn(5)])}})
	}

	// ---- HTTP: a 32^3 window (2x2x2 scale-0 blocks of 16^3 = one scale-1 block = one octant of a scale-2 block), max level 2 ----
	nHTTP := 3
	if o.Thorough() {
		nHTTP = 20
	}
	wn := 32
	ingest := func(win [3]int, pal []uint64) jwrite {
		return jwrite{Off: win, Size: [3]int{wn, wn, wn}, Paints: []blk.Paint{blk.Hash([6]int{0, 0, 0, wn, wn, wn}, uint64(rng.Pick(1, 2, 4)), uint64(rng.Intn(1<<16)), pal)}}
	}
	// corpus: overwrite one block with zeros after a full ingest (the setBlank defect at the HTTP level)
	{
		win := [3]int{0, 0, 0}
		addHTTP(jcase{Kind: "http", Max: 2, Win: win, WN: wn, Writes: []jwrite{ingest(win, []uint64{1, 2, 3}),
			{Off: [3]int{16, 0, 16}, Size: [3]int{16, 16, 16}, Paints: []blk.Paint{blk.Fill(0)}}}})
	}
	// corpus: a window over negative block coordinates (predicted: negative octant index)
	{
		win := [3]int{-32, -32, -32}
		addHTTP(jcase{Kind: "http", Max: 2, Win: win, WN: wn, Writes: []jwrite{
			{Off: win, Size: [3]int{32, 32, 32}, Paints: []blk.Paint{blk.Hash([6]int{0, 0, 0, 32, 32, 32}, 2, 77, []uint64{1, 2, 3})}}}})
	}
	// corpus: a mutating write that moves a box inside one block (per-label counts unchanged), on the
	// root version and on a child version, for max level 1..3
	for k, max := range []int{1, 2, 3} {
		win := [3]int{0, 0, 0}
		if k == 1 {
			win = [3]int{-32, 0, -32}
		}
		ing := ingest(win, []uint64{1, 2, 3})
		// block (1,0,1) of the window: label 7 with a 4x4x4 box of label 8
		ing.Paints = append(ing.Paints, blk.Box([6]int{16, 0, 16, 32, 16, 32}, 7), blk.Box([6]int{18, 2, 18, 22, 6, 22}, 8))
		move := jwrite{Off: [3]int{win[0] + 16, win[1], win[2] + 16}, Size: [3]int{16, 16, 16},
			Paints: []blk.Paint{blk.Fill(7), blk.Box([6]int{9, 8, 3, 13, 12, 7}, 8)}, Child: k != 0}
		addHTTP(jcase{Kind: "http", Max: max, Win: win, WN: wn, Writes: []jwrite{ing, move}})
	}
	// a labelmap instance with a non-cubic BlockSize: window = 2x2x2 blocks, every block rewritten once more
	ncBS := [][3]int{{16, 32, 16}, {32, 16, 16}, {16, 16, 32}, {16, 32, 48}}
	nNCH := 1
	if o.Thorough() {
		nNCH = 6
	}
	for i := 0; i < nNCH; i++ {
		bs := ncBS[(int(o.Seed)+i)%len(ncBS)]
		wd := [3]int{2 * bs[0], 2 * bs[1], 2 * bs[2]}
		if wd[0]*wd[1]*wd[2] > 40000 && !o.Thorough() {
			wd[2] = bs[2] // keep the window small: one block deep
		}
		win := [3]int{0, 0, 0}
		if rng.Bool() {
			win = [3]int{-wd[0], 0, 0}
		}
		ws := []jwrite{{Off: win, Size: wd, Paints: []blk.Paint{blk.Hash([6]int{0, 0, 0, wd[0], wd[1], wd[2]}, uint64(rng.Pick(1, 2)), uint64(rng.Intn(1<<16)), []uint64{1, 2, 3, 0})}}}
		// overwrite one block (solid or noisy)
		bo := [3]int{win[0] + bs[0]*rng.Intn(wd[0]/bs[0]), win[1] + bs[1]*rng.Intn(wd[1]/bs[1]), win[2] + bs[2]*rng.Intn(wd[2]/bs[2])}
		ps := []blk.Paint{blk.Fill(uint64(rng.Pick(0, 5)))}
		if rng.Bool() {
			ps = []blk.Paint{blk.Hash([6]int{0, 0, 0, bs[0], bs[1], bs[2]}, 2, uint64(rng.Intn(1<<16)), []uint64{0, 4, 1})}
		}
		ws = append(ws, jwrite{Off: bo, Size: bs, Paints: ps})
		addHTTP(jcase{Kind: "http", Max: 1 + rng.Intn(2), Win: win, WD: wd, BS: bs, Writes: ws})
	}
	// concurrent writes to sibling blocks of one parent: the pairs are disjoint, so whatever the
	// interleaving every level must afterwards be the down-sampling of level 0
	nConc := 2
	if o.Thorough() {
		nConc = 8
	}
	for i := 0; i < nConc; i++ {
		win := [3]int{0, 0, 0}
		ws := []jwrite{ingest(win, []uint64{1, 2, 3})}
		group := 0
		rounds := 2
		if o.Thorough() {
			rounds = 4
		}
		for round := 0; round < rounds; round++ {
			for _, pair := range [][2][3]int{{{0, 0, 0}, {16, 0, 0}}, {{0, 16, 0}, {16, 16, 0}}, {{0, 0, 16}, {0, 16, 16}}, {{16, 0, 16}, {16, 16, 16}}} {
				group++
				delay := []int{0, 100, 300, 700, 1500, 3000}[rng.Intn(6)]
				for q, off := range pair {
					d := 0
					if q == 1 {
						d = delay
					}
					ws = append(ws, jwrite{Off: off, Size: [3]int{16, 16, 16}, Par: group, Delay: d,
						Paints: []blk.Paint{blk.Hash([6]int{0, 0, 0, 16, 16, 16}, uint64(rng.Pick(2, 4)), uint64(rng.Intn(1<<16)), []uint64{uint64(10 + round), uint64(20 + q), 0})}})
				}
			}
		}
		addHTTP(jcase{Kind: "http", Max: 1 + rng.Intn(2), Win: win, WN: wn, Writes: ws})
	}
	for i := 0; i < nHTTP; i++ {
		win := [3]int{0, 0, 0}
		if rng.Chance(0.4) {
			win = [3]int{-32 * rng.Intn(2), -32 * rng.Intn(2), -32 * rng.Intn(2)}
		}
		ws := []jwrite{ingest(win, []uint64{1, 2, 3, 0}[:2+rng.Intn(3)])}
		for j := 0; j < 1+rng.Intn(2); j++ {
			// a touched set: one block, a row of blocks, or a 2x2x2 group
			sz := [][3]int{{16, 16, 16}, {32, 16, 16}, {32, 32, 32}, {16, 16, 32}}[rng.Intn(4)]
			off := [3]int{win[0] + 16*rng.Intn((wn-sz[0])/16+1), win[1] + 16*rng.Intn((wn-sz[1])/16+1), win[2] + 16*rng.Intn((wn-sz[2])/16+1)}
			ps := []blk.Paint{blk.Fill(uint64(rng.Pick(0, 0, 5, 1)))}
			if rng.Bool() {
				ps = []blk.Paint{blk.Hash([6]int{0, 0, 0, sz[0], sz[1], sz[2]}, uint64(rng.Pick(1, 2)), uint64(rng.Intn(1<<16)), []uint64{0, 4, 1})}
			}
			ws = append(ws, jwrite{Off: off, Size: sz, Paints: ps, Child: rng.Chance(0.3)})
		}
		if rng.Chance(0.6) {
			// count-preserving rearrangement of one block: same labels and counts, other positions
			bo := [3]int{16 * rng.Intn(2), 16 * rng.Intn(2), 16 * rng.Intn(2)}
			a, b := uint64(10+rng.Intn(3)), uint64(20+rng.Intn(3))
			e := 2 + rng.Intn(6)
			p1 := [3]int{rng.Intn(16 - e), rng.Intn(16 - e), rng.Intn(16 - e)}
			p2 := [3]int{rng.Intn(16 - e), rng.Intn(16 - e), rng.Intn(16 - e)}
			box := func(p [3]int) [6]int { return [6]int{p[0], p[1], p[2], p[0] + e, p[1] + e, p[2] + e} }
			off := [3]int{win[0] + bo[0], win[1] + bo[1], win[2] + bo[2]}
			ws = append(ws, jwrite{Off: off, Size: [3]int{16, 16, 16}, Paints: []blk.Paint{blk.Fill(a), blk.Box(box(p1), b)}},
				jwrite{Off: off, Size: [3]int{16, 16, 16}, Paints: []blk.Paint{blk.Fill(a), blk.Box(box(p2), b)}, Child: rng.Chance(0.4)})
		}
		addHTTP(jcase{Kind: "http", Max: 1 + rng.Intn(3), Win: win, WN: wn, Writes: ws})
	}

	run.Finish("c14case",
		"Block.Downres with every mix of nil / solid / mixed octants over mixed and solid parents; DownresLabels on small arrays with ties and zeros; labelmap over HTTP: ingest of a 64^3 window then 1-2 overwrites of block groups (one block, a row, 2x2x2, solid 0), windows at non-negative and negative block coordinates, levels 0..2 read back; distinct by (kind, touch pattern, content digest)",
		tail)
}

func floorDiv(a, b int) int {
	q := a / b
	if (a%b != 0) && ((a < 0) != (b < 0)) {
		q--
	}
	return q
}

const tail = `
Definition spec_fail := Eval vm_compute in c14_spec_fail cases.
Definition model_mismatch := Eval vm_compute in c14_model_mismatch cases.
`
