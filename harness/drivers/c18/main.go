// Driver C18: spatial key codec, packed block index, run-length volumes (package level) and
// ROI span queries (HTTP through harness/dv) against Model.Geometry / Model.RLE / Model.ROI.
package main

import (
	"bytes"
	"encoding/binary"
	"encoding/hex"
	"encoding/json"
	"fmt"
	"math"
	"os"
	"path/filepath"
	"reflect"
	"regexp"
	"sort"
	"strconv"
	"strings"

	"github.com/janelia-flyem/dvid/datatype/common/labels"
	"github.com/janelia-flyem/dvid/datatype/roi"
	"github.com/janelia-flyem/dvid/dvid"
	"verif/harness/dv"
	"verif/harness/lib"
)

type jcase struct {
	Kind   string     `json:"kind"`
	P      []int32    `json:"p,omitempty"`
	Q      []int32    `json:"q,omitempty"`
	Size   []int32    `json:"size,omitempty"`
	Off    []int32    `json:"off,omitempty"`
	Bytes  []byte     `json:"bytes,omitempty"`
	Code   uint64     `json:"code,omitempty"`
	Runs   [][4]int32 `json:"runs,omitempty"`
	Runs2  [][4]int32 `json:"runs2,omitempty"`
	Bounds []*int32   `json:"bounds,omitempty"` // minx maxx miny maxy minz maxz; absent = nil bounds
	Spans  [][4]int32 `json:"spans,omitempty"`
	Pts    [][3]int32 `json:"pts,omitempty"`
	Pts2   [][3]int32 `json:"pts2,omitempty"`
	Scale  int        `json:"scale,omitempty"`
	Steps  []vstep    `json:"steps,omitempty"` // version history of one ROI instance
	Obs    int        `json:"obs,omitempty"`   // replay: the observation (1-based) to emit; 0 = all
}

// vstep: one step of a version history.  Nodes are numbered in creation order, 0 is the root.
//
//	post/delete  Node, Spans        write the ROI at an open node
//	child        Parent -> new node  commit Parent (if still open) and make a new version of it
//	branch       Parent -> new node  commit Parent (if still open) and branch off it
type vstep struct {
	Op     string     `json:"op"`
	Node   int        `json:"node,omitempty"`
	Parent int        `json:"parent,omitempty"`
	Spans  [][4]int32 `json:"spans,omitempty"`
}

// ---- Coq printers ----
func z(v int64) string { return lib.CoqZ(v) }
func cpt(p []int32) string {
	return fmt.Sprintf("(%s, %s, %s)", z(int64(p[0])), z(int64(p[1])), z(int64(p[2])))
}
func cpt3(p dvid.Point3d) string { return cpt([]int32{p[0], p[1], p[2]}) }
func chex(b []byte) string       { return `(hx "` + hex.EncodeToString(b) + `"%string)` }
func cquad(q [4]int32) string {
	return fmt.Sprintf("(%s,%s,%s,%s)", z(int64(q[0])), z(int64(q[1])), z(int64(q[2])), z(int64(q[3])))
}
func cR(q [4]int32) string {
	return fmt.Sprintf("(R %s %s %s %s)", z(int64(q[0])), z(int64(q[1])), z(int64(q[2])), z(int64(q[3])))
}
func cquads(fn string, qs [][4]int32) string {
	if len(qs) == 0 {
		return "[]"
	}
	ss := make([]string, len(qs))
	for i, q := range qs {
		ss[i] = cquad(q)
	}
	return "(" + fn + " [" + strings.Join(ss, ";") + "])"
}
func crl(qs [][4]int32) string  { return cquads("rl", qs) }
func cspl(qs [][4]int32) string { return cquads("spl", qs) }
func cpts(ps [][3]int32) string {
	ss := make([]string, len(ps))
	for i, p := range ps {
		ss[i] = cpt(p[:])
	}
	return "[" + strings.Join(ss, ";") + "]"
}
func cbits(bs []bool) string {
	var sb strings.Builder
	sb.WriteString(`(bits "`)
	for _, b := range bs {
		if b {
			sb.WriteByte('1')
		} else {
			sb.WriteByte('0')
		}
	}
	sb.WriteString(`"%string)`)
	return sb.String()
}
func resPt(cls string, p dvid.Point3d) string { return lib.CoqRes(cls, cpt3(p)) }

func toRLEs(qs [][4]int32) dvid.RLEs {
	out := make(dvid.RLEs, len(qs))
	for i, q := range qs {
		out[i] = dvid.NewRLE(dvid.Point3d{q[0], q[1], q[2]}, q[3])
	}
	return out
}
func fromRLEs(rs dvid.RLEs) [][4]int32 {
	out := make([][4]int32, len(rs))
	for i, r := range rs {
		s := r.StartPt()
		out[i] = [4]int32{s[0], s[1], s[2], r.Length()}
	}
	return out
}

var run *lib.Run

// ---- key codec ----
func doZyx(c jcase) {
	p := dvid.Point3d{c.P[0], c.P[1], c.P[2]}
	idx := dvid.IndexZYX{p[0], p[1], p[2]}
	b := idx.Bytes()
	agree := bytes.Equal(b, p.ToZYXBytes()) && string(idx.ToIZYXString()) == string(b) &&
		string(dvid.ChunkPoint3d(p).ToIZYXString()) == string(b)
	cls := "ok"
	var dec dvid.Point3d
	panicked, _ := lib.Recover(func() {
		var i2 dvid.IndexZYX
		if err := i2.IndexFromBytes(b); err != nil {
			cls = "err"
			return
		}
		dec = dvid.Point3d{i2[0], i2[1], i2[2]}
		var p2 dvid.Point3d
		if err := p2.FromZYXBytes(b); err != nil || p2 != dec {
			agree = false
		}
		x, y, zz, err := dvid.IZYXString(b).Unpack()
		if err != nil || (dvid.Point3d{x, y, zz}) != dec {
			agree = false
		}
		cp, err := dvid.IZYXString(b).ToChunkPoint3d()
		if err != nil || dvid.Point3d(cp) != dec {
			agree = false
		}
	})
	if panicked {
		cls = "panic"
	}
	run.Add("zyx", fmt.Sprintf("(KZyx %s %s %s %s)", cpt(c.P), chex(b), lib.CoqBool(agree), resPt(cls, dec)), c,
		fmt.Sprintf("zyx/%v", c.P))
}

func doDecode(c jcase) {
	cls := "ok"
	var dec dvid.Point3d
	panicked, _ := lib.Recover(func() {
		var i2 dvid.IndexZYX
		if err := i2.IndexFromBytes(c.Bytes); err != nil {
			cls = "err"
			return
		}
		dec = dvid.Point3d{i2[0], i2[1], i2[2]}
	})
	if panicked {
		cls = "panic"
	}
	run.Add("decode", fmt.Sprintf("(KDecode %s %s)", chex(c.Bytes), resPt(cls, dec)), c, fmt.Sprintf("dec/%x", c.Bytes))
}

func doCmp(c jcase) {
	a := dvid.IndexZYX{c.P[0], c.P[1], c.P[2]}
	b := dvid.IndexZYX{c.Q[0], c.Q[1], c.Q[2]}
	r := bytes.Compare(a.Bytes(), b.Bytes())
	// the string form must order the same way
	sa, sb := a.ToIZYXString(), b.ToIZYXString()
	r2 := 0
	if sa < sb {
		r2 = -1
	} else if sa > sb {
		r2 = 1
	}
	if r2 != r {
		r = 99
	}
	run.Add("cmp", fmt.Sprintf("(KCmp %s %s %s)", cpt(c.P), cpt(c.Q), z(int64(r))), c, fmt.Sprintf("cmp/%v/%v", c.P, c.Q))
}

func doOrder(c jcase) {
	keys := make(dvid.IZYXSlice, len(c.Pts))
	for i, p := range c.Pts {
		keys[i] = dvid.ChunkPoint3d{p[0], p[1], p[2]}.ToIZYXString()
	}
	sort.Sort(keys)
	out := make([][3]int32, len(keys))
	for i, k := range keys {
		x, y, zz, _ := k.Unpack()
		out[i] = [3]int32{x, y, zz}
	}
	run.Add("order", fmt.Sprintf("(KOrder %s)", cpts(out)), c, fmt.Sprintf("order/%d/%v", len(c.Pts), c.Pts[0]))
}

func doBlk(c jcase) {
	code := labels.EncodeBlockIndex(c.P[0], c.P[1], c.P[2])
	x, y, zz := labels.DecodeBlockIndex(code)
	s := labels.BlockIndexToIZYXString(code)
	cls := "ok"
	var dec dvid.Point3d
	ux, uy, uz, err := s.Unpack()
	if err != nil {
		cls = "err"
	} else {
		dec = dvid.Point3d{ux, uy, uz}
	}
	via, err := labels.IZYXStringToBlockIndex(dvid.ChunkPoint3d{c.P[0], c.P[1], c.P[2]}.ToIZYXString())
	if err != nil {
		via = math.MaxUint64
	}
	run.Add("blockindex", fmt.Sprintf("(KBlk %s %d %s %s %d)", cpt(c.P), code, cpt3(dvid.Point3d{x, y, zz}), resPt(cls, dec), via), c,
		fmt.Sprintf("blk/%v", c.P))
}

func doBlkCode(c jcase) {
	x, y, zz := labels.DecodeBlockIndex(c.Code)
	re := labels.EncodeBlockIndex(x, y, zz)
	run.Add("blockcode", fmt.Sprintf("(KBlkCode %d %s %d)", c.Code, cpt3(dvid.Point3d{x, y, zz}), re), c, fmt.Sprintf("code/%d", c.Code))
}

func doChunk(c jcase) {
	p := dvid.Point3d{c.P[0], c.P[1], c.P[2]}
	size := dvid.Point3d{c.Size[0], c.Size[1], c.Size[2]}
	cls := "ok"
	var out dvid.Point3d
	panicked, _ := lib.Recover(func() {
		cp := p.Chunk(size).(dvid.ChunkPoint3d)
		out = dvid.Point3d(cp)
		// the string form used for block keys must agree
		if k := p.ToBlockIZYXString(size); k != cp.ToIZYXString() {
			cls = "err"
		}
	})
	if panicked {
		cls = "panic"
	}
	run.Add("chunk", fmt.Sprintf("(KChunk %s %s %s)", cpt(c.P), cpt(c.Size), resPt(cls, out)), c, fmt.Sprintf("chunk/%v/%v", c.P, c.Size))
}

// ---- run-length volumes ----
func runsKey(qs [][4]int32) string {
	h := uint32(2166136261)
	for _, q := range qs {
		for _, v := range q {
			h = (h ^ uint32(v)) * 16777619
		}
	}
	return fmt.Sprintf("%d/%x", len(qs), h)
}

func doNorm(c jcase) {
	out := toRLEs(c.Runs).Normalize()
	run.Add("normalize", fmt.Sprintf("(KNorm %s %s)", crl(c.Runs), crl(fromRLEs(out))), c, "norm/"+runsKey(c.Runs))
}

func doExcise(c jcase) {
	r := toRLEs(c.Runs)[0]
	s := toRLEs(c.Runs2)[0]
	out := r.Excise(s)
	t := "None"
	if out != nil {
		t = "(Some " + crl(fromRLEs(out)) + ")"
	}
	run.Add("excise", fmt.Sprintf("(KExcise %s %s %s)", cR(c.Runs[0]), cR(c.Runs2[0]), t), c, "exc/"+runsKey(c.Runs)+runsKey(c.Runs2))
}

func doSplit(c jcase) {
	cls := "ok"
	var out dvid.RLEs
	panicked, _ := lib.Recover(func() {
		var err error
		out, err = toRLEs(c.Runs).Split(toRLEs(c.Runs2))
		if err != nil {
			cls = "err"
		}
	})
	if panicked {
		cls = "panic"
	}
	run.Count("split-result:" + cls)
	run.Add("split", fmt.Sprintf("(KSplit %s %s %s)", crl(c.Runs), crl(c.Runs2), lib.CoqRes(cls, crl(fromRLEs(out)))), c,
		"split/"+runsKey(c.Runs)+runsKey(c.Runs2))
}

func doPart(c jcase) {
	size := dvid.Point3d{c.Size[0], c.Size[1], c.Size[2]}
	cls := "ok"
	var entries []string
	panicked, _ := lib.Recover(func() {
		m, err := toRLEs(c.Runs).Partition(size)
		if err != nil {
			cls = "err"
			return
		}
		keys := m.SortedKeys()
		for _, k := range keys {
			x, y, zz, _ := k.Unpack()
			entries = append(entries, fmt.Sprintf("(%s, %s)", cpt3(dvid.Point3d{x, y, zz}), crl(fromRLEs(m[k]))))
		}
		run.Count(fmt.Sprintf("partition-blocks:%d", bucket(len(keys))))
	})
	if panicked {
		cls = "panic"
	}
	run.Add("partition", fmt.Sprintf("(KPart %s %s %s)", crl(c.Runs), cpt(c.Size), lib.CoqRes(cls, "["+strings.Join(entries, ";")+"]")), c,
		fmt.Sprintf("part/%v/%s", c.Size, runsKey(c.Runs)))
}

func bucket(n int) int {
	switch {
	case n <= 1:
		return n
	case n <= 4:
		return 4
	case n <= 16:
		return 16
	default:
		return 64
	}
}

func copt(p *int32) string {
	if p == nil {
		return "None"
	}
	return "(Some " + z(int64(*p)) + ")"
}

func doFit(c jcase) {
	var ob *dvid.OptionalBounds
	bt := "None"
	if c.Bounds != nil {
		ob = new(dvid.OptionalBounds)
		set := []func(int32){ob.SetMinX, ob.SetMaxX, ob.SetMinY, ob.SetMaxY, ob.SetMinZ, ob.SetMaxZ}
		for i, p := range c.Bounds {
			if p != nil {
				set[i](*p)
			}
		}
		b := c.Bounds
		bt = fmt.Sprintf("(Some (OB %s %s %s %s %s %s))", copt(b[0]), copt(b[1]), copt(b[2]), copt(b[3]), copt(b[4]), copt(b[5]))
		run.Count("fit:bounds")
	} else {
		run.Count("fit:nil-bounds")
	}
	out := toRLEs(c.Runs).FitToBounds(ob)
	run.Add("fit", fmt.Sprintf("(KFit %s %s %s)", crl(c.Runs), bt, crl(fromRLEs(out))), c, "fit/"+bt+runsKey(c.Runs))
}

func doAdd(c jcase) {
	l := toRLEs(c.Runs)
	added := l.Add(toRLEs(c.Runs2))
	run.Add("add", fmt.Sprintf("(KAdd %s %s %s %s)", crl(c.Runs), crl(c.Runs2), crl(fromRLEs(l)), z(added)), c,
		"add/"+runsKey(c.Runs)+runsKey(c.Runs2))
}

func unmarshalRLEs(b []byte) (string, dvid.RLEs) {
	cls := "ok"
	var out dvid.RLEs
	panicked, _ := lib.Recover(func() {
		if err := out.UnmarshalBinary(b); err != nil {
			cls = "err"
		}
	})
	if panicked {
		cls = "panic"
	}
	return cls, out
}

func doMarshal(c jcase) {
	l := toRLEs(c.Runs)
	enc, err := l.MarshalBinary()
	if err != nil {
		enc = nil
	}
	cls, dec := unmarshalRLEs(enc)
	one := true
	for i, r := range l {
		b, err := r.MarshalBinary()
		if err != nil || len(enc) < 16*(i+1) || !bytes.Equal(b, enc[16*i:16*i+16]) {
			one = false
			continue
		}
		var r2 dvid.RLE
		if err := r2.UnmarshalBinary(b); err != nil || r2 != r {
			one = false
		}
		var wb bytes.Buffer
		if _, err := r.WriteTo(&wb); err != nil || !bytes.Equal(wb.Bytes(), b) {
			one = false
		}
	}
	run.Add("marshal", fmt.Sprintf("(KMarshal %s %s %s %s)", crl(c.Runs), chex(enc), lib.CoqRes(cls, crl(fromRLEs(dec))), lib.CoqBool(one)), c,
		"marshal/"+runsKey(c.Runs))
}

func doUnmarshal(c jcase) {
	cls, dec := unmarshalRLEs(c.Bytes)
	run.Count("unmarshal-result:" + cls)
	run.Add("unmarshal", fmt.Sprintf("(KUnmarshal %s %s)", chex(c.Bytes), lib.CoqRes(cls, crl(fromRLEs(dec)))), c, fmt.Sprintf("unm/%x", c.Bytes))
}

func doRead(c jcase) {
	cls := "ok"
	var out dvid.RLEs
	panicked, _ := lib.Recover(func() {
		var err error
		out, err = dvid.ReadRLEs(bytes.NewReader(c.Bytes))
		if err != nil {
			cls = "err"
		}
	})
	if panicked {
		cls = "panic"
	}
	run.Count("read-result:" + cls)
	run.Add("readrles", fmt.Sprintf("(KRead %s %s)", chex(c.Bytes), lib.CoqRes(cls, crl(fromRLEs(out)))), c, fmt.Sprintf("read/%x", c.Bytes))
}

// ---- ROI over HTTP ----
var roiUUID string
var roiN int

func roiOpen() {
	if roiUUID != "" {
		return
	}
	dv.Quiet()
	dv.Open()
	u, err := dv.NewRepo("c18")
	if err != nil {
		fmt.Fprintln(os.Stderr, err)
		os.Exit(2)
	}
	roiUUID = u
}

// newROI creates an instance with the block size and posts the spans; returns its URL prefix and
// the spans read back with GET roi.
func newROI(bs []int32, spans [][4]int32) (string, [][4]int32, bool) {
	roiOpen()
	roiN++
	name := fmt.Sprintf("roi%d", roiN)
	if err := dv.NewInstance(roiUUID, "roi", name, map[string]string{"BlockSize": fmt.Sprintf("%d,%d,%d", bs[0], bs[1], bs[2])}); err != nil {
		fmt.Fprintln(os.Stderr, err)
		os.Exit(2)
	}
	base := "/api/node/" + roiUUID + "/" + name
	body, _ := json.Marshal(spans)
	if r := dv.Post(base+"/roi", body); r.Status != 200 {
		return base, nil, false
	}
	r := dv.Get(base + "/roi")
	var got [][4]int32
	if r.Status != 200 || json.Unmarshal(r.Body, &got) != nil {
		return base, nil, false
	}
	return base, got, true
}

func doRoiGet(c jcase) {
	_, got, ok := newROI(c.Size, c.Spans)
	if !ok {
		got = [][4]int32{{0, 0, 1, 0}} // an impossible span: reported as a failure by both checkers
	}
	run.Add("roi-get", fmt.Sprintf("(KRoiGet %s %s)", cspl(c.Spans), cspl(got)), c, "roiget/"+runsKey(c.Spans))
}

func doPtq(c jcase) {
	base, got, ok := newROI(c.Size, c.Spans)
	cls := "ok"
	var ans []bool
	if !ok {
		cls = "err"
	} else {
		body, _ := json.Marshal(c.Pts)
		r := dv.Post(base+"/ptquery", body)
		switch {
		case r.Class() == "panic":
			cls = "panic"
		case r.Status != 200 || json.Unmarshal(r.Body, &ans) != nil:
			cls = "err"
		}
	}
	run.Add("ptquery", fmt.Sprintf("(KPtq %s %s %s %s)", cpt(c.Size), cspl(got), cpts(c.Pts), lib.CoqRes(cls, cbits(ans))), c,
		fmt.Sprintf("ptq/%v/%s/%d", c.Size, runsKey(c.Spans), len(c.Pts)))
}

func doMask(c jcase) {
	base, got, ok := newROI(c.Size, c.Spans)
	cls := "ok"
	var ans []bool
	if !ok {
		cls = "err"
	} else {
		r := dv.Get(fmt.Sprintf("%s/mask/0_1_2/%d_%d_%d/%d_%d_%d", base, c.Q[0], c.Q[1], c.Q[2], c.Off[0], c.Off[1], c.Off[2]))
		switch {
		case r.Class() == "panic":
			cls = "panic"
		case r.Status != 200 || len(r.Body) != int(c.Q[0])*int(c.Q[1])*int(c.Q[2]):
			cls = "err"
		default:
			ans = make([]bool, len(r.Body))
			for i, b := range r.Body {
				ans[i] = b != 0
			}
		}
	}
	neg := "nonneg"
	if c.Off[0] < 0 || c.Off[1] < 0 || c.Off[2] < 0 {
		neg = "negative-offset"
	}
	run.Count("mask:" + neg)
	run.Add("mask", fmt.Sprintf("(KMask %s %s %s %s %s)", cpt(c.Size), cpt(c.Off), cpt(c.Q), cspl(got), lib.CoqRes(cls, cbits(ans))), c,
		fmt.Sprintf("mask/%v/%v/%v/%s", c.Size, c.Off, c.Q, runsKey(c.Spans)))
}

// doRoiVer plays a version history of one ROI instance and then, at EVERY version, compares the
// point query and the mask with the spans GET roi returns at that same version, and those spans
// with what the history says the version holds.
func doRoiVer(c jcase) {
	roiOpen()
	roiN++
	root, err := dv.NewRepo(fmt.Sprintf("c18v%d", roiN))
	if err != nil {
		fmt.Fprintln(os.Stderr, err)
		os.Exit(2)
	}
	bs := c.Size
	if err := dv.NewInstance(root, "roi", "r", map[string]string{"BlockSize": fmt.Sprintf("%d,%d,%d", bs[0], bs[1], bs[2])}); err != nil {
		fmt.Fprintln(os.Stderr, err)
		os.Exit(2)
	}
	type node struct {
		uuid      string
		parent    int
		committed bool
		own       bool // wrote the ROI itself (post or delete)
		spans     [][4]int32
	}
	nodes := []*node{{uuid: root, parent: -1}}
	commit := func(i int) {
		if !nodes[i].committed {
			dv.Commit(nodes[i].uuid)
			nodes[i].committed = true
		}
	}
	var zs []int32 // every Z layer any version used
	for _, st := range c.Steps {
		switch st.Op {
		case "post":
			body, _ := json.Marshal(st.Spans)
			if len(st.Spans) == 0 {
				body = []byte("[]")
			}
			if r := dv.Post("/api/node/"+nodes[st.Node].uuid+"/r/roi", body); r.Status != 200 {
				fmt.Fprintln(os.Stderr, "post roi refused", r.Status, string(r.Body))
				os.Exit(2)
			}
			nodes[st.Node].own, nodes[st.Node].spans = true, st.Spans
			for _, sp := range st.Spans {
				zs = append(zs, sp[0])
			}
		case "delete":
			if r := dv.Delete("/api/node/" + nodes[st.Node].uuid + "/r/roi"); r.Status != 200 {
				fmt.Fprintln(os.Stderr, "delete roi refused", r.Status, string(r.Body))
				os.Exit(2)
			}
			nodes[st.Node].own, nodes[st.Node].spans = true, nil
		case "child", "branch":
			commit(st.Parent)
			var u string
			var r dv.Resp
			if st.Op == "child" {
				u, r = dv.NewVersion(nodes[st.Parent].uuid)
			} else {
				u, r = dv.Branch(nodes[st.Parent].uuid, fmt.Sprintf("b%d", len(nodes)))
			}
			if u == "" {
				fmt.Fprintln(os.Stderr, "cannot create version", r.Status, string(r.Body))
				os.Exit(2)
			}
			nodes = append(nodes, &node{uuid: u, parent: st.Parent})
		}
	}
	// what each version holds: its own last write, else what its parent holds
	var held func(i int) [][4]int32
	held = func(i int) [][4]int32 {
		if nodes[i].own || nodes[i].parent < 0 {
			return nodes[i].spans
		}
		return held(nodes[i].parent)
	}
	obs := 0
	emit := func(kind, term, key string) {
		obs++
		if c.Obs != 0 && c.Obs != obs {
			return
		}
		cc := c
		cc.Obs = obs
		run.Add(kind, term, cc, key)
	}
	rng := lib.NewRand(uint64(len(c.Steps))*7919 + uint64(bs[0]))
	for i, n := range nodes {
		base := "/api/node/" + n.uuid + "/r"
		r := dv.Get(base + "/roi")
		var got [][4]int32
		if r.Status != 200 || json.Unmarshal(r.Body, &got) != nil {
			got = [][4]int32{{0, 0, 1, 0}}
		}
		run.Count(fmt.Sprintf("roiver:spans-at-version:%d", bucket(len(got))))
		emit("roiver-get", fmt.Sprintf("(KRoiGet %s %s)", cspl(held(i)), cspl(got)), fmt.Sprintf("rvget/%d/%s/%d", i, runsKey(got), len(c.Steps)))
		// points inside, on span ends and just outside this version's spans, in the Z layers of the
		// other versions, and fixed negative / origin points
		var pts [][3]int32
		for _, sp := range got {
			for _, bx := range []int32{sp[2] - 1, sp[2], sp[3], sp[3] + 1} {
				pts = append(pts, [3]int32{bx*bs[0] + int32(rng.Intn(int(bs[0]))), sp[1]*bs[1] + int32(rng.Intn(int(bs[1]))), sp[0]*bs[2] + int32(rng.Intn(int(bs[2])))})
			}
			pts = append(pts, [3]int32{sp[2] * bs[0], sp[1]*bs[1] - 1, sp[0] * bs[2]}, [3]int32{sp[2] * bs[0], sp[1] * bs[1], sp[0]*bs[2] - 1})
		}
		for _, zz := range zs {
			pts = append(pts, [3]int32{int32(rng.Intn(3*int(bs[0]))) - bs[0], int32(rng.Intn(2 * int(bs[1]))), zz*bs[2] + int32(rng.Intn(int(bs[2])))})
		}
		pts = append(pts, [3]int32{-1, -1, -1}, [3]int32{0, 0, 0})
		if len(pts) > 60 {
			pts = pts[:60]
		}
		cls := "ok"
		var ans []bool
		body, _ := json.Marshal(pts)
		pr := dv.Post(base+"/ptquery", body)
		switch {
		case pr.Class() == "panic":
			cls = "panic"
		case pr.Status != 200 || json.Unmarshal(pr.Body, &ans) != nil:
			cls = "err"
		}
		emit("roiver-ptquery", fmt.Sprintf("(KPtq %s %s %s %s)", cpt(bs), cspl(got), cpts(pts), lib.CoqRes(cls, cbits(ans))),
			fmt.Sprintf("rvptq/%d/%s/%d/%d", i, runsKey(got), len(pts), len(c.Steps)))
		// a mask box around one of this version's spans, or (no spans) around another version's layer
		var at [4]int32
		switch {
		case len(got) > 0:
			at = got[rng.Intn(len(got))]
		case len(zs) > 0:
			at = [4]int32{zs[rng.Intn(len(zs))], 0, 0, 0}
		}
		size := []int32{int32(1 + rng.Intn(10)), int32(1 + rng.Intn(6)), int32(1 + rng.Intn(5))}
		off := []int32{at[2]*bs[0] - int32(rng.Intn(4)), at[1]*bs[1] - int32(rng.Intn(3)), at[0]*bs[2] - int32(rng.Intn(3))}
		mcls := "ok"
		var mask []bool
		mr := dv.Get(fmt.Sprintf("%s/mask/0_1_2/%d_%d_%d/%d_%d_%d", base, size[0], size[1], size[2], off[0], off[1], off[2]))
		switch {
		case mr.Class() == "panic":
			mcls = "panic"
		case mr.Status != 200 || len(mr.Body) != int(size[0])*int(size[1])*int(size[2]):
			mcls = "err"
		default:
			mask = make([]bool, len(mr.Body))
			for k, b := range mr.Body {
				mask[k] = b != 0
			}
		}
		emit("roiver-mask", fmt.Sprintf("(KMask %s %s %s %s %s)", cpt(bs), cpt(off), cpt(size), cspl(got), lib.CoqRes(mcls, cbits(mask))),
			fmt.Sprintf("rvmask/%d/%s/%v/%v", i, runsKey(got), off, size))
	}
	run.Count(fmt.Sprintf("roiver:versions:%d", len(nodes)))
}

// genRoiVer: a small version DAG (root, children, sibling branches) whose versions write ROIs in
// disjoint, overlapping or no Z layers, delete them or inherit them, in varying order.
func genRoiVer(rng *lib.Rand) jcase {
	bs := []int32{int32(rng.Pick(4, 8)), int32(rng.Pick(4, 2)), int32(rng.Pick(4, 3))}
	spansAt := func(z0 int32) [][4]int32 {
		var out [][4]int32
		n := 1 + rng.Intn(4)
		for i := 0; i < n; i++ {
			x0 := int32(rng.Intn(7)) - 4
			out = append(out, [4]int32{z0 + int32(rng.Intn(2)), int32(rng.Intn(3)) - 1, x0, x0 + int32(rng.Pick(0, 1, 3))})
		}
		return out
	}
	layers := []int32{0, 6, -5, 12, -11, 3}
	for i := len(layers) - 1; i > 0; i-- {
		j := rng.Intn(i + 1)
		layers[i], layers[j] = layers[j], layers[i]
	}
	write := func(node, k int) vstep {
		switch rng.Intn(6) {
		case 0:
			return vstep{Op: "delete", Node: node}
		case 1:
			return vstep{Op: "post", Node: node, Spans: [][4]int32{}}
		case 2: // overlaps the first layer used
			return vstep{Op: "post", Node: node, Spans: spansAt(layers[0])}
		default:
			return vstep{Op: "post", Node: node, Spans: spansAt(layers[k%len(layers)])}
		}
	}
	c := jcase{Kind: "roiver", Size: bs}
	c.Steps = append(c.Steps, vstep{Op: "post", Node: 0, Spans: spansAt(layers[0])})
	if rng.Chance(0.3) { // the root re-posts before it is committed
		c.Steps = append(c.Steps, vstep{Op: "post", Node: 0, Spans: spansAt(layers[1])})
	}
	// children and branches of the root and of each other, all left open, then written in random order
	nn := 1
	var open []int
	hasChild := map[int]bool{}
	for k := 0; k < 2+rng.Intn(3); k++ {
		parent := 0
		if len(open) > 0 && rng.Chance(0.4) {
			parent = open[rng.Intn(len(open))]
			// a parent must be written (or not) before it is committed
			if rng.Chance(0.7) {
				c.Steps = append(c.Steps, write(parent, parent+1))
			}
			for i, o := range open {
				if o == parent {
					open = append(open[:i], open[i+1:]...)
					break
				}
			}
		}
		// only one child can continue the parent's own branch
		op := "branch"
		if !hasChild[parent] && rng.Chance(0.5) {
			op = "child"
			hasChild[parent] = true
		}
		c.Steps = append(c.Steps, vstep{Op: op, Parent: parent})
		open = append(open, nn)
		nn++
	}
	for i := len(open) - 1; i > 0; i-- {
		j := rng.Intn(i + 1)
		open[i], open[j] = open[j], open[i]
	}
	for k, o := range open {
		if rng.Chance(0.8) {
			c.Steps = append(c.Steps, write(o, k+2))
		}
	}
	return c
}

// localConst reads a function-local constant of the Go source from the file harness/cmd/gen wrote
// (coq/Gen/LocalConsts.v): the boundary cases are built around the CURRENT value.
func localConst(name string) int {
	var txt []byte
	var err error
	for _, f := range []string{"../coq/Gen/LocalConsts.v", "coq/Gen/LocalConsts.v"} {
		if txt, err = os.ReadFile(f); err == nil {
			break
		}
	}
	if err != nil {
		if exe, e2 := os.Executable(); e2 == nil {
			txt, err = os.ReadFile(filepath.Join(filepath.Dir(exe), "..", "..", "coq", "Gen", "LocalConsts.v"))
		}
	}
	if err != nil {
		fmt.Fprintln(os.Stderr, "cannot read coq/Gen/LocalConsts.v (generated by harness/cmd/gen):", err)
		os.Exit(2)
	}
	m := regexp.MustCompile(`Definition z_` + name + ` : Z := \(?(-?[0-9]+)\)?%Z\.`).FindSubmatch(txt)
	if m == nil {
		fmt.Fprintln(os.Stderr, "constant", name, "is not in coq/Gen/LocalConsts.v")
		os.Exit(2)
	}
	v, _ := strconv.Atoi(string(m[1]))
	return v
}

// nth span of the boundary ROI: 100 single-block spans per row, rows stacked in y then z, with
// negative rows too; distinct keys in key order
func boundarySpan(i int) [4]int32 {
	row := i / 100
	return [4]int32{int32(row/200) - 1, int32(row%200) - 100, int32(i%100)*2 - 100, int32(i%100)*2 - 100}
}

var batchBase string

// doRoiBatch posts c.Code spans (a count next to PutSpans' batch size) to ONE roi instance (each
// POST replaces the ROI) and reports how many come back, the first that is missing and whether
// the first and the last span answer point queries.
func doRoiBatch(c jcase) {
	n := int(c.Code)
	bound := localConst("roi_PutSpans_BATCH_SIZE")
	if batchBase == "" {
		roiOpen()
		roiN++
		name := fmt.Sprintf("roibatch%d", roiN)
		if err := dv.NewInstance(roiUUID, "roi", name, map[string]string{"BlockSize": "4,4,4"}); err != nil {
			fmt.Fprintln(os.Stderr, err)
			os.Exit(2)
		}
		batchBase = "/api/node/" + roiUUID + "/" + name
	}
	spans := make([][4]int32, n)
	for i := range spans {
		spans[i] = boundarySpan(i)
	}
	body, _ := json.Marshal(spans)
	got := -1
	first := "None"
	probes := false
	if r := dv.Post(batchBase+"/roi", body); r.Status == 200 {
		var back [][4]int32
		if g := dv.Get(batchBase + "/roi"); g.Status == 200 && json.Unmarshal(g.Body, &back) == nil {
			got = len(back)
			have := make(map[[4]int32]bool, len(back))
			for _, sp := range back {
				have[sp] = true
			}
			for i, sp := range spans {
				if !have[sp] {
					first = fmt.Sprintf("(Some %d)", i)
					break
				}
			}
			// a voxel of the first span, of the last span, and of the last span of the first batch
			var pts [][3]int32
			for _, i := range []int{0, n - 1, (bound - 1) % n, bound % n} {
				sp := spans[i]
				pts = append(pts, [3]int32{sp[2]*4 + 1, sp[1]*4 + 2, sp[0]*4 + 3})
			}
			pb, _ := json.Marshal(pts)
			var ans []bool
			if q := dv.Post(batchBase+"/ptquery", pb); q.Status == 200 && json.Unmarshal(q.Body, &ans) == nil && len(ans) == len(pts) {
				probes = true
				for _, a := range ans {
					probes = probes && a
				}
			}
		}
	}
	run.Count(fmt.Sprintf("boundary:roi-spans:%+d", n-bound*(n/bound)))
	run.Add("roi-batch", fmt.Sprintf("(KBoundary 1%%nat %d %d %s %s %s)", n, bound, z(int64(got)), first, lib.CoqBool(probes)), c,
		fmt.Sprintf("roibatch/%d/%d", n, bound))
}

// doReadBoundary streams c.Code runs (a count next to UnmarshalBinaryReader's preallocation cap)
// through ReadRLEs and compares them with what was written.
func doReadBoundary(c jcase) {
	n := int(c.Code)
	bound := localConst("dvid_ReadRLEs_maxPrealloc")
	rles := make(dvid.RLEs, n)
	for i := range rles {
		rles[i] = dvid.NewRLE(dvid.Point3d{int32(i%1000)*3 - 1500, int32(i/1000) - 30, -7}, int32(1+i%2))
	}
	enc, _ := rles.MarshalBinary()
	s := append([]byte{dvid.EncodingBinary, 3, 0, 0, 0, 0, 0, 0}, binary.LittleEndian.AppendUint32(nil, uint32(n))...)
	s = append(s, enc...)
	got := -1
	first := "None"
	ok := false
	panicked, _ := lib.Recover(func() {
		back, err := dvid.ReadRLEs(bytes.NewReader(s))
		if err != nil {
			return
		}
		got = len(back)
		ok = true
		for i := range rles {
			if i >= len(back) || back[i] != rles[i] {
				first = fmt.Sprintf("(Some %d)", i)
				break
			}
		}
	})
	if panicked {
		ok = false
	}
	run.Count(fmt.Sprintf("boundary:readrles:%+d", n-bound*(n/bound)))
	run.Add("read-boundary", fmt.Sprintf("(KBoundary 2%%nat %d %d %s %s %s)", n, bound, z(int64(got)), first, lib.CoqBool(ok)), c,
		fmt.Sprintf("readboundary/%d/%d", n, bound))
}

func doVbi(c jcase) {
	spans := make([]dvid.Span, len(c.Spans))
	for i, s := range c.Spans {
		spans[i] = dvid.Span{s[0], s[1], s[2], s[3]}
	}
	cls := "ok"
	var ans bool
	panicked, _ := lib.Recover(func() {
		var err error
		ans, err = roi.VoxelBoundsInside(dvid.Extents3d{MinPoint: dvid.Point3d{c.P[0], c.P[1], c.P[2]}, MaxPoint: dvid.Point3d{c.Q[0], c.Q[1], c.Q[2]}},
			dvid.Point3d{c.Size[0], c.Size[1], c.Size[2]}, spans)
		if err != nil {
			cls = "err"
		}
	})
	if panicked {
		cls = "panic"
	}
	run.Add("boundsinside", fmt.Sprintf("(KVbi %s %s %s %s %s)", cpt(c.P), cpt(c.Q), cpt(c.Size), cspl(c.Spans), lib.CoqRes(cls, lib.CoqBool(ans))), c,
		fmt.Sprintf("vbi/%v/%v/%v/%s", c.P, c.Q, c.Size, runsKey(c.Spans)))
}

// ---- round 4: RLEs.Within / Offset / Stats, IZYXSlice operations ----
func ptsKey(ps [][3]int32) string {
	var sb strings.Builder
	for _, p := range ps {
		fmt.Fprintf(&sb, "%d,%d,%d;", p[0], p[1], p[2])
	}
	return sb.String()
}

func doWithin(c jcase) {
	pts := make([]dvid.Point3d, len(c.Pts))
	for i, p := range c.Pts {
		pts[i] = dvid.Point3d{p[0], p[1], p[2]}
	}
	in := toRLEs(c.Runs).Within(pts)
	sort.Ints(in)
	ss := make([]string, len(in))
	for i, k := range in {
		ss[i] = z(int64(k))
	}
	if len(in) == 0 {
		run.Count("within:none")
	} else if len(in) == len(pts) {
		run.Count("within:all")
	} else {
		run.Count("within:some")
	}
	run.Add("within", fmt.Sprintf("(KWithin %s %s [%s])", crl(c.Runs), cpts(c.Pts), strings.Join(ss, ";")), c,
		"within/"+runsKey(c.Runs)+ptsKey(c.Pts))
}

func doOffset(c jcase) {
	out := toRLEs(c.Runs).Offset(dvid.Point3d{c.P[0], c.P[1], c.P[2]})
	run.Add("offset", fmt.Sprintf("(KOffset %s %s %s)", crl(c.Runs), cpt(c.P), crl(fromRLEs(out))), c,
		fmt.Sprintf("offset/%v/", c.P)+runsKey(c.Runs))
}

func doStats(c jcase) {
	nv, nr := toRLEs(c.Runs).Stats()
	run.Add("stats", fmt.Sprintf("(KStats %s %s %s)", crl(c.Runs), fmt.Sprintf("%d", nv), z(int64(nr))), c,
		"stats/"+runsKey(c.Runs))
}

func toIZYX(ps [][3]int32) dvid.IZYXSlice {
	out := make(dvid.IZYXSlice, len(ps))
	for i, p := range ps {
		out[i] = dvid.ChunkPoint3d{p[0], p[1], p[2]}.ToIZYXString()
	}
	return out
}
func fromIZYX(s dvid.IZYXSlice) [][3]int32 {
	out := make([][3]int32, len(s))
	for i, k := range s {
		p, err := k.ToChunkPoint3d()
		if err != nil {
			fmt.Fprintln(os.Stderr, "bad key returned by an IZYXSlice operation:", err)
			os.Exit(2)
		}
		out[i] = [3]int32{p[0], p[1], p[2]}
	}
	return out
}

var izyxOps = map[string]int{"izyx-merge": 0, "izyx-mergecopy": 1, "izyx-delete": 2, "izyx-split": 3}

func doIzyx(c jcase) {
	a, b := toIZYX(c.Pts), toIZYX(c.Pts2)
	var out dvid.IZYXSlice
	switch c.Kind {
	case "izyx-merge":
		// spare capacity so that the append path of Merge writes into the receiver's array
		recv := make(dvid.IZYXSlice, len(a), len(a)+2)
		copy(recv, a)
		recv.Merge(b)
		out = recv
	case "izyx-mergecopy":
		out = a.MergeCopy(b)
	case "izyx-delete":
		recv := make(dvid.IZYXSlice, len(a))
		copy(recv, a)
		recv.Delete(b)
		out = recv
	case "izyx-split":
		var err error
		out, err = a.Split(b)
		if err != nil {
			fmt.Fprintln(os.Stderr, "IZYXSlice.Split error:", err)
			os.Exit(2)
		}
	}
	// the argument must not have been modified
	if !reflect.DeepEqual(fromIZYX(b), append([][3]int32{}, c.Pts2...)) && len(b) > 0 {
		fmt.Fprintln(os.Stderr, "IZYXSlice operation modified its argument")
		os.Exit(2)
	}
	run.Count(fmt.Sprintf("%s:out=%d", c.Kind, bucket(len(out))))
	run.Add(c.Kind, fmt.Sprintf("(KIzyx %d %s %s %s)", izyxOps[c.Kind], cptsE(c.Pts), cptsE(c.Pts2), cptsE(fromIZYX(out))), c,
		c.Kind+"/"+ptsKey(c.Pts)+"/"+ptsKey(c.Pts2))
}

func cptsE(ps [][3]int32) string { return cpts(ps) }

func optBounds(c jcase) (*dvid.OptionalBounds, string) {
	if c.Bounds == nil {
		return nil, "None"
	}
	ob := new(dvid.OptionalBounds)
	set := []func(int32){ob.SetMinX, ob.SetMaxX, ob.SetMinY, ob.SetMaxY, ob.SetMinZ, ob.SetMaxZ}
	for i, p := range c.Bounds {
		if p != nil {
			set[i](*p)
		}
	}
	b := c.Bounds
	return ob, fmt.Sprintf("(Some (OB %s %s %s %s %s %s))", copt(b[0]), copt(b[1]), copt(b[2]), copt(b[3]), copt(b[4]), copt(b[5]))
}

func doIFit(c jcase) {
	ob, bt := optBounds(c)
	out, err := toIZYX(c.Pts).FitToBounds(ob)
	if err != nil {
		fmt.Fprintln(os.Stderr, "IZYXSlice.FitToBounds error:", err)
		os.Exit(2)
	}
	run.Add("izyx-fit", fmt.Sprintf("(KIFit %s %s %s)", cpts(c.Pts), bt, cpts(fromIZYX(out))), c, "ifit/"+bt+ptsKey(c.Pts))
}

func doIDown(c jcase) {
	out, err := toIZYX(c.Pts).Downres(uint8(c.Scale))
	if err != nil {
		fmt.Fprintln(os.Stderr, "IZYXSlice.Downres error:", err)
		os.Exit(2)
	}
	run.Count(fmt.Sprintf("izyx-downres:scale=%d", c.Scale))
	run.Add("izyx-downres", fmt.Sprintf("(KIDown %s %d %s)", cpts(c.Pts), c.Scale, cpts(fromIZYX(out))), c,
		fmt.Sprintf("idown/%d/", c.Scale)+ptsKey(c.Pts))
}

func doIBounds(c jcase) {
	mn, mx, err := toIZYX(c.Pts).GetBounds()
	if err != nil {
		fmt.Fprintln(os.Stderr, "IZYXSlice.GetBounds error:", err)
		os.Exit(2)
	}
	run.Add("izyx-bounds", fmt.Sprintf("(KIBounds %s %s %s)", cpts(c.Pts), cpt3(mn), cpt3(mx)), c, "ibounds/"+ptsKey(c.Pts))
}

// GET <roi>/partition?batchsize=N (roi.SimplePartition) on a fresh instance holding the spans
func doRoiPart(c jcase) {
	base, got, ok := newROI(c.Size, c.Spans)
	if !ok {
		fmt.Fprintln(os.Stderr, "roi-partition: POST/GET roi failed")
		os.Exit(2)
	}
	r := dv.Get(fmt.Sprintf("%s/partition?batchsize=%d", base, c.Scale))
	var rep struct {
		NumActiveBlocks uint64
		NumSubvolumes   int32
		Subvolumes      []struct {
			MinChunk, MaxChunk        [3]int32
			TotalBlocks, ActiveBlocks uint64
		}
	}
	if r.Status != 200 || json.Unmarshal(r.Body, &rep) != nil {
		fmt.Fprintf(os.Stderr, "roi-partition: status %d: %.200s\n", r.Status, r.Body)
		os.Exit(2)
	}
	ss := make([]string, len(rep.Subvolumes))
	for i, v := range rep.Subvolumes {
		ss[i] = fmt.Sprintf("(%s,%s,%d,%d)", cpt(v.MinChunk[:]), cpt(v.MaxChunk[:]), v.TotalBlocks, v.ActiveBlocks)
	}
	svs := "[]"
	if len(ss) > 0 {
		svs = "(svl [" + strings.Join(ss, ";") + "])"
	}
	run.Count(fmt.Sprintf("roi-partition:subvolumes=%d", bucket(len(ss))))
	run.Add("roi-partition", fmt.Sprintf("(KRoiPart %d %s %s %d %d)", c.Scale, cspl(got), svs, rep.NumSubvolumes, rep.NumActiveBlocks), c,
		fmt.Sprintf("roipart/%d/%v/", c.Scale, c.Size)+runsKey(c.Spans))
}

func dispatch(c jcase) {
	switch c.Kind {
	case "roi-partition":
		doRoiPart(c)
	case "within":
		doWithin(c)
	case "offset":
		doOffset(c)
	case "stats":
		doStats(c)
	case "izyx-merge", "izyx-mergecopy", "izyx-delete", "izyx-split":
		doIzyx(c)
	case "izyx-fit":
		doIFit(c)
	case "izyx-downres":
		doIDown(c)
	case "izyx-bounds":
		doIBounds(c)
	case "zyx":
		doZyx(c)
	case "decode":
		doDecode(c)
	case "cmp":
		doCmp(c)
	case "order":
		doOrder(c)
	case "blockindex":
		doBlk(c)
	case "blockcode":
		doBlkCode(c)
	case "chunk":
		doChunk(c)
	case "normalize":
		doNorm(c)
	case "excise":
		doExcise(c)
	case "split":
		doSplit(c)
	case "partition":
		doPart(c)
	case "fit":
		doFit(c)
	case "add":
		doAdd(c)
	case "marshal":
		doMarshal(c)
	case "unmarshal":
		doUnmarshal(c)
	case "readrles":
		doRead(c)
	case "roi-get":
		doRoiGet(c)
	case "ptquery":
		doPtq(c)
	case "mask":
		doMask(c)
	case "boundsinside":
		doVbi(c)
	case "roiver":
		doRoiVer(c)
	case "roi-batch":
		doRoiBatch(c)
	case "read-boundary":
		doReadBoundary(c)
	default:
		fmt.Fprintln(os.Stderr, "unknown case kind", c.Kind)
		os.Exit(2)
	}
}

// ---- generators ----
var edge = []int32{math.MinInt32, math.MinInt32 + 1, -(1 << 20) - 1, -(1 << 20), -(1 << 20) + 1, -257, -256, -255, -2, -1, 0, 1, 2,
	255, 256, 257, (1 << 20) - 1, 1 << 20, (1 << 20) + 1, math.MaxInt32 - 1, math.MaxInt32}

func pickCoord(rng *lib.Rand) int32 {
	switch rng.Intn(4) {
	case 0:
		return int32(rng.U64())
	case 1:
		return int32(rng.Intn(1<<21)) - (1 << 20)
	default:
		return edge[rng.Intn(len(edge))]
	}
}

type interval struct{ y, z, x0, x1 int32 } // x1 exclusive

// genRuns: pairwise-disjoint runs in a few rows; gap 0 makes adjacent runs; shuffled.
func genRuns(rng *lib.Rand, bs int32, maxRuns int) ([][4]int32, []interval) {
	rows := [][2]int32{{0, 0}, {-1, 0}, {0, -1}, {-3, -9}, {7, 2}, {-8, -8}, {5, -1}}
	nrows := 1 + rng.Intn(3)
	var out [][4]int32
	var merged []interval
	for r := 0; r < nrows; r++ {
		row := rows[rng.Intn(len(rows))]
		dup := false
		for _, m := range merged {
			if m.y == row[0] && m.z == row[1] {
				dup = true
			}
		}
		if dup {
			continue
		}
		x := int32(rng.Intn(6*int(bs))) - 4*bs
		if rng.Chance(0.3) {
			x = int32(rng.Pick(-2, -1, 0, 1)) * bs // start on a block edge
		}
		n := 1 + rng.Intn(maxRuns)
		for i := 0; i < n; i++ {
			ln := int32(rng.Pick(1, 1, 2, 3, int(bs)-1, int(bs), int(bs)+1, 2*int(bs), 3*int(bs)+2, 1+rng.Intn(4*int(bs))))
			if ln < 1 {
				ln = 1
			}
			if rng.Chance(0.25) { // end exactly on a block edge
				e := ((x+ln)/bs + 1) * bs
				if e-x >= 1 && e-x < 6*bs {
					ln = e - x
				}
			}
			out = append(out, [4]int32{x, row[0], row[1], ln})
			if len(merged) > 0 && merged[len(merged)-1].y == row[0] && merged[len(merged)-1].z == row[1] && merged[len(merged)-1].x1 == x {
				merged[len(merged)-1].x1 = x + ln
			} else {
				merged = append(merged, interval{row[0], row[1], x, x + ln})
			}
			x += ln + int32(rng.Pick(0, 0, 1, 1, 2, int(bs), 1+rng.Intn(9)))
		}
	}
	for i := len(out) - 1; i > 0; i-- {
		j := rng.Intn(i + 1)
		out[i], out[j] = out[j], out[i]
	}
	return out, merged
}

// genSubset: disjoint runs inside the voxel set (given as maximal intervals), some spanning what
// were adjacent original runs, some touching interval ends, cut into pieces and shuffled.
func genSubset(rng *lib.Rand, merged []interval) [][4]int32 {
	var out [][4]int32
	for _, m := range merged {
		if rng.Chance(0.25) {
			continue
		}
		x := m.x0
		for x < m.x1 {
			switch rng.Intn(4) {
			case 0: // skip some voxels
				x += 1 + int32(rng.Intn(int(m.x1-x)))
				continue
			}
			ln := 1 + int32(rng.Intn(int(m.x1-x)))
			if rng.Chance(0.3) {
				ln = m.x1 - x
			}
			// cut into up to three adjacent pieces
			cuts := rng.Intn(3)
			s := x
			for k := 0; k < cuts && x+ln-s > 1; k++ {
				pl := 1 + int32(rng.Intn(int(x+ln-s-1)))
				out = append(out, [4]int32{s, m.y, m.z, pl})
				s += pl
			}
			out = append(out, [4]int32{s, m.y, m.z, x + ln - s})
			x += ln
			if rng.Chance(0.6) {
				x += 1 + int32(rng.Intn(3))
			}
		}
	}
	for i := len(out) - 1; i > 0; i-- {
		j := rng.Intn(i + 1)
		out[i], out[j] = out[j], out[i]
	}
	return out
}

func genSpans(rng *lib.Rand, n int) [][4]int32 {
	var out [][4]int32
	for i := 0; i < n; i++ {
		zc := int32(rng.Pick(-2, -1, -1, 0, 0, 1, 2))
		yc := int32(rng.Pick(-2, -1, 0, 0, 1, 3))
		x0 := int32(rng.Intn(9)) - 5
		x1 := x0 + int32(rng.Pick(0, 0, 1, 2, 4))
		out = append(out, [4]int32{zc, yc, x0, x1})
	}
	if rng.Chance(0.3) && len(out) > 0 { // a duplicate and an overlapping span
		out = append(out, out[0])
		o := out[rng.Intn(len(out))]
		out = append(out, [4]int32{o[0], o[1], o[2] + 1, o[3] + 2})
	}
	return out
}

// layeredBox builds a span set and a voxel box for the span/box intersection queries: the box
// covers block layers z0 .. z0+layers-1, block rows y0 .. y0+1 and block columns x0 .. x0+1.
// Layer number hit (or none when hit < 0) holds a span that meets the box; every other layer of
// the box, and one layer below and above it, holds spans that miss it, chosen by the bits of decoy:
//
//	1 past the box in y with an x range that reaches the box     2 past the box in x, y inside
//	4 before the box in y                                         8 before the box in x, y inside
//
// The spans come out in the stored order (z, then y, then x0), so an answer that depends on a later
// layer after an earlier layer's spans past the box in y or x is reached deterministically.
// shape picks how the hit span meets the box: 0 inside, 1 touching the low x corner at the high y
// row, 2 touching the high x column at the low y row, 3 covering the whole row.
func layeredBox(bs []int32, org [3]int32, layers, hit, decoy, shape int, in [3]int32) (spans [][4]int32, mn, mx []int32) {
	x0, y0, z0 := org[0], org[1], org[2]
	miss := func(zc int32) {
		if decoy&1 != 0 {
			spans = append(spans, [4]int32{zc, y0 + 2, x0 - 1, x0 + 1}, [4]int32{zc, y0 + 3, x0, x0})
		}
		if decoy&2 != 0 {
			spans = append(spans, [4]int32{zc, y0, x0 + 2, x0 + 4}, [4]int32{zc, y0 + 1, x0 + 3, x0 + 3})
		}
		if decoy&4 != 0 {
			spans = append(spans, [4]int32{zc, y0 - 1, x0, x0 + 1})
		}
		if decoy&8 != 0 {
			spans = append(spans, [4]int32{zc, y0 + 1, x0 - 3, x0 - 1})
		}
	}
	for l := -1; l <= layers; l++ {
		zc := z0 + int32(l)
		if l < 0 || l >= layers {
			// outside the box in z: spans that would meet it in x and y
			spans = append(spans, [4]int32{zc, y0, x0, x0 + 1})
			continue
		}
		miss(zc)
		if l == hit {
			switch shape {
			case 0:
				spans = append(spans, [4]int32{zc, y0, x0 + 1, x0 + 1})
			case 1:
				spans = append(spans, [4]int32{zc, y0 + 1, x0 - 2, x0})
			case 2:
				spans = append(spans, [4]int32{zc, y0, x0 + 1, x0 + 5})
			default:
				spans = append(spans, [4]int32{zc, y0, x0 - 2, x0 + 3})
			}
		}
	}
	sort.SliceStable(spans, func(a, b int) bool { return dvid.Span(spans[a]).Less(dvid.Span(spans[b])) })
	mn = []int32{x0*bs[0] + in[0], y0*bs[1] + in[1], z0*bs[2] + in[2]}
	mx = []int32{(x0+1)*bs[0] + in[0], (y0+1)*bs[1] + in[1], (z0+int32(layers)-1)*bs[2] + in[2]}
	return
}

func hitName(hit, layers int) string {
	switch {
	case hit < 0:
		return "none"
	case hit == 0:
		return "first"
	case hit == layers-1:
		return "last"
	}
	return "middle"
}

func i32p(v int32) *int32 { return &v }

// ---- round 4 generators ----
// sortedPts: n distinct block coordinates from a small universe around org (so that two sets drawn
// from it share elements), sorted by (z, y, x); some coordinates negative.
func sortedPts(rng *lib.Rand, n int, org [3]int32, span int) [][3]int32 {
	seen := map[[3]int32]bool{}
	var out [][3]int32
	for tries := 0; len(out) < n && tries < 10*n+10; tries++ {
		p := [3]int32{org[0] + int32(rng.Intn(span)), org[1] + int32(rng.Intn(2)), org[2] + int32(rng.Intn(2))}
		if rng.Chance(0.1) {
			p[rng.Intn(3)] = int32(rng.Pick(math.MinInt32+2, -(1 << 20), -257, 256, 1<<20, math.MaxInt32))
		}
		if !seen[p] {
			seen[p] = true
			out = append(out, p)
		}
	}
	sortPts(out)
	return out
}
func sortPts(ps [][3]int32) {
	sort.Slice(ps, func(i, j int) bool {
		a, b := ps[i], ps[j]
		if a[2] != b[2] {
			return a[2] < b[2]
		}
		if a[1] != b[1] {
			return a[1] < b[1]
		}
		return a[0] < b[0]
	})
}

// genPartSpans: pairwise disjoint spans in a few rows of a few block layers; the layers are [gap]
// apart (gap <= batchsize: no layer of the partition is empty).
func genPartSpans(rng *lib.Rand, nz int, gap func() int32) [][4]int32 {
	var out [][4]int32
	z := int32(rng.Pick(-7, -1, 0, 3))
	for k := 0; k < nz; k++ {
		y0 := int32(rng.Pick(-3, 0, 2))
		for r := 1 + rng.Intn(3); r > 0; r-- {
			y := y0 + int32(rng.Intn(6))
			dup := false
			for _, s := range out {
				if s[0] == z && s[1] == y {
					dup = true
				}
			}
			if dup {
				continue
			}
			x := int32(rng.Intn(9)) - 5
			for n := 1 + rng.Intn(2); n > 0; n-- {
				ln := int32(rng.Intn(6))
				out = append(out, [4]int32{z, y, x, x + ln})
				x += ln + 2 + int32(rng.Intn(4))
			}
		}
		z += gap()
	}
	return out
}

func roiPartCases(rng *lib.Rand, mul int) {
	bs := []int32{8, 8, 8}
	// corpus: one block; one layer; two adjacent layers; a layer boundary inside the ROI
	dispatch(jcase{Kind: "roi-partition", Size: bs, Scale: 1, Spans: [][4]int32{{0, 0, 0, 0}}})
	dispatch(jcase{Kind: "roi-partition", Size: bs, Scale: 4, Spans: [][4]int32{{0, 0, 0, 1}}})
	dispatch(jcase{Kind: "roi-partition", Size: bs, Scale: 2, Spans: [][4]int32{{-1, -1, -3, 3}, {0, 0, 0, 1}, {1, 5, 3, 9}, {2, 0, -1, -1}}})
	dispatch(jcase{Kind: "roi-partition", Size: bs, Scale: 3, Spans: [][4]int32{{0, 0, 0, 6}, {0, 1, 2, 2}, {0, 1, 5, 9}, {3, 7, -4, 0}, {4, 0, 0, 0}}})
	// a layer without any block between two occupied ones (recorded finding C18-roi-partition-empty-layer)
	dispatch(jcase{Kind: "roi-partition", Size: bs, Scale: 4, Spans: [][4]int32{{0, 0, 0, 1}, {100, 0, 0, 1}}})
	dispatch(jcase{Kind: "roi-partition", Size: bs, Scale: 2, Spans: [][4]int32{{0, 0, 0, 1}, {1, 5, 3, 9}, {5, 0, 0, 1}}})
	for i := 0; i < 6*mul; i++ {
		n := int32(rng.Pick(1, 2, 2, 3, 4))
		dense := func() int32 { return 1 + int32(rng.Intn(int(n))) }
		sp := genPartSpans(rng, 1+rng.Intn(4), dense)
		dispatch(jcase{Kind: "roi-partition", Size: []int32{int32(rng.Pick(4, 8)), 8, int32(rng.Pick(8, 2))}, Scale: int(n), Spans: sp})
		if i%3 == 0 {
			sparse := func() int32 { return 2*n + 1 + int32(rng.Intn(5)) }
			dispatch(jcase{Kind: "roi-partition", Size: bs, Scale: int(n), Spans: genPartSpans(rng, 2+rng.Intn(2), sparse)})
		}
	}
}

func round4(rng *lib.Rand, mul int) {
	// corpus
	dispatch(jcase{Kind: "within", Runs: [][4]int32{{-2, 0, -1, 4}}, Pts: [][3]int32{{-3, 0, -1}, {-2, 0, -1}, {1, 0, -1}, {2, 0, -1}, {0, 1, -1}, {0, 0, 0}, {-2, 0, -1}}})
	dispatch(jcase{Kind: "within", Runs: nil, Pts: [][3]int32{{0, 0, 0}}})
	dispatch(jcase{Kind: "within", Runs: [][4]int32{{0, 0, 0, 3}}, Pts: nil})
	dispatch(jcase{Kind: "within", Runs: [][4]int32{{math.MaxInt32 - 2, 0, 0, 5}}, Pts: [][3]int32{{math.MaxInt32, 0, 0}, {math.MaxInt32 - 2, 0, 0}, {math.MinInt32, 0, 0}}}) // start+length wraps
	dispatch(jcase{Kind: "offset", Runs: [][4]int32{{-2, 0, -1, 4}, {5, 7, 9, 1}}, P: []int32{3, -4, 5}})
	dispatch(jcase{Kind: "offset", Runs: nil, P: []int32{1, 1, 1}})
	dispatch(jcase{Kind: "offset", Runs: [][4]int32{{math.MinInt32, math.MaxInt32, 0, 2}}, P: []int32{1, -1, math.MinInt32}}) // wraps
	dispatch(jcase{Kind: "offset", Runs: [][4]int32{{-(1 << 29), -(1 << 30), (1 << 30) - 1, 1 << 30}}, P: []int32{(1 << 30) - 1, (1 << 30) - 1, -(1 << 30)}})
	dispatch(jcase{Kind: "stats", Runs: nil})
	dispatch(jcase{Kind: "stats", Runs: [][4]int32{{0, 0, 0, 4}, {5, 0, 0, 4}, {-9, -1, -1, 1}}})
	dispatch(jcase{Kind: "stats", Runs: [][4]int32{{0, 0, 0, 4}, {2, 0, 0, 4}}})                         // overlap: counted twice, no claim
	dispatch(jcase{Kind: "stats", Runs: [][4]int32{{0, 0, 0, math.MaxInt32}, {0, 1, 0, math.MaxInt32}}}) // sum above 2^31
	dispatch(jcase{Kind: "stats", Runs: [][4]int32{{0, 0, 0, -1}, {0, 1, 0, 3}}})                        // a negative length sign-extends to uint64
	for _, k := range []string{"izyx-merge", "izyx-mergecopy", "izyx-delete", "izyx-split"} {
		a := [][3]int32{{-1, 0, -1}, {0, 0, 0}, {1, 0, 0}, {0, 1, 0}, {-5, -5, 1}}
		dispatch(jcase{Kind: k, Pts: nil, Pts2: nil})
		dispatch(jcase{Kind: k, Pts: a, Pts2: nil})
		dispatch(jcase{Kind: k, Pts: nil, Pts2: a})
		dispatch(jcase{Kind: k, Pts: a, Pts2: a})
		dispatch(jcase{Kind: k, Pts: a[:2], Pts2: a[2:]})                                         // argument entirely above the receiver
		dispatch(jcase{Kind: k, Pts: a[2:], Pts2: a[:2]})                                         // entirely below
		dispatch(jcase{Kind: k, Pts: a[:3], Pts2: a[2:]})                                         // last of one = first of the other
		dispatch(jcase{Kind: k, Pts: a[2:], Pts2: a[:3]})                                         //
		dispatch(jcase{Kind: k, Pts: [][3]int32{a[0], a[2], a[4]}, Pts2: [][3]int32{a[1], a[3]}}) // interleaved
		dispatch(jcase{Kind: k, Pts: [][3]int32{a[1], a[3]}, Pts2: [][3]int32{a[0], a[2], a[4]}}) //
		dispatch(jcase{Kind: k, Pts: a, Pts2: [][3]int32{a[4]}})                                  // only the last
		dispatch(jcase{Kind: k, Pts: a, Pts2: [][3]int32{a[0]}})                                  // only the first
		dispatch(jcase{Kind: k, Pts: [][3]int32{a[2]}, Pts2: a})                                  //
		dispatch(jcase{Kind: k, Pts: [][3]int32{a[3], a[0], a[3]}, Pts2: [][3]int32{a[3], a[1]}}) // unsorted with a repeat: model only
		dispatch(jcase{Kind: k, Pts: [][3]int32{{math.MinInt32, 0, 0}, {-1, 0, 0}, {0, 0, 0}, {math.MaxInt32, 0, 0}}, Pts2: [][3]int32{{-1, 0, 0}, {math.MaxInt32, 0, 0}, {0, 0, math.MaxInt32}}})
	}
	dispatch(jcase{Kind: "izyx-bounds", Pts: nil})
	dispatch(jcase{Kind: "izyx-bounds", Pts: [][3]int32{{3, -4, 5}}})
	dispatch(jcase{Kind: "izyx-bounds", Pts: [][3]int32{{math.MaxInt32, math.MaxInt32, math.MaxInt32}}})
	dispatch(jcase{Kind: "izyx-bounds", Pts: [][3]int32{{-2147483646, 0, 0}, {-2147483646, -2147483646, -2147483646}}}) // the lowest coordinate the initial maximum allows
	dispatch(jcase{Kind: "izyx-bounds", Pts: [][3]int32{{-2147483647, 0, 0}}})                                          // below it: model only (see notes, C18-4)
	dispatch(jcase{Kind: "izyx-bounds", Pts: [][3]int32{{math.MinInt32, math.MinInt32, 7}, {math.MinInt32, 0, 7}}})
	for _, sc := range []int{0, 1, 2, 5, 30, 31, 32, 33, 64, 255} {
		dispatch(jcase{Kind: "izyx-downres", Scale: sc, Pts: [][3]int32{{-1, 0, 1}, {-2, 1, 2}, {-3, 3, 3}, {-4, 2, 0}, {4, -4, 5}, {math.MinInt32, math.MaxInt32, -1}, {-1, 0, 1}}})
	}
	dispatch(jcase{Kind: "izyx-downres", Scale: 1, Pts: nil})
	dispatch(jcase{Kind: "izyx-fit", Pts: [][3]int32{{0, 0, 0}, {1, 0, 0}, {0, 1, 0}, {0, 0, 1}, {5, 5, 1}, {0, 0, 2}}})
	dispatch(jcase{Kind: "izyx-fit", Pts: [][3]int32{{0, 0, 0}, {1, 0, 0}, {0, 1, 0}, {0, 0, 1}, {5, 5, 1}, {0, 0, 2}}, Bounds: []*int32{nil, nil, nil, nil, i32p(1), i32p(1)}})
	dispatch(jcase{Kind: "izyx-fit", Pts: [][3]int32{{0, 0, 2}, {0, 0, 0}, {0, 0, 1}}, Bounds: []*int32{nil, nil, nil, nil, nil, i32p(1)}}) // unsorted: the loop stops at the first z above maxz (model only)

	{ // every single bound at 0 and at 1 on the sorted 2x2x2 cube: a `continue` that leaves the loop loses later layers
		var cube [][3]int32
		for zc := int32(0); zc < 2; zc++ {
			for yc := int32(0); yc < 2; yc++ {
				for xc := int32(0); xc < 2; xc++ {
					cube = append(cube, [3]int32{xc - 1, yc, zc + 5})
				}
			}
		}
		for k := 0; k < 6; k++ {
			for v := int32(0); v < 2; v++ {
				bd := make([]*int32, 6)
				bd[k] = i32p(v + []int32{-1, 0, 5}[k/2])
				dispatch(jcase{Kind: "izyx-fit", Pts: cube, Bounds: bd})
			}
		}
	}
	// random
	for i := 0; i < 12*mul; i++ {
		bs := int32(rng.Pick(8, 1, 3, 32, 5))
		runs, merged := genRuns(rng, bs, 4)
		var pts [][3]int32
		for _, m := range merged {
			for _, x := range []int32{m.x0 - 1, m.x0, m.x1 - 1, m.x1} {
				if rng.Chance(0.6) {
					pts = append(pts, [3]int32{x, m.y, m.z})
				}
			}
			if rng.Chance(0.5) {
				pts = append(pts, [3]int32{m.x0, m.y + int32(rng.Pick(-1, 1)), m.z}, [3]int32{m.x0, m.y, m.z + int32(rng.Pick(-1, 1))})
			}
		}
		for k := rng.Intn(4); k > 0; k-- {
			pts = append(pts, [3]int32{int32(rng.Intn(41)) - 20, int32(rng.Intn(5)) - 2, int32(rng.Intn(5)) - 2})
		}
		if len(pts) > 1 && rng.Chance(0.5) { // the same point twice: two indices
			pts = append(pts, pts[rng.Intn(len(pts))])
		}
		for k := len(pts) - 1; k > 0; k-- {
			j := rng.Intn(k + 1)
			pts[k], pts[j] = pts[j], pts[k]
		}
		dispatch(jcase{Kind: "within", Runs: runs, Pts: pts})
		if i%4 == 0 { // overlapping runs
			other, _ := genRuns(rng, bs, 2)
			dispatch(jcase{Kind: "within", Runs: append(append([][4]int32{}, runs...), other...), Pts: pts})
		}
		d := []int32{int32(rng.Intn(65)) - 32, int32(rng.Intn(17)) - 8, int32(rng.Intn(17)) - 8}
		switch rng.Intn(5) {
		case 0:
			d = []int32{0, 0, 0}
		case 1:
			d = []int32{-(1 << 30), (1 << 30) - 1, int32(rng.Pick(-(1 << 30), (1<<30)-1))}
		case 2:
			d[rng.Intn(3)] = pickCoord(rng) // may wrap: model only
		}
		dispatch(jcase{Kind: "offset", Runs: runs, P: d})
		dispatch(jcase{Kind: "stats", Runs: runs})
	}
	for i := 0; i < 14*mul; i++ {
		org := [3]int32{int32(rng.Pick(-3, 0, -1, 1000)), int32(rng.Pick(-1, 0, 7)), int32(rng.Pick(-1, 0, -40))}
		span := rng.Pick(3, 5, 8)
		a := sortedPts(rng, rng.Intn(9), org, span)
		var b [][3]int32
		switch rng.Intn(6) {
		case 0: // subset of a
			for _, p := range a {
				if rng.Chance(0.5) {
					b = append(b, p)
				}
			}
		case 1: // a far-away set
			b = sortedPts(rng, 1+rng.Intn(4), [3]int32{org[0], org[1], org[2] + int32(rng.Pick(-9, 9))}, span)
		default:
			b = sortedPts(rng, rng.Intn(9), org, span)
		}
		k := []string{"izyx-merge", "izyx-mergecopy", "izyx-delete", "izyx-split"}
		dispatch(jcase{Kind: k[i%4], Pts: a, Pts2: b})
		dispatch(jcase{Kind: k[(i+1+rng.Intn(3))%4], Pts: a, Pts2: b})
		if i%7 == 0 && len(a) > 2 { // unsorted receiver: model only
			u := append([][3]int32{}, a...)
			u[0], u[len(u)-1] = u[len(u)-1], u[0]
			dispatch(jcase{Kind: k[rng.Intn(4)], Pts: u, Pts2: b})
		}
		// block bounds around the set
		l := sortedPts(rng, 2+rng.Intn(10), org, span)
		var bd []*int32
		if rng.Chance(0.85) {
			bd = make([]*int32, 6)
			for ax := 0; ax < 3; ax++ {
				lo := org[ax] + int32(rng.Intn(3)) - 1
				if rng.Chance(0.5) {
					bd[2*ax] = i32p(lo)
				}
				if rng.Chance(0.5) {
					bd[2*ax+1] = i32p(lo + int32(rng.Intn(3)) - int32(rng.Pick(0, 0, 0, 1)))
				}
			}
		}
		dispatch(jcase{Kind: "izyx-fit", Pts: l, Bounds: bd})
		// down-resolution of a (possibly shuffled, possibly repeated) list
		dl := append([][3]int32{}, l...)
		if rng.Chance(0.5) {
			for q := len(dl) - 1; q > 0; q-- {
				j := rng.Intn(q + 1)
				dl[q], dl[j] = dl[j], dl[q]
			}
			dl = append(dl, dl[0])
		}
		dispatch(jcase{Kind: "izyx-downres", Scale: rng.Pick(0, 1, 1, 2, 3, 4, 20, 31, 32), Pts: dl})
		dispatch(jcase{Kind: "izyx-bounds", Pts: dl})
	}
}

func main() {
	o := lib.ParseOpts()
	rng := lib.NewRand(o.Seed)
	run = lib.NewRun("C18", o)
	run.Header("From Coq Require Import String.", "From DV Require Import Base.Prelude Model.Geometry Model.RLE Model.ROI Model.GeomRun.", "Local Open Scope Z_scope.")
	defer func() {
		if roiUUID != "" {
			dv.Close()
		}
	}()

	if o.Replay != "" {
		var c jcase
		if err := lib.LoadReplay(o.Replay, &c); err != nil {
			fmt.Fprintln(os.Stderr, err)
			os.Exit(2)
		}
		dispatch(c)
		run.Finish("c18case", "replay", tail)
		return
	}
	mul := 1
	if o.Thorough() {
		mul = 8
	}
	if o.N > 0 {
		mul = o.N
	}

	// ---- corpus: the inputs behind the recorded findings and the documented boundaries ----
	dispatch(jcase{Kind: "fit", Runs: [][4]int32{{0, 0, 0, 1}}})                                  // FitToBounds(nil)
	dispatch(jcase{Kind: "fit", Runs: [][4]int32{{-5, 2, -1, 9}, {10, 2, -1, 3}}})                // FitToBounds(nil)
	dispatch(jcase{Kind: "blockindex", P: []int32{1 << 20, 0, 0}})                                // first value outside the packed range
	dispatch(jcase{Kind: "blockindex", P: []int32{-(1 << 20), 0, 0}})                             // decodes to 0
	dispatch(jcase{Kind: "blockindex", P: []int32{(1 << 20) - 1, -(1 << 20) + 1, math.MinInt32}}) // last values inside, and MinInt32
	dispatch(jcase{Kind: "blockcode", Code: 1 << 20})                                             // "-0"
	dispatch(jcase{Kind: "mask", Size: []int32{8, 8, 8}, Off: []int32{-4, -4, -4}, Q: []int32{4, 4, 4}, Spans: [][4]int32{{-1, -1, -1, -1}}})
	dispatch(jcase{Kind: "add", Runs: [][4]int32{{0, 0, 0, 4}, {5, 0, 0, 4}}, Runs2: [][4]int32{{2, 0, 0, 5}}})

	// ---- key codec ----
	for i := 0; i < 120*mul; i++ {
		dispatch(jcase{Kind: "zyx", P: []int32{pickCoord(rng), pickCoord(rng), pickCoord(rng)}})
	}
	for _, v := range edge {
		dispatch(jcase{Kind: "zyx", P: []int32{v, 0, 0}})
		dispatch(jcase{Kind: "zyx", P: []int32{0, v, -1}})
		dispatch(jcase{Kind: "zyx", P: []int32{1, -1, v}})
	}
	for i := 0; i < 25*mul; i++ {
		n := rng.Pick(0, 1, 4, 8, 11, 12, 12, 12, 13, 16, 24)
		dispatch(jcase{Kind: "decode", Bytes: rng.Bytes(n)})
	}
	for i := 0; i < 150*mul; i++ {
		p := []int32{pickCoord(rng), pickCoord(rng), pickCoord(rng)}
		q := []int32{p[0], p[1], p[2]}
		switch rng.Intn(5) {
		case 0:
			q[rng.Intn(3)] = pickCoord(rng)
		case 1:
			k := rng.Intn(3)
			q[k] = -p[k]
		case 2:
			k := rng.Intn(3)
			q[k] = p[k] + int32(rng.Pick(-1, 1, 256, -256, 65536))
		case 3:
			q = []int32{pickCoord(rng), pickCoord(rng), pickCoord(rng)}
		default: // the lower coordinates pull one way, a higher one the other
			q[0], q[2] = p[0]+int32(rng.Pick(-5, 5)), p[2]+int32(rng.Pick(-1, 1))
		}
		dispatch(jcase{Kind: "cmp", P: p, Q: q})
	}
	{
		vals := []int32{math.MinInt32, -256, -1, 0, 1, 255, math.MaxInt32}
		var pts [][3]int32
		for _, a := range vals {
			for _, b := range vals {
				for _, c := range vals {
					pts = append(pts, [3]int32{a, b, c})
				}
			}
		}
		for i := len(pts) - 1; i > 0; i-- {
			j := rng.Intn(i + 1)
			pts[i], pts[j] = pts[j], pts[i]
		}
		dispatch(jcase{Kind: "order", Pts: pts})
		for k := 0; k < 2*mul; k++ {
			var rp [][3]int32
			for i := 0; i < 60; i++ {
				rp = append(rp, [3]int32{pickCoord(rng), pickCoord(rng), pickCoord(rng)})
			}
			dispatch(jcase{Kind: "order", Pts: rp})
		}
	}
	// ---- packed block index ----
	for _, v := range edge {
		dispatch(jcase{Kind: "blockindex", P: []int32{v, int32(rng.Intn(2001)) - 1000, -7}})
		dispatch(jcase{Kind: "blockindex", P: []int32{3, v, int32(rng.Intn(2001)) - 1000}})
		dispatch(jcase{Kind: "blockindex", P: []int32{-1, 0, v}})
	}
	for i := 0; i < 60*mul; i++ {
		dispatch(jcase{Kind: "blockindex", P: []int32{int32(rng.Intn(1<<21)) - (1 << 20), int32(rng.Intn(1<<21)) - (1 << 20), int32(rng.Intn(1<<21)) - (1 << 20)}})
	}
	for i := 0; i < 40*mul; i++ {
		c := rng.U64()
		if rng.Chance(0.5) {
			c &= (1 << 63) - 1
		}
		if rng.Chance(0.3) {
			c = uint64(rng.Pick(0, 1<<20, 1<<20|5)) | uint64(rng.Pick(0, 1<<20, 77))<<21 | uint64(rng.Pick(0, 1<<20, 1<<19))<<42
		}
		dispatch(jcase{Kind: "blockcode", Code: c})
	}
	// ---- Chunk ----
	sizes := []int32{1, 2, 7, 8, 16, 32, 1 << 20, 1 << 30, math.MaxInt32}
	for i := 0; i < 70*mul; i++ {
		s := []int32{sizes[rng.Intn(len(sizes))], sizes[rng.Intn(len(sizes))], sizes[rng.Intn(len(sizes))]}
		p := []int32{pickCoord(rng), pickCoord(rng), pickCoord(rng)}
		if rng.Chance(0.5) { // near a block edge of a small block
			k := int32(rng.Intn(9)) - 4
			p = []int32{k*s[0] + int32(rng.Pick(-1, 0, 1)), k * s[1], k*s[2] - 1}
		}
		dispatch(jcase{Kind: "chunk", P: p, Size: s})
	}
	dispatch(jcase{Kind: "chunk", P: []int32{5, 5, 5}, Size: []int32{0, 8, 8}})
	dispatch(jcase{Kind: "chunk", P: []int32{-5, 5, 5}, Size: []int32{8, 8, 0}})

	// ---- run-length volumes ----
	bsizes := []int32{8, 1, 3, 32, 5}
	for i := 0; i < 30*mul; i++ {
		bs := bsizes[rng.Intn(len(bsizes))]
		runs, merged := genRuns(rng, bs, 5)
		dispatch(jcase{Kind: "normalize", Runs: runs})
		sub := genSubset(rng, merged)
		dispatch(jcase{Kind: "split", Runs: runs, Runs2: sub})
		if i%3 == 0 {
			// not a subset / overlapping: only the model is compared
			other, _ := genRuns(rng, bs, 3)
			dispatch(jcase{Kind: "split", Runs: runs, Runs2: other})
			dispatch(jcase{Kind: "normalize", Runs: append(append([][4]int32{}, runs...), other...)})
		}
		size := []int32{bs, int32(rng.Pick(1, 4, 8, 32)), int32(rng.Pick(1, 8, 5))}
		dispatch(jcase{Kind: "partition", Runs: runs, Size: size})
		// bounds near run ends
		var b []*int32
		if len(runs) > 0 {
			r := runs[rng.Intn(len(runs))]
			cands := []int32{r[0] - 1, r[0], r[0] + 1, r[0] + r[3] - 2, r[0] + r[3] - 1, r[0] + r[3], r[0] + r[3] + 5}
			b = make([]*int32, 6)
			if rng.Chance(0.7) {
				b[0] = i32p(cands[rng.Intn(len(cands))])
			}
			if rng.Chance(0.7) {
				b[1] = i32p(cands[rng.Intn(len(cands))])
			}
			if rng.Chance(0.4) {
				b[2] = i32p(r[1] + int32(rng.Pick(-1, 0, 1)))
			}
			if rng.Chance(0.4) {
				b[3] = i32p(r[1] + int32(rng.Pick(-1, 0, 1)))
			}
			if rng.Chance(0.4) {
				b[4] = i32p(r[2] + int32(rng.Pick(-1, 0, 1)))
			}
			if rng.Chance(0.4) {
				b[5] = i32p(r[2] + int32(rng.Pick(-1, 0, 1)))
			}
		}
		dispatch(jcase{Kind: "fit", Runs: runs, Bounds: b})
		if i%6 == 0 {
			dispatch(jcase{Kind: "fit", Runs: runs}) // nil bounds: no clipping
		}
		other, _ := genRuns(rng, bs, 4)
		dispatch(jcase{Kind: "add", Runs: runs, Runs2: other})
		dispatch(jcase{Kind: "marshal", Runs: runs})
		if len(runs) >= 2 {
			dispatch(jcase{Kind: "excise", Runs: runs[:1], Runs2: runs[1:2]})
			a := runs[0]
			s := [4]int32{a[0] + int32(rng.Intn(int(a[3]))), a[1], a[2], 1 + int32(rng.Intn(int(a[3])+2))}
			if rng.Chance(0.3) {
				s[0] = a[0] - int32(rng.Intn(3))
			}
			dispatch(jcase{Kind: "excise", Runs: runs[:1], Runs2: [][4]int32{s}})
		}
	}
	// single voxels, a long run over many blocks, block size 0, int32 extremes
	dispatch(jcase{Kind: "normalize", Runs: [][4]int32{{2, 0, 0, 1}, {0, 0, 0, 1}, {1, 0, 0, 1}, {-1, 0, 0, 1}, {4, 0, 0, 1}}})
	dispatch(jcase{Kind: "partition", Runs: [][4]int32{{-1000, -1, -1, 2001}}, Size: []int32{8, 8, 8}})
	dispatch(jcase{Kind: "partition", Runs: [][4]int32{{-17, 5, -9, 40}, {23, 5, -9, 1}}, Size: []int32{1, 1, 1}})
	dispatch(jcase{Kind: "partition", Runs: [][4]int32{{0, 0, 0, 4}}, Size: []int32{0, 8, 8}})
	dispatch(jcase{Kind: "partition", Runs: [][4]int32{{0, 0, 0, 4}}, Size: []int32{8, 8, 0}})
	dispatch(jcase{Kind: "partition", Runs: nil, Size: []int32{8, 8, 8}})
	dispatch(jcase{Kind: "normalize", Runs: nil})
	dispatch(jcase{Kind: "normalize", Runs: [][4]int32{{math.MaxInt32 - 3, 0, 0, 4}, {math.MinInt32, 0, 0, 2}}})
	dispatch(jcase{Kind: "excise", Runs: [][4]int32{{math.MaxInt32 - 5, 0, 0, 6}}, Runs2: [][4]int32{{math.MaxInt32 - 2, 0, 0, 2}}})
	dispatch(jcase{Kind: "excise", Runs: [][4]int32{{math.MaxInt32 - 5, 0, 0, 9}}, Runs2: [][4]int32{{math.MinInt32, 0, 0, 2}}})
	dispatch(jcase{Kind: "fit", Runs: [][4]int32{{math.MaxInt32 - 5, 0, 0, 6}, {math.MinInt32, 1, 1, 3}}, Bounds: []*int32{i32p(math.MinInt32 + 1), i32p(math.MaxInt32 - 2), nil, nil, nil, nil}})
	dispatch(jcase{Kind: "add", Runs: [][4]int32{{math.MaxInt32 - 5, 0, 0, 6}}, Runs2: [][4]int32{{math.MaxInt32 - 1, 0, 0, 2}}})
	dispatch(jcase{Kind: "marshal", Runs: [][4]int32{{math.MinInt32, math.MaxInt32, -1, math.MinInt32}, {0, 0, 0, 0}, {-1, -1, -1, -1}}})
	dispatch(jcase{Kind: "marshal", Runs: nil})
	for i := 0; i < 12*mul; i++ {
		n := rng.Pick(0, 1, 15, 16, 17, 31, 32, 33, 48)
		dispatch(jcase{Kind: "unmarshal", Bytes: rng.Bytes(n)})
	}
	for i := 0; i < 14*mul; i++ {
		runs, _ := genRuns(rng, 8, 3)
		enc, _ := toRLEs(runs).MarshalBinary()
		hdr := []byte{dvid.EncodingBinary, 3, 0, 0, 0, 0, 0, 0}
		cnt := uint32(len(runs))
		switch rng.Intn(7) {
		case 0:
			hdr[0] = byte(rng.Pick(1, 2, 4, 255))
		case 1:
			cnt += uint32(rng.Pick(1, 2, 1000))
		case 2:
			if cnt > 0 {
				cnt--
			}
		}
		s := append(append([]byte{}, hdr...), binary.LittleEndian.AppendUint32(nil, cnt)...)
		s = append(s, enc...)
		switch rng.Intn(6) {
		case 0:
			s = s[:rng.Intn(len(s)+1)]
		case 1:
			s = append(s, rng.Bytes(1+rng.Intn(5))...)
		}
		dispatch(jcase{Kind: "readrles", Bytes: s})
	}

	// ---- sizes next to the internal batch / preallocation sizes (read from the source) ----
	{
		b := localConst("roi_PutSpans_BATCH_SIZE")
		for _, n := range []int{b - 1, b, b + 1, 2 * b} {
			if n >= 1 && n <= 200000 {
				dispatch(jcase{Kind: "roi-batch", Code: uint64(n)})
			}
		}
		m := localConst("dvid_ReadRLEs_maxPrealloc")
		for _, n := range []int{m - 1, m, m + 1, 2 * m} {
			if n >= 1 && n <= 1<<20 {
				dispatch(jcase{Kind: "read-boundary", Code: uint64(n)})
			}
		}
	}
	// ---- round 4: RLEs.Within / Offset / Stats and the IZYXSlice operations (own random stream, so
	// the streams of the older case families stay what they were) ----
	round4(lib.NewRand(o.Seed+0x52340000), mul)
	roiPartCases(lib.NewRand(o.Seed+0x52350000), mul)

	// ---- ROI version histories (HTTP): every version against its own spans ----
	for i := 0; i < 6*mul; i++ {
		dispatch(genRoiVer(rng))
	}
	// ---- ROI (HTTP) ----
	nroi := 21 * mul
	for i := 0; i < nroi; i++ {
		bs := []int32{int32(rng.Pick(4, 8, 8)), int32(rng.Pick(4, 8, 2)), int32(rng.Pick(4, 8, 3))}
		spans := genSpans(rng, 1+rng.Intn(7))
		switch i % 3 {
		case 0:
			// spans with sign changes in every coordinate: the stored order must be numeric
			sp := append([][4]int32{}, spans...)
			sp = append(sp, [4]int32{int32(rng.Pick(-300, 300, -1)), int32(rng.Pick(-70000, 70000)), -3, 2}, [4]int32{-1, -1, -300, 300},
				[4]int32{0, 0, -1048575, -1048570}, [4]int32{0, 0, 1048570, 1048575})
			dispatch(jcase{Kind: "roi-get", Size: bs, Spans: sp})
			fallthrough
		case 1:
			var pts [][3]int32
			for k := 0; k < 24; k++ {
				s := spans[rng.Intn(len(spans))]
				// a voxel in or next to a span's block range
				bx := s[2] + int32(rng.Intn(int(s[3]-s[2])+3)) - 1
				pts = append(pts, [3]int32{bx*bs[0] + int32(rng.Intn(int(bs[0]))), s[1]*bs[1] + int32(rng.Pick(-1, 0, int(bs[1])-1, int(bs[1]))),
					s[0]*bs[2] + int32(rng.Pick(-1, 0, 0, int(bs[2])-1, int(bs[2])))})
			}
			pts = append(pts, pts[0], [3]int32{-1, -1, -1}, [3]int32{0, 0, 0})
			dispatch(jcase{Kind: "ptquery", Size: bs, Spans: spans, Pts: pts})
		default:
			s := spans[rng.Intn(len(spans))]
			size := []int32{int32(1 + rng.Intn(12)), int32(1 + rng.Intn(9)), int32(1 + rng.Intn(7))}
			off := []int32{s[2]*bs[0] - int32(rng.Intn(6)), s[1]*bs[1] - int32(rng.Intn(5)), s[0]*bs[2] - int32(rng.Intn(4))}
			if rng.Chance(0.3) { // straddle the origin
				off = []int32{-int32(rng.Intn(7)), -int32(rng.Intn(5)), -int32(rng.Intn(4))}
			}
			dispatch(jcase{Kind: "mask", Size: bs, Off: off, Q: size, Spans: spans})
		}
	}
	// ---- boxes over several block layers: the only span that meets the box lies in the first / a
	// middle / the last layer (or in none), the other layers hold spans past or before the box in y or x ----
	for _, bs := range [][]int32{{4, 2, 3}, {8, 8, 8}} {
		for ci, org := range [][3]int32{{2, 1, 0}, {-3, -2, -2}} {
			for layers := 2; layers <= 3; layers++ {
				for hit := -1; hit < layers; hit++ {
					for _, decoy := range []int{1, 2, 4, 8, 3, 15} {
						shape := (hit + layers + decoy + ci) % 4
						in := [3]int32{int32((decoy + ci) % int(bs[0])), int32((hit + 1) % int(bs[1])), int32(layers % int(bs[2]))}
						spans, mn, mx := layeredBox(bs, org, layers, hit, decoy, shape, in)
						run.Count(fmt.Sprintf("boundsinside:layers=%d:hit=%s", layers, hitName(hit, layers)))
						dispatch(jcase{Kind: "boundsinside", P: mn, Q: mx, Size: bs, Spans: spans})
					}
				}
			}
		}
	}
	for i := 0; i < 24*mul; i++ {
		bs := []int32{int32(rng.Pick(4, 8, 32)), int32(rng.Pick(4, 8, 2)), int32(rng.Pick(4, 8, 3))}
		org := [3]int32{int32(rng.Intn(9)) - 4, int32(rng.Intn(7)) - 3, int32(rng.Intn(7)) - 3}
		layers := 2 + rng.Intn(3)
		hit := rng.Intn(layers+1) - 1
		in := [3]int32{int32(rng.Intn(int(bs[0]))), int32(rng.Intn(int(bs[1]))), int32(rng.Intn(int(bs[2])))}
		spans, mn, mx := layeredBox(bs, org, layers, hit, 1+rng.Intn(15), rng.Intn(4), in)
		if rng.Chance(0.3) && len(spans) > 2 { // drop a span: layers without any span
			k := rng.Intn(len(spans))
			spans = append(append([][4]int32{}, spans[:k]...), spans[k+1:]...)
		}
		run.Count(fmt.Sprintf("boundsinside:layers=%d:hit=%s", layers, hitName(hit, layers)))
		dispatch(jcase{Kind: "boundsinside", P: mn, Q: mx, Size: bs, Spans: spans})
	}
	// the same layouts through the HTTP mask (block size small: the answer is one byte per voxel)
	for k, hit := range []int{-1, 0, 1, 2} {
		bs := []int32{2, 2, 2}
		org := [3]int32{int32(1 - 2*(k%2)), 0, int32(-(k % 2))}
		spans, mn, mx := layeredBox(bs, org, 3, hit, []int{1, 3, 15, 9}[k], k, [3]int32{1, 0, 1})
		size := []int32{mx[0] - mn[0] + 1, mx[1] - mn[1] + 1, mx[2] - mn[2] + 1}
		dispatch(jcase{Kind: "mask", Size: bs, Off: mn, Q: size, Spans: spans})
	}
	for i := 0; i < 30*mul; i++ {
		bs := []int32{int32(rng.Pick(4, 8, 32)), int32(rng.Pick(4, 8, 2)), int32(rng.Pick(4, 8, 3))}
		spans := genSpans(rng, 1+rng.Intn(6))
		// package-level function: give it the spans in stored order
		sort.Slice(spans, func(a, b int) bool { return dvid.Span(spans[a]).Less(dvid.Span(spans[b])) })
		s := spans[rng.Intn(len(spans))]
		mn := []int32{(s[2]-1)*bs[0] + int32(rng.Intn(3*int(bs[0]))), s[1]*bs[1] + int32(rng.Pick(-int(bs[1]), -1, 0, 1)), s[0]*bs[2] + int32(rng.Pick(-int(bs[2]), -1, 0, 1))}
		mx := []int32{mn[0] + int32(rng.Intn(3*int(bs[0]))), mn[1] + int32(rng.Intn(2*int(bs[1]))), mn[2] + int32(rng.Intn(2*int(bs[2])))}
		dispatch(jcase{Kind: "boundsinside", P: mn, Q: mx, Size: bs, Spans: spans})
	}

	run.Finish("c18case",
		"int32 sign/extreme grid for the key codec, its order and the packed index; pairwise-disjoint run sets (unsorted, adjacent, single-voxel, ending on block edges, negative coordinates) with subsets, bounds next to run ends and 5 block sizes; malformed encodings; ROI span sets over HTTP with query points and mask boxes around span edges; distinct by (kind, inputs)",
		tail)
}

const tail = `
Definition spec_fail := Eval vm_compute in c18_spec_fail cases.
Definition model_mismatch := Eval vm_compute in c18_model_mismatch cases.
`
