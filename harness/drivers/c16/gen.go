package main

import (
	"fmt"
	"strings"

	"verif/harness/lib"
)

// JSON texts in the form Go's encoding/json prints them (the model's canonical-number assumption)
var valuePool = []string{
	`1`, `1`, `2`, `0`, `-3`, `7`, `9223372036854775808`, `18446744073709551615`, `1.5`, `2.25`,
	`"x"`, `"x"`, `"y"`, `"xy"`, `""`, `"a<b"`, `"re/a"`, `"é"`,
	`[1,2]`, `[]`, `[3]`, `[-1,1]`, `["x","y"]`, `["x"]`, `[1,"x"]`, `[1.5,2]`, `["x",1]`, `[9007199254740993,-9223372036854775808]`,
	`{"k":1}`, `{"k":[1,{"z":null}],"j":"x"}`, `true`, `false`, `null`, `null`,
}
var fieldPool = []string{"a", "a", "b", "s", "s", "f", "n", "user", "c"}

func pickS(r *lib.Rand, xs []string) string { return xs[r.Intn(len(xs))] }

func genBody(r *lib.Rand, id uint64, small bool) string {
	parts := []string{fmt.Sprintf(`"bodyid":%d`, id)}
	seen := map[string]bool{}
	n := 1 + r.Intn(4)
	if small {
		n = r.Intn(2)
	}
	for i := 0; i < n; i++ {
		f := pickS(r, fieldPool)
		if seen[f] {
			continue
		}
		seen[f] = true
		v := pickS(r, valuePool)
		if f == "n" {
			v = pickS(r, []string{`4`, `5`, `null`, `"x"`, `4`, `"y"`}) // theSchema rejects strings, schema2 numbers
		}
		parts = append(parts, fmt.Sprintf(`"%s":%s`, f, v))
		// explicit stamps now and then
		if r.Chance(0.12) && f != "user" {
			switch r.Intn(4) {
			case 0:
				parts = append(parts, fmt.Sprintf(`"%s_user":"bob"`, f))
			case 1:
				parts = append(parts, fmt.Sprintf(`"%s_time":"2020-01-0%dT00:00:00Z"`, f, 1+r.Intn(3)))
			case 2:
				parts = append(parts, fmt.Sprintf(`"%s_user":null`, f))
			case 3:
				parts = append(parts, fmt.Sprintf(`"%s_time":null`, f))
			}
		} else if r.Chance(0.03) && f != "user" {
			// a stamp that is not a string: the request must be rejected
			parts = append(parts, fmt.Sprintf(`"%s_%s":%s`, f, pickS(r, []string{"time", "user"}), pickS(r, []string{`5`, `[1]`, `true`})))
		}
	}
	return "{" + strings.Join(parts, ",") + "}"
}

func stdReads(ids []uint64, absent uint64) []ReadSpec {
	rs := []ReadSpec{
		{Kind: "keys"}, {Kind: "all"}, {Kind: "all", Show: 3}, {Kind: "all", Fm: []string{"a", "s"}, Show: 1},
		{Kind: "fields"}, {Kind: "counts"},
		{Kind: "keyrange", A: "0", B: "a"}, {Kind: "keyrange", A: "1", B: "15"}, {Kind: "keyrange", A: "2", B: "100"},
		{Kind: "keyrange", A: "30", B: "4"}, {Kind: "keyrange", A: "x", B: "1"},
		{Kind: "krv", A: "0", B: "a"}, {Kind: "krv", A: "1", B: "15", Show: 3}, {Kind: "krv", A: "2", B: "100", Fm: []string{"a", "s_user"}},
		{Kind: "key", ID: absent},
		{Kind: "keyvalues", Keys: append([]uint64{absent}, ids...), Show: 2},
		{Kind: "meta", Meta: 0}, {Kind: "meta", Meta: 1}, {Kind: "meta", Meta: 2},
		{Kind: "fieldtimes"}, {Kind: "schemainforce"},
		{Kind: "headmeta", Meta: 0}, {Kind: "headmeta", Meta: 1}, {Kind: "headkey", ID: absent},
		{Kind: "keyvalues", Keys: append([]uint64{absent}, ids...), Enc: 1}, {Kind: "keyvalues", Keys: append([]uint64{absent}, ids...), Show: 3, Enc: 2},
		{Kind: "krv", A: "1", B: "15", Enc: 1}, {Kind: "krv", A: "2", B: "100", Show: 1, Enc: 2}, {Kind: "krv", A: "0", B: "a", Fm: []string{"a"}, Enc: 2},
	}
	for i, id := range ids {
		if i < 3 {
			rs = append(rs, ReadSpec{Kind: "key", ID: id, Show: 3})
		}
		if i < 2 {
			rs = append(rs, ReadSpec{Kind: "headkey", ID: id})
		}
	}
	if len(ids) > 0 {
		rs = append(rs, ReadSpec{Kind: "key", ID: ids[0], Fm: []string{"a", "b_time"}, Show: 1})
	}
	qs := []string{
		`{"a":1}`, `{"a":[1,2,-1]}`, `{"s":"x"}`, `{"s":["x","y"]}`, `{"s":"re/^x"}`, `{"s":["re/y$","x"]}`, `{"s":"re/("}`,
		`{"zz":"exists/0"}`, `{"a":"exists/1"}`, `{"a":"exists/0","s":"exists/1"}`, `[{"a":1},{"b":"exists/1"}]`,
		`{"a":1.5}`, `{"a":[1.5,2.25]}`, `{"a":1,"s":"x"}`, `{"a_user":"re/^u"}`, `{"f":true}`, `{"b":null}`,
		`[{},{"a":7}]`, `{"c":["x",2]}`, `{"c":[2,"x"]}`, `{"a":[2.25,"x",1.5]}`, `{"user":"x"}`, `{"a":-1}`,
	}
	for i, q := range qs {
		r := ReadSpec{Kind: "query", Query: q}
		switch i % 5 {
		case 1:
			r.Fm = []string{"b", "s"}
		case 2:
			r.OnlyID = true
		case 3:
			r.Show = 3
		case 4:
			r.Fm, r.Show = []string{"a"}, 1
		}
		rs = append(rs, r)
	}
	if len(ids) > 1 {
		rs = append(rs, ReadSpec{Kind: "query", Query: fmt.Sprintf(`{"bodyid":%d}`, ids[0])},
			ReadSpec{Kind: "query", Query: fmt.Sprintf(`{"bodyid":[%d,%d,%d]}`, ids[1], absent, ids[0]), OnlyID: true, Fm: []string{"a"}})
	}
	rs = append(rs, ReadSpec{Kind: "query", Query: `[]`})
	if len(ids) > 1 {
		// OR lists whose alternatives pin body ids, pin them together with other fields, or not at all
		rs = append(rs,
			ReadSpec{Kind: "query", Query: fmt.Sprintf(`[{"bodyid":[%d,%d],"a":1},{"s":"x"}]`, ids[0], absent)},
			ReadSpec{Kind: "query", Query: fmt.Sprintf(`[{"bodyid":%d,"zz":"exists/0"},{"a":"exists/1"}]`, ids[1]), OnlyID: true},
			ReadSpec{Kind: "query", Query: fmt.Sprintf(`[{"bodyid":%d},{"bodyid":[%d],"s":"re/."},{"a":[1,2,7]}]`, ids[0], ids[1]), Fm: []string{"a", "s"}, Show: 1},
			ReadSpec{Kind: "query", Query: fmt.Sprintf(`{"bodyid":[%d,%d],"a":"exists/1"}`, ids[0], ids[1])},
			ReadSpec{Kind: "query", Query: fmt.Sprintf(`[{"bodyid":%d,"a":1},{"bodyid":%d}]`, ids[0], ids[1]), OnlyID: true})
	}
	return rs
}

// reads of named versions, the same in every phase
func refReads(ids []uint64, withBranch bool) []RefRead {
	refs := []VRef{{N: 0}, {N: -2}, {N: -1}}
	if withBranch {
		refs = append(refs, VRef{B: true, N: -1}, VRef{B: true, N: 0})
	}
	id0 := uint64(10)
	if len(ids) > 0 {
		id0 = ids[0]
	}
	reads := []ReadSpec{
		{Kind: "keys"}, {Kind: "all", Show: 3}, {Kind: "counts"}, {Kind: "fields"}, {Kind: "fieldtimes"},
		{Kind: "keyrange", A: "0", B: "a"}, {Kind: "krv", A: "1", B: "150", Show: 1}, {Kind: "krv", A: "2", B: "40", Enc: 2},
		{Kind: "query", Query: `{"a":1}`, Fm: []string{"a", "b"}}, {Kind: "query", Query: `{"zz":"exists/0"}`, OnlyID: true},
		{Kind: "headkey", ID: id0}, {Kind: "key", ID: id0, Show: 3}, {Kind: "keyvalues", Keys: append([]uint64{999}, ids...), Enc: 2},
		{Kind: "meta", Meta: 1}, {Kind: "headmeta", Meta: 0},
	}
	var out []RefRead
	for _, ref := range refs {
		for _, rd := range reads {
			out = append(out, RefRead{Ref: ref, Read: rd})
		}
	}
	return out
}

// phase 0: the branch head and committed versions configured "inmemory", restart; phase 1: no
// configuration, restart: every version must answer alike in both
func cfgPhases(ids []uint64, withBranch bool, static []VRef) []PhaseSpec {
	rr := refReads(ids, withBranch)
	return []PhaseSpec{
		{Ops: []OpSpec{{Kind: "config", CfgBranch: withBranch, CfgStatic: static}, {Kind: "reload"}}, Reads: rr},
		{Ops: []OpSpec{{Kind: "config"}, {Kind: "reload"}}, Reads: rr},
	}
}

func onB(op OpSpec) OpSpec { op.Branch = true; return op }

// writes of every kind on an open head: POST of a new and of a stored id, DELETE, replace, a
// batch, a schema (r == nil: fixed bodies)
func headWrites(r *lib.Rand, ids []uint64, fresh uint64) []OpSpec {
	body := func(id uint64, fixed string) string {
		if r == nil {
			return fmt.Sprintf(`{"bodyid":%d,%s}`, id, fixed)
		}
		return genBody(r, id, false)
	}
	id0, id1 := ids[0], ids[len(ids)-1]
	rep := post(id1, body(id1, `"c":[1,2]`))
	rep.Replace = true
	return []OpSpec{
		post(fresh, body(fresh, `"a":1,"s":"x","zz":"w"`)), post(id0, body(id0, `"a":7,"s":"y","b":null`)),
		del(id1), rep, post(id0, fmt.Sprintf(`{"bodyid":%d,"a":null,"f":true}`, id0)),
		{Kind: "kvs", Items: []KV{{fresh + 1, body(fresh+1, `"b":2`)}, {id0, body(id0, `"s":"xy"`)}}},
		del(id0), {Kind: "metapost", Meta: 1, Val: fmt.Sprintf(`{"w":%d}`, fresh)},
	}
}

// A committed version reads the same ever after, whichever db serves it.  Phase 0 commits the
// head(s), names them in the "inmemory" configuration and restarts: the in-memory dbs are built
// while the configured version is still the HEAD of its branch (no child yet).  Phase 1 creates
// the child version(s) in the same process and writes to them; phase 2 restarts (the configured
// version now has a child at start-up); phase 3 writes again; phase 4 restarts without
// configuration (store path).  Every phase reads the same committed versions (CaseSpec.PinRefs)
// with the same requests: the answers must not change (Model.NJRun.phases_differ).
// mode 0: the master head by uuid (and the root); mode 1: ":b" together with the uuids of both
// heads; mode 2: the branch by name only.  Modes 1 and 2 need the second branch.
func headPinPhases(r *lib.Rand, ids []uint64, mode int) []PhaseSpec {
	rr := refReads(ids, mode > 0)
	var p0, p1, p3 []OpSpec
	cfg := OpSpec{Kind: "config"}
	if mode != 2 {
		p0 = append(p0, OpSpec{Kind: "commit"})
		cfg.CfgStatic = append(cfg.CfgStatic, VRef{N: -1}, VRef{N: 0})
		p1 = append(p1, OpSpec{Kind: "newversion"})
		p1 = append(p1, headWrites(r, ids, 141)...)
		p3 = append(p3, headWrites(r, ids, 143)...)
	}
	if mode > 0 {
		p0 = append(p0, onB(OpSpec{Kind: "commit"}))
		cfg.CfgBranch = true
		if mode == 1 {
			cfg.CfgStatic = append(cfg.CfgStatic, VRef{B: true, N: -1})
		}
		p1 = append(p1, onB(OpSpec{Kind: "newversion"}))
		// (POST keyvalues is not among the requests the driver and the model send to the branch)
		for _, op := range headWrites(r, ids, 145) {
			if op.Kind != "kvs" {
				p1 = append(p1, onB(op))
			}
		}
		for _, op := range headWrites(r, ids, 147) {
			if op.Kind != "kvs" {
				p3 = append(p3, onB(op))
			}
		}
	}
	p0 = append(p0, cfg, OpSpec{Kind: "reload"})
	return []PhaseSpec{{Ops: p0, Reads: rr}, {Ops: p1, Reads: rr}, {Ops: []OpSpec{{Kind: "reload"}}, Reads: rr},
		{Ops: p3, Reads: rr}, {Ops: []OpSpec{{Kind: "config"}, {Kind: "reload"}}, Reads: rr}}
}

// ---- queries: OR lists of 1-4 alternatives, each an AND of 1-3 constraints of every kind ----

// values that stored fields are likely to hold (so that constraints match some annotations)
var queryScalars = []string{`1`, `2`, `0`, `-3`, `7`, `4`, `5`, `18446744073709551615`, `-1`, `1.5`, `2.25`,
	`"x"`, `"y"`, `"xy"`, `""`, `"a<b"`, `"é"`, `"re/a"`, `"bob"`, `true`, `null`}
var queryRegexps = []string{`"re/^x"`, `"re/y$"`, `"re/."`, `"re/^u[0-9]"`, `"re/("`, `"re/^$"`, `"re/2020"`}
var queryFields = []string{"a", "a", "b", "s", "s", "f", "n", "user", "c", "zz", "a_user", "s_user", "a_time"}

func genBodyidConstraint(r *lib.Rand, ids []uint64, absent uint64) string {
	pool := append([]uint64{absent}, ids...)
	if r.Chance(0.4) {
		return fmt.Sprintf(`"bodyid":%d`, pool[r.Intn(len(pool))])
	}
	n := 1 + r.Intn(3)
	xs := []string{}
	for i := 0; i < n; i++ {
		xs = append(xs, fmt.Sprint(pool[r.Intn(len(pool))]))
	}
	return `"bodyid":[` + strings.Join(xs, ",") + `]`
}

func genFieldConstraint(r *lib.Rand) string {
	f := pickS(r, queryFields)
	switch x := r.Intn(10); {
	case x < 4: // equality with one value
		return fmt.Sprintf(`"%s":%s`, f, pickS(r, queryScalars))
	case x < 6: // any of a list of values (numbers, strings, or both kinds mixed)
		n := 1 + r.Intn(3)
		xs := []string{}
		for i := 0; i < n; i++ {
			if r.Chance(0.15) {
				xs = append(xs, pickS(r, queryRegexps))
			} else {
				xs = append(xs, pickS(r, queryScalars[:len(queryScalars)-2]))
			}
		}
		return fmt.Sprintf(`"%s":[%s]`, f, strings.Join(xs, ","))
	case x < 8: // regular expression
		return fmt.Sprintf(`"%s":%s`, f, pickS(r, queryRegexps))
	default: // existence
		return fmt.Sprintf(`"%s":"exists/%d"`, f, r.Intn(2))
	}
}

// one alternative: bodyid only, bodyid with other fields, or fields only
func genAlternative(r *lib.Rand, ids []uint64, absent uint64) string {
	parts := []string{}
	seen := map[string]bool{}
	add := func(c string) {
		k := c[:strings.Index(c, ":")]
		if !seen[k] {
			seen[k] = true
			parts = append(parts, c)
		}
	}
	switch r.Intn(4) {
	case 0:
		add(genBodyidConstraint(r, ids, absent))
	case 1:
		add(genBodyidConstraint(r, ids, absent))
		add(genFieldConstraint(r))
		if r.Chance(0.3) {
			add(genFieldConstraint(r))
		}
	default:
		for i := 0; i < 1+r.Intn(3); i++ {
			add(genFieldConstraint(r))
		}
	}
	return "{" + strings.Join(parts, ",") + "}"
}

func genQuery(r *lib.Rand, ids []uint64, absent uint64) ReadSpec {
	n := 1 + r.Intn(4)
	alts := []string{}
	for i := 0; i < n; i++ {
		alts = append(alts, genAlternative(r, ids, absent))
	}
	q := "[" + strings.Join(alts, ",") + "]"
	if n == 1 && r.Bool() {
		q = alts[0] // a single object instead of a one-element list
	}
	rs := ReadSpec{Kind: "query", Query: q, OnlyID: r.Chance(0.3), Show: r.Intn(4)}
	if r.Chance(0.3) {
		rs.Fm = []string{pickS(r, fieldPool), pickS(r, fieldPool)}
	}
	return rs
}

// a POST that sets to null a non-empty subset (mask bits 1, 2, 4) of {f, f_user, f_time}
func nullPost(id uint64, f string, mask int, sameUser bool) OpSpec {
	parts := []string{fmt.Sprintf(`"bodyid":%d`, id)}
	if mask&1 != 0 {
		parts = append(parts, fmt.Sprintf(`"%s":null`, f))
	}
	if mask&2 != 0 {
		parts = append(parts, fmt.Sprintf(`"%s_user":null`, f))
	}
	if mask&4 != 0 {
		parts = append(parts, fmt.Sprintf(`"%s_time":null`, f))
	}
	return OpSpec{Kind: "post", Key: id, Body: "{" + strings.Join(parts, ",") + "}", SameUser: sameUser}
}

func post(id uint64, body string) OpSpec { return OpSpec{Kind: "post", Key: id, Body: body} }
func del(id uint64) OpSpec              { return OpSpec{Kind: "delete", Key: id} }

// histories that showed the defects repaired by repo_patches/C16-*-fix.diff, and the field rules
func corpus() []CaseSpec {
	var cs []CaseSpec
	// (a) deleteBodyID
	var ops []OpSpec
	ids := []uint64{10, 20, 30, 40, 50, 60, 70, 80}
	for _, id := range ids {
		ops = append(ops, post(id, fmt.Sprintf(`{"bodyid":%d,"a":1,"s":"x%d"}`, id, id)))
	}
	for _, id := range []uint64{10, 30, 80, 50} {
		ops = append(ops, del(id))
	}
	cs = append(cs, CaseSpec{Name: "corpus-delete-ids", Ops: ops, Reads: stdReads([]uint64{10, 20, 50, 80}, 15)})
	cs = append(cs, CaseSpec{Name: "corpus-delete-two", Ops: []OpSpec{post(10, `{"bodyid":10,"a":1}`), post(20, `{"bodyid":20,"a":2}`), del(10)},
		Reads: stdReads([]uint64{10, 20}, 15)})
	// (b) null-deleted field counter, (e) zero counters
	cs = append(cs, CaseSpec{Name: "corpus-null-counter", Ops: []OpSpec{post(10, `{"bodyid":10,"a":1,"b":"q"}`), post(10, `{"bodyid":10,"a":null}`)},
		Reads: stdReads([]uint64{10}, 15)})
	cs = append(cs, CaseSpec{Name: "corpus-zero-counter", Ops: []OpSpec{post(10, `{"bodyid":10,"a":1}`), post(20, `{"bodyid":20,"b":1}`), del(10)},
		Reads: stdReads([]uint64{10, 20}, 15)})
	// (c) numeric vs string key ranges, (d) fields= on the store path
	cs = append(cs, CaseSpec{Name: "corpus-mixed-digits", Ops: []OpSpec{
		post(5, `{"bodyid":5,"a":1,"b":[1,2],"s":"x"}`), post(10, `{"bodyid":10,"a":1,"s":"y"}`),
		post(100, `{"bodyid":100,"a":2,"s":"x"}`), post(20, `{"bodyid":20,"a":1.5,"s":["x","y"]}`), post(3, `{"bodyid":3,"c":2,"f":true}`)},
		Reads: stdReads([]uint64{5, 10, 100, 20, 3}, 15)})
	// (i) schema bytes after a restart on a committed leaf
	cs = append(cs, CaseSpec{Name: "corpus-schema-restart", Ops: []OpSpec{
		{Kind: "metapost", Meta: 0, Val: theSchema}, {Kind: "metapost", Meta: 1, Val: `{"x":1}`},
		post(10, `{"bodyid":10,"n":"x"}`), post(10, `{"bodyid":10,"n":4}`),
		{Kind: "commit"}, {Kind: "reload"}, {Kind: "newversion"}, post(11, `{"bodyid":11,"n":"x"}`),
		{Kind: "metadelete", Meta: 1}, {Kind: "metapost", Meta: 2, Val: `[1]`}},
		Reads: stdReads([]uint64{10, 11}, 15)})
	// (f) fieldtimes: last-posted stamp vs newest stamp, and fields that disappear
	cs = append(cs, CaseSpec{Name: "corpus-fieldtimes", Ops: []OpSpec{
		post(10, `{"bodyid":10,"a":1,"a_time":"2020-01-01T00:00:00Z"}`),
		post(20, `{"bodyid":20,"a":1,"a_time":"2022-01-01T00:00:00Z"}`),
		post(10, `{"bodyid":10,"b":1,"b_time":"2021-01-01T00:00:00Z"}`),
		post(30, `{"bodyid":30,"c":1}`), del(30)},
		Reads: stdReads([]uint64{10, 20, 30}, 15)})
	// (h) the deleted JSON schema stays in force
	cs = append(cs, CaseSpec{Name: "corpus-schema-delete", Ops: []OpSpec{
		{Kind: "metapost", Meta: 0, Val: theSchema}, post(10, `{"bodyid":10,"n":4}`), post(11, `{"bodyid":11,"n":"x"}`),
		{Kind: "metadelete", Meta: 0}, post(12, `{"bodyid":12,"n":"x"}`),
		{Kind: "metapost", Meta: 0, Val: schema2}, post(13, `{"bodyid":13,"n":"x"}`), post(14, `{"bodyid":14,"n":4}`),
		post(15, `{"bodyid":15,"a":1,"a_time":5}`), post(15, `{"bodyid":15,"a":1,"a_user":[1]}`),
		{Kind: "metadelete", Meta: 0}, post(16, `{"bodyid":16,"n":7}`)},
		Reads: stdReads([]uint64{10, 11, 12, 13}, 17)})
	// a second branch, its HEAD db and read-only UUID dbs
	cs = append(cs, CaseSpec{Name: "corpus-branch", Ops: []OpSpec{
		post(10, `{"bodyid":10,"a":1}`), post(20, `{"bodyid":20,"a":2,"s":"x"}`), {Kind: "commit"}, {Kind: "newversion"},
		post(30, `{"bodyid":30,"a":1}`), {Kind: "branch", From: 0}, {Kind: "branch", From: 0},
		onB(post(40, `{"bodyid":40,"b":1}`)), onB(del(10)), onB(OpSpec{Kind: "metapost", Meta: 1, Val: `{"on":"b"}`}),
		{Kind: "config", CfgBranch: true, CfgStatic: []VRef{{N: 0}}}, {Kind: "reload"},
		onB(post(20, `{"bodyid":20,"a":null,"c":[1,2]}`)), onB(OpSpec{Kind: "commit"}), onB(post(41, `{"bodyid":41}`)),
		onB(OpSpec{Kind: "newversion"}), onB(post(50, `{"bodyid":50,"b":3,"b_time":"2021-01-01T00:00:00Z"}`)), onB(del(40)),
		post(31, `{"bodyid":31,"a":7}`), del(10)},
		Reads: stdReads([]uint64{10, 20, 30}, 15), Phases: cfgPhases([]uint64{10, 20, 40, 50}, true, []VRef{{N: 0}, {B: true, N: 0}})})
	// (m) the configuration names the branch before it exists
	cs = append(cs, CaseSpec{Name: "corpus-config-before-branch", Ops: []OpSpec{
		post(10, `{"bodyid":10,"a":1}`), {Kind: "commit"}, {Kind: "config", CfgBranch: true}, {Kind: "reload"},
		{Kind: "newversion"}, {Kind: "branch", From: 0}, onB(post(30, `{"bodyid":30,"b":1}`))},
		Reads: stdReads([]uint64{10}, 15),
		Phases: []PhaseSpec{{Reads: refReads([]uint64{10, 30}, true)}, {Ops: []OpSpec{{Kind: "config"}, {Kind: "reload"}}, Reads: refReads([]uint64{10, 30}, true)}}})
	// (n) the configuration names a version that is still open
	cs = append(cs, CaseSpec{Name: "corpus-config-open-version", Ops: []OpSpec{
		post(10, `{"bodyid":10,"a":1}`), {Kind: "config", CfgStatic: []VRef{{N: 0}}}, {Kind: "reload"},
		post(20, `{"bodyid":20,"a":1}`), del(10), {Kind: "commit"}, {Kind: "newversion"}},
		Reads: stdReads([]uint64{10, 20}, 15), Phases: cfgPhases([]uint64{10, 20}, false, nil)})
	// the configured version is the committed HEAD of its branch when the in-memory dbs are built,
	// then gets a child that is written to in the same process (by uuid, by uuid and branch name, by
	// branch name only)
	for mode, name := range []string{"corpus-inmem-head-uuid", "corpus-inmem-head-uuid-branch", "corpus-inmem-head-branch-name"} {
		ops := []OpSpec{post(10, `{"bodyid":10,"a":1,"s":"x"}`), post(20, `{"bodyid":20,"a":2,"b":[1]}`), post(30, `{"bodyid":30,"s":"y"}`),
			{Kind: "metapost", Meta: 1, Val: `{"x":1}`}, {Kind: "commit"}, {Kind: "newversion"}, post(40, `{"bodyid":40,"a":1}`), del(20)}
		if mode > 0 {
			ops = append(ops, OpSpec{Kind: "branch", From: 0}, onB(post(50, `{"bodyid":50,"b":1,"s":"x"}`)), onB(del(10)),
				onB(OpSpec{Kind: "commit"}), onB(OpSpec{Kind: "newversion"}), onB(post(60, `{"bodyid":60,"a":1}`)))
		}
		cs = append(cs, CaseSpec{Name: name, Ops: ops, Reads: stdReads([]uint64{10, 20, 30, 40}, 15),
			Phases: headPinPhases(nil, []uint64{10, 30, 40, 50}, mode), PinRefs: true})
	}
	// datastore defect met by the branch histories: a restart loses the head of master when its
	// committed leaf has a child on the branch only (finding C16-lost-master-head, class 11)
	cs = append(cs, CaseSpec{Name: "corpus-lost-master-head", Ops: []OpSpec{
		post(10, `{"bodyid":10,"a":1}`), {Kind: "metapost", Meta: 1, Val: `{"x":1}`}, {Kind: "commit"},
		{Kind: "branch", From: 0}, {Kind: "reload"}, {Kind: "newversion"}, post(20, `{"bodyid":20,"a":1}`)},
		Reads: stdReads([]uint64{10, 20}, 15)})
	// nulls of every subset of {f, f_user, f_time}: right after the write that set f (same second)
	// by the same and by another user, repeated, and of absent fields; the standard observation
	// points read the result through the store (parent, restart) and the tail updates the child
	{
		var ops []OpSpec
		ids := []uint64{}
		for mask := 1; mask <= 7; mask++ {
			id := uint64(20 + mask)
			ids = append(ids, id)
			ops = append(ops, post(id, fmt.Sprintf(`{"bodyid":%d,"note":"n%d","a":1}`, id, mask)), nullPost(id, "note", mask, mask%2 == 0))
		}
		ops = append(ops,
			post(30, `{"bodyid":30,"note":"x","a":1}`), nullPost(30, "note", 1, true), nullPost(30, "note", 1, true), nullPost(30, "note", 7, false),
			nullPost(31, "note", 7, false), post(31, `{"bodyid":31,"a":1}`), nullPost(31, "zz", 7, false), nullPost(31, "zz", 1, true),
			post(32, `{"bodyid":32,"note":"x","s":"y"}`), OpSpec{Kind: "sleep"}, nullPost(32, "note", 7, false), nullPost(32, "s", 6, false),
			post(33, `{"bodyid":33,"note":"x"}`), OpSpec{Kind: "commit"}, OpSpec{Kind: "newversion"}, nullPost(33, "note", 7, false),
			post(21, `{"bodyid":21,"b":2}`), post(27, `{"bodyid":27,"b":2}`))
		cs = append(cs, CaseSpec{Name: "corpus-null-companions", Ops: ops, Reads: stdReads(append(ids, 30, 31, 32, 33), 15)})
	}
	// field merge rules
	cs = append(cs, CaseSpec{Name: "corpus-stamps", Ops: []OpSpec{
		post(7, `{"bodyid":7,"a":1,"s":"x","b":[1,2],"a_time":"2020-01-01T00:00:00Z"}`),
		post(7, `{"bodyid":7,"a":1,"s":"y"}`), // a unchanged: keeps the explicit old time and its user
		{Kind: "sleep"},
		post(7, `{"bodyid":7,"b":[1,2],"c":{"k":1}}`),
		{Kind: "post", Key: 7, Body: `{"bodyid":7,"a":2,"s":"z"}`, HasCond: true, Conds: []string{"a", "q"}},
		{Kind: "post", Key: 7, Body: `{"bodyid":7,"a":1,"c":{"k":1}}`, Replace: true},
		post(7, `{"bodyid":7,"c":null,"s":"w","s_user":"bob"}`),
		{Kind: "post", Key: 7, Body: `{"bodyid":7,"a":3}`, NoUser: true},
		post(0, `{"bodyid":0,"a":3}`), post(8, `{"bodyid":7,"a":3}`), post(8, `{"a":3}`), post(7, `{"bodyid":7,"bodyid_user":"x"}`),
		{Kind: "kvs", Items: []KV{{8, `{"bodyid":8,"a":1}`}, {9, `{"bodyid":9,"s":"x","user":"me"}`}, {7, `{"bodyid":8}`}, {6, `{"bodyid":6}`}}},
		{Kind: "commit"}, post(7, `{"bodyid":7,"a":9}`), del(7), {Kind: "commit"}, {Kind: "newversion"}, {Kind: "newversion"},
		post(9, `{"bodyid":9,"s":"x","user":"you"}`), del(8), del(8),
	}, Reads: stdReads([]uint64{7, 8, 9}, 6)})
	return cs
}

func genCase(r *lib.Rand, name string, thorough bool) CaseSpec {
	// five ids with one, two and three digits
	pool := []uint64{uint64(1 + r.Intn(9)), uint64(10 + r.Intn(90)), uint64(100 + r.Intn(50)), uint64(1 + r.Intn(30)), uint64(2 + r.Intn(120))}
	ids := []uint64{}
	seen := map[uint64]bool{}
	for _, id := range pool {
		if !seen[id] {
			seen[id] = true
			ids = append(ids, id)
		}
	}
	pick := func() uint64 { return ids[r.Intn(len(ids))] }
	n := 12 + r.Intn(11)
	var ops []OpSpec
	locked := false
	slept := false
	for len(ops) < n {
		x := r.Intn(100)
		switch {
		case x < 52:
			id := pick()
			op := post(id, genBody(r, id, false))
			switch r.Intn(6) {
			case 0:
				op.Replace = true
			case 1:
				op.HasCond, op.Conds = true, []string{pickS(r, fieldPool), pickS(r, fieldPool)}
			}
			ops = append(ops, op)
			if r.Chance(0.25) { // null some of {f, f_user, f_time} of a field, often one the POST just set
				f := pickS(r, fieldPool)
				if m := mustObj(op.Body); r.Chance(0.7) {
					for k := range m {
						if k != "bodyid" && !strings.HasSuffix(k, "_user") && !strings.HasSuffix(k, "_time") {
							f = k
							break
						}
					}
				}
				if f != "user" {
					ops = append(ops, nullPost(id, f, 1+r.Intn(7), r.Bool()))
					if r.Chance(0.3) {
						ops = append(ops, nullPost(id, f, 1+r.Intn(7), r.Bool()))
					}
				}
			}
		case x < 60:
			var items []KV
			for i := 0; i < 2+r.Intn(2); i++ {
				id := pick()
				items = append(items, KV{id, genBody(r, id, false)})
			}
			if r.Chance(0.2) {
				items = append(items, KV{pick(), `{"bodyid":999}`}) // bodyid mismatch: stops the batch
				id := pick()
				items = append(items, KV{id, genBody(r, id, true)})
			}
			ops = append(ops, OpSpec{Kind: "kvs", Items: items, Replace: r.Chance(0.2)})
		case x < 73:
			ops = append(ops, del(pick()))
		case x < 78:
			m := r.Intn(3)
			val := pickS(r, []string{`{"x":1}`, `[1,2]`, `"v"`})
			if m == 0 {
				val = pickS(r, []string{theSchema, theSchema, schema2})
			}
			ops = append(ops, OpSpec{Kind: "metapost", Meta: m, Val: val})
		case x < 80:
			ops = append(ops, OpSpec{Kind: "metadelete", Meta: r.Intn(3)})
		case x < 86:
			ops = append(ops, OpSpec{Kind: "commit"})
			locked = true
			if r.Chance(0.85) {
				if r.Chance(0.3) {
					ops = append(ops, OpSpec{Kind: "reload"})
				}
				ops = append(ops, OpSpec{Kind: "newversion"})
				locked = false
			}
		case x < 88:
			ops = append(ops, OpSpec{Kind: "newversion"})
			locked = false
		case x < 92:
			ops = append(ops, OpSpec{Kind: "reload"})
		case x < 94 && !slept && !thorough:
			slept = true
			ops = append(ops, OpSpec{Kind: "sleep"})
		default:
			id := pick()
			switch r.Intn(5) {
			case 0:
				ops = append(ops, OpSpec{Kind: "post", Key: id, Body: genBody(r, id, false), NoUser: true})
			case 1:
				ops = append(ops, post(0, genBody(r, 0, true)))
			case 2:
				ops = append(ops, post(id, genBody(r, id+1, true)))
			case 3:
				ops = append(ops, post(id, `{"a":1}`))
			case 4:
				ops = append(ops, post(id, fmt.Sprintf(`{"bodyid":%d,"bodyid_time":"x"}`, id)))
			}
		}
	}
	_ = locked
	// half of the histories get a second branch: created from the root once it is committed, then
	// requests on its head interleaved with those on master
	var phases []PhaseSpec
	haveBranch := false
	if r.Chance(0.5) {
		var out []OpSpec
		mlocked, mlen, haveB, bLocked, bLen := false, 0, false, false, 0
		for _, op := range ops {
			out = append(out, op)
			switch op.Kind {
			case "commit":
				mlocked = true
			case "newversion":
				if mlocked {
					mlocked, mlen = false, mlen+1
				}
			}
			committedRoot := mlen > 0 || mlocked
			if !haveB && committedRoot && r.Chance(0.5) {
				out = append(out, OpSpec{Kind: "branch", From: 0})
				haveB = true
			}
			if haveB && r.Chance(0.35) {
				id := pick()
				switch x := r.Intn(10); {
				case x < 5:
					out = append(out, onB(post(id, genBody(r, id, false))))
				case x < 7:
					out = append(out, onB(del(id)))
				case x < 8:
					out = append(out, onB(OpSpec{Kind: "metapost", Meta: r.Intn(3), Val: pickS(r, []string{theSchema, schema2, `{"b":1}`})}))
				case x < 9:
					out = append(out, onB(OpSpec{Kind: "commit"}))
					if !bLocked {
						bLocked = true
					}
					if r.Chance(0.8) {
						out = append(out, onB(OpSpec{Kind: "newversion"}))
						bLocked, bLen = false, bLen+1
					}
				default:
					// the branch head in memory from here on
					st := []VRef{}
					if committedRoot {
						st = append(st, VRef{N: 0})
					}
					if bLen > 0 {
						st = append(st, VRef{B: true, N: 0})
					}
					out = append(out, OpSpec{Kind: "config", CfgBranch: true, CfgStatic: st}, OpSpec{Kind: "reload"})
				}
			}
		}
		ops = out
		haveBranch = haveB
		if haveB {
			st := []VRef{{N: 0}}
			if bLen > 0 {
				st = append(st, VRef{B: true, N: 0})
			}
			phases = cfgPhases(ids, true, st)
		}
	} else if r.Chance(0.3) {
		phases = cfgPhases(ids, false, []VRef{{N: 0}, {N: -2}})
	}
	absent := uint64(151 + r.Intn(9))
	reads := stdReads(ids, absent)
	// a few random reads
	for i := 0; i < 6; i++ {
		a, b := fmt.Sprint(r.Intn(130)), fmt.Sprint(r.Intn(160))
		switch r.Intn(4) {
		case 0:
			reads = append(reads, ReadSpec{Kind: "keyrange", A: a, B: b})
		case 1:
			reads = append(reads, ReadSpec{Kind: "krv", A: a, B: b, Show: r.Intn(4)})
		case 2:
			f := pickS(r, fieldPool)
			v := pickS(r, valuePool)
			reads = append(reads, ReadSpec{Kind: "query", Query: fmt.Sprintf(`{"%s":%s}`, f, v), Show: r.Intn(4), OnlyID: r.Chance(0.3)})
		case 3:
			reads = append(reads, ReadSpec{Kind: "all", Fm: []string{pickS(r, fieldPool), pickS(r, fieldPool) + "_user"}, Show: r.Intn(4)})
		}
	}
	// generated OR queries (also read of the named versions of the phases: branch head, UUID dbs)
	var qs []ReadSpec
	for i := 0; i < 14; i++ {
		qs = append(qs, genQuery(r, ids, absent))
	}
	reads = append(reads, qs...)
	for pi := range phases {
		for _, ref := range []VRef{{N: -1}, {B: true, N: -1}, {N: 0}} {
			for _, q := range qs[:4] {
				phases[pi].Reads = append(phases[pi].Reads, RefRead{Ref: ref, Read: q})
			}
		}
	}
	// a third of the histories: the heads are committed, configured "inmemory" and get children
	// that are written to in the same process (drawn last: the rest of the history is as before)
	pin := false
	if r.Chance(0.34) {
		mode := 0
		if haveBranch {
			mode = 1 + r.Intn(2)
		}
		phases, pin = headPinPhases(r, ids, mode), true
		for pi := range phases {
			for _, ref := range []VRef{{N: -1}, {N: 0}} {
				for _, q := range qs[:4] {
					phases[pi].Reads = append(phases[pi].Reads, RefRead{Ref: ref, Read: q})
				}
			}
		}
	}
	return CaseSpec{Name: name, Ops: ops, Reads: reads, Phases: phases, PinRefs: pin}
}
