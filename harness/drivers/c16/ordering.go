package main

// Case "ordering" (coq/Proofs/NJOrd.v, Model/NJOrd.v): updateJSON ranges five Go maps; Go randomises
// the iteration order on every `range`.  Each scenario — a stored annotation whose stamps are all
// given explicitly (so it is the same in every run) and one update — is run several times on the
// real code; every run's annotation is read back (show=all).  Spec: the runs agree (the time stamp
// of the run apart).  Model: updateJSON_ord under four fair orders gives exactly that annotation.

import (
	"fmt"
	"strings"

	"verif/harness/dv"
	"verif/harness/lib"
)

type ordScenario struct {
	Name    string
	Base    string // "" = no stored annotation (origData == nil)
	Update  string
	Replace bool
	Conds   []string
}

const st0 = `"2020-01-02T03:04:05Z"`

func stamped(fields ...string) string { // "a":1 -> with explicit a_user / a_time
	out := []string{`"bodyid":ID`}
	for _, f := range fields {
		name := f[1:strings.Index(f[1:], `"`)+1]
		out = append(out, f, fmt.Sprintf(`"%s_user":"u0"`, name), fmt.Sprintf(`"%s_time":%s`, name, st0))
	}
	return "{" + strings.Join(out, ",") + "}"
}

func ordScenarios() []ordScenario {
	base3 := stamped(`"a":1`, `"b":"x"`, `"c":[1,2]`)
	base8 := stamped(`"a":1`, `"b":"x"`, `"c":[1,2]`, `"d":{"k":null,"m":2}`, `"e":true`, `"f":2.5`, `"g":"gg"`, `"h":18446744073709551615`)
	return []ordScenario{
		{"nulls-and-new", base3, `{"bodyid":ID,"a":null,"b":null,"d":5,"e":"s","c":[1,2]}`, false, nil},
		{"nulls-with-explicit-stamps", base3, `{"bodyid":ID,"a":null,"a_user":"zed","b":null,"b_time":"2021-05-06T07:08:09Z","c":null,"c_user":null}`, false, nil},
		{"null-stamps-only", base3, `{"bodyid":ID,"a_user":null,"a_time":null,"b":7}`, false, nil},
		{"null-field-and-both-stamps", base3, `{"bodyid":ID,"a":null,"a_user":null,"a_time":null,"b":"x"}`, false, nil},
		{"replace", base3, `{"bodyid":ID,"a":1,"b":"y","f":2,"c":null}`, true, nil},
		{"replace-explicit-stamps", base8, `{"bodyid":ID,"a":1,"a_user":"ann","b":"x","g":null,"g_time":"2018-01-01T00:00:00Z","h":1,"z":null,"n":0}`, true, nil},
		{"conditionals", base3, `{"bodyid":ID,"a":2,"b":"z","g":1,"c":null}`, false, []string{"a", "b", "g"}},
		{"many-fields", base8, `{"bodyid":ID,"a":null,"b":"x","c":[2,1],"d":{"k":null,"m":2},"e":null,"e_user":"eve","f":2.5,"q":null,"r":"new","s":[],"h":null,"h_time":"2017-01-01T00:00:00Z"}`, false, nil},
		{"many-fields-conditionals", base8, `{"bodyid":ID,"a":5,"b":null,"c":[1,2],"e":false,"g":"other","r":1,"t_user":"tom"}`, false, []string{"a", "e", "r", "zz"}},
		{"first-post", "", `{"bodyid":ID,"a":1,"b":null,"x_user":"bob","y_time":"2019-01-01T00:00:00Z","z":null,"z_user":"kim","w":[1,"s"],"user":"me"}`, false, nil},
		{"first-post-replace", "", `{"bodyid":ID,"a":null,"a_time":"2019-01-01T00:00:00Z","b":2,"b_user":"bob","c":"s"}`, true, nil},
	}
}

func runOrdering(t *table, run *lib.Run, thorough bool) string {
	repoSeq++
	root, err := dv.NewRepo(fmt.Sprintf("ord%d", repoSeq))
	if err != nil {
		panic(err)
	}
	if err := dv.NewInstance(root, "neuronjson", "nj", nil); err != nil {
		panic(err)
	}
	rn := &runner{t: t, uuid: root, target: root, root: root, strings: map[string]bool{}}
	runs := 6
	if thorough {
		runs = 24
	}
	terms := []string{}
	for i, sc := range ordScenarios() {
		id := uint64(300 + i)
		url := fmt.Sprintf("/api/node/%s/nj/key/%d", root, id)
		sub := func(s string) string { return strings.ReplaceAll(s, "ID", fmt.Sprint(id)) }
		readBack := func() map[string]interface{} {
			resp := dv.Get(url + "?show=all")
			if resp.Status != 200 {
				panic(fmt.Sprintf("ordering %s: read back: %d %s", sc.Name, resp.Status, resp.Body))
			}
			v, _ := decode(resp.Body)
			m, _ := v.(map[string]interface{})
			return m
		}
		orig, origCanon := "None", ""
		obs := []string{}
		distinct := map[string]bool{}
		for k := 0; k < runs; k++ {
			dv.Delete(url + "?u=del")
			if sc.Base != "" {
				if r := dv.Post(url+"?u=base", []byte(sub(sc.Base))); r.Status != 200 {
					panic(fmt.Sprintf("ordering %s: base POST: %d %s", sc.Name, r.Status, r.Body))
				}
				m := readBack()
				if c := canon(m); origCanon == "" {
					origCanon, orig = c, "(Some "+t.obj(m)+")"
				} else if c != origCanon {
					// the stored annotation itself depends on the run: report it as a run of its own kind
					run.Count("ordering:BASE-DIFFERS:" + sc.Name)
					run.Notes = append(run.Notes, "ordering "+sc.Name+": base annotation differs between runs: "+origCanon+" vs "+c)
				}
			}
			q := "?u=upd"
			if sc.Replace {
				q += "&replace=true"
			}
			if sc.Conds != nil {
				q += "&conditionals=" + strings.Join(sc.Conds, ",")
			}
			ts := safeNow()
			if r := dv.Post(url+q, []byte(sub(sc.Update))); r.Status != 200 {
				panic(fmt.Sprintf("ordering %s: update POST: %d %s", sc.Name, r.Status, r.Body))
			}
			m := readBack()
			distinct[strings.ReplaceAll(canon(m), ts, "NOW")] = true
			obs = append(obs, fmt.Sprintf("(%s,%s)", t.str(ts), t.obj(m)))
		}
		run.Count("ordering:" + sc.Name)
		if len(distinct) > 1 {
			run.Count("ordering:RUNS-DIFFER:" + sc.Name)
		}
		conds := "[[]]"
		if sc.Conds != nil {
			conds = t.strs(sc.Conds)
		}
		bt, _ := rn.bodyTerm(sub(sc.Update))
		terms = append(terms, fmt.Sprintf("mkOO %s %s %s %s\n     %s\n     [%s]", t.str("upd"), conds, lib.CoqBool(sc.Replace), orig, bt, strings.Join(obs, ";\n      ")))
	}
	return fmt.Sprintf("mkCase [] [] [] [] [] [] []\n   [%s]", strings.Join(terms, ";\n    "))
}
