package main

// POST query probes (coq/Props/C16_readonly.v, Model/NJQuery.v): after P3 of every history the same
// query bodies the case reads with — and bodies Data.Query cannot parse, an empty list, null — are
// POSTed to the child (memory path) and to the committed parent (store path).  Around each request
// the driver digests EVERYTHING the instance's store holds (every data key and value of the
// badger store, all versions) and the instance's own metadata: the handler must write nothing.

import (
	"crypto/sha256"
	"encoding/hex"
	"encoding/json"
	"fmt"
	"strings"

	"github.com/janelia-flyem/dvid/datastore"
	"github.com/janelia-flyem/dvid/dvid"
	"github.com/janelia-flyem/dvid/storage"
	"verif/harness/dv"
	"verif/harness/lib"
)

type ROSpec struct {
	Head       bool     `json:"head,omitempty"` // the child (open head) or the committed parent
	Raw        string   `json:"raw"`            // the request body, as sent
	Unparsable bool     `json:"unparsable,omitempty"`
	OnlyID     bool     `json:"onlyid,omitempty"`
	Fm         []string `json:"fm,omitempty"`
	Show       int      `json:"show,omitempty"`
}

var badQueryBodies = []ROSpec{
	{Raw: `not json`, Unparsable: true},
	{Raw: ``, Unparsable: true},
	{Raw: `{"a":`, Unparsable: true},
	{Raw: `[1,2]`, Unparsable: true},
	{Raw: `"bodyid"`, Unparsable: true},
	{Raw: `[{"a":1},7]`, Unparsable: true},
	{Raw: `[]`},
	{Raw: `null`},
}

// the probes of a case: its first query reads on both paths, then the bodies above
func defaultROQ(cs CaseSpec, rng *lib.Rand) []ROSpec {
	out := []ROSpec{}
	n := 0
	for _, rs := range cs.Reads {
		if rs.Kind != "query" || n >= 4 {
			continue
		}
		out = append(out, ROSpec{Head: n%2 == 0, Raw: rs.Query, OnlyID: rs.OnlyID, Fm: rs.Fm, Show: rs.Show})
		n++
	}
	for i := 0; i < 3; i++ {
		b := badQueryBodies[rng.Intn(len(badQueryBodies))]
		b.Head = rng.Intn(2) == 0
		out = append(out, b)
	}
	return out
}

// digest of the store behind the instance and of the instance's metadata
func storeDigest(root string) string {
	d, err := datastore.GetDataByUUIDName(dvid.UUID(root), dvid.InstanceName("nj"))
	if err != nil {
		panic(err)
	}
	db, err := datastore.GetOrderedKeyValueDB(d)
	if err != nil {
		panic(err)
	}
	h := sha256.New()
	minK, maxK := storage.DataKeyRange()
	ch := make(chan *storage.KeyValue, 256)
	done := make(chan error, 1)
	go func() { done <- db.RawRangeQuery(minK, maxK, false, ch, nil) }()
	n := 0
	for kv := range ch {
		if kv == nil {
			break
		}
		fmt.Fprintf(h, "%d:%d:", len(kv.K), len(kv.V))
		h.Write(kv.K)
		h.Write(kv.V)
		n++
	}
	if err := <-done; err != nil {
		panic(err)
	}
	b, _ := json.Marshal(d)
	fmt.Fprintf(h, "meta=%s;tags=%v;n=%d", b, d.Tags(), n)
	return hex.EncodeToString(h.Sum(nil)[:12])
}

func (r *runner) probe(run *lib.Run, child, parent string, p ROSpec) string {
	t := r.t
	uuid := parent
	if p.Head {
		uuid = child
	}
	q := []string{}
	if p.OnlyID {
		q = append(q, "onlyid=true")
	}
	if p.Show > 0 {
		q = append(q, showParam[p.Show])
	}
	if len(p.Fm) > 0 {
		q = append(q, "fields="+strings.Join(p.Fm, ","))
	}
	url := "/api/node/" + uuid + "/nj/query"
	if len(q) > 0 {
		url += "?" + strings.Join(q, "&")
	}
	before := storeDigest(r.root)
	resp := dv.Post(url, []byte(p.Raw))
	after := storeDigest(r.root)
	rs := ReadSpec{Kind: "query", Query: p.Raw, OnlyID: p.OnlyID, Fm: p.Fm, Show: p.Show}
	body := "QUnparsable"
	if !p.Unparsable {
		qs := []string{}
		for _, m := range queryObjs(p.Raw) {
			qs = append(qs, t.obj(m))
		}
		body = "(QParsed [" + strings.Join(qs, ";") + "])"
	}
	switch {
	case p.Unparsable:
		run.Count("roquery:unparsable")
	case len(queryObjs(p.Raw)) == 0:
		run.Count("roquery:empty")
	case p.Head:
		run.Count("roquery:memory-path")
	default:
		run.Count("roquery:store-path")
	}
	run.Count(fmt.Sprintf("roquery-status:%d", resp.Status))
	if before != after {
		run.Count("roquery:STORE-CHANGED")
	}
	return fmt.Sprintf("mkRO %s %s %s %s %s (%s) %s", lib.CoqBool(p.Head), body, lib.CoqBool(p.OnlyID), t.strs(p.Fm),
		shows[p.Show], t.result(rs, resp), lib.CoqBool(before == after))
}
