// Driver C16: neuronjson over HTTP (in-process server, real badger) against Model.NJ.
// One case = one history of requests on the head of master, then the same read requests at
// P1 head (memory path) | commit, newversion | P2 parent (store path), P3 child (memory path)
// | close + reopen the datastore | P4 child (memory reloaded), P5 parent (store path).
package main

import (
	"bytes"
	"encoding/json"
	"fmt"
	"math"
	"os"
	"regexp"
	"sort"
	"strconv"
	"strings"
	"time"

	"archive/tar"
	"io"

	"github.com/santhosh-tekuri/jsonschema/v5"
	pb "google.golang.org/protobuf/proto"

	"github.com/janelia-flyem/dvid/datastore"
	"github.com/janelia-flyem/dvid/datatype/common/proto"
	"github.com/janelia-flyem/dvid/dvid"
	"github.com/janelia-flyem/dvid/storage"
	"verif/harness/dv"
	"verif/harness/lib"
)

// ---------- specs (JSON-serialisable: they are the replay format) ----------

type KV struct {
	Key  uint64 `json:"key"`
	Body string `json:"body"`
}
type OpSpec struct {
	Kind    string   `json:"kind"` // post, kvs, delete, metapost, metadelete, commit, newversion, reload
	Key     uint64   `json:"key,omitempty"`
	Body    string   `json:"body,omitempty"`
	NoUser  bool     `json:"nouser,omitempty"`
	SameUser bool    `json:"sameuser,omitempty"` // the u= of the previous request (else every request has its own)
	Conds   []string `json:"conds,omitempty"`
	HasCond bool     `json:"hascond,omitempty"`
	Replace bool     `json:"replace,omitempty"`
	Items   []KV     `json:"items,omitempty"`
	Meta    int      `json:"meta,omitempty"`
	Val     string   `json:"val,omitempty"`
	// the second branch and the "inmemory" configuration
	Branch    bool   `json:"branch,omitempty"`    // the request goes to the head of branch "b"
	From      int    `json:"from,omitempty"`      // kind "branch": master version (counted from the root) to branch from
	CfgBranch bool   `json:"cfgbranch,omitempty"` // kind "config": ":b"
	CfgStatic []VRef `json:"cfgstatic,omitempty"` // kind "config": version uuids
}

// VRef names a version: the N-th of master counted from the root, or the N-th of branch "b"
type VRef struct {
	B bool `json:"b,omitempty"`
	N int  `json:"n"`
}

func (v VRef) term() string {
	if v.B {
		return fmt.Sprintf("(VB %d)", v.N)
	}
	return fmt.Sprintf("(VM %d)", v.N)
}

type RefRead struct {
	Ref  VRef     `json:"ref"`
	Read ReadSpec `json:"read"`
}
type PhaseSpec struct {
	Ops   []OpSpec  `json:"ops"`
	Reads []RefRead `json:"reads"`
}
type ReadSpec struct {
	Kind   string   `json:"kind"` // key keys all fields counts keyrange krv keyvalues query meta
	ID     uint64   `json:"id,omitempty"`
	Fm     []string `json:"fm,omitempty"`
	Show   int      `json:"show,omitempty"` // 0 none 1 user 2 time 3 all
	A      string   `json:"a,omitempty"`
	B      string   `json:"b,omitempty"`
	Keys   []uint64 `json:"keys,omitempty"`
	Query  string   `json:"query,omitempty"`
	OnlyID bool     `json:"onlyid,omitempty"`
	Meta   int      `json:"meta,omitempty"`
	Enc    int      `json:"enc,omitempty"` // keyvalues / krv: 0 json, 1 tar, 2 protobuf
}
type CaseSpec struct {
	Name  string     `json:"name"`
	Ops   []OpSpec   `json:"ops"`
	Reads []ReadSpec `json:"reads"`
	Tail  []OpSpec   `json:"tail"` // sent to the child after P5; then the parent is read again (P6)
	// then: requests (configuration, restart, branch) followed by reads of named versions
	Phases []PhaseSpec `json:"phases,omitempty"`
	// the negative refs of the phases' reads are resolved once, against the version chains as they
	// are after the requests of the first phase: every phase then reads the same versions, also
	// when later phases create versions (gen.go: headPinPhases)
	PinRefs bool `json:"pinrefs,omitempty"`
	// POST query probes sent after P3 (readonly.go)
	ROQ []ROSpec `json:"roq,omitempty"`
}

var metaNames = []string{"json_schema", "schema", "schema_batch"}

// the validation schema used by generated histories: field "n" must be an integer or null
const theSchema = `{"type":"object","properties":{"n":{"type":["integer","null"]}}}`

// a second one, so that which schema is in force is observable: "n" must be a string or null
const schema2 = `{"type":"object","properties":{"n":{"type":["string","null"]}}}`

var knownSchemas = []string{theSchema, schema2}
var compiledSchemas = map[string]*jsonschema.Schema{}

// the validator's verdicts on a body, as the model wants them: the known schemas that reject it
func (t *table) verdicts(body string) string {
	o := []string{}
	for _, src := range knownSchemas {
		sch := compiledSchemas[src]
		if sch == nil {
			sch = jsonschema.MustCompileString("schema.json", src)
			compiledSchemas[src] = sch
		}
		var v interface{}
		if err := json.Unmarshal([]byte(body), &v); err != nil {
			continue
		}
		if sch.Validate(v) != nil {
			o = append(o, "("+t.str(src)+",false)")
		}
	}
	return "[" + strings.Join(o, ";") + "]"
}

// ---------- string table and Coq printers ----------

type table struct {
	names map[string]string
	defs  []string
}

func (t *table) str(s string) string {
	if s == "" {
		return "[]"
	}
	if n, ok := t.names[s]; ok {
		return n
	}
	n := fmt.Sprintf("k%d", len(t.names))
	t.names[s] = n
	t.defs = append(t.defs, fmt.Sprintf("Definition %s : bytes := hx \"%x\".", n, s))
	return n
}
func (t *table) strs(ss []string) string {
	o := make([]string, len(ss))
	for i, s := range ss {
		o[i] = t.str(s)
	}
	return "[" + strings.Join(o, ";") + "]"
}

var intRe = regexp.MustCompile(`^-?[0-9]+$`)

// value: result of json decoding with UseNumber
func (t *table) val(v interface{}) string {
	switch x := v.(type) {
	case nil:
		return "j0"
	case bool:
		if x {
			return "jt"
		}
		return "jfa"
	case json.Number:
		s := string(x)
		if intRe.MatchString(s) && len(s) <= 20 {
			if strings.HasPrefix(s, "-") {
				return "(jn (" + s + "))"
			}
			return "(jn " + s + ")"
		}
		f, _ := strconv.ParseFloat(s, 64)
		return fmt.Sprintf("(jf %d)", math.Float64bits(f))
	case string:
		return "(js " + t.str(x) + ")"
	case []interface{}:
		o := make([]string, len(x))
		for i, e := range x {
			o[i] = t.val(e)
		}
		return "(ja [" + strings.Join(o, ";") + "])"
	case map[string]interface{}:
		return "(jo " + t.obj(x) + ")"
	}
	return "j0"
}
func sortedKeys(m map[string]interface{}) []string {
	ks := make([]string, 0, len(m))
	for k := range m {
		ks = append(ks, k)
	}
	sort.Strings(ks)
	return ks
}
func (t *table) obj(m map[string]interface{}) string {
	ks := sortedKeys(m)
	o := make([]string, len(ks))
	for i, k := range ks {
		o[i] = "(" + t.str(k) + "," + t.val(m[k]) + ")"
	}
	return "[" + strings.Join(o, ";") + "]"
}

func decode(b []byte) (interface{}, error) {
	d := json.NewDecoder(bytes.NewReader(b))
	d.UseNumber()
	var v interface{}
	err := d.Decode(&v)
	return v, err
}
func mustObj(s string) map[string]interface{} {
	v, err := decode([]byte(s))
	if err != nil {
		panic(fmt.Sprintf("bad generated JSON %q: %v", s, err))
	}
	m, ok := v.(map[string]interface{})
	if !ok {
		panic("generated JSON is not an object: " + s)
	}
	return m
}
func canon(v interface{}) string { b, _ := json.Marshal(v); return string(b) }

var shows = []string{"sh00", "sh10", "sh01", "sh11"}
var showParam = []string{"", "show=user", "show=time", "show=all"}

// ---------- responses -> rres terms ----------

func isPanic(r dv.Resp) bool {
	return r.Panic || bytes.Contains(r.Body, []byte("Panic detected"))
}

func (t *table) objOpt(r dv.Resp) string {
	switch {
	case isPanic(r):
		return "XPanic"
	case r.Status == 404:
		return "XObj None"
	case r.Status != 200:
		return "XErr"
	}
	v, err := decode(r.Body)
	m, ok := v.(map[string]interface{})
	if err != nil || !ok {
		return "XErr"
	}
	return "XObj (Some " + t.obj(m) + ")"
}

func (t *table) result(rs ReadSpec, r dv.Resp) string {
	if isPanic(r) {
		return "XPanic"
	}
	switch rs.Kind {
	case "key":
		return t.objOpt(r)
	case "headkey", "headmeta":
		switch r.Status {
		case 200:
			return "XBool true"
		case 404:
			return "XBool false"
		}
		return "XErr"
	case "meta", "schemainforce":
		if r.Status == 404 {
			return "XBytes None"
		}
		if r.Status != 200 {
			return "XErr"
		}
		return "XBytes (Some " + t.str(string(r.Body)) + ")"
	}
	if r.Status != 200 {
		return "XErr"
	}
	var v interface{}
	if rs.Enc == 0 || (rs.Kind != "krv" && rs.Kind != "keyvalues") {
		var err error
		if v, err = decode(r.Body); err != nil {
			return "XErr (* undecodable *)"
		}
	}
	asIDs := func(l []interface{}) string {
		ids := []uint64{}
		for _, e := range l {
			var s string
			switch x := e.(type) {
			case string:
				s = x
			case json.Number:
				s = string(x)
			}
			u, _ := strconv.ParseUint(s, 10, 64)
			ids = append(ids, u)
		}
		sort.Slice(ids, func(i, j int) bool { return ids[i] < ids[j] })
		return "XIds " + lib.CoqNList(ids)
	}
	asObjs := func(l []interface{}) string {
		o := []string{}
		for _, e := range l {
			m, _ := e.(map[string]interface{})
			o = append(o, t.obj(m))
		}
		sort.Strings(o)
		return "XObjs [" + strings.Join(o, ";") + "]"
	}
	if rs.Enc != 0 && (rs.Kind == "krv" || rs.Kind == "keyvalues") {
		return t.binaryKVs(rs, r.Body)
	}
	list, _ := v.([]interface{}) // JSON null decodes to a nil list: the empty result
	switch rs.Kind {
	case "keys", "keyrange":
		return asIDs(list)
	case "all":
		return asObjs(list)
	case "fields":
		ss := []string{}
		for _, e := range list {
			s, _ := e.(string)
			ss = append(ss, s)
		}
		sort.Strings(ss)
		return "XNames " + t.strs(ss)
	case "fieldtimes":
		m, _ := v.(map[string]interface{})
		o := []string{}
		for _, k := range sortedKeys(m) {
			ts, _ := m[k].(string)
			o = append(o, fmt.Sprintf("(%s,%s)", t.str(k), t.str(ts)))
		}
		return "XTimes [" + strings.Join(o, ";") + "]"
	case "counts":
		m, _ := v.(map[string]interface{})
		o := []string{}
		for _, k := range sortedKeys(m) {
			n, _ := m[k].(json.Number)
			o = append(o, fmt.Sprintf("(%s,%s%%Z)", t.str(k), lib.CoqZ(mustInt(string(n)))))
		}
		return "XCounts [" + strings.Join(o, ";") + "]"
	case "krv", "keyvalues":
		m, _ := v.(map[string]interface{})
		type kv struct {
			k uint64
			s string
		}
		var kvs []kv
		for k, e := range m {
			u, _ := strconv.ParseUint(k, 10, 64)
			om, _ := e.(map[string]interface{})
			kvs = append(kvs, kv{u, t.obj(om)})
		}
		sort.Slice(kvs, func(i, j int) bool { return kvs[i].k < kvs[j].k })
		o := []string{}
		for _, x := range kvs {
			o = append(o, fmt.Sprintf("(%d,%s)", x.k, x.s))
		}
		return "XKVs [" + strings.Join(o, ";") + "]"
	case "query":
		if rs.OnlyID && !onlyBodyidKeys(rs.Query) {
			return asIDs(list)
		}
		return asObjs(list)
	}
	return "XErr"
}
// tar and protobuf forms of keyvalues / keyrangevalues
func (t *table) binaryKVs(rs ReadSpec, body []byte) string {
	type kv struct {
		k uint64
		v []byte
	}
	var kvs []kv
	if rs.Enc == 1 {
		tr := tar.NewReader(bytes.NewReader(body))
		for {
			hdr, err := tr.Next()
			if err == io.EOF {
				break
			}
			if err != nil {
				return "XErr (* bad tar *)"
			}
			val, _ := io.ReadAll(tr)
			u, _ := strconv.ParseUint(hdr.Name, 10, 64)
			kvs = append(kvs, kv{u, val})
		}
	} else {
		var pkvs proto.KeyValues
		if err := pb.Unmarshal(body, &pkvs); err != nil {
			return "XErr (* bad protobuf *)"
		}
		for _, x := range pkvs.Kvs {
			u, _ := strconv.ParseUint(x.Key, 10, 64)
			kvs = append(kvs, kv{u, x.Value})
		}
	}
	sort.SliceStable(kvs, func(i, j int) bool { return kvs[i].k < kvs[j].k })
	o := []string{}
	for _, x := range kvs {
		var ot string
		if len(x.v) > 0 {
			v, err := decode(x.v)
			m, ok := v.(map[string]interface{})
			if err != nil || !ok {
				return "XErr (* bad value *)"
			}
			ot = t.obj(m)
		}
		switch {
		case rs.Kind == "krv":
			o = append(o, fmt.Sprintf("(%d,%s)", x.k, ot))
		case len(x.v) == 0:
			o = append(o, fmt.Sprintf("(%d,None)", x.k))
		default:
			o = append(o, fmt.Sprintf("(%d,Some %s)", x.k, ot))
		}
	}
	if rs.Kind == "krv" {
		return "XKVs [" + strings.Join(o, ";") + "]"
	}
	return "XKVOs [" + strings.Join(o, ";") + "]"
}

func mustInt(s string) int64 { i, _ := strconv.ParseInt(s, 10, 64); return i }

// every key of every query object is "bodyid" (the code then answers by direct lookups)
func onlyBodyidKeys(q string) bool {
	for _, m := range queryObjs(q) {
		for k := range m {
			if k != "bodyid" {
				return false
			}
		}
	}
	return true
}
func queryObjs(q string) []map[string]interface{} {
	v, err := decode([]byte(q))
	if err != nil {
		return nil
	}
	switch x := v.(type) {
	case map[string]interface{}:
		return []map[string]interface{}{x}
	case []interface{}:
		var o []map[string]interface{}
		for _, e := range x {
			if m, ok := e.(map[string]interface{}); ok {
				o = append(o, m)
			}
		}
		return o
	}
	return nil
}

// ---------- running one case ----------

type runner struct {
	t        *table
	lastUser string
	target   string // the version the current request goes to
	uuid     string // head of master
	parent   string
	locked   bool
	root     string
	masters  []string // master versions from the root
	branches []string // versions of branch "b"
	bLocked  bool
	nreq     int
	strings  map[string]bool // every string value seen in a stored annotation (regexp oracle domain)
}

func (r *runner) url(rest string) string { return "/api/node/" + r.target + "/nj/" + rest }

// a negative N counts from the head: -1 the head, -2 its parent
func (r *runner) norm(v VRef) VRef {
	if v.N < 0 {
		if v.B {
			v.N += len(r.branches)
		} else {
			v.N += len(r.masters)
		}
	}
	return v
}

func (r *runner) uuidOf(v VRef) string {
	if v.N < 0 {
		return ""
	}
	if v.B {
		if v.N < len(r.branches) {
			return r.branches[v.N]
		}
		return ""
	}
	if v.N < len(r.masters) {
		return r.masters[v.N]
	}
	return ""
}
func (r *runner) isOpen(v VRef) bool {
	if v.B {
		return v.N == len(r.branches)-1 && !r.bLocked
	}
	return v.N == len(r.masters)-1 && !r.locked
}

// the store's "inmemory" setting (read by neuronjson's Initialize at the next restart)
func (r *runner) setConfig(op OpSpec) {
	d, err := datastore.GetDataByUUIDName(dvid.UUID(r.root), "nj")
	if err != nil {
		fmt.Fprintln(os.Stderr, err)
		os.Exit(2)
	}
	store, err := storage.GetAssignedStore(d)
	if err != nil {
		fmt.Fprintln(os.Stderr, err)
		os.Exit(2)
	}
	vs := []string{}
	if op.CfgBranch {
		vs = append(vs, ":b")
	}
	for _, ref := range op.CfgStatic {
		if u := r.uuidOf(ref); u != "" {
			vs = append(vs, u)
		}
	}
	cfg := store.GetStoreConfig()
	cfg.Set("inmemory", vs)
}

func clsOf(resp dv.Resp) string {
	switch {
	case isPanic(resp):
		return "OPanic"
	case resp.Status == 200:
		return "OOk"
	default:
		return "OErr"
	}
}

// waits until the wall clock is in the first 0.85 s of a second: the server's time.Now() then
// formats to the same RFC3339 string as ours
func safeNow() string {
	now := time.Now()
	if now.Nanosecond() > 850_000_000 {
		time.Sleep(time.Duration(1_000_000_000-now.Nanosecond()) + 2*time.Millisecond)
		now = time.Now()
	}
	return now.Format(time.RFC3339)
}

func (r *runner) collectStrings(v interface{}) {
	switch x := v.(type) {
	case string:
		r.strings[x] = true
	case []interface{}:
		for _, e := range x {
			r.collectStrings(e)
		}
	case map[string]interface{}:
		for _, e := range x {
			r.collectStrings(e)
		}
	}
}

func (r *runner) back(keys []uint64) string {
	o := []string{}
	seen := map[uint64]bool{}
	for _, k := range keys {
		if seen[k] {
			continue
		}
		seen[k] = true
		resp := dv.Get(r.url(fmt.Sprintf("key/%d?show=all", k)))
		switch {
		case resp.Status == 404:
			o = append(o, fmt.Sprintf("(%d,None)", k))
		case resp.Status == 200:
			v, _ := decode(resp.Body)
			m, _ := v.(map[string]interface{})
			r.collectStrings(m)
			o = append(o, fmt.Sprintf("(%d,Some %s)", k, r.t.obj(m)))
		default:
			o = append(o, fmt.Sprintf("(%d,None)", k)) // an error reading back shows up as a mismatch or rule failure
		}
	}
	return "[" + strings.Join(o, ";") + "]"
}

func (r *runner) bodyTerm(body string) (string, map[string]interface{}) {
	m := mustObj(body)
	return r.t.obj(m), m
}

func (r *runner) condsTerm(op OpSpec) string {
	if !op.HasCond {
		return "[[]]" // strings.Split("", ",") = [""]
	}
	return r.t.strs(strings.Split(strings.Join(op.Conds, ","), ","))
}

func (r *runner) params(op OpSpec, user string) string {
	p := []string{}
	if user != "" {
		p = append(p, "u="+user)
	}
	if op.Replace {
		p = append(p, "replace=true")
	}
	if op.HasCond {
		p = append(p, "conditionals="+strings.Join(op.Conds, ","))
	}
	return strings.Join(p, "&")
}

// exec runs one request and returns the obsop term
func (r *runner) exec(op OpSpec) string {
	r.nreq++
	user := fmt.Sprintf("u%d", r.nreq)
	if op.SameUser && r.lastUser != "" {
		user = r.lastUser
	}
	if op.NoUser {
		user = ""
	} else {
		r.lastUser = user
	}
	t := r.t
	var term, cls, back string
	back = "[]"
	r.target = r.uuid
	if op.Branch {
		if len(r.branches) == 0 {
			r.target = "00000000000000000000000000000000" // no such version: the model answers Err
		} else {
			r.target = r.branches[len(r.branches)-1]
		}
	}
	defer func() { r.target = r.uuid }()
	switch op.Kind {
	case "post":
		ts := safeNow()
		bt, _ := r.bodyTerm(op.Body)
		resp := dv.Post(r.url(fmt.Sprintf("key/%d?%s", op.Key, r.params(op, user))), []byte(op.Body))
		cls = clsOf(resp)
		term = fmt.Sprintf("OpPost %d %s %s %s %s %s %s", op.Key, bt, t.verdicts(op.Body), t.str(user),
			r.condsTerm(op), lib.CoqBool(op.Replace), t.str(ts))
		back = r.back([]uint64{op.Key})
	case "kvs":
		ts := safeNow()
		var kvs proto.KeyValues
		items := []string{}
		keys := []uint64{}
		for _, it := range op.Items {
			kvs.Kvs = append(kvs.Kvs, &proto.KeyValue{Key: strconv.FormatUint(it.Key, 10), Value: []byte(it.Body)})
			bt, _ := r.bodyTerm(it.Body)
			items = append(items, fmt.Sprintf("mkKV %d %s %s %s", it.Key, bt, t.verdicts(it.Body), t.str(ts)))
			keys = append(keys, it.Key)
		}
		ser, _ := pb.Marshal(&kvs)
		resp := dv.Post(r.url("keyvalues?"+r.params(op, user)), ser)
		cls = clsOf(resp)
		term = fmt.Sprintf("OpPostKVs [%s] %s %s %s", strings.Join(items, ";"), t.str(user), r.condsTerm(op), lib.CoqBool(op.Replace))
		back = r.back(keys)
	case "delete":
		resp := dv.Delete(r.url(fmt.Sprintf("key/%d?u=%s", op.Key, user)))
		cls = clsOf(resp)
		term = fmt.Sprintf("OpDelete %d", op.Key)
		back = r.back([]uint64{op.Key})
	case "metapost":
		resp := dv.Post(r.url(metaNames[op.Meta]+"?u="+user), []byte(op.Val))
		cls = clsOf(resp)
		term = fmt.Sprintf("OpMetaPost %d %s", op.Meta, t.str(op.Val))
	case "metadelete":
		resp := dv.Delete(r.url(metaNames[op.Meta] + "?u=" + user))
		cls = clsOf(resp)
		term = fmt.Sprintf("OpMetaDelete %d", op.Meta)
	case "commit":
		resp := dv.Commit(r.target)
		cls = clsOf(resp)
		if resp.Status == 200 {
			if op.Branch {
				r.bLocked = true
			} else {
				r.locked = true
			}
		}
		term = "OpCommit"
	case "newversion":
		child, resp := dv.NewVersion(r.target)
		cls = clsOf(resp)
		if resp.Status == 200 && child != "" {
			if op.Branch {
				r.branches, r.bLocked = append(r.branches, child), false
			} else {
				r.parent, r.uuid, r.locked = r.uuid, child, false
				r.masters = append(r.masters, child)
			}
		}
		term = "OpNewVersion"
	case "branch":
		from := r.uuidOf(VRef{N: op.From})
		if from == "" {
			from = "00000000000000000000000000000000"
		}
		child, resp := dv.Branch(from, "b")
		cls = clsOf(resp)
		if resp.Status == 200 && child != "" {
			r.branches, r.bLocked = []string{child}, false
		}
		term = fmt.Sprintf("OpBranch %d", op.From)
	case "config":
		for i := range op.CfgStatic {
			op.CfgStatic[i] = r.norm(op.CfgStatic[i])
		}
		r.setConfig(op)
		cls = "OOk"
		refs := []string{}
		for _, ref := range op.CfgStatic {
			refs = append(refs, ref.term())
		}
		term = fmt.Sprintf("OpSetConfig (mkCfg %s [%s])", lib.CoqBool(op.CfgBranch), strings.Join(refs, ";"))
	case "reload":
		datastore.CloseReopenTest()
		cls = "OOk"
		term = "OpReload"
	default:
		panic("unknown op kind " + op.Kind)
	}
	if op.Branch {
		term = "OpOnBranch (" + term + ")"
	}
	return fmt.Sprintf("mkObs (%s) %s %s", term, cls, back)
}

// probe: which JSON schema validates POSTs on an open version.  The two probe bodies fail the
// bodyid check that follows validation, so they never change anything.
func schemaInForce(b string) dv.Resp {
	passed := func(body string) (bool, bool) {
		resp := dv.Post(b+"key/1?u=probe", []byte(body))
		if isPanic(resp) || resp.Status == 200 {
			return false, false
		}
		return strings.Contains(string(resp.Body), "must match key"), true
	}
	pa, oka := passed(`{"bodyid":2,"n":"x"}`) // rejected by theSchema
	pb2, okb := passed(`{"bodyid":2,"n":5}`)  // rejected by schema2
	switch {
	case !oka || !okb:
		return dv.Resp{Status: 500}
	case pa && pb2:
		return dv.Resp{Status: 404}
	case !pa && pb2:
		return dv.Resp{Status: 200, Body: []byte(theSchema)}
	case pa && !pb2:
		return dv.Resp{Status: 200, Body: []byte(schema2)}
	}
	return dv.Resp{Status: 500}
}

func (r *runner) read(uuid string, open bool, rs ReadSpec) dv.Resp {
	b := "/api/node/" + uuid + "/nj/"
	q := []string{}
	if rs.Show > 0 {
		q = append(q, showParam[rs.Show])
	}
	if len(rs.Fm) > 0 {
		q = append(q, "fields="+strings.Join(rs.Fm, ","))
	}
	qs := func(extra ...string) string {
		all := append(append([]string{}, extra...), q...)
		if len(all) == 0 {
			return ""
		}
		return "?" + strings.Join(all, "&")
	}
	switch rs.Kind {
	case "key":
		return dv.Get(b + fmt.Sprintf("key/%d", rs.ID) + qs())
	case "keys":
		return dv.Get(b + "keys")
	case "all":
		return dv.Get(b + "all" + qs())
	case "fields":
		return dv.Get(b + "fields")
	case "counts":
		return dv.Get(b + "fields?counts=true")
	case "keyrange":
		return dv.Get(b + "keyrange/" + rs.A + "/" + rs.B)
	case "krv":
		enc := []string{"json=true", "tar=true", "protobuf=true"}[rs.Enc]
		return dv.Get(b + "keyrangevalues/" + rs.A + "/" + rs.B + qs(enc))
	case "keyvalues":
		switch rs.Enc {
		case 1:
			ks := make([]string, len(rs.Keys))
			for i, k := range rs.Keys {
				ks[i] = strconv.FormatUint(k, 10)
			}
			body, _ := json.Marshal(ks)
			return dv.Do("GET", b+"keyvalues"+qs("jsontar=true"), body)
		case 2:
			var keys proto.Keys
			for _, k := range rs.Keys {
				keys.Keys = append(keys.Keys, strconv.FormatUint(k, 10))
			}
			body, _ := pb.Marshal(&keys)
			return dv.Do("GET", b+"keyvalues"+qs(), body)
		}
		body, _ := json.Marshal(rs.Keys)
		return dv.Do("GET", b+"keyvalues"+qs("json=true"), body)
	case "fieldtimes":
		return dv.Get(b + "fieldtimes")
	case "headkey":
		return dv.Do("HEAD", b+fmt.Sprintf("key/%d", rs.ID), nil)
	case "headmeta":
		return dv.Do("HEAD", b+metaNames[rs.Meta], nil)
	case "schemainforce":
		if open {
			return schemaInForce(b)
		}
		return dv.Get(b + metaNames[0])
	case "query":
		extra := []string{}
		if rs.OnlyID {
			extra = append(extra, "onlyid=true")
		}
		return dv.Do("GET", b+"query"+qs(extra...), []byte(rs.Query))
	case "meta":
		return dv.Get(b + metaNames[rs.Meta])
	}
	panic("unknown read kind " + rs.Kind)
}

func (r *runner) reqTerm(rs ReadSpec) string {
	t := r.t
	fm := t.strs(rs.Fm)
	sh := shows[rs.Show]
	switch rs.Kind {
	case "key":
		return fmt.Sprintf("RKey %d %s %s", rs.ID, fm, sh)
	case "keys":
		return "RKeys"
	case "all":
		return fmt.Sprintf("RAll %s %s", fm, sh)
	case "fields":
		return "RFields"
	case "counts":
		return "RFieldCounts"
	case "keyrange":
		return fmt.Sprintf("RKeyRange %s %s", t.str(rs.A), t.str(rs.B))
	case "krv":
		return fmt.Sprintf("RKeyRangeValues %s %s %s %s %d", t.str(rs.A), t.str(rs.B), fm, sh, rs.Enc)
	case "keyvalues":
		return fmt.Sprintf("RKeyValues %s %s %s %d", lib.CoqNList(rs.Keys), fm, sh, rs.Enc)
	case "fieldtimes":
		return "RFieldTimes"
	case "headkey":
		return fmt.Sprintf("RHeadKey %d", rs.ID)
	case "headmeta":
		return fmt.Sprintf("RHeadMeta %d", rs.Meta)
	case "schemainforce":
		return "RSchemaInForce"
	case "query":
		qs := []string{}
		for _, m := range queryObjs(rs.Query) {
			qs = append(qs, t.obj(m))
		}
		return fmt.Sprintf("RQuery [%s] %s %s %s", strings.Join(qs, ";"), lib.CoqBool(rs.OnlyID), fm, sh)
	case "meta":
		return fmt.Sprintf("RMeta %d", rs.Meta)
	}
	panic("unknown read kind")
}

// patterns used by the case's queries
func patterns(reads []ReadSpec) []string {
	set := map[string]bool{}
	var walk func(v interface{})
	walk = func(v interface{}) {
		switch x := v.(type) {
		case string:
			if strings.HasPrefix(x, "re/") {
				set[x[3:]] = true
			}
		case []interface{}:
			for _, e := range x {
				walk(e)
			}
		}
	}
	for _, rs := range reads {
		if rs.Kind == "query" {
			for _, m := range queryObjs(rs.Query) {
				for _, v := range m {
					walk(v)
				}
			}
		}
	}
	o := []string{}
	for p := range set {
		o = append(o, p)
	}
	sort.Strings(o)
	return o
}

var repoSeq int

func runCase(t *table, cs CaseSpec, run *lib.Run) string {
	repoSeq++
	root, err := dv.NewRepo(fmt.Sprintf("r%d", repoSeq))
	if err != nil {
		fmt.Fprintln(os.Stderr, err)
		os.Exit(2)
	}
	if err := dv.NewInstance(root, "neuronjson", "nj", nil); err != nil {
		fmt.Fprintln(os.Stderr, err)
		os.Exit(2)
	}
	r := &runner{t: t, uuid: root, target: root, root: root, masters: []string{root}, strings: map[string]bool{}}
	hist := []string{}
	for _, op := range cs.Ops {
		if op.Kind == "sleep" { // lets the wall clock reach another second: _time stamps become distinguishable
			time.Sleep(1100 * time.Millisecond)
			run.Count("op:sleep")
			continue
		}
		hist = append(hist, r.exec(op))
		run.Count("op:" + op.Kind)
	}
	// observation points
	res := make([][]string, len(cs.Reads))
	obs := func(uuid string, open bool) {
		for i, rs := range cs.Reads {
			res[i] = append(res[i], t.result(rs, r.read(uuid, open, rs)))
		}
	}
	obs(r.uuid, !r.locked) // P1
	if !r.locked {
		if resp := dv.Commit(r.uuid); resp.Status != 200 {
			fmt.Fprintf(os.Stderr, "final commit failed: %d %s\n", resp.Status, resp.Body)
			os.Exit(2)
		}
	}
	child, resp := dv.NewVersion(r.uuid)
	if resp.Status != 200 || child == "" {
		fmt.Fprintf(os.Stderr, "final newversion failed: %d %s\n", resp.Status, resp.Body)
		os.Exit(2)
	}
	parent := r.uuid
	r.masters = append(r.masters, child)
	obs(parent, false) // P2
	obs(child, true)   // P3
	ro := []string{}
	for _, p := range cs.ROQ {
		ro = append(ro, r.probe(run, child, parent, p))
	}
	datastore.CloseReopenTest()
	obs(child, true)   // P4
	obs(parent, false) // P5
	r.parent, r.uuid, r.locked = parent, child, false
	tail := []string{}
	for _, op := range cs.Tail {
		tail = append(tail, r.exec(op))
	}
	obs(parent, false) // P6

	// phases: requests, then reads of named versions
	phases := []string{}
	var pin *runner
	for pi, ph := range cs.Phases {
		ops := []string{}
		for _, op := range ph.Ops {
			ops = append(ops, r.exec(op))
			run.Count("op:" + op.Kind)
		}
		if cs.PinRefs && pi == 0 {
			pin = &runner{masters: append([]string{}, r.masters...), branches: append([]string{}, r.branches...)}
		}
		rds := []string{}
		for _, rr := range ph.Reads {
			if pin != nil {
				rr.Ref = pin.norm(rr.Ref)
			} else {
				rr.Ref = r.norm(rr.Ref)
			}
			u := r.uuidOf(rr.Ref)
			if u == "" {
				continue
			}
			run.Count("refread:" + rr.Read.Kind)
			rds = append(rds, fmt.Sprintf("((%s, %s), %s)", rr.Ref.term(), r.reqTerm(rr.Read), t.result(rr.Read, r.read(u, r.isOpen(rr.Ref), rr.Read))))
		}
		phases = append(phases, fmt.Sprintf("([%s],\n     [%s])", strings.Join(ops, ";\n      "), strings.Join(rds, ";\n      ")))
	}
	if len(cs.Phases) > 0 { // leave no configuration behind for the next case
		r.setConfig(OpSpec{})
	}

	// regexp oracle
	strs := []string{}
	for s := range r.strings {
		strs = append(strs, s)
	}
	sort.Strings(strs)
	rx := []string{}
	allReads := append([]ReadSpec{}, cs.Reads...)
	for _, ph := range cs.Phases {
		for _, rr := range ph.Reads {
			allReads = append(allReads, rr.Read)
		}
	}
	for _, p := range patterns(allReads) {
		re, err := regexp.Compile(p)
		if err != nil {
			rx = append(rx, fmt.Sprintf("(%s,None)", t.str(p)))
			continue
		}
		ms := []string{}
		for _, s := range strs {
			if re.Match([]byte(s)) {
				ms = append(ms, fmt.Sprintf("(%s,true)", t.str(s)))
			}
		}
		rx = append(rx, fmt.Sprintf("(%s,Some [%s])", t.str(p), strings.Join(ms, ";")))
	}

	// reads with let-sharing of identical results
	reads := []string{}
	for i, rs := range cs.Reads {
		run.Count("read:" + rs.Kind)
		names := map[string]string{}
		lets := []string{}
		refs := []string{}
		for _, x := range res[i] {
			if len(x) < 12 {
				refs = append(refs, x)
				continue
			}
			n, ok := names[x]
			if !ok {
				n = fmt.Sprintf("x%d", len(names))
				names[x] = n
				lets = append(lets, fmt.Sprintf("let %s := %s in", n, x))
			}
			refs = append(refs, n)
		}
		if len(names) > 1 {
			run.Count("read-paths-differ:" + rs.Kind)
		}
		reads = append(reads, fmt.Sprintf("(%s (%s, [%s]))", strings.Join(lets, " "), r.reqTerm(rs), strings.Join(refs, ";")))
	}
	return fmt.Sprintf("mkCase\n   [%s]\n   [%s]\n   [%s]\n   [%s]\n   [%s]\n   []\n   [%s]\n   []", strings.Join(hist, ";\n    "), strings.Join(rx, ";"), strings.Join(reads, ";\n    "), strings.Join(tail, ";\n    "), strings.Join(phases, ";\n    "), strings.Join(ro, ";\n    "))
}

func main() {
	o := lib.ParseOpts()
	rng := lib.NewRand(o.Seed)
	run := lib.NewRun("C16", o)
	t := &table{names: map[string]string{}}

	var specs []CaseSpec
	if o.Replay != "" {
		var c CaseSpec
		if err := lib.LoadReplay(o.Replay, &c); err != nil {
			fmt.Fprintln(os.Stderr, err)
			os.Exit(2)
		}
		specs = []CaseSpec{c}
	} else {
		specs = corpus()
		specs = append(specs, CaseSpec{Name: "scheduled"}) // pairs of overlapping requests (sched.go)
		specs = append(specs, CaseSpec{Name: "ordering"})  // repeated updates: map iteration order (ordering.go)
		n := 20
		if o.Thorough() {
			n = 90
		}
		if o.N > 0 {
			n = o.N
		}
		for i := 0; i < n; i++ {
			specs = append(specs, genCase(rng, fmt.Sprintf("random-%d", i), o.Thorough()))
		}
	}

	dv.Quiet()
	dv.Open()
	terms := make([]string, len(specs))
	for i := range specs {
		if specs[i].Tail == nil && o.Replay == "" && specs[i].Name != "scheduled" && specs[i].Name != "ordering" {
			specs[i].Tail = defaultTail(specs[i])
			if specs[i].ROQ == nil {
				specs[i].ROQ = defaultROQ(specs[i], rng)
			}
		}
	}
	for i, cs := range specs {
		if cs.Name == "scheduled" {
			terms[i] = runSchedules(t, run)
			continue
		}
		if cs.Name == "ordering" {
			terms[i] = runOrdering(t, run, o.Thorough())
			continue
		}
		terms[i] = runCase(t, cs, run)
	}
	dv.Close()

	// all nine repairs are fix: commits of /repo: the implementation must match the repaired model
	// (VERIF_C16_VARIANT=shipped|interim|repaired compares with another one)
	variant := "[repaired]"
	if v := os.Getenv("VERIF_C16_VARIANT"); v != "" {
		variant = "[" + v + "]"
	}
	run.Header("From Coq Require Import String.", "From DV Require Import Base.Prelude Model.NJ Model.NJQuery Model.NJOrd Model.NJRun.", "Local Open Scope string_scope.", "Local Open Scope N_scope.",
		"Definition impl_variants : list variant := "+variant+".")
	run.Header(t.defs...)
	for i, cs := range specs {
		kind := "random"
		if !strings.HasPrefix(cs.Name, "random") {
			kind = "corpus"
		}
		run.Add(kind, "("+terms[i]+")", cs, cs.Name+"/"+fmt.Sprint(len(cs.Ops))+"/"+fmt.Sprint(hashSpec(cs)))
	}
	rule := "histories of 12-22 requests (POST key plain/replace/conditional, POST keyvalues, DELETE, schema posts/deletes, commit, newversion, restart; rejected requests included) over ids of 1-3 digits and JSON values of every kind, each followed by 45-55 read requests (every endpoint, every query form) observed at six points; a case is distinct by its request list"
	if o.Replay != "" {
		rule = "replay"
	}
	run.Finish("c16case", rule, tail)
}

// two writes on the child: delete the first key the history posted, post a fresh annotation
func defaultTail(cs CaseSpec) []OpSpec {
	tail := []OpSpec{}
	for _, op := range cs.Ops {
		if op.Kind == "post" && op.Key != 0 {
			tail = append(tail, OpSpec{Kind: "delete", Key: op.Key})
			break
		}
	}
	return append(tail, OpSpec{Kind: "post", Key: 149, Body: `{"bodyid":149,"a":1,"s":"x","zz":"tail"}`},
		OpSpec{Kind: "metapost", Meta: 1, Val: `{"tail":1}`})
}

func hashSpec(cs CaseSpec) uint32 {
	b, _ := json.Marshal(cs)
	var h uint32 = 2166136261
	for _, x := range b {
		h = (h ^ uint32(x)) * 16777619
	}
	return h
}

const tail = `
Definition spec_fail := Eval vm_compute in c16_spec_fail cases.
Definition model_mismatch := Eval vm_compute in c16_model_mismatch impl_variants cases.
`
