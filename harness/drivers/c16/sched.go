package main

// Scheduled section: pairs of requests on ONE body id of the in-memory head, the first held at a
// yield point of storeAndUpdate (dvid/verifhook, build tag verif) while the second runs to
// completion — or blocks on the instance's update lock, which a timeout detects; then the first
// is released.  Afterwards the head (memory path) and its committed copy (store path) must answer
// alike for key, keys and the field lists.  No sequential model is involved: whichever order the
// two requests take effect in, memory and store must agree.

import (
	"fmt"
	"strings"
	"sync"
	"time"

	"github.com/janelia-flyem/dvid/dvid/verifhook"
	"verif/harness/dv"
	"verif/harness/lib"
)

var yieldSites = []string{"neuronjson.storeAndUpdate.read", "neuronjson.storeAndUpdate.store"}

type holder struct {
	mu      sync.Mutex
	armed   string
	parked  chan struct{}
	release chan struct{}
}

var hold = &holder{}

func (h *holder) callback(site string) {
	h.mu.Lock()
	if h.armed != site {
		h.mu.Unlock()
		return
	}
	h.armed = "" // only the first request that arrives is held
	p, r := h.parked, h.release
	h.mu.Unlock()
	close(p)
	<-r
}

func (h *holder) arm(site string) (parked chan struct{}, release chan struct{}) {
	h.mu.Lock()
	defer h.mu.Unlock()
	h.armed, h.parked, h.release = site, make(chan struct{}), make(chan struct{})
	return h.parked, h.release
}

type schedReq struct {
	Method string // POST or DELETE
	Query  string // extra query string (replace=true ...)
	Body   string
}

func (q schedReq) do(uuid string, id uint64, user string) dv.Resp {
	url := fmt.Sprintf("/api/node/%s/nj/key/%d?u=%s%s", uuid, id, user, q.Query)
	if q.Method == "DELETE" {
		return dv.Delete(url)
	}
	return dv.Post(url, []byte(strings.ReplaceAll(q.Body, "ID", fmt.Sprint(id))))
}

type schedule struct {
	Name   string
	Prior  bool // the body id has an annotation before the pair
	First  schedReq
	Site   string
	Second schedReq
}

func schedules() []schedule {
	partial := schedReq{"POST", "", `{"bodyid":ID,"c":2,"s":"new"}`}
	partial2 := schedReq{"POST", "", `{"bodyid":ID,"a":null,"f":[1,2]}`}
	replace := schedReq{"POST", "&replace=true", `{"bodyid":ID,"a":5}`}
	del := schedReq{"DELETE", "", ""}
	var out []schedule
	for _, site := range yieldSites {
		short := site[strings.LastIndex(site, ".")+1:]
		out = append(out,
			schedule{"post@" + short + " x delete", true, partial, site, del},
			schedule{"post@" + short + " x post-replace", true, partial, site, replace},
			schedule{"replace@" + short + " x post", true, replace, site, partial2},
			schedule{"first-post@" + short + " x delete", false, partial, site, del},
			schedule{"post@" + short + " x post", true, partial, site, partial2},
		)
	}
	return out
}

// runSchedules returns the term of the case "scheduled"
func runSchedules(t *table, run *lib.Run) string {
	repoSeq++
	root, err := dv.NewRepo(fmt.Sprintf("sched%d", repoSeq))
	if err != nil {
		panic(err)
	}
	if err := dv.NewInstance(root, "neuronjson", "nj", nil); err != nil {
		panic(err)
	}
	verifhook.Set(hold.callback)
	defer verifhook.Set(nil)

	var ids []uint64
	notes := []string{}
	for i, sc := range schedules() {
		id := uint64(200 + i)
		ids = append(ids, id)
		if sc.Prior {
			if r := dv.Post(fmt.Sprintf("/api/node/%s/nj/key/%d?u=prior", root, id), []byte(fmt.Sprintf(`{"bodyid":%d,"a":1,"b":"q"}`, id))); r.Status != 200 {
				panic(fmt.Sprintf("scheduled: prior POST failed: %d %s", r.Status, r.Body))
			}
		}
		parked, release := hold.arm(sc.Site)
		done1, done2 := make(chan dv.Resp, 1), make(chan dv.Resp, 1)
		go func() { done1 <- sc.First.do(root, id, "first") }()
		outcome := ""
		select {
		case <-parked:
			go func() { done2 <- sc.Second.do(root, id, "second") }()
			select {
			case <-done2:
				outcome = "second ran while first was held"
				done2 <- dv.Resp{Status: 200}
			case <-time.After(400 * time.Millisecond):
				outcome = "second blocked until first was released"
			}
			close(release)
		case r := <-done1: // the request never reached the site (rejected before it)
			done1 <- r
			outcome = "first not held"
			hold.arm("")
			go func() { done2 <- sc.Second.do(root, id, "second") }()
		case <-time.After(5 * time.Second):
			panic("scheduled: first request neither parked nor finished")
		}
		for _, ch := range []chan dv.Resp{done1, done2} {
			select {
			case r := <-ch:
				if isPanic(r) {
					notes = append(notes, sc.Name+": a request panicked")
				}
			case <-time.After(20 * time.Second):
				panic("scheduled: requests did not finish after the release (" + sc.Name + ")")
			}
		}
		run.Count("scheduled:" + outcome)
		run.Count("schedule:" + sc.Name)
	}
	verifhook.Set(nil)

	// memory path = the head after commit + newversion (same memdb), store path = the committed parent
	if r := dv.Commit(root); r.Status != 200 {
		panic(fmt.Sprintf("scheduled: commit: %d %s", r.Status, r.Body))
	}
	child, r := dv.NewVersion(root)
	if r.Status != 200 {
		panic(fmt.Sprintf("scheduled: newversion: %d %s", r.Status, r.Body))
	}
	rn := &runner{t: t, uuid: child, target: child, root: root, strings: map[string]bool{}}
	reads := []ReadSpec{{Kind: "keys"}, {Kind: "counts"}, {Kind: "fields"}, {Kind: "all", Show: 3}, {Kind: "keyrange", A: "0", B: "a"}}
	for _, id := range ids {
		reads = append(reads, ReadSpec{Kind: "key", ID: id, Show: 3}, ReadSpec{Kind: "headkey", ID: id})
	}
	terms := []string{}
	for _, rs := range reads {
		mem := t.result(rs, rn.read(child, true, rs))
		store := t.result(rs, rn.read(root, false, rs))
		if mem != store {
			run.Count("scheduled-paths-differ:" + rs.Kind)
		}
		terms = append(terms, fmt.Sprintf("(%s, [%s; %s])", rn.reqTerm(rs), mem, store))
	}
	run.Notes = append(run.Notes, notes...)
	return fmt.Sprintf("mkCase [] [] [] [] []\n   [%s] [] []", strings.Join(terms, ";\n    "))
}
