// Driver C08, geometry: a small label volume made of a few 16^3 blocks, boxes painted into it,
// and the lossless compact encodings (box lists, run boxes) used to hand arrays to Coq.
package main

import (
	"fmt"
	"sort"
	"strings"
)

// Geometry of one history.  All coordinates handed to Coq are LOCAL (relative to the volume
// origin); the origin block is only used when talking to DVID.
type Geom struct {
	BS  int    `json:"bs"`  // block edge in voxels
	Org [3]int `json:"org"` // block coordinate of the first block
	Dim [3]int `json:"dim"` // number of blocks per axis
	Lo  bool   `json:"lo,omitempty"` // instance with MaxDownresLevel 1; scale 1 is observed too
}

// Half is the geometry of the scale-1 volume (same blocks, half the edge).
func (g Geom) Half() Geom { return Geom{BS: g.BS / 2, Org: g.Org, Dim: g.Dim} }

func (g Geom) N() [3]int   { return [3]int{g.Dim[0] * g.BS, g.Dim[1] * g.BS, g.Dim[2] * g.BS} }
func (g Geom) NVox() int   { n := g.N(); return n[0] * n[1] * n[2] }
func (g Geom) NBlocks() int { return g.Dim[0] * g.Dim[1] * g.Dim[2] }
func (g Geom) Idx(x, y, z int) int {
	n := g.N()
	return (z*n[1]+y)*n[0] + x
}
func (g Geom) BlockOf(x, y, z int) [3]int { return [3]int{x / g.BS, y / g.BS, z / g.BS} }

// global DVID voxel offset of the volume
func (g Geom) Off() [3]int { return [3]int{g.Org[0] * g.BS, g.Org[1] * g.BS, g.Org[2] * g.BS} }

// Box: local voxel box with a label.
type Box struct {
	P [3]int `json:"p"`
	D [3]int `json:"d"`
	L uint64 `json:"l"`
}

func (g Geom) Paint(a []uint64, b Box) {
	for z := b.P[2]; z < b.P[2]+b.D[2]; z++ {
		for y := b.P[1]; y < b.P[1]+b.D[1]; y++ {
			base := g.Idx(0, y, z)
			for x := b.P[0]; x < b.P[0]+b.D[0]; x++ {
				a[base+x] = b.L
			}
		}
	}
}

func (g Geom) PaintAll(boxes []Box) []uint64 {
	a := make([]uint64, g.NVox())
	for _, b := range boxes {
		g.Paint(a, b)
	}
	return a
}

// DiffBoxes returns boxes which, painted over `from`, give `to` (greedy, exact).
func (g Geom) DiffBoxes(from, to []uint64) []Box {
	n := g.N()
	done := make([]bool, len(to))
	var out []Box
	for z := 0; z < n[2]; z++ {
		for y := 0; y < n[1]; y++ {
			for x := 0; x < n[0]; x++ {
				i := g.Idx(x, y, z)
				if done[i] || from[i] == to[i] {
					continue
				}
				l := to[i]
				ok := func(xx, yy, zz int) bool {
					j := g.Idx(xx, yy, zz)
					return !done[j] && to[j] == l && from[j] != to[j]
				}
				dx := 1
				for x+dx < n[0] && ok(x+dx, y, z) {
					dx++
				}
				dy := 1
			growY:
				for y+dy < n[1] {
					for xx := x; xx < x+dx; xx++ {
						if !ok(xx, y+dy, z) {
							break growY
						}
					}
					dy++
				}
				dz := 1
			growZ:
				for z+dz < n[2] {
					for yy := y; yy < y+dy; yy++ {
						for xx := x; xx < x+dx; xx++ {
							if !ok(xx, yy, z+dz) {
								break growZ
							}
						}
					}
					dz++
				}
				for zz := z; zz < z+dz; zz++ {
					for yy := y; yy < y+dy; yy++ {
						for xx := x; xx < x+dx; xx++ {
							done[g.Idx(xx, yy, zz)] = true
						}
					}
				}
				out = append(out, Box{[3]int{x, y, z}, [3]int{dx, dy, dz}, l})
			}
		}
	}
	return out
}

func equalU64(a, b []uint64) bool {
	if len(a) != len(b) {
		return false
	}
	for i := range a {
		if a[i] != b[i] {
			return false
		}
	}
	return true
}

// Run: x-run of voxels (local coordinates).
type Run struct {
	P [3]int `json:"p"`
	N int    `json:"n"`
}

// RunBox: ny*nz runs of the same x-extent stacked in y then z.
type RunBox struct {
	P      [3]int
	N      int
	NY, NZ int
}

// PackRuns groups a multiset of runs into run boxes (lossless up to order).
func PackRuns(runs []Run) []RunBox {
	rs := append([]Run(nil), runs...)
	sort.Slice(rs, func(i, j int) bool {
		a, b := rs[i], rs[j]
		if a.P[0] != b.P[0] {
			return a.P[0] < b.P[0]
		}
		if a.N != b.N {
			return a.N < b.N
		}
		if a.P[2] != b.P[2] {
			return a.P[2] < b.P[2]
		}
		return a.P[1] < b.P[1]
	})
	// first stack in y
	type yb struct {
		x, n, y, z, ny int
	}
	var ys []yb
	for _, r := range rs {
		if k := len(ys) - 1; k >= 0 && ys[k].x == r.P[0] && ys[k].n == r.N && ys[k].z == r.P[2] && ys[k].y+ys[k].ny == r.P[1] {
			ys[k].ny++
			continue
		}
		ys = append(ys, yb{r.P[0], r.N, r.P[1], r.P[2], 1})
	}
	sort.SliceStable(ys, func(i, j int) bool {
		a, b := ys[i], ys[j]
		if a.x != b.x {
			return a.x < b.x
		}
		if a.n != b.n {
			return a.n < b.n
		}
		if a.y != b.y {
			return a.y < b.y
		}
		if a.ny != b.ny {
			return a.ny < b.ny
		}
		return a.z < b.z
	})
	var out []RunBox
	for _, r := range ys {
		if k := len(out) - 1; k >= 0 && out[k].P[0] == r.x && out[k].N == r.n && out[k].P[1] == r.y && out[k].NY == r.ny && out[k].P[2]+out[k].NZ == r.z {
			out[k].NZ++
			continue
		}
		out = append(out, RunBox{[3]int{r.x, r.y, r.z}, r.n, r.ny, 1})
	}
	return out
}

// ---- Coq printers ----

func cq3(p [3]int) string { return fmt.Sprintf("(%d,%d,%d)", p[0], p[1], p[2]) }

func cqBox(b Box) string { return fmt.Sprintf("(%s,%s,%d)", cq3(b.P), cq3(b.D), b.L) }
func cqBoxes(bs []Box) string {
	ss := make([]string, len(bs))
	for i, b := range bs {
		ss[i] = cqBox(b)
	}
	return "[" + strings.Join(ss, ";") + "]"
}
func cqRunBoxes(rs []RunBox) string {
	ss := make([]string, len(rs))
	for i, r := range rs {
		ss[i] = fmt.Sprintf("(%s,%d,%d,%d)", cq3(r.P), r.N, r.NY, r.NZ)
	}
	return "[" + strings.Join(ss, ";") + "]"
}
func cqRuns(rs []Run) string {
	ss := make([]string, len(rs))
	for i, r := range rs {
		ss[i] = fmt.Sprintf("(%s,%d)", cq3(r.P), r.N)
	}
	return "[" + strings.Join(ss, ";") + "]"
}
func cqNs(xs []uint64) string {
	ss := make([]string, len(xs))
	for i, x := range xs {
		ss[i] = fmt.Sprintf("%d", x)
	}
	return "[" + strings.Join(ss, ";") + "]"
}
func cq3s(ps [][3]int) string {
	ss := make([]string, len(ps))
	for i, p := range ps {
		ss[i] = cq3(p)
	}
	return "[" + strings.Join(ss, ";") + "]"
}
func cqPairs(ps [][2]uint64) string {
	ss := make([]string, len(ps))
	for i, p := range ps {
		ss[i] = fmt.Sprintf("(%d,%d)", p[0], p[1])
	}
	return "[" + strings.Join(ss, ";") + "]"
}
