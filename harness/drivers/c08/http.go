// Driver C08: the labelmap HTTP endpoints used by the histories, and decoders of their answers.
package main

import (
	"bytes"
	"compress/gzip"
	"encoding/binary"
	"encoding/json"
	"fmt"
	"io"
	"sort"
	"strconv"
	"strings"

	pb "google.golang.org/protobuf/proto"

	"github.com/janelia-flyem/dvid/datatype/common/labels"
	"github.com/janelia-flyem/dvid/datatype/common/proto"
	"github.com/janelia-flyem/dvid/dvid"

	"verif/harness/dv"
)

const inst = "seg"

type Srv struct {
	g Geom
}

func (s Srv) url(uuid, rest string) string { return "/api/node/" + uuid + "/" + inst + "/" + rest }

// A tri-state answer: value, 404, or another error.
const (
	stOK = iota
	stNotFound
	stErr
)

func status(r dv.Resp) int {
	switch {
	case r.Status == 200:
		return stOK
	case r.Status == 404:
		return stNotFound
	default:
		return stErr
	}
}

// ---- blocks ----

func u64bytes(a []uint64) []byte {
	b := make([]byte, 8*len(a))
	for i, x := range a {
		binary.LittleEndian.PutUint64(b[8*i:], x)
	}
	return b
}
func bytesU64(b []byte) []uint64 {
	a := make([]uint64, len(b)/8)
	for i := range a {
		a[i] = binary.LittleEndian.Uint64(b[8*i:])
	}
	return a
}

// blockArray extracts the label array of one local block from a volume array.
func (g Geom) blockArray(vol []uint64, b [3]int) []uint64 {
	out := make([]uint64, 0, g.BS*g.BS*g.BS)
	for z := 0; z < g.BS; z++ {
		for y := 0; y < g.BS; y++ {
			i := g.Idx(b[0]*g.BS, b[1]*g.BS+y, b[2]*g.BS+z)
			out = append(out, vol[i:i+g.BS]...)
		}
	}
	return out
}

func (g Geom) setBlockArray(vol []uint64, b [3]int, arr []uint64) {
	k := 0
	for z := 0; z < g.BS; z++ {
		for y := 0; y < g.BS; y++ {
			i := g.Idx(b[0]*g.BS, b[1]*g.BS+y, b[2]*g.BS+z)
			copy(vol[i:i+g.BS], arr[k:k+g.BS])
			k += g.BS
		}
	}
}

// blockStream builds the POST /blocks (and /ingest-supervoxels) body for the given local blocks.
func (s Srv) blockStream(vol []uint64, blocks [][3]int) ([]byte, error) {
	var buf bytes.Buffer
	bs := int32(s.g.BS)
	for _, b := range blocks {
		arr := s.g.blockArray(vol, b)
		blk, err := labels.MakeBlock(u64bytes(arr), dvid.Point3d{bs, bs, bs})
		if err != nil {
			return nil, err
		}
		gz, err := blk.CompressGZIP()
		if err != nil {
			return nil, err
		}
		for i := 0; i < 3; i++ {
			binary.Write(&buf, binary.LittleEndian, int32(b[i]+s.g.Org[i]))
		}
		binary.Write(&buf, binary.LittleEndian, int32(len(gz)))
		buf.Write(gz)
	}
	return buf.Bytes(), nil
}

// getBlocks reads GET blocks?compression=blocks over the whole volume; returns the volume array
// (absent blocks zero) and the list of present local blocks (sorted).
func (s Srv) getBlocks(uuid string, supervoxels bool) (vol []uint64, present [][3]int, st int, err error) {
	n, off := s.g.N(), s.g.Off()
	r := tr.Get(s.url(uuid, fmt.Sprintf("blocks/%d_%d_%d/%d_%d_%d?compression=blocks&supervoxels=%t", n[0], n[1], n[2], off[0], off[1], off[2], supervoxels)))
	st = status(r)
	vol = make([]uint64, s.g.NVox())
	if st != stOK {
		return vol, nil, st, fmt.Errorf("GET blocks: %d %s", r.Status, r.Body)
	}
	data := r.Body
	b := 0
	for b < len(data) {
		if b+16 > len(data) {
			return vol, present, stErr, fmt.Errorf("GET blocks: truncated header")
		}
		var c [3]int
		for i := 0; i < 3; i++ {
			c[i] = int(int32(binary.LittleEndian.Uint32(data[b+4*i:]))) - s.g.Org[i]
		}
		nb := int(binary.LittleEndian.Uint32(data[b+12:]))
		b += 16
		if b+nb > len(data) {
			return vol, present, stErr, fmt.Errorf("GET blocks: truncated block")
		}
		zr, e := gzip.NewReader(bytes.NewReader(data[b : b+nb]))
		if e != nil {
			return vol, present, stErr, e
		}
		unc, e := io.ReadAll(zr)
		if e != nil {
			return vol, present, stErr, e
		}
		var blk labels.Block
		if e = blk.UnmarshalBinary(unc); e != nil {
			return vol, present, stErr, e
		}
		arr, _ := blk.MakeLabelVolume()
		if c[0] < 0 || c[1] < 0 || c[2] < 0 || c[0] >= s.g.Dim[0] || c[1] >= s.g.Dim[1] || c[2] >= s.g.Dim[2] {
			return vol, present, stErr, fmt.Errorf("GET blocks: block %v outside the requested volume", c)
		}
		s.g.setBlockArray(vol, c, bytesU64(arr))
		present = append(present, c)
		b += nb
	}
	sort.Slice(present, func(i, j int) bool {
		a, c := present[i], present[j]
		if a[2] != c[2] {
			return a[2] < c[2]
		}
		if a[1] != c[1] {
			return a[1] < c[1]
		}
		return a[0] < c[0]
	})
	return vol, present, stOK, nil
}

func (s Srv) getRaw(uuid string, supervoxels bool) ([]uint64, int) {
	n, off := s.g.N(), s.g.Off()
	r := tr.Get(s.url(uuid, fmt.Sprintf("raw/0_1_2/%d_%d_%d/%d_%d_%d?supervoxels=%t", n[0], n[1], n[2], off[0], off[1], off[2], supervoxels)))
	if status(r) != stOK || len(r.Body) != 8*s.g.NVox() {
		return make([]uint64, s.g.NVox()), stErr
	}
	return bytesU64(r.Body), stOK
}

// getRawLo reads the whole volume at scale 1.
func (s Srv) getRawLo(uuid string, supervoxels bool) ([]uint64, int) {
	h := s.g.Half()
	n, off := h.N(), h.Off()
	r := tr.Get(s.url(uuid, fmt.Sprintf("raw/0_1_2/%d_%d_%d/%d_%d_%d?scale=1&supervoxels=%t", n[0], n[1], n[2], off[0], off[1], off[2], supervoxels)))
	if status(r) != stOK || len(r.Body) != 8*h.NVox() {
		return make([]uint64, h.NVox()), stErr
	}
	return bytesU64(r.Body), stOK
}

// postRaw writes a block-aligned region (local block box) of `vol`.
func (s Srv) postRaw(uuid string, vol []uint64, b0, nb [3]int, mutate bool) dv.Resp {
	bs := s.g.BS
	sub := make([]uint64, 0, nb[0]*nb[1]*nb[2]*bs*bs*bs)
	for z := b0[2] * bs; z < (b0[2]+nb[2])*bs; z++ {
		for y := b0[1] * bs; y < (b0[1]+nb[1])*bs; y++ {
			i := s.g.Idx(b0[0]*bs, y, z)
			sub = append(sub, vol[i:i+nb[0]*bs]...)
		}
	}
	off := s.g.Off()
	u := s.url(uuid, fmt.Sprintf("raw/0_1_2/%d_%d_%d/%d_%d_%d", nb[0]*bs, nb[1]*bs, nb[2]*bs, off[0]+b0[0]*bs, off[1]+b0[1]*bs, off[2]+b0[2]*bs))
	if mutate {
		u += "?mutate=true"
	}
	return tr.Post(u, u64bytes(sub))
}

// ---- per-label reads ----

func jsonNum(body []byte, key string) (uint64, bool) {
	var m map[string]json.Number
	d := json.NewDecoder(bytes.NewReader(body))
	d.UseNumber()
	if err := d.Decode(&m); err != nil {
		return 0, false
	}
	v, ok := m[key]
	if !ok {
		return 0, false
	}
	n, err := strconv.ParseUint(string(v), 10, 64)
	return n, err == nil
}

func jsonList(body []byte) ([]uint64, bool) {
	var l []json.Number
	d := json.NewDecoder(bytes.NewReader(body))
	d.UseNumber()
	if err := d.Decode(&l); err != nil {
		return nil, false
	}
	out := make([]uint64, len(l))
	for i, v := range l {
		n, err := strconv.ParseUint(string(v), 10, 64)
		if err != nil {
			return nil, false
		}
		out[i] = n
	}
	return out, true
}

func u64json(xs []uint64) []byte {
	ss := make([]string, len(xs))
	for i, x := range xs {
		ss[i] = strconv.FormatUint(x, 10)
	}
	return []byte("[" + strings.Join(ss, ",") + "]")
}

// Tri is a number with a status.
type Tri struct {
	St int
	V  uint64
}

func (s Srv) getSize(uuid string, label uint64, sv bool) Tri {
	r := tr.Get(s.url(uuid, fmt.Sprintf("size/%d?supervoxels=%t", label, sv)))
	st := status(r)
	if st != stOK {
		return Tri{St: st}
	}
	v, ok := jsonNum(r.Body, "voxels")
	if !ok {
		return Tri{St: stErr}
	}
	return Tri{stOK, v}
}

func (s Srv) getSizes(uuid string, lbls []uint64, sv bool) ([]uint64, int) {
	r := tr.Do("GET", s.url(uuid, fmt.Sprintf("sizes?supervoxels=%t", sv)), u64json(lbls))
	if status(r) != stOK {
		return nil, status(r)
	}
	l, ok := jsonList(r.Body)
	if !ok || len(l) != len(lbls) {
		return nil, stErr
	}
	return l, stOK
}

func (s Srv) getSupervoxels(uuid string, label uint64) ([]uint64, int) {
	r := tr.Get(s.url(uuid, fmt.Sprintf("supervoxels/%d", label)))
	if status(r) != stOK {
		return nil, status(r)
	}
	l, ok := jsonList(r.Body)
	if !ok {
		return nil, stErr
	}
	sort.Slice(l, func(i, j int) bool { return l[i] < l[j] })
	return l, stOK
}

func (s Srv) getSupervoxelSizes(uuid string, label uint64) ([][2]uint64, int) {
	r := tr.Get(s.url(uuid, fmt.Sprintf("supervoxel-sizes/%d", label)))
	if status(r) != stOK {
		return nil, status(r)
	}
	var m struct {
		Supervoxels []json.Number `json:"supervoxels"`
		Sizes       []json.Number `json:"sizes"`
	}
	d := json.NewDecoder(bytes.NewReader(r.Body))
	d.UseNumber()
	if err := d.Decode(&m); err != nil || len(m.Supervoxels) != len(m.Sizes) {
		return nil, stErr
	}
	out := make([][2]uint64, len(m.Sizes))
	for i := range m.Sizes {
		a, e1 := strconv.ParseUint(string(m.Supervoxels[i]), 10, 64)
		b, e2 := strconv.ParseUint(string(m.Sizes[i]), 10, 64)
		if e1 != nil || e2 != nil {
			return nil, stErr
		}
		out[i] = [2]uint64{a, b}
	}
	sort.Slice(out, func(i, j int) bool { return out[i][0] < out[j][0] })
	return out, stOK
}

// IdxEntry: one (block, supervoxel, count) triple of a label index, block in local coordinates.
type IdxEntry struct {
	B  [3]int
	SV uint64
	C  uint64
}

func (s Srv) getIndex(uuid string, label uint64) ([]IdxEntry, uint64, int) {
	r := tr.Get(s.url(uuid, fmt.Sprintf("index/%d", label)))
	if status(r) != stOK {
		return nil, 0, status(r)
	}
	var idx proto.LabelIndex
	if err := pb.Unmarshal(r.Body, &idx); err != nil {
		return nil, 0, stErr
	}
	var out []IdxEntry
	for zyx, svc := range idx.Blocks {
		x, y, z := labels.DecodeBlockIndex(zyx)
		b := [3]int{int(x) - s.g.Org[0], int(y) - s.g.Org[1], int(z) - s.g.Org[2]}
		if svc == nil || len(svc.Counts) == 0 {
			// a block entry with no counts: reported with supervoxel 0 count 0 so that it is visible
			out = append(out, IdxEntry{b, 0, 0})
			continue
		}
		for sv, c := range svc.Counts {
			out = append(out, IdxEntry{b, sv, uint64(c)})
		}
	}
	sort.Slice(out, func(i, j int) bool {
		a, c := out[i], out[j]
		if a.B != c.B {
			if a.B[2] != c.B[2] {
				return a.B[2] < c.B[2]
			}
			if a.B[1] != c.B[1] {
				return a.B[1] < c.B[1]
			}
			return a.B[0] < c.B[0]
		}
		return a.SV < c.SV
	})
	return out, idx.Label, stOK
}

func (s Srv) parseRLEs(body []byte, blockCoords bool) ([]Run, bool) {
	if len(body) == 0 {
		return nil, true
	}
	if len(body) < 12 {
		return nil, false
	}
	n := int(binary.LittleEndian.Uint32(body[8:12]))
	if len(body) != 12+16*n {
		return nil, false
	}
	off := s.g.Off()
	if blockCoords {
		off = s.g.Org
	}
	out := make([]Run, n)
	for i := 0; i < n; i++ {
		p := body[12+16*i:]
		out[i] = Run{[3]int{int(int32(binary.LittleEndian.Uint32(p[0:]))) - off[0], int(int32(binary.LittleEndian.Uint32(p[4:]))) - off[1], int(int32(binary.LittleEndian.Uint32(p[8:]))) - off[2]},
			int(int32(binary.LittleEndian.Uint32(p[12:])))}
	}
	// the order of runs in the answer varies between calls (blocks are processed concurrently);
	// runs are compared as a multiset
	sort.Slice(out, func(i, j int) bool {
		a, b := out[i], out[j]
		if a.P[2] != b.P[2] {
			return a.P[2] < b.P[2]
		}
		if a.P[1] != b.P[1] {
			return a.P[1] < b.P[1]
		}
		if a.P[0] != b.P[0] {
			return a.P[0] < b.P[0]
		}
		return a.N < b.N
	})
	return out, true
}

func (s Srv) getSparsevol(uuid string, label uint64, sv bool) ([]Run, int) {
	r := tr.Get(s.url(uuid, fmt.Sprintf("sparsevol/%d?format=rles&supervoxels=%t", label, sv)))
	if status(r) != stOK {
		return nil, status(r)
	}
	runs, ok := s.parseRLEs(r.Body, false)
	if !ok {
		return nil, stErr
	}
	return runs, stOK
}

func (s Srv) getCoarse(uuid string, label uint64) ([]Run, int) {
	r := tr.Get(s.url(uuid, fmt.Sprintf("sparsevol-coarse/%d", label)))
	if status(r) != stOK {
		return nil, status(r)
	}
	runs, ok := s.parseRLEs(r.Body, true)
	if !ok {
		return nil, stErr
	}
	return runs, stOK
}

type SVolSize struct {
	Voxels, NumBlocks uint64
	Min, Max          [3]int
}

func (s Srv) getSparsevolSize(uuid string, label uint64) (SVolSize, int) {
	r := tr.Get(s.url(uuid, fmt.Sprintf("sparsevol-size/%d", label)))
	if status(r) != stOK {
		return SVolSize{}, status(r)
	}
	var m struct {
		Voxels    uint64 `json:"voxels"`
		NumBlocks uint64 `json:"numblocks"`
		MinVoxel  [3]int `json:"minvoxel"`
		MaxVoxel  [3]int `json:"maxvoxel"`
	}
	if err := json.Unmarshal(r.Body, &m); err != nil {
		return SVolSize{}, stErr
	}
	off := s.g.Off()
	o := SVolSize{Voxels: m.Voxels, NumBlocks: m.NumBlocks}
	for i := 0; i < 3; i++ {
		o.Min[i] = m.MinVoxel[i] - off[i]
		o.Max[i] = m.MaxVoxel[i] - off[i]
	}
	return o, stOK
}

func (s Srv) getLabelAt(uuid string, p [3]int, sv bool) Tri {
	off := s.g.Off()
	r := tr.Get(s.url(uuid, fmt.Sprintf("label/%d_%d_%d?supervoxels=%t", p[0]+off[0], p[1]+off[1], p[2]+off[2], sv)))
	if status(r) != stOK {
		return Tri{St: status(r)}
	}
	v, ok := jsonNum(r.Body, "Label")
	if !ok {
		return Tri{St: stErr}
	}
	return Tri{stOK, v}
}

func (s Srv) getLabels(uuid string, pts [][3]int, sv bool) ([]uint64, int) {
	off := s.g.Off()
	ss := make([]string, len(pts))
	for i, p := range pts {
		ss[i] = fmt.Sprintf("[%d,%d,%d]", p[0]+off[0], p[1]+off[1], p[2]+off[2])
	}
	r := tr.Do("GET", s.url(uuid, fmt.Sprintf("labels?supervoxels=%t", sv)), []byte("["+strings.Join(ss, ",")+"]"))
	if status(r) != stOK {
		return nil, status(r)
	}
	l, ok := jsonList(r.Body)
	if !ok || len(l) != len(pts) {
		return nil, stErr
	}
	return l, stOK
}

func (s Srv) getMapping(uuid string, svs []uint64) ([]uint64, int) {
	r := tr.Do("GET", s.url(uuid, "mapping"), u64json(svs))
	if status(r) != stOK {
		return nil, status(r)
	}
	l, ok := jsonList(r.Body)
	if !ok || len(l) != len(svs) {
		return nil, stErr
	}
	return l, stOK
}

func (s Srv) getMappings(uuid string) ([][2]uint64, int) {
	r := tr.Get(s.url(uuid, "mappings"))
	if status(r) != stOK {
		return nil, status(r)
	}
	var out [][2]uint64
	for _, line := range strings.Split(string(r.Body), "\n") {
		f := strings.Fields(line)
		if len(f) == 0 {
			continue
		}
		if len(f) != 2 {
			return nil, stErr
		}
		a, e1 := strconv.ParseUint(f[0], 10, 64)
		b, e2 := strconv.ParseUint(f[1], 10, 64)
		if e1 != nil || e2 != nil {
			return nil, stErr
		}
		out = append(out, [2]uint64{a, b})
	}
	sort.Slice(out, func(i, j int) bool { return out[i][0] < out[j][0] })
	return out, stOK
}

func (s Srv) getListLabels(uuid string) ([][2]uint64, int) {
	r := tr.Get(s.url(uuid, "listlabels?sizes=true"))
	if status(r) != stOK || len(r.Body)%16 != 0 {
		return nil, stErr
	}
	var out [][2]uint64
	for i := 0; i+16 <= len(r.Body); i += 16 {
		out = append(out, [2]uint64{binary.LittleEndian.Uint64(r.Body[i:]), binary.LittleEndian.Uint64(r.Body[i+8:])})
	}
	return out, stOK
}

func (s Srv) getMaxLabel(uuid string) Tri {
	r := tr.Get(s.url(uuid, "maxlabel"))
	if status(r) != stOK {
		return Tri{St: status(r)}
	}
	v, ok := jsonNum(r.Body, "maxlabel")
	if !ok {
		return Tri{St: stErr}
	}
	return Tri{stOK, v}
}

// ---- mutations ----

func (s Srv) rleBody(runs []Run) []byte {
	var buf bytes.Buffer
	buf.WriteByte(dvid.EncodingBinary)
	buf.WriteByte(3)
	buf.WriteByte(0)
	buf.WriteByte(0)
	binary.Write(&buf, binary.LittleEndian, uint32(0))
	binary.Write(&buf, binary.LittleEndian, uint32(len(runs)))
	off := s.g.Off()
	for _, r := range runs {
		binary.Write(&buf, binary.LittleEndian, int32(r.P[0]+off[0]))
		binary.Write(&buf, binary.LittleEndian, int32(r.P[1]+off[1]))
		binary.Write(&buf, binary.LittleEndian, int32(r.P[2]+off[2]))
		binary.Write(&buf, binary.LittleEndian, int32(r.N))
	}
	return buf.Bytes()
}

func (s Srv) encBlock(b [3]int) uint64 {
	return labels.EncodeBlockIndex(int32(b[0]+s.g.Org[0]), int32(b[1]+s.g.Org[1]), int32(b[2]+s.g.Org[2]))
}

// indicesBody builds a LabelIndices protobuf for bodies given as body -> entries.
func (s Srv) indicesBody(bodies map[uint64][]IdxEntry) ([]byte, error) {
	var li proto.LabelIndices
	keys := make([]uint64, 0, len(bodies))
	for k := range bodies {
		keys = append(keys, k)
	}
	sort.Slice(keys, func(i, j int) bool { return keys[i] < keys[j] })
	for _, body := range keys {
		idx := &proto.LabelIndex{Label: body, Blocks: map[uint64]*proto.SVCount{}}
		for _, e := range bodies[body] {
			zyx := s.encBlock(e.B)
			svc := idx.Blocks[zyx]
			if svc == nil {
				svc = &proto.SVCount{Counts: map[uint64]uint32{}}
				idx.Blocks[zyx] = svc
			}
			svc.Counts[e.SV] = uint32(e.C)
		}
		li.Indices = append(li.Indices, idx)
	}
	return pb.Marshal(&li)
}

func mappingsBody(groups map[uint64][]uint64) ([]byte, error) {
	var ops proto.MappingOps
	keys := make([]uint64, 0, len(groups))
	for k := range groups {
		keys = append(keys, k)
	}
	sort.Slice(keys, func(i, j int) bool { return keys[i] < keys[j] })
	for _, body := range keys {
		ops.Mappings = append(ops.Mappings, &proto.MappingOp{Mutid: 1, Mapped: body, Original: groups[body]})
	}
	return pb.Marshal(&ops)
}
