// Driver C08: writing executed histories as compact Coq terms (Model/LabelMapRun.v types).
package main

import (
	"encoding/json"
	"fmt"
	"os"
	"sort"
	"strings"

	"verif/harness/lib"
)

func (g Geom) bidOf(b [3]int) uint64 { return uint64(b[0]) + 1024*uint64(b[1]) + 1048576*uint64(b[2]) }

func cqTri(t Tri) string {
	switch t.St {
	case stOK:
		return fmt.Sprintf("(TOk %d)", t.V)
	case stNotFound:
		return "TNotFound"
	}
	return "TErr"
}

func cqOpt(st int, v string) string {
	if st == stOK {
		return "(Some " + v + ")"
	}
	return "None"
}

func (g Geom) cqLabelObs(b *BodyObs, v *SVObs) string {
	idx := make([]string, len(b.Index))
	for i, e := range b.Index {
		idx[i] = fmt.Sprintf("((%d,%d),%d)", g.bidOf(e.B), e.SV, e.C)
	}
	ss := fmt.Sprintf("(%d,%d,%s,%s)", b.SSize.Voxels, b.SSize.NumBlocks, cq3(b.SSize.Min), cq3(b.SSize.Max))
	return fmt.Sprintf("(B %s %d %s %s %s %s %s %s %s %d %d %s)",
		cqTri(b.Size), b.SizesE, cqOpt(b.SVsSt, cqNs(b.SVs)), cqOpt(b.SVSzSt, cqPairs(b.SVSizes)),
		cqOpt(b.IdxSt, "["+strings.Join(idx, ";")+"]"),
		cqOpt(b.SparseSt, cqRunBoxes(PackRuns(b.Sparse))), cqOpt(b.CoarseSt, cqRuns(b.Coarse)), cqOpt(b.SSizeSt, ss),
		cqTri(v.Size), v.SizesE, v.Map, cqOpt(v.SparseS, cqRunBoxes(PackRuns(v.Sparse))))
}

type emitted struct {
	sn     *Snap
	labels map[uint64]string
}

func cqDelta(same bool, v string) string {
	if same {
		return "Same"
	}
	return "(New " + v + ")"
}

func (e *Exec) cqSnap(sn *Snap, base *emitted, baseVer int) (string, *emitted) {
	g := e.h.G
	em := &emitted{sn: sn, labels: map[uint64]string{}}
	zero := make([]uint64, g.NVox())
	bSV, bBM := zero, zero
	hg := g.Half()
	bLo, bLoM := make([]uint64, hg.NVox()), make([]uint64, hg.NVox())
	if base != nil && g.Lo {
		bLo, bLoM = base.sn.LoSV, base.sn.LoMapped
	}
	lo, lom := "[]", "[]"
	if g.Lo {
		lo, lom = cqBoxes(hg.DiffBoxes(bLo, sn.LoSV)), cqBoxes(hg.DiffBoxes(bLoM, sn.LoMapped))
	}
	var bPresent [][3]int
	var bMappings, bList [][2]uint64
	var bPts []PtObs
	baseStr := "None"
	if base != nil {
		bSV, bBM = base.sn.SV, base.sn.BlkMapped
		bPresent, bMappings, bList, bPts = base.sn.Present, base.sn.Mappings, base.sn.ListLabels, base.sn.Pts
		baseStr = fmt.Sprintf("(Some %d)", baseVer)
	}
	pres := make([]uint64, len(sn.Present))
	for i, b := range sn.Present {
		pres[i] = g.bidOf(b)
	}
	var labs []string
	for _, l := range e.universe {
		b, ok := sn.Bodies[l]
		if !ok {
			continue
		}
		t := g.cqLabelObs(b, sn.SVs[l])
		em.labels[l] = t
		if base == nil || base.labels[l] != t {
			labs = append(labs, fmt.Sprintf("(%d,%s)", l, t))
		}
	}
	pts := make([]string, len(sn.Pts))
	for i, p := range sn.Pts {
		pts[i] = fmt.Sprintf("(%s,(%d,%d,%d,%d))", cq3(p.P), p.One, p.OneSV, p.Many, p.ManySV)
	}
	s := fmt.Sprintf("(S %d %s %d %s %s %s %s %s [%s] %s %s %s %s %s %s)",
		sn.Ver, baseStr, len(sn.ReadErr),
		cqDelta(base != nil && fmt.Sprint(bPresent) == fmt.Sprint(sn.Present), cqNs(pres)),
		cqBoxes(g.DiffBoxes(bSV, sn.SV)), cqBoxes(g.DiffBoxes(sn.SV, sn.RawSV)),
		cqBoxes(g.DiffBoxes(bBM, sn.BlkMapped)), cqBoxes(g.DiffBoxes(sn.BlkMapped, sn.RawMapped)),
		strings.Join(labs, ";"),
		cqDelta(base != nil && fmt.Sprint(bMappings) == fmt.Sprint(sn.Mappings), cqPairs(sn.Mappings)),
		cqTri(sn.MaxLabel),
		cqDelta(base != nil && fmt.Sprint(bList) == fmt.Sprint(sn.ListLabels), cqPairs(sn.ListLabels)),
		cqDelta(base != nil && fmt.Sprint(bPts) == fmt.Sprint(sn.Pts), "["+strings.Join(pts, ";")+"]"), lo, lom)
	return s, em
}

func cqBids(g Geom, bs [][3]int) string {
	xs := make([]uint64, len(bs))
	for i, b := range bs {
		xs[i] = g.bidOf(b)
	}
	return cqNs(xs)
}

func (e *Exec) cqReq(op Op) string {
	g := e.h.G
	switch op.K {
	case "ingest":
		via := map[string]int{"blocks": 0, "raw": 1, "offline": 2}[op.Via]
		gs := make([]string, len(op.Groups))
		for i, gr := range op.Groups {
			gs[i] = fmt.Sprintf("(%d,%s)", gr[0], cqNs(gr[1:]))
		}
		return fmt.Sprintf("(RIngest %d %d %s [%s])", op.V, via, cqBids(g, op.Blocks), strings.Join(gs, ";"))
	case "write":
		return fmt.Sprintf("(RWrite %d %s %s %s)", op.V, cq3(op.B0), cq3(op.NB), cqBoxes(op.Boxes))
	case "merge":
		return fmt.Sprintf("(RMerge %d %d %s)", op.V, op.Target, cqNs(op.Labels))
	case "cleave":
		return fmt.Sprintf("(RCleave %d %d %s)", op.V, op.Target, cqNs(op.Labels))
	case "splitsv":
		return fmt.Sprintf("(RSplitSV %d %d %s %d %d)", op.V, op.Target, cqRuns(op.Runs), op.Split, op.Remain)
	case "renumber":
		return fmt.Sprintf("(RRenumber %d %d %d)", op.V, op.Old, op.New)
	case "split":
		return fmt.Sprintf("(RSplit %d %d %s)", op.V, op.Target, cqRuns(op.Runs))
	case "commit":
		return fmt.Sprintf("(RCommit %d)", op.V)
	case "newversion", "branch":
		return fmt.Sprintf("(RNewVersion %d %d)", op.V, op.Child)
	case "dagmerge":
		return fmt.Sprintf("(RDagMerge %d %s %d)", op.V, cqNs(op.Labels), op.Child)
	case "restart":
		return "RRestart"
	}
	return "RObserve"
}

// splitRet: what a body split handed out, recovered from the voxels before and after:
// new label, then (supervoxel, split label, remain label) triples.  SplitStats draws the two
// labels of a supervoxel one after the other (labels.go:229-236), so remain = split + 1.
func (e *Exec) splitRet(st *Step, before []uint64) []uint64 {
	if !st.Resp.OK || len(st.Resp.Labels) == 0 || len(st.Snaps) == 0 {
		return st.Resp.Labels
	}
	g := e.h.G
	mask := make([]bool, g.NVox())
	for _, r := range st.Op.Runs {
		for i := 0; i < r.N; i++ {
			mask[g.Idx(r.P[0]+i, r.P[1], r.P[2])] = true
		}
	}
	after := st.Snaps[0].SV
	spl := map[uint64]uint64{}
	for i := range before {
		if mask[i] && before[i] != 0 && before[i] != after[i] {
			spl[before[i]] = after[i]
		}
	}
	out := []uint64{st.Resp.Labels[0]}
	for _, sv := range sortedU64(keysOf(spl)) {
		out = append(out, sv, spl[sv], spl[sv]+1)
	}
	return out
}

func keysOf(m map[uint64]uint64) []uint64 {
	var out []uint64
	for k := range m {
		out = append(out, k)
	}
	return out
}

// cqHistory renders one executed history.
func (e *Exec) cqHistory() string {
	g := e.h.G
	last := map[int]*emitted{}
	var steps []string
	prevSV := map[int][]uint64{}
	for i := range e.steps {
		st := &e.steps[i]
		ret := st.Resp.Labels
		if st.Op.K == "split" {
			b := prevSV[st.Op.V]
			if b == nil {
				b = make([]uint64, g.NVox())
			}
			ret = e.splitRet(st, b)
		}
		var snaps []string
		for _, sn := range st.Snaps {
			base, baseVer := last[sn.Ver], sn.Ver
			for base == nil && baseVer > 0 {
				// first observation of a version: delta against its nearest observed ancestor
				baseVer = e.parent[baseVer]
				base = last[baseVer]
			}
			s, em := e.cqSnap(sn, base, baseVer)
			last[sn.Ver] = em
			prevSV[sn.Ver] = sn.SV
			snaps = append(snaps, s)
		}
		steps = append(steps, fmt.Sprintf("(T %s %s %s %s [%s])", e.cqReq(st.Op), lib.CoqBool(st.Resp.OK), cqNs(ret),
			lib.CoqBool(st.Op.Bad != ""), strings.Join(snaps, ";\n    ")))
	}
	return fmt.Sprintf("(H (G %d %s %s) %s [\n   %s])", g.BS, cq3(g.Dim), lib.CoqBool(g.Lo), cqBoxes(e.h.Layout), strings.Join(steps, ";\n   "))
}

// v0: body 30 (block-spanning) and body 7; v1 = branch of v0, merges 7 into 30; v2 = newversion of
// v0, nothing done; v3 = repo merge with first parent v2 and second parent v1; observed at v3.
const dagmergeCase = `{"kind": "dagmerge", "g": {"bs": 16, "org": [0, 0, 0], "dim": [2, 1, 1]},
 "layout": [{"p": [0, 0, 0], "d": [20, 8, 8], "l": 30}, {"p": [2, 2, 2], "d": [3, 3, 3], "l": 7}],
 "ops": [{"k": "ingest", "v": 0, "via": "blocks", "blocks": [[0, 0, 0], [1, 0, 0]]},
         {"k": "commit", "v": 0}, {"k": "branch", "v": 0, "child": 1}, {"k": "newversion", "v": 0, "child": 2},
         {"k": "merge", "v": 1, "target": 30, "labels": [7]}, {"k": "commit", "v": 1}, {"k": "commit", "v": 2},
         {"k": "dagmerge", "v": 2, "labels": [1], "child": 3}, {"k": "observe", "v": 3}],
 "pts": [[1, 1, 1], [3, 3, 3]]}`

// labels 30 and 7 stored (maximum 30): split 30 with remain=31 (the server draws the split label:
// it must not be 31), split the remainder 31 with split=40 alone (the server draws the remain
// label), then split 7 with split=remain=50: refused, nothing changes.
const splitLabelsCase = `{"kind": "splitlabels", "g": {"bs": 16, "org": [0, 0, 0], "dim": [2, 1, 1]},
 "layout": [{"p": [0, 0, 0], "d": [20, 8, 8], "l": 30}, {"p": [2, 2, 2], "d": [3, 3, 3], "l": 7}],
 "ops": [{"k": "ingest", "v": 0, "via": "blocks", "blocks": [[0, 0, 0], [1, 0, 0]]},
         {"k": "splitsv", "v": 0, "target": 30, "runs": [{"p": [0, 0, 0], "n": 5}], "remain": 31},
         {"k": "splitsv", "v": 0, "target": 31, "runs": [{"p": [5, 0, 0], "n": 4}, {"p": [14, 1, 0], "n": 4}], "split": 40},
         {"k": "splitsv", "v": 0, "target": 7, "runs": [{"p": [2, 2, 2], "n": 3}], "split": 50, "remain": 50, "bad": "split-same-labels"},
         {"k": "observe", "v": 0}],
 "pts": [[1, 1, 1], [3, 3, 3], [15, 1, 0]], "extra": [31, 32, 40, 41, 50]}`

// body split (SplitLabels), on every run: body 30 = {30, 7} after a merge; (1) a split volume over two
// supervoxels and two blocks (a run across the block face), (2) the whole rest of one supervoxel
// (its index entry moves completely, no remain id is used), (3) an empty split volume: refused.
// These are the steps Model.LabelMapRun evaluates with f_split and split_guard_b (C08_consistent_step).
const bodySplitCase = `{"kind": "bodysplit", "g": {"bs": 16, "org": [0, 0, 0], "dim": [2, 1, 1]},
 "layout": [{"p": [0, 0, 0], "d": [20, 8, 8], "l": 30}, {"p": [2, 2, 2], "d": [3, 3, 3], "l": 7}],
 "ops": [{"k": "ingest", "v": 0, "via": "blocks", "blocks": [[0, 0, 0], [1, 0, 0]]},
         {"k": "merge", "v": 0, "target": 30, "labels": [7]},
         {"k": "split", "v": 0, "target": 30, "runs": [{"p": [14, 0, 0], "n": 4}, {"p": [2, 2, 2], "n": 2}]},
         {"k": "split", "v": 0, "target": 30, "runs": [{"p": [4, 2, 2], "n": 1}, {"p": [2, 3, 2], "n": 3}, {"p": [2, 4, 2], "n": 3}, {"p": [2, 2, 3], "n": 3}, {"p": [2, 3, 3], "n": 3}, {"p": [2, 4, 3], "n": 3}, {"p": [2, 2, 4], "n": 3}, {"p": [2, 3, 4], "n": 3}, {"p": [2, 4, 4], "n": 3}]},
         {"k": "split", "v": 0, "target": 30, "runs": [], "bad": "split-empty"},
         {"k": "observe", "v": 0}],
 "pts": [[1, 1, 1], [3, 2, 2], [15, 0, 0], [17, 0, 0], [4, 4, 4]], "extra": [31, 32, 33, 34, 35, 36, 37, 38, 39]}`

const header = `From DV Require Import Base.Prelude Model.LabelMapRun.
Local Open Scope N_scope.
Local Notation H := Build_history.
Local Notation G := Build_geom.
Local Notation T := Build_step.
Local Notation S := Build_snapshot.
Local Notation B := Build_bodyobs.`

const tail = `
Definition spec_fail := Eval vm_compute in c08_spec_fail cases.
Definition model_mismatch := Eval vm_compute in c08_model_mismatch cases.
`

func emitRun(o lib.Opts) {
	run := lib.NewRun("C08", o)
	run.Header(header)
	addHistory := func(h *History, e *Exec) {
		term := e.cqHistory()
		var kinds []string
		for _, st := range e.steps {
			k := st.Op.K
			if st.Op.K == "ingest" {
				k += ":" + st.Op.Via
			}
			if st.Op.Bad != "" {
				k = "contract-violating:" + st.Op.Bad
			}
			if !st.Resp.OK {
				run.Count("refused:" + st.Op.K)
			}
			run.Count("op:" + k)
			kinds = append(kinds, k)
			run.Count(fmt.Sprintf("snapshots"))
			for range st.Snaps[min(1, len(st.Snaps)):] {
				run.Count("snapshots")
			}
		}
		run.Count(fmt.Sprintf("versions:%d", len(e.uuids)))
		run.Count(fmt.Sprintf("index-cache:%v", h.Cache))
		run.Count(fmt.Sprintf("child-server-process:%v", h.Child))
		run.Count(fmt.Sprintf("scale-1-observed:%v", h.G.Lo))
		run.Count(fmt.Sprintf("blocks:%d", h.G.NBlocks()))
		sort.Strings(kinds)
		js, _ := json.Marshal(h)
		run.Add(h.Kind, term, json.RawMessage(js), fmt.Sprintf("%s/%v/%x", strings.Join(kinds, ","), h.G.Dim, crcKey(js)))
	}
	if o.Replay != "" {
		var h History
		if err := lib.LoadReplay(o.Replay, &h); err != nil {
			fmt.Fprintln(os.Stderr, err)
			os.Exit(2)
		}
		e, err := newExec(&h)
		if err != nil {
			fmt.Fprintln(os.Stderr, err)
			os.Exit(2)
		}
		e.run()
		addHistory(&h, e)
		stopChild()
		run.Finish("history", "replay", tail)
		return
	}
	n := 10
	if o.Thorough() {
		n = 60
	}
	if o.N > 0 {
		n = o.N
	}
	// fixed corpus: the canonical history of finding C08-dagmerge (a conflict-free repo merge whose
	// non-first parent merged a body), judged by the dedicated class 12
	{
		var h History
		if err := json.Unmarshal([]byte(dagmergeCase), &h); err != nil {
			fmt.Fprintln(os.Stderr, "corpus:", err)
			os.Exit(2)
		}
		e, err := newExec(&h)
		if err != nil {
			fmt.Fprintln(os.Stderr, "setup:", err)
			os.Exit(2)
		}
		e.run()
		addHistory(&h, e)
	}
	// fixed corpus: labels of split-supervoxel chosen by the client (defect C08-11): remain = the
	// next free label with the split label drawn by the server, split alone, and split == remain
	{
		var h History
		if err := json.Unmarshal([]byte(splitLabelsCase), &h); err != nil {
			fmt.Fprintln(os.Stderr, "corpus:", err)
			os.Exit(2)
		}
		e, err := newExec(&h)
		if err != nil {
			fmt.Fprintln(os.Stderr, "setup:", err)
			os.Exit(2)
		}
		e.run()
		addHistory(&h, e)
	}
	// fixed corpus: body splits (SplitLabels)
	{
		var h History
		if err := json.Unmarshal([]byte(bodySplitCase), &h); err != nil {
			fmt.Fprintln(os.Stderr, "corpus:", err)
			os.Exit(2)
		}
		e, err := newExec(&h)
		if err != nil {
			fmt.Fprintln(os.Stderr, "setup:", err)
			os.Exit(2)
		}
		e.run()
		addHistory(&h, e)
	}
	// dense chains of mapping operations on a child server process that is restarted
	nc := 5
	if o.Thorough() {
		nc = 20
	}
	if o.N > 0 {
		nc = (o.N + 2) / 3
	}
	cmaster := lib.NewRand(o.Seed ^ 0xC4A1)
	for k := 0; k < nc; k++ {
		rng := lib.NewRand(cmaster.U64())
		h := genChainHistory(rng, k)
		e, err := newExec(h)
		if err != nil {
			fmt.Fprintln(os.Stderr, "setup:", err)
			os.Exit(2)
		}
		driveChain(e, rng)
		addHistory(h, e)
	}
	stopChild()
	master := lib.NewRand(o.Seed)
	for k := 0; k < n; k++ {
		rng := lib.NewRand(master.U64())
		h := genHistory(rng, k, o.Thorough())
		h.Cache = k >= n/2 // second half of the run: label-index cache on
		e, err := newExec(h)
		if err != nil {
			fmt.Fprintln(os.Stderr, "setup:", err)
			os.Exit(2)
		}
		driveGenerated(e, rng)
		addHistory(h, e)
	}
	run.Finish("history",
		"one fixed history of kind splitlabels (split-supervoxel with remain = next free label and no split, with split alone, with split == remain: defect C08-11); one fixed history of kind bodysplit (SplitLabels on a two-supervoxel body: a split volume over two supervoxels and two blocks, the whole rest of one supervoxel, an empty volume; every accepted body split is also checked against the proved contract split_guard_b); one fixed history of kind dagmerge (conflict-free repo merge whose non-first parent merged a body, read at the merge child: finding C08-dagmerge, class 12); histories of kind chain on a child server process (one block, 24-32 merge / cleave / renumber / split-supervoxel operations piled on the same few bodies, biased towards body ids that are also live supervoxel ids of another body, over 2-4 versions, the server process restarted twice and every version read again leaves first); random proofreading histories on 16^3-block labelmap instances (2-8 blocks; background, multi-block and sub-block supervoxels, labels up to 2^63): ingest by POST blocks / POST raw / ingest-supervoxels+indices+mappings, then about ten of merge, cleave, split-supervoxel, renumber, mutating raw write (boxes, wipe-outs, count-preserving rotations of a box across a block face), body split, a few requests violating a contract on purpose, interleaved with commit / newversion / branch; every read endpoint of the property observed after each request at the touched version and one more; a history is distinct by its operation multiset, geometry and content hash",
		tail)
}

func crcKey(b []byte) uint32 {
	var h uint32 = 2166136261
	for _, x := range b {
		h = (h ^ uint32(x)) * 16777619
	}
	return h
}
