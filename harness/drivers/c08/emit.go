package main

import "verif/harness/lib"

func emitRun(o lib.Opts) {}
