// Driver C08: label indices, voxels and mappings stay consistent under proofreading.
// Runs random proofreading histories over HTTP against an in-process DVID labelmap instance
// (16^3 blocks), takes a snapshot of every read endpoint after each operation, and writes the
// histories with the observed answers as compact Coq terms (Model/LabelMapRun.v evaluates them).
package main

import (
	"bytes"
	"encoding/json"
	"fmt"
	"os"
	"sort"
	"strings"

	"github.com/janelia-flyem/dvid/datastore"
	"github.com/janelia-flyem/dvid/datatype/labelmap"
	"github.com/janelia-flyem/dvid/dvid"
	"github.com/janelia-flyem/dvid/server"

	"verif/harness/dv"
	"verif/harness/dvh"
	"verif/harness/lib"
)

type Op struct {
	K      string     `json:"k"`
	V      int        `json:"v"`
	Child  int        `json:"child,omitempty"`
	Via    string     `json:"via,omitempty"`
	Blocks [][3]int   `json:"blocks,omitempty"`
	Groups [][]uint64 `json:"groups,omitempty"`
	MaxL   uint64     `json:"maxl,omitempty"`
	B0     [3]int     `json:"b0,omitempty"`
	NB     [3]int     `json:"nb,omitempty"`
	Boxes  []Box      `json:"boxes,omitempty"`
	Target uint64     `json:"target,omitempty"`
	Labels []uint64   `json:"labels,omitempty"`
	Runs   []Run      `json:"runs,omitempty"`
	Split  uint64     `json:"split,omitempty"`
	Remain uint64     `json:"remain,omitempty"`
	Old    uint64     `json:"old,omitempty"`
	New    uint64     `json:"new,omitempty"`
	Bad    string     `json:"bad,omitempty"` // which contract this request violates on purpose ("" = none)
	Quiet  bool       `json:"quiet,omitempty"` // version request after which nothing is read (the new version stays untouched)
}

type History struct {
	Kind   string   `json:"kind"`
	G      Geom     `json:"g"`
	Layout []Box    `json:"layout"`
	Ops    []Op     `json:"ops"`
	Pts    [][3]int `json:"pts"`
	Extra  []uint64 `json:"extra"` // never-used labels that are queried as well
	Cache  bool     `json:"cache,omitempty"` // run with the label-index cache on (server cache "labelmap")
	Child  bool     `json:"child,omitempty"` // run against a child server process (restarts are real process restarts)
}

// Result of one executed op.
type Resp struct {
	OK     bool
	Status int
	Labels []uint64 // labels returned by the server (cleave: cleaved label; splitsv: split, remain; split: new label)
	Msg    string
}

type Step struct {
	Op    Op
	Resp  Resp
	Snaps []*Snap
}

type Exec struct {
	h        *History
	srv      Srv
	uuids    []string // version ordinal -> uuid
	parent   []int
	locked   []bool
	universe []uint64
	inUni    map[uint64]bool
	layout   []uint64
	last     map[int]*Snap // latest snapshot per version
	quiet    map[int]bool  // versions no labelmap request has touched yet
	steps    []Step
}

func (e *Exec) addUni(ls ...uint64) {
	for _, l := range ls {
		if l != 0 && !e.inUni[l] {
			e.inUni[l] = true
			e.universe = append(e.universe, l)
		}
	}
}

var repoCounter int

func newExec(h *History) (*Exec, error) {
	if h.Child {
		if err := startChild(); err != nil {
			return nil, err
		}
	} else {
		stopChild()
		openStore(h.Cache)
	}
	repoCounter++
	root, err := newRepo(fmt.Sprintf("c08-%d", repoCounter))
	if err != nil {
		return nil, err
	}
	bs := h.G.BS
	cfg := map[string]string{"BlockSize": fmt.Sprintf("%d,%d,%d", bs, bs, bs)}
	if h.G.Lo {
		cfg["MaxDownresLevel"] = "1"
	}
	if err := newInstance(root, "labelmap", inst, cfg); err != nil {
		return nil, err
	}
	e := &Exec{h: h, srv: Srv{h.G}, uuids: []string{root}, parent: []int{-1}, locked: []bool{false}, inUni: map[uint64]bool{}, last: map[int]*Snap{}, quiet: map[int]bool{}}
	e.layout = h.G.PaintAll(h.Layout)
	for _, b := range h.Layout {
		e.addUni(b.L)
	}
	e.addUni(h.Extra...)
	return e, nil
}

func (e *Exec) settle() {
	if tr.p != nil {
		// no handle on the child's update counters: its histories only ingest by POST blocks (which
		// returns after indexing) and then change mappings; leave the background goroutines a moment
		tr.p.Sleep(40)
		return
	}
	datastore.BlockOnUpdating(dvid.UUID(e.uuids[0]), inst)
}

func respOf(r dv.Resp) Resp {
	msg := string(r.Body)
	if len(msg) > 200 {
		msg = msg[:200]
	}
	return Resp{OK: r.Status == 200, Status: r.Status, Msg: msg}
}

// current supervoxel volume at a version as last observed (zeros if never observed)
func (e *Exec) curSV(v int) []uint64 {
	for x := v; x >= 0; x = e.parent[x] {
		if sn := e.last[x]; sn != nil {
			return sn.SV
		}
	}
	return make([]uint64, e.h.G.NVox())
}

func (e *Exec) do(op Op) Resp {
	s := e.srv
	uuid := ""
	if op.V < len(e.uuids) {
		uuid = e.uuids[op.V]
	}
	switch op.K {
	case "ingest":
		switch op.Via {
		case "blocks":
			body, err := s.blockStream(e.layout, op.Blocks)
			if err != nil {
				return Resp{Msg: err.Error()}
			}
			u := s.url(uuid, "blocks")
			if s.g.Lo {
				u += "?downres=true" // without it the client has to post every scale itself
			}
			r := respOf(tr.Post(u, body))
			e.settle()
			return r
		case "raw":
			// one POST raw per block (not mutating)
			var last Resp
			for _, b := range op.Blocks {
				last = respOf(s.postRaw(uuid, e.layout, b, [3]int{1, 1, 1}, false))
				if !last.OK {
					break
				}
			}
			e.settle()
			return last
		case "offline":
			body, err := s.blockStream(e.layout, op.Blocks)
			if err != nil {
				return Resp{Msg: err.Error()}
			}
			r := respOf(tr.Post(s.url(uuid, "ingest-supervoxels"), body))
			if !r.OK {
				return r
			}
			// indices of the bodies (groups) restricted to these blocks, computed by the client
			bodyOf := map[uint64]uint64{}
			groups := map[uint64][]uint64{}
			for _, g := range op.Groups {
				for _, sv := range g[1:] {
					bodyOf[sv] = g[0]
					if sv != g[0] {
						groups[g[0]] = append(groups[g[0]], sv)
					}
				}
			}
			idx := map[uint64][]IdxEntry{}
			for _, b := range op.Blocks {
				cnt := map[uint64]uint64{}
				for _, l := range e.h.G.blockArray(e.layout, b) {
					if l != 0 {
						cnt[l]++
					}
				}
				for sv, c := range cnt {
					body, ok := bodyOf[sv]
					if !ok {
						body = sv
					}
					idx[body] = append(idx[body], IdxEntry{b, sv, c})
				}
			}
			ib, err := s.indicesBody(idx)
			if err != nil {
				return Resp{Msg: err.Error()}
			}
			if r = respOf(tr.Post(s.url(uuid, "indices"), ib)); !r.OK {
				return r
			}
			if len(groups) > 0 {
				mb, _ := mappingsBody(groups)
				if r = respOf(tr.Post(s.url(uuid, "mappings"), mb)); !r.OK {
					return r
				}
			}
			r = respOf(tr.Post(s.url(uuid, fmt.Sprintf("maxlabel/%d", op.MaxL)), nil))
			e.settle()
			return r
		}
	case "write":
		vol := append([]uint64(nil), e.curSV(op.V)...)
		for _, b := range op.Boxes {
			e.h.G.Paint(vol, b)
		}
		r := respOf(s.postRaw(uuid, vol, op.B0, op.NB, true))
		e.settle()
		return r
	case "merge":
		r := respOf(tr.Post(s.url(uuid, "merge"), u64json(append([]uint64{op.Target}, op.Labels...))))
		return r
	case "cleave":
		dr := tr.Post(s.url(uuid, fmt.Sprintf("cleave/%d", op.Target)), u64json(op.Labels))
		r := respOf(dr)
		if r.OK {
			if l, ok := jsonNum(dr.Body, "CleavedLabel"); ok {
				r.Labels = []uint64{l}
			} else {
				r.OK = false
			}
		}
		return r
	case "splitsv":
		u := s.url(uuid, fmt.Sprintf("split-supervoxel/%d", op.Target))
		var q []string
		if op.Split != 0 {
			q = append(q, fmt.Sprintf("split=%d", op.Split))
		}
		if op.Remain != 0 {
			q = append(q, fmt.Sprintf("remain=%d", op.Remain))
		}
		if len(q) > 0 {
			u += "?" + strings.Join(q, "&")
		}
		dr := tr.Post(u, s.rleBody(op.Runs))
		r := respOf(dr)
		if r.OK {
			a, ok1 := jsonNum(dr.Body, "SplitSupervoxel")
			b, ok2 := jsonNum(dr.Body, "RemainSupervoxel")
			if ok1 && ok2 {
				r.Labels = []uint64{a, b}
			} else {
				r.OK = false
			}
		}
		e.settle()
		return r
	case "split":
		if tr.p != nil {
			return Resp{Msg: "body split is not available on a child server"}
		}
		// the HTTP route is switched off by default (server.AllowLabelmapSplit); call the exported method
		d, err := labelmap.GetByUUIDName(dvid.UUID(uuid), inst)
		if err != nil {
			return Resp{Msg: err.Error()}
		}
		vid, err := datastore.VersionFromUUID(dvid.UUID(uuid))
		if err != nil {
			return Resp{Msg: err.Error()}
		}
		var r Resp
		p, msg := lib.Recover(func() {
			l, _, err := d.SplitLabels(vid, op.Target, readCloser{bytes.NewReader(s.rleBody(op.Runs))}, dvid.ModInfo{})
			if err != nil {
				r = Resp{Status: 400, Msg: err.Error()}
			} else {
				r = Resp{OK: true, Status: 200, Labels: []uint64{l}}
			}
		})
		if p {
			r = Resp{Status: 500, Msg: "panic: " + msg}
		}
		e.settle()
		return r
	case "renumber":
		return respOf(tr.Post(s.url(uuid, "renumber"), u64json([]uint64{op.New, op.Old})))
	case "restart":
		if err := restartChild(); err != nil {
			return Resp{Msg: err.Error()}
		}
		return Resp{OK: true, Status: 200}
	case "commit":
		r := respOf(commitNode(uuid))
		if r.OK {
			e.locked[op.V] = true
		}
		return r
	case "dagmerge":
		ps := []string{uuid}
		for _, o := range op.Labels {
			ps = append(ps, e.uuids[int(o)])
		}
		child, dr := mergeNodes(ps)
		r := respOf(dr)
		if r.OK && child != "" {
			e.uuids = append(e.uuids, child)
			e.parent = append(e.parent, op.V)
			e.locked = append(e.locked, false)
		} else {
			r.OK = false
		}
		return r
	case "newversion", "branch":
		var child string
		var dr dv.Resp
		if op.K == "newversion" {
			child, dr = newVersion(uuid)
		} else {
			child, dr = branchNode(uuid, fmt.Sprintf("br%d", op.Child))
		}
		r := respOf(dr)
		if r.OK && child != "" {
			e.uuids = append(e.uuids, child)
			e.parent = append(e.parent, op.V)
			e.locked = append(e.locked, false)
		} else {
			r.OK = false
		}
		return r
	}
	return Resp{Msg: "unknown op " + op.K}
}

var probeShow = 12

// the datastore is opened lazily, with or without the label-index cache (a process-wide
// setting read when an instance is created), and reopened when the next history needs the other
var storeOpen, storeCache bool

func openStore(cache bool) {
	if storeOpen && storeCache == cache {
		return
	}
	if storeOpen {
		server.CloseTest()
	}
	if cache {
		server.OpenTest(server.TestConfig{CacheSize: map[string]int{"labelmap": 10}})
	} else {
		server.OpenTest()
	}
	storeOpen, storeCache = true, cache
	if os.Getenv("C08_DEBUG") != "" {
		fmt.Fprintln(os.Stderr, "index cache bytes:", server.CacheSize("labelmap"))
	}
}

func closeStore() {
	if storeOpen {
		server.CloseTest()
		storeOpen = false
	}
}

type readCloser struct{ *bytes.Reader }

func (readCloser) Close() error { return nil }

// step executes one op and snapshots the version it touched plus one more in rotation
// ("observe" snapshots every version).
func (e *Exec) step(op Op) {
	e.addUni(op.Target, op.Split, op.Remain, op.Old, op.New, op.MaxL)
	e.addUni(op.Labels...)
	for _, b := range op.Boxes {
		e.addUni(b.L)
	}
	for _, g := range op.Groups {
		e.addUni(g...)
	}
	var r Resp
	if op.K == "observe" {
		r = Resp{OK: true, Status: 200}
	} else {
		r = e.do(op)
	}
	e.addUni(r.Labels...)
	st := Step{Op: op, Resp: r}
	var vs []int
	addV := func(v int) {
		if v < 0 || v >= len(e.uuids) {
			return
		}
		for _, x := range vs {
			if x == v {
				return
			}
		}
		vs = append(vs, v)
	}
	switch op.K {
	case "observe":
		for v := range e.uuids {
			addV(v)
		}
	case "restart":
		// leaves first: the new process then builds a version's in-memory state before that of
		// its ancestors
		for v := len(e.uuids) - 1; v >= 0; v-- {
			addV(v)
		}
	case "newversion", "branch", "dagmerge":
		if r.OK {
			if op.Quiet {
				e.quiet[len(e.uuids)-1] = true
			} else {
				addV(len(e.uuids) - 1)
			}
		}
	case "commit":
		if !op.Quiet {
			addV(op.V)
		}
	default:
		// the touched version first; then its ancestors that nothing has looked at yet, its parent,
		// and one more version in rotation: operations must stay invisible there
		addV(op.V)
		if op.V < len(e.uuids) {
			e.quiet[op.V] = false
			for a := e.parent[op.V]; a >= 0; a = e.parent[a] {
				if e.quiet[a] {
					e.quiet[a] = false
					addV(a)
				}
			}
			addV(e.parent[op.V])
		}
	}
	if op.K != "observe" && op.K != "restart" && !op.Quiet && len(e.uuids) > 1 && !e.h.Child {
		for k := 0; k < len(e.uuids); k++ {
			if o := (len(e.steps) + k) % len(e.uuids); !e.quiet[o] {
				addV(o)
				break
			}
		}
	}
	if op.K == "observe" || op.K == "restart" {
		for v := range e.uuids {
			e.quiet[v] = false
		}
	}
	for _, v := range vs {
		sn := e.srv.takeSnapU(e.uuids[v], v, &e.universe, e.addUni, e.h.Pts)
		e.last[v] = sn
		st.Snaps = append(st.Snaps, sn)
	}
	e.steps = append(e.steps, st)
}

func (e *Exec) run() {
	for _, op := range e.h.Ops {
		e.step(op)
	}
}

// ---- Go-side probe: property oracle over a finished execution ----

func (e *Exec) probe() []string {
	var errs []string
	prev := map[int]*Snap{}
	for i, st := range e.steps {
		for k, sn := range st.Snaps {
			for _, m := range e.h.G.checkSnap(sn) {
				errs = append(errs, fmt.Sprintf("step %d (%s): %s", i, st.Op.K, m))
			}
			p := prev[sn.Ver]
			for a := sn.Ver; p == nil && a > 0; {
				// a version seen for the first time shows what its nearest observed ancestor shows
				a = e.parent[a]
				p = prev[a]
			}
			if p != nil {
				operated := k == 0 && st.Op.K != "commit" && st.Op.K != "newversion" && st.Op.K != "branch" && st.Op.K != "observe" && st.Op.K != "restart" && st.Resp.OK
				if !operated {
					if d := diffSnap(p, sn); d != "" {
						what := "isolation"
						if k == 0 && !st.Resp.OK {
							what = "rejected request changed state"
						}
						errs = append(errs, fmt.Sprintf("step %d (%s) v%d: %s: %s", i, st.Op.K, sn.Ver, what, d))
					}
				} else {
					switch st.Op.K {
					case "merge", "cleave", "renumber":
						if !equalU64(p.SV, sn.SV) {
							errs = append(errs, fmt.Sprintf("step %d (%s): supervoxel voxels changed", i, st.Op.K))
						}
					case "splitsv", "split":
						for j := range sn.SV {
							if (p.SV[j] == 0) != (sn.SV[j] == 0) {
								errs = append(errs, fmt.Sprintf("step %d (%s): background changed", i, st.Op.K))
								break
							}
						}
					}
				}
			}
			prev[sn.Ver] = sn
		}
	}
	return errs
}

func diffSnap(a, b *Snap) string {
	common := map[uint64]bool{}
	for l := range a.Bodies {
		if _, ok := b.Bodies[l]; ok {
			common[l] = true
		}
	}
	va, vb := snapViewOn(a, common), snapViewOn(b, common)
	ja, _ := json.Marshal(va)
	jb, _ := json.Marshal(vb)
	if bytes.Equal(ja, jb) {
		return ""
	}
	for k := range va {
		x, _ := json.Marshal(va[k])
		y, _ := json.Marshal(vb[k])
		if !bytes.Equal(x, y) {
			if k == "bodies" || k == "svs" {
				for l := range common {
					var p, q []byte
					if k == "bodies" {
						p, _ = json.Marshal(a.Bodies[l])
						q, _ = json.Marshal(b.Bodies[l])
					} else {
						p, _ = json.Marshal(a.SVs[l])
						q, _ = json.Marshal(b.SVs[l])
					}
					if !bytes.Equal(p, q) {
						return fmt.Sprintf("differs in %s[%d]: %s  =>  %s", k, l, clip(p), clip(q))
					}
				}
			}
			return "differs in " + k
		}
	}
	return "differs"
}

func snapView(s *Snap) map[string]interface{} {
	return snapViewOn(s, nil)
}

func snapViewOn(s *Snap, only map[uint64]bool) map[string]interface{} {
	bodies, svs := s.Bodies, s.SVs
	if only != nil {
		bodies, svs = map[uint64]*BodyObs{}, map[uint64]*SVObs{}
		for l := range only {
			bodies[l], svs[l] = s.Bodies[l], s.SVs[l]
		}
	}
	return snapViewRaw(s, bodies, svs)
}

func snapViewRaw(s *Snap, bodies map[uint64]*BodyObs, svs map[uint64]*SVObs) map[string]interface{} {
	return map[string]interface{}{"present": s.Present, "sv": s.SV, "rawsv": s.RawSV, "blkmapped": s.BlkMapped, "rawmapped": s.RawMapped,
		"bodies": bodies, "svs": svs, "mappings": s.Mappings, "listlabels": s.ListLabels, "pts": s.Pts}
}

func main() {
	dvh.MaybeChild()
	probeN := 0
	adversarial = os.Getenv("C08_ADV")
	if os.Getenv("C08_SHOW") != "" {
		fmt.Sscan(os.Getenv("C08_SHOW"), &probeShow)
	}
	var rest []string
	for i := 1; i < len(os.Args); i++ {
		if os.Args[i] == "-probe" && i+1 < len(os.Args) {
			fmt.Sscan(os.Args[i+1], &probeN)
			i++
			continue
		}
		rest = append(rest, os.Args[i])
	}
	os.Args = append(os.Args[:1], rest...)
	o := lib.ParseOpts()
	dv.Quiet()
	defer closeStore()

	if probeN > 0 {
		bad := 0
		master := lib.NewRand(o.Seed)
		for k := 0; k < probeN; k++ {
			rng := lib.NewRand(master.U64())
			var h *History
			if o.Replay != "" {
				h = &History{}
				if err := lib.LoadReplay(o.Replay, h); err != nil {
					fmt.Println(err)
					os.Exit(2)
				}
			} else if os.Getenv("C08_CHAIN") != "" {
				h = genChainHistory(rng, k)
			} else {
				h = genHistory(rng, k, o.Thorough())
				h.Cache = k >= probeN/2
			}
			e, err := newExec(h)
			if err != nil {
				fmt.Println("setup:", err)
				os.Exit(2)
			}
			if o.Replay != "" {
				e.run()
			} else if h.Child {
				driveChain(e, rng)
			} else {
				driveGenerated(e, rng)
			}
			errs := e.probe()
			sort.SliceStable(errs, func(i, j int) bool {
				return !strings.Contains(errs[i], "maxlabel") && strings.Contains(errs[j], "maxlabel")
			})
			if os.Getenv("C08_DEBUG") != "" {
				last := e.steps[len(e.steps)-1]
				for _, sn := range last.Snaps {
					fmt.Printf("DBG v%d readerr=%v:", sn.Ver, sn.ReadErr)
					for _, l := range e.universe {
						if b := sn.Bodies[l]; b != nil && (b.Size.St == 0 || sn.SVs[l].Map != 0) {
							fmt.Printf(" %d(size=%d/%d map=%d)", l, b.Size.St, b.Size.V, sn.SVs[l].Map)
						}
					}
					fmt.Println()
				}
			}
			if os.Getenv("C08_DUMP") != "" {
				js, _ := json.Marshal(map[string]interface{}{"case": h})
				os.WriteFile(fmt.Sprintf("%s/h%d.json", os.Getenv("C08_DUMP"), k), js, 0644)
			}
			if len(errs) > 0 || os.Getenv("C08_OPS") != "" {
				if len(errs) > 0 {
					bad++
				}
				fmt.Printf("=== history %d (%s): %d problems\n", k, h.Kind, len(errs))
				for i, m := range errs {
					if i >= probeShow {
						fmt.Println("   ...")
						break
					}
					fmt.Println("  ", m)
				}
				for i, st := range e.steps {
					js, _ := json.Marshal(st.Op)
					fmt.Printf("   op %d: %s -> ok=%v %d %v %s\n", i, js, st.Resp.OK, st.Resp.Status, st.Resp.Labels, strings.TrimSpace(st.Resp.Msg))
				}
			}
		}
		stopChild()
		fmt.Printf("probe: %d histories, %d with problems\n", probeN, bad)
		return
	}
	emitRun(o)
}

func clip(b []byte) string {
	if len(b) > 700 {
		return string(b[:700]) + "..."
	}
	return string(b)
}

// sorted copy
func sortedU64(xs []uint64) []uint64 {
	out := append([]uint64(nil), xs...)
	sort.Slice(out, func(i, j int) bool { return out[i] < out[j] })
	return out
}
