// Driver C08: random histories.  Operations are drawn one at a time from what the server
// currently reports (so that the documented contracts can be respected), executed, and stored
// concretely in the history: a replay re-executes the stored list without any randomness.
package main

import (
	"sort"

	"verif/harness/lib"
)

var bigLabels = []uint64{1<<32 + 5, 1<<40 + 7, 1<<53 + 1, 1<<63 + 11, 1<<63 + 12, 1<<33 + 2}

func genHistory(rng *lib.Rand, k int, thorough bool) *History {
	dims := [][3]int{{2, 2, 1}, {2, 1, 2}, {3, 1, 1}, {1, 2, 2}, {2, 1, 1}}
	if thorough {
		dims = append(dims, [3]int{2, 2, 2}, [3]int{3, 2, 1})
	}
	g := Geom{BS: 16, Dim: dims[rng.Intn(len(dims))], Org: [3]int{rng.Intn(4), rng.Intn(4), rng.Intn(4)}}
	if adversarial == "negorg" {
		g.Org = [3]int{rng.Intn(4) - 2, rng.Intn(4) - 2, rng.Intn(4) - 2}
	}
	h := &History{G: g, Kind: "proofread"}
	n := g.N()
	nl := 5 + rng.Intn(5)
	var labels []uint64
	used := map[uint64]bool{}
	for len(labels) < nl {
		var l uint64
		if adversarial == "maxu64" && len(labels) == 0 {
			l = 1<<64 - 1
		} else if rng.Chance(0.2) {
			l = bigLabels[rng.Intn(len(bigLabels))]
		} else {
			l = uint64(1 + rng.Intn(24))
		}
		if !used[l] {
			used[l] = true
			labels = append(labels, l)
		}
	}
	rbox := func(lo, hi [3]int, maxd int) ([3]int, [3]int) {
		var p, d [3]int
		for i := 0; i < 3; i++ {
			ext := hi[i] - lo[i]
			d[i] = 1 + rng.Intn(min(ext, maxd))
			p[i] = lo[i] + rng.Intn(ext-d[i]+1)
		}
		return p, d
	}
	for i, l := range labels {
		switch {
		case i < 2 || rng.Chance(0.3): // spans blocks
			p, d := rbox([3]int{0, 0, 0}, n, 40)
			h.Layout = append(h.Layout, Box{p, d, l})
		case rng.Chance(0.6): // confined to one 8^3 sub-block
			sb := [3]int{rng.Intn(n[0] / 8), rng.Intn(n[1] / 8), rng.Intn(n[2] / 8)}
			lo := [3]int{sb[0] * 8, sb[1] * 8, sb[2] * 8}
			p, d := rbox(lo, [3]int{lo[0] + 8, lo[1] + 8, lo[2] + 8}, 8)
			h.Layout = append(h.Layout, Box{p, d, l})
		default: // thin slab or single voxels
			p, d := rbox([3]int{0, 0, 0}, n, 24)
			d[rng.Intn(3)] = 1
			h.Layout = append(h.Layout, Box{p, d, l})
		}
	}
	if rng.Chance(0.4) { // a solid block of one label
		b := [3]int{rng.Intn(g.Dim[0]), rng.Intn(g.Dim[1]), rng.Intn(g.Dim[2])}
		h.Layout = append(h.Layout, Box{[3]int{b[0] * 16, b[1] * 16, b[2] * 16}, [3]int{16, 16, 16}, labels[rng.Intn(len(labels))]})
	}
	if rng.Chance(0.5) { // some background carved back
		p, d := rbox([3]int{0, 0, 0}, n, 20)
		h.Layout = append(h.Layout, Box{p, d, 0})
	}
	for i := 0; i < 6; i++ {
		h.Pts = append(h.Pts, [3]int{rng.Intn(n[0]), rng.Intn(n[1]), rng.Intn(n[2])})
	}
	h.Extra = []uint64{9999, 1<<41 + 3}
	return h
}

type view struct {
	svSize map[uint64]uint64
	bodies map[uint64][]uint64 // body -> live supervoxels (sorted)
	blist  []uint64
}

func (e *Exec) view(v int) *view {
	vw := &view{svSize: map[uint64]uint64{}, bodies: map[uint64][]uint64{}}
	sn := e.lastAt(v)
	if sn == nil {
		return vw
	}
	for _, l := range sn.SV {
		if l != 0 {
			vw.svSize[l]++
		}
	}
	for sv := range vw.svSize {
		body := sv
		if o := sn.SVs[sv]; o != nil {
			body = o.Map
		}
		vw.bodies[body] = append(vw.bodies[body], sv)
	}
	for b, svs := range vw.bodies {
		vw.bodies[b] = sortedU64(svs)
		vw.blist = append(vw.blist, b)
	}
	sort.Slice(vw.blist, func(i, j int) bool { return vw.blist[i] < vw.blist[j] })
	return vw
}

func (e *Exec) lastAt(v int) *Snap {
	for x := v; x >= 0; x = e.parent[x] {
		if sn := e.last[x]; sn != nil {
			return sn
		}
	}
	return nil
}

func (e *Exec) presentAt(v int) map[[3]int]bool {
	m := map[[3]int]bool{}
	if sn := e.lastAt(v); sn != nil {
		for _, b := range sn.Present {
			m[b] = true
		}
	}
	return m
}

func (e *Exec) fresh(rng *lib.Rand) uint64 {
	for {
		var l uint64
		if rng.Chance(0.25) {
			l = 1<<34 + uint64(rng.Intn(1000))
		} else {
			l = uint64(30 + rng.Intn(60))
		}
		if !e.inUni[l] {
			e.addUni(l)
			return l
		}
	}
}

// rows of a supervoxel: maximal x-runs
func (e *Exec) rows(v int, sv uint64) []Run {
	g := e.h.G
	n := g.N()
	vol := e.curSV(v)
	var out []Run
	for z := 0; z < n[2]; z++ {
		for y := 0; y < n[1]; y++ {
			x := 0
			for x < n[0] {
				if vol[g.Idx(x, y, z)] != sv {
					x++
					continue
				}
				x0 := x
				for x < n[0] && vol[g.Idx(x, y, z)] == sv {
					x++
				}
				out = append(out, Run{[3]int{x0, y, z}, x - x0})
			}
		}
	}
	return out
}

func pickSubset(rng *lib.Rand, xs []uint64, lo, hi int) []uint64 {
	p := append([]uint64(nil), xs...)
	for i := len(p) - 1; i > 0; i-- {
		j := rng.Intn(i + 1)
		p[i], p[j] = p[j], p[i]
	}
	k := lo + rng.Intn(hi-lo+1)
	if k > len(p) {
		k = len(p)
	}
	return sortedU64(p[:k])
}

func allBlocks(g Geom) [][3]int {
	var out [][3]int
	for z := 0; z < g.Dim[2]; z++ {
		for y := 0; y < g.Dim[1]; y++ {
			for x := 0; x < g.Dim[0]; x++ {
				out = append(out, [3]int{x, y, z})
			}
		}
	}
	return out
}

var adversarial string

// erased: labels known to the mapping (mapped to another body) that have no voxel at the moment
func (e *Exec) erased(v int) []uint64 {
	sn := e.lastAt(v)
	if sn == nil {
		return nil
	}
	var out []uint64
	for _, p := range sn.Mappings {
		if p[1] != 0 && p[1] != p[0] {
			if o := sn.SVs[p[0]]; o != nil && o.Size.St == stNotFound {
				out = append(out, p[0])
			}
		}
	}
	return sortedU64(out)
}

// genOp draws the next operation at version v; returns false if nothing of that kind is possible.
func (e *Exec) genOp(rng *lib.Rand, v int, kind string, bad bool) (Op, bool) {
	g := e.h.G
	vw := e.view(v)
	switch kind {
	case "merge":
		if len(vw.blist) < 2 {
			return Op{}, false
		}
		sel := pickSubset(rng, vw.blist, 2, min(4, len(vw.blist)))
		t := rng.Intn(len(sel))
		op := Op{K: "merge", V: v, Target: sel[t]}
		for i, l := range sel {
			if i != t {
				op.Labels = append(op.Labels, l)
			}
		}
		if adversarial == "merge-self" {
			op.Labels = append(op.Labels, op.Target)
			op.Bad = "merge-self"
			return op, true
		}
		if bad {
			switch rng.Intn(3) {
			case 0:
				op.Labels = append(op.Labels, e.fresh(rng))
				op.Bad = "merge-missing"
			case 1:
				op.Target = e.fresh(rng)
				op.Bad = "merge-into-missing"
			default:
				op.Labels = append(op.Labels, op.Target)
				op.Bad = "merge-self"
			}
		}
		return op, true
	case "cleave":
		var cands []uint64
		for _, b := range vw.blist {
			if len(vw.bodies[b]) >= 2 {
				cands = append(cands, b)
			}
		}
		if len(cands) == 0 {
			return Op{}, false
		}
		b := cands[rng.Intn(len(cands))]
		svs := vw.bodies[b]
		op := Op{K: "cleave", V: v, Target: b, Labels: pickSubset(rng, svs, 1, len(svs)-1)}
		if adversarial == "cleave-empty" {
			op.Labels = []uint64{}
			op.Bad = "cleave-empty"
			return op, true
		}
		if bad {
			switch rng.Intn(4) {
			case 3:
				op.Labels = []uint64{}
				op.Bad = "cleave-empty"
			case 0:
				op.Labels = svs
				op.Bad = "cleave-all"
			case 1:
				op.Labels = append(op.Labels, e.fresh(rng))
				op.Bad = "cleave-foreign"
			default:
				op.Labels = append(op.Labels, op.Labels[0])
				op.Bad = "cleave-duplicate"
			}
		}
		return op, true
	case "splitsv", "split":
		var svs []uint64
		for sv, sz := range vw.svSize {
			if sz >= 2 {
				svs = append(svs, sv)
			}
		}
		if len(svs) == 0 {
			return Op{}, false
		}
		svs = sortedU64(svs)
		sv := svs[rng.Intn(len(svs))]
		rows := e.rows(v, sv)
		var runs []Run
		mode := rng.Intn(10)
		switch {
		case mode == 0 && kind == "splitsv": // whole supervoxel
			runs = rows
		case mode == 1 && kind == "splitsv": // nothing
		default:
			// a contiguous range of rows, the first and last possibly cut
			a := rng.Intn(len(rows))
			b := a + 1 + rng.Intn(min(len(rows)-a, 40))
			for i := a; i < b; i++ {
				r := rows[i]
				if (i == a || i == b-1) && r.N > 1 && rng.Bool() {
					c := 1 + rng.Intn(r.N-1)
					if rng.Bool() {
						r = Run{r.P, c}
					} else {
						r = Run{[3]int{r.P[0] + r.N - c, r.P[1], r.P[2]}, c}
					}
				}
				runs = append(runs, r)
			}
		}
		if kind == "split" {
			// split of a body: runs may come from several supervoxels of the body
			var body uint64
			for b, l := range vw.bodies {
				for _, s := range l {
					if s == sv {
						body = b
					}
				}
			}
			for _, s2 := range vw.bodies[body] {
				if s2 != sv && rng.Chance(0.5) {
					r2 := e.rows(v, s2)
					a := rng.Intn(len(r2))
					runs = append(runs, r2[a:min(len(r2), a+1+rng.Intn(10))]...)
				}
			}
			var tot uint64
			for _, r := range runs {
				tot += uint64(r.N)
			}
			var bsz uint64
			for _, s2 := range vw.bodies[body] {
				bsz += vw.svSize[s2]
			}
			if tot == 0 || tot >= bsz {
				return Op{}, false
			}
			return Op{K: "split", V: v, Target: body, Runs: runs}, true
		}
		op := Op{K: "splitsv", V: v, Target: sv, Runs: runs}
		if rng.Chance(0.3) {
			op.Split = e.fresh(rng)
		}
		if rng.Chance(0.3) {
			op.Remain = e.fresh(rng)
		}
		if bad {
			// add a run over voxels that are not this supervoxel
			n := g.N()
			vol := e.curSV(v)
			for try := 0; try < 50; try++ {
				p := [3]int{rng.Intn(n[0]), rng.Intn(n[1]), rng.Intn(n[2])}
				if vol[g.Idx(p[0], p[1], p[2])] != sv {
					op.Runs = append(op.Runs, Run{p, 1})
					op.Bad = "split-outside"
					break
				}
			}
			if op.Bad == "" {
				return Op{}, false
			}
		}
		return op, true
	case "renumber":
		if len(vw.blist) == 0 {
			return Op{}, false
		}
		op := Op{K: "renumber", V: v, Old: vw.blist[rng.Intn(len(vw.blist))], New: e.fresh(rng)}
		if adversarial == "renumber-zero" {
			op.New = 0
			op.Bad = "renumber-zero"
			return op, true
		}
		if adversarial == "renumber-sv" {
			// new label = id of a live supervoxel that is not a body id (it was merged into another body)
			var cands []uint64
			for sv := range vw.svSize {
				if _, isBody := vw.bodies[sv]; !isBody {
					cands = append(cands, sv)
				}
			}
			if len(cands) == 0 {
				return Op{}, false
			}
			cands = sortedU64(cands)
			op.New = cands[rng.Intn(len(cands))]
			op.Bad = "renumber-sv"
			return op, true
		}
		if bad {
			if len(vw.blist) < 2 || rng.Chance(0.3) {
				op.New = 0
				op.Bad = "renumber-zero"
				return op, true
			}
			for op.New = op.Old; op.New == op.Old; {
				op.New = vw.blist[rng.Intn(len(vw.blist))]
			}
			op.Bad = "renumber-existing"
			if rng.Chance(0.4) {
				// the id of a live supervoxel that was merged into another body
				var cands []uint64
				for sv := range vw.svSize {
					if _, isBody := vw.bodies[sv]; !isBody {
						cands = append(cands, sv)
					}
				}
				if len(cands) > 0 {
					cands = sortedU64(cands)
					op.New = cands[rng.Intn(len(cands))]
					op.Bad = "renumber-sv"
				}
			}
		}
		return op, true
	case "write":
		// a block-aligned region, a few boxes inside it
		present := e.presentAt(v)
		b0 := [3]int{rng.Intn(g.Dim[0]), rng.Intn(g.Dim[1]), rng.Intn(g.Dim[2])}
		nb := [3]int{1, 1, 1}
		ax := rng.Intn(3)
		if b0[ax]+1 < g.Dim[ax] && rng.Bool() {
			nb[ax] = 2
		}
		_ = present
		lo := [3]int{b0[0] * 16, b0[1] * 16, b0[2] * 16}
		hi := [3]int{lo[0] + nb[0]*16, lo[1] + nb[1]*16, lo[2] + nb[2]*16}
		var live []uint64
		for sv := range vw.svSize {
			live = append(live, sv)
		}
		live = sortedU64(live)
		op := Op{K: "write", V: v, B0: b0, NB: nb}
		if len(live) > 0 && rng.Chance(0.4) {
			// wipe one supervoxel out of one block (its count there drops to zero), by background or
			// by another label
			sv := live[rng.Intn(len(live))]
			vol := e.curSV(v)
			n := g.N()
			mn, mx := [3]int{1 << 30, 1 << 30, 1 << 30}, [3]int{-1, -1, -1}
			first := true
			var blk [3]int
			for z := 0; z < n[2]; z++ {
				for y := 0; y < n[1]; y++ {
					for x := 0; x < n[0]; x++ {
						if vol[g.Idx(x, y, z)] != sv {
							continue
						}
						if first {
							blk, first = g.BlockOf(x, y, z), false
						}
						if g.BlockOf(x, y, z) != blk {
							continue
						}
						p := [3]int{x, y, z}
						for a := 0; a < 3; a++ {
							if p[a] < mn[a] {
								mn[a] = p[a]
							}
							if p[a] > mx[a] {
								mx[a] = p[a]
							}
						}
					}
				}
			}
			if !first {
				var l uint64
				if rng.Bool() && len(live) > 1 {
					l = live[rng.Intn(len(live))]
					if l == sv {
						l = 0
					}
				}
				op.B0, op.NB = blk, [3]int{1, 1, 1}
				op.Boxes = []Box{{mn, [3]int{mx[0] - mn[0] + 1, mx[1] - mn[1] + 1, mx[2] - mn[2] + 1}, l}}
				return op, true
			}
		}
		for i, k := 0, 1+rng.Intn(3); i < k; i++ {
			var p, d [3]int
			for a := 0; a < 3; a++ {
				ext := hi[a] - lo[a]
				d[a] = 1 + rng.Intn(min(ext, 12))
				p[a] = lo[a] + rng.Intn(ext-d[a]+1)
			}
			var l uint64
			switch r := rng.Intn(10); {
			case adversarial == "write-revive" && len(e.erased(v)) > 0:
				er := e.erased(v)
				l = er[rng.Intn(len(er))]
				op.Bad = "write-revive"
			case r < 3:
				l = 0
			case r < 7 && len(live) > 0:
				l = live[rng.Intn(len(live))]
			default:
				l = e.fresh(rng)
			}
			op.Boxes = append(op.Boxes, Box{p, d, l})
		}
		return op, true
	}
	return Op{}, false
}

// driveGenerated builds and executes one history.
func driveGenerated(e *Exec, rng *lib.Rand) {
	g := e.h.G
	blocks := allBlocks(g)
	// initial ingest: all blocks, or a part now and the rest later
	via := []string{"blocks", "blocks", "raw", "offline"}[rng.Intn(4)]
	first := blocks
	var later [][3]int
	if len(blocks) > 1 && via != "offline" && rng.Chance(0.4) {
		k := 1 + rng.Intn(len(blocks)-1)
		first, later = blocks[:k], blocks[k:]
	}
	mkIngest := func(v int, bl [][3]int) Op {
		op := Op{K: "ingest", V: v, Via: via, Blocks: bl}
		if via == "offline" {
			// bodies = groups of supervoxels chosen by the client; only on the first ingest
			var mx uint64
			for _, b := range e.h.Layout {
				if b.L > mx {
					mx = b.L
				}
			}
			op.MaxL = mx
			// agglomeration computed offline: some bodies made of two or three supervoxels
			seen := map[uint64]bool{}
			var ls []uint64
			for _, b := range e.h.Layout {
				if b.L != 0 && !seen[b.L] {
					seen[b.L] = true
					ls = append(ls, b.L)
				}
			}
			for len(ls) >= 2 && rng.Chance(0.6) {
				k := 2 + rng.Intn(min(2, len(ls)-1))
				op.Groups = append(op.Groups, append([]uint64(nil), ls[:k]...))
				ls = ls[k:]
			}
		}
		return op
	}
	nOps := 9 + rng.Intn(4)
	cur := 0
	e.step(mkIngest(0, first))
	for i := 0; i < nOps; i++ {
		// version events
		if rng.Chance(0.22) && len(e.uuids) < 4 {
			e.step(Op{K: "commit", V: cur})
			if rng.Chance(0.5) {
				e.step(Op{K: "newversion", V: cur, Child: len(e.uuids)})
				cur = len(e.uuids) - 1
			} else {
				e.step(Op{K: "branch", V: cur, Child: len(e.uuids)})
				child := len(e.uuids) - 1
				if rng.Bool() && len(e.uuids) < 4 {
					e.step(Op{K: "newversion", V: cur, Child: len(e.uuids)})
					// two open children: work on either
					if rng.Bool() {
						cur = child
					} else {
						cur = len(e.uuids) - 1
					}
				} else {
					cur = child
				}
			}
			continue
		}
		// switch between open versions
		var open []int
		for v := range e.uuids {
			if !e.locked[v] {
				open = append(open, v)
			}
		}
		if len(open) > 1 && rng.Chance(0.3) {
			cur = open[rng.Intn(len(open))]
		}
		if len(later) > 0 && rng.Chance(0.3) {
			// contract: only blocks not yet written at this version, only live or unused labels
			present := e.presentAt(cur)
			dead := map[uint64]bool{}
			if sn := e.lastAt(cur); sn != nil {
				for l, o := range sn.SVs {
					if o.Size.St == stErr {
						dead[l] = true
					}
				}
			}
			var todo [][3]int
			ok := true
			for _, b := range later {
				if present[b] {
					continue
				}
				for _, l := range e.h.G.blockArray(e.layout, b) {
					if l != 0 && dead[l] {
						ok = false
					}
				}
				todo = append(todo, b)
			}
			later = nil
			if ok && len(todo) > 0 {
				e.step(mkIngest(cur, todo))
			}
			continue
		}
		kinds := []string{"merge", "merge", "cleave", "cleave", "splitsv", "splitsv", "renumber", "write", "write", "split"}
		kind := kinds[rng.Intn(len(kinds))]
		bad := rng.Chance(0.12) && kind != "write" && kind != "split"
		op, ok := e.genOp(rng, cur, kind, bad)
		if !ok {
			continue
		}
		e.step(op)
	}
	e.step(Op{K: "observe", V: cur})
	e.h.Ops = nil
	for _, st := range e.steps {
		e.h.Ops = append(e.h.Ops, st.Op)
	}
}
