// Driver C08: random histories.  Operations are drawn one at a time from what the server
// currently reports (so that the documented contracts can be respected), executed, and stored
// concretely in the history: a replay re-executes the stored list without any randomness.
package main

import (
	"fmt"
	"os"
	"sort"

	"verif/harness/lib"
)

var bigLabels = []uint64{1<<32 + 5, 1<<40 + 7, 1<<53 + 1, 1<<63 + 11, 1<<63 + 12, 1<<33 + 2}

func genHistory(rng *lib.Rand, k int, thorough bool) *History {
	dims := [][3]int{{2, 2, 1}, {2, 1, 2}, {3, 1, 1}, {1, 2, 2}, {2, 1, 1}}
	if thorough {
		dims = append(dims, [3]int{2, 2, 2}, [3]int{3, 2, 1})
	}
	if chainMode {
		dims = [][3]int{{1, 1, 1}}
	}
	g := Geom{BS: 16, Dim: dims[rng.Intn(len(dims))], Org: [3]int{rng.Intn(4), rng.Intn(4), rng.Intn(4)}}
	if adversarial == "negorg" || rng.Chance(0.3) {
		// block coordinates below zero (volumes straddling the origin)
		g.Org = [3]int{rng.Intn(4) - 2, rng.Intn(4) - 2, rng.Intn(4) - 2}
	}
	g.Lo = k%2 == 1 // every other history: MaxDownresLevel 1, scale 1 observed
	h := &History{G: g, Kind: "proofread"}
	n := g.N()
	nl := 5 + rng.Intn(5)
	if chainMode {
		nl = 6 + rng.Intn(3)
	}
	var labels []uint64
	used := map[uint64]bool{}
	for len(labels) < nl {
		var l uint64
		if adversarial == "maxu64" && len(labels) == 0 {
			l = 1<<64 - 1
		} else if rng.Chance(0.2) {
			l = bigLabels[rng.Intn(len(bigLabels))]
		} else {
			l = uint64(1 + rng.Intn(24))
		}
		if !used[l] {
			used[l] = true
			labels = append(labels, l)
		}
	}
	rbox := func(lo, hi [3]int, maxd int) ([3]int, [3]int) {
		var p, d [3]int
		for i := 0; i < 3; i++ {
			ext := hi[i] - lo[i]
			d[i] = 1 + rng.Intn(min(ext, maxd))
			p[i] = lo[i] + rng.Intn(ext-d[i]+1)
		}
		return p, d
	}
	for i, l := range labels {
		switch {
		case chainMode: // every label keeps voxels: its own z-slab, a random box inside it
			p, d := rbox([3]int{0, 0, 2 * i}, [3]int{n[0], n[1], 2*i + 2}, 16)
			h.Layout = append(h.Layout, Box{p, d, l})
		case i < 2 || rng.Chance(0.3): // spans blocks
			p, d := rbox([3]int{0, 0, 0}, n, 40)
			h.Layout = append(h.Layout, Box{p, d, l})
		case rng.Chance(0.6): // confined to one 8^3 sub-block
			sb := [3]int{rng.Intn(n[0] / 8), rng.Intn(n[1] / 8), rng.Intn(n[2] / 8)}
			lo := [3]int{sb[0] * 8, sb[1] * 8, sb[2] * 8}
			p, d := rbox(lo, [3]int{lo[0] + 8, lo[1] + 8, lo[2] + 8}, 8)
			h.Layout = append(h.Layout, Box{p, d, l})
		default: // thin slab or single voxels
			p, d := rbox([3]int{0, 0, 0}, n, 24)
			d[rng.Intn(3)] = 1
			h.Layout = append(h.Layout, Box{p, d, l})
		}
	}
	if !chainMode && rng.Chance(0.4) { // a solid block of one label
		b := [3]int{rng.Intn(g.Dim[0]), rng.Intn(g.Dim[1]), rng.Intn(g.Dim[2])}
		h.Layout = append(h.Layout, Box{[3]int{b[0] * 16, b[1] * 16, b[2] * 16}, [3]int{16, 16, 16}, labels[rng.Intn(len(labels))]})
	}
	if !chainMode && rng.Chance(0.5) { // some background carved back
		p, d := rbox([3]int{0, 0, 0}, n, 20)
		h.Layout = append(h.Layout, Box{p, d, 0})
	}
	for i := 0; i < 6; i++ {
		h.Pts = append(h.Pts, [3]int{rng.Intn(n[0]), rng.Intn(n[1]), rng.Intn(n[2])})
	}
	h.Extra = []uint64{9999, 1<<41 + 3}
	return h
}

type view struct {
	svSize  map[uint64]uint64
	bodies  map[uint64][]uint64 // body -> live supervoxels (sorted)
	blist   []uint64
	svBody  map[uint64]uint64
	inBlock map[[3]int]map[uint64]bool // block -> supervoxels with voxels in it
}

type svBlock struct {
	sv  uint64
	blk [3]int
}

// shared: (supervoxel, block) pairs where another supervoxel of the same body also has voxels
// in that block — the situations in which one body's index entry for a block holds several counts.
func (vw *view) shared() []svBlock {
	var out []svBlock
	for blk, svs := range vw.inBlock {
		for sv := range svs {
			for other := range svs {
				if other != sv && vw.svBody[other] == vw.svBody[sv] {
					out = append(out, svBlock{sv, blk})
					break
				}
			}
		}
	}
	sort.Slice(out, func(i, j int) bool {
		if out[i].sv != out[j].sv {
			return out[i].sv < out[j].sv
		}
		a, b := out[i].blk, out[j].blk
		if a[2] != b[2] {
			return a[2] < b[2]
		}
		if a[1] != b[1] {
			return a[1] < b[1]
		}
		return a[0] < b[0]
	})
	return out
}

// anyPairs: every (supervoxel, block) with voxels.
func (vw *view) anyPairs() []svBlock {
	var out []svBlock
	for blk, svs := range vw.inBlock {
		for sv := range svs {
			out = append(out, svBlock{sv, blk})
		}
	}
	sort.Slice(out, func(i, j int) bool {
		if out[i].sv != out[j].sv {
			return out[i].sv < out[j].sv
		}
		a, b := out[i].blk, out[j].blk
		if a[2] != b[2] {
			return a[2] < b[2]
		}
		if a[1] != b[1] {
			return a[1] < b[1]
		}
		return a[0] < b[0]
	})
	return out
}

func (e *Exec) view(v int) *view {
	vw := &view{svSize: map[uint64]uint64{}, bodies: map[uint64][]uint64{}, svBody: map[uint64]uint64{}, inBlock: map[[3]int]map[uint64]bool{}}
	sn := e.lastAt(v)
	if sn == nil {
		return vw
	}
	g := e.h.G
	n := g.N()
	for z := 0; z < n[2]; z++ {
		for y := 0; y < n[1]; y++ {
			for x := 0; x < n[0]; x++ {
				l := sn.SV[g.Idx(x, y, z)]
				if l == 0 {
					continue
				}
				vw.svSize[l]++
				b := g.BlockOf(x, y, z)
				if vw.inBlock[b] == nil {
					vw.inBlock[b] = map[uint64]bool{}
				}
				vw.inBlock[b][l] = true
			}
		}
	}
	for sv := range vw.svSize {
		body := sv
		if o := sn.SVs[sv]; o != nil {
			body = o.Map
		}
		vw.svBody[sv] = body
		vw.bodies[body] = append(vw.bodies[body], sv)
	}
	for b, svs := range vw.bodies {
		vw.bodies[b] = sortedU64(svs)
		vw.blist = append(vw.blist, b)
	}
	sort.Slice(vw.blist, func(i, j int) bool { return vw.blist[i] < vw.blist[j] })
	return vw
}

func (e *Exec) lastAt(v int) *Snap {
	for x := v; x >= 0; x = e.parent[x] {
		if sn := e.last[x]; sn != nil {
			return sn
		}
	}
	return nil
}

func (e *Exec) presentAt(v int) map[[3]int]bool {
	m := map[[3]int]bool{}
	if sn := e.lastAt(v); sn != nil {
		for _, b := range sn.Present {
			m[b] = true
		}
	}
	return m
}

func (e *Exec) fresh(rng *lib.Rand) uint64 {
	for {
		var l uint64
		if rng.Chance(0.25) {
			l = 1<<34 + uint64(rng.Intn(1000))
		} else {
			l = uint64(30 + rng.Intn(60))
		}
		if !e.inUni[l] {
			e.addUni(l)
			return l
		}
	}
}

// rows of a supervoxel: maximal x-runs
func (e *Exec) rows(v int, sv uint64) []Run {
	g := e.h.G
	n := g.N()
	vol := e.curSV(v)
	var out []Run
	for z := 0; z < n[2]; z++ {
		for y := 0; y < n[1]; y++ {
			x := 0
			for x < n[0] {
				if vol[g.Idx(x, y, z)] != sv {
					x++
					continue
				}
				x0 := x
				for x < n[0] && vol[g.Idx(x, y, z)] == sv {
					x++
				}
				out = append(out, Run{[3]int{x0, y, z}, x - x0})
			}
		}
	}
	return out
}

func pickSubset(rng *lib.Rand, xs []uint64, lo, hi int) []uint64 {
	p := append([]uint64(nil), xs...)
	for i := len(p) - 1; i > 0; i-- {
		j := rng.Intn(i + 1)
		p[i], p[j] = p[j], p[i]
	}
	k := lo + rng.Intn(hi-lo+1)
	if k > len(p) {
		k = len(p)
	}
	return sortedU64(p[:k])
}

func allBlocks(g Geom) [][3]int {
	var out [][3]int
	for z := 0; z < g.Dim[2]; z++ {
		for y := 0; y < g.Dim[1]; y++ {
			for x := 0; x < g.Dim[0]; x++ {
				out = append(out, [3]int{x, y, z})
			}
		}
	}
	return out
}

var adversarial string

// colocated: the next merge must join bodies that meet in one block (agglomeration phase)
var colocated bool

// forceShape: the next write wipes a supervoxel from a block / the next split takes a
// supervoxel's whole share of a block (both preferably where a body has several supervoxels)
var forceShape bool

// erased: labels known to the mapping (mapped to another body) that have no voxel at the moment
func (e *Exec) erased(v int) []uint64 {
	sn := e.lastAt(v)
	if sn == nil {
		return nil
	}
	var out []uint64
	for _, p := range sn.Mappings {
		if p[1] != 0 && p[1] != p[0] {
			if o := sn.SVs[p[0]]; o != nil && o.Size.St == stNotFound {
				out = append(out, p[0])
			}
		}
	}
	return sortedU64(out)
}

// genOp draws the next operation at version v; returns false if nothing of that kind is possible.
func (e *Exec) genOp(rng *lib.Rand, v int, kind string, bad bool) (Op, bool) {
	g := e.h.G
	vw := e.view(v)
	switch kind {
	case "merge":
		if len(vw.blist) < 2 {
			return Op{}, false
		}
		sel := pickSubset(rng, vw.blist, 2, min(4, len(vw.blist)))
		if colocated || rng.Chance(0.5) {
			// bodies that have voxels in one common block
			var blks [][3]int
			for b := range vw.inBlock {
				blks = append(blks, b)
			}
			sort.Slice(blks, func(i, j int) bool { return g.bidOf(blks[i]) < g.bidOf(blks[j]) })
			for try := 0; try < 4 && len(blks) > 0; try++ {
				b := blks[rng.Intn(len(blks))]
				seen := map[uint64]bool{}
				var bs []uint64
				for sv := range vw.inBlock[b] {
					if body := vw.svBody[sv]; !seen[body] {
						seen[body] = true
						bs = append(bs, body)
					}
				}
				if len(bs) >= 2 {
					sel = pickSubset(rng, sortedU64(bs), 2, min(3, len(bs)))
					break
				}
			}
		}
		t := rng.Intn(len(sel))
		op := Op{K: "merge", V: v, Target: sel[t]}
		for i, l := range sel {
			if i != t {
				op.Labels = append(op.Labels, l)
			}
		}
		if adversarial == "merge-self" {
			op.Labels = append(op.Labels, op.Target)
			op.Bad = "merge-self"
			return op, true
		}
		if bad {
			switch rng.Intn(3) {
			case 0:
				op.Labels = append(op.Labels, e.fresh(rng))
				op.Bad = "merge-missing"
			case 1:
				op.Target = e.fresh(rng)
				op.Bad = "merge-into-missing"
			default:
				op.Labels = append(op.Labels, op.Target)
				op.Bad = "merge-self"
			}
		}
		return op, true
	case "cleave":
		var cands []uint64
		for _, b := range vw.blist {
			if len(vw.bodies[b]) >= 2 {
				cands = append(cands, b)
			}
		}
		if len(cands) == 0 {
			return Op{}, false
		}
		b := cands[rng.Intn(len(cands))]
		svs := vw.bodies[b]
		op := Op{K: "cleave", V: v, Target: b, Labels: pickSubset(rng, svs, 1, len(svs)-1)}
		if adversarial == "cleave-empty" {
			op.Labels = []uint64{}
			op.Bad = "cleave-empty"
			return op, true
		}
		if bad {
			switch rng.Intn(4) {
			case 3:
				op.Labels = []uint64{}
				op.Bad = "cleave-empty"
			case 0:
				op.Labels = svs
				op.Bad = "cleave-all"
			case 1:
				op.Labels = append(op.Labels, e.fresh(rng))
				op.Bad = "cleave-foreign"
			default:
				op.Labels = append(op.Labels, op.Labels[0])
				op.Bad = "cleave-duplicate"
			}
		}
		return op, true
	case "splitsv", "split":
		var svs []uint64
		for sv, sz := range vw.svSize {
			if sz >= 2 {
				svs = append(svs, sv)
			}
		}
		if len(svs) == 0 {
			return Op{}, false
		}
		svs = sortedU64(svs)
		sv := svs[rng.Intn(len(svs))]
		mode := rng.Intn(10)
		var blockShare *svBlock
		if kind == "splitsv" && (mode >= 6 || forceShape) {
			// the supervoxel's whole share of one block, preferably a block it shares with another
			// supervoxel of its body
			cands := vw.shared()
			if len(cands) == 0 || (rng.Chance(0.25) && !forceShape) {
				cands = vw.anyPairs()
			}
			if len(cands) > 0 {
				c := cands[rng.Intn(len(cands))]
				blockShare, sv = &c, c.sv
			}
		}
		rows := e.rows(v, sv)
		var runs []Run
		switch {
		case blockShare != nil:
			lo, hi := blockShare.blk[0]*g.BS, (blockShare.blk[0]+1)*g.BS
			for _, r := range rows {
				if g.BlockOf(r.P[0], r.P[1], r.P[2])[1] != blockShare.blk[1] || r.P[2]/g.BS != blockShare.blk[2] {
					continue
				}
				x0, x1 := max(r.P[0], lo), min(r.P[0]+r.N, hi)
				if x1 > x0 {
					runs = append(runs, Run{[3]int{x0, r.P[1], r.P[2]}, x1 - x0})
				}
			}
		case mode == 0 && kind == "splitsv": // whole supervoxel
			runs = rows
		case mode == 1 && kind == "splitsv": // nothing
		default:
			// a contiguous range of rows, the first and last possibly cut
			a := rng.Intn(len(rows))
			b := a + 1 + rng.Intn(min(len(rows)-a, 40))
			for i := a; i < b; i++ {
				r := rows[i]
				if (i == a || i == b-1) && r.N > 1 && rng.Bool() {
					c := 1 + rng.Intn(r.N-1)
					if rng.Bool() {
						r = Run{r.P, c}
					} else {
						r = Run{[3]int{r.P[0] + r.N - c, r.P[1], r.P[2]}, c}
					}
				}
				runs = append(runs, r)
			}
		}
		if kind == "split" {
			// split of a body: runs may come from several supervoxels of the body
			var body uint64
			for b, l := range vw.bodies {
				for _, s := range l {
					if s == sv {
						body = b
					}
				}
			}
			for _, s2 := range vw.bodies[body] {
				if s2 != sv && rng.Chance(0.5) {
					r2 := e.rows(v, s2)
					a := rng.Intn(len(r2))
					runs = append(runs, r2[a:min(len(r2), a+1+rng.Intn(10))]...)
				}
			}
			var tot uint64
			for _, r := range runs {
				tot += uint64(r.N)
			}
			var bsz uint64
			for _, s2 := range vw.bodies[body] {
				bsz += vw.svSize[s2]
			}
			if tot == 0 || tot >= bsz {
				return Op{}, false
			}
			return Op{K: "split", V: v, Target: body, Runs: runs}, true
		}
		op := Op{K: "splitsv", V: v, Target: sv, Runs: runs}
		if rng.Chance(0.3) {
			op.Split = e.fresh(rng)
		}
		if rng.Chance(0.3) {
			op.Remain = e.fresh(rng)
		}
		if bad {
			// add a run over voxels that are not this supervoxel
			n := g.N()
			vol := e.curSV(v)
			for try := 0; try < 50; try++ {
				p := [3]int{rng.Intn(n[0]), rng.Intn(n[1]), rng.Intn(n[2])}
				if vol[g.Idx(p[0], p[1], p[2])] != sv {
					op.Runs = append(op.Runs, Run{p, 1})
					op.Bad = "split-outside"
					break
				}
			}
			if op.Bad == "" {
				return Op{}, false
			}
		}
		return op, true
	case "renumber":
		if len(vw.blist) == 0 {
			return Op{}, false
		}
		op := Op{K: "renumber", V: v, Old: vw.blist[rng.Intn(len(vw.blist))], New: e.fresh(rng)}
		if adversarial == "renumber-zero" {
			op.New = 0
			op.Bad = "renumber-zero"
			return op, true
		}
		if adversarial == "renumber-sv" {
			// new label = id of a live supervoxel that is not a body id (it was merged into another body)
			var cands []uint64
			for sv := range vw.svSize {
				if _, isBody := vw.bodies[sv]; !isBody {
					cands = append(cands, sv)
				}
			}
			if len(cands) == 0 {
				return Op{}, false
			}
			cands = sortedU64(cands)
			op.New = cands[rng.Intn(len(cands))]
			op.Bad = "renumber-sv"
			return op, true
		}
		if bad {
			if len(vw.blist) < 2 || rng.Chance(0.3) {
				op.New = 0
				op.Bad = "renumber-zero"
				return op, true
			}
			for op.New = op.Old; op.New == op.Old; {
				op.New = vw.blist[rng.Intn(len(vw.blist))]
			}
			op.Bad = "renumber-existing"
			if rng.Chance(0.4) {
				// the id of a live supervoxel that was merged into another body
				var cands []uint64
				for sv := range vw.svSize {
					if _, isBody := vw.bodies[sv]; !isBody {
						cands = append(cands, sv)
					}
				}
				if len(cands) > 0 {
					cands = sortedU64(cands)
					op.New = cands[rng.Intn(len(cands))]
					op.Bad = "renumber-sv"
				}
			}
		}
		return op, true
	case "roll":
		// a count-preserving rewrite across a block face: the content of a box that straddles the
		// face between two blocks is rotated along the axis through the face (mutating write over
		// both blocks).  Every supervoxel keeps its total, its per-block counts move.
		vol := e.curSV(v)
		present := e.presentAt(v)
		for try := 0; try < 12; try++ {
			ax := rng.Intn(3)
			if g.Dim[ax] < 2 {
				continue
			}
			b0 := [3]int{rng.Intn(g.Dim[0]), rng.Intn(g.Dim[1]), rng.Intn(g.Dim[2])}
			b0[ax] = rng.Intn(g.Dim[ax] - 1)
			b1 := b0
			b1[ax]++
			if !present[b0] || !present[b1] {
				continue
			}
			var p, d [3]int
			for a := 0; a < 3; a++ {
				if a == ax {
					w1, w2 := 1+rng.Intn(8), 1+rng.Intn(8)
					p[a], d[a] = (b0[a]+1)*g.BS-w1, w1+w2
				} else {
					d[a] = 1 + rng.Intn(10)
					p[a] = b0[a]*g.BS + rng.Intn(g.BS-d[a]+1)
				}
			}
			k := 1 + rng.Intn(d[ax]-1)
			rolled := append([]uint64(nil), vol...)
			for z := p[2]; z < p[2]+d[2]; z++ {
				for y := p[1]; y < p[1]+d[1]; y++ {
					for x := p[0]; x < p[0]+d[0]; x++ {
						c := [3]int{x, y, z}
						src := c
						src[ax] = p[ax] + ((c[ax]-p[ax])-k+d[ax])%d[ax]
						rolled[g.Idx(x, y, z)] = vol[g.Idx(src[0], src[1], src[2])]
					}
				}
			}
			boxes := g.DiffBoxes(vol, rolled)
			if len(boxes) == 0 || len(boxes) > 60 {
				continue
			}
			nb := [3]int{1, 1, 1}
			nb[ax] = 2
			return Op{K: "write", V: v, B0: b0, NB: nb, Boxes: boxes}, true
		}
		return Op{}, false
	case "write":
		// a block-aligned region, a few boxes inside it
		present := e.presentAt(v)
		b0 := [3]int{rng.Intn(g.Dim[0]), rng.Intn(g.Dim[1]), rng.Intn(g.Dim[2])}
		nb := [3]int{1, 1, 1}
		ax := rng.Intn(3)
		if b0[ax]+1 < g.Dim[ax] && rng.Bool() {
			nb[ax] = 2
		}
		_ = present
		lo := [3]int{b0[0] * 16, b0[1] * 16, b0[2] * 16}
		hi := [3]int{lo[0] + nb[0]*16, lo[1] + nb[1]*16, lo[2] + nb[2]*16}
		var live []uint64
		for sv := range vw.svSize {
			live = append(live, sv)
		}
		live = sortedU64(live)
		op := Op{K: "write", V: v, B0: b0, NB: nb}
		if len(live) > 0 && (forceShape || rng.Chance(0.45)) {
			// wipe one supervoxel out of one block exactly (its count there drops to zero, everything
			// else in the block stays), by background or by another label; preferably a block the
			// supervoxel shares with another supervoxel of its body
			cands := vw.shared()
			if len(cands) == 0 || (rng.Chance(0.3) && !forceShape) {
				cands = vw.anyPairs()
			}
			if len(cands) > 0 {
				c := cands[rng.Intn(len(cands))]
				var l uint64
				if rng.Chance(0.4) && len(live) > 1 {
					if l = live[rng.Intn(len(live))]; l == c.sv {
						l = 0
					}
				}
				vol := e.curSV(v)
				wiped := append([]uint64(nil), vol...)
				for z := c.blk[2] * g.BS; z < (c.blk[2]+1)*g.BS; z++ {
					for y := c.blk[1] * g.BS; y < (c.blk[1]+1)*g.BS; y++ {
						for x := c.blk[0] * g.BS; x < (c.blk[0]+1)*g.BS; x++ {
							if i := g.Idx(x, y, z); vol[i] == c.sv {
								wiped[i] = l
							}
						}
					}
				}
				op.B0, op.NB = c.blk, [3]int{1, 1, 1}
				op.Boxes = g.DiffBoxes(vol, wiped)
				if len(op.Boxes) > 0 && len(op.Boxes) <= 40 {
					return op, true
				}
				op.Boxes = nil
			}
		}
		for i, k := 0, 1+rng.Intn(3); i < k; i++ {
			var p, d [3]int
			for a := 0; a < 3; a++ {
				ext := hi[a] - lo[a]
				d[a] = 1 + rng.Intn(min(ext, 12))
				p[a] = lo[a] + rng.Intn(ext-d[a]+1)
			}
			var l uint64
			switch r := rng.Intn(10); {
			case adversarial == "write-revive" && len(e.erased(v)) > 0:
				er := e.erased(v)
				l = er[rng.Intn(len(er))]
				op.Bad = "write-revive"
			case r < 3:
				l = 0
			case r < 7 && len(live) > 0:
				l = live[rng.Intn(len(live))]
			default:
				l = e.fresh(rng)
			}
			op.Boxes = append(op.Boxes, Box{p, d, l})
		}
		return op, true
	}
	return Op{}, false
}

// driveGenerated builds and executes one history.
func driveGenerated(e *Exec, rng *lib.Rand) {
	g := e.h.G
	blocks := allBlocks(g)
	// initial ingest: all blocks, or a part now and the rest later
	via := []string{"blocks", "blocks", "raw", "offline"}[rng.Intn(4)]
	if g.Lo && via == "offline" {
		via = "blocks" // ingest-supervoxels leaves the lower scales to the client
	}
	first := blocks
	var later [][3]int
	if len(blocks) > 1 && via != "offline" && rng.Chance(0.4) {
		k := 1 + rng.Intn(len(blocks)-1)
		first, later = blocks[:k], blocks[k:]
	}
	mkIngest := func(v int, bl [][3]int) Op {
		op := Op{K: "ingest", V: v, Via: via, Blocks: bl}
		if via == "offline" {
			// bodies = groups of supervoxels chosen by the client; only on the first ingest
			var mx uint64
			for _, b := range e.h.Layout {
				if b.L > mx {
					mx = b.L
				}
			}
			op.MaxL = mx
			// agglomeration computed offline: some bodies made of two or three supervoxels
			seen := map[uint64]bool{}
			var ls []uint64
			for _, b := range e.h.Layout {
				if b.L != 0 && !seen[b.L] {
					seen[b.L] = true
					ls = append(ls, b.L)
				}
			}
			for len(ls) >= 2 && rng.Chance(0.6) {
				k := 2 + rng.Intn(min(2, len(ls)-1))
				op.Groups = append(op.Groups, append([]uint64(nil), ls[:k]...))
				ls = ls[k:]
			}
		}
		return op
	}
	nOps := 9 + rng.Intn(4)
	cur := 0
	e.step(mkIngest(0, first))
	// agglomeration first: bodies of several supervoxels that meet in one block exist before the
	// writes and splits
	if rng.Chance(0.95) {
		for k, n := 0, 1+rng.Intn(2); k < n; k++ {
			colocated = true
			if op, ok := e.genOp(rng, cur, "merge", false); ok {
				e.step(op)
			}
			colocated = false
		}
	}
	forceMapping := false
	// shapes every history should see at some point after the agglomeration
	var todo []string
	if rng.Chance(0.9) {
		todo = append(todo, "write")
	}
	if rng.Chance(0.9) {
		todo = append(todo, "splitsv")
	}
	if len(todo) == 2 && rng.Bool() {
		todo[0], todo[1] = todo[1], todo[0]
	}
	if rng.Chance(0.8) {
		// a count-preserving move across a block face, at a random place among the shapes
		at := rng.Intn(len(todo) + 1)
		todo = append(todo[:at], append([]string{"roll"}, todo[at:]...)...)
	}
	for i := 0; i < nOps; i++ {
		if len(todo) > 0 && !forceMapping && rng.Chance(0.4) {
			forceShape = true
			op, ok := e.genOp(rng, cur, todo[0], false)
			forceShape = false
			todo = todo[1:]
			if ok {
				e.step(op)
				continue
			}
		}
		// version events
		if rng.Chance(0.25) && len(e.uuids) < 4 {
			e.step(Op{K: "commit", V: cur})
			if rng.Chance(0.5) {
				// a chain cur -> A -> B where A is committed at once and nothing looks at A or B
				// before the first request at B
				e.step(Op{K: "newversion", V: cur, Child: len(e.uuids), Quiet: true})
				a := len(e.uuids) - 1
				e.step(Op{K: "commit", V: a, Quiet: true})
				e.step(Op{K: "newversion", V: a, Child: len(e.uuids), Quiet: true})
				cur = len(e.uuids) - 1
				forceMapping = true
				continue
			}
			if rng.Chance(0.5) {
				e.step(Op{K: "newversion", V: cur, Child: len(e.uuids)})
				cur = len(e.uuids) - 1
			} else {
				e.step(Op{K: "branch", V: cur, Child: len(e.uuids)})
				child := len(e.uuids) - 1
				if rng.Bool() && len(e.uuids) < 4 {
					e.step(Op{K: "newversion", V: cur, Child: len(e.uuids)})
					// two open children: work on either
					if rng.Bool() {
						cur = child
					} else {
						cur = len(e.uuids) - 1
					}
				} else {
					cur = child
				}
			}
			continue
		}
		// switch between open versions
		var open []int
		for v := range e.uuids {
			if !e.locked[v] {
				open = append(open, v)
			}
		}
		if len(open) > 1 && rng.Chance(0.3) && !forceMapping {
			cur = open[rng.Intn(len(open))]
		}
		if forceMapping {
			// the first request at the new leaf changes the mapping
			forceMapping = false
			done := false
			for _, kind := range []string{[]string{"merge", "cleave", "renumber"}[rng.Intn(3)], "merge", "renumber"} {
				if op, ok := e.genOp(rng, cur, kind, false); ok {
					e.step(op)
					done = true
					break
				}
			}
			if done {
				continue
			}
		}
		if len(later) > 0 && rng.Chance(0.3) {
			// contract: only blocks not yet written at this version, only live or unused labels
			present := e.presentAt(cur)
			dead := map[uint64]bool{}
			if sn := e.lastAt(cur); sn != nil {
				for l, o := range sn.SVs {
					if o.Size.St == stErr {
						dead[l] = true
					}
				}
			}
			var todo [][3]int
			ok := true
			for _, b := range later {
				if present[b] {
					continue
				}
				for _, l := range e.h.G.blockArray(e.layout, b) {
					if l != 0 && dead[l] {
						ok = false
					}
				}
				todo = append(todo, b)
			}
			later = nil
			if ok && len(todo) > 0 {
				e.step(mkIngest(cur, todo))
			}
			continue
		}
		kinds := []string{"merge", "merge", "cleave", "cleave", "splitsv", "splitsv", "renumber", "write", "write", "split", "roll"}
		kind := kinds[rng.Intn(len(kinds))]
		bad := rng.Chance(0.12) && kind != "write" && kind != "split" && kind != "roll"
		op, ok := e.genOp(rng, cur, kind, bad)
		if !ok {
			continue
		}
		e.step(op)
	}
	if adversarial == "dagmerge" {
		// two branches of one parent, each with a mapping operation, then a DAG merge node
		e.step(Op{K: "commit", V: cur})
		e.step(Op{K: "branch", V: cur, Child: len(e.uuids)})
		a := len(e.uuids) - 1
		e.step(Op{K: "newversion", V: cur, Child: len(e.uuids)})
		b := len(e.uuids) - 1
		for _, v := range []int{a, b} {
			for _, kind := range []string{"merge", "cleave", "renumber"} {
				if op, ok := e.genOp(rng, v, kind, false); ok {
					e.step(op)
					break
				}
			}
			e.step(Op{K: "commit", V: v})
		}
		e.step(Op{K: "dagmerge", V: b, Labels: []uint64{uint64(a)}, Child: len(e.uuids)})
	}
	if adversarial == "ingest-overwrite" {
		// contract violation the server accepts: POST blocks onto blocks already written
		if pr := e.presentAt(cur); len(pr) > 0 {
			var bl [][3]int
			for b := range pr {
				bl = append(bl, b)
			}
			sort.Slice(bl, func(i, j int) bool { return g.bidOf(bl[i]) < g.bidOf(bl[j]) })
			e.step(Op{K: "ingest", V: cur, Via: "blocks", Blocks: bl[:1], Bad: "ingest-overwrite"})
		}
	}
	e.step(Op{K: "observe", V: cur})
	e.h.Ops = nil
	for _, st := range e.steps {
		e.h.Ops = append(e.h.Ops, st.Op)
	}
}

// ---- dense chains of mapping operations, on a server process that is restarted ----

var chainMode bool

func genChainHistory(rng *lib.Rand, k int) *History {
	chainMode = true
	defer func() { chainMode = false }()
	h := genHistory(rng, k, false)
	h.Kind, h.Child, h.G.Lo = "chain", true, false
	return h
}

// genChainOp draws a mapping operation on a body the chain touched recently (rel), so that
// merges, cleaves, renumbers and supervoxel splits pile up on the same few bodies.
func (e *Exec) genChainOp(rng *lib.Rand, v int, rel *[]uint64) (Op, bool) {
	vw := e.view(v)
	if len(vw.blist) == 0 {
		return Op{}, false
	}
	var recent []uint64
	for _, b := range *rel {
		if _, ok := vw.bodies[b]; ok {
			recent = append(recent, b)
		}
	}
	// aliased ids: a body whose id is also the id of a live supervoxel that belongs to another
	// body (the supervoxel was cleaved out, or the body was renumbered onto / merged around it)
	var aliased []uint64
	for _, b := range vw.blist {
		if owner, live := vw.svBody[b]; live && owner != b {
			aliased = append(aliased, b)
		}
	}
	pickBody := func() uint64 {
		if len(aliased) > 0 && rng.Chance(0.4) {
			return aliased[rng.Intn(len(aliased))]
		}
		if len(recent) > 0 && rng.Chance(0.75) {
			return recent[rng.Intn(len(recent))]
		}
		return vw.blist[rng.Intn(len(vw.blist))]
	}
	if os.Getenv("C08_DEBUG") != "" {
		fmt.Fprintf(os.Stderr, "chain v%d bodies=%v aliased=%v\n", v, vw.bodies, aliased)
	}
	if len(aliased) > 0 && rng.Chance(0.5) {
		// a rare state: put it through every kind of operation while it lasts
		b := aliased[rng.Intn(len(aliased))]
		var others []uint64
		for _, c := range vw.blist {
			if c != b {
				others = append(others, c)
			}
		}
		switch k := rng.Intn(4); {
		case k == 1 && len(others) > 0:
			return Op{K: "merge", V: v, Target: b, Labels: []uint64{others[rng.Intn(len(others))]}}, true
		case k == 2 && len(others) > 0:
			return Op{K: "merge", V: v, Target: others[rng.Intn(len(others))], Labels: []uint64{b}}, true
		case k == 3 && len(vw.bodies[b]) >= 2:
			return Op{K: "cleave", V: v, Target: b, Labels: pickSubset(rng, vw.bodies[b], 1, len(vw.bodies[b])-1)}, true
		default:
			return Op{K: "renumber", V: v, Old: b, New: e.fresh(rng)}, true
		}
	}
	kinds := []string{"merge", "merge", "merge", "merge", "merge", "cleave", "cleave", "cleave", "cleave", "cleave", "renumber", "splitsv"}
	for try := 0; try < 6; try++ {
		switch kind := kinds[rng.Intn(len(kinds))]; kind {
		case "merge":
			if len(vw.blist) < 2 {
				continue
			}
			a := pickBody()
			b := a
			for b == a {
				b = pickBody()
				if b == a {
					b = vw.blist[rng.Intn(len(vw.blist))]
				}
			}
			if rng.Bool() {
				a, b = b, a
			}
			// mostly keep the name of a body that is called after one of its own supervoxels, as
			// agglomerations are in practice
			if _, bIsSv := vw.svSize[b]; bIsSv && vw.svBody[b] == b && rng.Chance(0.85) {
				a, b = b, a
			}
			op := Op{K: "merge", V: v, Target: a, Labels: []uint64{b}}
			if len(vw.blist) > 2 && rng.Chance(0.25) {
				for _, c := range vw.blist {
					if c != a && c != b {
						op.Labels = sortedU64(append(op.Labels, c))
						break
					}
				}
			}
			return op, true
		case "cleave":
			b := pickBody()
			if len(vw.bodies[b]) < 2 {
				var cands []uint64
				for _, c := range vw.blist {
					if len(vw.bodies[c]) >= 2 {
						cands = append(cands, c)
					}
				}
				if len(cands) == 0 {
					continue
				}
				b = cands[rng.Intn(len(cands))]
			}
			svs := vw.bodies[b]
			own := false
			for _, s := range svs {
				if s == b {
					own = true
				}
			}
			op := Op{K: "cleave", V: v, Target: b}
			if own && rng.Chance(0.6) {
				// the supervoxel that carries the body's own id leaves the body
				op.Labels = []uint64{b}
				for _, s := range svs {
					if s != b && len(op.Labels) < len(svs)-1 && rng.Chance(0.3) {
						op.Labels = append(op.Labels, s)
					}
				}
				op.Labels = sortedU64(op.Labels)
			} else {
				op.Labels = pickSubset(rng, svs, 1, len(svs)-1)
			}
			return op, true
		case "renumber":
			old := pickBody()
			if len(aliased) > 0 && rng.Chance(0.5) {
				old = aliased[rng.Intn(len(aliased))]
			}
			return Op{K: "renumber", V: v, Old: old, New: e.fresh(rng)}, true
		default:
			if op, ok := e.genOp(rng, v, "splitsv", false); ok {
				return op, true
			}
		}
	}
	return Op{}, false
}

// driveChain: ingest, then a long chain of mapping operations over two to four versions of
// (mostly) one ancestry path; the server process is restarted in the middle and at the end and
// every version is read again, leaves first; then the chain goes on at the leaf.
func driveChain(e *Exec, rng *lib.Rand) {
	g := e.h.G
	e.step(Op{K: "ingest", V: 0, Via: "blocks", Blocks: allBlocks(g)})
	cur := 0
	var rel []uint64
	chainStep := func() {
		op, ok := e.genChainOp(rng, cur, &rel)
		if !ok {
			return
		}
		e.step(op)
		st := e.steps[len(e.steps)-1]
		if !st.Resp.OK {
			return
		}
		switch op.K {
		case "merge":
			rel = append(rel, op.Target)
		case "cleave":
			rel = append(rel, op.Target)
			rel = append(rel, st.Resp.Labels...)
		case "renumber":
			rel = append(rel, op.New)
		}
		if len(rel) > 4 {
			rel = rel[len(rel)-4:]
		}
	}
	nOps := 24 + rng.Intn(9)
	restarted := false
	for i := 0; i < nOps; i++ {
		newv := i > 3 && len(e.uuids) < 4 && (rng.Chance(0.12) || (i >= nOps/3 && len(e.uuids) == 1))
		if newv {
			e.step(Op{K: "commit", V: cur, Quiet: true})
			if rng.Chance(0.8) {
				e.step(Op{K: "newversion", V: cur, Child: len(e.uuids), Quiet: true})
			} else {
				e.step(Op{K: "branch", V: cur, Child: len(e.uuids), Quiet: true})
			}
			cur = len(e.uuids) - 1
			continue
		}
		if !restarted && i > nOps/2 && len(e.uuids) > 1 && rng.Chance(0.25) {
			e.step(Op{K: "restart"})
			restarted = true
			continue
		}
		chainStep()
	}
	e.step(Op{K: "restart"})
	for i, n := 0, 1+rng.Intn(3); i < n; i++ {
		chainStep()
	}
	e.step(Op{K: "observe", V: cur})
	e.h.Ops = nil
	for _, st := range e.steps {
		e.h.Ops = append(e.h.Ops, st.Op)
	}
}
