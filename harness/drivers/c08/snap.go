// Driver C08: one snapshot = every read endpoint of the property at one version, and a Go-side
// copy of the property oracle (used only by -probe to search for failing histories quickly;
// the verdict of the check is computed in Coq by LabelMapRun.spec_class).
package main

import (
	"fmt"
	"sort"
)

type BodyObs struct {
	Size     Tri
	SVs      []uint64
	SVsSt    int
	SVSizes  [][2]uint64
	SVSzSt   int
	Index    []IdxEntry
	IdxLabel uint64
	IdxSt    int
	Sparse   []Run
	SparseSt int
	Coarse   []Run
	CoarseSt int
	SSize    SVolSize
	SSizeSt  int
	SizesE   uint64 // entry of the batch `sizes` answer
}

type SVObs struct {
	Size    Tri    // size/<sv>?supervoxels=true
	Map     uint64 // entry of the batch `mapping` answer
	SizesE  uint64 // entry of sizes?supervoxels=true
	Sparse  []Run  // sparsevol/<sv>?supervoxels=true
	SparseS int
}

type PtObs struct {
	P                      [3]int
	One, OneSV, Many, ManySV uint64
}

type Snap struct {
	Ver        int
	Present    [][3]int
	SV         []uint64 // blocks?supervoxels=true
	RawSV      []uint64
	BlkMapped  []uint64
	RawMapped  []uint64
	LoSV       []uint64 // raw?scale=1&supervoxels=true (only with Geom.Lo)
	LoMapped   []uint64 // raw?scale=1
	Bodies     map[uint64]*BodyObs
	SVs        map[uint64]*SVObs
	Mappings   [][2]uint64
	MaxLabel   Tri
	ListLabels [][2]uint64
	Pts        []PtObs
	ReadErr    []string // endpoints that answered with an unexpected status
}

func (s Srv) takeSnap(uuid string, ver int, universe []uint64, pts [][3]int) *Snap {
	return s.takeSnapU(uuid, ver, &universe, nil, pts)
}

// takeSnapU first adds every label found in the stored voxels to the universe (through add).
func (s Srv) takeSnapU(uuid string, ver int, uni *[]uint64, add func(...uint64), pts [][3]int) *Snap {
	sn := &Snap{Ver: ver, Bodies: map[uint64]*BodyObs{}, SVs: map[uint64]*SVObs{}}
	var st int
	var err error
	bad := func(what string, st int) {
		if st != stOK {
			sn.ReadErr = append(sn.ReadErr, fmt.Sprintf("%s:%d", what, st))
		}
	}
	sn.SV, sn.Present, st, err = s.getBlocks(uuid, true)
	if err != nil {
		sn.ReadErr = append(sn.ReadErr, err.Error())
	}
	bad("blocks-sv", st)
	if add != nil {
		seen := map[uint64]bool{}
		var ls []uint64
		for _, l := range sn.SV {
			if l != 0 && !seen[l] {
				seen[l] = true
				ls = append(ls, l)
			}
		}
		sort.Slice(ls, func(i, j int) bool { return ls[i] < ls[j] })
		add(ls...)
	}
	universe := *uni
	sn.BlkMapped, _, st, _ = s.getBlocks(uuid, false)
	bad("blocks-mapped", st)
	sn.RawSV, st = s.getRaw(uuid, true)
	bad("raw-sv", st)
	sn.RawMapped, st = s.getRaw(uuid, false)
	bad("raw-mapped", st)
	if s.g.Lo {
		sn.LoSV, st = s.getRawLo(uuid, true)
		bad("raw-sv-scale1", st)
		sn.LoMapped, st = s.getRawLo(uuid, false)
		bad("raw-mapped-scale1", st)
	}

	sizes, st := s.getSizes(uuid, universe, false)
	bad("sizes", st)
	svsizes, st2 := s.getSizes(uuid, universe, true)
	bad("sizes-sv", st2)
	maps, st3 := s.getMapping(uuid, universe)
	bad("mapping", st3)
	for i, l := range universe {
		b := &BodyObs{}
		b.Size = s.getSize(uuid, l, false)
		b.SVs, b.SVsSt = s.getSupervoxels(uuid, l)
		b.SVSizes, b.SVSzSt = s.getSupervoxelSizes(uuid, l)
		b.Index, b.IdxLabel, b.IdxSt = s.getIndex(uuid, l)
		b.Sparse, b.SparseSt = s.getSparsevol(uuid, l, false)
		b.Coarse, b.CoarseSt = s.getCoarse(uuid, l)
		b.SSize, b.SSizeSt = s.getSparsevolSize(uuid, l)
		if st == stOK {
			b.SizesE = sizes[i]
		}
		sn.Bodies[l] = b
		v := &SVObs{}
		v.Size = s.getSize(uuid, l, true)
		if st3 == stOK {
			v.Map = maps[i]
		}
		if st2 == stOK {
			v.SizesE = svsizes[i]
		}
		v.Sparse, v.SparseS = s.getSparsevol(uuid, l, true)
		sn.SVs[l] = v
	}
	sn.Mappings, st = s.getMappings(uuid)
	bad("mappings", st)
	sn.MaxLabel = s.getMaxLabel(uuid)
	sn.ListLabels, st = s.getListLabels(uuid)
	bad("listlabels", st)
	many, stm := s.getLabels(uuid, pts, false)
	bad("labels", stm)
	manysv, stv := s.getLabels(uuid, pts, true)
	bad("labels-sv", stv)
	for i, p := range pts {
		po := PtObs{P: p}
		a := s.getLabelAt(uuid, p, false)
		b := s.getLabelAt(uuid, p, true)
		bad("label", a.St)
		bad("label-sv", b.St)
		po.One, po.OneSV = a.V, b.V
		if stm == stOK {
			po.Many = many[i]
		}
		if stv == stOK {
			po.ManySV = manysv[i]
		}
		sn.Pts = append(sn.Pts, po)
	}
	return sn
}

// ---- the property oracle on one snapshot (Go copy, for -probe) ----

// scan: body -> block -> sv -> count, computed from SV voxels and the `mapping` answers.
type scanT struct {
	svBody   map[uint64]uint64                       // sv (with voxels) -> body
	counts   map[uint64]map[[3]int]map[uint64]uint64 // body -> block -> sv -> count
	svSize   map[uint64]uint64
	bodySize map[uint64]uint64
	nonzero  uint64
}

func (g Geom) scan(sn *Snap) (*scanT, []string) {
	var errs []string
	sc := &scanT{svBody: map[uint64]uint64{}, counts: map[uint64]map[[3]int]map[uint64]uint64{}, svSize: map[uint64]uint64{}, bodySize: map[uint64]uint64{}}
	n := g.N()
	for z := 0; z < n[2]; z++ {
		for y := 0; y < n[1]; y++ {
			for x := 0; x < n[0]; x++ {
				sv := sn.SV[g.Idx(x, y, z)]
				if sv == 0 {
					continue
				}
				sc.nonzero++
				o, ok := sn.SVs[sv]
				if !ok {
					errs = append(errs, fmt.Sprintf("supervoxel %d in voxels but not in the queried universe", sv))
					continue
				}
				body := o.Map
				sc.svBody[sv] = body
				sc.svSize[sv]++
				sc.bodySize[body]++
				m := sc.counts[body]
				if m == nil {
					m = map[[3]int]map[uint64]uint64{}
					sc.counts[body] = m
				}
				b := g.BlockOf(x, y, z)
				if m[b] == nil {
					m[b] = map[uint64]uint64{}
				}
				m[b][sv]++
			}
		}
	}
	return sc, errs
}

func (g Geom) checkSnap(sn *Snap) []string {
	var errs []string
	e := func(f string, a ...interface{}) { errs = append(errs, fmt.Sprintf("v%d: ", sn.Ver)+fmt.Sprintf(f, a...)) }
	for _, r := range sn.ReadErr {
		e("read error %s", r)
	}
	sc, serrs := g.scan(sn)
	errs = append(errs, serrs...)
	if !equalU64(sn.SV, sn.RawSV) {
		e("raw?supervoxels=true differs from blocks?supervoxels=true")
	}
	// mapped volumes
	mapOf := func(sv uint64) uint64 {
		if o := sn.SVs[sv]; o != nil {
			return o.Map
		}
		return 0
	}
	want := make([]uint64, len(sn.SV))
	for i, sv := range sn.SV {
		if sv != 0 {
			want[i] = mapOf(sv)
		}
	}
	if !equalU64(want, sn.BlkMapped) {
		e("blocks (mapped) differs from voxels pushed through mapping: %d voxels", countDiff(want, sn.BlkMapped))
	}
	if !equalU64(want, sn.RawMapped) {
		e("raw (mapped) differs from voxels pushed through mapping: %d voxels", countDiff(want, sn.RawMapped))
	}
	if g.Lo {
		// scale 1 = the documented down-sampling of the supervoxel voxels; mapped = pushed through mapping
		wantLo := g.downres(sn.SV)
		if !equalU64(wantLo, sn.LoSV) {
			e("scale 1 (supervoxels) differs from the down-sampling of scale 0: %d voxels", countDiff(wantLo, sn.LoSV))
		}
		wm := make([]uint64, len(sn.LoSV))
		for i, sv := range sn.LoSV {
			if sv != 0 {
				wm[i] = mapOf(sv)
			}
		}
		if !equalU64(wm, sn.LoMapped) {
			e("scale 1 (mapped) differs from scale 1 supervoxels pushed through mapping: %d voxels", countDiff(wm, sn.LoMapped))
		}
	}
	if body0 := sc.bodySize[0]; body0 != 0 {
		e("%d non-zero voxels belong to body 0 (lost)", body0)
	}
	var sum uint64
	labels := make([]uint64, 0, len(sn.Bodies))
	for l := range sn.Bodies {
		labels = append(labels, l)
	}
	sort.Slice(labels, func(i, j int) bool { return labels[i] < labels[j] })
	for _, l := range labels {
		b := sn.Bodies[l]
		want := sc.bodySize[l]
		if l == 0 {
			continue
		}
		// size
		if want == 0 {
			if b.Size.St != stNotFound {
				e("size/%d: want 404, got st=%d v=%d", l, b.Size.St, b.Size.V)
			}
			if b.SVsSt != stNotFound {
				e("supervoxels/%d: want 404, got st=%d %v", l, b.SVsSt, b.SVs)
			}
			if b.IdxSt != stNotFound {
				e("index/%d: want 404, got st=%d %v", l, b.IdxSt, b.Index)
			}
			if b.SparseSt != stNotFound {
				e("sparsevol/%d: want 404, got st=%d %d runs", l, b.SparseSt, len(b.Sparse))
			}
			if b.CoarseSt != stNotFound {
				e("sparsevol-coarse/%d: want 404, got st=%d", l, b.CoarseSt)
			}
			if b.SSizeSt != stNotFound {
				e("sparsevol-size/%d: want 404, got st=%d", l, b.SSizeSt)
			}
			if b.SVSzSt != stNotFound {
				e("supervoxel-sizes/%d: want 404, got st=%d", l, b.SVSzSt)
			}
			if b.SizesE != 0 {
				e("sizes[%d]: want 0 got %d", l, b.SizesE)
			}
			continue
		}
		sum += b.Size.V
		if b.Size.St != stOK || b.Size.V != want {
			e("size/%d: want %d, got st=%d v=%d", l, want, b.Size.St, b.Size.V)
		}
		if b.SizesE != want {
			e("sizes[%d]: want %d got %d", l, want, b.SizesE)
		}
		// supervoxels
		var wsv []uint64
		for sv, body := range sc.svBody {
			if body == l {
				wsv = append(wsv, sv)
			}
		}
		sort.Slice(wsv, func(i, j int) bool { return wsv[i] < wsv[j] })
		if b.SVsSt != stOK || !equalU64(wsv, b.SVs) {
			e("supervoxels/%d: want %v, got st=%d %v", l, wsv, b.SVsSt, b.SVs)
		}
		var wss [][2]uint64
		for _, sv := range wsv {
			wss = append(wss, [2]uint64{sv, sc.svSize[sv]})
		}
		if b.SVSzSt != stOK || fmt.Sprint(wss) != fmt.Sprint(b.SVSizes) {
			e("supervoxel-sizes/%d: want %v, got st=%d %v", l, wss, b.SVSzSt, b.SVSizes)
		}
		// index
		var widx []IdxEntry
		for blk, m := range sc.counts[l] {
			for sv, c := range m {
				widx = append(widx, IdxEntry{blk, sv, c})
			}
		}
		sortIdx(widx)
		if b.IdxSt != stOK || fmt.Sprint(widx) != fmt.Sprint(b.Index) || b.IdxLabel != l {
			e("index/%d: want %v, got st=%d label=%d %v", l, widx, b.IdxSt, b.IdxLabel, b.Index)
		}
		// sparsevol
		if msg := g.checkRuns(sn, b.Sparse, b.SparseSt, func(sv uint64) bool { return sv != 0 && sn.SVs[sv] != nil && sn.SVs[sv].Map == l }, want); msg != "" {
			e("sparsevol/%d: %s", l, msg)
		}
		// coarse
		wb := map[[3]int]bool{}
		for blk := range sc.counts[l] {
			wb[blk] = true
		}
		gb := map[[3]int]bool{}
		dup := false
		for _, r := range b.Coarse {
			for i := 0; i < r.N; i++ {
				k := [3]int{r.P[0] + i, r.P[1], r.P[2]}
				if gb[k] {
					dup = true
				}
				gb[k] = true
			}
		}
		if b.CoarseSt != stOK || dup || fmt.Sprint(sortedBlocks(wb)) != fmt.Sprint(sortedBlocks(gb)) {
			e("sparsevol-coarse/%d: want %v, got st=%d %v", l, sortedBlocks(wb), b.CoarseSt, sortedBlocks(gb))
		}
		// sparsevol-size
		if b.SSizeSt != stOK || b.SSize.Voxels != want || int(b.SSize.NumBlocks) != len(wb) {
			e("sparsevol-size/%d: want voxels=%d blocks=%d, got st=%d %+v", l, want, len(wb), b.SSizeSt, b.SSize)
		} else {
			mn, mx := [3]int{1 << 30, 1 << 30, 1 << 30}, [3]int{-1 << 30, -1 << 30, -1 << 30}
			for blk := range wb {
				for i := 0; i < 3; i++ {
					if blk[i]*g.BS < mn[i] {
						mn[i] = blk[i] * g.BS
					}
					if (blk[i]+1)*g.BS-1 > mx[i] {
						mx[i] = (blk[i]+1)*g.BS - 1
					}
				}
			}
			if mn != b.SSize.Min || mx != b.SSize.Max {
				e("sparsevol-size/%d: want min=%v max=%v, got %+v", l, mn, mx, b.SSize)
			}
		}
	}
	if sum != sc.nonzero {
		e("body sizes sum to %d, non-zero voxels %d", sum, sc.nonzero)
	}
	for _, l := range labels {
		if l == 0 {
			continue
		}
		v := sn.SVs[l]
		want := sc.svSize[l]
		if want == 0 {
			// not a live supervoxel: size must be 404 (or a clean error for split supervoxels)
			if v.Size.St == stOK {
				e("size/%d?supervoxels=true: want 404/err, got %d", l, v.Size.V)
			}
			if v.SizesE != 0 {
				e("sizes?supervoxels[%d]: want 0 got %d", l, v.SizesE)
			}
			if v.SparseS == stOK {
				e("sparsevol/%d?supervoxels=true: want 404, got %d runs", l, len(v.Sparse))
			}
			continue
		}
		if v.Size.St != stOK || v.Size.V != want {
			e("size/%d?supervoxels=true: want %d, got st=%d v=%d", l, want, v.Size.St, v.Size.V)
		}
		if v.SizesE != want {
			e("sizes?supervoxels[%d]: want %d got %d", l, want, v.SizesE)
		}
		if v.Map == 0 {
			e("mapping[%d]=0 but supervoxel has %d voxels", l, want)
		}
		if msg := g.checkRuns(sn, v.Sparse, v.SparseS, func(sv uint64) bool { return sv == l }, want); msg != "" {
			e("sparsevol/%d?supervoxels=true: %s", l, msg)
		}
	}
	// mappings (text): every listed pair must agree with `mapping`; every live sv with body != sv must be listed
	listed := map[uint64]uint64{}
	for _, p := range sn.Mappings {
		listed[p[0]] = p[1]
		if o := sn.SVs[p[0]]; o != nil && sc.svSize[p[0]] > 0 && o.Map != p[1] {
			e("mappings lists %d->%d but mapping says %d", p[0], p[1], o.Map)
		}
	}
	for sv, body := range sc.svBody {
		if body != sv {
			if got, ok := listed[sv]; !ok || got != body {
				e("mappings misses %d->%d (got %v %d)", sv, body, ok, got)
			}
		}
	}
	// points
	for _, p := range sn.Pts {
		sv := sn.SV[g.Idx(p.P[0], p.P[1], p.P[2])]
		var body uint64
		if sv != 0 {
			body = mapOf(sv)
		}
		if p.OneSV != sv || p.ManySV != sv || p.One != body || p.Many != body {
			e("point %v: want sv=%d body=%d, got label=%d/%d labels=%d/%d", p.P, sv, body, p.One, p.OneSV, p.Many, p.ManySV)
		}
	}
	// listlabels: exactly the bodies with voxels, with their sizes
	var wl [][2]uint64
	for body, sz := range sc.bodySize {
		if body != 0 {
			wl = append(wl, [2]uint64{body, sz})
		}
	}
	sort.Slice(wl, func(i, j int) bool { return wl[i][0] < wl[j][0] })
	if fmt.Sprint(wl) != fmt.Sprint(sn.ListLabels) {
		e("listlabels: want %v got %v", wl, sn.ListLabels)
	}
	// maxlabel: at least every label in use
	var mx uint64
	for sv, body := range sc.svBody {
		if sv > mx {
			mx = sv
		}
		if body > mx {
			mx = body
		}
	}
	if mx > 0 && (sn.MaxLabel.St != stOK || sn.MaxLabel.V < mx) {
		e("maxlabel: want >= %d, got st=%d %d", mx, sn.MaxLabel.St, sn.MaxLabel.V)
	}
	return errs
}

// downres: each scale-1 voxel is the most frequent non-zero label of its 8 children, the smallest
// on ties, 0 if all are 0 (Go copy of the oracle, for -probe).
func (g Geom) downres(vol []uint64) []uint64 {
	h := g.Half()
	n := h.N()
	out := make([]uint64, h.NVox())
	for z := 0; z < n[2]; z++ {
		for y := 0; y < n[1]; y++ {
			for x := 0; x < n[0]; x++ {
				votes := map[uint64]int{}
				for d := 0; d < 8; d++ {
					l := vol[g.Idx(2*x+d&1, 2*y+(d>>1)&1, 2*z+(d>>2)&1)]
					if l != 0 {
						votes[l]++
					}
				}
				var win uint64
				wv := 0
				for l, v := range votes {
					if v > wv || (v == wv && l < win) {
						win, wv = l, v
					}
				}
				out[h.Idx(x, y, z)] = win
			}
		}
	}
	return out
}

func countDiff(a, b []uint64) int {
	n := 0
	for i := range a {
		if a[i] != b[i] {
			n++
		}
	}
	return n
}

func sortIdx(out []IdxEntry) {
	sort.Slice(out, func(i, j int) bool {
		a, c := out[i], out[j]
		if a.B != c.B {
			if a.B[2] != c.B[2] {
				return a.B[2] < c.B[2]
			}
			if a.B[1] != c.B[1] {
				return a.B[1] < c.B[1]
			}
			return a.B[0] < c.B[0]
		}
		return a.SV < c.SV
	})
}

func sortedBlocks(m map[[3]int]bool) [][3]int {
	var out [][3]int
	for k := range m {
		out = append(out, k)
	}
	sort.Slice(out, func(i, j int) bool {
		a, c := out[i], out[j]
		if a[2] != c[2] {
			return a[2] < c[2]
		}
		if a[1] != c[1] {
			return a[1] < c[1]
		}
		return a[0] < c[0]
	})
	return out
}

// checkRuns: the runs cover exactly the voxels whose supervoxel satisfies `in`, without overlap.
func (g Geom) checkRuns(sn *Snap, runs []Run, st int, in func(uint64) bool, want uint64) string {
	if st != stOK {
		return fmt.Sprintf("status %d", st)
	}
	n := g.N()
	cov := make([]bool, len(sn.SV))
	var tot uint64
	for _, r := range runs {
		if r.N <= 0 || r.P[0] < 0 || r.P[1] < 0 || r.P[2] < 0 || r.P[0]+r.N > n[0] || r.P[1] >= n[1] || r.P[2] >= n[2] {
			return fmt.Sprintf("run %v outside volume", r)
		}
		for i := 0; i < r.N; i++ {
			j := g.Idx(r.P[0]+i, r.P[1], r.P[2])
			if cov[j] {
				return fmt.Sprintf("run %v overlaps another", r)
			}
			cov[j] = true
			tot++
		}
	}
	for i, sv := range sn.SV {
		if cov[i] != in(sv) {
			return fmt.Sprintf("coverage differs at voxel index %d (sv %d): covered=%v; runs cover %d want %d", i, sv, cov[i], tot, want)
		}
	}
	return ""
}
