// Driver C08, transport: requests go to the in-process server (harness/dv) or, for histories
// with restarts, to a DVID server running as a child process on its own store directories
// (harness/dvh), so that a restart really is a new process that rebuilds its in-memory state
// (supervoxel mappings from the mutation log, label maxima, metadata) from disk.
package main

import (
	"encoding/json"
	"fmt"
	"os"

	"verif/harness/dv"
	"verif/harness/dvh"
)

type transport struct {
	p   *dvh.Proc
	dir string
}

var tr transport

func (t transport) Do(method, url string, body []byte) dv.Resp {
	if t.p == nil {
		return dv.Do(method, url, body)
	}
	st, b, alive := t.p.HTTP(method, url, body)
	if !alive {
		return dv.Resp{Status: 599, Body: []byte("child server died: " + t.p.StderrTail())}
	}
	return dv.Resp{Status: st, Body: b}
}
func (t transport) Get(url string) dv.Resp               { return t.Do("GET", url, nil) }
func (t transport) Post(url string, body []byte) dv.Resp { return t.Do("POST", url, body) }
func (t transport) PostJSON(url string, v interface{}) dv.Resp {
	b, _ := json.Marshal(v)
	return t.Do("POST", url, b)
}

// startChild launches a fresh child server on a new directory and routes all requests to it.
func startChild() error {
	stopChild()
	dir, err := os.MkdirTemp("", "c08-child")
	if err != nil {
		return err
	}
	p, err := dvh.Start(dvh.Opts{Dir: dir})
	if err != nil {
		os.RemoveAll(dir)
		return fmt.Errorf("child server: %v", err)
	}
	tr = transport{p: p, dir: dir}
	return nil
}

// restartChild: clean shutdown, then a new process on the same directories.
func restartChild() error {
	if tr.p == nil {
		return fmt.Errorf("no child server")
	}
	tr.p.Quit()
	p, err := dvh.Start(dvh.Opts{Dir: tr.dir})
	if err != nil {
		return fmt.Errorf("child server restart: %v", err)
	}
	tr.p = p
	return nil
}

func stopChild() {
	if tr.p != nil {
		tr.p.Quit()
		os.RemoveAll(tr.dir)
	}
	tr = transport{}
}

func newRepo(alias string) (string, error) {
	r := tr.PostJSON("/api/repos", map[string]string{"alias": alias, "description": "verif"})
	if r.Status != 200 {
		return "", fmt.Errorf("new repo: %d %s", r.Status, r.Body)
	}
	var m struct{ Root string }
	if err := json.Unmarshal(r.Body, &m); err != nil {
		return "", err
	}
	return m.Root, nil
}

func newInstance(uuid, typename, name string, extra map[string]string) error {
	m := map[string]string{"typename": typename, "dataname": name}
	for k, v := range extra {
		m[k] = v
	}
	r := tr.PostJSON("/api/repo/"+uuid+"/instance", m)
	if r.Status != 200 {
		return fmt.Errorf("new instance %s/%s: %d %s", typename, name, r.Status, r.Body)
	}
	return nil
}

func childOf(r dv.Resp) string {
	var m struct{ Child string }
	json.Unmarshal(r.Body, &m)
	return m.Child
}

func commitNode(uuid string) dv.Resp {
	return tr.PostJSON("/api/node/"+uuid+"/commit", map[string]interface{}{"note": "c"})
}
func newVersion(uuid string) (string, dv.Resp) {
	r := tr.PostJSON("/api/node/"+uuid+"/newversion", map[string]string{"note": "v"})
	return childOf(r), r
}
func branchNode(uuid, branch string) (string, dv.Resp) {
	r := tr.PostJSON("/api/node/"+uuid+"/branch", map[string]string{"branch": branch, "note": "b"})
	return childOf(r), r
}
func mergeNodes(parents []string) (string, dv.Resp) {
	r := tr.PostJSON("/api/repo/"+parents[0]+"/merge", map[string]interface{}{"mergeType": "conflict-free", "parents": parents, "note": "m"})
	return childOf(r), r
}
