module verif/harness

go 1.23.0

require (
	github.com/golang/snappy v0.0.4
	github.com/janelia-flyem/dvid v0.0.0
	github.com/janelia-flyem/go v0.0.0-20180718195536-d388bdc31871
)

require (
	github.com/natefinch/lumberjack v2.0.0+incompatible // indirect
	github.com/twinj/uuid v1.0.0 // indirect
)

replace github.com/janelia-flyem/dvid => /repo
