module verif/harness

go 1.23.0

require (
	github.com/blang/semver v3.5.1+incompatible
	github.com/golang/snappy v0.0.4
	github.com/janelia-flyem/dvid v0.0.0
	github.com/janelia-flyem/go v0.0.0-20180718195536-d388bdc31871
	github.com/santhosh-tekuri/jsonschema/v5 v5.0.1
	google.golang.org/protobuf v1.33.0
)

require (
	cloud.google.com/go v0.110.0 // indirect
	cloud.google.com/go/compute/metadata v0.2.3 // indirect
	cloud.google.com/go/iam v0.13.0 // indirect
	cloud.google.com/go/storage v1.28.1 // indirect
	github.com/BurntSushi/toml v1.0.0 // indirect
	github.com/DmitriyVTitov/size v1.5.0 // indirect
	github.com/Shopify/sarama v1.32.0 // indirect
	github.com/aws/aws-sdk-go v1.40.34 // indirect
	github.com/aws/aws-sdk-go-v2 v1.9.0 // indirect
	github.com/aws/aws-sdk-go-v2/config v1.7.0 // indirect
	github.com/aws/aws-sdk-go-v2/credentials v1.4.0 // indirect
	github.com/aws/aws-sdk-go-v2/feature/ec2/imds v1.5.0 // indirect
	github.com/aws/aws-sdk-go-v2/internal/ini v1.2.2 // indirect
	github.com/aws/aws-sdk-go-v2/service/internal/presigned-url v1.3.0 // indirect
	github.com/aws/aws-sdk-go-v2/service/sso v1.4.0 // indirect
	github.com/aws/aws-sdk-go-v2/service/sts v1.7.0 // indirect
	github.com/aws/smithy-go v1.8.0 // indirect
	github.com/cespare/xxhash v1.1.0 // indirect
	github.com/cespare/xxhash/v2 v2.2.0 // indirect
	github.com/coocood/freecache v1.2.1 // indirect
	github.com/davecgh/go-spew v1.1.1 // indirect
	github.com/dgraph-io/badger/v3 v3.2103.2 // indirect
	github.com/dgraph-io/ristretto v0.1.0 // indirect
	github.com/dustin/go-humanize v1.0.0 // indirect
	github.com/eapache/go-resiliency v1.2.0 // indirect
	github.com/eapache/go-xerial-snappy v0.0.0-20180814174437-776d5712da21 // indirect
	github.com/eapache/queue v1.1.0 // indirect
	github.com/gogo/protobuf v1.3.2 // indirect
	github.com/golang-jwt/jwt/v4 v4.5.2 // indirect
	github.com/golang/glog v1.2.4 // indirect
	github.com/golang/groupcache v0.0.0-20210331224755-41bb18bfe9da // indirect
	github.com/golang/protobuf v1.5.3 // indirect
	github.com/google/flatbuffers v1.12.1 // indirect
	github.com/google/go-cmp v0.6.0 // indirect
	github.com/google/uuid v1.3.0 // indirect
	github.com/google/wire v0.5.0 // indirect
	github.com/googleapis/enterprise-certificate-proxy v0.2.3 // indirect
	github.com/googleapis/gax-go/v2 v2.7.1 // indirect
	github.com/hashicorp/go-uuid v1.0.2 // indirect
	github.com/janelia-flyem/protolog v0.0.0-20191102211808-ce1a9ba02c03 // indirect
	github.com/jcmturner/aescts/v2 v2.0.0 // indirect
	github.com/jcmturner/dnsutils/v2 v2.0.0 // indirect
	github.com/jcmturner/gofork v1.0.0 // indirect
	github.com/jcmturner/gokrb5/v8 v8.4.2 // indirect
	github.com/jcmturner/rpc/v2 v2.0.3 // indirect
	github.com/jmespath/go-jmespath v0.4.0 // indirect
	github.com/klauspost/compress v1.14.4 // indirect
	github.com/natefinch/lumberjack v2.0.0+incompatible // indirect
	github.com/pierrec/lz4 v2.6.1+incompatible // indirect
	github.com/pkg/errors v0.9.1 // indirect
	github.com/rcrowley/go-metrics v0.0.0-20201227073835-cf1acfcdf475 // indirect
	github.com/rs/cors v1.8.2 // indirect
	github.com/twinj/uuid v1.0.0 // indirect
	github.com/valyala/gorpc v0.0.0-20160519171614-908281bef774 // indirect
	github.com/zenazn/goji v1.0.1 // indirect
	go.opencensus.io v0.24.0 // indirect
	gocloud.dev v0.24.0 // indirect
	golang.org/x/crypto v0.36.0 // indirect
	golang.org/x/net v0.38.0 // indirect
	golang.org/x/oauth2 v0.7.0 // indirect
	golang.org/x/sys v0.31.0 // indirect
	golang.org/x/text v0.23.0 // indirect
	golang.org/x/xerrors v0.0.0-20220907171357-04be3eba64a2 // indirect
	google.golang.org/api v0.114.0 // indirect
	google.golang.org/genproto v0.0.0-20230410155749-daa745c078e1 // indirect
	google.golang.org/grpc v1.56.3 // indirect
)

replace github.com/janelia-flyem/dvid => /repo
