// Package kvhist: random branched put/delete/commit/branch/newversion/merge histories on a
// keyvalue instance over HTTP, recorded as Model.Core operations with what the server answered.
package kvhist

import (
	"encoding/json"
	"fmt"
	"sort"
	"strconv"
	"strings"

	"github.com/janelia-flyem/dvid/datastore"
	"github.com/janelia-flyem/dvid/datatype/keyvalue"
	"github.com/janelia-flyem/dvid/dvid"
	"github.com/janelia-flyem/dvid/storage"
	"verif/harness/dv"
	"verif/harness/lib"
)

// Hop is one request of a history.
type Hop struct {
	Op      string `json:"op"` // put del commit child get
	K       int    `json:"k,omitempty"`
	V       int    `json:"v,omitempty"`
	X       int    `json:"x,omitempty"`
	Parents []int  `json:"parents,omitempty"`
	How     string `json:"how,omitempty"` // newversion | branch | merge
}

type Hist struct {
	Rng     *lib.Rand
	UUIDs   []string // index = model version id - 1
	Locked  map[int]bool
	Ops     []Hop
	Obs     []string
	Root    string
	Inst    string // data instance name
	NoBatch bool   // never use the storage-level batch path (unversioned instances: it bypasses the request routing)
	NextX   int
	NB      int
}

func (h *Hist) URL(v int, rest string) string {
	return "/api/node/" + h.UUIDs[v-1] + "/" + h.Inst + "/" + rest
}

func (h *Hist) record(o Hop, ob string) {
	h.Ops = append(h.Ops, o)
	h.Obs = append(h.Obs, ob)
}

func (h *Hist) Get(k, v int) {
	r := dv.Get(h.URL(v, fmt.Sprintf("key/k%d", k)))
	ob := "ORead ObsErr"
	switch {
	case r.Status == 200 && len(r.Body) == 0:
		ob = "ORead (ObsVal 0 None)" // the empty value (value id 0, see PutEmpty)
	case r.Status == 200:
		x, err := strconv.Atoi(string(r.Body))
		if err == nil {
			ob = fmt.Sprintf("ORead (ObsVal %d None)", x)
		}
	case r.Status == 404:
		ob = "ORead ObsNone"
	}
	h.record(Hop{Op: "get", K: k, V: v}, ob)
}

func acc(ok bool) string {
	if ok {
		return "OAccepted"
	}
	return "ORefused"
}

func (h *Hist) Put(k, v int) {
	h.NextX++
	r := dv.Post(h.URL(v, fmt.Sprintf("key/k%d", k)), []byte(strconv.Itoa(h.NextX)))
	h.record(Hop{Op: "put", K: k, V: v, X: h.NextX}, acc(r.Status == 200))
}

// PutEmpty posts an empty body: the empty value is a value.  It is value id 0 of the model
// (the counter NextX starts at 1, so no other write carries it).
func (h *Hist) PutEmpty(k, v int) {
	r := dv.Post(h.URL(v, fmt.Sprintf("key/k%d", k)), []byte{})
	h.record(Hop{Op: "put", K: k, V: v, X: 0, How: "empty"}, acc(r.Status == 200))
}

// batchWrite performs one put (x > 0) or delete through the storage engine's batch path
// (storage.KeyValueBatcher: goBatch.Put / goBatch.Delete), as block- and index-writing data
// types do, bypassing HTTP.  Only used on uncommitted versions.
func (h *Hist) batchWrite(k, v, x int) bool {
	uuid := dvid.UUID(h.UUIDs[v-1])
	d, err := datastore.GetDataByUUIDName(uuid, dvid.InstanceName(h.Inst))
	if err != nil {
		return false
	}
	ver, err := datastore.VersionFromUUID(uuid)
	if err != nil {
		return false
	}
	db, err := datastore.GetOrderedKeyValueDB(d)
	if err != nil {
		return false
	}
	batcher, ok := db.(storage.KeyValueBatcher)
	if !ok {
		return false
	}
	ctx := datastore.NewVersionedCtx(d, ver)
	tk, _ := keyvalue.NewTKey(fmt.Sprintf("k%d", k))
	b := batcher.NewBatch(ctx)
	if x > 0 {
		kd, ok := d.(*keyvalue.Data)
		if !ok {
			return false
		}
		val, err := dvid.SerializeData([]byte(strconv.Itoa(x)), kd.Compression(), kd.Checksum())
		if err != nil {
			return false
		}
		b.Put(tk, val)
	} else {
		b.Delete(tk)
	}
	return b.Commit() == nil
}

// BatchSeq performs several puts / deletes of ONE key inside ONE batch at version v (e.g. delete then
// put): recorded as the same sequence of ordinary operations of the model (the last one wins).
func (h *Hist) BatchSeq(k, v int, puts []bool) {
	uuid := dvid.UUID(h.UUIDs[v-1])
	d, err := datastore.GetDataByUUIDName(uuid, dvid.InstanceName(h.Inst))
	ok := err == nil
	var b storage.Batch
	var kd *keyvalue.Data
	if ok {
		ver, _ := datastore.VersionFromUUID(uuid)
		db, err := datastore.GetOrderedKeyValueDB(d)
		batcher, isB := db.(storage.KeyValueBatcher)
		kd, _ = d.(*keyvalue.Data)
		ok = err == nil && isB && kd != nil
		if ok {
			b = batcher.NewBatch(datastore.NewVersionedCtx(d, ver))
		}
	}
	tk, _ := keyvalue.NewTKey(fmt.Sprintf("k%d", k))
	var hops []Hop
	for _, isPut := range puts {
		if isPut {
			h.NextX++
			hops = append(hops, Hop{Op: "put", K: k, V: v, X: h.NextX, How: "batchseq"})
			if ok {
				val, _ := dvid.SerializeData([]byte(strconv.Itoa(h.NextX)), kd.Compression(), kd.Checksum())
				b.Put(tk, val)
			}
		} else {
			hops = append(hops, Hop{Op: "del", K: k, V: v, How: "batchseq"})
			if ok {
				b.Delete(tk)
			}
		}
	}
	if ok {
		ok = b.Commit() == nil
	}
	for _, hp := range hops {
		h.record(hp, acc(ok))
	}
}

// BatchPut / BatchDel: recorded as ordinary put / delete operations of the model.
func (h *Hist) BatchPut(k, v int) {
	h.NextX++
	h.record(Hop{Op: "put", K: k, V: v, X: h.NextX, How: "batch"}, acc(h.batchWrite(k, v, h.NextX)))
}
func (h *Hist) BatchDel(k, v int) {
	h.record(Hop{Op: "del", K: k, V: v, How: "batch"}, acc(h.batchWrite(k, v, 0)))
}

func (h *Hist) Del(k, v int) {
	r := dv.Delete(h.URL(v, fmt.Sprintf("key/k%d", k)))
	h.record(Hop{Op: "del", K: k, V: v}, acc(r.Status == 200))
}

// Restart closes and reopens the datastore on the same stores (what a server restart does to the persistent
// state).  It is not an operation of the model: the model's state must be unaffected, so it is printed as a
// request that changes nothing there (a refused commit of the non-existent version 0).
func (h *Hist) Restart() {
	datastore.CloseReopenTest()
	h.record(Hop{Op: "restart"}, "ORefused")
}

func (h *Hist) Commit(v int) {
	r := dv.Commit(h.UUIDs[v-1])
	if r.Status == 200 {
		h.Locked[v] = true
	}
	h.record(Hop{Op: "commit", V: v}, acc(r.Status == 200))
}

func (h *Hist) Child(how string, parents []int) {
	var c string
	var r dv.Resp
	switch how {
	case "newversion":
		c, r = dv.NewVersion(h.UUIDs[parents[0]-1])
	case "branch":
		h.NB++
		c, r = dv.Branch(h.UUIDs[parents[0]-1], fmt.Sprintf("b%d", h.NB))
	default:
		var us []string
		for _, p := range parents {
			us = append(us, h.UUIDs[p-1])
		}
		c, r = dv.Merge(us)
	}
	ok := r.Status == 200 && c != ""
	if ok {
		h.UUIDs = append(h.UUIDs, c)
	}
	h.record(Hop{Op: "child", Parents: parents, How: how}, acc(ok))
}

func (h *Hist) LockedList() []int {
	var l []int
	for v := 1; v <= len(h.UUIDs); v++ {
		if h.Locked[v] {
			l = append(l, v)
		}
	}
	return l
}
func (h *Hist) OpenList() []int {
	var l []int
	for v := 1; v <= len(h.UUIDs); v++ {
		if !h.Locked[v] {
			l = append(l, v)
		}
	}
	return l
}

func (h *Hist) Sweep(nkeys int) {
	for v := 1; v <= len(h.UUIDs); v++ {
		for k := 0; k < nkeys; k++ {
			h.Get(k, v)
		}
	}
}

// New creates a repo with one keyvalue instance and returns an empty history on it.
func New(rng *lib.Rand, inst string) (*Hist, error) { return NewWith(rng, inst, nil) }

// NewWith passes extra settings to the instance creation (e.g. "versioned": "false").
func NewWith(rng *lib.Rand, inst string, extra map[string]string) (*Hist, error) {
	root, err := dv.NewRepo("kvhist")
	if err != nil {
		return nil, err
	}
	if err := dv.NewInstance(root, "keyvalue", inst, extra); err != nil {
		return nil, err
	}
	return &Hist{Rng: rng, Locked: map[int]bool{}, UUIDs: []string{root}, Root: root, Inst: inst, NoBatch: extra != nil}, nil
}

// Replay re-issues recorded requests.
func (h *Hist) Replay(ops []Hop) {
	for i := 0; i < len(ops); i++ {
		o := ops[i]
		if o.How == "batchseq" {
			var seq []bool
			j := i
			for j < len(ops) && ops[j].How == "batchseq" && ops[j].K == o.K && ops[j].V == o.V {
				seq = append(seq, ops[j].Op == "put")
				j++
			}
			for _, q := range ops[i:j] {
				if q.Op == "put" {
					h.NextX = q.X - 1
					break
				}
			}
			h.BatchSeq(o.K, o.V, seq)
			i = j - 1
			continue
		}
		switch o.Op {
		case "put":
			if o.How == "empty" {
				h.PutEmpty(o.K, o.V)
				continue
			}
			h.NextX = o.X - 1
			if o.How == "batch" {
				h.BatchPut(o.K, o.V)
			} else {
				h.Put(o.K, o.V)
			}
		case "del":
			if o.How == "batch" {
				h.BatchDel(o.K, o.V)
			} else {
				h.Del(o.K, o.V)
			}
		case "commit":
			h.Commit(o.V)
		case "restart":
			h.Restart()
		case "child":
			h.Child(o.How, o.Parents)
		case "get":
			h.Get(o.K, o.V)
		}
	}
}

// Random issues up to nops random requests (stops growing the DAG at maxNodes versions).
// LineageMerge: a directed burst built from the ordinary requests (so the model follows it like any other
// history): two or three sibling branches off a committed node, each taken through its own short lineage of
// versions in which one key is written, deleted, written again or left alone; the branch heads are merged in
// a random parent order; at the merge node the key is then deleted, rewritten or left alone and read, and a
// child of the merge reads it again.  Shapes the uniform generator reaches rarely: a deletion re-created
// further down one lineage, a value reachable past a deletion through another parent, an unresolved
// conflict deleted or overwritten at the merge node itself.
func (h *Hist) LineageMerge(nkeys, maxNodes int) {
	rng := h.Rng
	lk := h.LockedList()
	if len(lk) == 0 {
		open := h.OpenList()
		if len(open) == 0 {
			return
		}
		h.Commit(open[rng.Intn(len(open))])
		lk = h.LockedList()
		if len(lk) == 0 {
			return
		}
	}
	base := lk[rng.Intn(len(lk))]
	k := rng.Intn(nkeys)
	forced := rng.Chance(0.5) // every lineage ends with a write of k: an unresolved conflict at the merge
	nb := 2
	if rng.Chance(0.3) {
		nb = 3
	}
	var heads []int
	for b := 0; b < nb && len(h.UUIDs)+2 < maxNodes; b++ {
		n0 := len(h.UUIDs)
		h.Child("branch", []int{base})
		if len(h.UUIDs) == n0 {
			return
		}
		cur := len(h.UUIDs)
		depth := 1 + rng.Intn(3)
		for d := 0; d < depth; d++ {
			switch rng.Intn(4) {
			case 0:
				h.Put(k, cur)
			case 1:
				h.Del(k, cur)
			case 2:
				h.Put(rng.Intn(nkeys), cur)
			}
			last := !(d+1 < depth && len(h.UUIDs)+nb < maxNodes)
			if forced && last {
				h.Put(k, cur)
			}
			h.Commit(cur)
			if d+1 < depth && len(h.UUIDs)+nb < maxNodes {
				n1 := len(h.UUIDs)
				h.Child("newversion", []int{cur})
				if len(h.UUIDs) == n1 {
					break
				}
				cur = len(h.UUIDs)
			} else {
				break
			}
		}
		heads = append(heads, cur)
	}
	if len(heads) < 2 {
		return
	}
	for i := len(heads) - 1; i > 0; i-- {
		j := rng.Intn(i + 1)
		heads[i], heads[j] = heads[j], heads[i]
	}
	n2 := len(h.UUIDs)
	h.Child("merge", heads)
	if len(h.UUIDs) == n2 {
		return
	}
	m := len(h.UUIDs)
	if rng.Chance(0.3) {
		h.Restart() // the merge node and its parents must have reached the store
	}
	h.Get(k, m)
	switch rng.Intn(3) {
	case 0:
		h.Del(k, m)
	case 1:
		h.Put(k, m)
	}
	h.Get(k, m)
	if rng.Chance(0.5) && len(h.UUIDs) < maxNodes {
		h.Commit(m)
		n3 := len(h.UUIDs)
		h.Child("newversion", []int{m})
		if len(h.UUIDs) > n3 {
			h.Get(k, len(h.UUIDs))
		}
	}
}

// Bursts: a history made of n lineage-merge bursts with a few ordinary requests in between.
func (h *Hist) Bursts(n, nkeys, maxNodes int) {
	for i := 0; i < n && len(h.UUIDs)+4 <= maxNodes; i++ {
		h.LineageMerge(nkeys, maxNodes)
		open := h.OpenList()
		if len(open) > 0 && h.Rng.Chance(0.5) {
			h.Commit(open[h.Rng.Intn(len(open))])
		}
	}
}

func (h *Hist) Random(nops, nkeys, maxNodes int) {
	rng := h.Rng
	for i := 0; i < nops; i++ {
		open, lk := h.OpenList(), h.LockedList()
		if rng.Chance(0.04) && len(h.UUIDs)+4 <= maxNodes {
			h.LineageMerge(nkeys, maxNodes)
			continue
		}
		if rng.Chance(0.02) {
			h.Restart()
			continue
		}
		switch x := rng.Intn(100); {
		case x < 30 && len(open) > 0:
			if !h.NoBatch && rng.Chance(0.15) {
				// several operations on one key in one batch: delete-then-put, put-then-delete, ...
				n := 2 + rng.Intn(2)
				seq := make([]bool, n)
				for j := range seq {
					seq[j] = rng.Bool()
				}
				h.BatchSeq(rng.Intn(nkeys), open[rng.Intn(len(open))], seq)
			} else if !h.NoBatch && rng.Chance(0.3) {
				h.BatchPut(rng.Intn(nkeys), open[rng.Intn(len(open))])
			} else if rng.Chance(0.12) {
				h.PutEmpty(rng.Intn(nkeys), open[rng.Intn(len(open))])
			} else {
				h.Put(rng.Intn(nkeys), open[rng.Intn(len(open))])
			}
		case x < 42 && len(open) > 0:
			if !h.NoBatch && rng.Chance(0.3) {
				h.BatchDel(rng.Intn(nkeys), open[rng.Intn(len(open))])
			} else {
				h.Del(rng.Intn(nkeys), open[rng.Intn(len(open))])
			}
		case x < 45 && len(lk) > 0: // write to a committed node: must be refused
			if rng.Bool() {
				h.Put(rng.Intn(nkeys), lk[rng.Intn(len(lk))])
			} else {
				h.Del(rng.Intn(nkeys), lk[rng.Intn(len(lk))])
			}
		case x < 60 && len(open) > 0:
			h.Commit(open[rng.Intn(len(open))])
		case x < 72 && len(lk) > 0:
			how := "branch"
			if rng.Chance(0.4) {
				how = "newversion"
			}
			h.Child(how, []int{lk[rng.Intn(len(lk))]})
		case x < 84 && len(lk) >= 2:
			np := 2
			if len(lk) >= 3 && rng.Chance(0.4) {
				np = 3
			}
			var ps []int
			seen := map[int]bool{}
			for len(ps) < np {
				p := lk[rng.Intn(len(lk))]
				if !seen[p] {
					seen[p] = true
					ps = append(ps, p)
				}
			}
			h.Child("merge", ps)
		default:
			h.Get(rng.Intn(nkeys), 1+rng.Intn(len(h.UUIDs)))
		}
		if len(h.UUIDs) >= maxNodes {
			break
		}
	}
}

// CoqOps prints the recorded requests as Model.Core ops (DAG requests carry the server's answer).
func (h *Hist) CoqOps() string {
	ss := make([]string, len(h.Ops))
	for i, o := range h.Ops {
		switch o.Op {
		case "put":
			ss[i] = fmt.Sprintf("OPut %d %d %d", o.K, o.V, o.X)
		case "del":
			ss[i] = fmt.Sprintf("ODel %d %d", o.K, o.V)
		case "get":
			ss[i] = fmt.Sprintf("OGet %d %d", o.K, o.V)
		case "commit":
			ss[i] = fmt.Sprintf("OCommit %d %s", o.V, lib.CoqBool(h.Obs[i] == "OAccepted"))
		case "restart":
			ss[i] = "OCommit 0 false"
		case "child":
			ps := make([]string, len(o.Parents))
			for j, p := range o.Parents {
				ps[j] = strconv.Itoa(p)
			}
			ss[i] = fmt.Sprintf("OChild [%s] %s", strings.Join(ps, ";"), lib.CoqBool(h.Obs[i] == "OAccepted"))
		}
	}
	return "[" + strings.Join(ss, ";") + "]"
}

// RangeObs reads all keys of the instance at version v through the range endpoint
// (keyrangevalues, JSON form) and prints `(v, Some [(k,x);...])` or `(v, None)` when the request
// failed or its body is not the JSON object the API promises.
func (h *Hist) RangeObs(inst string, v int) string {
	r := dv.Get("/api/node/" + h.UUIDs[v-1] + "/" + inst + "/keyrangevalues/k0/k9?json=true")
	if r.Status != 200 {
		return fmt.Sprintf("(%d, None)", v)
	}
	var raw map[string]json.RawMessage
	if err := json.Unmarshal(r.Body, &raw); err != nil {
		return fmt.Sprintf("(%d, None)", v)
	}
	m := map[string]int{}
	for name, val := range raw {
		if string(val) == "{}" { // how the JSON form renders the empty value (value id 0)
			m[name] = 0
			continue
		}
		x, err := strconv.Atoi(string(val))
		if err != nil {
			return fmt.Sprintf("(%d, None)", v)
		}
		m[name] = x
	}
	var ks []int
	for name := range m {
		var k int
		if _, err := fmt.Sscanf(name, "k%d", &k); err != nil {
			return fmt.Sprintf("(%d, None)", v)
		}
		ks = append(ks, k)
	}
	sort.Ints(ks)
	var ss []string
	for _, k := range ks {
		ss = append(ss, fmt.Sprintf("(%d,%d)", k, m[fmt.Sprintf("k%d", k)]))
	}
	return fmt.Sprintf("(%d, Some [%s])", v, strings.Join(ss, ";"))
}

// RangeSweep prints the range observations of every version.
func (h *Hist) RangeSweep(inst string) string {
	var ss []string
	for v := 1; v <= len(h.UUIDs); v++ {
		ss = append(ss, h.RangeObs(inst, v))
	}
	return "[" + strings.Join(ss, ";") + "]"
}

// ReadObs reads key k at version v of the named instance and prints the observation.
func (h *Hist) ReadObs(inst string, k, v int) string {
	r := dv.Get("/api/node/" + h.UUIDs[v-1] + "/" + inst + fmt.Sprintf("/key/k%d", k))
	switch {
	case r.Status == 200 && len(r.Body) == 0:
		return "(ObsVal 0 None)"
	case r.Status == 200:
		if x, err := strconv.Atoi(string(r.Body)); err == nil {
			return fmt.Sprintf("(ObsVal %d None)", x)
		}
		return "ObsErr"
	case r.Status == 404:
		return "ObsNone"
	}
	return "ObsErr"
}
