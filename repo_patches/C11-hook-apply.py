#!/usr/bin/env python3
"""C11-hook-apply.py <dvid tree>: re-create the add-only hook of repo_patches/C11-hook.diff on a tree
where the diff no longer applies (it anchors on single source lines inside the named functions, not on
diff context): the package dvid/verifhook and the one-line verifhook.Yield(...) insertions."""
import sys,re
import sys
R=sys.argv[1].rstrip("/")+"/"
IMP='\t"github.com/janelia-flyem/dvid/dvid/verifhook"\n'
def edit(path, inserts, imp_after='\t"github.com/janelia-flyem/dvid/dvid"\n'):
    src=open(R+path).read().split("\n")
    lines=[l+"\n" for l in src[:-1]]+([src[-1]] if src[-1] else [])
    # import
    idx=[i for i,l in enumerate(lines) if l==imp_after]
    assert len(idx)==1,(path,"import anchor",len(idx))
    lines.insert(idx[0]+1,IMP)
    for func, anchor, occ, where, text in inserts:
        # find function start
        fi=[i for i,l in enumerate(lines) if l.startswith(func)]
        assert len(fi)==1,(path,func,len(fi))
        # end of function: next line == "}\n" at col 0
        fe=next(i for i in range(fi[0],len(lines)) if lines[i]=="}\n")
        cands=[i for i in range(fi[0],fe) if lines[i].rstrip("\n")==anchor]
        assert len(cands)>occ,(path,func,anchor,len(cands))
        i=cands[occ]
        indent=re.match(r"\t*",lines[i]).group(0)
        new=indent+text+"\n"
        lines.insert(i if where=="before" else i+1,new)
    open(R+path,"w").write("".join(lines))

edit("datatype/annotation/annotation.go",[
 ("func (d *Data) StoreElements(", "\treturn batch.Commit()",0,"before",'verifhook.Yield("annotation.StoreElements.commit")'),
 ("func (d *Data) DeleteElement(", "\t// Delete the given element",0,"before",'verifhook.Yield("annotation.DeleteElement.block")'),
 ("func (d *Data) DeleteElement(", "\treturn batch.Commit()",0,"before",'verifhook.Yield("annotation.DeleteElement.commit")'),
 ("func (d *Data) MoveElement(", "\tif err := batch.Commit(); err != nil {",0,"before",'verifhook.Yield("annotation.MoveElement.block")'),
 ("func (d *Data) MoveElement(", "\treturn batch.Commit()",0,"before",'verifhook.Yield("annotation.MoveElement.commit")'),
])
edit("datatype/labelmap/mutate.go",[
 ("func (d *Data) MergeLabels(", "\t// Write the final merged index and also record surface_mutid since surface changed.",0,"before",'verifhook.Yield("labelmap.MergeLabels.target")'),
])
edit("datatype/labelmap/labelidx.go",[
 ("func (d *Data) cleaveIndex(", "\tsupervoxels := idx.GetSupervoxels()",0,"before",'verifhook.Yield("labelmap.cleaveIndex.read")'),
 ("func ChangeLabelIndex(", "\tif idx == nil {",0,"before",'verifhook.Yield("labelmap.ChangeLabelIndex.read")'),
])
edit("datatype/neuronjson/neuronjson.go",[
 ("func (d *Data) storeAndUpdate(", "\t// write result",0,"before",'verifhook.Yield("neuronjson.storeAndUpdate.read")'),
 ("func (d *Data) storeAndUpdate(", "\treturn d.putStoreData(ctx, keyStr, newData)",0,"before",'verifhook.Yield("neuronjson.storeAndUpdate.store")'),
])
edit("datastore/repo_local.go",[
 ("func (m *repoManager) newVersion(", "\tnode.children = append(node.children, childV)",0,"before",'verifhook.Yield("datastore.newVersion.append")'),
 ("func (r *repoT) saveToStore(", "\tr.RLock()",0,"after",'verifhook.Yield("datastore.saveToStore.rlocked")'),
])

import os
os.makedirs(R+"dvid/verifhook",exist_ok=True)
open(R+"dvid/verifhook/yield_off.go","w").write('//go:build !verif\n// +build !verif\n\n// Package verifhook marks the points between the read and the write of DVID\'s\n// read-modify-write sequences.  In a normal build Yield does nothing.  Built with\n// the tag "verif", a verification harness can install a callback that runs at these\n// points (to hold one request there while another one runs).\npackage verifhook\n\n// Yield marks a point between the read and the write of a read-modify-write sequence.\n// It is a no-op in builds without the "verif" tag.\nfunc Yield(site string) {}\n')
open(R+"dvid/verifhook/yield_verif.go","w").write('//go:build verif\n// +build verif\n\n// Package verifhook marks the points between the read and the write of DVID\'s\n// read-modify-write sequences.  In a normal build Yield does nothing.  Built with\n// the tag "verif", a verification harness can install a callback that runs at these\n// points (to hold one request there while another one runs).\npackage verifhook\n\nimport "sync/atomic"\n\nvar callback atomic.Value // of func(site string)\n\n// Set installs the function called at every Yield (nil removes it).  It runs on the\n// goroutine that reached the yield point and may block.\nfunc Set(f func(site string)) {\n\tif f == nil {\n\t\tf = func(string) {}\n\t}\n\tcallback.Store(f)\n}\n\n// Yield marks a point between the read and the write of a read-modify-write sequence.\nfunc Yield(site string) {\n\tif f, ok := callback.Load().(func(string)); ok && f != nil {\n\t\tf(site)\n\t}\n}\n')
print("yield points inserted in", R)
