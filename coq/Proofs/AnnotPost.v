(* Proofs.AnnotPost — POST elements (StoreElements, repaired) keeps every view. *)
From DV Require Import Base.Prelude Model.Annot Gen.Consts Proofs.AnnotBase Proofs.AnnotStore Proofs.AnnotViews.
From Coq Require Import Permutation.
Local Open Scope Z_scope.

(* ---------- the element set after a post ---------- *)
Lemma upsert_spec G e : uniq G ->
  uniq (upsert G e) /\ forall x, In x (upsert G e) <-> x = e \/ (In x G /\ e_pos x <> e_pos e).
Proof.
  intro U. unfold upsert. split.
  - unfold uniq. cbn. apply NoDup_cons_iff. split.
    + intro H. apply posl_in in H as [y [Hy Ey]]. apply remove_all_In in Hy. tauto.
    + apply uniq_filter. exact U.
  - intro x. cbn. rewrite remove_all_In. intuition.
Qed.

Lemma g_post_spec es G : uniq G -> uniq es ->
  uniq (g_post es G) /\ forall x, In x (g_post es G) <-> In x es \/ (In x G /\ ~ In (e_pos x) (posl es)).
Proof.
  unfold g_post. revert G. induction es as [|e es IH]; intros G UG Ues; cbn [fold_left].
  - split; [exact UG|]. intro x. cbn. tauto.
  - unfold uniq in Ues. cbn in Ues. apply NoDup_cons_iff in Ues as [Hn Ues].
    destruct (upsert_spec G e UG) as [Uu Hu]. destruct (IH (upsert G e) Uu Ues) as [U H].
    split; [exact U|]. intro x. rewrite H, Hu. cbn. split.
    + intros [Hx|[[->|[Hx Hne]] Hni]]; [tauto | tauto|]. right. split; [exact Hx|]. intros [E|Hi]; [congruence | contradiction].
    + intros [[<-|Hx]|[Hx Hni]]; [right; split; [now left | exact Hn] | tauto|].
      right. split; [right; split; [exact Hx|] | tauto]. intro E. apply Hni. now left.
Qed.

(* ---------- block store ---------- *)
Lemma group_In bs b es x : In x (group bs b es) <-> In x es /\ blockOf bs (e_pos x) = b.
Proof. unfold group. rewrite filter_In, pos_eqb_eq. reflexivity. Qed.

Lemma post_blocks_get bs ord es (bk : amap pos) b :
  (forall e, In e es -> In (blockOf bs (e_pos e)) ord) ->
  bget (fold_left (fun acc b => match group bs b es with
                                | [] => acc
                                | g => aput b (el_add (bget bk b) g) acc
                                end) ord bk) b
  = el_add (bget bk b) (group bs b es).
Proof.
  intro Hord.
  set (c := fun b => match group bs b es with [] => false | _ => true end).
  set (f := fun b => el_add (bget bk b) (group bs b es)).
  rewrite (fold_left_ext _ (fun acc b => if c b then aput b (f b) acc else acc))
    by (intros a b0; unfold c, f; destruct (group bs b0 es); reflexivity).
  unfold bget at 1. rewrite (fold_put_get_id pos_eqb pos_eqb_eq c f). unfold c, f.
  destruct (group bs b es) as [|g0 gs] eqn:Eg.
  - rewrite andb_false_r. reflexivity.
  - rewrite andb_true_r.
    assert (Hin : In b ord).
    { assert (Hg : In g0 (group bs b es)) by (rewrite Eg; now left). apply group_In in Hg as [Hg Hb]. rewrite <- Hb. now apply Hord. }
    apply (existsb_eqb_In pos_eqb pos_eqb_eq) in Hin. rewrite Hin. reflexivity.
Qed.

Lemma post_block_view bs G es cur b : uniq G -> uniq es -> is_bview bs G b cur ->
  is_bview bs (g_post es G) b (el_add cur (group bs b es)).
Proof.
  intros UG Ues [Uc Hc]. destruct (g_post_spec es G UG Ues) as [_ HG].
  assert (Ug : uniq (group bs b es)) by (apply uniq_filter; exact Ues).
  destruct (el_add_spec cur (group bs b es) Uc Ug) as [Ua Ha]. split; [exact Ua|].
  intro x. rewrite Ha, HG, group_In, Hc. split.
  - intros [[Hx Hb]|[[Hx Hb] Hn]]; [tauto|]. split; [|exact Hb]. right. split; [exact Hx|].
    intro Hi. apply Hn. apply posl_in in Hi as [e [He Ep]]. rewrite <- Ep. apply in_posl. apply group_In.
    split; [exact He|]. now rewrite Ep.
  - intros [[Hx|[Hx Hn]] Hb]; [tauto|]. right. split; [tauto|]. intro Hi. apply Hn.
    apply posl_in in Hi as [e [He Ep]]. apply group_In in He as [He _]. rewrite <- Ep. now apply in_posl.
Qed.

(* ---------- label lists ---------- *)
Lemma store_label_one_fst fx l cur adds : fst (store_label_one fx l cur adds) = el_add cur adds.
Proof.
  unfold store_label_one, el_add.
  assert (H : forall st, fst (fold_left (fun (st : list elem * delta) e =>
               let '(acc, d) := st in
               match last_idx (e_pos e) cur 0 with
               | None => (acc ++ [e], d_add d (l, e_kind e))
               | Some i => (upd_nth i e acc,
                            if fx then match nth_error acc i with
                                       | Some o => if (e_kind o =? e_kind e)%N then d else d_add (d_del d (l, e_kind o)) (l, e_kind e)
                                       | None => d end else d)
               end) adds st)
            = fold_left (fun acc e => match last_idx (e_pos e) cur 0 with Some i => upd_nth i e acc | None => acc ++ [e] end) adds (fst st)).
  { induction adds as [|e adds IH]; intros [acc d]; cbn [fold_left]; [reflexivity|].
    rewrite IH. destruct (last_idx (e_pos e) cur 0); reflexivity. }
  apply (H (cur, d0)).
Qed.

Lemma count_idx_upd_nth i n e o acc : nth_error acc n = Some o ->
  count_idx i (upd_nth n e acc) = count_idx i acc - (if idx_match i (e_kind o) then 1 else 0) + (if idx_match i (e_kind e) then 1 else 0).
Proof.
  unfold count_idx. revert n. induction acc as [|a acc IH]; intros [|n] H; cbn in H; try discriminate.
  - inversion H; subst. cbn [upd_nth filter]. destruct (idx_match i (e_kind o)), (idx_match i (e_kind e)); cbn [length]; rewrite ?Nat2Z.inj_succ; glia.
  - cbn [upd_nth filter]. specialize (IH n H). destruct (idx_match i (e_kind a)); cbn [length]; rewrite ?Nat2Z.inj_succ; glia.
Qed.
Lemma upd_nth_none {A} n (a : A) l : nth_error l n = None -> upd_nth n a l = l.
Proof. revert n. induction l as [|x l IH]; intros [|n] H; cbn in *; try discriminate; try reflexivity. f_equal. now apply IH. Qed.

(* the delta sent to labelsz accounts exactly for the change of the list (with the kind repair) *)
Lemma store_label_one_delta l cur adds i l' :
  let r := store_label_one true l cur adds in
  count_idx i (fst r) * (if (l =? l')%N then 1 else 0)
  = (count_idx i cur) * (if (l =? l')%N then 1 else 0) + dcount i l' (fst (snd r)) - dcount i l' (snd (snd r)).
Proof.
  unfold store_label_one.
  set (F := fun (st : list elem * delta) e => let '(acc, d) := st in _).
  assert (H : forall st,
    count_idx i (fst st) * (if (l =? l')%N then 1 else 0)
    = count_idx i cur * (if (l =? l')%N then 1 else 0) + dcount i l' (fst (snd st)) - dcount i l' (snd (snd st)) ->
    count_idx i (fst (fold_left F adds st)) * (if (l =? l')%N then 1 else 0)
    = count_idx i cur * (if (l =? l')%N then 1 else 0) + dcount i l' (fst (snd (fold_left F adds st))) - dcount i l' (snd (snd (fold_left F adds st)))).
  { induction adds as [|e adds IH]; intros [acc d] Hst; cbn [fold_left]; [exact Hst|].
    apply IH. unfold F. cbn [fst snd] in *.
    destruct (last_idx (e_pos e) cur 0) as [n|]; cbn [fst snd].
    - destruct (nth_error acc n) as [o|] eqn:En.
      + rewrite (count_idx_upd_nth i n e o acc En).
        destruct (e_kind o =? e_kind e)%N eqn:Ek.
        * apply N.eqb_eq in Ek. rewrite Ek. lia.
        * rewrite dcount_d_add. unfold d_add at 1. cbn [snd]. rewrite dcount_d_del. unfold d_del at 1. cbn [fst].
          cbn [fst snd]. destruct (l =? l')%N; cbn [andb];
            destruct (idx_match i (e_kind o)), (idx_match i (e_kind e)); lia.
      + rewrite (upd_nth_none _ _ _ En). exact Hst.
    - rewrite count_idx_app. rewrite dcount_d_add. unfold d_add. cbn [fst snd].
      unfold count_idx at 2. cbn [filter]. destruct (l =? l')%N; cbn [andb]; destruct (idx_match i (e_kind e)); cbn [length]; lia. }
  apply (H (cur, d0)). cbn. unfold dcount. cbn. lia.
Qed.

Lemma store_label_split fx bodyf lb0 es :
  let g := label_groups bodyf es in
  let slo := fun l => store_label_one fx l (nget lb0 l) (lg_get g l) in
  store_label_elements fx bodyf lb0 es
  = (fold_left (fun lb l => aput l (fst (slo l)) lb) (lg_keys g) lb0,
     fold_left (fun d l => d_app d (snd (slo l))) (lg_keys g) d0).
Proof.
  intros g slo. unfold store_label_elements. fold g.
  assert (H : forall ks st,
    fold_left (fun (st : amap N * delta) l => let '(lb, d) := st in
               let '(nl, dl) := store_label_one fx l (nget lb0 l) (lg_get g l) in (aput l nl lb, d_app d dl)) ks st
    = (fold_left (fun lb l => aput l (fst (slo l)) lb) ks (fst st), fold_left (fun d l => d_app d (snd (slo l))) ks (snd st))).
  { induction ks as [|k ks IH]; intros [lb d]; cbn [fold_left fst snd]; [reflexivity|].
    rewrite IH. unfold slo. destruct (store_label_one fx k (nget lb0 k) (lg_get g k)); reflexivity. }
  apply (H (lg_keys g) (lb0, d0)).
Qed.

Lemma post_label_get fx bodyf lb0 es l :
  nget (fst (store_label_elements fx bodyf lb0 es)) l = el_add (nget lb0 l) (lg_get (label_groups bodyf es) l).
Proof.
  rewrite store_label_split. cbn [fst]. set (g := label_groups bodyf es).
  pose proof (fold_put_get N.eqb N_eqb_ok (fun x => x) (fun _ => true)
                (fun l => fst (store_label_one fx l (nget lb0 l) (lg_get g l))) (lg_keys g) lb0 l) as H.
  cbn beta iota in H. unfold nget at 1. rewrite H. rewrite andb_true_r.
  destruct (existsb (fun x => (x =? l)%N) (lg_keys g)) eqn:E.
  - apply store_label_one_fst.
  - assert (Hn : lg_get g l = []).
    { apply lg_get_nokey. intro Hi. apply lg_keys_In in Hi. apply (existsb_eqb_In N.eqb N_eqb_ok) in Hi. congruence. }
    rewrite Hn, el_add_nil_r. reflexivity.
Qed.

Lemma fold_dapp_dcount i l' (f : N -> delta) ks d :
  dcount i l' (fst (fold_left (fun d l => d_app d (f l)) ks d)) = dcount i l' (fst d) + fold_right (fun l z => dcount i l' (fst (f l)) + z) 0 ks
  /\ dcount i l' (snd (fold_left (fun d l => d_app d (f l)) ks d)) = dcount i l' (snd d) + fold_right (fun l z => dcount i l' (snd (f l)) + z) 0 ks.
Proof.
  revert d. induction ks as [|k ks IH]; intro d; cbn [fold_left fold_right]; [lia|].
  destruct (IH (d_app d (f k))) as [H1 H2]. rewrite H1, H2. unfold d_app. cbn [fst snd]. rewrite !dcount_app. lia.
Qed.

Lemma post_label_delta bodyf lb0 es i l' :
  let r := store_label_elements true bodyf lb0 es in
  count_idx i (nget (fst r) l') = count_idx i (nget lb0 l') + dcount i l' (fst (snd r)) - dcount i l' (snd (snd r)).
Proof.
  intro r. unfold r. rewrite post_label_get. rewrite store_label_split. cbn [snd].
  set (g := label_groups bodyf es).
  destruct (fold_dapp_dcount i l' (fun l => snd (store_label_one true l (nget lb0 l) (lg_get g l))) (lg_keys g) d0) as [H1 H2].
  cbn beta in H1, H2. rewrite H1, H2. clear H1 H2.
  assert (Hsum : forall ks, NoDup ks ->
     fold_right (fun l z => dcount i l' (fst (snd (store_label_one true l (nget lb0 l) (lg_get g l)))) + z) 0 ks
     - fold_right (fun l z => dcount i l' (snd (snd (store_label_one true l (nget lb0 l) (lg_get g l)))) + z) 0 ks
     = if existsb (fun x => (x =? l')%N) ks
       then count_idx i (fst (store_label_one true l' (nget lb0 l') (lg_get g l'))) - count_idx i (nget lb0 l') else 0).
  { induction ks as [|k ks IH]; intro ND; cbn [fold_right existsb]; [reflexivity|].
    apply NoDup_cons_iff in ND as [Hn ND]. specialize (IH ND).
    pose proof (store_label_one_delta k (nget lb0 k) (lg_get g k) i l') as Hk. cbn zeta in Hk.
    destruct (k =? l')%N eqn:E; cbn [orb].
    - apply N.eqb_eq in E. subst k.
      assert (Hf : existsb (fun x => (x =? l')%N) ks = false).
      { apply not_true_is_false. intro Hx. apply (existsb_eqb_In N.eqb N_eqb_ok) in Hx. contradiction. }
      rewrite Hf in IH. lia.
    - lia. }
  specialize (Hsum (lg_keys g) (nodupb_NoDup N.eqb N_eqb_ok _)).
  assert (Hd0 : dcount i l' (fst d0) = 0 /\ dcount i l' (snd d0) = 0) by (split; reflexivity).
  destruct Hd0 as [Hd1 Hd2]. rewrite Hd1, Hd2.
  destruct (existsb (fun x => (x =? l')%N) (lg_keys g)) eqn:E.
  - rewrite store_label_one_fst in Hsum. lia.
  - assert (Hn : lg_get g l' = []).
    { apply lg_get_nokey. intro Hi. apply lg_keys_In in Hi. apply (existsb_eqb_In N.eqb N_eqb_ok) in Hi. congruence. }
    rewrite Hn, el_add_nil_r. lia.
Qed.

Lemma post_label_view G es bd l cur : l <> 0%N -> uniq G -> uniq es ->
  is_nview (fun e => bd (e_pos e) = l) G cur ->
  is_nview (fun e => bd (e_pos e) = l) (g_post es G) (el_add cur (lg_get (label_groups bd es) l)).
Proof.
  intros Hl UG Ues [Uc Hc]. destruct (g_post_spec es G UG Ues) as [_ HG].
  rewrite label_groups_get by exact Hl.
  set (adds := map nr (filter (fun e => (bd (e_pos e) =? l)%N) es)).
  assert (Uadds : uniq adds) by (apply uniq_map_nr, uniq_filter; exact Ues).
  destruct (el_add_spec cur adds Uc Uadds) as [Ua Ha]. split; [exact Ua|].
  assert (Hadds : forall x, In x adds <-> exists e, In e es /\ x = nr e /\ bd (e_pos e) = l).
  { intro x. unfold adds. rewrite in_map_iff. split.
    - intros [e [<- He]]. apply filter_In in He as [He Eb]. apply N.eqb_eq in Eb. eauto.
    - intros [e [He [-> Eb]]]. exists e. split; [reflexivity|]. apply filter_In. split; [exact He | now apply N.eqb_eq]. }
  intro x. rewrite Ha, Hadds, Hc. split.
  - intros [[e [He [-> Eb]]]|[[e [He [-> Eb]]] Hn]].
    + exists e. split; [apply HG; now left | auto].
    + exists e. split; [|auto]. apply HG. right. split; [exact He|]. intro Hi. apply Hn.
      apply posl_in in Hi as [e' [He' Ep]]. cbn in Ep. replace (e_pos (nr e)) with (e_pos (nr e')) by (cbn; exact Ep).
      apply in_posl. apply Hadds. exists e'. split; [exact He'|]. split; [reflexivity|]. now rewrite Ep.
  - intros [e [He [-> Eb]]]. apply HG in He as [He|[He Hn]].
    + left. eauto.
    + right. split; [eauto|]. intro Hi. apply Hn. apply posl_in in Hi as [y [Hy Ep]]. apply Hadds in Hy as [e' [He' [-> _]]].
      cbn in Ep. rewrite <- Ep. now apply in_posl.
Qed.

(* ---------- tag delta ---------- *)
Definition tdA (m : tdmap) (t : N) : list elem := match tdget m t with Some td => td_add td | None => [] end.
Definition tdR (m : tdmap) (t : N) : list pos :=
  match tdget m t with Some td => match td_erase td with Some er => er | None => [] end | None => [] end.

Lemma tdget_tdput t d m t' : tdget (tdput t d m) t' = if (t =? t')%N then Some d else tdget m t'.
Proof. reflexivity. Qed.

Lemma td_add_tag_A e m t' t : tdA (td_add_tag e m t') t = tdA m t ++ (if (t' =? t)%N then [nr e] else []).
Proof.
  unfold tdA, td_add_tag. destruct (tdget m t') as [td|] eqn:E; rewrite tdget_tdput;
    destruct (t' =? t)%N eqn:Et; try (now rewrite app_nil_r).
  - apply N.eqb_eq in Et. subst. rewrite E. reflexivity.
  - apply N.eqb_eq in Et. subst. rewrite E. reflexivity.
Qed.
Lemma td_add_tag_R e m t' t : tdR (td_add_tag e m t') t = tdR m t.
Proof.
  unfold tdR, td_add_tag. destruct (tdget m t') as [td|] eqn:E; rewrite tdget_tdput;
    destruct (t' =? t)%N eqn:Et; try reflexivity; apply N.eqb_eq in Et; subst; rewrite E; reflexivity.
Qed.

Lemma memN_cons t t' ts : memN t (t' :: ts) = (t =? t')%N || memN t ts.
Proof. reflexivity. Qed.
Lemma td_tags_fold e ts m t : NoDup ts ->
  tdA (fold_left (td_add_tag e) ts m) t = tdA m t ++ (if memN t ts then [nr e] else [])
  /\ tdR (fold_left (td_add_tag e) ts m) t = tdR m t.
Proof.
  revert m. induction ts as [|t' ts IH]; intros m ND; cbn [fold_left]; [now rewrite app_nil_r|].
  apply NoDup_cons_iff in ND as [Hn ND]. destruct (IH (td_add_tag e m t') ND) as [HA HR].
  rewrite HA, HR, td_add_tag_A, td_add_tag_R. split; [|reflexivity].
  rewrite <- app_assoc. f_equal. rewrite memN_cons, (N.eqb_sym t t'). destruct (t' =? t)%N eqn:E; cbn [orb app].
  - apply N.eqb_eq in E. assert (Hm : memN t ts = false) by (apply memN_nIn; rewrite <- E; exact Hn).
    now rewrite Hm.
  - reflexivity.
Qed.

Lemma td_phase1_spec newE m t : (forall e, In e newE -> NoDup (e_tags e)) ->
  tdA (td_phase1 newE m) t = tdA m t ++ map nr (filter (has_tag t) newE) /\ tdR (td_phase1 newE m) t = tdR m t.
Proof.
  unfold td_phase1. revert m. induction newE as [|e es IH]; intros m Hnd; cbn [fold_left filter map]; [now rewrite app_nil_r|].
  destruct (IH (fold_left (td_add_tag e) (e_tags e) m) (fun e' H => Hnd e' (or_intror H))) as [HA HR].
  destruct (td_tags_fold e (e_tags e) m t (Hnd e (or_introl eq_refl))) as [HA1 HR1].
  rewrite HA, HR, HA1, HR1. split; [|reflexivity]. rewrite <- app_assoc. f_equal.
  unfold has_tag at 2. destruct (memN t (e_tags e)); reflexivity.
Qed.

Lemma tags_removed_In t a b : In t (tags_removed a b) <-> In t a /\ ~ In t b.
Proof.
  unfold tags_removed. destruct a as [|x a]; [cbn; tauto|]. destruct b as [|y b]; [cbn; tauto|].
  rewrite filter_In, negb_true_iff, memN_nIn. reflexivity.
Qed.

Lemma td_erase_tag_spec p m t' :
  exists m', td_erase_tag true p (Ok m) t' = Ok m'
             /\ (forall t, tdA m' t = tdA m t) /\ (forall t q, In q (tdR m' t) <-> In q (tdR m t) \/ (t' = t /\ q = p)).
Proof.
  unfold td_erase_tag. cbn [res_bind]. destruct (tdget m t') as [td|] eqn:E.
  - destruct (td_erase td) as [er|] eqn:Ee; eexists; (split; [reflexivity|]); split.
    + intro t. unfold tdA. rewrite tdget_tdput. destruct (t' =? t)%N eqn:Et; [apply N.eqb_eq in Et; subst; now rewrite E | reflexivity].
    + intros t q. unfold tdR. rewrite tdget_tdput. destruct (t' =? t)%N eqn:Et.
      * apply N.eqb_eq in Et. subst. rewrite E, Ee. cbn. intuition.
      * apply N.eqb_neq in Et. intuition.
    + intro t. unfold tdA. rewrite tdget_tdput. destruct (t' =? t)%N eqn:Et; [apply N.eqb_eq in Et; subst; now rewrite E | reflexivity].
    + intros t q. unfold tdR. rewrite tdget_tdput. destruct (t' =? t)%N eqn:Et.
      * apply N.eqb_eq in Et. subst. rewrite E, Ee. cbn. intuition.
      * apply N.eqb_neq in Et. intuition.
  - eexists. split; [reflexivity|]. split.
    + intro t. unfold tdA. rewrite tdget_tdput. destruct (t' =? t)%N eqn:Et; [apply N.eqb_eq in Et; subst; now rewrite E | reflexivity].
    + intros t q. unfold tdR. rewrite tdget_tdput. destruct (t' =? t)%N eqn:Et.
      * apply N.eqb_eq in Et. subst. rewrite E. cbn. intuition.
      * apply N.eqb_neq in Et. intuition.
Qed.

Lemma td_erase_fold_spec p ts m :
  exists m', fold_left (td_erase_tag true p) ts (Ok m) = Ok m'
             /\ (forall t, tdA m' t = tdA m t) /\ (forall t q, In q (tdR m' t) <-> In q (tdR m t) \/ (In t ts /\ q = p)).
Proof.
  revert m. induction ts as [|t' ts IH]; intro m; cbn [fold_left].
  - exists m. split; [reflexivity|]. split; [reflexivity|]. intros t q. cbn. tauto.
  - destruct (td_erase_tag_spec p m t') as [m1 [E1 [A1 R1]]]. rewrite E1.
    destruct (IH m1) as [m2 [E2 [A2 R2]]]. exists m2. split; [exact E2|]. split.
    + intro t. now rewrite A2, A1.
    + intros t q. rewrite R2, R1. cbn. intuition.
Qed.

Lemma td_phase2_spec byPoint cur m : uniq cur ->
  exists m', td_phase2 true byPoint cur (Ok m) = Ok m'
    /\ (forall t, tdA m' t = tdA m t)
    /\ (forall t q, In q (tdR m' t) <-> In q (tdR m t) \/
          exists c ne, In c cur /\ q = e_pos c /\ last_at (e_pos c) byPoint = Some ne /\ In t (e_tags c) /\ ~ In t (e_tags ne)).
Proof.
  revert byPoint m. induction cur as [|c cur IH]; intros byPoint m U; cbn [td_phase2].
  - exists m. split; [reflexivity|]. split; [reflexivity|]. intros t q. split; [tauto|]. intros [H|[c [ne [[] _]]]]. exact H.
  - unfold uniq in U. cbn in U. apply NoDup_cons_iff in U as [Hn U].
    destruct (last_at (e_pos c) byPoint) as [ne|] eqn:El.
    + destruct (td_erase_fold_spec (e_pos c) (tags_removed (e_tags c) (e_tags ne)) m) as [m1 [E1 [A1 R1]]]. rewrite E1.
      destruct (IH (nr_remove_all (e_pos c) byPoint) m1 U) as [m2 [E2 [A2 R2]]]. exists m2. split; [exact E2|]. split.
      * intro t. now rewrite A2, A1.
      * intros t q. rewrite R2, R1, tags_removed_In. split.
        -- intros [[H|[[H1 H2] ->]]|[c' [ne' [Hc' [-> [Hl [H1 H2]]]]]]].
           ++ now left.
           ++ right. exists c, ne. cbn. tauto.
           ++ right. exists c', ne'. split; [now right|]. split; [reflexivity|].
              rewrite last_at_remove_other in Hl; [tauto|]. intro E. apply Hn. rewrite <- E. now apply in_posl.
        -- intros [H|[c' [ne' [[<-|Hc'] [-> [Hl [H1 H2]]]]]]].
           ++ left. now left.
           ++ rewrite El in Hl. inversion Hl; subst. left. right. tauto.
           ++ right. exists c', ne'. split; [exact Hc'|]. split; [reflexivity|].
              rewrite last_at_remove_other; [tauto|]. intro E. apply Hn. rewrite <- E. now apply in_posl.
    + destruct (IH byPoint m U) as [m2 [E2 [A2 R2]]]. exists m2. split; [exact E2|]. split; [exact A2|].
      intros t q. rewrite R2. split.
      * intros [H|[c' [ne' [Hc' H]]]]; [now left|]. right. exists c', ne'. split; [now right | exact H].
      * intros [H|[c' [ne' [[<-|Hc'] [-> [Hl H]]]]]]; [now left | congruence |]. right. exists c', ne'. tauto.
Qed.

Lemma add_tag_delta_spec newE cur m : uniq cur -> (forall e, In e newE -> NoDup (e_tags e)) ->
  exists m', add_tag_delta true newE cur m = Ok m'
    /\ (forall t, tdA m' t = tdA m t ++ map nr (filter (has_tag t) newE))
    /\ (forall t q, In q (tdR m' t) <-> In q (tdR m t) \/
          exists c ne, In c cur /\ q = e_pos c /\ last_at (e_pos c) newE = Some ne /\ In t (e_tags c) /\ ~ In t (e_tags ne)).
Proof.
  intros U Hnd. unfold add_tag_delta. destruct newE as [|e0 es0] eqn:En.
  - exists m. split; [reflexivity|]. split; [intro t; cbn; now rewrite app_nil_r|].
    intros t q. split; [tauto|]. intros [H|[c [ne [_ [_ [Hl _]]]]]]; [exact H | discriminate].
  - rewrite <- En in *. destruct (td_phase2_spec newE cur (td_phase1 newE m) U) as [m' [E [A R]]].
    exists m'. split; [exact E|]. split.
    + intro t. rewrite A. apply td_phase1_spec. exact Hnd.
    + intros t q. rewrite R. destruct (td_phase1_spec newE m t Hnd) as [_ HR]. rewrite HR. reflexivity.
Qed.

Lemma tag_delta_fold bs (bk : amap pos) es ord m0 :
  (forall b, uniq (bget bk b)) -> (forall e, In e es -> NoDup (e_tags e)) ->
  exists m', fold_left (fun r b => res_bind r (add_tag_delta true (group bs b es) (bget bk b))) ord (Ok m0) = Ok m'
    /\ (forall t, tdA m' t = tdA m0 t ++ flat_map (fun b => map nr (filter (has_tag t) (group bs b es))) ord)
    /\ (forall t q, In q (tdR m' t) <-> In q (tdR m0 t) \/
          exists b c ne, In b ord /\ In c (bget bk b) /\ q = e_pos c /\ last_at (e_pos c) (group bs b es) = Some ne
                         /\ In t (e_tags c) /\ ~ In t (e_tags ne)).
Proof.
  intros Ub Hnd. revert m0. induction ord as [|b ord IH]; intro m0; cbn [fold_left flat_map].
  - exists m0. split; [reflexivity|]. split; [intro; now rewrite app_nil_r|]. intros t q. split; [tauto|].
    intros [H|[b [c [ne [[] _]]]]]. exact H.
  - cbn [res_bind].
    destruct (add_tag_delta_spec (group bs b es) (bget bk b) m0 (Ub b)) as [m1 [E1 [A1 R1]]].
    { intros e He. apply Hnd. apply group_In in He. tauto. }
    rewrite E1. destruct (IH m1) as [m2 [E2 [A2 R2]]]. exists m2. split; [exact E2|]. split.
    + intro t. rewrite A2, A1, <- app_assoc. reflexivity.
    + intros t q. rewrite R2, R1. split.
      * intros [[H|[c [ne H]]]|[b' [c [ne [Hb H]]]]]; [now left | right; exists b, c, ne; cbn; tauto | right; exists b', c, ne; cbn; tauto].
      * intros [H|[b' [c [ne [[<-|Hb] H]]]]]; [left; now left | left; right; exists c, ne; tauto | right; exists b', c, ne; tauto].
Qed.

Lemma tdA_nil t : tdA [] t = []. Proof. reflexivity. Qed.
Lemma tdR_nil t : tdR [] t = []. Proof. reflexivity. Qed.

Lemma flat_groups_In bs es ord t x : (forall e, In e es -> In (blockOf bs (e_pos e)) ord) ->
  (In x (flat_map (fun b => map nr (filter (has_tag t) (group bs b es))) ord) <-> exists e, In e es /\ x = nr e /\ In t (e_tags e)).
Proof.
  intro Hord. rewrite in_flat_map. split.
  - intros [b [Hb Hx]]. apply in_map_iff in Hx as [e [<- He]]. apply filter_In in He as [He Ht].
    apply group_In in He as [He _]. apply has_tag_true in Ht. eauto.
  - intros [e [He [-> Ht]]]. exists (blockOf bs (e_pos e)). split; [now apply Hord|].
    apply in_map. apply filter_In. split; [apply group_In; auto | now apply has_tag_true].
Qed.

Lemma flat_groups_uniq bs es ord t : NoDup ord -> uniq es ->
  uniq (flat_map (fun b => map nr (filter (has_tag t) (group bs b es))) ord).
Proof.
  intros ND U. induction ord as [|b ord IH]; cbn [flat_map]; [constructor|].
  apply NoDup_cons_iff in ND as [Hn ND]. apply uniq_app.
  - apply uniq_map_nr, uniq_filter, uniq_filter. exact U.
  - now apply IH.
  - intros p Hp Hq. rewrite posl_map_nr in Hp. apply posl_in in Hp as [e [He Ep]].
    apply filter_In in He as [He _]. apply group_In in He as [_ Hb].
    apply posl_in in Hq as [y [Hy Ey]]. apply in_flat_map in Hy as [b' [Hb' Hy]].
    apply in_map_iff in Hy as [e' [<- He']]. apply filter_In in He' as [He' _]. apply group_In in He' as [_ Hb2].
    cbn in Ey. apply Hn. assert (Hbb : b = b') by congruence. rewrite Hbb. exact Hb'.
Qed.

Lemma modify_tag_get tg0 m t :
  nget (modify_tag_elements tg0 m) t
  = filter (fun e => negb (mem_pos (e_pos e) (tdR m t))) (el_add (nget tg0 t) (tdA m t)).
Proof.
  unfold modify_tag_elements.
  set (c := fun t => match tdget m t with Some _ => true | None => false end).
  set (f := fun t => match tdget m t with Some td => apply_td tg0 td t | None => [] end).
  rewrite (fold_left_ext _ (fun acc t => if c t then aput t (f t) acc else acc))
    by (intros a b; unfold c, f; destruct (tdget m b); reflexivity).
  unfold nget at 1. rewrite (fold_put_get_id N.eqb N_eqb_ok c f). unfold c, f.
  unfold tdA, tdR.
  destruct (tdget m t) as [td|] eqn:E.
  - rewrite andb_true_r.
    assert (Hk : existsb (fun x => (x =? t)%N) (td_keys m) = true).
    { apply (existsb_eqb_In N.eqb N_eqb_ok). apply (nodupb_In N.eqb N_eqb_ok).
      clear -E. induction m as [|[t' d] m IH]; cbn in *; [discriminate|].
      destruct (t' =? t)%N eqn:Et; [left; now apply N.eqb_eq | right; now apply IH]. }
    rewrite Hk. unfold apply_td.
    destruct (td_add td) as [|a0 al]; [rewrite el_add_nil_r|];
      (destruct (td_erase td); [reflexivity | symmetry; apply filter_id; intros; reflexivity]).
  - rewrite andb_false_r. rewrite el_add_nil_r. symmetry. apply filter_id. intros; reflexivity.
Qed.

Lemma post_tag_view bs G es ord (s : state) m t :
  ViewsI bs G s -> uniq es -> NoDup ord -> (forall e, In e es -> In (blockOf bs (e_pos e)) ord) ->
  (forall e, In e es -> NoDup (e_tags e)) ->
  fold_left (fun r b => res_bind r (add_tag_delta true (group bs b es) (bget (blk s) b))) ord (Ok []) = Ok m ->
  is_nview (fun e => In t (e_tags e)) (g_post es G) (nget (modify_tag_elements (tgs s) m) t).
Proof.
  intros V Ues ND Hord Hnd Hm.
  destruct (tag_delta_fold bs (blk s) es ord [] (fun b => proj1 (vi_block _ _ _ V b)) Hnd) as [m' [E [A R]]].
  assert (Em : Ok m' = Ok m) by (rewrite <- E; exact Hm). apply Ok_inj in Em. subst m'. clear E.
  destruct (g_post_spec es G (vi_uniq _ _ _ V) Ues) as [_ HG].
  destruct (vi_tag _ _ _ V t) as [Uc Hc].
  rewrite modify_tag_get.
  specialize (A t). rewrite tdA_nil in A. cbn [app] in A.
  assert (UA : uniq (tdA m t)) by (rewrite A; now apply flat_groups_uniq).
  assert (HA : forall x, In x (tdA m t) <-> exists e, In e es /\ x = nr e /\ In t (e_tags e)) by (intro x; rewrite A; now apply flat_groups_In).
  assert (HR : forall q, In q (tdR m t) <-> exists c ne, In c G /\ In ne es /\ e_pos ne = q /\ e_pos c = q /\ In t (e_tags c) /\ ~ In t (e_tags ne)).
  { intro q. rewrite R, tdR_nil. split.
    - intros [[]|[b [c [ne [Hb [Hc' [-> [Hl [H1 H2]]]]]]]]]. apply last_at_some in Hl as [Hne Ep]. apply group_In in Hne as [Hne _].
      apply (vi_block _ _ _ V) in Hc' as [Hc' _]. exists c, ne. tauto.
    - intros [c [ne [Hc' [Hne [E1 [E2 [H1 H2]]]]]]]. right. exists (blockOf bs (e_pos c)), c, ne.
      split; [rewrite E2, <- E1; now apply Hord|]. split; [now apply (bview_in bs G s)|]. split; [now rewrite E2|].
      split; [|tauto]. apply last_at_uniq; [apply uniq_filter; exact Ues | | congruence].
      apply group_In. split; [exact Hne | congruence]. }
  destruct (el_add_spec (nget (tgs s) t) (tdA m t) Uc UA) as [Ua Ha]. split; [now apply uniq_filter|].
  intro x. rewrite filter_In, negb_true_iff, mem_pos_nIn, Ha, HA, Hc, HR. split.
  - intros [[[e [He [-> Ht]]]|[[e0 [He0 [-> Ht]]] Hn]] Hr].
    + exists e. split; [apply HG; now left | auto].
    + exists e0. split; [|auto]. apply HG. right. split; [exact He0|]. intro Hi.
      apply posl_in in Hi as [ne [Hne Ep]].
      destruct (in_dec N.eq_dec t (e_tags ne)) as [Hin|Hnin].
      * apply Hn. cbn. rewrite <- Ep. replace (e_pos ne) with (e_pos (nr ne)) by reflexivity. apply in_posl. apply HA. eauto.
      * apply Hr. exists e0, ne. cbn. tauto.
  - intros [e [He [-> Ht]]]. apply HG in He as [He|[He Hn]].
    + split; [left; eauto|]. intros [c [ne [Hc' [Hne [E1 [E2 [H1 H2]]]]]]]. cbn in E1.
      assert (ne = e) by (apply (uniq_inj es ne e Ues Hne He E1)). subst. contradiction.
    + split.
      * right. split; [eauto|]. intro Hi. apply Hn. apply posl_in in Hi as [y [Hy Ep]]. apply HA in Hy as [e' [He' [-> _]]].
        cbn in Ep. rewrite <- Ep. now apply in_posl.
      * intros [c [ne [Hc' [Hne [E1 [E2 [H1 H2]]]]]]]. apply Hn. cbn in E1. rewrite <- E1. now apply in_posl.
Qed.

(* ---------- POST elements keeps the views ---------- *)
Theorem post_views bs G s ord es :
  ViewsI bs G s -> NoDup ord -> (forall e, In e es -> In (blockOf bs (e_pos e)) ord) -> elems_ok es = true ->
  exists s', store_elements fixed bs ord es s = Ok s' /\ body s' = body s /\ ViewsI bs (g_post es G) s'.
Proof.
  intros V ND Hord Hok. destruct (elems_ok_true es Hok) as [Ues Hnd].
  unfold store_elements. cbn [fx_erase fx_kind fx_valid fixed]. rewrite Hok. cbn [negb andb].
  destruct (tag_delta_fold bs (blk s) es ord [] (fun b => proj1 (vi_block _ _ _ V b)) Hnd) as [m [Em _]].
  match goal with |- context [res_bind ?X _] => assert (Em' : X = Ok m) by exact Em; rewrite Em' end.
  cbn [res_bind].
  destruct (store_label_elements true (body s) (lbl s) es) as [lbl' d] eqn:El.
  eexists. split; [reflexivity|]. split; [reflexivity|].
  pose proof (vi_uniq _ _ _ V) as UG.
  destruct (g_post_spec es G UG Ues) as [UG' HG'].
  constructor; cbn [blk tgs lbl cnt body].
  - exact UG'.
  - intros e He. apply HG' in He as [He|[He _]]; [now apply Hnd | now apply (vi_tags _ _ _ V)].
  - intro b. rewrite post_blocks_get by exact Hord. apply post_block_view; auto. apply (vi_block _ _ _ V).
  - intro t. now apply (post_tag_view bs G es ord s m t).
  - intros l Hl. replace lbl' with (fst (store_label_elements true (body s) (lbl s) es)) by now rewrite El.
    rewrite post_label_get. apply post_label_view; auto. now apply (vi_label _ _ _ V).
  - replace lbl' with (fst (store_label_elements true (body s) (lbl s) es)) by now rewrite El.
    rewrite post_label_get, label_groups_get0, el_add_nil_r. apply (vi_label0 _ _ _ V).
  - replace lbl' with (fst (store_label_elements true (body s) (lbl s) es)) by now rewrite El.
    replace d with (snd (store_label_elements true (body s) (lbl s) es)) by now rewrite El.
    apply count_step with (lb := lbl s); [apply (vi_count _ _ _ V)|].
    intros i l Hl. apply post_label_delta.
Qed.
