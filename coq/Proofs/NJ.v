(* Proofs.NJ: the in-memory head of the repaired code answers like the store (invariant over all
   histories), and the witnesses showing that each repair is needed. *)
From DV Require Import Base.Prelude Model.NJ Proofs.NJBase Gen.Consts.
From Coq Require Import Sorted Permutation.
From Coq Require Import ZifyN ZifyNat ZifyBool.
Local Open Scope N_scope.

Lemma bytes_eqb_eq' : forall a b : bytes, bytes_eqb a b = true <-> a = b.
Proof. exact bytes_eqb_eq. Qed.

(* ---------- field counters ---------- *)
Fixpoint occ (f : bytes) (l : list bytes) : Z :=
  match l with [] => 0%Z | x :: r => ((if bytes_eqb f x then 1 else 0) + occ f r)%Z end.
Fixpoint tot (f : bytes) (d : ndata) : Z :=
  match d with [] => 0%Z | p :: r => (occ f (dom (snd p)) + tot f r)%Z end.

Lemma occ_nonneg f l : (0 <= occ f l)%Z.
Proof. induction l as [|x r IH]; simpl; [lia|]. destruct (bytes_eqb f x); lia. Qed.
Lemma tot_nonneg f d : (0 <= tot f d)%Z.
Proof. induction d as [|p r IH]; simpl; [lia|]. pose proof (occ_nonneg f (dom (snd p))). lia. Qed.

Lemma cget_cadd f c m g : cget f (cadd c m g) = if bytes_eqb f g then (cget f m + c)%Z else cget f m.
Proof.
  unfold cadd, cget. destruct (bytes_eqb f g) eqn:E.
  - apply bytes_eqb_eq in E; subst. now rewrite (aget_aset_same bytes_eqb bytes_eqb_eq').
  - rewrite (aget_aset_other bytes_eqb bytes_eqb_eq'); [reflexivity|].
    intro H; subst. now rewrite (proj2 (bytes_eqb_eq g g) eq_refl) in E.
Qed.
Lemma cget_fold_cadd f c l : forall m, cget f (fold_left (cadd c) l m) = (cget f m + c * occ f l)%Z.
Proof.
  induction l as [|x r IH]; intro m; simpl; [lia|].
  rewrite IH, cget_cadd. destruct (bytes_eqb f x); lia.
Qed.
Lemma nodup_cadd c m g : NoDup (map fst m) -> NoDup (map fst (cadd c m g)).
Proof. intro H. unfold cadd. now apply (nodup_aset bytes_eqb bytes_eqb_eq'). Qed.
Lemma nodup_fold_cadd c l : forall m, NoDup (map fst m) -> NoDup (map fst (fold_left (cadd c) l m)).
Proof. induction l as [|x r IH]; intros m H; simpl; [exact H|]. apply IH. now apply nodup_cadd. Qed.

Definition scan_from (acc : fcounts) (d : ndata) : fcounts :=
  fold_left (fun acc p => fold_left (cadd 1) (dom (snd p)) acc) d acc.
Lemma scan_counts_from d : scan_counts d = scan_from [] d.
Proof. reflexivity. Qed.
Lemma cget_scan_from f d : forall acc, cget f (scan_from acc d) = (cget f acc + tot f d)%Z.
Proof.
  unfold scan_from. induction d as [|p r IH]; intro acc; simpl; [lia|].
  rewrite IH, cget_fold_cadd. lia.
Qed.
Lemma nodup_scan_from d : forall acc, NoDup (map fst acc) -> NoDup (map fst (scan_from acc d)).
Proof.
  unfold scan_from. induction d as [|p r IH]; intros acc H; simpl; [exact H|].
  apply IH. now apply nodup_fold_cadd.
Qed.

Definition allpos (m : fcounts) : Prop := forall f c, @aget bytes Z bytes_eqb f m = Some c -> (0 < c)%Z.
Lemma allpos_cget m f : allpos m -> (0 <= cget f m)%Z.
Proof. intro H. unfold cget. destruct (aget bytes_eqb f m) eqn:E; [apply H in E; lia | lia]. Qed.
Lemma allpos_cadd1 m g : allpos m -> allpos (cadd 1 m g).
Proof.
  intros H f c. unfold cadd. destruct (bytes_eqb f g) eqn:E.
  - apply bytes_eqb_eq in E; subst. rewrite (aget_aset_same bytes_eqb bytes_eqb_eq').
    intro X; inversion X; subst. pose proof (allpos_cget m g H). lia.
  - rewrite (aget_aset_other bytes_eqb bytes_eqb_eq'); [apply H|].
    intro X; subst. now rewrite (proj2 (bytes_eqb_eq g g) eq_refl) in E.
Qed.
Lemma allpos_fold l : forall m, allpos m -> allpos (fold_left (cadd 1) l m).
Proof. induction l as [|x r IH]; intros m H; simpl; [exact H|]. apply IH. now apply allpos_cadd1. Qed.
Lemma allpos_scan d : forall acc, allpos acc -> allpos (scan_from acc d).
Proof. unfold scan_from. induction d as [|p r IH]; intros acc H; simpl; [exact H|]. apply IH. now apply allpos_fold. Qed.
Lemma allpos_nil : allpos [].
Proof. intros f c H; discriminate. Qed.

(* what a scan of the store reports for a field *)
Lemma aget_scan f d :
  @aget bytes Z bytes_eqb f (scan_counts d) = if (0 <? tot f d)%Z then Some (tot f d) else None.
Proof.
  pose proof (cget_scan_from f d []) as Hc. pose proof (allpos_scan d [] allpos_nil) as Hp.
  rewrite <- scan_counts_from in *. unfold cget in Hc at 1. simpl in Hc.
  destruct (aget bytes_eqb f (scan_counts d)) eqn:E.
  - apply Hp in E. subst. replace (0 <? tot f d)%Z with true by (symmetry; apply Z.ltb_lt; lia). reflexivity.
  - replace (0 <? tot f d)%Z with false by (symmetry; apply Z.ltb_ge; lia). reflexivity.
Qed.

(* the counters served from memory once non-positive ones are dropped *)
Definition posf (p : bytes * Z) : bool := (0 <? snd p)%Z.
Lemma aget_filter_pos f (m : fcounts) : NoDup (map fst m) ->
  @aget bytes Z bytes_eqb f (filter posf m) = if (0 <? cget f m)%Z then Some (cget f m) else None.
Proof.
  unfold cget. induction m as [|[k c] r IH]; intro ND; simpl; [reflexivity|].
  inversion ND as [|? ? Hk ND']; subst. unfold posf at 1. simpl.
  destruct (bytes_eqb f k) eqn:E.
  - apply bytes_eqb_eq in E; subst k. destruct (0 <? c)%Z eqn:Ec; simpl.
    + now rewrite (proj2 (bytes_eqb_eq f f) eq_refl).
    + apply (aget_None_notin bytes_eqb bytes_eqb_eq'). intro H. apply Hk.
      clear - H. induction r as [|[k c'] r IH]; simpl in *; [contradiction|].
      destruct (posf (k, c')); simpl in *; intuition.
  - destruct (0 <? c)%Z; simpl; [rewrite E|]; apply IH; assumption.
Qed.

Lemma tot_nset f id v d : nsorted d ->
  tot f (nset id v d) = (tot f d - match nget id d with Some o => occ f (dom o) | None => 0 end + occ f (dom v))%Z.
Proof.
  unfold nsorted. induction d as [|[k o] r IH]; simpl; intro S; [lia|].
  inversion S as [|? ? S' F]; subst.
  destruct (id <? k) eqn:E1; simpl.
  - apply N.ltb_lt in E1. replace (id =? k) with false by (symmetry; apply N.eqb_neq; lia).
    rewrite nget_notin; [lia|]. intro H. rewrite Forall_forall in F. apply F in H. lia.
  - destruct (id =? k) eqn:E2; simpl; [lia|]. rewrite IH by assumption. lia.
Qed.
Lemma tot_ndel f id d :
  tot f (ndel id d) = (tot f d - match nget id d with Some o => occ f (dom o) | None => 0 end)%Z.
Proof.
  induction d as [|[k o] r IH]; simpl; [lia|].
  destruct (id =? k); simpl; [lia|]. rewrite IH. lia.
Qed.

(* ---------- a memdb that mirrors the annotations [d] of a version ---------- *)
Record MInv (m : memdb) (d : ndata) : Prop := mkMInv {
  mi_data : m_data m = d;
  mi_sorted : nsorted (m_data m);
  mi_ids : m_ids m = map fst (m_data m);
  mi_cnt : forall f, cget f (m_fields m) = tot f (m_data m);
  mi_nodup : NoDup (map fst (m_fields m));
  mi_ftimes : m_ftdirty m = false -> m_ftimes m = ft_of (m_data m);
}.

Lemma minv_sorted m d : MInv m d -> nsorted d.
Proof. intros [H1 H2 _ _ _ _]. now rewrite <- H1. Qed.

Lemma mem_put_minv m d id orig1 new' m' :
  MInv m d -> mem_put repaired m id (nget id d) orig1 new' = Ok m' -> MInv m' (nset id new' d).
Proof.
  intros [I1 I2 I3 I4 I5 I7]. unfold mem_put. cbn [v_cnt v_ftime repaired].
  rewrite I3, (addBodyID_sorted _ id I2). cbn [res_bind].
  intro H; apply Ok_inj in H; subst m'. constructor; cbn.
  - now rewrite I1.
  - now apply nset_sorted.
  - now rewrite keys_nset.
  - intro f. rewrite !cget_fold_cadd, I4, (tot_nset f id new' _ I2), <- I1.
    destruct (nget id (m_data m)); cbn [occ]; lia.
  - apply nodup_fold_cadd, nodup_fold_cadd, I5.
  - discriminate.
Qed.

Lemma ndel_absent id (d : ndata) : nget id d = None -> ndel id d = d.
Proof.
  induction d as [|[k v] r IH]; simpl; [reflexivity|].
  destruct (id =? k); [discriminate|]. intro H. now rewrite IH.
Qed.

Lemma mem_del_minv m d id m' : MInv m d -> mem_del repaired m id = Ok m' -> MInv m' (ndel id d).
Proof.
  intros [I1 I2 I3 I4 I5 I7]. unfold mem_del.
  destruct (nget id (m_data m)) as [o|] eqn:G.
  - rewrite I3, (deleteBodyID_sorted repaired _ id eq_refl I2). cbn [res_bind].
    intro H; apply Ok_inj in H; subst m'. constructor; cbn.
    + now rewrite I1.
    + now apply ndel_sorted.
    + now rewrite keys_ndel.
    + intro f. rewrite cget_fold_cadd, I4, tot_ndel, G. lia.
    + now apply nodup_fold_cadd.
    + discriminate.
  - intro H; apply Ok_inj in H; subst m'. rewrite <- I1, (ndel_absent _ _ G). now constructor.
Qed.

Lemma loadMemDB_minv d : nsorted d -> MInv (loadMemDB d) d.
Proof.
  intro S. unfold loadMemDB. rewrite (fold_nset_sorted d S). constructor; cbn.
  - reflexivity.
  - exact S.
  - now apply sort_ids_sorted.
  - intro f. rewrite scan_counts_from, cget_scan_from. reflexivity.
  - rewrite scan_counts_from. apply nodup_scan_from. constructor.
  - reflexivity.
Qed.

(* PutData on a version with / without a memdb *)
Lemma put_some m st sch key body vd user conds replace t om' st' :
  MInv m (s_data st) -> put repaired (Some m) st sch key body vd user conds replace t = Ok (om', st') ->
  exists m', om' = Some m' /\ MInv m' (s_data st') /\ s_meta st' = s_meta st.
Proof.
  intros I. unfold put.
  destruct (negb (nonempty user)); [discriminate|]. destruct (key =? 0); [discriminate|].
  match goal with |- context [negb ?v] => destruct (negb v); [discriminate|] end.
  destruct (oget s_bodyid (obj_of_list body)) as [[| | z | | | |]|]; try discriminate.
  destruct ((0 <=? z)%Z && (z <=? Z.of_N max_u64)%Z && (Z.to_N z =? key)); [|discriminate].
  unfold sau. destruct (omem _ _ || omem _ _); [discriminate|]. destruct (bad_stamp _); [discriminate|].
  destruct (updateJSON user conds replace t (nget key (s_data st)) (obj_of_list body)) as [orig1 new'].
  destruct (mem_put repaired m key (nget key (s_data st)) orig1 new') as [m'| |] eqn:E; cbn [res_bind]; try discriminate.
  intro H; apply Ok_inj in H; inversion H; subst. exists m'. split; [reflexivity|]. split; [|reflexivity].
  cbn. eapply mem_put_minv; eauto.
Qed.
Lemma put_none st sch key body vd user conds replace t om' st' :
  nsorted (s_data st) -> put repaired None st sch key body vd user conds replace t = Ok (om', st') ->
  om' = None /\ nsorted (s_data st') /\ s_meta st' = s_meta st.
Proof.
  intros S. unfold put.
  destruct (negb (nonempty user)); [discriminate|]. destruct (key =? 0); [discriminate|].
  match goal with |- context [negb ?v] => destruct (negb v); [discriminate|] end.
  destruct (oget s_bodyid (obj_of_list body)) as [[| | z | | | |]|]; try discriminate.
  destruct ((0 <=? z)%Z && (z <=? Z.of_N max_u64)%Z && (Z.to_N z =? key)); [|discriminate].
  unfold sau. destruct (omem _ _ || omem _ _); [discriminate|]. destruct (bad_stamp _); [discriminate|].
  destruct (updateJSON user conds replace t (nget key (s_data st)) (obj_of_list body)) as [orig1 new'].
  intro H; apply Ok_inj in H; inversion H; subst. split; [reflexivity|]. split; [|reflexivity]. cbn. now apply nset_sorted.
Qed.

Lemma mget_mset k k' v m : mget k (mset k' v m) = if k =? k' then Some v else mget k m.
Proof.
  unfold mget, mset. destruct (k =? k') eqn:E.
  - apply N.eqb_eq in E; subst. apply (aget_aset_same N.eqb Neqb_eq').
  - apply N.eqb_neq in E. now apply (aget_aset_other N.eqb Neqb_eq').
Qed.
Lemma mget_mdel k k' (m : list (N * bytes)) : mget k (mdel k' m) = if k =? k' then None else mget k m.
Proof.
  unfold mget, mdel. destruct (k =? k') eqn:E.
  - apply N.eqb_eq in E; subst. apply (aget_adel_same N.eqb).
  - apply N.eqb_neq in E. now apply (aget_adel_other N.eqb Neqb_eq').
Qed.

Lemma load_meta_get locked sm k : k < 3 -> mget k (load_meta repaired locked sm) = mget k sm.
Proof.
  intro Hk. unfold load_meta. cbn [v_meta repaired orb].
  assert (C : k = 0 \/ k = 1 \/ k = 2) by lia.
  unfold k_json_schema, k_schema, k_schema_batch, n_nj_JSONSchema, n_nj_NeuSchema, n_nj_NeuSchemaBatch.
  destruct (mget 0 sm) eqn:E0, (mget 1 sm) eqn:E1, (mget 2 sm) eqn:E2;
    repeat rewrite mget_mset; destruct C as [-> | [-> | ->]]; simpl; congruence.
Qed.


(* ---------- versions by reference ---------- *)
Definition vs_sorted (v : vstore) : Prop := nsorted (s_data v).

Lemma nth_rev_cons {A} (h : A) ps a : (a < length ps)%nat -> nth_error (rev (h :: ps)) a = nth_error (rev ps) a.
Proof. intro H. simpl. apply nth_error_app1. now rewrite rev_length. Qed.
Lemma nth_rev_head {A} (h : A) ps : nth_error (rev (h :: ps)) (length ps) = Some h.
Proof. simpl. rewrite nth_error_app2 by (rewrite rev_length; lia). now rewrite rev_length, Nat.sub_diag. Qed.
Lemma nth_rev_some_lt {A} (l : list A) a x : nth_error (rev l) a = Some x -> (a < length l)%nat.
Proof. intro H. rewrite <- rev_length. apply nth_error_Some. congruence. Qed.

Lemma nth_rev_grow {A} (h : A) l a x : nth_error (rev l) a = Some x -> nth_error (rev (h :: l)) a = Some x.
Proof.
  intro H. simpl. rewrite nth_error_app1; [exact H|]. rewrite rev_length. eapply nth_rev_some_lt; eauto.
Qed.

Lemma vref_eqb_eq a b : vref_eqb a b = true <-> a = b.
Proof.
  destruct a, b; simpl; try (split; [discriminate | intro H; inversion H]);
    rewrite Nat.eqb_eq; split; [congruence | intro H; now inversion H | congruence | intro H; now inversion H].
Qed.

(* ---------- the invariant ---------- *)
Record Inv (s : state) : Prop := mkInv {
  j_mem : MInv (st_mem s) (s_data (st_head s));
  j_meta : forall k, k < 3 -> mget k (st_mmeta s) = mget k (s_meta (st_head s));
  j_compiled : forall b, st_compiled s = Some b -> mget k_json_schema (s_meta (st_head s)) = Some b;
  j_parents : Forall vs_sorted (st_parents s);
  j_branch : forall b, st_branch s = Some b -> vs_sorted (b_head b) /\ Forall vs_sorted (b_parents b);
  j_bmem : forall m, st_bmem s = Some m -> exists b, st_branch s = Some b /\ MInv m (s_data (b_head b));
  j_static : forall ref m, static_get ref (st_static s) = Some m ->
               exists v, resolve s ref = Some v /\ committed s ref = true /\ MInv m (s_data v);
}.

Lemma inv_init : Inv init_state.
Proof.
  constructor; simpl; try reflexivity; try discriminate; try (now constructor).
  apply (loadMemDB_minv []). constructor.
Qed.

(* what stays put when a request changes a state: committed versions *)
Definition stable (s s' : state) : Prop :=
  forall ref v, resolve s ref = Some v -> committed s ref = true ->
                resolve s' ref = Some v /\ committed s' ref = true.

Lemma static_stable s s' : stable s s' -> st_static s' = st_static s ->
  (forall ref m, static_get ref (st_static s) = Some m ->
     exists v, resolve s ref = Some v /\ committed s ref = true /\ MInv m (s_data v)) ->
  forall ref m, static_get ref (st_static s') = Some m ->
     exists v, resolve s' ref = Some v /\ committed s' ref = true /\ MInv m (s_data v).
Proof.
  intros St E H ref m G. rewrite E in G. destruct (H ref m G) as (v & R & C & M).
  destruct (St ref v R C). exists v. auto.
Qed.

(* a change confined to the open head of master *)
Lemma stable_master_head s s' :
  st_locked s = false -> st_parents s' = st_parents s -> st_branch s' = st_branch s -> stable s s'.
Proof.
  intros U P B [a|i] v R C; unfold resolve, committed in *; rewrite ?P, ?B in *.
  - rewrite U, andb_false_r, orb_false_r in C. pose proof C as C'. apply Nat.ltb_lt in C'.
    rewrite nth_rev_cons in R by exact C'. rewrite nth_rev_cons by exact C'. rewrite C. auto.
  - auto.
Qed.
Lemma stable_branch_head s s' b b' :
  st_branch s = Some b -> b_locked b = false -> st_branch s' = Some b' -> b_parents b' = b_parents b ->
  st_head s' = st_head s -> st_parents s' = st_parents s -> st_locked s' = st_locked s -> stable s s'.
Proof.
  intros B U B' P H1 H2 H3 [a|i] v R C; unfold resolve, committed in *; rewrite ?H1, ?H2, ?H3, ?B, ?B' in *; [auto|].
  rewrite P. rewrite U, andb_false_r, orb_false_r in C. pose proof C as C'. apply Nat.ltb_lt in C'.
  rewrite nth_rev_cons in R by exact C'. rewrite nth_rev_cons by (rewrite ?P; exact C'). rewrite C. auto.
Qed.

Lemma resolve_sorted s ref v : Inv s -> resolve s ref = Some v -> vs_sorted v.
Proof.
  intros I R. destruct ref as [a|i]; unfold resolve in R.
  - apply nth_error_In in R. rewrite <- in_rev in R. destruct R as [<- | R].
    + eapply minv_sorted. apply (j_mem s I).
    + pose proof (j_parents s I) as F. rewrite Forall_forall in F. auto.
  - destruct (st_branch s) as [b|] eqn:B; [|discriminate].
    destruct (j_branch s I b B) as [Hh Hp]. apply nth_error_In in R. rewrite <- in_rev in R. destruct R as [<- | R]; [exact Hh|].
    rewrite Forall_forall in Hp. auto.
Qed.

Lemma putData_inv s key body vd user conds replace t s' :
  Inv s -> putData repaired s key body vd user conds replace t = Ok s' -> Inv s'.
Proof.
  intros I. unfold putData. destruct (st_locked s) eqn:U; [discriminate|].
  destruct (put repaired (Some (st_mem s)) (st_head s) (schema_in_force s) key body vd user conds replace t)
    as [[om st']| |] eqn:E; try discriminate.
  destruct (put_some _ _ _ _ _ _ _ _ _ _ _ _ (j_mem s I) E) as (m' & -> & M & Me).
  intro H; apply Ok_inj in H; subst s'. destruct I as [J1 J2 J3 J4 J5 J6 J7].
  constructor; try (cbn; assumption).
  - cbn. intros k Hk. rewrite Me. auto.
  - cbn. intros b Hb. rewrite Me. auto.
  - apply (static_stable s); [apply stable_master_head; auto | reflexivity | exact J7].
Qed.

Lemma putKVs_inv items user conds replace : forall s,
  Inv s -> Inv (fst (putKVs repaired s items user conds replace)).
Proof.
  induction items as [|it r IH]; intros s I; simpl; [exact I|].
  destruct (putData repaired s (kv_key it) (kv_body it) (kv_vd it) user conds replace (kv_time it)) eqn:E; simpl; try exact I.
  apply IH. eapply putData_inv; eauto.
Qed.

Lemma deleteData_inv s id s' : Inv s -> deleteData repaired s id = Ok s' -> Inv s'.
Proof.
  intros I. unfold deleteData. destruct (st_locked s) eqn:U; [discriminate|].
  destruct (mem_del repaired (st_mem s) id) as [m| |] eqn:E; cbn [res_bind]; try discriminate.
  intro H; apply Ok_inj in H; subst s'. pose proof (mem_del_minv _ _ _ _ (j_mem s I) E) as M.
  destruct I as [J1 J2 J3 J4 J5 J6 J7]. constructor; try (cbn; assumption).
  apply (static_stable s); [apply stable_master_head; auto | reflexivity | exact J7].
Qed.

Lemma static_build_spec (P : vref -> memdb -> Prop) (f : vref -> option memdb) l :
  (forall ref m, f ref = Some m -> P ref m) ->
  forall ref m, static_get ref (fold_right (fun r acc => match f r with Some m => (r, m) :: acc | None => acc end) [] l) = Some m ->
  P ref m.
Proof.
  intros H. induction l as [|x r IH]; intros ref m G; simpl in G; [discriminate|].
  destruct (f x) as [mx|] eqn:E; [|auto].
  unfold static_get in G. simpl in G. destruct (vref_eqb ref x) eqn:Q.
  - apply vref_eqb_eq in Q. subst x. inversion G; subst. auto.
  - apply IH. exact G.
Qed.

Lemma reload_inv s : Inv s -> Inv (reload repaired s).
Proof.
  intros I. pose proof I as [J1 J2 J3 J4 J5 J6 J7].
  unfold reload. cbn [v_binit v_ftime repaired andb]. constructor; cbn [st_mem st_mmeta st_compiled st_head st_parents st_locked st_branch st_bmem st_static].
  - apply loadMemDB_minv. eapply minv_sorted; eauto.
  - intros k Hk. now apply load_meta_get.
  - auto.
  - exact J4.
  - exact J5.
  - intros m Hm. destruct (cfg_branch (st_cfg s)); [|discriminate].
    destruct (st_branch s) as [b|] eqn:B; [|discriminate]. inversion Hm; subst.
    exists b. split; [reflexivity|]. apply loadMemDB_minv. now destruct (J5 b eq_refl).
  - apply (static_build_spec (fun ref m => exists v, resolve (reload repaired s) ref = Some v /\ committed (reload repaired s) ref = true /\ MInv m (s_data v))).
    intros ref m Hm. unfold static_entry in Hm. cbn [v_binit repaired andb] in Hm.
    destruct (resolve s ref) as [v|] eqn:R; [|discriminate].
    destruct (committed s ref) eqn:C; [|discriminate]. inversion Hm; subst.
    exists v. split; [exact R|]. split; [exact C|]. unfold load_static. cbn [v_ftime repaired].
    apply loadMemDB_minv. eapply resolve_sorted; eauto.
Qed.

Lemma rres_equiv_refl r : rres_equiv r r.
Proof. destruct r; constructor; auto. Qed.

Lemma recs_of_ids d : nsorted d ->
  map (fun id => (id, match nget id d with Some o => o | None => [] end)) (map fst d) = d.
Proof.
  intro S. rewrite map_map. rewrite <- (map_id d) at 2. apply map_ext_in.
  intros [k v] H. simpl. pose proof (nget_in_sorted d S (k, v) H) as E. simpl in E. now rewrite E.
Qed.

Lemma get_kvs_sub d l fm sh : nsorted d -> incl l d ->
  get_kvs d (map fst l) fm sh = map (fun p => (fst p, selectFields (snd p) fm sh)) l.
Proof.
  intros S. induction l as [|p r IH]; intro Hin; simpl; [reflexivity|].
  unfold get_obj at 1. rewrite (nget_in_sorted d S p) by (apply Hin; now left). simpl.
  rewrite IH; [reflexivity|]. intros x Hx. apply Hin. now right.
Qed.

Lemma filter_map_fst {A B} (f : A -> bool) (l : list (A * B)) :
  filter f (map fst l) = map fst (filter (fun p => f (fst p)) l).
Proof. induction l as [|[a b] r IH]; simpl; [reflexivity|]. destruct (f a); simpl; now rewrite IH. Qed.

Lemma names_pos (l : fcounts) : Forall (fun p => (0 < snd p)%Z) l ->
  map (fun p : bytes * Z => if (0 <? snd p)%Z then fst p else []) l = map fst l.
Proof.
  induction 1 as [|p r Hp _ IH]; simpl; [reflexivity|].
  replace (0 <? snd p)%Z with true by (symmetry; now apply Z.ltb_lt). now rewrite IH.
Qed.
Lemma allpos_forall (m : fcounts) : NoDup (map fst m) -> allpos m -> Forall (fun p => (0 < snd p)%Z) m.
Proof.
  intros ND H. apply Forall_forall. intros [k c] Hin. simpl. apply (H k).
  now apply (in_aget_nodup bytes_eqb bytes_eqb_eq').
Qed.
Lemma in_keys_aget (m : fcounts) f : In f (map fst m) <-> @aget bytes Z bytes_eqb f m <> None.
Proof.
  pose proof (aget_None_notin bytes_eqb bytes_eqb_eq' f m) as H.
  destruct (aget bytes_eqb f m) eqn:E.
  - split; [discriminate|]. intros _. apply (aget_Some_in bytes_eqb bytes_eqb_eq') in E. now apply (in_map fst) in E.
  - split; [intro X; apply H in X; [contradiction|reflexivity] | congruence].
Qed.

Lemma nodup_filter_keys {A B} (f : A * B -> bool) (l : list (A * B)) : NoDup (map fst l) -> NoDup (map fst (filter f l)).
Proof.
  induction l as [|p r IH]; simpl; intro ND; [constructor|]. inversion ND; subst.
  destruct (f p); simpl; [constructor|]; auto.
  intro H. apply H1. clear - H. induction r as [|q r IH]; simpl in *; [contradiction|].
  destruct (f q); simpl in *; intuition.
Qed.

(* requests on the head of the second branch *)
Lemma step_branch_inv s o : Inv s -> Inv (fst (step_branch repaired s o)).
Proof.
  intro I. unfold step_branch. destruct (st_branch s) as [b|] eqn:B; [|exact I].
  pose proof I as [J1 J2 J3 J4 J5 J6 J7]. destruct (J5 b B) as [Sh Sp].
  destruct o; try exact I.
  - (* POST key *)
    destruct (b_locked b) eqn:U; [exact I|].
    destruct (put repaired (st_bmem s) (b_head b) (mget k_json_schema (s_meta (b_head b))) key body vd user conds replace timeStr)
      as [[bm st']| |] eqn:E; try exact I.
    cbn [fst].
    assert (St : stable s (with_branch s (Some (mkB st' (b_parents b) false)) bm))
      by (apply (stable_branch_head s _ b (mkB st' (b_parents b) false)); [exact B | exact U | reflexivity..]).
    destruct (st_bmem s) as [m|] eqn:BM.
    + destruct (J6 m eq_refl) as (b0 & B0 & M). rewrite B in B0. inversion B0; subst b0.
      destruct (put_some _ _ _ _ _ _ _ _ _ _ _ _ M E) as (m' & -> & M' & Me).
      constructor; try (cbn; assumption).
      * cbn. intros b1 Hb. inversion Hb; subst. cbn. split; [eapply minv_sorted; eauto | exact Sp].
      * cbn. intros m1 Hm. inversion Hm; subst. eexists. split; [reflexivity | exact M'].
      * apply (static_stable s); [exact St | reflexivity | exact J7].
    + destruct (put_none _ _ _ _ _ _ _ _ _ _ _ Sh E) as (-> & S' & Me).
      constructor; try (cbn; assumption).
      * cbn. intros b1 Hb. inversion Hb; subst. cbn. split; assumption.
      * cbn. discriminate.
      * apply (static_stable s); [exact St | reflexivity | exact J7].
  - (* DELETE key *)
    destruct (b_locked b) eqn:U; [exact I|].
    destruct (st_bmem s) as [m|] eqn:BM.
    + destruct (J6 m eq_refl) as (b0 & B0 & M). rewrite B in B0. inversion B0; subst b0.
      destruct (mem_del repaired m key) as [m'| |] eqn:E; try exact I. cbn [fst].
      pose proof (mem_del_minv _ _ _ _ M E) as M'.
      constructor; try (cbn; assumption).
      * cbn. intros b1 Hb. inversion Hb; subst. cbn. split; [eapply minv_sorted; eauto | exact Sp].
      * cbn. intros m1 Hm. inversion Hm; subst. eexists. split; [reflexivity | exact M'].
      * apply (static_stable s); [eapply (stable_branch_head s _ b); [exact B | exact U | reflexivity..] | reflexivity | exact J7].
    + cbn [fst]. constructor; try (cbn; assumption).
      * cbn. intros b1 Hb. inversion Hb; subst. cbn. split; [now apply ndel_sorted | exact Sp].
      * cbn. discriminate.
      * apply (static_stable s); [eapply (stable_branch_head s _ b); [exact B | exact U | reflexivity..] | reflexivity | exact J7].
  - (* POST schema *)
    destruct (b_locked b || (3 <=? kind)) eqn:U; [exact I|]. apply orb_false_elim in U as [U _]. cbn [fst].
    constructor; try (cbn; assumption).
    + cbn. intros b1 Hb. inversion Hb; subst. cbn. split; assumption.
    + cbn. intros m Hm. destruct (J6 m Hm) as (b0 & B0 & M). rewrite B in B0. inversion B0; subst b0.
      eexists. split; [reflexivity | exact M].
    + apply (static_stable s); [eapply (stable_branch_head s _ b); [exact B | exact U | reflexivity..] | reflexivity | exact J7].
  - (* DELETE schema *)
    destruct (b_locked b || (3 <=? kind)) eqn:U; [exact I|]. apply orb_false_elim in U as [U _]. cbn [fst].
    constructor; try (cbn; assumption).
    + cbn. intros b1 Hb. inversion Hb; subst. cbn. split; assumption.
    + cbn. intros m Hm. destruct (J6 m Hm) as (b0 & B0 & M). rewrite B in B0. inversion B0; subst b0.
      eexists. split; [reflexivity | exact M].
    + apply (static_stable s); [eapply (stable_branch_head s _ b); [exact B | exact U | reflexivity..] | reflexivity | exact J7].
  - (* commit *)
    destruct (b_locked b) eqn:U; [exact I|]. cbn [fst].
    constructor; try (cbn; assumption).
    + cbn. intros b1 Hb. inversion Hb; subst. cbn. split; assumption.
    + cbn. intros m Hm. destruct (J6 m Hm) as (b0 & B0 & M). rewrite B in B0. inversion B0; subst b0.
      eexists. split; [reflexivity | exact M].
    + apply (static_stable s); [|reflexivity | exact J7].
      intros [a|i] v R C; unfold resolve, committed in *;
        cbn [with_branch st_branch st_head st_parents st_locked]; [auto|].
      rewrite B in *. cbn [b_head b_parents b_locked]. split; [exact R|].
      rewrite U, andb_false_r, orb_false_r in C. rewrite C. reflexivity.
  - (* newversion *)
    destruct (b_locked b) eqn:U; [|exact I]. cbn [fst].
    constructor; try (cbn; assumption).
    + cbn. intros b1 Hb. inversion Hb; subst. cbn. split; [assumption | now constructor].
    + cbn. intros m Hm. destruct (J6 m Hm) as (b0 & B0 & M). rewrite B in B0. inversion B0; subst b0.
      eexists. split; [reflexivity | exact M].
    + apply (static_stable s); [|reflexivity | exact J7].
      intros [a|i] v R C; unfold resolve, committed in *;
        cbn [with_branch st_branch st_head st_parents st_locked]; [auto|]. rewrite B in *. cbn [b_head b_parents b_locked length].
      pose proof (nth_rev_some_lt _ _ _ R) as L. cbn [length] in L.
      split.
      * now apply nth_rev_grow.
      * replace (i <? S (length (b_parents b)))%nat with true by (symmetry; apply Nat.ltb_lt; lia). reflexivity.
Qed.

Lemma step_inv s o : Inv s -> Inv (fst (step repaired s o)).
Proof.
  intro I. destruct o; cbn [step head_static v_binit repaired].
  - destruct (putData repaired s key body vd user conds replace timeStr) eqn:E; simpl; try exact I.
    eapply putData_inv; eauto.
  - destruct (st_locked s); [exact I|]. now apply putKVs_inv.
  - destruct (deleteData repaired s key) eqn:E; simpl; try exact I. eapply deleteData_inv; eauto.
  - destruct (st_locked s || (3 <=? kind)) eqn:U; [exact I|]. apply orb_false_elim in U as [U _].
    destruct I as [J1 J2 J3 J4 J5 J6 J7]. cbn [fst].
    constructor; try (cbn; assumption).
    + cbn. intros k Hk. rewrite !mget_mset, J2 by exact Hk. reflexivity.
    + cbn. intros b. rewrite mget_mset. destruct (kind =? k_json_schema) eqn:E.
      * apply N.eqb_eq in E. subst kind. rewrite N.eqb_refl. auto.
      * rewrite N.eqb_sym, E. apply J3.
    + apply (static_stable s); [apply stable_master_head; auto | reflexivity | exact J7].
  - destruct (st_locked s || (3 <=? kind)) eqn:U; [exact I|]. apply orb_false_elim in U as [U _].
    destruct I as [J1 J2 J3 J4 J5 J6 J7]. cbn [fst].
    constructor; try (cbn; assumption).
    + cbn. intros k Hk. rewrite !mget_mdel, J2 by exact Hk. reflexivity.
    + cbn. intros b. rewrite mget_mdel, andb_true_r. destruct (kind =? k_json_schema) eqn:E; [discriminate|].
      rewrite N.eqb_sym, E. apply J3.
    + apply (static_stable s); [apply stable_master_head; auto | reflexivity | exact J7].
  - (* commit *)
    destruct (st_locked s) eqn:U; [exact I|]. destruct I as [J1 J2 J3 J4 J5 J6 J7]. cbn [fst].
    constructor; try (cbn; assumption).
    apply (static_stable s); [|reflexivity | exact J7].
    intros [a|i] v R C; unfold resolve, committed in *;
      cbn [with_master st_branch st_head st_parents st_locked]; [|auto]. split; [exact R|].
    rewrite U, andb_false_r, orb_false_r in C. rewrite C. reflexivity.
  - (* newversion *)
    destruct (st_locked s) eqn:U; [|exact I]. pose proof I as [J1 J2 J3 J4 J5 J6 J7]. cbn [fst].
    constructor; try (cbn; assumption).
    + cbn. constructor; [eapply minv_sorted; eauto | exact J4].
    + apply (static_stable s); [|reflexivity | exact J7].
      intros [a|i] v R C; unfold resolve, committed in *; cbn [with_master st_head st_parents st_locked st_branch length]; [|auto].
      pose proof (nth_rev_some_lt _ _ _ R) as L. cbn [length] in L.
      split.
      * now apply nth_rev_grow.
      * replace (a <? S (length (st_parents s)))%nat with true by (symmetry; apply Nat.ltb_lt; lia). reflexivity.
  - now apply reload_inv.
  - (* branch creation *)
    destruct (st_branch s) as [b|] eqn:B; [exact I|].
    destruct (resolve s (VM from)) as [v|] eqn:R; [|exact I].
    destruct (committed s (VM from)) eqn:C; [|exact I]. cbn [fst].
    pose proof (resolve_sorted _ _ _ I R) as Sv. destruct I as [J1 J2 J3 J4 J5 J6 J7].
    constructor; try (cbn; assumption).
    + cbn. intros b1 Hb. inversion Hb; subst. cbn. split; [exact Sv | constructor].
    + cbn. intros m Hm. destruct (J6 m Hm) as (b0 & B0 & _). congruence.
    + apply (static_stable s); [|reflexivity | exact J7].
      intros [a|i] v0 R0 C0; unfold resolve, committed in *;
        cbn [with_branch st_branch st_head st_parents st_locked]; [auto|]. rewrite B in R0. discriminate.
  - now apply step_branch_inv.
  - destruct I as [J1 J2 J3 J4 J5 J6 J7]. cbn [fst]. constructor; cbn; assumption.
Qed.

Lemma run_inv h : forall s s', Inv s -> run repaired s h = Ok s' -> Inv s'.
Proof.
  induction h as [|o r IH]; intros s s' I; simpl.
  - intro H; apply Ok_inj in H; now subst.
  - pose proof (step_inv s o I) as I'. destruct (step repaired s o) as [s1 [[]| |]]; simpl in I'; try discriminate; eauto.
Qed.

(* ---------- both read paths ---------- *)

Section Reads.
Variable rx : bytes -> option (bytes -> bool).

(* a memdb mirroring a version answers every annotation request like the store of that version *)
Lemma read_memdb_eq m v : MInv m (s_data v) -> forall r, is_meta_req r = false ->
  rres_equiv (read_memdb rx repaired m r) (read_store rx repaired v r).
Proof.
  intros [I1 I2 I3 I4 I5 I7] r Hr.
  assert (Hrecs := recs_of_ids _ I2).
  destruct r; try discriminate;
    cbn [read_memdb read_store pos_counts v_zero v_sel v_range v_ftime repaired store_sel];
    rewrite <- ?I1, ?I3.
  - apply rres_equiv_refl.
  - apply rres_equiv_refl.
  - apply rres_equiv_refl.
  - (* fields *)
    assert (P1 : Forall (fun p => (0 < snd p)%Z) (filter posf (m_fields m))).
    { apply Forall_forall. intros p Hp. apply filter_In in Hp. unfold posf in Hp. now apply Z.ltb_lt. }
    assert (ND2 : NoDup (map fst (scan_counts (m_data m)))) by (rewrite scan_counts_from; apply nodup_scan_from; constructor).
    assert (P2 := allpos_forall _ ND2 (allpos_scan _ [] allpos_nil)).
    change (fun p : bytes * Z => (0 <? snd p)%Z) with posf.
    match goal with |- rres_equiv (XNames ?a) (XNames ?b) =>
      replace a with (map fst (filter posf (m_fields m))) by (symmetry; exact (names_pos _ P1));
      replace b with (map fst (scan_counts (m_data m))) by (symmetry; exact (names_pos _ P2)) end.
    constructor.
    apply NoDup_Permutation; [now apply nodup_filter_keys | exact ND2 |].
    intro f. rewrite !in_keys_aget, aget_filter_pos, aget_scan, I4 by exact I5. tauto.
  - (* counters *)
    constructor. intro f. change (fun p : bytes * Z => (0 <? snd p)%Z) with posf.
    now rewrite aget_filter_pos, aget_scan, I4.
  - (* keyrange *)
    destruct (parseKeyStr a), (parseKeyStr b); try apply rres_equiv_refl.
    rewrite (mem_range_sorted _ n n0 I2). cbn [lift_res]. apply rres_equiv_refl.
  - (* keyrangevalues *)
    destruct (parseKeyStr a), (parseKeyStr b); try apply rres_equiv_refl.
    rewrite (mem_range_sorted _ n n0 I2). cbn [lift_res].
    unfold in_range. rewrite (filter_map_fst (fun x => (n <=? x) && (x <=? n0))).
    rewrite get_kvs_sub; [apply rres_equiv_refl | exact I2 |].
    intros x Hx. now apply filter_In in Hx.
  - apply rres_equiv_refl.
  - (* query *)
    destruct ql; [apply rres_equiv_refl|]. destruct (just_bodyids (q :: ql)); [apply rres_equiv_refl|].
    rewrite Hrecs. apply rres_equiv_refl.
  - (* fieldtimes *)
    cbn [andb]. destruct (m_ftdirty m) eqn:D; [|rewrite (I7 eq_refl)]; apply rres_equiv_refl.
  - apply rres_equiv_refl.
Qed.

Lemma read_eq s : Inv s -> forall r,
  rres_equiv (read_mem rx repaired s r) (read_store rx repaired (st_head s) r).
Proof.
  intros I r. destruct (is_meta_req r) eqn:Hr.
  - destruct I as [J1 J2 J3 _ _ _ _]. destruct r; try discriminate; cbn [read_mem read_store].
    + destruct (3 <=? kind) eqn:E; [apply rres_equiv_refl|]. apply N.leb_gt in E. rewrite J2 by exact E. apply rres_equiv_refl.
    + destruct (3 <=? kind) eqn:E; [apply rres_equiv_refl|]. apply N.leb_gt in E. rewrite J2 by exact E. apply rres_equiv_refl.
    + unfold schema_in_force. destruct (st_compiled s) as [b|] eqn:C; [rewrite (J3 b eq_refl)|]; apply rres_equiv_refl.
  - replace (read_mem rx repaired s r) with (read_memdb rx repaired (st_mem s) r) by (destruct r; try discriminate; reflexivity).
    apply read_memdb_eq; [apply (j_mem s I) | exact Hr].
Qed.

(* C16 mem_eq_store *)
Theorem mem_eq_store h s : run repaired init_state h = Ok s ->
  forall r,
    rres_equiv (read_mem rx repaired s r) (read_store rx repaired (st_head s) r)
    /\ st_head (reload repaired s) = st_head s
    /\ rres_equiv (read_mem rx repaired (reload repaired s) r) (read_store rx repaired (st_head s) r).
Proof.
  intros R r. pose proof (run_inv h _ _ inv_init R) as I. split; [now apply read_eq|].
  split; [reflexivity|]. apply (read_eq (reload repaired s)). now apply reload_inv.
Qed.

(* every version, whichever db serves it (the HEAD db of master or of the second branch, a
   read-only UUID db, or none), answers like its store *)
Theorem refs_eq_store h s : run repaired init_state h = Ok s ->
  forall ref v r, resolve s ref = Some v ->
    exists x, read_ref rx repaired s ref r = Some x /\ rres_equiv x (read_store rx repaired v r).
Proof.
  intros R ref v r Rv. pose proof (run_inv h _ _ inv_init R) as I.
  unfold read_ref. rewrite Rv. eexists. split; [reflexivity|].
  assert (MH : is_master_head s ref = true -> v = st_head s).
  { destruct ref as [a|i]; simpl; [|discriminate]. intro E. apply Nat.eqb_eq in E. subst a.
    unfold resolve in Rv. rewrite nth_rev_head in Rv. congruence. }
  destruct (is_meta_req r) eqn:Hr.
  - destruct (is_master_head s ref && negb (st_locked s)) eqn:E; [|apply rres_equiv_refl].
    apply andb_prop in E as [E _]. rewrite (MH E). now apply read_eq.
  - destruct (static_get ref (st_static s)) as [m|] eqn:G.
    + destruct (j_static s I ref m G) as (v' & R' & _ & M). rewrite Rv in R'. inversion R'; subst v'.
      now apply read_memdb_eq.
    + destruct (is_master_head s ref) eqn:E.
      * rewrite (MH eq_refl). apply read_memdb_eq; [apply (j_mem s I) | exact Hr].
      * destruct (is_branch_head s ref) eqn:B; [|apply rres_equiv_refl].
        destruct (st_bmem s) as [m|] eqn:BM; [|apply rres_equiv_refl].
        destruct (j_bmem s I m BM) as (b & Bb & M).
        assert (v = b_head b).
        { destruct ref as [a|i]; simpl in B; [discriminate|]. rewrite Bb in B. apply Nat.eqb_eq in B. subst i.
          unfold resolve in Rv. rewrite Bb, nth_rev_head in Rv. congruence. }
        subst v. now apply read_memdb_eq.
Qed.

(* the driver's comparison: after commit + newversion the parent is read through the store path,
   the child through the memory path, and both answer like the head did before *)
Theorem parent_child_agree h s s2 : run repaired init_state h = Ok s -> st_locked s = false ->
  run repaired s [OpCommit; OpNewVersion] = Ok s2 ->
  forall r, exists p c,
    read_version rx repaired s2 1 r = Some p /\ read_version rx repaired s2 0 r = Some c /\
    rres_equiv c p /\ p = read_store rx repaired (st_head s) r.
Proof.
  intros R U R2 r. pose proof (run_inv h _ _ inv_init R) as I.
  simpl in R2. rewrite U in R2. simpl in R2. apply Ok_inj in R2. subst s2.
  eexists; eexists. cbn [read_version nth_error st_parents option_map st_locked with_master].
  split; [reflexivity|]. split; [reflexivity|]. split; [|reflexivity].
  rewrite andb_false_r. pose proof (read_eq s I r) as E. destruct r; exact E.
Qed.
End Reads.

(* ---------- each repair is needed: witnesses on the model of the code as shipped ---------- *)
Definition no_rx : bytes -> option (bytes -> bool) := fun _ => None.
Definition fa : bytes := [97].   (* "a" *)
Definition fb : bytes := [98].   (* "b" *)
Definition u1 : bytes := [117; 49].
Definition u2 : bytes := [117; 50].
Definition t0 : bytes := [84].
Definition post_a (id : N) (v : json) (u : bytes) : op :=
  OpPost id [(s_bodyid, JNum (Z.of_N id)); (fa, v)] [] u [[]] false t0.
Definition post_b (id : N) (v : json) (u : bytes) : op :=
  OpPost id [(s_bodyid, JNum (Z.of_N id)); (fb, v)] [] u [[]] false t0.

Fixpoint nlist_eqb (a b : list N) : bool :=
  match a, b with [], [] => true | x :: a', y :: b' => (x =? y) && nlist_eqb a' b' | _, _ => false end.

(* mem and store answers of variant V after history h *)
Definition both (V : variant) (h : list op) (r : rreq) : option (rres * rres) :=
  match run V init_state h with
  | Ok s => Some (read_mem no_rx V s r, read_store no_rx V (st_head s) r)
  | _ => None
  end.

(* (a) deleteBodyID: ids 10..80, DELETE 10, 30, 80, 50 — and already POST 10, POST 20, DELETE 10 *)
Definition h_delete8 : list op :=
  map (fun id => post_a id (JNum 1) u1) [10; 20; 30; 40; 50; 60; 70; 80] ++ map OpDelete [10; 30; 80; 50].
Definition h_delete2 : list op := [post_a 10 (JNum 1) u1; post_a 20 (JNum 1) u1; OpDelete 10].

Lemma shipped_delete_refuted :
  both shipped h_delete8 RKeys = Some (XIds [10; 20; 30; 40; 50; 60; 70], XIds [20; 40; 60; 70])
  /\ both shipped h_delete2 RKeys = Some (XIds [10; 20], XIds [20])
  /\ both shipped h_delete2 (RKeyRange [49] [57; 57]) = Some (XIds [10; 20], XIds [20]).
Proof. vm_compute. repeat split. Qed.
Lemma only_delete_unrepaired_refuted :
  both (mkVar false true true true true true true true true) h_delete2 RKeys = Some (XIds [10; 20], XIds [20]).
Proof. vm_compute. reflexivity. Qed.

(* (b) POST {"a":1} then POST {"a":null}: the counter of "a" stays at 1 in memory *)
Definition h_null : list op := [post_a 10 (JNum 1) u1; post_a 10 JNull u2].
Definition cnt_of (f : bytes) (r : rres) : option Z :=
  match r with XCounts l => @aget bytes Z bytes_eqb f l | _ => None end.
Lemma shipped_counter_refuted :
  option_map (fun p => (cnt_of fa (fst p), cnt_of fa (snd p))) (both shipped h_null RFieldCounts) = Some (Some 1%Z, None)
  /\ option_map (fun p => (cnt_of fa (fst p), cnt_of fa (snd p))) (both (mkVar true false true true true true true true true) h_null RFieldCounts) = Some (Some 1%Z, None).
Proof. vm_compute. split; reflexivity. Qed.

(* (e) POST 10 {"a":1}, POST 20 {"b":1}, DELETE 10: "a" is reported with count 0, fields lists "" *)
Definition h_zero : list op := [post_a 10 (JNum 1) u1; post_b 20 (JNum 1) u1; OpDelete 10].
Lemma zero_counter_refuted :
  let V := mkVar true true false true true true true true true in
  option_map (fun p => (cnt_of fa (fst p), cnt_of fa (snd p))) (both V h_zero RFieldCounts) = Some (Some 0%Z, None)
  /\ exists l l', both V h_zero RFields = Some (XNames l, XNames l') /\ In [] l /\ ~ In [] l'.
Proof.
  split; [vm_compute; reflexivity|]. eexists; eexists. split; [vm_compute; reflexivity|].
  split; [simpl; tauto|]. simpl. intuition discriminate.
Qed.

(* (d) query?fields=b and keyrangevalues?fields=a_user on the store path *)
Definition h_two : list op := [post_a 10 (JNum 1) u1; post_b 10 (JNum 2) u2].
Lemma store_select_refuted :
  let V := mkVar true true true false true true true true true in
  both V h_two (RQuery [[(fa, JNum 1)]] false [fb] (mkShow false false))
    = Some (XObjs [[(s_bodyid, JNum 10); (fb, JNum 2)]],
            XObjs [[(s_bodyid, JNum 10); (fb, JNum 2); (fa, JNum 1)]])
  /\ both V h_two (RKeyRangeValues [48] [97] [fuser fa] (mkShow false false) 0)
    = Some (XKVs [(10, [(s_bodyid, JNum 10); (fuser fa, JStr u1)])], XKVs [(10, [(s_bodyid, JNum 10)])]).
Proof. vm_compute. split; reflexivity. Qed.

(* (c) ids 5, 10, 100: keyrange/1/15 and keyrangevalues/1/15 *)
Definition h_digits : list op := [post_a 5 (JNum 1) u1; post_a 10 (JNum 1) u1; post_a 100 (JNum 1) u1].
Definition kv_ids (r : rres) : list N := match r with XKVs l => map fst l | XIds l => l | _ => [] end.
Lemma store_range_refuted :
  let V := mkVar true true true true false true true true true in
  option_map (fun p => (kv_ids (fst p), kv_ids (snd p))) (both V h_digits (RKeyRange [49] [49; 53])) = Some ([5; 10], [10])
  /\ option_map (fun p => (kv_ids (fst p), kv_ids (snd p)))
       (both V h_digits (RKeyRangeValues [49] [49; 53] [] (mkShow false false) 0)) = Some ([5; 10], [10; 100]).
Proof. vm_compute. split; reflexivity. Qed.

(* (i) POST json_schema, commit, restart, newversion: GET json_schema on the child *)
Definition h_schema : list op := [OpMetaPost 0 [123; 125]; OpCommit; OpReload; OpNewVersion].
Lemma meta_reload_refuted :
  both (mkVar true true true true true false true true true) h_schema (RMeta 0) = Some (XBytes None, XBytes (Some [123; 125])).
Proof. vm_compute. reflexivity. Qed.

(* (f) fieldtimes: POST 10 {a, a_time 2020}, POST 20 {a, a_time 2022}, POST 10 {b}: the head says
   2020, the head after a restart 2022; committed versions have no fieldtimes at all *)
Definition y2020 : bytes := [50; 48; 50; 48].
Definition y2022 : bytes := [50; 48; 50; 50].
Definition h_ftimes : list op :=
  [OpPost 10 [(s_bodyid, JNum 10); (fa, JNum 1); (ftime fa, JStr y2020)] [] u1 [[]] false t0;
   OpPost 20 [(s_bodyid, JNum 20); (fa, JNum 1); (ftime fa, JStr y2022)] [] u1 [[]] false t0;
   post_b 10 (JNum 1) u2].
Definition time_of (f : bytes) (r : rres) : option bytes :=
  match r with XTimes l => @aget bytes bytes bytes_eqb f l | _ => None end.
Lemma fieldtimes_refuted :
  match run interim init_state h_ftimes with
  | Ok s => (time_of fa (read_mem no_rx interim s RFieldTimes),
             time_of fa (read_mem no_rx interim (reload interim s) RFieldTimes),
             read_store no_rx interim (st_head s) RFieldTimes)
  | _ => (None, None, XPanic)
  end = (Some y2020, Some y2022, XErr).
Proof. vm_compute. reflexivity. Qed.

(* (h) POST json_schema, DELETE json_schema: the deleted schema stays in force on the head *)
Definition h_schdel : list op := [OpMetaPost 0 [123; 125]; OpMetaDelete 0].
Lemma schema_delete_refuted :
  both interim h_schdel RSchemaInForce = Some (XBytes (Some [123; 125]), XBytes None).
Proof. vm_compute. reflexivity. Qed.

(* (m) "inmemory" names branch b before it exists: the branch created afterwards is served from
   the empty db registered under its name *)
Definition h_bcfg : list op :=
  [post_a 10 (JNum 1) u1; OpCommit; OpSetConfig (mkCfg true []); OpReload; OpBranch 0].
(* (n) "inmemory" names the open head of master: its updates bypass the HEAD db of master *)
Definition h_static_open : list op :=
  [post_a 10 (JNum 1) u1; OpSetConfig (mkCfg false [VM 0]); OpReload; post_a 20 (JNum 1) u1; OpCommit; OpNewVersion].
Definition ref_both (V : variant) (h : list op) (ref : vref) (r : rreq) : option (option rres * option rres) :=
  match run V init_state h with
  | Ok s => Some (read_ref no_rx V s ref r, option_map (fun v => read_store no_rx V v r) (resolve s ref))
  | _ => None
  end.
Lemma init_registration_refuted :
  ref_both interim h_bcfg (VB 0) RKeys = Some (Some (XIds []), Some (XIds [10]))
  /\ ref_both interim h_static_open (VM 1) RKeys = Some (Some (XIds [10]), Some (XIds [10; 20]))
  /\ ref_both repaired h_bcfg (VB 0) RKeys = Some (Some (XIds [10]), Some (XIds [10]))
  /\ ref_both repaired h_static_open (VM 1) RKeys = Some (Some (XIds [10; 20]), Some (XIds [10; 20])).
Proof. vm_compute. repeat split. Qed.

(* a non-string *_time value is rejected (since the C20 repair; it used to panic with the memdb
   mutex held) *)
Lemma nonstring_time_rejected s :
  step repaired s (OpPost 1 [(s_bodyid, JNum 1); (ftime fa, JNum 5)] [] u1 [[]] false t0) = (s, Err).
Proof.
  cbn [step head_static v_binit repaired]. unfold putData. destruct (st_locked s); [reflexivity|].
  unfold put. destruct (schema_in_force s); reflexivity.
Qed.

(* non-vacuity of mem_eq_store: a history with every kind of request that runs to completion *)
Definition h_sample : list op :=
  [post_a 10 (JNum 1) u1; post_b 10 (JStr [120]) u2; post_a 7 (JArr [JNum 1; JNum 2]) u1;
   OpPostKVs [mkKV 100 [(s_bodyid, JNum 100); (fa, JNull)] [] t0; mkKV 5 [(s_bodyid, JNum 5)] [] t0] u2 [fa] true;
   OpMetaPost 1 [49]; OpDelete 7; OpCommit; OpPost 3 [(s_bodyid, JNum 3)] [] u1 [[]] false t0;
   OpNewVersion; OpReload; post_a 10 JNull u2; OpMetaDelete 1; OpDelete 100;
   OpBranch 0; OpOnBranch (post_b 9 (JNum 4) u1); OpSetConfig (mkCfg true [VM 0]); OpReload;
   OpOnBranch (OpDelete 10); OpOnBranch OpCommit; OpOnBranch OpNewVersion].
Lemma sample_runs : exists s, run repaired init_state h_sample = Ok s /\ map fst (m_data (st_mem s)) = [5; 10]
                              /\ length (st_parents s) = 1%nat
                              /\ option_map (fun m => map fst (m_data m)) (st_bmem s) = Some [5; 9; 100]
                              /\ map fst (st_static s) = [VM 0].
Proof. eexists. vm_compute. repeat split. Qed.
