(* Proofs.NJ: the in-memory head of the repaired code answers like the store (invariant over all
   histories), and the witnesses showing that each repair is needed. *)
From DV Require Import Base.Prelude Model.NJ Proofs.NJBase Gen.Consts.
From Coq Require Import Sorted Permutation.
From Coq Require Import ZifyN ZifyNat ZifyBool.
Local Open Scope N_scope.

Lemma bytes_eqb_eq' : forall a b : bytes, bytes_eqb a b = true <-> a = b.
Proof. exact bytes_eqb_eq. Qed.

(* ---------- field counters ---------- *)
Fixpoint occ (f : bytes) (l : list bytes) : Z :=
  match l with [] => 0%Z | x :: r => ((if bytes_eqb f x then 1 else 0) + occ f r)%Z end.
Fixpoint tot (f : bytes) (d : ndata) : Z :=
  match d with [] => 0%Z | p :: r => (occ f (dom (snd p)) + tot f r)%Z end.

Lemma occ_nonneg f l : (0 <= occ f l)%Z.
Proof. induction l as [|x r IH]; simpl; [lia|]. destruct (bytes_eqb f x); lia. Qed.
Lemma tot_nonneg f d : (0 <= tot f d)%Z.
Proof. induction d as [|p r IH]; simpl; [lia|]. pose proof (occ_nonneg f (dom (snd p))). lia. Qed.

Lemma cget_cadd f c m g : cget f (cadd c m g) = if bytes_eqb f g then (cget f m + c)%Z else cget f m.
Proof.
  unfold cadd, cget. destruct (bytes_eqb f g) eqn:E.
  - apply bytes_eqb_eq in E; subst. now rewrite (aget_aset_same bytes_eqb bytes_eqb_eq').
  - rewrite (aget_aset_other bytes_eqb bytes_eqb_eq'); [reflexivity|].
    intro H; subst. now rewrite (proj2 (bytes_eqb_eq g g) eq_refl) in E.
Qed.
Lemma cget_fold_cadd f c l : forall m, cget f (fold_left (cadd c) l m) = (cget f m + c * occ f l)%Z.
Proof.
  induction l as [|x r IH]; intro m; simpl; [lia|].
  rewrite IH, cget_cadd. destruct (bytes_eqb f x); lia.
Qed.
Lemma nodup_cadd c m g : NoDup (map fst m) -> NoDup (map fst (cadd c m g)).
Proof. intro H. unfold cadd. now apply (nodup_aset bytes_eqb bytes_eqb_eq'). Qed.
Lemma nodup_fold_cadd c l : forall m, NoDup (map fst m) -> NoDup (map fst (fold_left (cadd c) l m)).
Proof. induction l as [|x r IH]; intros m H; simpl; [exact H|]. apply IH. now apply nodup_cadd. Qed.

Definition scan_from (acc : fcounts) (d : ndata) : fcounts :=
  fold_left (fun acc p => fold_left (cadd 1) (dom (snd p)) acc) d acc.
Lemma scan_counts_from d : scan_counts d = scan_from [] d.
Proof. reflexivity. Qed.
Lemma cget_scan_from f d : forall acc, cget f (scan_from acc d) = (cget f acc + tot f d)%Z.
Proof.
  unfold scan_from. induction d as [|p r IH]; intro acc; simpl; [lia|].
  rewrite IH, cget_fold_cadd. lia.
Qed.
Lemma nodup_scan_from d : forall acc, NoDup (map fst acc) -> NoDup (map fst (scan_from acc d)).
Proof.
  unfold scan_from. induction d as [|p r IH]; intros acc H; simpl; [exact H|].
  apply IH. now apply nodup_fold_cadd.
Qed.

Definition allpos (m : fcounts) : Prop := forall f c, @aget bytes Z bytes_eqb f m = Some c -> (0 < c)%Z.
Lemma allpos_cget m f : allpos m -> (0 <= cget f m)%Z.
Proof. intro H. unfold cget. destruct (aget bytes_eqb f m) eqn:E; [apply H in E; lia | lia]. Qed.
Lemma allpos_cadd1 m g : allpos m -> allpos (cadd 1 m g).
Proof.
  intros H f c. unfold cadd. destruct (bytes_eqb f g) eqn:E.
  - apply bytes_eqb_eq in E; subst. rewrite (aget_aset_same bytes_eqb bytes_eqb_eq').
    intro X; inversion X; subst. pose proof (allpos_cget m g H). lia.
  - rewrite (aget_aset_other bytes_eqb bytes_eqb_eq'); [apply H|].
    intro X; subst. now rewrite (proj2 (bytes_eqb_eq g g) eq_refl) in E.
Qed.
Lemma allpos_fold l : forall m, allpos m -> allpos (fold_left (cadd 1) l m).
Proof. induction l as [|x r IH]; intros m H; simpl; [exact H|]. apply IH. now apply allpos_cadd1. Qed.
Lemma allpos_scan d : forall acc, allpos acc -> allpos (scan_from acc d).
Proof. unfold scan_from. induction d as [|p r IH]; intros acc H; simpl; [exact H|]. apply IH. now apply allpos_fold. Qed.
Lemma allpos_nil : allpos [].
Proof. intros f c H; discriminate. Qed.

(* what a scan of the store reports for a field *)
Lemma aget_scan f d :
  @aget bytes Z bytes_eqb f (scan_counts d) = if (0 <? tot f d)%Z then Some (tot f d) else None.
Proof.
  pose proof (cget_scan_from f d []) as Hc. pose proof (allpos_scan d [] allpos_nil) as Hp.
  rewrite <- scan_counts_from in *. unfold cget in Hc at 1. simpl in Hc.
  destruct (aget bytes_eqb f (scan_counts d)) eqn:E.
  - apply Hp in E. subst. replace (0 <? tot f d)%Z with true by (symmetry; apply Z.ltb_lt; lia). reflexivity.
  - replace (0 <? tot f d)%Z with false by (symmetry; apply Z.ltb_ge; lia). reflexivity.
Qed.

(* the counters served from memory once non-positive ones are dropped *)
Definition posf (p : bytes * Z) : bool := (0 <? snd p)%Z.
Lemma aget_filter_pos f (m : fcounts) : NoDup (map fst m) ->
  @aget bytes Z bytes_eqb f (filter posf m) = if (0 <? cget f m)%Z then Some (cget f m) else None.
Proof.
  unfold cget. induction m as [|[k c] r IH]; intro ND; simpl; [reflexivity|].
  inversion ND as [|? ? Hk ND']; subst. unfold posf at 1. simpl.
  destruct (bytes_eqb f k) eqn:E.
  - apply bytes_eqb_eq in E; subst k. destruct (0 <? c)%Z eqn:Ec; simpl.
    + now rewrite (proj2 (bytes_eqb_eq f f) eq_refl).
    + apply (aget_None_notin bytes_eqb bytes_eqb_eq'). intro H. apply Hk.
      clear - H. induction r as [|[k c'] r IH]; simpl in *; [contradiction|].
      destruct (posf (k, c')); simpl in *; intuition.
  - destruct (0 <? c)%Z; simpl; [rewrite E|]; apply IH; assumption.
Qed.

Lemma tot_nset f id v d : nsorted d ->
  tot f (nset id v d) = (tot f d - match nget id d with Some o => occ f (dom o) | None => 0 end + occ f (dom v))%Z.
Proof.
  unfold nsorted. induction d as [|[k o] r IH]; simpl; intro S; [lia|].
  inversion S as [|? ? S' F]; subst.
  destruct (id <? k) eqn:E1; simpl.
  - apply N.ltb_lt in E1. replace (id =? k) with false by (symmetry; apply N.eqb_neq; lia).
    rewrite nget_notin; [lia|]. intro H. rewrite Forall_forall in F. apply F in H. lia.
  - destruct (id =? k) eqn:E2; simpl; [lia|]. rewrite IH by assumption. lia.
Qed.
Lemma tot_ndel f id d :
  tot f (ndel id d) = (tot f d - match nget id d with Some o => occ f (dom o) | None => 0 end)%Z.
Proof.
  induction d as [|[k o] r IH]; simpl; [lia|].
  destruct (id =? k); simpl; [lia|]. rewrite IH. lia.
Qed.

(* ---------- the invariant tying the memdb to the store ---------- *)
Record Inv (s : state) : Prop := mkInv {
  i_data : m_data (st_mem s) = s_data (st_head s);
  i_sorted : nsorted (m_data (st_mem s));
  i_ids : m_ids (st_mem s) = map fst (m_data (st_mem s));
  i_cnt : forall f, cget f (m_fields (st_mem s)) = tot f (m_data (st_mem s));
  i_nodup : NoDup (map fst (m_fields (st_mem s)));
  i_meta : forall k, k < 3 -> mget k (st_mmeta s) = mget k (s_meta (st_head s));
  i_ftimes : m_ftdirty (st_mem s) = false -> m_ftimes (st_mem s) = ft_of (m_data (st_mem s));
  i_compiled : forall b, st_compiled s = Some b -> mget k_json_schema (s_meta (st_head s)) = Some b;
}.

Lemma inv_init : Inv init_state.
Proof. constructor; simpl; try reflexivity; try constructor; discriminate. Qed.

Lemma storeAndUpdate_inv s id new0 user conds replace t s' :
  Inv s -> storeAndUpdate repaired s id new0 user conds replace t = Ok s' -> Inv s'.
Proof.
  intros I. unfold storeAndUpdate.
  destruct (omem (fuser s_bodyid) new0 || omem (ftime s_bodyid) new0); [discriminate|].
  destruct (bad_stamp new0); [discriminate|].
  destruct (updateJSON user conds replace t (nget id (s_data (st_head s))) new0) as [orig1 new'].
  cbn [v_cnt v_ftime repaired].
  destruct I as [I1 I2 I3 I4 I5 I6 I7 I8].
  rewrite I3, (addBodyID_sorted _ id I2). cbn [res_bind].
  intro H; apply Ok_inj in H; subst s'. constructor; cbn.
  - now rewrite I1.
  - now apply nset_sorted.
  - now rewrite keys_nset.
  - intro f. rewrite !cget_fold_cadd, I4, (tot_nset f id new' _ I2), <- I1.
    destruct (nget id (m_data (st_mem s))); cbn [occ]; lia.
  - apply nodup_fold_cadd, nodup_fold_cadd, I5.
  - exact I6.
  - discriminate.
  - exact I8.
Qed.

Lemma putData_inv s key body vd user conds replace t s' :
  Inv s -> putData repaired s key body vd user conds replace t = Ok s' -> Inv s'.
Proof.
  intro I. unfold putData.
  destruct (st_locked s); [discriminate|]. destruct (negb (nonempty user)); [discriminate|].
  destruct (key =? 0); [discriminate|].
  match goal with |- context [negb ?v] => destruct (negb v); [discriminate|] end.
  destruct (oget s_bodyid (obj_of_list body)) as [[| | z | | | |]|]; try discriminate.
  destruct ((0 <=? z)%Z && (z <=? Z.of_N max_u64)%Z && (Z.to_N z =? key)); [|discriminate].
  now apply storeAndUpdate_inv.
Qed.

Lemma putKVs_inv items user conds replace : forall s,
  Inv s -> Inv (fst (putKVs repaired s items user conds replace)).
Proof.
  induction items as [|it r IH]; intros s I; simpl; [exact I|].
  destruct (putData repaired s (kv_key it) (kv_body it) (kv_vd it) user conds replace (kv_time it)) eqn:E; simpl; try exact I.
  apply IH. eapply putData_inv; eauto.
Qed.

Lemma deleteData_inv s id s' : Inv s -> deleteData repaired s id = Ok s' -> Inv s'.
Proof.
  intros I. unfold deleteData. destruct (st_locked s); [discriminate|].
  destruct I as [I1 I2 I3 I4 I5 I6 I7 I8].
  destruct (nget id (m_data (st_mem s))) as [o|] eqn:G.
  - rewrite I3, (deleteBodyID_sorted repaired _ id eq_refl I2). cbn [res_bind].
    intro H; apply Ok_inj in H; subst s'. constructor; cbn.
    + now rewrite I1.
    + now apply ndel_sorted.
    + now rewrite keys_ndel.
    + intro f. rewrite cget_fold_cadd, I4, tot_ndel, G. lia.
    + now apply nodup_fold_cadd.
    + exact I6.
    + discriminate.
    + exact I8.
  - intro H; apply Ok_inj in H; subst s'. constructor; cbn; try assumption.
    rewrite <- I1. clear - G. induction (m_data (st_mem s)) as [|[k v] r IH]; simpl in *; [reflexivity|].
    destruct (id =? k); [discriminate|]. now rewrite <- IH.
Qed.

Lemma mget_mset k k' v m : mget k (mset k' v m) = if k =? k' then Some v else mget k m.
Proof.
  unfold mget, mset. destruct (k =? k') eqn:E.
  - apply N.eqb_eq in E; subst. apply (aget_aset_same N.eqb Neqb_eq').
  - apply N.eqb_neq in E. now apply (aget_aset_other N.eqb Neqb_eq').
Qed.
Lemma mget_mdel k k' (m : list (N * bytes)) : mget k (mdel k' m) = if k =? k' then None else mget k m.
Proof.
  unfold mget, mdel. destruct (k =? k') eqn:E.
  - apply N.eqb_eq in E; subst. apply (aget_adel_same N.eqb).
  - apply N.eqb_neq in E. now apply (aget_adel_other N.eqb Neqb_eq').
Qed.

Lemma load_meta_get locked sm k : k < 3 -> mget k (load_meta repaired locked sm) = mget k sm.
Proof.
  intro Hk. unfold load_meta. cbn [v_meta repaired orb].
  assert (C : k = 0 \/ k = 1 \/ k = 2) by lia.
  unfold k_json_schema, k_schema, k_schema_batch, n_nj_JSONSchema, n_nj_NeuSchema, n_nj_NeuSchemaBatch.
  destruct (mget 0 sm) eqn:E0, (mget 1 sm) eqn:E1, (mget 2 sm) eqn:E2;
    repeat rewrite mget_mset; destruct C as [-> | [-> | ->]]; simpl; congruence.
Qed.

Lemma loadMemDB_inv d : nsorted d ->
  m_data (loadMemDB d) = d /\ m_ids (loadMemDB d) = map fst d /\ m_fields (loadMemDB d) = scan_counts d
  /\ m_ftimes (loadMemDB d) = ft_of d.
Proof.
  intros S. unfold loadMemDB. rewrite (fold_nset_sorted d S). cbn. rewrite sort_ids_sorted by exact S. auto.
Qed.

Lemma reload_inv s : Inv s -> Inv (reload repaired s).
Proof.
  intros [I1 I2 I3 I4 I5 I6 I7 I8].
  destruct (loadMemDB_inv _ I2) as (D & Hi & F & T).
  unfold reload. rewrite <- I1. constructor; cbn [st_mem st_head st_mmeta st_compiled].
  - now rewrite D.
  - now rewrite D.
  - now rewrite Hi, D.
  - intro f. rewrite F, D, scan_counts_from, cget_scan_from. reflexivity.
  - rewrite F, scan_counts_from. apply nodup_scan_from. constructor.
  - intros k Hk. now apply load_meta_get.
  - intros _. now rewrite T, D.
  - intros b Hb. exact Hb.
Qed.

Lemma step_inv s o : Inv s -> Inv (fst (step repaired s o)).
Proof.
  intro I. destruct o; simpl.
  - destruct (putData repaired s key body vd user conds replace timeStr) eqn:E; simpl; try exact I.
    eapply putData_inv; eauto.
  - destruct (st_locked s); [exact I|]. now apply putKVs_inv.
  - destruct (deleteData repaired s key) eqn:E; simpl; try exact I. eapply deleteData_inv; eauto.
  - destruct (st_locked s || (3 <=? kind)); [exact I|]. destruct I as [I1 I2 I3 I4 I5 I6 I7 I8].
    constructor; cbn; try assumption.
    + intros k Hk. rewrite !mget_mset, I6 by exact Hk. reflexivity.
    + intros b. rewrite mget_mset. destruct (kind =? k_json_schema) eqn:E.
      * apply N.eqb_eq in E. subst kind. rewrite N.eqb_refl. auto.
      * rewrite N.eqb_sym, E. apply I8.
  - destruct (st_locked s || (3 <=? kind)); [exact I|]. destruct I as [I1 I2 I3 I4 I5 I6 I7 I8].
    constructor; cbn; try assumption.
    + intros k Hk. rewrite !mget_mdel, I6 by exact Hk. reflexivity.
    + intros b. rewrite mget_mdel, andb_true_r. destruct (kind =? k_json_schema) eqn:E; [discriminate|].
      rewrite N.eqb_sym, E. apply I8.
  - destruct (st_locked s); [exact I|]. destruct I; constructor; cbn; assumption.
  - destruct (st_locked s); [|exact I]. destruct I; constructor; cbn; assumption.
  - now apply reload_inv.
Qed.

Lemma run_inv h : forall s s', Inv s -> run repaired s h = Ok s' -> Inv s'.
Proof.
  induction h as [|o r IH]; intros s s' I; simpl.
  - intro H; apply Ok_inj in H; now subst.
  - pose proof (step_inv s o I) as I'. destruct (step repaired s o) as [s1 [[]| |]]; simpl in I'; try discriminate; eauto.
Qed.

(* ---------- both read paths on a state satisfying the invariant ---------- *)
Lemma rres_equiv_refl r : rres_equiv r r.
Proof. destruct r; constructor; auto. Qed.

Lemma recs_of_ids d : nsorted d ->
  map (fun id => (id, match nget id d with Some o => o | None => [] end)) (map fst d) = d.
Proof.
  intro S. rewrite map_map. rewrite <- (map_id d) at 2. apply map_ext_in.
  intros [k v] H. simpl. pose proof (nget_in_sorted d S (k, v) H) as E. simpl in E. now rewrite E.
Qed.

Lemma get_kvs_sub d l fm sh : nsorted d -> incl l d ->
  get_kvs d (map fst l) fm sh = map (fun p => (fst p, selectFields (snd p) fm sh)) l.
Proof.
  intros S. induction l as [|p r IH]; intro Hin; simpl; [reflexivity|].
  unfold get_obj at 1. rewrite (nget_in_sorted d S p) by (apply Hin; now left). simpl.
  rewrite IH; [reflexivity|]. intros x Hx. apply Hin. now right.
Qed.

Lemma filter_map_fst {A B} (f : A -> bool) (l : list (A * B)) :
  filter f (map fst l) = map fst (filter (fun p => f (fst p)) l).
Proof. induction l as [|[a b] r IH]; simpl; [reflexivity|]. destruct (f a); simpl; now rewrite IH. Qed.

Lemma names_pos (l : fcounts) : Forall (fun p => (0 < snd p)%Z) l ->
  map (fun p : bytes * Z => if (0 <? snd p)%Z then fst p else []) l = map fst l.
Proof.
  induction 1 as [|p r Hp _ IH]; simpl; [reflexivity|].
  replace (0 <? snd p)%Z with true by (symmetry; now apply Z.ltb_lt). now rewrite IH.
Qed.
Lemma allpos_forall (m : fcounts) : NoDup (map fst m) -> allpos m -> Forall (fun p => (0 < snd p)%Z) m.
Proof.
  intros ND H. apply Forall_forall. intros [k c] Hin. simpl. apply (H k).
  now apply (in_aget_nodup bytes_eqb bytes_eqb_eq').
Qed.
Lemma in_keys_aget (m : fcounts) f : In f (map fst m) <-> @aget bytes Z bytes_eqb f m <> None.
Proof.
  pose proof (aget_None_notin bytes_eqb bytes_eqb_eq' f m) as H.
  destruct (aget bytes_eqb f m) eqn:E.
  - split; [discriminate|]. intros _. apply (aget_Some_in bytes_eqb bytes_eqb_eq') in E. now apply (in_map fst) in E.
  - split; [intro X; apply H in X; [contradiction|reflexivity] | congruence].
Qed.

Lemma nodup_filter_keys {A B} (f : A * B -> bool) (l : list (A * B)) : NoDup (map fst l) -> NoDup (map fst (filter f l)).
Proof.
  induction l as [|p r IH]; simpl; intro ND; [constructor|]. inversion ND; subst.
  destruct (f p); simpl; [constructor|]; auto.
  intro H. apply H1. clear - H. induction r as [|q r IH]; simpl in *; [contradiction|].
  destruct (f q); simpl in *; intuition.
Qed.

Section Reads.
Variable rx : bytes -> option (bytes -> bool).

Lemma read_eq s : Inv s -> forall r,
  rres_equiv (read_mem rx repaired s r) (read_store rx repaired (st_head s) r).
Proof.
  intros [I1 I2 I3 I4 I5 I6 I7 I8] r.
  assert (Hrecs := recs_of_ids _ I2).
  destruct r; cbn [read_mem read_memdb read_store pos_counts v_zero v_sel v_range v_ftime repaired store_sel];
    rewrite <- ?I1, ?I3.
  - apply rres_equiv_refl.
  - apply rres_equiv_refl.
  - apply rres_equiv_refl.
  - (* fields *)
    assert (P1 : Forall (fun p => (0 < snd p)%Z) (filter posf (m_fields (st_mem s)))).
    { apply Forall_forall. intros p Hp. apply filter_In in Hp. unfold posf in Hp. now apply Z.ltb_lt. }
    assert (ND2 : NoDup (map fst (scan_counts (m_data (st_mem s))))) by (rewrite scan_counts_from; apply nodup_scan_from; constructor).
    assert (P2 := allpos_forall _ ND2 (allpos_scan _ [] allpos_nil)).
    change (fun p : bytes * Z => (0 <? snd p)%Z) with posf.
    match goal with |- rres_equiv (XNames ?a) (XNames ?b) =>
      replace a with (map fst (filter posf (m_fields (st_mem s)))) by (symmetry; exact (names_pos _ P1));
      replace b with (map fst (scan_counts (m_data (st_mem s)))) by (symmetry; exact (names_pos _ P2)) end.
    constructor.
    apply NoDup_Permutation; [now apply nodup_filter_keys | exact ND2 |].
    intro f. rewrite !in_keys_aget, aget_filter_pos, aget_scan, I4 by exact I5. tauto.
  - (* counters *)
    constructor. intro f. change (fun p : bytes * Z => (0 <? snd p)%Z) with posf.
    now rewrite aget_filter_pos, aget_scan, I4.
  - (* keyrange *)
    destruct (parseKeyStr a), (parseKeyStr b); try apply rres_equiv_refl.
    rewrite (mem_range_sorted _ n n0 I2). cbn [lift_res]. apply rres_equiv_refl.
  - (* keyrangevalues *)
    destruct (parseKeyStr a), (parseKeyStr b); try apply rres_equiv_refl.
    rewrite (mem_range_sorted _ n n0 I2). cbn [lift_res].
    unfold in_range. rewrite (filter_map_fst (fun x => (n <=? x) && (x <=? n0))).
    rewrite get_kvs_sub; [apply rres_equiv_refl | exact I2 |].
    intros x Hx. now apply filter_In in Hx.
  - apply rres_equiv_refl.
  - (* query *)
    destruct ql; [apply rres_equiv_refl|]. destruct (just_bodyids (q :: ql)); [apply rres_equiv_refl|].
    rewrite Hrecs. apply rres_equiv_refl.
  - (* metadata *)
    destruct (3 <=? kind) eqn:E; [apply rres_equiv_refl|]. apply N.leb_gt in E. rewrite I6 by exact E. apply rres_equiv_refl.
  - (* fieldtimes *)
    cbn [andb]. destruct (m_ftdirty (st_mem s)) eqn:D; [|rewrite (I7 eq_refl)]; apply rres_equiv_refl.
  - apply rres_equiv_refl.
  - destruct (3 <=? kind) eqn:E; [apply rres_equiv_refl|]. apply N.leb_gt in E. rewrite I6 by exact E. apply rres_equiv_refl.
  - (* the schema in force *)
    unfold schema_in_force. destruct (st_compiled s) as [b|] eqn:C; [rewrite (I8 b eq_refl)|]; apply rres_equiv_refl.
Qed.

(* C16 mem_eq_store *)
Theorem mem_eq_store h s : run repaired init_state h = Ok s ->
  forall r,
    rres_equiv (read_mem rx repaired s r) (read_store rx repaired (st_head s) r)
    /\ st_head (reload repaired s) = st_head s
    /\ rres_equiv (read_mem rx repaired (reload repaired s) r) (read_store rx repaired (st_head s) r).
Proof.
  intros R r. pose proof (run_inv h _ _ inv_init R) as I. split; [now apply read_eq|].
  split; [reflexivity|]. apply (read_eq (reload repaired s)). now apply reload_inv.
Qed.

(* the driver's comparison: after commit + newversion the parent is read through the store path,
   the child through the memory path, and both answer like the head did before *)
Theorem parent_child_agree h s s2 : run repaired init_state h = Ok s -> st_locked s = false ->
  run repaired s [OpCommit; OpNewVersion] = Ok s2 ->
  forall r, exists p c,
    read_version rx repaired s2 1 r = Some p /\ read_version rx repaired s2 0 r = Some c /\
    rres_equiv c p /\ p = read_store rx repaired (st_head s) r.
Proof.
  intros R U R2 r. pose proof (run_inv h _ _ inv_init R) as I.
  simpl in R2. rewrite U in R2. simpl in R2. apply Ok_inj in R2. subst s2.
  eexists; eexists. cbn [read_version nth_error st_parents option_map st_locked].
  split; [reflexivity|]. split; [reflexivity|]. split; [|reflexivity].
  rewrite andb_false_r. pose proof (read_eq s I r) as E. destruct r; exact E.
Qed.
End Reads.

(* ---------- each repair is needed: witnesses on the model of the code as shipped ---------- *)
Definition no_rx : bytes -> option (bytes -> bool) := fun _ => None.
Definition fa : bytes := [97].   (* "a" *)
Definition fb : bytes := [98].   (* "b" *)
Definition u1 : bytes := [117; 49].
Definition u2 : bytes := [117; 50].
Definition t0 : bytes := [84].
Definition post_a (id : N) (v : json) (u : bytes) : op :=
  OpPost id [(s_bodyid, JNum (Z.of_N id)); (fa, v)] [] u [[]] false t0.
Definition post_b (id : N) (v : json) (u : bytes) : op :=
  OpPost id [(s_bodyid, JNum (Z.of_N id)); (fb, v)] [] u [[]] false t0.

Fixpoint nlist_eqb (a b : list N) : bool :=
  match a, b with [], [] => true | x :: a', y :: b' => (x =? y) && nlist_eqb a' b' | _, _ => false end.

(* mem and store answers of variant V after history h *)
Definition both (V : variant) (h : list op) (r : rreq) : option (rres * rres) :=
  match run V init_state h with
  | Ok s => Some (read_mem no_rx V s r, read_store no_rx V (st_head s) r)
  | _ => None
  end.

(* (a) deleteBodyID: ids 10..80, DELETE 10, 30, 80, 50 — and already POST 10, POST 20, DELETE 10 *)
Definition h_delete8 : list op :=
  map (fun id => post_a id (JNum 1) u1) [10; 20; 30; 40; 50; 60; 70; 80] ++ map OpDelete [10; 30; 80; 50].
Definition h_delete2 : list op := [post_a 10 (JNum 1) u1; post_a 20 (JNum 1) u1; OpDelete 10].

Lemma shipped_delete_refuted :
  both shipped h_delete8 RKeys = Some (XIds [10; 20; 30; 40; 50; 60; 70], XIds [20; 40; 60; 70])
  /\ both shipped h_delete2 RKeys = Some (XIds [10; 20], XIds [20])
  /\ both shipped h_delete2 (RKeyRange [49] [57; 57]) = Some (XIds [10; 20], XIds [20]).
Proof. vm_compute. repeat split. Qed.
Lemma only_delete_unrepaired_refuted :
  both (mkVar false true true true true true true true) h_delete2 RKeys = Some (XIds [10; 20], XIds [20]).
Proof. vm_compute. reflexivity. Qed.

(* (b) POST {"a":1} then POST {"a":null}: the counter of "a" stays at 1 in memory *)
Definition h_null : list op := [post_a 10 (JNum 1) u1; post_a 10 JNull u2].
Definition cnt_of (f : bytes) (r : rres) : option Z :=
  match r with XCounts l => @aget bytes Z bytes_eqb f l | _ => None end.
Lemma shipped_counter_refuted :
  option_map (fun p => (cnt_of fa (fst p), cnt_of fa (snd p))) (both shipped h_null RFieldCounts) = Some (Some 1%Z, None)
  /\ option_map (fun p => (cnt_of fa (fst p), cnt_of fa (snd p))) (both (mkVar true false true true true true true true) h_null RFieldCounts) = Some (Some 1%Z, None).
Proof. vm_compute. split; reflexivity. Qed.

(* (e) POST 10 {"a":1}, POST 20 {"b":1}, DELETE 10: "a" is reported with count 0, fields lists "" *)
Definition h_zero : list op := [post_a 10 (JNum 1) u1; post_b 20 (JNum 1) u1; OpDelete 10].
Lemma zero_counter_refuted :
  let V := mkVar true true false true true true true true in
  option_map (fun p => (cnt_of fa (fst p), cnt_of fa (snd p))) (both V h_zero RFieldCounts) = Some (Some 0%Z, None)
  /\ exists l l', both V h_zero RFields = Some (XNames l, XNames l') /\ In [] l /\ ~ In [] l'.
Proof.
  split; [vm_compute; reflexivity|]. eexists; eexists. split; [vm_compute; reflexivity|].
  split; [simpl; tauto|]. simpl. intuition discriminate.
Qed.

(* (d) query?fields=b and keyrangevalues?fields=a_user on the store path *)
Definition h_two : list op := [post_a 10 (JNum 1) u1; post_b 10 (JNum 2) u2].
Lemma store_select_refuted :
  let V := mkVar true true true false true true true true in
  both V h_two (RQuery [[(fa, JNum 1)]] false [fb] (mkShow false false))
    = Some (XObjs [[(s_bodyid, JNum 10); (fb, JNum 2)]],
            XObjs [[(s_bodyid, JNum 10); (fb, JNum 2); (fa, JNum 1)]])
  /\ both V h_two (RKeyRangeValues [48] [97] [fuser fa] (mkShow false false) 0)
    = Some (XKVs [(10, [(s_bodyid, JNum 10); (fuser fa, JStr u1)])], XKVs [(10, [(s_bodyid, JNum 10)])]).
Proof. vm_compute. split; reflexivity. Qed.

(* (c) ids 5, 10, 100: keyrange/1/15 and keyrangevalues/1/15 *)
Definition h_digits : list op := [post_a 5 (JNum 1) u1; post_a 10 (JNum 1) u1; post_a 100 (JNum 1) u1].
Definition kv_ids (r : rres) : list N := match r with XKVs l => map fst l | XIds l => l | _ => [] end.
Lemma store_range_refuted :
  let V := mkVar true true true true false true true true in
  option_map (fun p => (kv_ids (fst p), kv_ids (snd p))) (both V h_digits (RKeyRange [49] [49; 53])) = Some ([5; 10], [10])
  /\ option_map (fun p => (kv_ids (fst p), kv_ids (snd p)))
       (both V h_digits (RKeyRangeValues [49] [49; 53] [] (mkShow false false) 0)) = Some ([5; 10], [10; 100]).
Proof. vm_compute. split; reflexivity. Qed.

(* (i) POST json_schema, commit, restart, newversion: GET json_schema on the child *)
Definition h_schema : list op := [OpMetaPost 0 [123; 125]; OpCommit; OpReload; OpNewVersion].
Lemma meta_reload_refuted :
  both (mkVar true true true true true false true true) h_schema (RMeta 0) = Some (XBytes None, XBytes (Some [123; 125])).
Proof. vm_compute. reflexivity. Qed.

(* (f) fieldtimes: POST 10 {a, a_time 2020}, POST 20 {a, a_time 2022}, POST 10 {b}: the head says
   2020, the head after a restart 2022; committed versions have no fieldtimes at all *)
Definition y2020 : bytes := [50; 48; 50; 48].
Definition y2022 : bytes := [50; 48; 50; 50].
Definition h_ftimes : list op :=
  [OpPost 10 [(s_bodyid, JNum 10); (fa, JNum 1); (ftime fa, JStr y2020)] [] u1 [[]] false t0;
   OpPost 20 [(s_bodyid, JNum 20); (fa, JNum 1); (ftime fa, JStr y2022)] [] u1 [[]] false t0;
   post_b 10 (JNum 1) u2].
Definition time_of (f : bytes) (r : rres) : option bytes :=
  match r with XTimes l => @aget bytes bytes bytes_eqb f l | _ => None end.
Lemma fieldtimes_refuted :
  match run interim init_state h_ftimes with
  | Ok s => (time_of fa (read_mem no_rx interim s RFieldTimes),
             time_of fa (read_mem no_rx interim (reload interim s) RFieldTimes),
             read_store no_rx interim (st_head s) RFieldTimes)
  | _ => (None, None, XPanic)
  end = (Some y2020, Some y2022, XErr).
Proof. vm_compute. reflexivity. Qed.

(* (h) POST json_schema, DELETE json_schema: the deleted schema stays in force on the head *)
Definition h_schdel : list op := [OpMetaPost 0 [123; 125]; OpMetaDelete 0].
Lemma schema_delete_refuted :
  both interim h_schdel RSchemaInForce = Some (XBytes (Some [123; 125]), XBytes None).
Proof. vm_compute. reflexivity. Qed.

(* a non-string *_time value is rejected (since the C20 repair; it used to panic with the memdb
   mutex held) *)
Lemma nonstring_time_rejected V s :
  step V s (OpPost 1 [(s_bodyid, JNum 1); (ftime fa, JNum 5)] [] u1 [[]] false t0) = (s, Err).
Proof.
  simpl. unfold putData. destruct (st_locked s); [reflexivity|]. cbn.
  destruct (match schema_in_force s with Some _ => true | None => true end) eqn:E; [|destruct (schema_in_force s); discriminate].
  destruct (schema_in_force s); reflexivity.
Qed.

(* non-vacuity of mem_eq_store: a history with every kind of request that runs to completion *)
Definition h_sample : list op :=
  [post_a 10 (JNum 1) u1; post_b 10 (JStr [120]) u2; post_a 7 (JArr [JNum 1; JNum 2]) u1;
   OpPostKVs [mkKV 100 [(s_bodyid, JNum 100); (fa, JNull)] [] t0; mkKV 5 [(s_bodyid, JNum 5)] [] t0] u2 [fa] true;
   OpMetaPost 1 [49]; OpDelete 7; OpCommit; OpPost 3 [(s_bodyid, JNum 3)] [] u1 [[]] false t0;
   OpNewVersion; OpReload; post_a 10 JNull u2; OpMetaDelete 1; OpDelete 100].
Lemma sample_runs : exists s, run repaired init_state h_sample = Ok s /\ map fst (m_data (st_mem s)) = [5; 10]
                              /\ length (st_parents s) = 1%nat.
Proof. eexists. vm_compute. repeat split. Qed.
