(* Proofs.Gate: facts about the request gate (Model.Gate) over the tables generated from the
   current source (Gen.Routes).  Every lemma here is re-checked whenever the tables change. *)
From Coq Require Import String List Bool.
From DV Require Import Base.Prelude Base.GateTypes Gen.Routes Model.Gate.
Import ListNotations.
Local Open Scope string_scope.

Arguments is_mutation : simpl never.
Arguments is_shortcut : simpl never.

(* ---- closed forms: what the generated chains and conditions amount to ---- *)

Definition not_read (meth : string) : bool := negb (String.eqb meth "get") && negb (String.eqb meth "head").

Definition gate_inst_spec (md : mode) (admin locked versioned : bool) (pkg kw meth : string) : verdict :=
  if negb admin && m_readonly md && not_read meth then Refuse
  else if is_shortcut kw then Allow
  else if negb admin && negb (m_fullwrite md) && locked && is_mutation pkg kw meth && versioned then Refuse
  else Allow.

Lemma gate_inst_closed md admin locked versioned pkg kw meth :
  gate md admin locked versioned (RInst pkg kw) meth = gate_inst_spec md admin locked versioned pkg kw meth.
Proof.
  destruct md as [ro fw]. unfold gate, gate_inst_spec, not_read. cbn.
  destruct admin, ro, fw, locked, versioned, (String.eqb meth "get"), (String.eqb meth "head"),
    (is_shortcut kw), (is_mutation pkg kw meth); reflexivity.
Qed.

Definition node_ctx (md : mode) (admin locked versioned : bool) (a meth : string) : reqctx :=
  {| rc_mode := md; rc_admin := admin; rc_locked := locked; rc_versioned := versioned;
     rc_branch := smem a node_branch_actions; rc_ismut := false; rc_method := meth |}.

Definition gate_node_spec (md : mode) (admin locked versioned : bool) (a meth : string) : verdict :=
  if negb admin && m_readonly md && not_read meth then Refuse
  else if negb admin && negb (m_fullwrite md) && locked && negb (smem a node_branch_actions) && not_read meth then Refuse
  else match handler_of "nodeMux" meth ["/api/node/:uuid/" ++ a] with
       | None => NoRoute
       | Some h => if fires (node_ctx md admin locked versioned a meth) h then Refuse else Allow
       end.

Lemma gate_node_closed md admin locked versioned a meth :
  gate md admin locked versioned (RNode a) meth = gate_node_spec md admin locked versioned a meth.
Proof.
  destruct md as [ro fw]. unfold gate, gate_node_spec, routed, not_read, node_ctx.
  change (mux_at "/api/node/:uuid/:action") with (Some "nodeMux").
  cbn [run_chain chain_of].
  replace (chain_of "nodeMux") with ["repoRawSelector"; "mutationsHandler"; "activityLogHandler"; "nodeSelector"]
    by (vm_compute; reflexivity).
  cbn -[handler_of smem append].
  destruct admin, ro, fw, locked, (smem a node_branch_actions), (String.eqb meth "get"), (String.eqb meth "head");
    reflexivity.
Qed.

Definition repo_ctx (md : mode) (admin locked versioned : bool) (meth : string) : reqctx :=
  {| rc_mode := md; rc_admin := admin; rc_locked := locked; rc_versioned := versioned;
     rc_branch := false; rc_ismut := false; rc_method := meth |}.

Definition gate_repo_spec (md : mode) (admin locked versioned : bool) (a meth : string) : verdict :=
  if negb admin && m_readonly md && not_read meth then Refuse
  else match handler_of "repoMux" meth ["/api/repo/:uuid/" ++ a; "/api/repo/:uuid/" ++ a ++ "/:name"] with
       | None => NoRoute
       | Some h => if fires (repo_ctx md admin locked versioned meth) h then Refuse else Allow
       end.

Lemma gate_repo_closed md admin locked versioned a meth :
  gate md admin locked versioned (RRepo a) meth = gate_repo_spec md admin locked versioned a meth.
Proof.
  destruct md as [ro fw]. unfold gate, gate_repo_spec, routed, not_read, repo_ctx.
  change (mux_at "/api/repo/:uuid/:action") with (Some "repoMux").
  replace (chain_of "repoMux") with ["repoRawSelector"; "mutationsHandler"; "activityLogHandler"; "repoSelector"]
    by (vm_compute; reflexivity).
  cbn -[handler_of smem append].
  destruct admin, ro, (String.eqb meth "get"), (String.eqb meth "head"); reflexivity.
Qed.

Lemma gate_reporaw_readonly fw locked versioned meth :
  not_read meth = true ->
  gate {| m_readonly := true; m_fullwrite := fw |} false locked versioned RRepoRaw meth = Refuse.
Proof.
  unfold not_read. intro H. unfold gate, routed.
  change (mux_at "/api/repo/:uuid") with (Some "repoRawMux").
  replace (chain_of "repoRawMux") with ["activityLogHandler"; "repoRawSelector"] by (vm_compute; reflexivity).
  cbn -[handler_of smem append].
  destruct (String.eqb meth "get"), (String.eqb meth "head"); try discriminate; reflexivity.
Qed.

(* ---- the table theorems (finite, over the generated tables) ---- *)

Lemma table_sound : table_sound_b = true.
Proof. vm_compute. reflexivity. Qed.

Lemma overrides_audited : overrides_audited_b = true.
Proof. vm_compute. reflexivity. Qed.

Lemma node_sound : node_sound_b = true.
Proof. vm_compute. reflexivity. Qed.

Lemma verdict_eqb_eq a b : verdict_eqb a b = true -> a = b.
Proof. destruct a, b; simpl; intro H; try reflexivity; discriminate. Qed.

Lemma triple_eqb_eq a b : triple_eqb a b = true -> a = b.
Proof.
  destruct a as [[a1 a2] a3], b as [[b1 b2] b3]. unfold triple_eqb. simpl.
  rewrite !andb_true_iff. intros [[H1 H2] H3].
  apply String.eqb_eq in H1, H2, H3. subst. reflexivity.
Qed.

Lemma in_readonly_In pkg kw meth : in_readonly pkg kw meth = true -> In (pkg, kw, meth) proved_readonly.
Proof.
  unfold in_readonly. rewrite existsb_exists. intros [x [Hx E]].
  apply triple_eqb_eq in E. subst. exact Hx.
Qed.

Theorem gate_table_sound : forall pkg kw ms meth,
  In (pkg, kw, ms) instance_routes -> In meth write_methods ->
  ~ In (pkg, kw, meth) proved_readonly ->
  gate mode_default false true true (RInst pkg kw) meth = Refuse.
Proof.
  intros pkg kw ms meth Hin Hm Hnot.
  pose proof table_sound as T. unfold table_sound_b in T.
  rewrite forallb_forall in T. specialize (T _ Hin). cbn [fst snd] in T.
  rewrite forallb_forall in T. specialize (T _ Hm).
  apply orb_true_iff in T. destruct T as [T|T].
  - exfalso. apply Hnot. apply in_readonly_In. exact T.
  - apply verdict_eqb_eq. exact T.
Qed.

(* every override that declares an endpoint read-only is on the audited list *)
Theorem overrides_are_audited : forall o, In o mutation_overrides -> In o proved_readonly.
Proof.
  intros o Ho. pose proof overrides_audited as A. unfold overrides_audited_b in A.
  rewrite forallb_forall in A. specialize (A _ Ho). rewrite existsb_exists in A.
  destruct A as [x [Hx E]]. apply triple_eqb_eq in E. subst. exact Hx.
Qed.

Lemma override_hit_In pkg kw meth : override_hit pkg kw meth = true -> In (pkg, kw, meth) mutation_overrides.
Proof.
  unfold override_hit. rewrite existsb_exists. intros [[[p e] m] [Hx E]]. cbn [fst snd] in E.
  rewrite !andb_true_iff in E. destruct E as [[E1 E2] E3].
  apply String.eqb_eq in E1, E2, E3. subst. exact Hx.
Qed.

Lemma smem_In x l : smem x l = true <-> In x l.
Proof.
  unfold smem. rewrite existsb_exists. split.
  - intros [y [Hy E]]. apply String.eqb_eq in E. subst. exact Hy.
  - intro H. exists x. split; [exact H|apply String.eqb_refl].
Qed.

Lemma mutation_methods_are_write : mutation_methods = write_methods.
Proof. vm_compute. reflexivity. Qed.

(* the only keyword served before the gate is the content-addressed blob store *)
Lemma shortcuts_exact : map fst instance_shortcuts = ["blobstore"].
Proof. vm_compute. reflexivity. Qed.

Lemma not_shortcut kw : ~ In kw ["blobstore"] -> is_shortcut kw = false.
Proof.
  intro H. unfold is_shortcut. rewrite shortcuts_exact.
  destruct (smem kw ["blobstore"]) eqn:E; [|reflexivity]. exfalso. apply H. apply smem_In. exact E.
Qed.

(* for EVERY keyword string, not only those of the table: a POST/PUT/DELETE on a locked node that
   is not one of the audited read-only triples and not a keyword served before the gate is refused *)
Theorem gate_any_keyword : forall pkg kw meth,
  In meth write_methods -> ~ In kw ["blobstore"] ->
  ~ In (pkg, kw, meth) proved_readonly ->
  gate mode_default false true true (RInst pkg kw) meth = Refuse.
Proof.
  intros pkg kw meth Hm Hs Hnot. rewrite gate_inst_closed. unfold gate_inst_spec. cbn [m_readonly m_fullwrite mode_default negb andb].
  rewrite (not_shortcut kw Hs).
  assert (M : is_mutation pkg kw meth = true).
  { unfold is_mutation. apply andb_true_iff. split; [apply smem_In; rewrite mutation_methods_are_write; exact Hm|].
    apply negb_true_iff. destruct (override_hit pkg kw meth) eqn:O; [|reflexivity].
    exfalso. apply Hnot. apply overrides_are_audited. apply override_hit_In. exact O. }
  rewrite M. reflexivity.
Qed.

(* ---- branching stays allowed; the other node-level mutations are refused ---- *)

Theorem branching_allowed : forall a, In a ["branch"; "newversion"; "tag"] ->
  gate mode_default false true true (RNode a) "post" = Allow.
Proof. intros a [<-|[<-|[<-|[]]]]; vm_compute; reflexivity. Qed.

(* the branch whitelist of the source is exactly the three version-creating actions *)
Definition spec_branch_actions : list string := ["branch"; "newversion"; "tag"].
Lemma branch_whitelist_exact : node_branch_actions = spec_branch_actions.
Proof. vm_compute. reflexivity. Qed.

Theorem node_routes_sound : forall meth a, In (meth, a) node_actions ->
  ~ In meth ["get"; "head"] -> ~ In a spec_branch_actions ->
  gate mode_default false true true (RNode a) meth = Refuse.
Proof.
  intros meth a Hin Hnr Hnb. pose proof node_sound as N. unfold node_sound_b in N.
  rewrite forallb_forall in N. specialize (N _ Hin). cbn [fst snd] in N.
  destruct (smem meth ["get"; "head"]) eqn:R.
  - exfalso. apply Hnr. apply smem_In. exact R.
  - destruct (smem a node_branch_actions) eqn:B.
    + exfalso. apply Hnb. rewrite <- branch_whitelist_exact. apply smem_In. exact B.
    + apply verdict_eqb_eq. exact N.
Qed.

(* for EVERY action string: a non-GET/HEAD request to a locked node that is not a branching
   action is refused by nodeSelector before any handler is looked up *)
Theorem node_any_action : forall a meth,
  not_read meth = true -> ~ In a spec_branch_actions ->
  gate mode_default false true true (RNode a) meth = Refuse.
Proof.
  intros a meth Hr Hnb. rewrite gate_node_closed. unfold gate_node_spec.
  cbn [m_readonly m_fullwrite mode_default negb andb].
  assert (Hb : smem a node_branch_actions = false).
  { destruct (smem a node_branch_actions) eqn:B; [|reflexivity].
    exfalso. apply Hnb. rewrite <- branch_whitelist_exact. apply smem_In. exact B. }
  rewrite Hb, Hr. reflexivity.
Qed.

(* ---- the mode matrix ---- *)

(* read-only mode: every request other than GET/HEAD is refused, on every kind of route, whatever
   the full-write flag, the node state and the instance *)
Theorem readonly_refuses_all : forall fw locked versioned r meth,
  not_read meth = true ->
  gate {| m_readonly := true; m_fullwrite := fw |} false locked versioned r meth = Refuse.
Proof.
  intros fw locked versioned r meth Hr. destruct r as [pkg kw|a|a|].
  - rewrite gate_inst_closed. unfold gate_inst_spec. cbn [m_readonly negb andb]. rewrite Hr. reflexivity.
  - rewrite gate_node_closed. unfold gate_node_spec. cbn [m_readonly negb andb]. rewrite Hr. reflexivity.
  - rewrite gate_repo_closed. unfold gate_repo_spec. cbn [m_readonly negb andb]. rewrite Hr. reflexivity.
  - apply gate_reporaw_readonly. exact Hr.
Qed.

(* the two widenings: with the full-write flag (read-only off) or with the admin token (any mode)
   no data-instance request is refused *)
Theorem fullwrite_allows : forall locked versioned pkg kw meth,
  gate mode_fullwrite false locked versioned (RInst pkg kw) meth = Allow.
Proof.
  intros. rewrite gate_inst_closed. unfold gate_inst_spec. cbn [m_readonly m_fullwrite mode_fullwrite negb andb].
  destruct (is_shortcut kw); reflexivity.
Qed.

Theorem admin_allows : forall md locked versioned pkg kw meth,
  gate md true locked versioned (RInst pkg kw) meth = Allow.
Proof.
  intros. rewrite gate_inst_closed. unfold gate_inst_spec. cbn [negb andb].
  destruct (is_shortcut kw); reflexivity.
Qed.

(* ... and they are the only ones: without either, mode and token make no other difference on a
   locked, versioned instance: the verdict is Refuse exactly for mutations (and for everything
   but GET/HEAD in read-only mode) *)
Theorem no_other_widening : forall ro locked versioned pkg kw meth,
  is_shortcut kw = false ->
  gate {| m_readonly := ro; m_fullwrite := false |} false locked versioned (RInst pkg kw) meth =
  if (ro && not_read meth) || (locked && is_mutation pkg kw meth && versioned) then Refuse else Allow.
Proof.
  intros ro locked versioned pkg kw meth Hs. rewrite gate_inst_closed. unfold gate_inst_spec.
  cbn [m_readonly m_fullwrite negb andb]. rewrite Hs.
  destruct ro, (not_read meth), locked, (is_mutation pkg kw meth), versioned; reflexivity.
Qed.

(* an open node stays writable in default mode *)
Theorem open_node_writable : forall versioned pkg kw meth,
  gate mode_default false false versioned (RInst pkg kw) meth = Allow.
Proof.
  intros. rewrite gate_inst_closed. unfold gate_inst_spec. cbn [m_readonly m_fullwrite mode_default negb andb].
  destruct (is_shortcut kw); reflexivity.
Qed.

(* an unversioned instance is not gated by the lock (its requests are routed to the root version) *)
Theorem unversioned_not_gated : forall locked pkg kw meth,
  gate mode_default false locked false (RInst pkg kw) meth = Allow.
Proof.
  intros. rewrite gate_inst_closed. unfold gate_inst_spec. cbn [m_readonly m_fullwrite mode_default negb andb].
  destruct (is_shortcut kw), locked, (is_mutation pkg kw meth); reflexivity.
Qed.

(* creating a data instance on, and committing, a locked node are refused by their handlers *)
Theorem new_instance_refused_on_locked :
  gate mode_default false true true (RRepo "instance") "post" = Refuse.
Proof. vm_compute. reflexivity. Qed.

Theorem recommit_refused : forall md admin,
  gate md admin true true (RNode "commit") "post" = Refuse.
Proof. intros [[] []] []; vm_compute; reflexivity. Qed.

(* the admin flag is computed by a middleware installed on the outer mux, ahead of every selector *)
Theorem admin_handler_installed : In "adminPrivHandler" (chain_of "mainMux").
Proof. vm_compute. auto 10. Qed.
