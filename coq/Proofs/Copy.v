(* Proofs.Copy: a raw copy reads like its source at every version; a flattened copy at V is
   the source as seen from V; neither changes the source or any other instance. *)
From DV Require Import Base.Prelude Model.Dag Model.Resolve Model.Core Model.Copy Proofs.Resolve Proofs.Core.
Local Open Scope N_scope.

Lemma with_store_inv c s : CoreInv c -> CoreInv (with_store c s).
Proof. intros [A B C]. constructor; assumption. Qed.

Lemma get_ext_store c s k k0 :
  CoreInv c -> (forall v, lookup_kv k v s = lookup_kv k0 v (store c)) ->
  forall v, get (with_store c s) k v = get c k0 v.
Proof.
  intros I H v. apply get_unique; [apply with_store_inv; exact I|].
  eapply read_spec_ext; [|apply get_spec; exact I].
  intros u _. split; [reflexivity|]. unfold ent_of. simpl. symmetry. apply H.
Qed.

Lemma lookup_app k v a b :
  lookup_kv k v (a ++ b) = match lookup_kv k v a with Some e => Some e | None => lookup_kv k v b end.
Proof.
  induction a as [|[[k1 v1] e1] a IH]; simpl; [reflexivity|].
  destruct ((k =? k1) && (v =? v1)); [reflexivity|exact IH].
Qed.

Section Rho.
Variable rho : N -> option N.
(* UpdateInstance is injective on the keys of the source instance, and the new instance id
   is fresh: no key of the new instance is in the store before the copy (C06). *)
Hypothesis rho_inj : forall k1 k2 k', rho k1 = Some k' -> rho k2 = Some k' -> k1 = k2.

Lemma lookup_copy_items s k k' v : rho k = Some k' ->
  lookup_kv k' v (copy_items rho s) = lookup_kv k v s.
Proof.
  intro R. induction s as [|[[k1 v1] e1] s IH]; simpl; [reflexivity|].
  destruct (rho k1) as [k1'|] eqn:R1; simpl.
  - destruct (N.eqb_spec k' k1') as [E|NE].
    + subst k1'. assert (k1 = k) by (eapply rho_inj; eauto). subst k1.
      rewrite N.eqb_refl. simpl. destruct (v =? v1); [reflexivity|exact IH].
    + simpl. destruct (N.eqb_spec k k1) as [E|_].
      * subst k1. congruence.
      * simpl. exact IH.
  - destruct (N.eqb_spec k k1) as [E|_]; [subst; congruence|]. simpl. exact IH.
Qed.

Lemma lookup_copy_items_other s k v : (forall k0, rho k0 <> Some k) ->
  lookup_kv k v (copy_items rho s) = None.
Proof.
  intro H. induction s as [|[[k1 v1] e1] s IH]; simpl; [reflexivity|].
  destruct (rho k1) as [k1'|] eqn:R1; simpl; [|exact IH].
  destruct (N.eqb_spec k k1') as [E|_]; [subst; exfalso; eapply H; eauto|]. simpl. exact IH.
Qed.

Definition fresh (c : core) (k' : N) : Prop := forall v, lookup_kv k' v (store c) = None.

(* every read of the copy equals the same read of the source, at every version *)
Theorem copy_reads_equal c k k' v :
  CoreInv c -> rho k = Some k' -> fresh c k' ->
  get (copy_raw rho c) k' v = get c k v.
Proof.
  intros I R F. unfold copy_raw. apply get_ext_store; [exact I|].
  intro w. rewrite lookup_app, (lookup_copy_items _ k k' w R).
  destruct (lookup_kv k w (store c)); [reflexivity|apply F].
Qed.

(* the source instance, and every other instance, reads as before *)
Theorem copy_source_unchanged c k v :
  CoreInv c -> (forall k0, rho k0 <> Some k) ->
  get (copy_raw rho c) k v = get c k v.
Proof.
  intros I H. unfold copy_raw. apply get_ext_store; [exact I|].
  intro w. rewrite lookup_app, lookup_copy_items_other by exact H. reflexivity.
Qed.

(* ---- flattened copy ---- *)
Lemma lookup_flatten_other c V k v : (forall k0, rho k0 <> Some k) ->
  lookup_kv k v (flatten_items rho c V) = None.
Proof.
  intro H. unfold flatten_items. induction (src_keys rho c) as [|k1 l IH]; simpl; [reflexivity|].
  destruct (rho k1) as [k1'|] eqn:R1; [|exact IH].
  destruct (get c k1 V); simpl; try exact IH.
  destruct (N.eqb_spec k k1') as [E|_]; [subst; exfalso; eapply H; eauto|]. simpl. exact IH.
Qed.

Lemma lookup_flatten_other_version c V k' v : v <> V ->
  lookup_kv k' v (flatten_items rho c V) = None.
Proof.
  intro NE. unfold flatten_items. induction (src_keys rho c) as [|k1 l IH]; simpl; [reflexivity|].
  destruct (rho k1) as [k1'|]; [|exact IH].
  destruct (get c k1 V); simpl; try exact IH.
  destruct (N.eqb_spec v V) as [E|_]; [contradiction|]. rewrite andb_false_r. exact IH.
Qed.

Definition fitem (c : core) (V : Dag.V) (k : N) : list ((N * Dag.V) * entry) :=
  match rho k, get c k V with
  | Some k', RFound _ x => [((k', V), Val x)]
  | _, _ => []
  end.

Lemma flatten_items_eq c V : flatten_items rho c V = flat_map (fitem c V) (src_keys rho c).
Proof. reflexivity. Qed.

Lemma lookup_fitem_self c V k k' : rho k = Some k' ->
  lookup_kv k' V (fitem c V k) = match get c k V with RFound _ x => Some (Val x) | _ => None end.
Proof.
  intro R. unfold fitem. rewrite R. destruct (get c k V); simpl; try reflexivity.
  rewrite !N.eqb_refl. reflexivity.
Qed.

Lemma lookup_fitem_other c V k k' k1 v : rho k = Some k' -> k1 <> k ->
  lookup_kv k' v (fitem c V k1) = None.
Proof.
  intros R NE. unfold fitem. destruct (rho k1) as [k1'|] eqn:R1; [|reflexivity].
  destruct (get c k1 V); simpl; try reflexivity.
  destruct (N.eqb_spec k' k1') as [E|_]; [subst; exfalso; apply NE; eapply rho_inj; eauto|]. reflexivity.
Qed.

Lemma lookup_flatten_at c V k k' : rho k = Some k' ->
  lookup_kv k' V (flatten_items rho c V) =
  if in_dec N.eq_dec k (src_keys rho c)
  then match get c k V with RFound _ x => Some (Val x) | _ => None end
  else None.
Proof.
  intro R. rewrite flatten_items_eq.
  assert (ND : NoDup (src_keys rho c)) by (unfold src_keys; apply NoDup_nodup).
  induction (src_keys rho c) as [|k1 l IH]; [reflexivity|].
  inversion ND as [|? ? Hn ND']; subst. cbn [flat_map]. rewrite lookup_app.
  destruct (N.eq_dec k1 k) as [->|NE].
  - rewrite (lookup_fitem_self c V k k' R).
    destruct (in_dec N.eq_dec k (k :: l)) as [_|X]; [|exfalso; apply X; left; reflexivity].
    destruct (get c k V); try reflexivity;
      rewrite (IH ND'); destruct (in_dec N.eq_dec k l); try contradiction; reflexivity.
  - rewrite (lookup_fitem_other c V k k' k1 V R NE), (IH ND').
    destruct (in_dec N.eq_dec k l) as [i|n]; destruct (in_dec N.eq_dec k (k1 :: l)) as [i'|n']; try reflexivity.
    + exfalso. apply n'. right. exact i.
    + destruct i' as [X|X]; [congruence|contradiction].
Qed.

(* a source key with no stored entry at all reads as not-found everywhere *)
Lemma not_in_src_keys_none c k k' v : CoreInv c -> rho k = Some k' ->
  ~ In k (src_keys rho c) -> get c k v = RNone.
Proof.
  intros I R H. apply get_unique; [exact I|]. simpl.
  intros y [(A & Hy & _) _]. apply Hy. unfold ent_of.
  assert (G : forall s, ~ In k (map (fun it : N * V * entry => fst (fst it)) s) -> lookup_kv k y s = None).
  { induction s as [|[[k1 v1] e1] s IH]; simpl; [reflexivity|]. intro X.
    destruct (N.eqb_spec k k1) as [E|_]; [exfalso; apply X; left; symmetry; exact E|]. simpl. apply IH. tauto. }
  apply G. intro X. apply H. unfold src_keys. apply nodup_In. apply filter_In. split; [exact X|]. rewrite R. reflexivity.
Qed.

(* the flattened copy at V is the source as seen from V *)
Theorem flatten_equals_view c V k k' :
  CoreInv c -> rho k = Some k' -> fresh c k' -> In V (nodes c) ->
  match get c k V with
  | RFound _ x => get (copy_flat rho c V) k' V = RFound V x
  | RNone => get (copy_flat rho c V) k' V = RNone
  | _ => True
  end.
Proof.
  intros I R F HV.
  assert (I' : CoreInv (copy_flat rho c V)) by (apply with_store_inv; exact I).
  assert (E : ent_of (copy_flat rho c V) k' V =
              if in_dec N.eq_dec k (src_keys rho c)
              then match get c k V with RFound _ x => Some (Val x) | _ => None end else None).
  { unfold ent_of, copy_flat. simpl. rewrite lookup_app, (lookup_flatten_at c V k k' R).
    destruct (in_dec N.eq_dec k (src_keys rho c)); [destruct (get c k V)|]; try apply F; reflexivity. }
  destruct (get c k V) as [u x| | |] eqn:G; [| |exact Logic.I|exact Logic.I].
  - destruct (in_dec N.eq_dec k (src_keys rho c)) as [i|n].
    + unfold get. 
      change (RFound V x) with (match Val x with Val x0 => RFound V x0 | Tomb => RNone end).
      eapply (read_self (cpar _) (crank _)); [apply crank_par; exact I'|intro y; apply crank_fuel|apply crank_fuel|exact E].
    + rewrite (not_in_src_keys_none c k k' V I R n) in G. discriminate.
  - (* nothing visible at V in the source: the copy holds no entry for k' at all *)
    apply get_unique; [exact I'|]. simpl.
    intros y [(A & Hy & _) _]. apply Hy. unfold ent_of, copy_flat. simpl. rewrite lookup_app.
    destruct (N.eq_dec y V) as [->|NE].
    + fold (ent_of (copy_flat rho c V) k' V). unfold copy_flat, ent_of in E. simpl in E. rewrite lookup_app in E.
      rewrite E. destruct (in_dec N.eq_dec k (src_keys rho c)); reflexivity.
    + rewrite lookup_flatten_other_version by exact NE. apply F.
Qed.

(* and the copy has entries only at V *)
Theorem flatten_only_at_V c V k' v : fresh c k' -> v <> V -> ent_of (copy_flat rho c V) k' v = None.
Proof.
  intros F NE. unfold ent_of, copy_flat. simpl. rewrite lookup_app, lookup_flatten_other_version by exact NE. apply F.
Qed.

Theorem flatten_source_unchanged c V k v :
  CoreInv c -> (forall k0, rho k0 <> Some k) ->
  get (copy_flat rho c V) k v = get c k v.
Proof.
  intros I H. unfold copy_flat. apply get_ext_store; [exact I|].
  intro w. rewrite lookup_app, lookup_flatten_other by exact H. reflexivity.
Qed.

End Rho.
