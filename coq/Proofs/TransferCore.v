(* The lineage reads of Model.Transfer are the reads of the DAG resolver (Model.Resolve.read, the subject of
   C01) whenever the ancestry of the version read is a chain whose ids ascend: the version-limited transfer
   theorem therefore speaks about the same notion of "read" as the rest of the development. *)
From DV Require Import Base.Prelude Model.Dag Model.Resolve Model.Transfer Proofs.Resolve Proofs.Transfer.
From Coq Require Import Lia.
Local Open Scope N_scope.

Section Lineage.
  Variable par : V -> list V.
  Variable rank : V -> nat.
  Hypothesis rank_par : forall v p, In p (par v) -> (rank p < rank v)%nat.
  Variable ent : V -> option entry.
  Variable fi f : nat.
  Hypothesis Hfi : forall x, (rank x < fi)%nat.
  Hypothesis Hf : forall x, (rank x < f)%nat.

  (* lin = v, its only parent, that one's only parent, ... down to a root *)
  Fixpoint is_chain (lin : list V) : Prop :=
    match lin with
    | [] => True
    | v :: r => match r with
                | [] => par v = []
                | p :: _ => par v = [p] /\ is_chain r
                end
    end.

  Fixpoint first_entry (lin : list V) : rres :=
    match lin with
    | [] => RNone
    | u :: r => match ent u with
                | Some (Val x) => RFound u x
                | Some Tomb => RNone
                | None => first_entry r
                end
    end.

  Lemma read_root_empty v : ent v = None -> par v = [] -> read par ent fi f v = RNone.
  Proof.
    intros Ev Pv. eapply (read_spec_det par ent v); [apply (read_correct par rank rank_par ent fi Hfi f v (Hf v))|].
    cbn. intros y [[Ay [Hy _]] _]. apply (anc_inv par) in Ay. destruct Ay as [->|(q & Hq & _)].
    - apply Hy. exact Ev.
    - rewrite Pv in Hq. exact Hq.
  Qed.

  Lemma lineage_read lin : forall v, is_chain (v :: lin) -> read par ent fi f v = first_entry (v :: lin).
  Proof.
    induction lin as [|p r IH]; intros v Hc; cbn [first_entry].
    - cbn in Hc. destruct (ent v) as [[x|]|] eqn:Ev.
      + apply (read_self par rank rank_par ent fi f v (Val x) Hfi (Hf v) Ev).
      + apply (read_self par rank rank_par ent fi f v Tomb Hfi (Hf v) Ev).
      + apply read_root_empty; assumption.
    - destruct Hc as [Pv Hr]. destruct (ent v) as [[x|]|] eqn:Ev.
      + apply (read_self par rank rank_par ent fi f v (Val x) Hfi (Hf v) Ev).
      + apply (read_self par rank rank_par ent fi f v Tomb Hfi (Hf v) Ev).
      + rewrite (read_inherit par rank rank_par ent fi f v p Hfi (Hf v) Ev Pv). apply IH. exact Hr.
  Qed.

  (* ---- the same read, computed from the stored entries in key order ---- *)
  Variable vb : N -> bytes.     (* the bytes of value x *)
  Definition tent_of (e : entry) : tent := match e with Val x => TVal (vb x) | Tomb => TTomb end.
  Definition es_of (asc : list V) : entries :=
    flat_map (fun u => match ent u with Some e => [(N.to_nat u, tent_of e)] | None => [] end) asc.
  Definition rview (r : rres) : option bytes := match r with RFound _ x => Some (vb x) | _ => None end.

  Lemma es_of_app a b : es_of (a ++ b) = es_of a ++ es_of b.
  Proof. unfold es_of. apply flat_map_app. Qed.

  Lemma first_entry_read_le lin t :
    (forall u, In u lin -> u <= t) ->
    rview (first_entry lin) = view (read_le None (es_of (rev lin)) (N.to_nat t)).
  Proof.
    induction lin as [|u r IH]; intro Hle; [reflexivity|].
    cbn [rev first_entry]. rewrite es_of_app, read_le_app.
    assert (Hu : u <= t) by (apply Hle; left; reflexivity).
    assert (IHr := IH (fun w Hw => Hle w (or_intror Hw))).
    unfold es_of at 2. cbn [flat_map]. rewrite app_nil_r.
    destruct (ent u) as [e|] eqn:Ev.
    - cbn [read_le]. destruct (Nat.leb_spec (N.to_nat u) (N.to_nat t)) as [_|Hbad]; [|lia].
      destruct e as [x|]; reflexivity.
    - cbn [read_le]. exact IHr.
  Qed.

  Fixpoint desc (l : list V) : Prop :=
    match l with
    | u :: r => match r with [] => True | w :: _ => w < u /\ desc r end
    | [] => True
    end.

  Lemma desc_lt l u w : desc (u :: l) -> In w l -> w < u.
  Proof.
    revert u. induction l as [|x r IH]; intros u Hd Hin; [contradiction|].
    destruct Hd as [Hx Hr]. destruct Hin as [->|Hin]; [exact Hx|]. specialize (IH x Hr Hin). lia.
  Qed.

  Lemma is_chain_suffix pre suf : is_chain (pre ++ suf) -> is_chain suf.
  Proof.
    induction pre as [|x r IH]; intro H; [exact H|]. apply IH. cbn [app] in H.
    destruct (r ++ suf) as [|p q] eqn:E; [destruct r, suf; try discriminate; exact I|]. destruct H as [_ H]. exact H.
  Qed.

  Lemma desc_suffix pre suf : desc (pre ++ suf) -> desc suf.
  Proof.
    induction pre as [|x r IH]; intro H; [exact H|]. apply IH. cbn [app] in H.
    destruct (r ++ suf) as [|p q] eqn:E; [destruct r, suf; try discriminate; exact I|]. destruct H as [_ H]. exact H.
  Qed.

  Lemma es_of_above l t : (forall u, In u l -> t < u) -> forall v e, In (v, e) (es_of l) -> (N.to_nat t < v)%nat.
  Proof.
    intros H v e Hin. unfold es_of in Hin. apply in_flat_map in Hin. destruct Hin as (u & Hu & Hin).
    destruct (ent u) as [e'|]; [|contradiction]. destruct Hin as [Heq|[]]. inversion Heq; subst.
    specialize (H u Hu). lia.
  Qed.

  (* reading the whole lineage's entries at a version t of the lineage = resolving at t *)
  Theorem lineage_src_read pre t suf :
    is_chain (pre ++ t :: suf) -> desc (pre ++ t :: suf) ->
    src_read (fun _ => true) (es_of (rev (pre ++ t :: suf))) (N.to_nat t) = rview (read par ent fi f t).
  Proof.
    intros Hc Hd. rewrite (lineage_read suf t (is_chain_suffix pre _ Hc)).
    assert (Hds : desc (t :: suf)) by (apply (desc_suffix pre); exact Hd).
    rewrite (first_entry_read_le (t :: suf) t).
    2:{ intros u [->|Hin]; [lia|]. assert (u < t) by (apply (desc_lt suf); assumption). lia. }
    unfold src_read. f_equal. unfold on_path.
    assert (Hfil : forall l : entries, filter (fun ve => (fun _ : nat => true) (fst ve)) l = l).
    { induction l as [|a l IHl]; [reflexivity|]. cbn [filter]. f_equal. exact IHl. }
    rewrite Hfil.
    rewrite rev_app_distr, es_of_app, read_le_app.
    apply read_le_all_above. apply es_of_above. intros u Hu. apply in_rev in Hu.
    (* every element of pre lies above t *)
    clear -Hd Hu. induction pre as [|x r IH]; [contradiction|].
    destruct Hu as [->|Hu].
    - apply (desc_lt (r ++ t :: suf)); [exact Hd|]. apply in_or_app. right. left. reflexivity.
    - apply IH; [|exact Hu]. apply (desc_suffix [x]). exact Hd.
  Qed.

  Lemma ascending_snoc lo a x :
    ascending lo a = true -> (lo < x)%nat -> (forall y, In y a -> (y < x)%nat) -> ascending lo (a ++ [x]) = true.
  Proof.
    revert lo. induction a as [|y r IH]; intros lo Ha Hlo Hall; cbn [app ascending] in *.
    - apply andb_true_intro. split; [apply Nat.ltb_lt; exact Hlo|reflexivity].
    - apply andb_prop in Ha. destruct Ha as [H1 H2]. rewrite H1. cbn [andb].
      apply IH; [exact H2|apply Hall; left; reflexivity|intros z Hz; apply Hall; right; exact Hz].
  Qed.

  Lemma es_of_below l t : (forall u, In u l -> u < t) -> forall v e, In (v, e) (es_of l) -> (v < N.to_nat t)%nat.
  Proof.
    intros H v e Hin. unfold es_of in Hin. apply in_flat_map in Hin. destruct Hin as (u & Hu & Hin).
    destruct (ent u) as [e'|]; [|contradiction]. destruct Hin as [Heq|[]]. inversion Heq; subst.
    specialize (H u Hu). lia.
  Qed.

  Lemma asc_es_of lin : desc lin -> (forall u, In u lin -> 0 < u) -> asc_es 0 (es_of (rev lin)) = true.
  Proof.
    induction lin as [|u r IH]; intros Hd Hpos; [reflexivity|].
    cbn [rev]. rewrite es_of_app. unfold es_of at 2. cbn [flat_map]. rewrite app_nil_r.
    assert (IHr : asc_es 0 (es_of (rev r)) = true).
    { apply IH; [apply (desc_suffix [u]); exact Hd|intros w Hw; apply Hpos; right; exact Hw]. }
    destruct (ent u) as [e|]; [|rewrite app_nil_r; exact IHr].
    unfold asc_es in *. rewrite map_app. cbn [map fst]. apply ascending_snoc; [exact IHr| |].
    - assert (0 < u) by (apply Hpos; left; reflexivity). lia.
    - intros y Hy. apply in_map_iff in Hy. destruct Hy as ([v e'] & <- & Hin). cbn [fst].
      apply (es_of_below (rev r) u) with (e := e'); [|exact Hin].
      intros w Hw. apply in_rev in Hw. apply (desc_lt r); assumption.
  Qed.

  (* The composite: after a version-limited transfer of a chain-shaped lineage, the destination answers at
     every transmitted version what the DAG resolver of C01 answers on the source. *)
  Theorem transfer_agrees_with_resolver lin ts t :
    is_chain lin -> desc lin -> (forall u, In u lin -> 0 < u) ->
    ascending 0 ts = true -> In t lin -> In (N.to_nat t) ts ->
    dst_read (transfer same_entry (fun _ => true) (es_of (rev lin)) ts) (N.to_nat t) = rview (read par ent fi f t).
  Proof.
    intros Hc Hd Hpos Hts Hin Htt.
    rewrite (transfer_reads_equal (fun _ => true) (es_of (rev lin)) ts (N.to_nat t) (asc_es_of lin Hd Hpos) Hts Htt).
    destruct (in_split t lin Hin) as (pre & suf & ->). apply lineage_src_read; assumption.
  Qed.
End Lineage.
