(* Proofs.LabelMapExamples: concrete histories — witnesses for the defects of the code as it
   stood, and a reachable state showing that the hypotheses of the theorems are inhabited. *)
From DV Require Import Base.Prelude Model.Index Model.LabelMap Model.LabelMapRun
     Proofs.Index Proofs.LabelMap Proofs.LabelMapVersions.
Local Open Scope N_scope.

Definition blk (l : list N) : list N := l ++ repeat 0 (8 - length l).

(* C08-1 *)
Definition hist_maplabel (fx : fixes) : res mstate :=
  run_ops fx m_init
    [ MData 0 (OIngest [(0, blk [1; 2; 2; 2])]);
      MNewVersion 0 1; MNewVersion 0 2;
      MData 2 (OMerge 1 [2]);
      MData 1 (OWrite [(0, blk [1; 2; 2; 0])]) ].

Lemma hist_maplabel_values :
  (match hist_maplabel unfixed with Ok s => o_size (view s 1) 2 | _ => 0 end) = 3 /\
  (match hist_maplabel all_fixed with Ok s => o_size (view s 1) 2 | _ => 0 end) = 2.
Proof. vm_compute. split; reflexivity. Qed.

(* C08-2 *)
Definition hist_renumber (fx : fixes) : res mstate :=
  run_ops fx m_init
    [ MData 0 (OIngest [(0, blk [1; 1; 2; 2; 3])]);
      MData 0 (OMerge 1 [2]);
      MData 0 (ORenumber 3 2) ].

Lemma hist_renumber_values :
  (match hist_renumber unfixed with
   | Ok s => (mapped (f_map (view s 0)) 2, o_size (view s 0) 1) | _ => (9, 9) end) = (0, 4) /\
  hist_renumber all_fixed = Err.
Proof. vm_compute. split; reflexivity. Qed.

(* C08-3 *)
Definition hist_revive (fx : fixes) : res mstate :=
  run_ops fx m_init
    [ MData 0 (OIngest [(0, blk [1; 2; 2])]);
      MData 0 (OMerge 1 [2]);
      MData 0 (OWrite [(0, blk [1; 0; 0])]);
      MData 0 (OWrite [(0, blk [1; 2; 2])]) ].

Lemma hist_revive_values :
  (match hist_revive unfixed with Ok s => o_size (view s 0) 1 | _ => 0 end) = 1 /\
  (match hist_revive all_fixed with Ok s => o_size (view s 0) 1 | _ => 0 end) = 3.
Proof. vm_compute. split; reflexivity. Qed.

(* a reachable state *)
Definition get_ok (r : res mstate) : mstate := match r with Ok s => s | _ => m_init end.
Definition exA := get_ok (mstep all_fixed m_init (MData 0 (OIngest [(0, blk [1; 2; 2; 2])]))).
Definition exB := get_ok (mstep all_fixed exA (MData 0 (OMerge 1 [2]))).
Definition exC := get_ok (mstep all_fixed exB (MNewVersion 0 1)).
Definition exD := get_ok (mstep all_fixed exC (MData 1 (OCleave 1 [2] 10))).

Lemma leaf_root s : m_anc s = [] -> leaf s 0.
Proof. intros H u Hu. unfold anc. rewrite H. simpl. intros [E|[]]. congruence. Qed.

Lemma reachable_example :
  exists s, reach all_fixed 8 s /\
            o_size (view s 0) 1 = 4 /\ o_size (view s 1) 1 = 1 /\ o_size (view s 1) 10 = 3 /\
            mapped (f_map (view s 1)) 2 = 10 /\ mapped (f_map (view s 0)) 2 = 1.
Proof.
  exists exD. split; [|vm_compute; repeat split; reflexivity].
  assert (reach all_fixed 8 exA) as RA.
  { eapply (reach_data all_fixed 8 m_init 0 (OIngest [(0, blk [1; 2; 2; 2])])).
    - apply reach_init.
    - now apply leaf_root.
    - change (view m_init 0) with f_empty. simpl. split; [reflexivity|]. split; [repeat constructor; simpl; tauto|].
      split.
      + intros b a [H|[]]. inversion H; subst. split; reflexivity.
      + intros b a s _ _ Hs. exact Hs.
    - reflexivity. }
  assert (reach all_fixed 8 exB) as RB.
  { eapply (reach_data all_fixed 8 exA 0 (OMerge 1 [2])).
    - exact RA.
    - now apply leaf_root.
    - simpl. intros [H|[]]. discriminate.
    - reflexivity. }
  assert (reach all_fixed 8 exC) as RC.
  { eapply (reach_new all_fixed 8 exB 0 1).
    - exact RB.
    - repeat split; intros k cl H; vm_compute in H;
        repeat match type of H with
               | (if ?c then _ else _) = _ => destruct c; [inversion H; reflexivity|]
               | match ?k with _ => _ end = _ => destruct k; try discriminate
               end; try discriminate; try (inversion H; reflexivity).
    - reflexivity. }
  eapply (reach_data all_fixed 8 exC 1 (OCleave 1 [2] 10)).
  - exact RC.
  - intros u Hu. unfold anc. change (m_anc exC) with [(1, [1; 0])]. simpl.
    destruct (u =? 1) eqn:E; [apply N.eqb_eq in E; congruence|]. intros [H|[]]. congruence.
  - remember (view exC 1) as vw eqn:Hv.
    assert (f_map vw = [(2, 1)]) as M by (subst; vm_compute; reflexivity).
    assert (f_vox vw = [(0, blk [1; 2; 2; 2])]) as X by (subst; vm_compute; reflexivity).
    assert (get_idx vw 10 = None) as G by (subst; vm_compute; reflexivity).
    unfold op_guard. split; [reflexivity|]. split; [discriminate|]. split; [exact G|]. split.
    + intro s. rewrite M. unfold mapped. simpl. destruct (s =? 2); [discriminate | auto].
    + intro b'. unfold vcount. rewrite X. simpl. destruct (b' =? 0); reflexivity.
  - reflexivity.
Qed.

(* the bulk load of two blocks with an agglomeration {2,3 -> 7}: the run and what it answers *)
Lemma offline_example :
  match fsteps all_fixed f_empty (offline_ops [(0, [1; 2; 2; 0]); (5, [3; 3; 1; 2])] [(2, 7); (3, 7)]) with
  | Ok st => (o_size st 1, o_size st 7, get_idx st 2, get_idx st 7)
  | _ => (0, 0, None, None)
  end = (2, 5, None, Some [((0, 2), 2); ((5, 3), 2); ((5, 2), 1)]).
Proof. vm_compute. reflexivity. Qed.

(* a body split whose guard holds and that is accepted: body 1 = {1,1} in block 0, the first voxel
   is split off into body 10 (supervoxel 1 -> split 11 / remain 12) *)
Definition exS0 : fstate := f_write all_fixed (mapped []) f_empty false [(0, [1; 1; 2; 0])].
Definition exSplit : op := OSplit 1 10 [(0, [true; false; false; false])] [(1, (11, 12))].

Lemma split_example :
  exists st', Inv 4 exS0 /\ op_guard all_fixed 4 exS0 exSplit /\
              fstep all_fixed (mapped (f_map exS0)) exS0 exSplit = Ok st' /\ Inv 4 st' /\
              (o_size exS0 1, o_size st' 1, o_size st' 10, o_supervoxels st' 1, o_supervoxels st' 10,
               aget N.eqb 0 (f_vox st')) = (2, 1, 1, [12], [11], Some [11; 12; 2; 0]).
Proof.
  assert (Inv 4 exS0) as I0.
  { apply (consistent_step all_fixed 4 f_empty (OIngest [(0, [1; 1; 2; 0])]) exS0); [reflexivity | | | reflexivity].
    - split; [apply consistent_init | intros b a H; discriminate].
    - simpl. split; [reflexivity|]. split; [repeat constructor; simpl; tauto|]. split.
      + intros b a [H|[]]. inversion H; subst. split; reflexivity.
      + intros b a s _ _ Hs. exact Hs. }
  assert (op_guard all_fixed 4 exS0 exSplit) as G.
  { assert (f_vox exS0 = [(0, [1; 1; 2; 0])]) as X by (vm_compute; reflexivity).
    assert (f_map exS0 = []) as M by (vm_compute; reflexivity).
    simpl. unfold split_guard. split; [discriminate|]. split; [vm_compute; reflexivity|].
    split; [repeat constructor; simpl; tauto|].
    split; [repeat constructor; simpl; intuition discriminate|]. split.
    - intros s sp re [H|[]]. inversion H; subst. split; [discriminate|]. split; [rewrite M; reflexivity|].
      split; (split; [discriminate|]); intro b; unfold vcount; rewrite X; simpl; destruct (b =? 0); reflexivity.
    - exists 0, 1, 11, 12. split; [now left | vm_compute; reflexivity]. }
  eexists. split; [exact I0|]. split; [exact G|].
  assert (exists st', fstep all_fixed (mapped (f_map exS0)) exS0 exSplit = Ok st') as [st' E] by (eexists; vm_compute; reflexivity).
  pose proof (consistent_step all_fixed 4 exS0 exSplit st' ltac:(reflexivity) I0 G E) as I1.
  vm_compute in E. apply Ok_inj in E. subst st'.
  split; [vm_compute; reflexivity|]. split; [exact I1|]. vm_compute. reflexivity.
Qed.
