(* Proofs.AnnotStore — the key->list stores, the grouping helpers and the labelsz count update. *)
From DV Require Import Base.Prelude Model.Annot Gen.Consts Proofs.AnnotBase.
From Coq Require Import Permutation.
Local Open Scope Z_scope.

Lemma fold_left_ext {A B} (f g : A -> B -> A) l a : (forall a b, f a b = g a b) -> fold_left f l a = fold_left g l a.
Proof. intro H. revert a. induction l as [|x l IH]; intro a; cbn; [reflexivity|]. now rewrite H, IH. Qed.

(* ---------- nodupb ---------- *)
Section NoDupB.
  Context {K : Type} (eqb : K -> K -> bool) (eqb_ok : forall a b, eqb a b = true <-> a = b).
  Lemma eqb_refl' a : eqb a a = true. Proof. now apply eqb_ok. Qed.
  Lemma eqb_false a b : eqb a b = false <-> a <> b.
  Proof. rewrite <- eqb_ok. destruct (eqb a b); intuition congruence. Qed.
  Lemma nodupb_In x l : In x (nodupb eqb l) <-> In x l.
  Proof.
    induction l as [|a l IH]; cbn; [tauto|]. rewrite filter_In, IH, negb_true_iff, eqb_false.
    destruct (eqb a x) eqn:E.
    - apply eqb_ok in E. subst. tauto.
    - apply eqb_false in E. tauto.
  Qed.
  Lemma nodupb_NoDup l : NoDup (nodupb eqb l).
  Proof.
    induction l as [|a l IH]; cbn; constructor.
    - rewrite filter_In, negb_true_iff, eqb_false. tauto.
    - now apply NoDup_filter.
  Qed.
  Lemma existsb_eqb_In k l : existsb (fun x => eqb x k) l = true <-> In k l.
  Proof.
    rewrite existsb_exists. split.
    - intros [x [Hx E]]. apply eqb_ok in E. now subst.
    - intro H. exists k. split; [assumption | apply eqb_refl'].
  Qed.

  (* ---------- amap ---------- *)
  Lemma aget_aput k v (m : amap K) k' : aget eqb (aput k v m) k' = if eqb k k' then v else aget eqb m k'.
  Proof. reflexivity. Qed.

  Lemma fold_put_get {X} (g : X -> K) (c : K -> bool) (f : K -> list elem) xs m0 k' :
    aget eqb (fold_left (fun acc x => if c (g x) then aput (g x) (f (g x)) acc else acc) xs m0) k'
    = if existsb (fun x => eqb (g x) k') xs && c k' then f k' else aget eqb m0 k'.
  Proof.
    revert m0. induction xs as [|x xs IH]; intro m0; cbn; [reflexivity|].
    rewrite IH.
    assert (Hput : aget eqb (if c (g x) then aput (g x) (f (g x)) m0 else m0) k'
                   = if eqb (g x) k' && c k' then f k' else aget eqb m0 k').
    { destruct (eqb (g x) k') eqn:E2.
      - apply eqb_ok in E2. subst k'. cbn [andb]. destruct (c (g x)); [|reflexivity].
        rewrite aget_aput, eqb_refl'. reflexivity.
      - cbn [andb]. destruct (c (g x)); [|reflexivity]. rewrite aget_aput, E2. reflexivity. }
    rewrite Hput.
    destruct (existsb (fun x0 => eqb (g x0) k') xs), (eqb (g x) k'), (c k'); reflexivity.
  Qed.

  Lemma fold_put_get_id (c : K -> bool) (f : K -> list elem) ks m0 k' :
    aget eqb (fold_left (fun acc k => if c k then aput k (f k) acc else acc) ks m0) k'
    = if existsb (fun k => eqb k k') ks && c k' then f k' else aget eqb m0 k'.
  Proof. exact (fold_put_get (fun x => x) c f ks m0 k'). Qed.

  Lemma akeys_In k (m : amap K) : In k (akeys eqb m) <-> In k (map fst m).
  Proof. apply nodupb_In. Qed.
  Lemma aget_nokey k (m : amap K) : ~ In k (map fst m) -> aget eqb m k = [].
  Proof.
    induction m as [|[k' v] m IH]; cbn; intro H; [reflexivity|].
    destruct (eqb k' k) eqn:E; [apply eqb_ok in E; subst; tauto|]. apply IH. tauto.
  Qed.
  Lemma aget_nonempty_key k (m : amap K) x : In x (aget eqb m k) -> In k (akeys eqb m).
  Proof.
    intro H. apply akeys_In. destruct (in_dec (fun a b => match eqb a b as r return (eqb a b = r -> _) with
      | true => fun E => left (proj1 (eqb_ok a b) E)
      | false => fun E => right (proj1 (eqb_false a b) E) end eq_refl) k (map fst m)); [assumption|].
    rewrite aget_nokey in H by assumption. contradiction.
  Qed.
End NoDupB.

Lemma N_eqb_ok a b : (a =? b)%N = true <-> a = b. Proof. apply N.eqb_eq. Qed.
Lemma ckey_eqb_ok a b : ckey_eqb a b = true <-> a = b.
Proof.
  destruct a as [i l], b as [i' l']. unfold ckey_eqb. cbn. rewrite andb_true_iff, !N.eqb_eq.
  split; [intros [-> ->]; reflexivity | intro H; inversion H; auto].
Qed.

Lemma bget_aput k v m k' : bget (aput k v m) k' = if pos_eqb k k' then v else bget m k'.
Proof. reflexivity. Qed.
Lemma nget_aput k v m k' : nget (aput k v m) k' = if (k =? k')%N then v else nget m k'.
Proof. reflexivity. Qed.

(* ---------- lgroups ---------- *)
Lemma lg_get_cons l v g l' : lg_get ((l, v) :: g) l' = if (l =? l')%N then v else lg_get g l'.
Proof. reflexivity. Qed.

Lemma label_groups_get (bodyf : pos -> N) es l : l <> 0%N ->
  lg_get (label_groups bodyf es) l = map nr (filter (fun e => (bodyf (e_pos e) =? l)%N) es).
Proof.
  intro Hl. unfold label_groups.
  assert (H : forall g, lg_get (fold_left (fun g e => lg_add g (bodyf (e_pos e)) (nr e)) es g) l
                        = lg_get g l ++ map nr (filter (fun e => (bodyf (e_pos e) =? l)%N) es)).
  { induction es as [|e es IH]; intro g; cbn; [now rewrite app_nil_r|].
    rewrite IH. unfold lg_add. destruct (bodyf (e_pos e) =? 0)%N eqn:E0.
    - apply N.eqb_eq in E0. rewrite E0. destruct (0 =? l)%N eqn:E1; [apply N.eqb_eq in E1; congruence|]. reflexivity.
    - rewrite lg_get_cons. destruct (bodyf (e_pos e) =? l)%N eqn:E1.
      + apply N.eqb_eq in E1. subst l. cbn. rewrite <- app_assoc. reflexivity.
      + reflexivity. }
  rewrite H. reflexivity.
Qed.
Lemma label_groups_get0 (bodyf : pos -> N) es : lg_get (label_groups bodyf es) 0%N = [].
Proof.
  unfold label_groups.
  assert (H : forall g, lg_get g 0%N = [] -> lg_get (fold_left (fun g e => lg_add g (bodyf (e_pos e)) (nr e)) es g) 0%N = []).
  { induction es as [|e es IH]; intros g Hg; cbn; [exact Hg|]. apply IH. unfold lg_add.
    destruct (bodyf (e_pos e) =? 0)%N eqn:E0; [exact Hg|]. rewrite lg_get_cons, E0. exact Hg. }
  apply H. reflexivity.
Qed.
Lemma lg_keys_In l g : In l (lg_keys g) <-> In l (map fst g).
Proof. apply nodupb_In. exact N_eqb_ok. Qed.
Lemma lg_get_nokey l g : ~ In l (map fst g) -> lg_get g l = [].
Proof.
  induction g as [|[l' v] g IH]; cbn; intro H; [reflexivity|].
  destruct (l' =? l)%N eqn:E; [apply N.eqb_eq in E; subst; tauto|]. apply IH. tauto.
Qed.

Lemma tag_groups_In es t x : (forall e, In e es -> NoDup (e_tags e)) ->
  (In x (lg_get (tag_groups es) t) <-> exists e, In e es /\ x = nr e /\ In t (e_tags e)).
Proof.
  intro Hnd. unfold tag_groups.
  assert (Hin : forall e ts g, In x (lg_get (fold_left (fun g t' => (t', lg_get g t' ++ [nr e]) :: g) ts g) t)
                               <-> In x (lg_get g t) \/ (x = nr e /\ In t ts)).
  { intros e ts. induction ts as [|t' ts IH]; intro g; cbn; [tauto|].
    rewrite IH, lg_get_cons. destruct (t' =? t)%N eqn:E.
    - apply N.eqb_eq in E. subst. rewrite in_app_iff. cbn. intuition.
    - apply N.eqb_neq in E. intuition. }
  assert (H : forall g, In x (lg_get (fold_left (fun g e => fold_left (fun g t' => (t', lg_get g t' ++ [nr e]) :: g) (e_tags e) g) es g) t)
                        <-> In x (lg_get g t) \/ exists e, In e es /\ x = nr e /\ In t (e_tags e)).
  { clear Hnd. induction es as [|e es IH]; intro g; cbn.
    - split; [tauto|]. intros [H|[e [[] _]]]. exact H.
    - rewrite IH, Hin. split.
      + intros [[H|[H1 H2]]|[e' [H1 H2]]]; [now left | right; exists e; tauto | right; exists e'; tauto].
      + intros [H|[e' [[<-|H1] H2]]]; [tauto | tauto | right; exists e'; tauto]. }
  rewrite H. cbn. tauto.
Qed.

Lemma tag_groups_posl es t : (forall e, In e es -> NoDup (e_tags e)) ->
  posl (lg_get (tag_groups es) t) = posl (filter (has_tag t) es).
Proof.
  intro Hnd. unfold tag_groups.
  assert (Hin : forall e ts g, NoDup ts ->
            posl (lg_get (fold_left (fun g t' => (t', lg_get g t' ++ [nr e]) :: g) ts g) t)
            = posl (lg_get g t) ++ (if memN t ts then [e_pos e] else [])).
  { intros e ts. induction ts as [|t' ts IH]; intros g ND; cbn; [now rewrite app_nil_r|].
    apply NoDup_cons_iff in ND as [Hn ND]. rewrite IH by exact ND. rewrite lg_get_cons.
    destruct (t' =? t)%N eqn:E.
    - apply N.eqb_eq in E. subst. rewrite N.eqb_refl. cbn.
      apply memN_nIn in Hn. rewrite Hn. rewrite posl_app. cbn. now rewrite app_nil_r.
    - rewrite N.eqb_sym, E. reflexivity. }
  assert (H : forall g, posl (lg_get (fold_left (fun g e => fold_left (fun g t' => (t', lg_get g t' ++ [nr e]) :: g) (e_tags e) g) es g) t)
                        = posl (lg_get g t) ++ posl (filter (has_tag t) es)).
  { induction es as [|e es IH]; intro g; cbn; [now rewrite app_nil_r|].
    rewrite IH by (intros; apply Hnd; now right). rewrite Hin by (apply Hnd; now left).
    unfold has_tag at 2. destruct (memN t (e_tags e)); cbn; rewrite <- app_assoc; reflexivity. }
  rewrite H. reflexivity.
Qed.

Lemma groups_store_get g l : nget (groups_store g) l = lg_get g l.
Proof.
  unfold groups_store, nget.
  pose proof (fold_put_get N.eqb N_eqb_ok (fun x => x) (fun _ => true) (lg_get g) (lg_keys g) [] l) as H.
  cbn beta iota in H. rewrite H. rewrite andb_true_r. cbn [aget].
  destruct (existsb (fun x => (x =? l)%N) (lg_keys g)) eqn:E; [reflexivity|].
  symmetry. apply lg_get_nokey. intro Hi. apply lg_keys_In in Hi.
  apply (existsb_eqb_In N.eqb N_eqb_ok) in Hi. congruence.
Qed.

(* ---------- labelsz ---------- *)
Definition dcount (i l : N) (xs : list lk) : Z :=
  Z.of_nat (length (filter (fun x => (fst x =? l)%N && idx_match i (snd x)) xs)).

Lemma kind_idx_not_allsyn k : (kind_idx k =? n_sz_AllSyn)%N = false.
Proof. unfold kind_idx. repeat match goal with |- context [if ?c then _ else _] => destruct c end; reflexivity. Qed.

Lemma count_key_sz_keys i l x :
  count_key (i, l) (sz_keys x) = if (fst x =? l)%N && idx_match i (snd x) then 1 else 0.
Proof.
  destruct x as [l' k]. unfold count_key, sz_keys, idx_match, ckey_eqb. cbn [fst snd].
  pose proof (kind_idx_not_allsyn k) as Hk. apply N.eqb_neq in Hk.
  destruct (is_syn k); cbn [filter fst snd];
    repeat match goal with
           | |- context [(?a =? ?b)%N] =>
             let E := fresh "E" in destruct (a =? b)%N eqn:E; [apply N.eqb_eq in E | apply N.eqb_neq in E]
           end; subst; cbn; try reflexivity; try congruence.
Qed.
Lemma count_key_app k a b : count_key k (a ++ b) = count_key k a + count_key k b.
Proof. unfold count_key. rewrite filter_app, app_length, Nat2Z.inj_add. reflexivity. Qed.
Lemma count_key_flat i l xs : count_key (i, l) (flat_map sz_keys xs) = dcount i l xs.
Proof.
  unfold dcount. induction xs as [|x xs IH]; cbn [flat_map filter]; [reflexivity|].
  rewrite count_key_app, IH, count_key_sz_keys.
  destruct ((fst x =? l)%N && idx_match i (snd x)); cbn [length]; rewrite ?Nat2Z.inj_succ; glia.
Qed.
Lemma dcount_nil i l : dcount i l [] = 0. Proof. reflexivity. Qed.
Lemma dcount_cons i l x r : dcount i l (x :: r) = (if (fst x =? l)%N && idx_match i (snd x) then 1 else 0) + dcount i l r.
Proof.
  unfold dcount. cbn [filter]. destruct ((fst x =? l)%N && idx_match i (snd x)); cbn [length]; rewrite ?Nat2Z.inj_succ; glia.
Qed.
Lemma dcount_app i l a b : dcount i l (a ++ b) = dcount i l a + dcount i l b.
Proof. unfold dcount. rewrite filter_app, app_length, Nat2Z.inj_add. reflexivity. Qed.
Lemma d_add_snd d x : snd (d_add d x) = snd d. Proof. reflexivity. Qed.
Lemma d_del_fst d x : fst (d_del d x) = fst d. Proof. reflexivity. Qed.
Lemma dcount_d_add i l d x : dcount i l (fst (d_add d x)) = dcount i l (fst d) + (if (fst x =? l)%N && idx_match i (snd x) then 1 else 0).
Proof.
  unfold d_add. cbn [fst]. rewrite dcount_app. unfold dcount at 2. cbn [filter].
  destruct ((fst x =? l)%N && idx_match i (snd x)); reflexivity.
Qed.
Lemma dcount_d_del i l d x : dcount i l (snd (d_del d x)) = dcount i l (snd d) + (if (fst x =? l)%N && idx_match i (snd x) then 1 else 0).
Proof.
  unfold d_del. cbn [snd]. rewrite dcount_app. unfold dcount at 2. cbn [filter].
  destruct ((fst x =? l)%N && idx_match i (snd x)); reflexivity.
Qed.

Lemma dcount_nonneg i l a : 0 <= dcount i l a. Proof. unfold dcount. apply Nat2Z.is_nonneg. Qed.
Lemma count_key_notin k l : ~ In k l -> count_key k l = 0.
Proof.
  intro H. unfold count_key. replace (filter (ckey_eqb k) l) with (@nil ckey); [reflexivity|].
  symmetry. induction l as [|a l IH]; cbn; [reflexivity|].
  destruct (ckey_eqb k a) eqn:E; [apply ckey_eqb_ok in E; subst; exfalso; apply H; now left|].
  apply IH. intro; apply H; now right.
Qed.

Lemma cget_cput k v m k' : cget (cput k v m) k' = if ckey_eqb k k' then v else cget m k'.
Proof. reflexivity. Qed.

Lemma fold_cput_get (c : ckey -> bool) (f : ckey -> Z) ks m0 k' :
  cget (fold_left (fun acc k => if c k then acc else cput k (f k) acc) ks m0) k'
  = if existsb (fun k => ckey_eqb k k') ks && negb (c k') then f k' else cget m0 k'.
Proof.
  revert m0. induction ks as [|x ks IH]; intro m0; cbn; [reflexivity|].
  rewrite IH.
  assert (Hput : cget (if c x then m0 else cput x (f x) m0) k'
                 = if ckey_eqb x k' && negb (c k') then f k' else cget m0 k').
  { destruct (ckey_eqb x k') eqn:E2.
    - apply ckey_eqb_ok in E2. subst k'. cbn [andb]. destruct (c x); cbn [negb]; [reflexivity|].
      rewrite cget_cput. assert (H : ckey_eqb x x = true) by now apply ckey_eqb_ok. now rewrite H.
    - cbn [andb]. destruct (c x); [reflexivity|]. rewrite cget_cput, E2. reflexivity. }
  rewrite Hput.
  destruct (existsb (fun k => ckey_eqb k k') ks), (ckey_eqb x k'), (c k'); reflexivity.
Qed.

(* the count after a sync message, whenever the true new count is not negative *)
Lemma sz_apply_get c d i l :
  0 <= cget c (i, l) -> 0 <= cget c (i, l) + dcount i l (fst d) - dcount i l (snd d) ->
  cget (sz_apply c d) (i, l) = cget c (i, l) + dcount i l (fst d) - dcount i l (snd d).
Proof.
  intros H0 H1. unfold sz_apply.
  set (ka := flat_map sz_keys (fst d)). set (kd := flat_map sz_keys (snd d)).
  etransitivity.
  { exact (fold_cput_get (fun k => count_key k ka - count_key k kd =? 0)
             (fun k => cget c k + (if (count_key k ka - count_key k kd <? 0) && (cget c k <? - (count_key k ka - count_key k kd))
                                   then - cget c k else count_key k ka - count_key k kd))
             (nodupb ckey_eqb (ka ++ kd)) c (i, l)). }
  unfold ka, kd. rewrite !count_key_flat.
  set (a := dcount i l (fst d)) in *. set (b := dcount i l (snd d)) in *.
  destruct (a - b =? 0) eqn:E0.
  - apply Z.eqb_eq in E0. rewrite andb_false_r. lia.
  - cbn [negb]. rewrite andb_true_r.
    destruct (existsb (fun k => ckey_eqb k (i, l)) (nodupb ckey_eqb (flat_map sz_keys (fst d) ++ flat_map sz_keys (snd d)))) eqn:E1.
    + destruct ((a - b <? 0) && (cget c (i, l) <? - (a - b))) eqn:E2; [|lia].
      apply andb_true_iff in E2 as [E2 E3]. apply Z.ltb_lt in E2, E3. lia.
    + exfalso. apply Z.eqb_neq in E0. apply E0.
      assert (Hn : ~ In (i, l) (flat_map sz_keys (fst d) ++ flat_map sz_keys (snd d))).
      { intro Hi. apply (nodupb_In ckey_eqb ckey_eqb_ok) in Hi.
        apply (existsb_eqb_In ckey_eqb ckey_eqb_ok) in Hi. congruence. }
      rewrite in_app_iff in Hn. unfold a, b. rewrite <- !count_key_flat.
      rewrite !count_key_notin by tauto. reflexivity.
Qed.

(* counting in element lists *)
Lemma count_idx_app i a b : count_idx i (a ++ b) = count_idx i a + count_idx i b.
Proof. unfold count_idx. rewrite filter_app, app_length, Nat2Z.inj_add. reflexivity. Qed.
Lemma count_idx_cons i a r : count_idx i (a :: r) = (if idx_match i (e_kind a) then 1 else 0) + count_idx i r.
Proof. unfold count_idx. cbn [filter]. destruct (idx_match i (e_kind a)); cbn [length]; rewrite ?Nat2Z.inj_succ; glia. Qed.
Lemma dcount_relabel i l (lf : elem -> N) el : l <> 0%N ->
  dcount i l (map (fun e => (lf e, e_kind e)) (filter (fun e => negb (lf e =? 0)%N) el)) = count_idx i (filter (fun e => (lf e =? l)%N) el).
Proof.
  intro Hl. induction el as [|a el IH]; cbn [filter map]; [reflexivity|].
  destruct (lf a =? 0)%N eqn:E0; cbn [negb].
  - apply N.eqb_eq in E0. assert (E1 : (lf a =? l)%N = false) by (apply N.eqb_neq; congruence). rewrite E1. exact IH.
  - cbn [map]. rewrite dcount_cons. cbn [fst snd]. destruct (lf a =? l)%N; cbn [andb]; [rewrite count_idx_cons|]; lia.
Qed.
Lemma count_idx_nonneg i a : 0 <= count_idx i a. Proof. unfold count_idx. apply Nat2Z.is_nonneg. Qed.
Lemma count_idx_perm i a b : Permutation a b -> count_idx i a = count_idx i b.
Proof.
  intro P. unfold count_idx. f_equal. apply Permutation_length.
  induction P; cbn.
  - constructor.
  - destruct (idx_match i (e_kind x)); [now constructor | assumption].
  - destruct (idx_match i (e_kind x)), (idx_match i (e_kind y)); try reflexivity. apply perm_swap.
  - eapply perm_trans; eauto.
Qed.
Lemma count_idx_map_nr i a : count_idx i (map nr a) = count_idx i a.
Proof. unfold count_idx in *. induction a as [|x a IH]; cbn; [reflexivity|]. destruct (idx_match i (e_kind x)); cbn [length]; rewrite ?Nat2Z.inj_succ; rewrite ?IH; reflexivity. Qed.
Lemma count_idx_map_kind i (f : elem -> elem) a : (forall e, e_kind (f e) = e_kind e) -> count_idx i (map f a) = count_idx i a.
Proof.
  intro Hf. unfold count_idx in *. induction a as [|x a IH]; cbn; [reflexivity|]. rewrite Hf.
  destruct (idx_match i (e_kind x)); cbn [length]; rewrite ?Nat2Z.inj_succ; rewrite ?IH; reflexivity.
Qed.
Lemma dcount_map i l l' (a : list elem) :
  dcount i l (map (fun e => (l', e_kind e)) a) = if (l' =? l)%N then count_idx i a else 0.
Proof.
  unfold dcount, count_idx. induction a as [|x a IH]; cbn [map filter fst snd]; [destruct (l' =? l)%N; reflexivity|].
  destruct (l' =? l)%N eqn:E; cbn [andb] in *.
  - destruct (idx_match i (e_kind x)); cbn [length]; rewrite ?Nat2Z.inj_succ; rewrite ?IH; reflexivity.
  - exact IH.
Qed.
