(* Proofs.CRC: linearity of the bitwise CRC and the error-detection facts C15 needs. *)
From DV Require Import Base.Prelude Model.CRC.
Local Open Scope N_scope.

Lemma lxor_lt_pow2 a b n : a < 2^n -> b < 2^n -> N.lxor a b < 2^n.
Proof.
  intros Ha Hb.
  destruct (N.eq_dec (N.lxor a b) 0) as [E|NE].
  - rewrite E. apply N.neq_0_lt_0. apply N.pow_nonzero. discriminate.
  - apply N.log2_lt_pow2; [apply N.neq_0_lt_0; exact NE|].
    eapply N.le_lt_trans; [apply N.log2_lxor|].
    apply N.max_lub_lt.
    + destruct (N.eq_dec a 0) as [->|Na].
      * simpl. destruct (N.eq_dec b 0) as [->|Nb]; [rewrite N.lxor_0_l in NE; congruence|].
        eapply N.le_lt_trans; [apply N.le_0_l|]. apply N.log2_lt_pow2; [apply N.neq_0_lt_0; exact Nb|exact Hb].
      * apply N.log2_lt_pow2; [apply N.neq_0_lt_0; exact Na|exact Ha].
    + destruct (N.eq_dec b 0) as [->|Nb].
      * simpl. destruct (N.eq_dec a 0) as [->|Na]; [rewrite N.lxor_0_l in NE; congruence|].
        eapply N.le_lt_trans; [apply N.le_0_l|]. apply N.log2_lt_pow2; [apply N.neq_0_lt_0; exact Na|exact Ha].
      * apply N.log2_lt_pow2; [apply N.neq_0_lt_0; exact Nb|exact Hb].
Qed.

Definition w32 (s : N) : Prop := s < 2^32.

Lemma crc_poly_w32 : w32 crc_poly.
Proof. unfold w32, crc_poly. reflexivity. Qed.

Lemma shiftr1_lt s : s < 2^32 -> N.shiftr s 1 < 2^31.
Proof.
  intro H. rewrite N.shiftr_div_pow2. change (2^1) with 2.
  apply N.div_lt_upper_bound; [discriminate|]. change (2 * 2^31) with (2^32). exact H.
Qed.

Lemma crc_bit_w32 s : w32 s -> w32 (crc_bit s).
Proof.
  unfold w32, crc_bit. intro H. apply lxor_lt_pow2.
  - eapply N.lt_trans; [apply shiftr1_lt; exact H|]. reflexivity.
  - destruct (N.testbit s 0); reflexivity.
Qed.

Lemma crc_bit_linear a b : crc_bit (N.lxor a b) = N.lxor (crc_bit a) (crc_bit b).
Proof.
  unfold crc_bit. rewrite N.shiftr_lxor, N.lxor_spec.
  destruct (N.testbit a 0), (N.testbit b 0); cbn [xorb];
    rewrite ?N.lxor_0_r; apply N.bits_inj; intro k; rewrite !N.lxor_spec;
    repeat match goal with |- context [N.testbit ?x ?kk] => destruct (N.testbit x kk) end; reflexivity.
Qed.

Lemma crc_bit_0 : crc_bit 0 = 0.
Proof. reflexivity. Qed.

Lemma crc_bit_nonzero s : w32 s -> s <> 0 -> crc_bit s <> 0.
Proof.
  unfold w32. intros Hs Hn E.
  unfold crc_bit in E. destruct (N.testbit s 0) eqn:Hodd.
  - (* bit 31 of the result is set *)
    assert (B : N.testbit (N.lxor (N.shiftr s 1) crc_poly) 31 = true).
    { rewrite N.lxor_spec, N.shiftr_spec by apply N.le_0_l.
      replace (N.testbit s (31 + 1)) with false.
      - reflexivity.
      - symmetry. change (31+1) with 32.
        destruct (N.eq_dec s 0) as [->|Ns]; [reflexivity|].
        apply N.bits_above_log2. apply N.log2_lt_pow2; [apply N.neq_0_lt_0; exact Ns|exact Hs]. }
    rewrite E in B. discriminate.
  - rewrite N.lxor_0_r in E.
    apply N.shiftr_eq_0_iff in E. destruct E as [E|[_ E]]; [contradiction|].
    (* log2 s < 1 and s even and s <> 0: impossible *)
    assert (s = 1).
    { assert (L : s < 2^1) by (apply N.log2_lt_pow2; [apply N.neq_0_lt_0; exact Hn|exact E]).
      change (2^1) with 2 in L. clear - L Hn. lia. }
    subst s. discriminate.
Qed.

Lemma crc_bits8_linear a b : crc_bits8 (N.lxor a b) = N.lxor (crc_bits8 a) (crc_bits8 b).
Proof. unfold crc_bits8. now rewrite !crc_bit_linear. Qed.

Lemma crc_bits8_w32 s : w32 s -> w32 (crc_bits8 s).
Proof. intro H. unfold crc_bits8. repeat apply crc_bit_w32. exact H. Qed.

Lemma crc_bits8_nonzero s : w32 s -> s <> 0 -> crc_bits8 s <> 0.
Proof.
  intros H Hn. unfold crc_bits8.
  repeat (apply crc_bit_nonzero; [repeat apply crc_bit_w32; exact H|]). exact Hn.
Qed.

Lemma byte_w32 b : byte_ok b -> w32 b.
Proof. unfold byte_ok, w32. intro H. eapply N.lt_trans; [exact H|reflexivity]. Qed.

Lemma crc_byte_w32 s b : w32 s -> byte_ok b -> w32 (crc_byte s b).
Proof.
  intros Hs Hb. unfold crc_byte. apply crc_bits8_w32. apply lxor_lt_pow2; [exact Hs|apply byte_w32; exact Hb].
Qed.

Lemma crc_update_w32 l : forall s, w32 s -> bytes_ok l -> w32 (crc_update s l).
Proof.
  induction l as [|b l IH]; intros s Hs Hl; [exact Hs|].
  inversion Hl; subst. cbn [crc_update fold_left]. apply IH; [apply crc_byte_w32; assumption|assumption].
Qed.

(* difference propagation: two runs from states s and s xor d over the same bytes *)
Fixpoint zrun (n : nat) (d : N) : N :=
  match n with O => d | S n' => zrun n' (crc_bits8 d) end.

Lemma crc_update_diff l : forall s d,
  crc_update (N.lxor s d) l = N.lxor (crc_update s l) (zrun (length l) d).
Proof.
  induction l as [|b l IH]; intros s d; [reflexivity|].
  change (crc_update (N.lxor s d) (b :: l)) with (crc_update (crc_byte (N.lxor s d) b) l).
  change (crc_update s (b :: l)) with (crc_update (crc_byte s b) l).
  cbn [length zrun].
  assert (crc_byte (N.lxor s d) b = N.lxor (crc_byte s b) (crc_bits8 d)) as ->.
  { unfold crc_byte. rewrite <- crc_bits8_linear. f_equal.
    rewrite !N.lxor_assoc. f_equal. apply N.lxor_comm. }
  apply IH.
Qed.

Lemma zrun_nonzero n : forall d, w32 d -> d <> 0 -> zrun n d <> 0.
Proof.
  induction n as [|n IH]; intros d Hd Hn; [exact Hn|].
  cbn [zrun]. apply IH; [apply crc_bits8_w32; exact Hd|apply crc_bits8_nonzero; assumption].
Qed.

Lemma lxor_cancel_neq a b c : N.lxor a c = N.lxor b c -> a = b.
Proof.
  intro E. apply (f_equal (fun x => N.lxor x c)) in E.
  now rewrite !N.lxor_assoc, !N.lxor_nilpotent, !N.lxor_0_r in E.
Qed.

(* Any alteration confined to one byte position changes the CRC. *)
Theorem crc32_single_byte l1 b b' l2 :
  byte_ok b -> byte_ok b' -> b <> b' ->
  crc32 (l1 ++ b :: l2) <> crc32 (l1 ++ b' :: l2).
Proof.
  intros Hb Hb' Hne E. unfold crc32 in E. apply lxor_cancel_neq in E.
  unfold crc_update in E. rewrite !fold_left_app in E. cbn [fold_left] in E.
  fold (crc_update crc_mask l1) in E. set (s := crc_update crc_mask l1) in *.
  fold (crc_update (crc_byte s b) l2) in E. fold (crc_update (crc_byte s b') l2) in E.
  set (d := crc_bits8 (N.lxor b b')).
  assert (Hd : crc_byte s b' = N.lxor (crc_byte s b) d).
  { unfold crc_byte, d. rewrite <- crc_bits8_linear. f_equal.
    rewrite N.lxor_assoc. f_equal. rewrite <- N.lxor_assoc, N.lxor_nilpotent. now rewrite N.lxor_0_l. }
  rewrite Hd, crc_update_diff in E.
  assert (Z : zrun (length l2) d = 0).
  { apply (f_equal (N.lxor (crc_update (crc_byte s b) l2))) in E.
    now rewrite <- N.lxor_assoc, !N.lxor_nilpotent, N.lxor_0_l in E. }
  revert Z. apply zrun_nonzero.
  - unfold d. apply crc_bits8_w32. apply lxor_lt_pow2; apply byte_w32; assumption.
  - unfold d. apply crc_bits8_nonzero.
    + apply lxor_lt_pow2; apply byte_w32; assumption.
    + intro X. apply N.lxor_eq in X. contradiction.
Qed.

Lemma crc32_w32 l : bytes_ok l -> w32 (crc32 l).
Proof.
  intro H. unfold crc32. apply lxor_lt_pow2; [|reflexivity].
  apply crc_update_w32; [reflexivity|exact H].
Qed.
