(* Proofs.CoreGate: the gate composed with the history machine. *)
From Coq Require Import String List Bool.
From DV Require Import Base.Prelude Model.Dag Model.Resolve Model.Core Base.GateTypes Gen.Routes Model.Gate
  Model.CoreGate Proofs.Resolve Proofs.Core Proofs.Gate.
Import ListNotations.
Local Open Scope N_scope.

(* an endpoint whose POST and DELETE are ordinary mutations: not served before the gate, not on
   the audited read-only list *)
Definition plain_endpoint (pkg kw : string) : Prop :=
  ~ In kw ["blobstore"%string] /\ ~ In (pkg, kw, "post"%string) proved_readonly /\ ~ In (pkg, kw, "delete"%string) proved_readonly.

Lemma post_is_mutation : In "post"%string write_methods /\ In "delete"%string write_methods.
Proof. vm_compute. auto 10. Qed.

(* in default mode without the token, the gated machine IS the machine of Model.Core: the gate
   refuses a data write exactly on committed versions *)
Theorem gated_default_is_step : forall pkg kw c o, plain_endpoint pkg kw ->
  gated_step mode_default false pkg kw c o = step c o.
Proof.
  intros pkg kw c o (Hs & Hp & Hd). destruct post_is_mutation as [Mp Md].
  destruct o as [k v x|k v|v a|ps a|k v]; try reflexivity; unfold gated_step, step, writable.
  - destruct (mem v (nodes c)); cbn [negb andb]; [|reflexivity].
    destruct (mem v (locked c)); cbn [negb].
    + rewrite (gate_any_keyword pkg kw "post" Mp Hs Hp). reflexivity.
    + rewrite open_node_writable. reflexivity.
  - destruct (mem v (nodes c)); cbn [negb andb]; [|reflexivity].
    destruct (mem v (locked c)); cbn [negb].
    + rewrite (gate_any_keyword pkg kw "delete" Md Hs Hd). reflexivity.
    + rewrite open_node_writable. reflexivity.
Qed.

Lemma gated_default_is_run pkg kw ops : plain_endpoint pkg kw ->
  forall c, gated_run mode_default false pkg kw ops c = run ops c.
Proof.
  intro P. induction ops as [|o ops IH]; intro c; [reflexivity|].
  unfold gated_run, run. cbn [fold_left]. rewrite gated_default_is_step by exact P. apply IH.
Qed.

(* one step of Core never touches the store entries of a committed version *)
Lemma step_store_locked c o k v : In v (locked c) ->
  lookup_kv k v (store (fst (step c o))) = lookup_kv k v (store c).
Proof.
  intro Hv. destruct o as [k' w x|k' w|w a|ps a|k' w]; cbn [step].
  - destruct (writable c w) eqn:W; [|reflexivity]. cbn [fst store lookup_kv].
    destruct ((k =? k') && (v =? w)) eqn:E; [|reflexivity].
    apply andb_true_iff in E. destruct E as [_ E]. apply N.eqb_eq in E. subst w.
    apply writable_spec in W. destruct W. contradiction.
  - destruct (writable c w) eqn:W; [|reflexivity]. cbn [fst store lookup_kv].
    destruct ((k =? k') && (v =? w)) eqn:E; [|reflexivity].
    apply andb_true_iff in E. destruct E as [_ E]. apply N.eqb_eq in E. subst w.
    apply writable_spec in W. destruct W. contradiction.
  - destruct (a && mem w (nodes c)); reflexivity.
  - destruct (a && negb match ps with [] => true | _ :: _ => false end
              && forallb (fun p => mem p (locked c)) ps); reflexivity.
  - reflexivity.
Qed.

Lemma run_store_locked ops : forall c k v, In v (locked c) ->
  lookup_kv k v (store (run ops c)) = lookup_kv k v (store c).
Proof.
  induction ops as [|o ops IH]; intros c k v Hv; [reflexivity|].
  unfold run. cbn [fold_left]. fold (run ops (fst (step c o))).
  rewrite IH by (apply locked_mono; exact Hv). apply step_store_locked. exact Hv.
Qed.

(* C02 at the level of histories: whatever sequence of requests the gate lets through in
   default mode, every store entry (value or tombstone, every key) of a committed version is what
   it was at commit time *)
Theorem gated_locked_store_unchanged : forall pkg kw ops c k v, plain_endpoint pkg kw ->
  In v (locked c) ->
  lookup_kv k v (store (gated_run mode_default false pkg kw ops c)) = lookup_kv k v (store c).
Proof. intros pkg kw ops c k v P Hv. rewrite gated_default_is_run by exact P. apply run_store_locked. exact Hv. Qed.

(* ... and what it reads (through all its ancestors) is stable *)
Theorem gated_reads_stable : forall pkg kw ops later k v, plain_endpoint pkg kw ->
  let c := run ops core_init in
  In v (locked c) -> get (gated_run mode_default false pkg kw later c) k v = get c k v.
Proof.
  intros pkg kw ops later k v P c Hv. rewrite gated_default_is_run by exact P.
  apply get_stable; [apply core_inv_run; exact core_inv_init|exact Hv].
Qed.

(* the gate is what protects: in full-write mode, or with the token, the same machine overwrites
   a committed version *)
Theorem widened_overwrites_committed :
  let c := run [OPut 7 1 100; OCommit 1 true] core_init in
  In 1 (locked c) /\
  lookup_kv 7 1 (store c) = Some (Val 100) /\
  lookup_kv 7 1 (store (gated_run mode_fullwrite false "keyvalue" "key" [OPut 7 1 200] c)) = Some (Val 200) /\
  lookup_kv 7 1 (store (gated_run mode_default true "keyvalue" "key" [ODel 7 1] c)) = Some Tomb /\
  lookup_kv 7 1 (store (gated_run mode_default false "keyvalue" "key" [OPut 7 1 200; ODel 7 1] c)) = Some (Val 100).
Proof. vm_compute. repeat split; auto. Qed.

Example keyvalue_key_is_plain : plain_endpoint "keyvalue" "key".
Proof. split; [|split]; vm_compute; intuition discriminate. Qed.
