(* Proofs.NJOrd: the order in which updateJSON ranges its maps does not show in the result.
   Every loop body either performs writes that do not depend on the map being written (null loop,
   carry-forward, stamps: [apply_w] over a CONSISTENT list of writes — the final map is then a
   function of the SET of writes) or reads only the keys it alone writes (keep loop: closed form). *)
From Coq Require Import Permutation.
From DV Require Import Base.Prelude Model.NJ Model.NJOrd Proofs.NJBase Proofs.NJUpdate.
Local Open Scope N_scope.

Lemma oget_oset k k' v m : oget k (oset k' v m) = if bytes_eqb k k' then Some v else oget k m.
Proof.
  destruct (bytes_eqb k k') eqn:E.
  - apply beq_eq in E; subst; apply oget_oset_same.
  - apply oget_oset_other. now apply beq_false.
Qed.
Lemma oget_odel k k' m : oget k (odel k' m) = if bytes_eqb k k' then None else oget k m.
Proof.
  destruct (bytes_eqb k k') eqn:E.
  - apply beq_eq in E; subst; apply oget_odel_same.
  - apply oget_odel_other. now apply beq_false.
Qed.

Lemma null_dec (x : option json) : x = Some JNull \/ x <> Some JNull.
Proof. destruct x as [[]|]; (now left) || (right; discriminate). Qed.

Definition seteq {A} (a b : list A) : Prop := forall x, In x a <-> In x b.
Lemma smem_ext a b x : seteq a b -> smem x a = smem x b.
Proof.
  intro H. destruct (smem x a) eqn:E; symmetry.
  - apply smem_in, H, smem_in, E.
  - apply smem_notin. intro I. apply smem_notin in E. apply E, H, I.
Qed.
Lemma smem_seteq a b : (forall x, smem x a = smem x b) -> seteq a b.
Proof. intros H x. rewrite <- !smem_in, H. tauto. Qed.
Lemma existsb_seteq {A} (p q : A -> bool) l l' : seteq l l' -> (forall x, p x = q x) -> existsb p l = existsb q l'.
Proof.
  intros H E. apply Bool.eq_iff_eq_true. rewrite !existsb_exists. split; intros (x & I & P); exists x.
  - split; [now apply H | now rewrite <- E].
  - split; [now apply H | now rewrite E].
Qed.
Lemma oeq_refl a : oeq a a. Proof. intro; reflexivity. Qed.
Lemma oeq_sym a b : oeq a b -> oeq b a. Proof. intros H k; symmetry; apply H. Qed.
Lemma oeq_trans a b c : oeq a b -> oeq b c -> oeq a c. Proof. intros H G k; now rewrite H. Qed.
Lemma oeq_omem a b k : oeq a b -> omem k a = omem k b.
Proof. intro H. now rewrite !omem_oget, H. Qed.
Lemma oeq_dom a b : oeq a b -> seteq (dom a) (dom b).
Proof.
  intros H k. split; intro I.
  - destruct (oget k b) eqn:G; [eapply oget_in; eauto|]. rewrite <- H in G. now apply oget_none_notin in G.
  - destruct (oget k a) eqn:G; [eapply oget_in; eauto|]. rewrite H in G. now apply oget_none_notin in G.
Qed.
Lemma in_oget (m : obj) : NoDup (dom m) -> forall k v, In (k, v) m -> oget k m = Some v.
Proof.
  induction m as [|[k' v'] r IH]; intros ND k v I; [contradiction|].
  inversion ND as [|? ? N ND']; subst. unfold oget; cbn [aget]. fold (oget k r).
  destruct I as [E|I].
  - inversion E; subst. now rewrite beq_refl.
  - destruct (bytes_eqb k k') eqn:B; [|now apply IH].
    apply beq_eq in B; subst. exfalso. apply N. now apply (in_map fst) in I.
Qed.
Lemma oget_in_pair (m : obj) k v : oget k m = Some v -> In (k, v) m.
Proof. apply (aget_Some_in bytes_eqb beq_eq). Qed.
Lemma oeq_pairs a b : NoDup (dom a) -> NoDup (dom b) -> oeq a b -> seteq a b.
Proof.
  intros NA NB H [k v]. split; intro I.
  - apply oget_in_pair. rewrite <- H. now apply in_oget.
  - apply oget_in_pair. rewrite H. now apply in_oget.
Qed.
Lemma perm_oeq a b : NoDup (dom a) -> Permutation a b -> oeq a b /\ NoDup (dom b).
Proof.
  intros ND P. assert (NB : NoDup (dom b)) by (eapply Permutation_NoDup; [apply Permutation_map, P | exact ND]).
  split; [|exact NB]. intro k.
  destruct (oget k a) eqn:G.
  - symmetry. apply in_oget; [exact NB|]. eapply Permutation_in; [exact P|]. now apply oget_in_pair.
  - destruct (oget k b) eqn:G'; [|reflexivity]. apply oget_in_pair in G'.
    apply Permutation_sym in P. eapply Permutation_in in G'; [|exact P]. apply in_oget in G'; [congruence|exact ND].
Qed.

(* ---------- lists of writes ---------- *)
Definition wr := (bytes * option json)%type.
Definition apply_w (acc : obj) (w : wr) : obj :=
  match snd w with Some v => oset (fst w) v acc | None => odel (fst w) acc end.
Fixpoint wfind (k : bytes) (ws : list wr) : option (option json) :=
  match ws with
  | [] => None
  | (k', v) :: r => if bytes_eqb k k' then Some v else wfind k r
  end.
Definition consistent (ws : list wr) : Prop := forall k v v', In (k, v) ws -> In (k, v') ws -> v = v'.

Lemma oget_apply_w k acc w : oget k (apply_w acc w) = if bytes_eqb k (fst w) then snd w else oget k acc.
Proof. destruct w as [k' [v|]]; unfold apply_w; cbn [fst snd]; [apply oget_oset | apply oget_odel]. Qed.
Lemma wfind_in k ws v : wfind k ws = Some v -> In (k, v) ws.
Proof.
  induction ws as [|[k' v'] r IH]; cbn [wfind]; [discriminate|].
  destruct (bytes_eqb k k') eqn:E.
  - intro H. inversion H; subst. apply beq_eq in E; subst. now left.
  - intro H. right. now apply IH.
Qed.
Lemma wfind_none k ws : wfind k ws = None -> forall v, ~ In (k, v) ws.
Proof.
  induction ws as [|[k' v'] r IH]; cbn [wfind]; [intros _ v []|].
  destruct (bytes_eqb k k') eqn:E; [discriminate|].
  intros H v [I|I]; [inversion I; subst; now rewrite beq_refl in E | now apply (IH H v)].
Qed.
Lemma consistent_sub ws ws' : (forall w, In w ws' -> In w ws) -> consistent ws -> consistent ws'.
Proof. intros S C k v v' H H'. apply (C k); now apply S. Qed.
Lemma apply_get ws : consistent ws -> forall acc k,
  oget k (fold_left apply_w ws acc) = match wfind k ws with Some v => v | None => oget k acc end.
Proof.
  induction ws as [|[k' v'] r IH]; intros C acc k; cbn [fold_left wfind]; [reflexivity|].
  assert (C' : consistent r) by (intros a b c H1 H2; apply (C a); now right).
  rewrite (IH C'), oget_apply_w. cbn [fst snd].
  destruct (bytes_eqb k k') eqn:E; [|reflexivity].
  apply beq_eq in E; subst k'. destruct (wfind k r) eqn:F; [|reflexivity].
  apply wfind_in in F. apply (C k); [now right | now left].
Qed.
Lemma wfind_ext ws ws' k : consistent ws -> consistent ws' -> seteq ws ws' -> wfind k ws = wfind k ws'.
Proof.
  intros C C' H. destruct (wfind k ws) eqn:F, (wfind k ws') eqn:F'; try reflexivity.
  - apply wfind_in in F, F'. f_equal. apply (C' k); [now apply H | assumption].
  - apply wfind_in in F. apply H in F. exfalso. eapply wfind_none; eauto.
  - apply wfind_in in F'. apply H in F'. exfalso. eapply wfind_none; eauto.
Qed.
Lemma apply_ext ws ws' acc acc' : consistent ws -> consistent ws' -> seteq ws ws' -> oeq acc acc' ->
  oeq (fold_left apply_w ws acc) (fold_left apply_w ws' acc').
Proof.
  intros C C' H E k. rewrite !apply_get by assumption. rewrite (wfind_ext ws ws' k) by assumption.
  destruct (wfind k ws'); [reflexivity | apply E].
Qed.
Lemma fold_writes {A} (step : obj -> A -> obj) (ws : A -> list wr) :
  (forall acc a, step acc a = fold_left apply_w (ws a) acc) ->
  forall l acc, fold_left step l acc = fold_left apply_w (flat_map ws l) acc.
Proof.
  intros H. induction l as [|a r IH]; intro acc; cbn [fold_left flat_map]; [reflexivity|].
  rewrite fold_left_app, <- H. apply IH.
Qed.
Lemma flat_map_seteq {A B} (f g : A -> list B) l l' : seteq l l' -> (forall a, f a = g a) -> seteq (flat_map f l) (flat_map g l').
Proof.
  intros H E x. rewrite !in_flat_map. split; intros (a & I & J); exists a.
  - split; [now apply H | now rewrite <- E].
  - split; [now apply H | now rewrite E].
Qed.

Section Ord.
Variables (user : bytes) (conds : list bytes) (replace : bool) (t : bytes).

(* ---------- the null loop ---------- *)
Definition su_of (n : obj) (d : bytes) : bytes := match oget (fuser d) n with Some v => str_or_empty v | None => user end.
Definition st_of (n : obj) (d : bytes) : bytes := match oget (ftime d) n with Some v => str_or_empty v | None => t end.
Definition nws (n : obj) (d : bytes) : list wr :=
  (d, None) :: if is_meta d then []
               else (if nonempty (su_of n d) then [(fuser d, Some (JStr (su_of n d)))] else [])
                    ++ (if nonempty (st_of n d) then [(ftime d, Some (JStr (st_of n d)))] else []).
Lemma null_step_writes n acc d : null_step user t n acc d = fold_left apply_w (nws n d) acc.
Proof.
  unfold null_step, nws, su_of, st_of. cbv zeta. destruct (is_meta d); [reflexivity|].
  destruct (nonempty _); destruct (nonempty _); reflexivity.
Qed.
Lemma nws_oeq n n' d : oeq n n' -> nws n d = nws n' d.
Proof. intro H. unfold nws, su_of, st_of. now rewrite !H. Qed.
Lemma su_null n d : oget (fuser d) n = Some JNull -> nonempty (su_of n d) = false.
Proof. intro H. unfold su_of. now rewrite H. Qed.
Lemma st_null n d : oget (ftime d) n = Some JNull -> nonempty (st_of n d) = false.
Proof. intro H. unfold st_of. now rewrite H. Qed.
Lemma nws_in n S k v : In (k, v) (flat_map (nws n) S) ->
  (v = None /\ In k S)
  \/ (exists d, k = fuser d /\ v = Some (JStr (su_of n d)) /\ nonempty (su_of n d) = true)
  \/ (exists d, k = ftime d /\ v = Some (JStr (st_of n d)) /\ nonempty (st_of n d) = true).
Proof.
  intro H. apply in_flat_map in H. destruct H as (d & Hd & I). unfold nws in I.
  destruct I as [E|I]; [inversion E; subst; now left|].
  destruct (is_meta d); [contradiction|]. apply in_app_or in I. destruct I as [I|I].
  - destruct (nonempty (su_of n d)) eqn:N; [|contradiction]. destruct I as [E|[]]. inversion E; subst.
    right; left. now exists d.
  - destruct (nonempty (st_of n d)) eqn:N; [|contradiction]. destruct I as [E|[]]. inversion E; subst.
    right; right. now exists d.
Qed.
Lemma nws_consistent n S : (forall d, In d S -> oget d n = Some JNull) -> consistent (flat_map (nws n) S).
Proof.
  intros P k v v' H H'. apply nws_in in H, H'.
  destruct H as [[Hv Hk] | [(d & Ek & Hv & N) | (d & Ek & Hv & N)]];
  destruct H' as [[Hv' Hk'] | [(d' & Ek' & Hv' & N') | (d' & Ek' & Hv' & N')]]; subst v v'.
  - reflexivity.
  - subst k. rewrite (su_null _ _ (P _ Hk)) in N'. discriminate.
  - subst k. rewrite (st_null _ _ (P _ Hk)) in N'. discriminate.
  - subst k. rewrite (su_null _ _ (P _ Hk')) in N. discriminate.
  - rewrite Ek in Ek'. apply fuser_inj in Ek'. now subst.
  - rewrite Ek in Ek'. now apply fuser_ne_ftime in Ek'.
  - subst k. rewrite (st_null _ _ (P _ Hk')) in N. discriminate.
  - rewrite Ek in Ek'. symmetry in Ek'. now apply fuser_ne_ftime in Ek'.
  - rewrite Ek in Ek'. apply ftime_inj in Ek'. now subst.
Qed.

(* origData after the deletions of the visited null fields *)
Definition del_rel (S : list bytes) (o0 o : option obj) : Prop :=
  match o0, o with
  | Some a, Some b => forall k, oget k b = if smem k S then None else oget k a
  | None, None => True
  | _, _ => False
  end.

Lemma null_visit_hit n acc S o f : oget f acc = Some JNull ->
  null_visit user t n (acc, S, o) f = (null_step user t n acc f, f :: S, option_map (odel f) o).
Proof. intro H. unfold null_visit. now rewrite H. Qed.
Lemma null_visit_skip n acc S o f : oget f acc <> Some JNull -> null_visit user t n (acc, S, o) f = (acc, S, o).
Proof. intro H. unfold null_visit. destruct (oget f acc) as [[]|]; try reflexivity. congruence. Qed.

Lemma null_visit_inv n o0 vis : forall acc S o,
  (forall d, In d S -> oget d n = Some JNull) ->
  oeq acc (fold_left apply_w (flat_map (nws n) S) n) ->
  del_rel S o0 o ->
  forall acc' S' o', fold_left (null_visit user t n) vis (acc, S, o) = (acc', S', o') ->
  (forall d, In d S' -> oget d n = Some JNull) /\
  oeq acc' (fold_left apply_w (flat_map (nws n) S') n) /\
  del_rel S' o0 o' /\ incl S S' /\
  (forall d, In d vis -> oget d n = Some JNull -> In d S').
Proof.
  induction vis as [|f r IH]; intros acc S o P A R acc' S' o' F.
  - cbn in F. inversion F; subst. repeat split; auto using incl_refl. intros d [].
  - cbn [fold_left] in F.
    assert (C : consistent (flat_map (nws n) S)) by now apply nws_consistent.
    assert (G := A f). rewrite (apply_get _ C) in G.
    destruct (null_dec (oget f acc)) as [Hit|Miss].
    + (* the entry is null now: it is a null of the request not yet processed *)
      rewrite (null_visit_hit _ _ _ _ _ Hit) in F.
      assert (Pf : oget f n = Some JNull).
      { rewrite Hit in G. destruct (wfind f (flat_map (nws n) S)) eqn:W; [|now symmetry].
        apply wfind_in, nws_in in W. destruct W as [[-> _] | [(d & _ & -> & _) | (d & _ & -> & _)]]; discriminate. }
      assert (P' : forall d, In d (f :: S) -> oget d n = Some JNull) by (intros d [<-|I]; auto).
      assert (C2 : consistent (flat_map (nws n) (f :: S))) by now apply nws_consistent.
      specialize (IH (null_step user t n acc f) (f :: S) (option_map (odel f) o) P').
      destruct (IH) with (acc' := acc') (S' := S') (o' := o') as (Q1 & Q2 & Q3 & Q4 & Q5); [| |exact F|].
      * rewrite null_step_writes. cbn [flat_map].
        apply oeq_trans with (fold_left apply_w (nws n f) (fold_left apply_w (flat_map (nws n) S) n)).
        -- apply apply_ext; [| |intro; tauto|exact A];
             apply (consistent_sub (flat_map (nws n) (f :: S))); try exact C2; intros w I; cbn [flat_map]; apply in_or_app; now left.
        -- rewrite <- fold_left_app. apply apply_ext; [| exact C2 | | apply oeq_refl].
           ++ apply (consistent_sub (flat_map (nws n) (f :: S))); [|exact C2]. intros w I. cbn [flat_map].
              apply in_or_app. apply in_app_or in I. tauto.
           ++ intro w. cbn [flat_map]. rewrite !in_app_iff. tauto.
      * unfold del_rel in *. destruct o0 as [a|], o as [b|]; cbn [option_map]; try exact R; try contradiction.
        intro k. rewrite oget_odel. unfold smem. cbn [existsb]. fold (smem k S).
        destruct (bytes_eqb k f); [reflexivity | apply R].
      * repeat split; auto.
        -- intros d I. apply Q4. now right.
        -- intros d [<-|I] Pd; [apply Q4; now left | now apply Q5].
    + (* not null now: either no null of the request, or one already processed *)
      rewrite (null_visit_skip _ _ _ _ _ Miss) in F.
      destruct (IH acc S o P A R acc' S' o' F) as (Q1 & Q2 & Q3 & Q4 & Q5).
      repeat split; auto.
      intros d [<-|I] Pd; [|now apply Q5]. apply Q4.
      destruct (wfind f (flat_map (nws n) S)) eqn:W.
      * apply wfind_in, nws_in in W. destruct W as [[_ I] | [(e & -> & _ & N) | (e & -> & _ & N)]]; [exact I| |].
        -- rewrite (su_null _ _ Pd) in N. discriminate.
        -- rewrite (st_null _ _ Pd) in N. discriminate.
      * exfalso. apply Miss. now rewrite G.
Qed.

(* ---------- the stamp loop ---------- *)
Definition sws (del ns : list bytes) (f : bytes) : list wr :=
  if bytes_eqb f s_bodyid || bytes_eqb f s_userf then []
  else if smem f del then []
  else if is_meta f then []
  else (if negb (smem (fuser f) ns) && nonempty user then [(fuser f, Some (JStr user))] else [])
       ++ (if negb (smem (ftime f) ns) then [(ftime f, Some (JStr t))] else []).
Lemma stamp_step_writes del ns acc f : stamp_step user t del ns acc f = fold_left apply_w (sws del ns f) acc.
Proof.
  unfold stamp_step, sws. destruct (bytes_eqb f s_bodyid || bytes_eqb f s_userf); [reflexivity|].
  destruct (smem f del); [reflexivity|]. destruct (is_meta f); [reflexivity|].
  destruct (negb (smem (fuser f) ns) && nonempty user); destruct (negb (smem (ftime f) ns)); reflexivity.
Qed.
Lemma sws_in del ns L k v : In (k, v) (flat_map (sws del ns) L) ->
  (exists f, k = fuser f /\ v = Some (JStr user)) \/ (exists f, k = ftime f /\ v = Some (JStr t)).
Proof.
  intro H. apply in_flat_map in H. destruct H as (f & _ & I). unfold sws in I.
  destruct (bytes_eqb f s_bodyid || bytes_eqb f s_userf); [contradiction|].
  destruct (smem f del); [contradiction|]. destruct (is_meta f); [contradiction|].
  apply in_app_or in I. destruct I as [I|I].
  - destruct (negb (smem (fuser f) ns) && nonempty user); [|contradiction]. destruct I as [E|[]]. inversion E. left. now exists f.
  - destruct (negb (smem (ftime f) ns)); [|contradiction]. destruct I as [E|[]]. inversion E. right. now exists f.
Qed.
Lemma sws_consistent del ns L : consistent (flat_map (sws del ns) L).
Proof.
  intros k v v' H H'. apply sws_in in H, H'.
  destruct H as [(f & E & ->) | (f & E & ->)]; destruct H' as [(f' & E' & ->) | (f' & E' & ->)]; try reflexivity; exfalso;
    rewrite E in E'; [|symmetry in E']; now apply fuser_ne_ftime in E'.
Qed.
Lemma sws_ext del del' ns ns' f : seteq del del' -> seteq ns ns' -> sws del ns f = sws del' ns' f.
Proof. intros H G. unfold sws. now rewrite (smem_ext _ _ f H), (smem_ext _ _ (fuser f) G), (smem_ext _ _ (ftime f) G). Qed.
Lemma stamp_ext del del' ns ns' L L' acc acc' : seteq del del' -> seteq ns ns' -> seteq L L' -> oeq acc acc' ->
  oeq (fold_left (stamp_step user t del ns) L acc) (fold_left (stamp_step user t del' ns') L' acc').
Proof.
  intros H G HL A. rewrite !(fold_writes _ _ (stamp_step_writes _ _)).
  apply apply_ext; try apply sws_consistent; [|exact A].
  apply flat_map_seteq; [exact HL | intro; now apply sws_ext].
Qed.

(* ---------- the keep loop (replace): each visit reads only the two keys it alone writes ---------- *)
Definition kact (del : list bytes) (f : bytes) : bool := negb (bytes_eqb f s_bodyid) && negb (smem f del).
Definition kspec (del : list bytes) (o1 : obj) (L : list bytes) (acc : obj) (k : bytes) : option json :=
  match oget k acc with
  | Some x => Some x
  | None =>
      if existsb (fun f => kact del f && bytes_eqb k (fuser f)) L
      then Some (match oget k o1 with Some v => v | None => JStr user end)
      else if existsb (fun f => kact del f && bytes_eqb k (ftime f)) L
           then Some (match oget k o1 with Some v => v | None => JStr t end)
           else None
  end.
Lemma keep_step_get del o1 acc g k : oget k (keep_step user t del o1 acc g) = kspec del o1 [g] acc k.
Proof.
  unfold kspec. cbn [existsb]. rewrite !orb_false_r. destruct (kact del g) eqn:A; cbn [andb].
  - unfold kact in A. apply andb_prop in A. destruct A as [A1 A2].
    apply negb_true_iff in A1, A2. apply beq_false in A1. apply smem_notin in A2.
    destruct (bytes_eqb k (fuser g)) eqn:E1.
    + apply beq_eq in E1; subst k. rewrite keep_step_user by assumption. rewrite beq_refl.
      destruct (oget (fuser g) acc); reflexivity.
    + destruct (bytes_eqb k (ftime g)) eqn:E2.
      * apply beq_eq in E2; subst k. rewrite keep_step_time by assumption. rewrite beq_refl.
        destruct (oget (ftime g) acc); reflexivity.
      * rewrite keep_step_other by (now apply beq_false). destruct (oget k acc); reflexivity.
  - replace (keep_step user t del o1 acc g) with acc; [destruct (oget k acc); reflexivity|].
    unfold keep_step, kact in *. destruct (bytes_eqb g s_bodyid); [reflexivity|].
    destruct (smem g del); [reflexivity | discriminate].
Qed.
Lemma keep_fold_get del o1 L : forall acc k, oget k (fold_left (keep_step user t del o1) L acc) = kspec del o1 L acc k.
Proof.
  induction L as [|g r IH]; intros acc k; cbn [fold_left].
  - unfold kspec. cbn. now destruct (oget k acc).
  - rewrite IH. unfold kspec at 1. rewrite keep_step_get. unfold kspec. cbn [existsb]. rewrite !orb_false_r.
    destruct (oget k acc); [reflexivity|].
    destruct (kact del g && bytes_eqb k (fuser g)) eqn:B1; cbn [orb]; [reflexivity|].
    destruct (kact del g && bytes_eqb k (ftime g)) eqn:B2; cbn [orb]; [|reflexivity].
    destruct (existsb (fun f => kact del f && bytes_eqb k (fuser f)) r) eqn:X; [|reflexivity].
    exfalso. apply andb_prop in B2. destruct B2 as [_ B2]. apply beq_eq in B2.
    apply existsb_exists in X. destruct X as (f & _ & X). apply andb_prop in X. destruct X as [_ X]. apply beq_eq in X.
    rewrite X in B2. now apply fuser_ne_ftime in B2.
Qed.
Lemma keep_ext del del' o1 o1' L L' acc acc' : seteq del del' -> oeq o1 o1' -> seteq L L' -> oeq acc acc' ->
  oeq (fold_left (keep_step user t del o1) L acc) (fold_left (keep_step user t del' o1') L' acc').
Proof.
  intros H O HL A k. rewrite !keep_fold_get. unfold kspec. rewrite (A k), (O k).
  assert (K : forall f, kact del f = kact del' f) by (intro f; unfold kact; now rewrite (smem_ext _ _ f H)).
  rewrite (existsb_seteq (fun f => kact del f && bytes_eqb k (fuser f)) (fun f => kact del' f && bytes_eqb k (fuser f)) L L' HL)
    by (intro f; now rewrite K).
  rewrite (existsb_seteq (fun f => kact del f && bytes_eqb k (ftime f)) (fun f => kact del' f && bytes_eqb k (ftime f)) L L' HL)
    by (intro f; now rewrite K).
  reflexivity.
Qed.

(* ---------- the carry-forward loop ---------- *)
Definition cws (n1 : obj) (p : bytes * json) : list wr :=
  if negb (omem (fst p) n1) || smem (fst p) conds then [(fst p, Some (snd p))] else [].
Definition cdel (n1 : obj) (p : bytes * json) : bool := omem (fst p) n1 && smem (fst p) conds.
Lemma carry_step_eq n1 acc ns p :
  carry_step conds n1 (acc, ns) p = (fold_left apply_w (cws n1 p) acc, if cdel n1 p then NJ.sdel (fst p) ns else ns).
Proof. destruct p as [f ov]. unfold carry_step, cws, cdel. cbn [fst snd]. destruct (omem f n1), (smem f conds); reflexivity. Qed.
Lemma smem_sdel x f ns : smem x (NJ.sdel f ns) = smem x ns && negb (bytes_eqb f x).
Proof.
  apply Bool.eq_iff_eq_true. rewrite andb_true_iff, negb_true_iff, !smem_in. unfold NJ.sdel. rewrite filter_In, negb_true_iff. tauto.
Qed.
Lemma carry_fold_eq n1 l : forall acc ns,
  fst (fold_left (carry_step conds n1) l (acc, ns)) = fold_left apply_w (flat_map (cws n1) l) acc
  /\ forall x, smem x (snd (fold_left (carry_step conds n1) l (acc, ns)))
               = smem x ns && negb (existsb (fun p => cdel n1 p && bytes_eqb (fst p) x) l).
Proof.
  induction l as [|p r IH]; intros acc ns; cbn [fold_left flat_map existsb].
  - split; [reflexivity | intro; now rewrite andb_true_r].
  - rewrite carry_step_eq. destruct (IH (fold_left apply_w (cws n1 p) acc) (if cdel n1 p then NJ.sdel (fst p) ns else ns)) as [F S].
    split; [now rewrite F, fold_left_app|]. intro x. rewrite S.
    destruct (cdel n1 p); cbn [andb orb]; [|reflexivity]. rewrite smem_sdel, negb_orb. now rewrite andb_assoc.
Qed.
Lemma cws_consistent n1 l : NoDup (dom l) -> consistent (flat_map (cws n1) l).
Proof.
  intros ND k v v' H H'. apply in_flat_map in H, H'. destruct H as ([f a] & I & J), H' as ([f' a'] & I' & J').
  unfold cws in J, J'. cbn [fst snd] in *.
  destruct (negb (omem f n1) || smem f conds); [|contradiction]. destruct (negb (omem f' n1) || smem f' conds); [|contradiction].
  destruct J as [E|[]], J' as [E'|[]]. inversion E; inversion E'; subst.
  apply (in_oget _ ND) in I, I'. congruence.
Qed.
Lemma carry_ext n1 n1' l l' acc acc' ns ns' :
  NoDup (dom l) -> NoDup (dom l') -> oeq l l' -> oeq n1 n1' -> oeq acc acc' -> seteq ns ns' ->
  oeq (fst (fold_left (carry_step conds n1) l (acc, ns))) (fst (fold_left (carry_step conds n1') l' (acc', ns')))
  /\ seteq (snd (fold_left (carry_step conds n1) l (acc, ns))) (snd (fold_left (carry_step conds n1') l' (acc', ns'))).
Proof.
  intros ND ND' L N A S. destruct (carry_fold_eq n1 l acc ns) as [F G], (carry_fold_eq n1' l' acc' ns') as [F' G'].
  assert (LL : seteq l l') by now apply oeq_pairs.
  split.
  - rewrite F, F'. apply apply_ext; try (now apply cws_consistent); [|exact A].
    apply flat_map_seteq; [exact LL|]. intro p. unfold cws. now rewrite (oeq_omem _ _ (fst p) N).
  - apply smem_seteq. intro x. rewrite G, G', (smem_ext _ _ x S). f_equal. f_equal.
    apply existsb_seteq; [exact LL|]. intro p. unfold cdel. now rewrite (oeq_omem _ _ (fst p) N).
Qed.
End Ord.

(* ---------- the whole function ---------- *)
Lemma perm_seteq {A} (a b : list A) : Permutation a b -> seteq a b.
Proof. intros P x. split; intro I; [|apply Permutation_sym in P]; eapply Permutation_in; eauto. Qed.
Lemma seteq_trans {A} (a b c : list A) : seteq a b -> seteq b c -> seteq a c.
Proof. intros H G x. rewrite (H x). apply G. Qed.
Lemma seteq_sym {A} (a b : list A) : seteq a b -> seteq b a.
Proof. intros H x. symmetry. apply H. Qed.
Lemma filter_seteq {A} (p q : A -> bool) l l' : seteq l l' -> (forall x, p x = q x) -> seteq (filter p l) (filter q l').
Proof. intros H E x. rewrite !filter_In, (H x), (E x). tauto. Qed.
Lemma map_seteq {A B} (f : A -> B) l l' : seteq l l' -> seteq (map f l) (map f l').
Proof. intros H y. rewrite !in_map_iff. split; intros (x & E & I); exists x; (split; [exact E | now apply H]). Qed.
Lemma newly_nil_seteq m m' : seteq (dom m) (dom m') -> seteq (newly_nil m) (newly_nil m').
Proof.
  intros H x. unfold newly_nil. rewrite !in_app_iff, (H x).
  assert (G := map_seteq strip5 _ _ (filter_seteq is_userf is_userf _ _ H (fun _ => eq_refl))). rewrite (G x). tauto.
Qed.
Definition nodup_opt (o : option obj) : Prop := match o with Some a => NoDup (dom a) | None => True end.

Section Main.
Variables (user : bytes) (conds : list bytes) (replace : bool) (t : bytes).

(* what updateJSON does after the null loop *)
Definition rest (sg : orders) (st : obj * list bytes * option obj) : option obj * obj :=
  let '(new1, deleted, orig1) := st in
  match orig1 with
  | None =>
      let ns := newly_nil (o_new sg new1) in
      (orig1, fold_left (stamp_step user t deleted ns) (o_stamp sg ns) new1)
  | Some o1 =>
      let ranged := dom (o_new sg new1) in
      let ns0 := filter (fun f => negb (omem f o1) || is_meta f ||
                                  negb (match oget f new1, oget f o1 with
                                        | Some a, Some b => json_eqb a b
                                        | _, _ => false end)) ranged in
      let newFields := filter (fun f => negb (is_meta f)) ranged in
      let '(new2, ns) := if replace then (new1, ns0)
                         else fold_left (carry_step conds new1) (o_carry sg o1) (new1, ns0) in
      let new3 := fold_left (stamp_step user t deleted ns) (o_stamp sg ns) new2 in
      let new4 := if replace then fold_left (keep_step user t deleted o1) (o_keep sg newFields) new3 else new3 in
      (orig1, new4)
  end.
Lemma ord_unfold sg orig new0 :
  updateJSON_ord user conds replace t sg orig new0
  = rest sg (fold_left (null_visit user t new0) (o_null sg (dom new0)) (new0, [], orig)).
Proof. unfold updateJSON_ord, rest. destruct (fold_left _ _ _) as [[a b] c]. reflexivity. Qed.
Lemma ref_unfold orig new0 :
  updateJSON user conds replace t orig new0
  = rest ord_id (fold_left (null_step user t new0) (deleted_fields new0) new0, deleted_fields new0,
                 option_map (fun o => fold_left (fun acc d => odel d acc) (deleted_fields new0) o) orig).
Proof. reflexivity. Qed.

Lemma rest_ext sg n1 n1' del del' o1 o1' :
  fair sg -> oeq n1' n1 -> seteq del' del -> oeq_opt o1' o1 -> nodup_opt o1' -> nodup_opt o1 ->
  oeq (snd (rest sg (n1', del', o1'))) (snd (rest ord_id (n1, del, o1)))
  /\ oeq_opt (fst (rest sg (n1', del', o1'))) (fst (rest ord_id (n1, del, o1))).
Proof.
  intros (F1 & F2 & F3 & F4 & F5) N D O ND' ND. unfold rest.
  assert (R : seteq (dom (o_new sg n1')) (dom n1)).
  { eapply seteq_trans; [apply perm_seteq, Permutation_map, F2 | now apply oeq_dom]. }
  destruct o1' as [a'|], o1 as [a|]; cbn [oeq_opt] in O; try contradiction; cbn [ord_id o_new o_carry o_stamp o_keep].
  - cbn [nodup_opt] in ND, ND'.
    set (p' := fun f => negb (omem f a') || is_meta f || negb (match oget f n1', oget f a' with Some x, Some y => json_eqb x y | _, _ => false end)).
    set (p := fun f => negb (omem f a) || is_meta f || negb (match oget f n1, oget f a with Some x, Some y => json_eqb x y | _, _ => false end)).
    assert (P : forall f, p' f = p f) by (intro f; unfold p', p; now rewrite (oeq_omem _ _ f O), (N f), (O f)).
    assert (NS0 : seteq (filter p' (dom (o_new sg n1'))) (filter p (dom n1))) by now apply filter_seteq.
    assert (NF : seteq (filter (fun f => negb (is_meta f)) (dom (o_new sg n1'))) (filter (fun f => negb (is_meta f)) (dom n1)))
      by now apply filter_seteq.
    destruct replace.
    + split; [|exact O]. cbn [snd].
      apply keep_ext; [exact D | exact O | eapply seteq_trans; [apply perm_seteq, F5 | exact NF] |].
      apply stamp_ext; [exact D | exact NS0 | eapply seteq_trans; [apply perm_seteq, F4 | exact NS0] | exact N].
    + destruct (perm_oeq a' (o_carry sg a') ND' (Permutation_sym (F3 a'))) as [OC NDC].
      destruct (carry_ext conds n1' n1 (o_carry sg a') a n1' n1 (filter p' (dom (o_new sg n1'))) (filter p (dom n1))
                  NDC ND (oeq_trans _ _ _ (oeq_sym _ _ OC) O) N N NS0) as [C1 C2].
      destruct (fold_left (carry_step conds n1') (o_carry sg a') _) as [new2' ns'].
      destruct (fold_left (carry_step conds n1) a _) as [new2 ns]. cbn [fst snd] in *.
      split; [|exact O].
      apply stamp_ext; [exact D | exact C2 | eapply seteq_trans; [apply perm_seteq, F4 | exact C2] | exact C1].
  - split; [|exact I]. cbn [snd].
    assert (NS : seteq (newly_nil (o_new sg n1')) (newly_nil n1)) by now apply newly_nil_seteq.
    apply stamp_ext; [exact D | exact NS | eapply seteq_trans; [apply perm_seteq, F4 | exact NS] | exact N].
Qed.

Lemma null_visit_nodup n vis : forall acc S o, nodup_opt o ->
  nodup_opt (snd (fold_left (null_visit user t n) vis (acc, S, o))).
Proof.
  induction vis as [|f r IH]; intros acc S o H; [exact H|]. cbn [fold_left].
  destruct (null_dec (oget f acc)) as [Hit|Miss].
  - rewrite (null_visit_hit _ _ _ _ _ _ _ Hit). apply IH. destruct o as [a|]; cbn; [|exact I].
    now apply (nodup_adel bytes_eqb).
  - rewrite (null_visit_skip _ _ _ _ _ _ _ Miss). now apply IH.
Qed.

Theorem updateJSON_order_irrelevant (sg : orders) (orig orig' : option obj) (new0 new0' : obj) :
  fair sg -> same_map new0 new0' -> same_map_opt orig orig' ->
  oeq (snd (updateJSON_ord user conds replace t sg orig' new0')) (snd (updateJSON user conds replace t orig new0))
  /\ oeq_opt (fst (updateJSON_ord user conds replace t sg orig' new0')) (fst (updateJSON user conds replace t orig new0)).
Proof.
  intros FA [ND0 P0] SO. rewrite ord_unfold, ref_unfold.
  destruct (perm_oeq _ _ ND0 P0) as [E0 ND0'].
  assert (OO : oeq_opt orig' orig /\ nodup_opt orig' /\ nodup_opt orig).
  { destruct orig as [a|], orig' as [a'|]; cbn in SO |- *; try contradiction; [|tauto].
    destruct SO as [NDa Pa]. destruct (perm_oeq _ _ NDa Pa) as [Ea NDa']. repeat split; [now apply oeq_sym | exact NDa' | exact NDa]. }
  destruct OO as (EO & NDO' & NDO).
  assert (NDV := null_visit_nodup new0' (o_null sg (dom new0')) new0' [] orig' NDO').
  destruct (fold_left (null_visit user t new0') (o_null sg (dom new0')) (new0', [], orig')) as [[acc' S'] o'] eqn:F.
  cbn [snd] in NDV.
  apply (null_visit_inv user t new0' orig') in F.
  2:{ intros d []. }
  2:{ apply oeq_refl. }
  2:{ unfold del_rel. destruct orig'; [intro k; reflexivity | exact I]. }
  destruct F as (Q1 & Q2 & Q3 & _ & Q5).
  assert (PD : forall d, In d (deleted_fields new0) -> oget d new0 = Some JNull) by (intros d; now apply deleted_null).
  assert (SD : seteq S' (deleted_fields new0)).
  { intro d. split; intro H.
    - apply deleted_in. apply oget_in_pair. rewrite E0. now apply Q1.
    - destruct FA as (F1 & _). apply Q5; [|rewrite <- E0; now apply PD].
      apply F1. eapply oget_in. rewrite <- E0. now apply PD. }
  apply rest_ext; try assumption.
  - eapply oeq_trans; [exact Q2|]. rewrite (fold_writes _ _ (null_step_writes user t new0)).
    apply apply_ext; [now apply nws_consistent | now apply nws_consistent | | now apply oeq_sym].
    apply flat_map_seteq; [exact SD | intro d; apply nws_oeq; now apply oeq_sym].
  - unfold del_rel in Q3. destruct orig' as [a'|], o' as [b'|], orig as [a|]; cbn in EO |- *; try contradiction; [|exact I].
    intro k. rewrite Q3, (smem_ext _ _ k SD). destruct (smem k (deleted_fields new0)) eqn:M.
    + symmetry. apply odel_fold_removed. now apply smem_in.
    + rewrite odel_fold_other by now apply smem_notin. apply EO.
  - destruct orig as [a|]; cbn; [now apply odel_fold_nodup | exact I].
Qed.
End Main.

(* the concrete orders the driver's cases are evaluated under are fair *)
Lemma rot_perm {A} (l : list A) : Permutation (rot l) l.
Proof. destruct l as [|x r]; [constructor|]. cbn. apply Permutation_sym, Permutation_cons_append. Qed.
Lemma ord_id_fair : fair ord_id.
Proof. repeat split; intros; cbn; auto using incl_refl, Permutation_refl. Qed.
Lemma ord_rev_fair : fair ord_rev.
Proof. repeat split; intros; cbn; try (apply Permutation_sym, Permutation_rev). intros x H. now apply in_rev in H. Qed.
Lemma ord_rot_fair : fair ord_rot.
Proof.
  repeat split; intros; cbn; try apply rot_perm.
  - intros x H. eapply Permutation_in; [apply Permutation_sym, rot_perm | exact H].
  - eapply Permutation_trans; apply rot_perm.
  - eapply Permutation_trans; [apply Permutation_sym, Permutation_rev | apply rot_perm].
Qed.
Lemma ord_revisit_fair : fair ord_revisit.
Proof.
  repeat split; intros; cbn; try apply rot_perm; try (apply Permutation_sym, Permutation_rev); auto using Permutation_refl.
  intros x H. apply in_or_app. left. now apply in_rev in H.
Qed.

(* non-vacuity: a stored annotation and a request written down in another order, ranged in a fair
   order that revisits entries: the association lists differ, the finite maps do not *)
Definition ex_o : obj := [(s_bodyid, JNum 7); ([97], JNum 1); (fuser [97], JStr [117;49]); (ftime [97], JStr [48]); ([98], JStr [120])].
Definition ex_new : obj := [(s_bodyid, JNum 7); ([97], JNum 1); ([98], JNull); ([99], JNull); (fuser [99], JStr [122])].
Lemma order_example :
  fair ord_id /\ fair ord_rev /\ fair ord_rot /\ fair ord_revisit
  /\ same_map ex_new (rev ex_new) /\ same_map_opt (Some ex_o) (Some (rev ex_o))
  /\ snd (updateJSON_ord [117;50] [[]] false [49] ord_revisit (Some (rev ex_o)) (rev ex_new))
     <> snd (updateJSON [117;50] [[]] false [49] (Some ex_o) ex_new)
  /\ oget (fuser [99]) (snd (updateJSON [117;50] [[]] false [49] (Some ex_o) ex_new)) = Some (JStr [122]).
Proof.
  split; [apply ord_id_fair|]. split; [apply ord_rev_fair|]. split; [apply ord_rot_fair|]. split; [apply ord_revisit_fair|].
  assert (N1 : NoDup (dom ex_new)) by (repeat (constructor; [cbn; intuition discriminate|]); constructor).
  assert (N2 : NoDup (dom ex_o)) by (repeat (constructor; [cbn; intuition discriminate|]); constructor).
  split; [split; [exact N1 | apply Permutation_rev]|].
  split; [split; [exact N2 | apply Permutation_rev]|].
  split; [intro H; vm_compute in H; discriminate | vm_compute; reflexivity].
Qed.

Lemma update_permutation_invariant user conds replace t sg sg' orig (l l' : obj) f :
  fair sg -> fair sg' -> NoDup (dom l) -> Permutation l l' -> same_map_opt orig orig ->
  oget f (snd (updateJSON_ord user conds replace t sg orig l)) = oget f (snd (updateJSON_ord user conds replace t sg' orig l')).
Proof.
  intros F F' ND P SO.
  destruct (updateJSON_order_irrelevant user conds replace t sg orig orig l l F (conj ND (Permutation_refl l)) SO) as [A _].
  destruct (updateJSON_order_irrelevant user conds replace t sg' orig orig l l' F' (conj ND P) SO) as [B _].
  now rewrite (A f), (B f).
Qed.
