(* Proofs.Block: the compressed label block codec (Model.Block) is lossless and its views
   agree.  The central notion is [Sem]: what a (label table, NumSBLabels, SBIndices, SBValues)
   quadruple means as a list of 512-voxel sub-blocks.  Every block produced by the encoder
   satisfies it (with the gathered sub-blocks), every reader is characterised on it; the
   operations of C10 preserve it. *)
From DV Require Import Base.Prelude Base.Int Base.BitPack Model.Block Proofs.BitPack Gen.Consts.
From Coq Require Import ZifyN ZifyNat ZifyBool.
Ltac Zify.zify_post_hook ::= Z.div_mod_to_equations.
Local Open Scope N_scope.

(* the model hard-codes the sub-block edge; the Go constant is checked here *)
Lemma sub_block_size_is_8 : n_SubBlockSize = 8 /\ n_MaxSubBlockSize = 128 /\ n_MaxBlockSize = 1024.
Proof. repeat split; reflexivity. Qed.

(* ---------------- mapR / mapO ---------------- *)

Lemma mapR_Forall2 {A B} (f : A -> res B) l r :
  mapR f l = Ok r -> Forall2 (fun a b => f a = Ok b) l r.
Proof.
  revert r. induction l as [|a l IH]; intros r H; simpl in H.
  - apply Ok_inj in H. subst. constructor.
  - destruct (f a) eqn:Ea; try discriminate.
    destruct (mapR f l) eqn:El; try discriminate.
    apply Ok_inj in H. subst. constructor; [exact Ea | apply IH; reflexivity].
Qed.

Lemma Forall2_mapR {A B} (f : A -> res B) l r :
  Forall2 (fun a b => f a = Ok b) l r -> mapR f l = Ok r.
Proof. induction 1 as [|a b l r H _ IH]; simpl; [reflexivity|]. now rewrite H, IH. Qed.

Lemma mapR_ext_in {A B} (f g : A -> res B) l :
  (forall a, In a l -> f a = g a) -> mapR f l = mapR g l.
Proof.
  induction l as [|a l IH]; intro H; simpl; [reflexivity|].
  rewrite (H a (or_introl eq_refl)), IH; [reflexivity|]. intros; apply H; now right.
Qed.

Lemma Forall2_len {A B} (P : A -> B -> Prop) l r : Forall2 P l r -> length l = length r.
Proof. induction 1; simpl; congruence. Qed.

Lemma mapR_length {A B} (f : A -> res B) l r : mapR f l = Ok r -> length r = length l.
Proof. intro H. apply mapR_Forall2 in H. symmetry. eapply Forall2_len; eauto. Qed.

Lemma Forall2_nth_error {A B} (P : A -> B -> Prop) l r i a :
  Forall2 P l r -> nth_error l i = Some a -> exists b, nth_error r i = Some b /\ P a b.
Proof.
  intro H. revert i. induction H as [|x y l r Hxy _ IH]; intros i Hi.
  - destruct i; discriminate.
  - destruct i; simpl in *.
    + inversion Hi; subst. eauto.
    + apply IH; assumption.
Qed.

Lemma mapR_nth {A B} (f : A -> res B) l r i a :
  mapR f l = Ok r -> nth_error l i = Some a -> exists b, nth_error r i = Some b /\ f a = Ok b.
Proof. intros H Hi. apply mapR_Forall2 in H. eapply Forall2_nth_error in H; eauto. Qed.

(* building a given list by mapR over its index range *)
Lemma mapR_seq_build {B} (f : N -> res B) (l : list B) s :
  (forall i v, nth_error l i = Some v -> f (N.of_nat (s + i)) = Ok v) ->
  mapR f (map N.of_nat (seq s (length l))) = Ok l.
Proof.
  revert s. induction l as [|b l IH]; intros s H; [reflexivity|].
  cbn [length seq map mapR].
  rewrite <- (Nat.add_0_r s) at 1. rewrite (H 0%nat b eq_refl).
  rewrite IH; [reflexivity|]. intros i v Hi.
  replace (S s + i)%nat with (s + S i)%nat by lia. apply H. exact Hi.
Qed.

Lemma mapR_nseq_build {B} (f : N -> res B) (l : list B) n :
  n = N.of_nat (length l) ->
  (forall i v, nth_error l i = Some v -> f (N.of_nat i) = Ok v) ->
  mapR f (nseq n) = Ok l.
Proof.
  intros -> H. rewrite nseq_eq. rewrite Nat2N.id. apply mapR_seq_build. exact H.
Qed.

Lemma nth_error_nseq n i : (i < N.to_nat n)%nat -> nth_error (nseq n) i = Some (N.of_nat i).
Proof. intro H. rewrite nseq_eq. rewrite nth_error_map, nth_error_seq' by lia. reflexivity. Qed.

Lemma mapO_Forall2 {A B} (f : A -> option B) l r :
  mapO f l = Some r -> Forall2 (fun a b => f a = Some b) l r.
Proof.
  revert r. induction l as [|a l IH]; intros r H; simpl in H.
  - inversion H; subst. constructor.
  - destruct (f a) eqn:Ea; try discriminate.
    destruct (mapO f l) eqn:El; try discriminate.
    inversion H; subst. constructor; [exact Ea | apply IH; reflexivity].
Qed.

Lemma Forall2_mapO {A B} (f : A -> option B) l r :
  Forall2 (fun a b => f a = Some b) l r -> mapO f l = Some r.
Proof. induction 1 as [|a b l r H _ IH]; simpl; [reflexivity|]. now rewrite H, IH. Qed.

Lemma nth_N_eq {A} (l : list A) i : nth_N l i = nth_error l (N.to_nat i).
Proof. reflexivity. Qed.

Lemma nth_N_of_nat {A} (l : list A) i : nth_N l (N.of_nat i) = nth_error l i.
Proof. unfold nth_N. now rewrite Nat2N.id. Qed.

Lemma list_eq_nth {A} (l r : list A) :
  length l = length r -> (forall i a, nth_error l i = Some a -> nth_error r i = Some a) -> l = r.
Proof.
  revert r. induction l as [|a l IH]; destruct r as [|b r]; simpl; intros HL H; try discriminate; [reflexivity|].
  f_equal.
  - specialize (H 0%nat a eq_refl). simpl in H. congruence.
  - apply IH; [lia|]. intros i x Hi. apply (H (S i) x Hi).
Qed.

(* ---------------- index_of / sb_table ---------------- *)

Lemma index_of_nth x l i : index_of x l = Some i -> nth_N l i = Some x.
Proof.
  revert i. induction l as [|y l IH]; intros i H; simpl in H; [discriminate|].
  destruct (x =? y) eqn:E.
  - apply N.eqb_eq in E. inversion H; subst. reflexivity.
  - destruct (index_of x l) as [j|]; [|discriminate]. simpl in H. inversion H; subst.
    unfold nth_N. rewrite N2Nat.inj_succ. simpl. apply (IH j eq_refl).
Qed.

Lemma index_of_In x l : In x l -> exists i, index_of x l = Some i.
Proof.
  induction l as [|y l IH]; intro H; [contradiction|]. simpl.
  destruct (x =? y) eqn:E; [eauto|].
  apply N.eqb_neq in E. destruct H as [H|H]; [congruence|].
  destruct (IH H) as [i Hi]. rewrite Hi. simpl. eauto.
Qed.

Lemma index_of_None x l : index_of x l = None -> ~ In x l.
Proof. intros H Hin. destruct (index_of_In x l Hin) as [i Hi]. congruence. Qed.

Lemma index_of_lt x l i : index_of x l = Some i -> i < N.of_nat (length l).
Proof. intro H. apply index_of_nth in H. apply nth_N_Some_lt in H. lia. Qed.

Definition tbl_step (t : list N) (l : N) : list N :=
  match index_of l t with Some _ => t | None => t ++ [l] end.

Lemma sb_table_fold vox : sb_table vox = fold_left tbl_step vox [].
Proof. reflexivity. Qed.

Lemma tbl_fold_incl vox : forall t x, In x t -> In x (fold_left tbl_step vox t).
Proof.
  induction vox as [|l vox IH]; intros t x H; [exact H|]. simpl. apply IH.
  unfold tbl_step. destruct (index_of l t); [exact H | apply in_or_app; now left].
Qed.

Lemma tbl_fold_covers vox : forall t x, In x vox -> In x (fold_left tbl_step vox t).
Proof.
  induction vox as [|l vox IH]; intros t x H; [contradiction|]. simpl.
  destruct H as [H|H]; [subst|now apply IH].
  apply tbl_fold_incl. unfold tbl_step. destruct (index_of x t) eqn:E.
  - apply index_of_nth in E. unfold nth_N in E. eapply nth_error_In; eauto.
  - apply in_or_app. right. now left.
Qed.

Lemma tbl_fold_sound vox : forall t x, In x (fold_left tbl_step vox t) -> In x t \/ In x vox.
Proof.
  induction vox as [|l vox IH]; intros t x H; [now left|]. simpl in H.
  apply IH in H. destruct H as [H|H]; [|right; now right].
  unfold tbl_step in H. destruct (index_of l t); [now left|].
  apply in_app_or in H. destruct H as [H|[H|[]]]; [now left | right; now left].
Qed.

Lemma tbl_fold_nodup vox : forall t, NoDup t -> NoDup (fold_left tbl_step vox t).
Proof.
  induction vox as [|l vox IH]; intros t H; [exact H|]. simpl. apply IH.
  unfold tbl_step. destruct (index_of l t) eqn:E; [exact H|].
  apply index_of_None in E. clear IH. induction t as [|y t IHt]; simpl.
  - constructor; [intros []|constructor].
  - inversion H; subst. constructor.
    + intro Hin. apply in_app_or in Hin. destruct Hin as [Hin|[Hin|[]]]; [contradiction|].
      subst. apply E. now left.
    + apply IHt; [assumption|]. intro Hin. apply E. now right.
Qed.

(* ---------------- the meaning of the compressed arrays ---------------- *)

(* packed field j of a sub-block's value bytes; a sub-block with one label has no values *)
Definition field (vs : bytes) (k j : N) : res N :=
  if k =? 0 then Ok 0 else get_packed vs (j * k) k.

(* one sub-block: its slice [ixs] of SBIndices and [vs] of SBValues denote the 512 voxels [vox] *)
Definition sb_sem (labels ixs : list N) (vs : bytes) (vox : list N) : Prop :=
  let n := N.of_nat (length ixs) in
  let k := bits_for n in
  1 <= n <= 512 /\
  Forall (fun ix => ix < N.of_nat (length labels)) ixs /\
  length vox = 512%nat /\
  N.of_nat (length vs) = 64 * k /\
  forall j v, nth_error vox j = Some v ->
    exists f ix, field vs k (N.of_nat j) = Ok f /\ nth_N ixs f = Some ix /\ nth_N labels ix = Some v.

Inductive Sem (labels : list N) : list N -> list N -> bytes -> list (list N) -> Prop :=
| Sem_nil : Sem labels [] [] [] []
| Sem_cons ixs vs vox ns idx vals voxs :
    sb_sem labels ixs vs vox -> Sem labels ns idx vals voxs ->
    Sem labels (N.of_nat (length ixs) :: ns) (ixs ++ idx) (vs ++ vals) (vox :: voxs).

Lemma Sem_length labels ns idx vals voxs : Sem labels ns idx vals voxs -> length ns = length voxs.
Proof. induction 1; simpl; congruence. Qed.

(* ---------------- reading helpers ---------------- *)

Lemma get_packed_shift pre l p k :
  get_packed (pre ++ l) (8 * N.of_nat (length pre) + p) k = get_packed l p k.
Proof.
  unfold get_packed.
  replace ((8 * N.of_nat (length pre) + p) / 8) with (N.of_nat (length pre) + p / 8) by lia.
  replace ((8 * N.of_nat (length pre) + p) mod 8) with (p mod 8) by lia.
  rewrite nth_N_app_r.
  replace (N.of_nat (length pre) + p / 8 + 1) with (N.of_nat (length pre) + (p / 8 + 1)) by lia.
  rewrite nth_N_app_r. reflexivity.
Qed.

Lemma nth_N_app_Some {A} (l r : list A) i a : nth_N l i = Some a -> nth_N (l ++ r) i = Some a.
Proof. intro H. rewrite nth_N_app_l; [exact H|]. eapply nth_N_Some_lt; eauto. Qed.

Lemma get_packed_mono l post p k v : get_packed l p k = Ok v -> get_packed (l ++ post) p k = Ok v.
Proof.
  unfold get_packed. intro H.
  destruct (nth_N l (p / 8)) as [b0|] eqn:E0; [|discriminate].
  rewrite (nth_N_app_Some _ _ _ _ E0).
  destruct (nth_N t_leftBitMask (p mod 8)) as [m|]; [|discriminate].
  destruct (p mod 8 + k <=? 8); [exact H|].
  destruct (nth_N l (p / 8 + 1)) as [b1|] eqn:E1; [|discriminate].
  rewrite (nth_N_app_Some _ _ _ _ E1). exact H.
Qed.

Lemma nth_error_repeat' {A} (a : A) n i : (i < n)%nat -> nth_error (repeat a n) i = Some a.
Proof.
  revert i. induction n as [|n IH]; intros i H; [lia|].
  destruct i; simpl; [reflexivity|]. apply IH. lia.
Qed.

Lemma Forall2_nth_error_r {A B} (P : A -> B -> Prop) l r i b :
  Forall2 P l r -> nth_error r i = Some b -> exists a, nth_error l i = Some a /\ P a b.
Proof.
  intro H. revert i. induction H as [|x y l r Hxy _ IH]; intros i Hi.
  - destruct i; discriminate.
  - destruct i; simpl in *.
    + inversion Hi; subst. eauto.
    + apply IH; assumption.
Qed.

Lemma lookup_all (labels ixs : list N) :
  Forall (fun ix => ix < N.of_nat (length labels)) ixs ->
  exists ls : list N, Forall2 (fun ix l => nth_N labels ix = Some l) ixs ls.
Proof.
  induction 1 as [|ix ixs H _ [ls IH]]; [exists []; constructor|].
  destruct (nth_N_lt_Some labels ix ltac:(lia)) as [l Hl].
  exists (l :: ls). constructor; assumption.
Qed.

(* ---------------- MakeLabelVolume on any well-formed block ---------------- *)

Lemma dec_sb_sem b ixs vs vox pre_i post_i pre_v post_v sbl :
  sb_sem (b_labels b) ixs vs vox ->
  b_idx b = pre_i ++ ixs ++ post_i -> b_vals b = pre_v ++ vs ++ post_v ->
  length sbl = 512%nat ->
  exists sbl', length sbl' = 512%nat /\
    dec_sb b (N.of_nat (length pre_i), 8 * N.of_nat (length pre_v), sbl) (N.of_nat (length ixs))
    = Ok (vox, (N.of_nat (length (pre_i ++ ixs)), 8 * N.of_nat (length (pre_v ++ vs)), sbl')).
Proof.
  intros [Hn [Hix [Hvox [Hvs Hf]]]] Ei Ev Hsbl.
  set (n := N.of_nat (length ixs)) in *. set (k := bits_for n) in *.
  destruct (lookup_all _ _ Hix) as [ls Hls].
  pose proof (Forall2_len _ _ _ Hls) as Llen.
  exists (ls ++ skipn (N.to_nat n) sbl). split.
  { rewrite app_length, skipn_length. lia. }
  unfold dec_sb. fold k.
  replace (512 <? n) with false by (symmetry; apply N.ltb_ge; lia).
  assert (M : mapR (fun j => match nth_N (b_idx b) (N.of_nat (length pre_i) + j) with
                             | Some ix => opt_res (nth_N (b_labels b) ix) | None => Panic end) (nseq n) = Ok ls).
  { apply mapR_nseq_build; [unfold n; lia|]. intros i v Hi.
    destruct (Forall2_nth_error_r _ _ _ _ _ Hls Hi) as [ix [Hix' Hl]].
    rewrite Ei, nth_N_app_r, nth_N_of_nat. rewrite nth_error_app1 by (apply nth_error_Some; congruence).
    rewrite Hix', Hl. reflexivity. }
  rewrite M.
  replace (n =? 0) with false by (symmetry; apply N.eqb_neq; lia).
  assert (Epos : N.of_nat (length pre_i) + n = N.of_nat (length (pre_i ++ ixs))) by (rewrite app_length; unfold n; lia).
  destruct (n =? 1) eqn:E1.
  - apply N.eqb_eq in E1.
    assert (k = 0) as K0 by (unfold k; rewrite E1; reflexivity).
    destruct ls as [|l0 ls']; [simpl in Llen; lia|]. cbn [app].
    assert (vox = repeat l0 512) as ->.
    { apply list_eq_nth; [rewrite repeat_length; exact Hvox|].
      intros j v Hj. destruct (Hf j v Hj) as [f [ix [F1 [F2 F3]]]].
      unfold field in F1. rewrite K0 in F1. simpl in F1. apply Ok_inj in F1. subst f.
      inversion Hls as [|ix0 l0' ixs' ls'' H0 _ Eq1 Eq2]; subst.
      unfold nth_N in F2. simpl in F2. inversion F2; subst ix0.
      assert (v = l0) by congruence. subst v.
      apply nth_error_repeat'. rewrite <- Hvox. apply nth_error_Some. congruence. }
    rewrite Epos. replace (n <? 2) with true by (symmetry; apply N.ltb_lt; lia).
    replace (8 * N.of_nat (length (pre_v ++ vs))) with (8 * N.of_nat (length pre_v))
      by (rewrite app_length; rewrite K0 in Hvs; lia).
    reflexivity.
  - apply N.eqb_neq in E1.
    assert (Hk : 1 <= k <= 9) by (apply bits_for_range; lia).
    assert (M2 : mapR (fun i => match get_packed (b_vals b) (8 * N.of_nat (length pre_v) + i * k) k with
                                | Ok ix => opt_res (nth_N (ls ++ skipn (N.to_nat n) sbl) ix)
                                | Err => Err | Panic => Panic end) (nseq 512) = Ok vox).
    { apply mapR_nseq_build; [lia|]. intros j v Hj.
      destruct (Hf j v Hj) as [f [ix [F1 [F2 F3]]]].
      unfold field in F1. replace (k =? 0) with false in F1 by (symmetry; apply N.eqb_neq; lia).
      rewrite Ev, get_packed_shift. rewrite (get_packed_mono _ _ _ _ _ F1).
      unfold nth_N in F2.
      destruct (Forall2_nth_error _ _ _ _ _ Hls F2) as [l [Hl1 Hl2]].
      unfold nth_N. rewrite nth_error_app1 by (apply nth_error_Some; congruence).
      rewrite Hl1. simpl. congruence. }
    rewrite M2.
    replace (n <? 2) with false by (symmetry; apply N.ltb_ge; lia).
    rewrite Epos.
    replace (8 * N.of_nat (length (pre_v ++ vs))) with (8 * N.of_nat (length pre_v) + 512 * k)
      by (rewrite app_length; lia).
    reflexivity.
Qed.

Lemma dec_sbs_sem b ns idx vals voxs :
  Sem (b_labels b) ns idx vals voxs ->
  forall pre_i pre_v sbl,
    b_idx b = pre_i ++ idx -> b_vals b = pre_v ++ vals -> length sbl = 512%nat ->
    dec_sbs b (N.of_nat (length pre_i), 8 * N.of_nat (length pre_v), sbl) ns = Ok voxs.
Proof.
  induction 1 as [|ixs vs vox ns idx vals voxs Hsb _ IH]; intros pre_i pre_v sbl Ei Ev Hs.
  - reflexivity.
  - cbn [dec_sbs].
    destruct (dec_sb_sem b ixs vs vox pre_i idx pre_v vals sbl Hsb Ei Ev Hs) as [sbl' [Hs' D]].
    rewrite D. rewrite (IH (pre_i ++ ixs) (pre_v ++ vs) sbl'); [reflexivity| | |exact Hs'].
    + rewrite Ei. now rewrite app_assoc.
    + rewrite Ev. now rewrite app_assoc.
Qed.

(* ---------------- the encoder produces well-formed arrays ---------------- *)

Lemma sb_table_props vox :
  NoDup (sb_table vox) /\ (forall x, In x vox -> In x (sb_table vox)) /\ incl (sb_table vox) vox.
Proof.
  rewrite sb_table_fold. split; [|split].
  - apply tbl_fold_nodup. constructor.
  - intros x H. now apply tbl_fold_covers.
  - intros x H. apply tbl_fold_sound in H. destruct H as [[]|H]; exact H.
Qed.

Lemma idx0_nth t v : In v t -> exists i, index_of v t = Some i /\ idx0 t v = i /\ nth_N t i = Some v.
Proof.
  intro H. destruct (index_of_In v t H) as [i Hi]. exists i. unfold idx0. rewrite Hi.
  repeat split. now apply index_of_nth.
Qed.

Lemma enc_sb_sem tbl vox ixs :
  length vox = 512%nat ->
  mapO (fun l => index_of l tbl) (se_tbl (enc_sb vox)) = Some ixs ->
  sb_sem tbl ixs (se_vals (enc_sb vox)) vox /\ length ixs = length (sb_table vox).
Proof.
  intros Hlen HM. unfold enc_sb in *. cbn [se_tbl se_vals] in *.
  set (t := sb_table vox) in *.
  destruct (sb_table_props vox) as [ND [Cov Inc]]. fold t in ND, Cov, Inc.
  apply mapO_Forall2 in HM. pose proof (Forall2_len _ _ _ HM) as L.
  split; [|now symmetry].
  assert (Hle : (length t <= 512)%nat) by (rewrite <- Hlen; apply NoDup_incl_length; assumption).
  assert (Hge : (1 <= length t)%nat).
  { destruct vox as [|v0 vox']; [simpl in Hlen; lia|].
    pose proof (Cov v0 (or_introl eq_refl)) as H0. destruct t; [contradiction|simpl; lia]. }
  unfold sb_sem. rewrite <- L.
  set (n := N.of_nat (length t)) in *. set (k := bits_for n) in *.
  split; [lia|]. split.
  { clear -HM. induction HM as [|a b l r H _ IH]; constructor; [|exact IH].
    now apply index_of_lt in H. }
  split; [exact Hlen|].
  destruct (k =? 0) eqn:K0.
  - apply N.eqb_eq in K0. split; [rewrite K0; reflexivity|].
    intros j v Hj. assert (Hv : In v t) by (apply Cov; eapply nth_error_In; eauto).
    destruct (idx0_nth t v Hv) as [i [Hi [_ Hn]]].
    assert (n = 1) as N1.
    { destruct (N.lt_ge_cases n 2) as [Hlt|Hge2]; [lia|].
      pose proof (bits_for_range n ltac:(lia)). fold k in H. lia. }
    assert (i = 0) by (apply index_of_lt in Hi; lia). subst i.
    unfold nth_N in Hn.
    destruct (Forall2_nth_error _ _ _ _ _ HM Hn) as [ix [Hix1 Hix2]].
    exists 0, ix. unfold field. rewrite K0. cbn [N.eqb]. repeat split.
    + exact Hix1.
    + now apply index_of_nth.
  - apply N.eqb_neq in K0.
    assert (Hn2 : 2 <= n).
    { destruct (N.lt_ge_cases n 2) as [Hlt|Hge2]; [|exact Hge2].
      exfalso. apply K0. unfold k, bits_for. apply N.ltb_lt in Hlt. now rewrite Hlt. }
    assert (Hk : 1 <= k <= 9) by (apply bits_for_range; lia).
    assert (Hf : Forall (fun v => v < 2 ^ k) (map (idx0 t) vox)).
    { apply Forall_forall. intros x Hx. apply in_map_iff in Hx as [v [Ev Hv]]. subst x.
      destruct (idx0_nth t v (Cov v Hv)) as [i [Hi [-> _]]].
      apply index_of_lt in Hi. pose proof (bits_for_bound n Hn2). fold k in H. lia. }
    assert (Hm : ((N.to_nat k * length (map (idx0 t) vox)) mod 8 = 0)%nat).
    { rewrite map_length, Hlen. lia. }
    pose proof (pack_length k _ Hk Hf Hm) as PL. rewrite map_length, Hlen in PL.
    split; [lia|].
    intros j v Hj. assert (Hv : In v t) by (apply Cov; eapply nth_error_In; eauto).
    destruct (idx0_nth t v Hv) as [i [Hi [Hi0 Hn]]].
    unfold nth_N in Hn.
    destruct (Forall2_nth_error _ _ _ _ _ HM Hn) as [ix [Hix1 Hix2]].
    exists i, ix. split; [|split].
    + unfold field. replace (k =? 0) with false by (symmetry; now apply N.eqb_neq).
      pose proof (get_pack [] [] k (map (idx0 t) vox) j i Hk Hf Hm) as G.
      cbn [app length] in G. rewrite app_nil_r in G.
      replace (8 * N.of_nat 0 + N.of_nat j * k) with (N.of_nat j * k) in G by lia.
      apply G. rewrite nth_error_map, Hj. simpl. now rewrite Hi0.
    + exact Hix1.
    + now apply index_of_nth.
Qed.

Lemma encs_sem tbl sbs : forall idxs,
  Forall (fun vox => length vox = 512%nat) sbs ->
  mapO (fun e => mapO (fun l => index_of l tbl) (se_tbl e)) (map enc_sb sbs) = Some idxs ->
  Sem tbl (map (fun e => N.of_nat (length (se_tbl e))) (map enc_sb sbs))
      (concat idxs) (concat (map se_vals (map enc_sb sbs))) sbs.
Proof.
  induction sbs as [|vox sbs IH]; intros idxs HF HM.
  - simpl in HM. inversion HM; subst. constructor.
  - inversion HF as [|? ? Hv HF']; subst.
    cbn [map mapO] in HM.
    destruct (mapO (fun l => index_of l tbl) (se_tbl (enc_sb vox))) as [ixs|] eqn:E1; [|discriminate].
    destruct (mapO (fun e => mapO (fun l => index_of l tbl) (se_tbl e)) (map enc_sb sbs)) as [idxs'|] eqn:E2; [|discriminate].
    inversion HM; subst idxs. cbn [map concat].
    destruct (enc_sb_sem tbl vox ixs Hv E1) as [S L].
    replace (length (se_tbl (enc_sb vox))) with (length ixs) by (rewrite L; reflexivity).
    constructor; [exact S | apply IH; [exact HF' | reflexivity]].
Qed.

(* ---------------- position arithmetic ---------------- *)

Lemma sb_of_spec gx gy x y z :
  x < 8 * gx -> y < 8 * gy ->
  sb_of gx gy x y z mod gx = x / 8 /\
  (sb_of gx gy x y z / gx) mod gy = y / 8 /\
  sb_of gx gy x y z / (gx * gy) = z / 8.
Proof.
  intros Hx Hy. unfold sb_of.
  assert (Gx : gx <> 0) by lia. assert (Gy : gy <> 0) by lia.
  assert (X : x / 8 < gx) by (apply N.div_lt_upper_bound; lia).
  assert (Y : y / 8 < gy) by (apply N.div_lt_upper_bound; lia).
  replace (z / 8 * gy * gx + y / 8 * gx + x / 8) with (x / 8 + (z / 8 * gy + y / 8) * gx) by ring.
  assert (D : (x / 8 + (z / 8 * gy + y / 8) * gx) / gx = z / 8 * gy + y / 8).
  { rewrite N.div_add by exact Gx. rewrite (N.div_small (x / 8) gx X). lia. }
  split; [|split].
  - rewrite N.mod_add by exact Gx. now apply N.mod_small.
  - rewrite D. replace (z / 8 * gy + y / 8) with (y / 8 + z / 8 * gy) by ring.
    rewrite N.mod_add by exact Gy. now apply N.mod_small.
  - rewrite <- N.div_div by assumption. rewrite D.
    replace (z / 8 * gy + y / 8) with (y / 8 + z / 8 * gy) by ring.
    rewrite N.div_add by exact Gy. rewrite (N.div_small (y / 8) gy Y). lia.
Qed.

Lemma sb_of_lt gx gy gz x y z :
  x < 8 * gx -> y < 8 * gy -> z < 8 * gz -> sb_of gx gy x y z < gx * gy * gz.
Proof.
  intros Hx Hy Hz. unfold sb_of.
  assert (X : x / 8 < gx) by (apply N.div_lt_upper_bound; lia).
  assert (Y : y / 8 < gy) by (apply N.div_lt_upper_bound; lia).
  assert (Z : z / 8 < gz) by (apply N.div_lt_upper_bound; lia).
  set (a := x / 8) in *. set (b := y / 8) in *. set (c := z / 8) in *.
  assert (c * gy * gx + b * gx + a < (c + 1) * gy * gx).
  { assert (b * gx + a < gy * gx) by nia. nia. }
  assert ((c + 1) * gy * gx <= gz * gy * gx).
  { apply N.mul_le_mono_r. apply N.mul_le_mono_r. lia. }
  replace (gx * gy * gz) with (gz * gy * gx) by ring. lia.
Qed.

Lemma loc_of_spec x y z :
  loc_of x y z mod 8 = x mod 8 /\ (loc_of x y z / 8) mod 8 = y mod 8 /\
  loc_of x y z / 64 = z mod 8 /\ loc_of x y z < 512.
Proof. unfold loc_of. repeat split; lia. Qed.

Lemma pos_coords nx ny nz p :
  p < nx * ny * nz ->
  p mod nx < nx /\ (p / nx) mod ny < ny /\ p / (nx * ny) < nz /\
  (p / (nx * ny) * ny + (p / nx) mod ny) * nx + p mod nx = p.
Proof.
  intro H.
  assert (Nx : nx <> 0) by (intro; subst; lia).
  assert (Ny : ny <> 0) by (intro; subst; lia).
  repeat split.
  - now apply N.mod_upper_bound.
  - now apply N.mod_upper_bound.
  - apply N.div_lt_upper_bound; [lia|]. lia.
  - rewrite <- N.div_div by assumption.
    pose proof (N.div_mod p nx Nx) as E1. pose proof (N.div_mod (p / nx) ny Ny) as E2.
    set (q := p / nx) in *. set (r := q / ny) in *.
    symmetry. rewrite E1 at 1. rewrite E2 at 1. ring.
Qed.

(* ---------------- reading the array through its rows ---------------- *)

Lemma nth_error_firstn_lt {A} (l : list A) w x : (x < w)%nat -> nth_error (firstn w l) x = nth_error l x.
Proof.
  revert l x. induction w as [|w IH]; intros l x H; [lia|].
  destruct l as [|a l]; [reflexivity|]. destruct x; simpl; [reflexivity|]. apply IH. lia.
Qed.

Lemma nth_error_skipn' {A} (l : list A) k x : nth_error (skipn k l) x = nth_error l (k + x).
Proof.
  revert l. induction k as [|k IH]; intro l; [reflexivity|].
  destruct l as [|a l]; simpl; [now destruct x|]. apply IH.
Qed.

Lemma skipn_skipn' {A} (l : list A) a b : skipn a (skipn b l) = skipn (b + a) l.
Proof.
  revert l. induction b as [|b IH]; intro l; [reflexivity|].
  destruct l as [|x l]; simpl; [now rewrite skipn_nil|]. apply IH.
Qed.

Lemma chunks_nth fuel w : forall (l : list N) r,
  (0 < w)%nat -> (length l <= fuel)%nat -> (r * w < length l)%nat ->
  nth_error (chunks fuel w l) r = Some (firstn w (skipn (r * w) l)).
Proof.
  induction fuel as [|f IH]; intros l r Hw Hf Hr; [lia|].
  destruct l as [|a l]; [simpl in Hr; lia|]. cbn [chunks].
  destruct r as [|r]; [reflexivity|]. cbn [nth_error].
  assert (L1 : (length (skipn w (a :: l)) <= f)%nat) by (rewrite skipn_length; simpl length in *; lia).
  assert (L2 : (r * w < length (skipn w (a :: l)))%nat) by (rewrite skipn_length; simpl length in *; lia).
  rewrite (IH _ _ Hw L1 L2). rewrite skipn_skipn'. f_equal; f_equal; lia.
Qed.

Lemma chunks_nth_none fuel w : forall (l : list N) r,
  (0 < w)%nat -> (length l <= r * w)%nat -> nth_error (chunks fuel w l) r = None.
Proof.
  induction fuel as [|f IH]; intros l r Hw Hr; [now destruct r|].
  destruct l as [|a l]; [now destruct r|]. cbn [chunks].
  destruct r as [|r]; [simpl in Hr; lia|]. cbn [nth_error].
  apply IH; [assumption|]. rewrite skipn_length. simpl length in *. lia.
Qed.

Lemma vol_at_rows vol wx r x : x < wx -> vol_at (rows wx vol) r x = nth_N vol (r * wx + x).
Proof.
  intro Hx. unfold vol_at, rows, nth_N.
  destruct (Nat.lt_ge_cases (N.to_nat r * N.to_nat wx) (length vol)) as [H|H].
  - rewrite chunks_nth by lia. rewrite nth_error_firstn_lt by lia.
    rewrite nth_error_skipn'. f_equal. lia.
  - rewrite chunks_nth_none by lia. symmetry. apply nth_error_None. lia.
Qed.

Lemma In_firstn' {A} (l : list A) n v : In v (firstn n l) -> In v l.
Proof.
  revert l. induction n as [|n IH]; intros l H; [contradiction|].
  destruct l as [|a l]; [contradiction|]. destruct H as [H|H]; [now left | right; now apply IH].
Qed.

Lemma In_skipn' {A} (l : list A) n v : In v (skipn n l) -> In v l.
Proof.
  revert l. induction n as [|n IH]; intros l H; [exact H|].
  destruct l as [|a l]; [contradiction|]. right. now apply IH.
Qed.

Lemma In_chunks fuel w : forall (l row : list N), In row (chunks fuel w l) -> incl row l.
Proof.
  induction fuel as [|f IH]; intros l row H; [contradiction|].
  destruct l as [|a l]; [contradiction|]. cbn [chunks] in H. destruct H as [H|H].
  - subst row. intros v Hv. eapply In_firstn'; eauto.
  - intros v Hv. apply (IH _ _ H) in Hv. eapply In_skipn'; eauto.
Qed.

Lemma vol_at_In vol wx r x v : vol_at (rows wx vol) r x = Some v -> In v vol.
Proof.
  unfold vol_at, rows, nth_N. destruct (nth_error (chunks _ _ vol) (N.to_nat r)) as [row|] eqn:E; [|discriminate].
  intro H. apply nth_error_In in E. apply nth_error_In in H. eapply In_chunks; eauto.
Qed.

(* ---------------- gather / assemble / crop ---------------- *)

Lemma opt_res_Ok {A} (o : option A) v : opt_res o = Ok v -> o = Some v.
Proof. destruct o; simpl; intro H; [apply Ok_inj in H; now subst | discriminate]. Qed.

Lemma mapR_total {A B} (f : A -> res B) l :
  (forall a, In a l -> exists b, f a = Ok b) -> exists r, mapR f l = Ok r.
Proof.
  induction l as [|a l IH]; intro H; [exists []; reflexivity|].
  destruct (H a (or_introl eq_refl)) as [b Hb].
  destruct IH as [r Hr]; [intros; apply H; now right|].
  exists (b :: r). simpl. now rewrite Hb, Hr.
Qed.

Lemma gather_nth vol wx wy ox oy oz gx gy gz sbs s :
  gather vol wx wy ox oy oz gx gy gz = Ok sbs -> s < gx * gy * gz ->
  exists vox, nth_N sbs s = Some vox /\
    sb_vox (rows wx vol) wy ox oy oz (s mod gx) ((s / gx) mod gy) (s / (gx * gy)) = Ok vox.
Proof.
  intros G Hs. unfold gather in G.
  destruct (mapR_nth _ _ _ (N.to_nat s) s G) as [vox [H1 H2]].
  { rewrite nth_error_nseq by lia. f_equal. lia. }
  exists vox. split; [exact H1 | exact H2].
Qed.

Lemma sb_vox_nth rs wy ox oy oz sx sy sz vox i :
  sb_vox rs wy ox oy oz sx sy sz = Ok vox -> i < 512 ->
  exists v, nth_N vox i = Some v /\
    vol_at rs ((sz * 8 + oz + i / 64) * wy + (sy * 8 + oy + (i / 8) mod 8)) (sx * 8 + ox + i mod 8) = Some v.
Proof.
  intros G Hi. unfold sb_vox in G.
  destruct (mapR_nth _ _ _ (N.to_nat i) i G) as [v [H1 H2]].
  { rewrite nth_error_nseq by lia. f_equal. lia. }
  exists v. split; [exact H1 | now apply opt_res_Ok].
Qed.

Lemma gather_lengths vol wx wy ox oy oz gx gy gz sbs :
  gather vol wx wy ox oy oz gx gy gz = Ok sbs ->
  length sbs = N.to_nat (gx * gy * gz) /\ Forall (fun vox => length vox = 512%nat) sbs.
Proof.
  intro G. unfold gather in G. split.
  - rewrite (mapR_length _ _ _ G). apply nseq_length.
  - apply mapR_Forall2 in G. clear -G.
    induction G as [|s vox l r H _ IH]; constructor; [|exact IH].
    unfold sb_vox in H. rewrite (mapR_length _ _ _ H). apply nseq_length.
Qed.

(* the voxel the assembled output and the cropped volume hold at output position p *)
Lemma assemble_crop_point vol wx wy ox oy oz gx gy gz sbs p :
  gather vol wx wy ox oy oz gx gy gz = Ok sbs -> p < 8 * gx * (8 * gy) * (8 * gz) ->
  let x := p mod (8 * gx) in let y := (p / (8 * gx)) mod (8 * gy) in let z := p / (8 * gx * (8 * gy)) in
  exists vox v, nth_N sbs (sb_of gx gy x y z) = Some vox /\ nth_N vox (loc_of x y z) = Some v /\
    vol_at (rows wx vol) ((oz + z) * wy + (oy + y)) (ox + x) = Some v /\ In v (concat sbs).
Proof.
  intros G Hp x y z.
  destruct (pos_coords (8 * gx) (8 * gy) (8 * gz) p Hp) as [Hx [Hy [Hz _]]].
  fold x in Hx. fold y in Hy. fold z in Hz. clearbody x y z. clear Hp.
  destruct (sb_of_spec gx gy x y z Hx Hy) as [S1 [S2 S3]].
  pose proof (sb_of_lt gx gy gz x y z Hx Hy Hz) as SL.
  destruct (loc_of_spec x y z) as [L1 [L2 [L3 L4]]].
  destruct (gather_nth _ _ _ _ _ _ _ _ _ _ _ G SL) as [vox [V1 V2]].
  destruct (sb_vox_nth _ _ _ _ _ _ _ _ _ _ V2 L4) as [v [W1 W2]].
  exists vox, v. split; [exact V1|]. split; [exact W1|]. split.
  - rewrite S1, S2, S3, L1, L2, L3 in W2.
    replace (z / 8 * 8 + oz + z mod 8) with (oz + z) in W2 by (clear; lia).
    replace (y / 8 * 8 + oy + y mod 8) with (oy + y) in W2 by (clear; lia).
    replace (x / 8 * 8 + ox + x mod 8) with (ox + x) in W2 by (clear; lia). exact W2.
  - apply in_concat. exists vox. split; eapply nth_error_In; [exact V1 | exact W1].
Qed.

Lemma assemble_gather vol wx wy ox oy oz gx gy gz sbs :
  gather vol wx wy ox oy oz gx gy gz = Ok sbs ->
  exists a, assemble sbs gx gy gz = Ok a /\ crop vol wx wy ox oy oz gx gy gz = Ok a /\
            length a = N.to_nat (8 * gx * (8 * gy) * (8 * gz)) /\ (forall v, In v a -> In v (concat sbs)).
Proof.
  intro G.
  assert (E : assemble sbs gx gy gz = crop vol wx wy ox oy oz gx gy gz).
  { unfold assemble, crop. apply mapR_ext_in. intros p Hp. apply In_nseq in Hp.
    destruct (assemble_crop_point _ _ _ _ _ _ _ _ _ _ p G Hp) as [vox [v [H1 [H2 [H3 _]]]]].
    cbv zeta in *. rewrite H1, H2, H3. reflexivity. }
  destruct (mapR_total (fun p => let x := p mod (8 * gx) in let y := (p / (8 * gx)) mod (8 * gy) in
                                 let z := p / (8 * gx * (8 * gy)) in
                                 opt_res (vol_at (rows wx vol) ((oz + z) * wy + (oy + y)) (ox + x)))
                       (nseq (8 * gx * (8 * gy) * (8 * gz)))) as [a Ha].
  { intros p Hp. apply In_nseq in Hp.
    destruct (assemble_crop_point _ _ _ _ _ _ _ _ _ _ p G Hp) as [vox [v [_ [_ [H3 _]]]]].
    exists v. cbv zeta in *. now rewrite H3. }
  exists a. unfold crop in *. rewrite E. split; [exact Ha|]. split; [exact Ha|]. split.
  - rewrite (mapR_length _ _ _ Ha). apply nseq_length.
  - intros v Hv. apply mapR_Forall2 in Ha.
    apply In_nth_error in Hv as [i Hi].
    destruct (Forall2_nth_error_r _ _ _ _ _ Ha Hi) as [p [Hp1 Hp2]].
    apply nth_error_In in Hp1. apply In_nseq in Hp1.
    destruct (assemble_crop_point _ _ _ _ _ _ _ _ _ _ p G Hp1) as [vox [v' [_ [_ [H3 H4]]]]].
    cbv zeta in *. rewrite H3 in Hp2. simpl in Hp2. apply Ok_inj in Hp2. now subst.
Qed.

(* the crop of a whole array is the array *)
Lemma crop_whole a gx gy gz :
  length a = N.to_nat (8 * gx * (8 * gy) * (8 * gz)) ->
  crop a (8 * gx) (8 * gy) 0 0 0 gx gy gz = Ok a.
Proof.
  intro L. unfold crop. apply mapR_nseq_build; [lia|].
  intros i v Hi. cbv zeta.
  assert (Hp : N.of_nat i < 8 * gx * (8 * gy) * (8 * gz)).
  { assert (i < length a)%nat by (apply nth_error_Some; congruence). lia. }
  destruct (pos_coords _ _ _ _ Hp) as [_ [_ [_ E]]].
  destruct (pos_coords _ _ _ _ Hp) as [Hx _].
  rewrite !N.add_0_l, vol_at_rows by exact Hx. rewrite E, nth_N_of_nat, Hi. reflexivity.
Qed.

(* ---------------- decode (encode a) = a ---------------- *)

Definition covers (tbl : list N) (sbs : list (list N)) : Prop :=
  forall l, In l (concat sbs) -> In l tbl.

Lemma all_eq_repeat (a : list N) l n :
  length a = n -> (forall v, In v a -> v = l) -> a = repeat l n.
Proof.
  intros L H. apply list_eq_nth; [now rewrite repeat_length|].
  intros i v Hi. rewrite (H v (nth_error_In _ _ Hi)). apply nth_error_repeat'.
  rewrite <- L. apply nth_error_Some. congruence.
Qed.

Lemma encode_gen_sem ao tbl vol wx wy wz ox oy oz gx gy gz sbs b :
  gather vol wx wy ox oy oz gx gy gz = Ok sbs ->
  encode_gen ao tbl vol wx wy wz ox oy oz gx gy gz = Ok b ->
  b_gx b = gx /\ b_gy b = gy /\ b_gz b = gz /\ b_labels b = tbl /\
  ((exists l, tbl = [l] /\ b = solid_block l gx gy gz) \/
   ((forall l, tbl <> [l]) /\ (ao = true -> N.odd (gx * gy * gz) = false) /\
    Sem tbl (b_nsb b) (b_idx b) (b_vals b) sbs)).
Proof.
  intros G E. unfold encode_gen in E.
  destruct (negb (size_checks wx wy wz ox oy oz gx gy gz)); [discriminate|].
  rewrite G in E.
  destruct (gather_lengths _ _ _ _ _ _ _ _ _ _ G) as [_ HF].
  assert (General : forall (Hne : forall l, tbl <> [l]),
    (if ao && N.odd (gx * gy * gz) then Err
     else match mapO (fun e => mapO (fun l => index_of l tbl) (se_tbl e)) (map enc_sb sbs) with
          | Some idxs => Ok {| b_gx := gx; b_gy := gy; b_gz := gz; b_labels := tbl;
                               b_nsb := map (fun e => N.of_nat (length (se_tbl e))) (map enc_sb sbs);
                               b_idx := concat idxs; b_vals := concat (map se_vals (map enc_sb sbs)) |}
          | None => Err end) = Ok b ->
    b_gx b = gx /\ b_gy b = gy /\ b_gz b = gz /\ b_labels b = tbl /\
    ((exists l, tbl = [l] /\ b = solid_block l gx gy gz) \/
     ((forall l, tbl <> [l]) /\ (ao = true -> N.odd (gx * gy * gz) = false) /\ Sem tbl (b_nsb b) (b_idx b) (b_vals b) sbs))).
  { intros Hne E'. destruct (ao && N.odd (gx * gy * gz)) eqn:O; [discriminate|].
    destruct (mapO _ (map enc_sb sbs)) as [idxs|] eqn:M; [|discriminate].
    apply Ok_inj in E'. subst b. cbn. repeat split. right. split; [exact Hne|]. split.
    - intro Ha. subst ao. exact O.
    - now apply encs_sem. }
  destruct tbl as [|l1 [|l2 tbl']].
  - apply General; [intros l H; discriminate | exact E].
  - apply Ok_inj in E. subst b. cbn. repeat split. left. eauto.
  - apply General; [intros l H; discriminate | exact E].
Qed.

Lemma encode_at_sem tbl vol wx wy wz ox oy oz gx gy gz sbs b :
  gather vol wx wy ox oy oz gx gy gz = Ok sbs ->
  encode_at tbl vol wx wy wz ox oy oz gx gy gz = Ok b ->
  b_gx b = gx /\ b_gy b = gy /\ b_gz b = gz /\ b_labels b = tbl /\
  ((exists l, tbl = [l] /\ b = solid_block l gx gy gz) \/
   ((forall l, tbl <> [l]) /\ Sem tbl (b_nsb b) (b_idx b) (b_vals b) sbs)).
Proof.
  intros G E. destruct (encode_gen_sem false _ _ _ _ _ _ _ _ _ _ _ _ _ G E) as [A [B [C [D [H|[H1 [_ H2]]]]]]].
  - repeat split; try assumption. now left.
  - repeat split; try assumption. right. split; assumption.
Qed.

Lemma sbs_nonempty gx gy gz (sbs : list (list N)) :
  length sbs = N.to_nat (gx * gy * gz) -> Forall (fun vox => length vox = 512%nat) sbs ->
  0 < gx * gy * gz -> exists l, In l (concat sbs).
Proof.
  intros L HF Hpos. destruct sbs as [|vox sbs]; [simpl in L; lia|].
  inversion HF as [|? ? Hv _]; subst. destruct vox as [|v vox]; [simpl in Hv; lia|].
  exists v. simpl. now left.
Qed.

Theorem decode_encode_at tbl vol wx wy wz ox oy oz gx gy gz sbs b :
  gather vol wx wy ox oy oz gx gy gz = Ok sbs -> covers tbl sbs ->
  encode_at tbl vol wx wy wz ox oy oz gx gy gz = Ok b ->
  exists a, crop vol wx wy ox oy oz gx gy gz = Ok a /\ decode b = Ok a.
Proof.
  intros G C E.
  destruct (encode_at_sem _ _ _ _ _ _ _ _ _ _ _ _ _ G E) as [Ex [Ey [Ez [El Cases]]]].
  destruct (assemble_gather _ _ _ _ _ _ _ _ _ _ G) as [a [A1 [A2 [A3 A4]]]].
  destruct (gather_lengths _ _ _ _ _ _ _ _ _ _ G) as [GL HF].
  exists a. split; [exact A2|].
  destruct Cases as [[l [Et Eb]] | [Hne S]].
  - subst b tbl. unfold decode. cbn.
    f_equal. symmetry. apply all_eq_repeat; [exact A3|].
    intros v Hv. specialize (C v (A4 v Hv)). destruct C as [C|[]]. now symmetry.
  - unfold decode. rewrite El.
    destruct tbl as [|l1 [|l2 tbl']].
    + exfalso. assert (0 < gx * gy * gz).
      { unfold encode_at, encode_gen in E.
        destruct (size_checks wx wy wz ox oy oz gx gy gz) eqn:SC; [|discriminate].
        unfold size_checks in SC. rewrite !andb_true_iff in SC.
        destruct SC as [[[_ C2] _] _]. apply negb_true_iff in C2.
        apply orb_false_iff in C2 as [C2 C2c]. apply orb_false_iff in C2 as [C2a C2b].
        apply N.ltb_ge in C2a, C2b, C2c. clear -C2a C2b C2c. nia. }
      destruct (sbs_nonempty gx gy gz sbs GL HF H) as [l Hl]. exact (C l Hl).
    + exfalso. exact (Hne l1 eq_refl).
    + unfold block_sbs. rewrite Ex, Ey, Ez.
      pose proof (Sem_length _ _ _ _ _ S) as SL.
      replace (N.of_nat (length (b_nsb b)) <? gx * gy * gz) with false by (symmetry; apply N.ltb_ge; lia).
      rewrite firstn_all2 by lia.
      rewrite <- El in S.
      pose proof (dec_sbs_sem b _ _ _ _ S [] [] (repeat 0 512%nat) eq_refl eq_refl (repeat_length _ _)) as D.
      change (N.of_nat (length (@nil N))) with 0 in D. change (8 * 0) with 0 in D.
      unfold dstate0. rewrite D. exact A1.
Qed.

(* MakeBlock then MakeLabelVolume *)
Theorem decode_encode tbl a gx gy gz b :
  length a = N.to_nat (8 * gx * (8 * gy) * (8 * gz)) ->
  (forall l, In l a -> In l tbl) ->
  encode tbl a gx gy gz = Ok b -> decode b = Ok a.
Proof.
  intros L C E. unfold encode in E.
  assert (exists sbs, gather a (8 * gx) (8 * gy) 0 0 0 gx gy gz = Ok sbs) as [sbs G].
  { unfold encode_at, encode_gen in E.
    destruct (negb (size_checks _ _ _ _ _ _ _ _ _)); [discriminate|].
    destruct (gather a (8 * gx) (8 * gy) 0 0 0 gx gy gz) as [sbs| |]; [eauto|discriminate|discriminate]. }
  destruct (assemble_gather _ _ _ _ _ _ _ _ _ _ G) as [a' [_ [A2 [_ A4]]]].
  rewrite (crop_whole a gx gy gz L) in A2. apply Ok_inj in A2. subst a'.
  assert (Cv : covers tbl sbs).
  { intros l Hl.
    (* every gathered voxel is a voxel of a *)
    apply C. apply in_concat in Hl as [vox [Hv Hl]].
    apply In_nth_error in Hv as [s Hs]. apply In_nth_error in Hl as [i Hi].
    unfold gather in G.
    destruct (Forall2_nth_error_r _ _ _ _ _ (mapR_Forall2 _ _ _ G) Hs) as [s' [_ Hs']].
    unfold sb_vox in Hs'.
    destruct (Forall2_nth_error_r _ _ _ _ _ (mapR_Forall2 _ _ _ Hs') Hi) as [i' [_ Hi']].
    apply opt_res_Ok in Hi'. eapply vol_at_In; eauto. }
  destruct (decode_encode_at _ _ _ _ _ _ _ _ _ _ _ _ _ G Cv E) as [a' [A2' D]].
  rewrite (crop_whole a gx gy gz L) in A2'. apply Ok_inj in A2'. now subst a'.
Qed.

(* ---------------- when the encoder succeeds; the odd sub-block count defect ---------------- *)

Lemma lin_lt a b c wx wy wz : a < wx -> b < wy -> c < wz -> (c * wy + b) * wx + a < wx * wy * wz.
Proof.
  intros Ha Hb Hc.
  assert ((c * wy + b) * wx + a < (c * wy + b + 1) * wx) by nia.
  assert (c * wy + b + 1 <= wz * wy) by nia.
  assert ((c * wy + b + 1) * wx <= wz * wy * wx) by (apply N.mul_le_mono_r; assumption).
  replace (wx * wy * wz) with (wz * wy * wx) by ring. lia.
Qed.

Lemma gather_ok vol wx wy wz ox oy oz gx gy gz :
  length vol = N.to_nat (wx * wy * wz) ->
  ox + 8 * gx <= wx -> oy + 8 * gy <= wy -> oz + 8 * gz <= wz -> 0 < gx -> 0 < gy ->
  exists sbs, gather vol wx wy ox oy oz gx gy gz = Ok sbs.
Proof.
  intros L Hx Hy Hz Gx Gy. unfold gather. apply mapR_total. intros s Hs. apply In_nseq in Hs.
  unfold sb_vox. apply mapR_total. intros i Hi. apply In_nseq in Hi.
  assert (Sx : s mod gx < gx) by (apply N.mod_upper_bound; lia).
  assert (Sy : (s / gx) mod gy < gy) by (apply N.mod_upper_bound; lia).
  assert (Sz : s / (gx * gy) < gz) by (apply N.div_lt_upper_bound; [lia|]; lia).
  set (sx := s mod gx) in *. set (sy := (s / gx) mod gy) in *. set (sz := s / (gx * gy)) in *.
  clearbody sx sy sz. clear Hs.
  assert (X : sx * 8 + ox + i mod 8 < wx) by (clear -Sx Hx; lia).
  assert (Y : sy * 8 + oy + (i / 8) mod 8 < wy) by (clear -Sy Hy; lia).
  assert (Z : sz * 8 + oz + i / 64 < wz) by (clear -Sz Hz Hi; lia).
  cbv zeta. rewrite vol_at_rows by exact X.
  pose proof (lin_lt _ _ _ wx wy wz X Y Z) as LT.
  destruct (nth_N_lt_Some vol (((sz * 8 + oz + i / 64) * wy + (sy * 8 + oy + (i / 8) mod 8)) * wx + (sx * 8 + ox + i mod 8)))
    as [v Hv]; [clear -LT L; lia|].
  exists v. now rewrite Hv.
Qed.

Lemma mapO_total {A B} (f : A -> option B) l :
  (forall a, In a l -> exists b, f a = Some b) -> exists r, mapO f l = Some r.
Proof.
  induction l as [|a l IH]; intro H; [exists []; reflexivity|].
  destruct (H a (or_introl eq_refl)) as [b Hb].
  destruct IH as [r Hr]; [intros; apply H; now right|].
  exists (b :: r). simpl. now rewrite Hb, Hr.
Qed.

(* legal geometry, every label in the table: the (repaired) encoder returns a block *)
Theorem encode_at_ok tbl vol wx wy wz ox oy oz gx gy gz :
  length vol = N.to_nat (wx * wy * wz) -> wx * wy * wz < 4294967295 ->
  2 <= gx <= 128 -> 2 <= gy <= 128 -> 2 <= gz <= 128 ->
  ox + 8 * gx <= wx -> oy + 8 * gy <= wy -> oz + 8 * gz <= wz ->
  exists sbs, gather vol wx wy ox oy oz gx gy gz = Ok sbs /\
    (covers tbl sbs -> exists b, encode_at tbl vol wx wy wz ox oy oz gx gy gz = Ok b).
Proof.
  intros L Hv Gx Gy Gz Hx Hy Hz.
  destruct (gather_ok vol wx wy wz ox oy oz gx gy gz L Hx Hy Hz ltac:(lia) ltac:(lia)) as [sbs G].
  exists sbs. split; [exact G|]. intros C.
  unfold encode_at, encode_gen.
  assert (SC : size_checks wx wy wz ox oy oz gx gy gz = true).
  { unfold size_checks. rewrite !andb_true_iff, !negb_true_iff, !orb_false_iff.
    change n_MaxSubBlockSize with 128.
    repeat split; try (apply N.ltb_ge; lia); apply N.leb_gt; lia. }
  rewrite SC. cbn [negb]. rewrite G.
  assert (M : exists idxs, mapO (fun e => mapO (fun l => index_of l tbl) (se_tbl e)) (map enc_sb sbs) = Some idxs).
  { apply mapO_total. intros e He. apply in_map_iff in He as [vox [Ee Hvox]]. subst e.
    apply mapO_total. intros l Hl. unfold enc_sb in Hl. cbn [se_tbl] in Hl.
    destruct (sb_table_props vox) as [_ [_ Inc]]. apply Inc in Hl.
    apply index_of_In. apply C. apply in_concat. exists vox. split; assumption. }
  destruct M as [idxs M]. cbn [andb].
  destruct tbl as [|l1 [|l2 tbl']]; [rewrite M; eauto | eauto | rewrite M; eauto].
Qed.

(* the defect: with an odd number of sub-blocks and a table of two or more labels no block is
   ever returned *)
Theorem encode_odd_refused tbl vol wx wy wz ox oy oz gx gy gz :
  N.odd (gx * gy * gz) = true -> (forall l, tbl <> [l]) ->
  forall b, encode_at_asfound tbl vol wx wy wz ox oy oz gx gy gz <> Ok b.
Proof.
  intros O Hne b E.
  assert (exists sbs, gather vol wx wy ox oy oz gx gy gz = Ok sbs) as [sbs G].
  { unfold encode_at_asfound, encode_gen in E. destruct (negb (size_checks _ _ _ _ _ _ _ _ _)); [discriminate|].
    destruct (gather vol wx wy ox oy oz gx gy gz) as [sbs| |]; [eauto|discriminate|discriminate]. }
  destruct (encode_gen_sem true _ _ _ _ _ _ _ _ _ _ _ _ _ G E) as [_ [_ [_ [_ [[l [El _]]|[_ [O' _]]]]]]].
  - exact (Hne l El).
  - rewrite (O' eq_refl) in O. discriminate.
Qed.

(* ---------------- point views: Value and GetPointLabels ---------------- *)

Lemma gather_point vol wx wy ox oy oz gx gy gz sbs x y z :
  gather vol wx wy ox oy oz gx gy gz = Ok sbs -> x < 8 * gx -> y < 8 * gy -> z < 8 * gz ->
  exists vox v, nth_N sbs (sb_of gx gy x y z) = Some vox /\ nth_N vox (loc_of x y z) = Some v /\
    vol_at (rows wx vol) ((oz + z) * wy + (oy + y)) (ox + x) = Some v /\ In v (concat sbs).
Proof.
  intros G Hx Hy Hz.
  destruct (sb_of_spec gx gy x y z Hx Hy) as [S1 [S2 S3]].
  pose proof (sb_of_lt gx gy gz x y z Hx Hy Hz) as SL.
  destruct (loc_of_spec x y z) as [L1 [L2 [L3 L4]]].
  destruct (gather_nth _ _ _ _ _ _ _ _ _ _ _ G SL) as [vox [V1 V2]].
  destruct (sb_vox_nth _ _ _ _ _ _ _ _ _ _ V2 L4) as [v [W1 W2]].
  exists vox, v. split; [exact V1|]. split; [exact W1|]. split.
  - rewrite S1, S2, S3, L1, L2, L3 in W2.
    replace (z / 8 * 8 + oz + z mod 8) with (oz + z) in W2 by (clear; lia).
    replace (y / 8 * 8 + oy + y mod 8) with (oy + y) in W2 by (clear; lia).
    replace (x / 8 * 8 + ox + x mod 8) with (ox + x) in W2 by (clear; lia). exact W2.
  - apply in_concat. exists vox. split; eapply nth_error_In; [exact V1 | exact W1].
Qed.

Lemma sb_sem_bp labels ixs vs vox bp :
  sb_sem labels ixs vs vox ->
  (if N.of_nat (length ixs) <? 2 then bp else bp + 512 * bits_for (N.of_nat (length ixs)))
  = bp + 8 * N.of_nat (length vs).
Proof.
  intros [Hn [_ [_ [Hvs _]]]].
  destruct (N.of_nat (length ixs) <? 2) eqn:E.
  - apply N.ltb_lt in E. unfold bits_for in Hvs. apply N.ltb_lt in E. rewrite E in Hvs. lia.
  - lia.
Qed.

Lemma Sem_split labels ns idx vals voxs :
  Sem labels ns idx vals voxs ->
  forall s vox ip bp, nth_error voxs s = Some vox ->
  exists pre_i ixs post_i pre_v vs post_v,
    idx = pre_i ++ ixs ++ post_i /\ vals = pre_v ++ vs ++ post_v /\
    sb_sem labels ixs vs vox /\ nth_error ns s = Some (N.of_nat (length ixs)) /\
    prefix_pos (firstn s ns) ip bp = (ip + N.of_nat (length pre_i), bp + 8 * N.of_nat (length pre_v)).
Proof.
  induction 1 as [|ixs vs vox0 ns idx vals voxs Hsb _ IH]; intros s vox ip bp Hs.
  - destruct s; discriminate.
  - destruct s as [|s].
    + simpl in Hs. inversion Hs; subst vox0.
      exists [], ixs, idx, [], vs, vals. cbn [app length firstn prefix_pos nth_error].
      split; [reflexivity|]. split; [reflexivity|]. split; [exact Hsb|]. split; [reflexivity|].
      f_equal; lia.
    + simpl in Hs.
      destruct (IH s vox (ip + N.of_nat (length ixs)) (bp + 8 * N.of_nat (length vs)) Hs)
        as [pre_i [ixs' [post_i [pre_v [vs' [post_v [E1 [E2 [S [Hn P]]]]]]]]]].
      exists (ixs ++ pre_i), ixs', post_i, (vs ++ pre_v), vs', post_v.
      cbn [firstn prefix_pos nth_error]. rewrite (sb_sem_bp _ _ _ _ bp Hsb), P.
      split; [rewrite E1; now rewrite app_assoc|].
      split; [rewrite E2; now rewrite app_assoc|].
      split; [exact S|]. split; [exact Hn|].
      rewrite !app_length. f_equal; lia.
Qed.

Lemma read_sem b voxs x y z vox v :
  (2 <= length (b_labels b))%nat ->
  Sem (b_labels b) (b_nsb b) (b_idx b) (b_vals b) voxs ->
  x < 8 * b_gx b -> y < 8 * b_gy b -> z < 8 * b_gz b ->
  nth_N voxs (sb_of (b_gx b) (b_gy b) x y z) = Some vox -> nth_N vox (loc_of x y z) = Some v ->
  value_at b x y z = Ok v /\ point_label b x y z = Ok v.
Proof.
  intros HL S Hx Hy Hz Hvox Hv.
  pose proof (sb_of_lt _ _ _ x y z Hx Hy Hz) as SL.
  set (sbNum := sb_of (b_gx b) (b_gy b) x y z) in *.
  unfold nth_N in Hvox.
  destruct (Sem_split _ _ _ _ _ S (N.to_nat sbNum) vox 0 0 Hvox)
    as [pre_i [ixs [post_i [pre_v [vs [post_v [E1 [E2 [Ssb [Hn P]]]]]]]]]].
  rewrite !N.add_0_l in P.
  destruct Ssb as [Hn1 [_ [_ [Hvs Hf]]]].
  destruct (Hf (N.to_nat (loc_of x y z)) v Hv) as [f [ix [F1 [F2 F3]]]].
  rewrite N2Nat.id in F1.
  set (n := N.of_nat (length ixs)) in *. set (k := bits_for n) in *.
  assert (Hidx : nth_N (b_idx b) (N.of_nat (length pre_i) + f) = Some ix).
  { rewrite E1, nth_N_app_r. now apply nth_N_app_Some. }
  assert (Hread : k <> 0 -> get_packed (b_vals b) (8 * N.of_nat (length pre_v) + loc_of x y z * k) k = Ok f).
  { intro K. unfold field in F1. replace (k =? 0) with false in F1 by (symmetry; now apply N.eqb_neq).
    rewrite E2, get_packed_shift. now apply get_packed_mono. }
  assert (K0 : k = 0 -> f = 0).
  { intro K. unfold field in F1. rewrite K in F1. simpl in F1. apply Ok_inj in F1. now symmetry. }
  assert (Kn : k = 0 <-> n = 1).
  { split; intro H.
    - destruct (N.lt_ge_cases n 2); [lia|]. pose proof (bits_for_range n ltac:(lia)). fold k in H1. lia.
    - unfold k. rewrite H. reflexivity. }
  destruct (b_labels b) as [|l1 [|l2 ls]] eqn:EL; [simpl in HL; lia | simpl in HL; lia|].
  split.
  - unfold value_at.
    replace ((8 * b_gx b <=? x) || (8 * b_gy b <=? y) || (8 * b_gz b <=? z)) with false
      by (symmetry; rewrite !orb_false_iff; repeat split; apply N.leb_gt; assumption).
    rewrite EL. fold sbNum. unfold nth_N at 1. rewrite Hn, P. fold n. fold k.
    destruct (k =? 0) eqn:K.
    + apply N.eqb_eq in K. specialize (K0 K). subst f. rewrite N.add_0_r in Hidx.
      rewrite Hidx, F3. reflexivity.
    + apply N.eqb_neq in K. rewrite (Hread K), Hidx, F3. reflexivity.
  - unfold point_label. rewrite EL. fold sbNum.
    replace (b_gx b * b_gy b * b_gz b <=? sbNum) with false by (symmetry; apply N.leb_gt; exact SL).
    unfold nth_N at 1. rewrite Hn, P. fold n. fold k.
    replace (n =? 0) with false by (symmetry; apply N.eqb_neq; lia).
    destruct (n =? 1) eqn:N1.
    + apply N.eqb_eq in N1. apply Kn in N1. specialize (K0 N1). subst f. rewrite N.add_0_r in Hidx.
      rewrite Hidx, F3. reflexivity.
    + apply N.eqb_neq in N1. assert (K : k <> 0) by (intro K; apply N1; now apply Kn).
      rewrite (Hread K), Hidx, F3. reflexivity.
Qed.

(* the label at a point of the encoded block is the label of the array at that point *)
Theorem value_at_encode tbl vol wx wy wz ox oy oz gx gy gz sbs b x y z :
  gather vol wx wy ox oy oz gx gy gz = Ok sbs -> covers tbl sbs ->
  encode_at tbl vol wx wy wz ox oy oz gx gy gz = Ok b ->
  x < 8 * gx -> y < 8 * gy -> z < 8 * gz ->
  exists v, vol_at (rows wx vol) ((oz + z) * wy + (oy + y)) (ox + x) = Some v /\
            value_at b x y z = Ok v /\ point_label b x y z = Ok v.
Proof.
  intros G C E Hx Hy Hz.
  destruct (encode_at_sem _ _ _ _ _ _ _ _ _ _ _ _ _ G E) as [Ex [Ey [Ez [El Cases]]]].
  destruct (gather_point _ _ _ _ _ _ _ _ _ _ x y z G Hx Hy Hz) as [vox [v [V1 [V2 [V3 V4]]]]].
  exists v. split; [exact V3|].
  destruct Cases as [[l [Et Eb]] | [Hne S]].
  - subst b tbl. specialize (C v V4). destruct C as [C|[]]. subst v.
    unfold value_at, point_label, solid_block. cbn [b_gx b_gy b_gz b_labels].
    replace ((8 * gx <=? x) || (8 * gy <=? y) || (8 * gz <=? z)) with false
      by (symmetry; rewrite !orb_false_iff; repeat split; apply N.leb_gt; assumption).
    split; reflexivity.
  - rewrite <- Ex in Hx. rewrite <- Ey in Hy. rewrite <- Ez in Hz.
    apply (read_sem b sbs x y z vox v).
    + rewrite El. destruct tbl as [|l1 [|l2 t]]; simpl; try lia.
      * exfalso. exact (C v V4).
      * exfalso. exact (Hne l1 eq_refl).
    + rewrite El. exact S.
    + exact Hx. + exact Hy. + exact Hz.
    + rewrite Ex, Ey. exact V1.
    + exact V2.
Qed.

