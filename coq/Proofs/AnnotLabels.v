(* Proofs.AnnotLabels — the label-event handlers of sync.go keep the label view and the counts. *)
From DV Require Import Base.Prelude Model.Annot Gen.Consts Proofs.AnnotBase Proofs.AnnotStore Proofs.AnnotViews
     Proofs.AnnotDelete Proofs.AnnotMove.
From Coq Require Import Permutation.
Local Open Scope Z_scope.

(* a label event leaves the element set, the block store and the tag index alone *)
Lemma labels_step bs G s lbl' d bd' :
  ViewsI bs G s ->
  (forall l, l <> 0%N -> is_nview (fun e => bd' (e_pos e) = l) G (nget lbl' l)) ->
  nget lbl' 0%N = [] ->
  (forall i l, l <> 0%N -> count_idx i (nget lbl' l) = count_idx i (nget (lbl s) l) + dcount i l (fst d) - dcount i l (snd d)) ->
  ViewsI bs G (mkS (blk s) (tgs s) lbl' (sz_apply (cnt s) d) bd').
Proof.
  intros V Hl H0 Hc. constructor; cbn [blk tgs lbl cnt body].
  - apply (vi_uniq _ _ _ V).
  - apply (vi_tags _ _ _ V).
  - apply (vi_block _ _ _ V).
  - apply (vi_tag _ _ _ V).
  - exact Hl.
  - exact H0.
  - apply count_step with (lb := lbl s); [apply (vi_count _ _ _ V) | exact Hc].
Qed.

Lemma nview_empty P G l : is_nview P G l -> (forall e, In e G -> ~ P e) -> l = [].
Proof.
  intros [_ H] Hn. destruct l as [|x l]; [reflexivity|]. exfalso.
  destruct (proj1 (H x) (or_introl eq_refl)) as [e [He [_ Pe]]]. exact (Hn e He Pe).
Qed.

Lemma count_idx_partition i (f : elem -> bool) l :
  count_idx i l = count_idx i (filter f l) + count_idx i (filter (fun e => negb (f e)) l).
Proof.
  unfold count_idx. induction l as [|a l IH]; cbn [filter]; [reflexivity|].
  destruct (f a); cbn [negb filter]; destruct (idx_match i (e_kind a)); cbn [length]; rewrite ?Nat2Z.inj_succ; glia.
Qed.

Lemma dcount_kinds_move i l from to el :
  dcount i l (fst (kinds_delta_move from to el)) = (if (to =? l)%N then count_idx i el else 0)
  /\ dcount i l (snd (kinds_delta_move from to el)) = (if (from =? l)%N then count_idx i el else 0).
Proof. unfold kinds_delta_move. cbn [fst snd]. now rewrite !dcount_map. Qed.

(* ---------- merge ---------- *)
Lemma fold_dapp_kinds i l' (lb0 : amap N) target ms d : NoDup ms ->
  dcount i l' (fst (fold_left (fun d l => d_app d (kinds_delta_move l target (nget lb0 l))) ms d))
  = dcount i l' (fst d) + (if (target =? l')%N then count_idx i (flat_map (nget lb0) ms) else 0)
  /\ dcount i l' (snd (fold_left (fun d l => d_app d (kinds_delta_move l target (nget lb0 l))) ms d))
     = dcount i l' (snd d) + (if existsb (fun x => (x =? l')%N) ms then count_idx i (nget lb0 l') else 0).
Proof.
  revert d. induction ms as [|m ms IH]; intros d ND; cbn [fold_left flat_map existsb].
  - change (count_idx i []) with 0. destruct (target =? l')%N; cbv iota; lia.
  - apply NoDup_cons_iff in ND as [Hn ND]. destruct (IH (d_app d (kinds_delta_move m target (nget lb0 m))) ND) as [H1 H2].
    rewrite H1, H2. unfold d_app. cbn [fst snd]. rewrite !dcount_app.
    destruct (dcount_kinds_move i l' m target (nget lb0 m)) as [K1 K2]. rewrite K1, K2. rewrite count_idx_app.
    split.
    + destruct (target =? l')%N; lia.
    + destruct (m =? l')%N eqn:E; cbn [orb].
      * apply N.eqb_eq in E. subst m.
        assert (Hf : existsb (fun x => (x =? l')%N) ms = false).
        { apply not_true_is_false. intro Hx. apply (existsb_eqb_In N.eqb N_eqb_ok) in Hx. contradiction. }
        rewrite Hf. lia.
      * lia.
Qed.

Lemma flat_views_uniq (G : list elem) (bd : pos -> N) (lb : amap N) ls :
  NoDup ls -> (forall l, In l ls -> is_nview (fun e => bd (e_pos e) = l) G (nget lb l)) -> uniq (flat_map (nget lb) ls).
Proof.
  intros ND H. induction ls as [|l ls IH]; cbn [flat_map]; [constructor|].
  apply NoDup_cons_iff in ND as [Hn ND]. apply uniq_app.
  - apply (H l). now left.
  - apply IH; [exact ND|]. intros l' Hl'. apply H. now right.
  - intros p Hp Hq. destruct (nview_pos _ _ _ _ (H l (or_introl eq_refl)) Hp) as [e [He [Ep Hb]]].
    apply posl_in in Hq as [y [Hy Ey]]. apply in_flat_map in Hy as [l' [Hl' Hy]].
    assert (Hq' : In p (posl (nget lb l'))) by (rewrite <- Ey; now apply in_posl).
    destruct (nview_pos _ _ _ _ (H l' (or_intror Hl')) Hq') as [e' [He' [Ep' Hb']]].
    apply Hn. cbn beta in Hb, Hb'. assert (Ell : l = l') by congruence. rewrite Ell. exact Hl'.
Qed.

Theorem merge_views bs G s target merged :
  ViewsI bs G s -> guard bs G (body s) (LMerge target merged) ->
  exists s', step fixed bs (LMerge target merged) s = Ok s'
             /\ body s' = body_after bs (LMerge target merged) (body s) /\ ViewsI bs G s'.
Proof.
  intros V [Ht [ND [Htm H0m]]]. cbn [step with_labels]. eexists. split; [reflexivity|]. split; [reflexivity|].
  unfold merge_labels.
  assert (Hfold : forall ms tl lb d n, fold_left (fun (st : list elem * amap N * delta * nat) l =>
               let '(tl, lb, d, n) := st in
               match nget (lbl s) l with
               | [] => st
               | el => (tl ++ el, aput l [] lb, d_app d (kinds_delta_move l target el), (n + length el)%nat)
               end) ms (tl, lb, d, n)
     = (tl ++ flat_map (nget (lbl s)) ms,
        fold_left (fun lb l => if (fun l => match nget (lbl s) l with [] => false | _ => true end) l then aput l ((fun _ => []) l) lb else lb) ms lb,
        fold_left (fun d l => d_app d (kinds_delta_move l target (nget (lbl s) l))) ms d,
        (n + length (flat_map (nget (lbl s)) ms))%nat)).
  { induction ms as [|m ms IH]; intros tl lb d n; cbn [fold_left flat_map].
    - now rewrite app_nil_r, Nat.add_0_r.
    - destruct (nget (lbl s) m) as [|x xs] eqn:E.
      + rewrite IH. cbn [app]. f_equal. f_equal. f_equal.
        unfold d_app, kinds_delta_move. cbn. rewrite !app_nil_r. now destruct d.
      + rewrite IH. rewrite <- app_assoc, app_length. f_equal. lia. }
  rewrite (Hfold merged). clear Hfold.
  set (all := flat_map (nget (lbl s)) merged).
  set (lbm := fold_left _ merged (lbl s)).
  set (dm := fold_left _ merged d0).
  assert (Hlbm : forall l, nget lbm l = if existsb (fun k => (k =? l)%N) merged then [] else nget (lbl s) l).
  { intro l. unfold lbm, nget at 1. rewrite (fold_put_get_id N.eqb N_eqb_ok).
    destruct (existsb (fun k => (k =? l)%N) merged); cbn [andb]; [|reflexivity].
    fold (nget (lbl s) l). destruct (nget (lbl s) l); reflexivity. }
  assert (Hmview : forall l, In l merged -> is_nview (fun e => body s (e_pos e) = l) G (nget (lbl s) l)).
  { intros l Hl. apply (vi_label _ _ _ V). intro; subst; contradiction. }
  assert (Hget : forall l, nget (match (0 + length all)%nat with O => lbl s | S _ => aput target (nget (lbl s) target ++ all) lbm end) l
                           = if (target =? l)%N then nget (lbl s) target ++ all
                             else if existsb (fun k => (k =? l)%N) merged then [] else nget (lbl s) l).
  { intro l. destruct (0 + length all)%nat eqn:En.
    - assert (Hall : all = []) by (destruct all; [reflexivity | cbn in En; discriminate]).
      rewrite Hall, app_nil_r. destruct (target =? l)%N eqn:Et; [apply N.eqb_eq in Et; now subst|].
      destruct (existsb (fun k => (k =? l)%N) merged) eqn:Ee; [|reflexivity].
      apply (existsb_eqb_In N.eqb N_eqb_ok) in Ee.
      destruct (nget (lbl s) l) as [|x xs] eqn:El; [reflexivity|]. exfalso.
      assert (Hin : In x all) by (unfold all; apply in_flat_map; exists l; split; [exact Ee | rewrite El; now left]).
      now rewrite Hall in Hin.
    - rewrite nget_aput. destruct (target =? l)%N; [reflexivity | apply Hlbm]. }
  apply labels_step; auto.
  - (* label views *)
    intros l Hl. rewrite Hget. destruct (target =? l)%N eqn:Et.
    + apply N.eqb_eq in Et. subst l. destruct (vi_label _ _ _ V target Ht) as [Ut HtV]. split.
      * apply uniq_app; [exact Ut | apply (flat_views_uniq G (body s)); auto|].
        intros p Hp Hq. destruct (nview_pos _ _ _ _ (vi_label _ _ _ V target Ht) Hp) as [e [He [Ep Hb]]].
        apply posl_in in Hq as [y [Hy Ey]]. apply in_flat_map in Hy as [l' [Hl' Hy]].
        assert (Hq' : In p (posl (nget (lbl s) l'))) by (rewrite <- Ey; now apply in_posl).
        destruct (nview_pos _ _ _ _ (Hmview l' Hl') Hq') as [e' [He' [Ep' Hb']]].
        apply Htm. cbn beta in Hb, Hb'. assert (Ell : target = l') by congruence. rewrite Ell. exact Hl'.
      * intro x. rewrite in_app_iff, HtV. unfold all. rewrite in_flat_map. cbn [body_after]. split.
        -- intros [[e [He [-> Hb]]]|[l' [Hl' Hx]]].
           ++ exists e. split; [exact He|]. split; [reflexivity|]. rewrite Hb.
              assert (Hm : memN target merged = false) by now apply memN_nIn. now rewrite Hm.
           ++ apply (Hmview l' Hl') in Hx as [e [He [-> Hb]]]. exists e. split; [exact He|]. split; [reflexivity|].
              rewrite Hb. assert (Hm : memN l' merged = true) by now apply memN_In. now rewrite Hm.
        -- intros [e [He [-> Hb]]]. destruct (memN (body s (e_pos e)) merged) eqn:Em.
           ++ right. apply memN_In in Em. exists (body s (e_pos e)). split; [exact Em|]. apply (Hmview _ Em). eauto.
           ++ left. eauto.
    + apply N.eqb_neq in Et. destruct (existsb (fun k => (k =? l)%N) merged) eqn:Ee.
      * apply (existsb_eqb_In N.eqb N_eqb_ok) in Ee. split; [constructor|]. intro x. split; [intros []|].
        intros [e [He [_ Hb]]]. cbn [body_after] in Hb. destruct (memN (body s (e_pos e)) merged) eqn:Em; [congruence|].
        apply memN_nIn in Em. congruence.
      * assert (Hnl : ~ In l merged) by (intro Hi; apply (existsb_eqb_In N.eqb N_eqb_ok) in Hi; congruence).
        destruct (vi_label _ _ _ V l Hl) as [Ul HlV]. split; [exact Ul|]. intro x. rewrite HlV. cbn [body_after]. split.
        -- intros [e [He [-> Hb]]]. exists e. split; [exact He|]. split; [reflexivity|]. rewrite Hb.
           assert (Hm : memN l merged = false) by now apply memN_nIn. now rewrite Hm.
        -- intros [e [He [-> Hb]]]. exists e. split; [exact He|]. split; [reflexivity|].
           destruct (memN (body s (e_pos e)) merged) eqn:Em; [congruence | exact Hb].
  - (* label 0 *)
    rewrite Hget. destruct (target =? 0)%N eqn:Et; [apply N.eqb_eq in Et; congruence|].
    destruct (existsb (fun k => (k =? 0)%N) merged); [reflexivity | apply (vi_label0 _ _ _ V)].
  - (* counts *)
    intros i l Hl. cbn [fst snd]. rewrite Hget. unfold dm.
    destruct (fold_dapp_kinds i l (lbl s) target merged d0 ND) as [H1 H2]. rewrite H1, H2. clear H1 H2.
    unfold d0. cbn [fst snd]. rewrite !dcount_nil. fold all.
    destruct (target =? l)%N eqn:Et.
    + apply N.eqb_eq in Et. subst l.
      assert (Hf : existsb (fun x => (x =? target)%N) merged = false).
      { apply not_true_is_false. intro Hx. apply (existsb_eqb_In N.eqb N_eqb_ok) in Hx. contradiction. }
      rewrite Hf, count_idx_app. lia.
    + destruct (existsb (fun k => (k =? l)%N) merged); [unfold count_idx at 1; cbn|]; lia.
Qed.

(* ---------- cleave ---------- *)
Lemma cleave_get (s : state) target cleaved incl :
  target <> 0%N -> cleaved <> 0%N -> nget (lbl s) cleaved = [] ->
  (forall l, nget (fst (cleave_labels target cleaved incl s)) l
             = if (target =? l)%N then filter (fun e => negb (incl (e_pos e))) (nget (lbl s) target)
               else if (cleaved =? l)%N then filter (fun e => incl (e_pos e)) (nget (lbl s) target) else nget (lbl s) l)
  /\ snd (cleave_labels target cleaved incl s) = kinds_delta_move target cleaved (filter (fun e => incl (e_pos e)) (nget (lbl s) target)).
Proof.
  intros Ht Hc Hce. apply N.eqb_neq in Ht, Hc. unfold cleave_labels.
  destruct (nget (lbl s) target) as [|x xs] eqn:Etl.
  - split; [|reflexivity]. intro l. cbn [fst filter].
    destruct (target =? l)%N eqn:E1; [apply N.eqb_eq in E1; subst l; exact Etl|].
    destruct (cleaved =? l)%N eqn:E2; [apply N.eqb_eq in E2; subst l; exact Hce | reflexivity].
  - rewrite Ht, Hc. split; [|reflexivity]. intro l. cbn [fst]. rewrite nget_aput.
    destruct (target =? l)%N eqn:E1; [reflexivity|].
    destruct (filter (fun e => incl (e_pos e)) (x :: xs)) as [|c cs] eqn:Ef.
    + destruct (cleaved =? l)%N eqn:E2; [apply N.eqb_eq in E2; subst l; exact Hce | reflexivity].
    + rewrite nget_aput. destruct (cleaved =? l)%N; reflexivity.
Qed.

Theorem cleave_views bs G s target cleaved incl :
  ViewsI bs G s -> guard bs G (body s) (LCleave target cleaved incl) ->
  exists s', step fixed bs (LCleave target cleaved incl) s = Ok s'
             /\ body s' = body_after bs (LCleave target cleaved incl) (body s) /\ ViewsI bs G s'.
Proof.
  intros V [Ht [Hc [Hct Hfresh]]]. cbn [step with_labels]. eexists. split; [reflexivity|]. split; [reflexivity|].
  destruct (vi_label _ _ _ V target Ht) as [Ut HtV].
  assert (Hcl_empty : nget (lbl s) cleaved = []).
  { apply (nview_empty _ G _ (vi_label _ _ _ V cleaved Hc)). intros e _ Hb. exact (Hfresh _ Hb). }
  destruct (cleave_get s target cleaved incl Ht Hc Hcl_empty) as [Hget Hsnd].
  set (tl := nget (lbl s) target) in *.
  assert (Ec0 : (cleaved =? 0)%N = false) by now apply N.eqb_neq.
  assert (Et0 : (target =? 0)%N = false) by now apply N.eqb_neq.
  assert (Ect : (cleaved =? target)%N = false) by now apply N.eqb_neq.
  apply labels_step; auto.
  - intros l Hl. rewrite Hget. destruct (target =? l)%N eqn:E1.
    + apply N.eqb_eq in E1. subst l. split; [now apply uniq_filter|]. intro x.
      rewrite filter_In, negb_true_iff. rewrite HtV. cbn [body_after]. split.
      * intros [[e [He [-> Hb]]] Hi]. cbn in Hi. exists e. split; [exact He|]. split; [reflexivity|]. rewrite Hb, N.eqb_refl, Hi. reflexivity.
      * intros [e [He [-> Hb]]]. destruct ((body s (e_pos e) =? target)%N && incl (e_pos e)) eqn:Ec; [congruence|].
        split; [eauto|]. cbn. rewrite Hb, N.eqb_refl in Ec. exact Ec.
    + destruct (cleaved =? l)%N eqn:E2.
      * apply N.eqb_eq in E2. subst l. split; [now apply uniq_filter|]. intro x. rewrite filter_In. rewrite HtV.
        cbn [body_after]. split.
        -- intros [[e [He [-> Hb]]] Hi]. cbn in Hi. exists e. split; [exact He|]. split; [reflexivity|]. now rewrite Hb, N.eqb_refl, Hi.
        -- intros [e [He [-> Hb]]]. destruct ((body s (e_pos e) =? target)%N && incl (e_pos e)) eqn:Ec.
           ++ apply andb_true_iff in Ec as [Ec1 Ec2]. apply N.eqb_eq in Ec1. split; [eauto | exact Ec2].
           ++ exfalso. exact (Hfresh _ Hb).
      * apply N.eqb_neq in E1, E2. destruct (vi_label _ _ _ V l Hl) as [Ul HlV]. split; [exact Ul|]. intro x. rewrite HlV.
        cbn [body_after]. split.
        -- intros [e [He [-> Hb]]]. exists e. split; [exact He|]. split; [reflexivity|].
           destruct ((body s (e_pos e) =? target)%N && incl (e_pos e)) eqn:Ec; [|exact Hb].
           apply andb_true_iff in Ec as [Ec1 _]. apply N.eqb_eq in Ec1. congruence.
        -- intros [e [He [-> Hb]]]. exists e. split; [exact He|]. split; [reflexivity|].
           destruct ((body s (e_pos e) =? target)%N && incl (e_pos e)) eqn:Ec; [congruence | exact Hb].
  - rewrite Hget, Et0, Ec0. apply (vi_label0 _ _ _ V).
  - intros i l Hl. rewrite Hget, Hsnd.
    destruct (dcount_kinds_move i l target cleaved (filter (fun e => incl (e_pos e)) tl)) as [K1 K2]. rewrite K1, K2.
    destruct (target =? l)%N eqn:E1.
    + apply N.eqb_eq in E1. subst l. rewrite Ect. fold tl.
      rewrite (count_idx_partition i (fun e => incl (e_pos e)) tl). lia.
    + destruct (cleaved =? l)%N eqn:E2.
      * apply N.eqb_eq in E2. subst l. rewrite Hcl_empty. unfold count_idx at 2. cbn. lia.
      * lia.
Qed.
