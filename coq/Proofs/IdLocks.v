(* Proofs.IdLocks: the generated lock table of the id-allocation sites satisfies the atomicity obligation. *)
From Coq Require Import String List Bool.
Import ListNotations.
From DV Require Import Gen.IdLocks Model.IdLocks.
Local Open Scope string_scope.

Lemma id_paths_ok : forallb path_ok id_site_paths = true.
Proof. vm_compute. reflexivity. Qed.

Lemma id_sites_present : sites_present id_site_paths = true.
Proof. vm_compute. reflexivity. Qed.

Lemma id_persist_guarded : persist_guarded id_site_paths = expected_persist_guarded.
Proof. vm_compute. reflexivity. Qed.

(* what [under_mutex] buys, for every table: a write of a guarded location is preceded on its path by a
   Lock of the mutex that no Unlock has released *)
Lemma under_mutex_write_held mu locs strict : forall evs ex sh k l,
  under_mutex mu locs strict evs ex sh = true -> nth_error evs k = Some (IWrite l) -> smem l locs = true ->
  held_at mu evs k ex = true.
Proof.
  induction evs as [|e evs IH]; intros ex sh k l H Hn Hl; [destruct k; discriminate|].
  destruct k as [|k].
  - cbn in Hn. inversion Hn; subst. cbn in H. rewrite Hl in H. apply andb_true_iff in H as [H _]. exact H.
  - cbn [nth_error] in Hn. destruct e; cbn [under_mutex held_at] in *.
    + destruct (String.eqb m mu).
      * apply andb_true_iff in H as [_ H]. eapply IH; eauto.
      * eapply IH; eauto.
    + destruct (String.eqb m mu).
      * apply andb_true_iff in H as [_ H]. eapply IH; eauto.
      * eapply IH; eauto.
    + destruct (String.eqb m mu).
      * apply andb_true_iff in H as [_ H]. eapply IH; eauto.
      * eapply IH; eauto.
    + destruct (String.eqb m mu).
      * apply andb_true_iff in H as [_ H]. eapply IH; eauto.
      * eapply IH; eauto.
    + apply andb_true_iff in H as [_ H]. eapply IH; eauto.
    + apply andb_true_iff in H as [_ H]. eapply IH; eauto.
Qed.

(* the obligation is not vacuous: a narrowed or removed lock fails it *)
Lemma narrowed_lock_fails : narrowed_paths_fail.
Proof. vm_compute. repeat split. Qed.

(* every counter write is decided from a value of that counter read in the same exclusive section *)
Lemma id_paths_rechecked : forallb path_rechecked id_site_paths = true.
Proof. vm_compute. reflexivity. Qed.

Lemma stale_snapshot_fails : path_ok stale_snapshot_path = true /\ path_rechecked stale_snapshot_path = false.
Proof. vm_compute. split; reflexivity. Qed.
