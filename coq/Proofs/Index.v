(* Proofs.Index: the index functions of Model.Index are the expected multiset operations. *)
From DV Require Import Base.Prelude Model.Index.
From Coq Require Import ZifyN ZifyNat ZifyBool.
Ltac Zify.zify_post_hook ::= Z.div_mod_to_equations.
Local Open Scope N_scope.

Lemma NoDup_app_intro {A} (l1 l2 : list A) :
  NoDup l1 -> NoDup l2 -> (forall x, In x l1 -> In x l2 -> False) -> NoDup (l1 ++ l2).
Proof.
  induction l1 as [|a r IH]; simpl; intros N1 N2 D; [exact N2|].
  inversion N1; subst. constructor.
  - rewrite in_app_iff. intros [H|H]; [contradiction | eapply D; [left; reflexivity | exact H]].
  - apply IH; auto. intros x Hx Hy. eapply D; [right; exact Hx | exact Hy].
Qed.

(* ---------- association lists ---------- *)
Section AssocFacts.
  Context {K V : Type} (eqb : K -> K -> bool).
  Hypothesis eqb_eq : forall a b, eqb a b = true <-> a = b.

  Lemma eqb_refl a : eqb a a = true.
  Proof. now apply eqb_eq. Qed.
  Lemma eqb_neq a b : a <> b -> eqb a b = false.
  Proof. intro H. destruct (eqb a b) eqn:E; [apply eqb_eq in E; contradiction | reflexivity]. Qed.
  Lemma eqb_sym a b : eqb a b = eqb b a.
  Proof.
    destruct (eqb a b) eqn:E.
    - apply eqb_eq in E; subst. symmetry. apply eqb_refl.
    - destruct (eqb b a) eqn:E2; [|reflexivity]. apply eqb_eq in E2; subst.
      rewrite eqb_refl in E. discriminate.
  Qed.

  Lemma aget_aset_eq k v (l : list (K * V)) : aget eqb k (aset eqb k v l) = Some v.
  Proof.
    induction l as [|[k' v'] r IH]; simpl.
    - now rewrite eqb_refl.
    - destruct (eqb k k') eqn:E; simpl; rewrite E; [reflexivity | exact IH].
  Qed.

  Lemma aget_aset_ne k k' v (l : list (K * V)) : k <> k' -> aget eqb k' (aset eqb k v l) = aget eqb k' l.
  Proof.
    intro H. induction l as [|[k2 v2] r IH]; simpl.
    - rewrite eqb_neq; [reflexivity | congruence].
    - destruct (eqb k k2) eqn:E; simpl.
      + apply eqb_eq in E; subst k2. rewrite (eqb_neq k' k); [reflexivity | congruence].
      + destruct (eqb k' k2); [reflexivity | exact IH].
  Qed.

  Lemma aget_adel_eq k (l : list (K * V)) : aget eqb k (adel eqb k l) = None.
  Proof.
    induction l as [|[k' v'] r IH]; simpl; [reflexivity|].
    destruct (eqb k k') eqn:E; [exact IH | simpl; rewrite E; exact IH].
  Qed.

  Lemma aget_adel_ne k k' (l : list (K * V)) : k <> k' -> aget eqb k' (adel eqb k l) = aget eqb k' l.
  Proof.
    intro H. induction l as [|[k2 v2] r IH]; simpl; [reflexivity|].
    destruct (eqb k k2) eqn:E.
    - apply eqb_eq in E; subst k2. rewrite (eqb_neq k' k); [exact IH | congruence].
    - simpl. destruct (eqb k' k2); [reflexivity | exact IH].
  Qed.

  Lemma aget_app k (l1 l2 : list (K * V)) :
    aget eqb k (l1 ++ l2) = match aget eqb k l1 with Some v => Some v | None => aget eqb k l2 end.
  Proof.
    induction l1 as [|[k' v'] r IH]; simpl; [reflexivity|].
    destruct (eqb k k'); [reflexivity | exact IH].
  Qed.

  Lemma aget_filter_key (p : K -> bool) k (l : list (K * V)) :
    aget eqb k (filter (fun e => p (fst e)) l) = if p k then aget eqb k l else None.
  Proof.
    induction l as [|[k' v'] r IH]; simpl; [now destruct (p k)|].
    destruct (p k') eqn:Pk'; simpl.
    - destruct (eqb k k') eqn:E.
      + apply eqb_eq in E; subst. now rewrite Pk'.
      + exact IH.
    - destruct (eqb k k') eqn:E.
      + apply eqb_eq in E; subst. rewrite Pk' in *. exact IH.
      + exact IH.
  Qed.

  Lemma aget_None_notin k (l : list (K * V)) : aget eqb k l = None <-> ~ In k (map fst l).
  Proof.
    induction l as [|[k' v'] r IH]; simpl; [tauto|].
    destruct (eqb k k') eqn:E.
    - apply eqb_eq in E; subst. split; [discriminate | intro H; exfalso; apply H; now left].
    - rewrite IH. split; [intros H [H1|H1]; [subst; rewrite eqb_refl in E; discriminate | tauto] | tauto].
  Qed.

  Lemma aget_Some_in k v (l : list (K * V)) : aget eqb k l = Some v -> In (k, v) l.
  Proof.
    induction l as [|[k' v'] r IH]; simpl; [discriminate|].
    destruct (eqb k k') eqn:E.
    - apply eqb_eq in E; subst. intro H; inversion H; now left.
    - intro H; right; now apply IH.
  Qed.

  Lemma in_aget_nodup k v (l : list (K * V)) : NoDup (map fst l) -> In (k, v) l -> aget eqb k l = Some v.
  Proof.
    induction l as [|[k' v'] r IH]; simpl; [tauto|].
    intros ND [H|H]; inversion ND as [|? ? Hn ND']; subst.
    - inversion H; subst. now rewrite eqb_refl.
    - destruct (eqb k k') eqn:E.
      + apply eqb_eq in E; subst. exfalso. apply Hn. apply in_map_iff. now exists (k', v).
      + now apply IH.
  Qed.

  Lemma keys_aset k v (l : list (K * V)) :
    map fst (aset eqb k v l) = if ahas eqb k l then map fst l else map fst l ++ [k].
  Proof.
    unfold ahas. induction l as [|[k' v'] r IH]; simpl; [reflexivity|].
    destruct (eqb k k') eqn:E; simpl; [reflexivity|].
    rewrite IH. now destruct (aget eqb k r).
  Qed.

  Lemma nodup_aset k v (l : list (K * V)) : NoDup (map fst l) -> NoDup (map fst (aset eqb k v l)).
  Proof.
    intro ND. rewrite keys_aset. unfold ahas. destruct (aget eqb k l) eqn:E; [exact ND|].
    apply aget_None_notin in E. apply NoDup_app_intro; [exact ND | repeat constructor; simpl; tauto|].
    intros x Hx [Hy|[]]; subst; contradiction.
  Qed.

  Lemma in_adel x k (l : list (K * V)) : In x (adel eqb k l) -> In x l.
  Proof.
    induction l as [|[k' v'] r IH]; simpl; [tauto|].
    destruct (eqb k k'); simpl; intuition.
  Qed.

  Lemma in_keys_adel x k (l : list (K * V)) : In x (map fst (adel eqb k l)) -> In x (map fst l).
  Proof.
    induction l as [|[k' v'] r IH]; simpl; [tauto|].
    destruct (eqb k k'); simpl; intuition.
  Qed.

  Lemma nodup_adel k (l : list (K * V)) : NoDup (map fst l) -> NoDup (map fst (adel eqb k l)).
  Proof.
    induction l as [|[k' v'] r IH]; simpl; intro ND; [constructor|].
    inversion ND as [|? ? Hn ND']; subst.
    destruct (eqb k k'); simpl; [now apply IH|].
    constructor; [intro H; apply Hn; eapply in_keys_adel; exact H | now apply IH].
  Qed.

  Lemma in_aset x k v (l : list (K * V)) : In x (aset eqb k v l) -> In x l \/ x = (k, v) \/ exists k', k' = k /\ x = (k', v).
  Proof.
    induction l as [|[k' v'] r IH]; simpl.
    - intros [H|[]]; subst; auto.
    - destruct (eqb k k') eqn:E; simpl.
      + apply eqb_eq in E; subst. intros [H|H]; [right; left; now symmetry | auto].
      + intros [H|H]; [auto | destruct (IH H) as [H1|H1]; auto].
  Qed.
End AssocFacts.

(* ---------- keys, membership ---------- *)
Lemma key_eqb_eq a b : key_eqb a b = true <-> a = b.
Proof.
  destruct a as [a1 a2], b as [b1 b2]; unfold key_eqb; simpl.
  rewrite andb_true_iff, !N.eqb_eq. split; [intros [? ?]; congruence | intro H; inversion H; auto].
Qed.

Lemma memN_In x l : memN x l = true <-> In x l.
Proof.
  unfold memN. rewrite existsb_exists. split.
  - intros [y [Hy E]]. apply N.eqb_eq in E. now subst.
  - intro H. exists x. split; [exact H | apply N.eqb_refl].
Qed.

Lemma nodupN_In x l : In x (nodupN l) <-> In x l.
Proof.
  induction l as [|a r IH]; simpl; [tauto|].
  destruct (memN a r) eqn:E.
  - rewrite IH. apply memN_In in E. split; [auto | intros [H|H]; subst; auto].
  - simpl. rewrite IH. tauto.
Qed.

Lemma nodupN_NoDup l : NoDup (nodupN l).
Proof.
  induction l as [|a r IH]; simpl; [constructor|].
  destruct (memN a r) eqn:E; [exact IH|].
  constructor; [|exact IH]. rewrite nodupN_In. intro H. apply memN_In in H. congruence.
Qed.

(* ---------- cnt under set / delete ---------- *)
Lemma cnt_aset idx b s c b' s' :
  cnt (aset key_eqb (b, s) c idx) b' s' = if key_eqb (b', s') (b, s) then c else cnt idx b' s'.
Proof.
  unfold cnt. destruct (key_eqb (b', s') (b, s)) eqn:E.
  - apply key_eqb_eq in E. inversion E; subst. now rewrite (aget_aset_eq key_eqb key_eqb_eq).
  - rewrite (aget_aset_ne key_eqb key_eqb_eq); [reflexivity|].
    intro H. rewrite <- H in E. rewrite (eqb_refl key_eqb key_eqb_eq) in E. discriminate.
Qed.

Lemma cnt_adel idx b s b' s' :
  cnt (adel key_eqb (b, s) idx) b' s' = if key_eqb (b', s') (b, s) then 0 else cnt idx b' s'.
Proof.
  unfold cnt. destruct (key_eqb (b', s') (b, s)) eqn:E.
  - apply key_eqb_eq in E. inversion E; subst. now rewrite (aget_adel_eq key_eqb).
  - rewrite (aget_adel_ne key_eqb key_eqb_eq); [reflexivity|].
    intro H. rewrite <- H in E. rewrite (eqb_refl key_eqb key_eqb_eq) in E. discriminate.
Qed.

Lemma block_in_false_cnt idx b s : block_in idx b = false -> cnt idx b s = 0.
Proof.
  unfold block_in, cnt. induction idx as [|[[b' s'] c] r IH]; simpl; [reflexivity|].
  unfold kblock; simpl. intro H. apply orb_false_iff in H as [H1 H2].
  unfold key_eqb at 1; simpl. rewrite N.eqb_sym, H1. simpl. now apply IH.
Qed.

Lemma num_voxels_app a b : num_voxels (a ++ b) = num_voxels a + num_voxels b.
Proof. unfold num_voxels. induction a as [|e r IH]; simpl; [reflexivity | rewrite IH; lia]. Qed.

(* ---------- well-formed stored indices ---------- *)
Definition Wf (idx : index) : Prop := NoDup (keys_of idx) /\ Forall (fun e => 0 < snd e) idx.

Lemma nodup_keys_iff l : nodup_keys l = true <-> NoDup l.
Proof.
  induction l as [|k r IH]; simpl; [split; [constructor | reflexivity]|].
  rewrite andb_true_iff, negb_true_iff, IH. split.
  - intros [H1 H2]. constructor; [|exact H2]. intro Hin.
    assert (existsb (key_eqb k) r = true) as E; [|congruence].
    apply existsb_exists. exists k. split; [exact Hin | now apply key_eqb_eq].
  - intro H. inversion H; subst. split; [|assumption].
    destruct (existsb (key_eqb k) r) eqn:E; [|reflexivity].
    apply existsb_exists in E as [y [Hy Ey]]. apply key_eqb_eq in Ey. subst. contradiction.
Qed.

Lemma idx_wf_iff idx : idx_wf idx = true <-> Wf idx.
Proof.
  unfold idx_wf, Wf. rewrite andb_true_iff, nodup_keys_iff, forallb_forall, Forall_forall.
  split; intros [H1 H2]; (split; [exact H1|]); intros e He; specialize (H2 e He); lia.
Qed.

(* ---------- Index.Add is the pointwise sum ---------- *)
Lemma idx_add_cnt i1 i2 i :
  idx_add i1 i2 = Ok i -> forall b s, cnt i b s = cnt i1 b s + cnt i2 b s.
Proof.
  unfold idx_add. destruct (existsb _ i2) eqn:E; [discriminate|].
  intros H b s. apply Ok_inj in H; subst i. unfold cnt. rewrite aget_app.
  destruct (aget key_eqb (b, s) i1) eqn:E1; [|lia].
  destruct (aget key_eqb (b, s) i2) eqn:E2; [|lia].
  exfalso. apply (aget_Some_in key_eqb key_eqb_eq) in E2.
  assert (existsb (fun e => ahas key_eqb (fst e) i1) i2 = true) as C; [|congruence].
  apply existsb_exists. exists ((b, s), n0). split; [exact E2|]. unfold ahas; simpl. now rewrite E1.
Qed.

Lemma idx_add_num i1 i2 i : idx_add i1 i2 = Ok i -> num_voxels i = num_voxels i1 + num_voxels i2.
Proof.
  unfold idx_add. destruct (existsb _ i2); [discriminate|]. intro H. apply Ok_inj in H; subst.
  apply num_voxels_app.
Qed.

Lemma idx_add_wf i1 i2 i : idx_add i1 i2 = Ok i -> Wf i1 -> Wf i2 -> Wf i.
Proof.
  unfold idx_add. destruct (existsb _ i2) eqn:E; [discriminate|].
  intros H [N1 P1] [N2 P2]. apply Ok_inj in H; subst i. split.
  - unfold keys_of. rewrite map_app. apply NoDup_app_intro; [exact N1 | exact N2|].
    intros k H1 H2. apply in_map_iff in H2 as [[k' c] [Hk Hin]]. simpl in Hk; subst k'.
    assert (existsb (fun e => ahas key_eqb (fst e) i1) i2 = true) as C; [|congruence].
    apply existsb_exists. exists (k, c). split; [exact Hin|]. unfold ahas; simpl.
    destruct (aget key_eqb k i1) eqn:G; [reflexivity|].
    apply (aget_None_notin key_eqb key_eqb_eq) in G. contradiction.
  - apply Forall_app; split; assumption.
Qed.

(* an Add that is refused leaves a supervoxel in both indices *)
Lemma idx_add_err i1 i2 : idx_add i1 i2 = Err -> exists b s, ahas key_eqb (b, s) i1 = true /\ In (b, s) (keys_of i2).
Proof.
  unfold idx_add. destruct (existsb _ i2) eqn:E; [|discriminate]. intros _.
  apply existsb_exists in E as [[[b s] c] [Hin Hh]]. exists b, s. split; [exact Hh|].
  unfold keys_of. apply in_map_iff. now exists ((b, s), c).
Qed.

(* ---------- Index.Cleave partitions the supervoxel set and conserves the counts ---------- *)
Lemma cnt_filter_sv (p : N -> bool) idx b s :
  cnt (filter (fun e => p (ksv e)) idx) b s = if p s then cnt idx b s else 0.
Proof.
  unfold cnt, ksv.
  rewrite (aget_filter_key key_eqb key_eqb_eq (fun k => p (snd k)) (b, s) idx). simpl.
  now destruct (p s).
Qed.

Lemma num_voxels_partition (p : key * N -> bool) idx :
  num_voxels (filter p idx) + num_voxels (filter (fun e => negb (p e)) idx) = num_voxels idx.
Proof.
  unfold num_voxels. induction idx as [|e r IH]; simpl; [reflexivity|].
  destruct (p e); simpl; lia.
Qed.

Lemma sv_in_filter (p : N -> bool) idx s :
  sv_in (filter (fun e => p (ksv e)) idx) s = sv_in idx s && p s.
Proof.
  unfold sv_in. induction idx as [|e r IH]; simpl; [reflexivity|].
  destruct (p (ksv e)) eqn:P; simpl; rewrite IH.
  - destruct (ksv e =? s) eqn:E; simpl; [apply N.eqb_eq in E; subst; now rewrite P | reflexivity].
  - destruct (ksv e =? s) eqn:E; simpl; [apply N.eqb_eq in E; subst; rewrite P; now rewrite andb_false_r | reflexivity].
Qed.

Lemma filter_wf (p : key * N -> bool) idx : Wf idx -> Wf (filter p idx).
Proof.
  intros [ND P]. split.
  - unfold keys_of in *. induction idx as [|e r IH]; simpl; [constructor|].
    inversion ND as [|? ? Hn ND']; inversion P; subst.
    destruct (p e); simpl; [constructor; [|now apply IH] | now apply IH].
    intro H. apply Hn. apply in_map_iff in H as [x [Hx Hin]]. apply filter_In in Hin as [Hin _].
    apply in_map_iff. now exists x.
  - apply Forall_forall. intros e He. apply filter_In in He as [He _].
    rewrite Forall_forall in P. now apply P.
Qed.

Theorem idx_cleave_spec idx svs :
  let '(csize, rsize, cidx, ridx) := idx_cleave idx svs in
  (forall b s, cnt cidx b s = if memN s svs then cnt idx b s else 0) /\
  (forall b s, cnt ridx b s = if memN s svs then 0 else cnt idx b s) /\
  (forall s, sv_in cidx s = sv_in idx s && memN s svs) /\
  (forall s, sv_in ridx s = sv_in idx s && negb (memN s svs)) /\
  csize = num_voxels cidx /\ rsize = num_voxels ridx /\ csize + rsize = num_voxels idx /\
  (Wf idx -> Wf cidx /\ Wf ridx).
Proof.
  unfold idx_cleave. split; [|split; [|split; [|split; [|split; [|split; [|split]]]]]].
  - intros b s. apply (cnt_filter_sv (fun x => memN x svs)).
  - intros b s. rewrite (cnt_filter_sv (fun x => negb (memN x svs))). now destruct (memN s svs).
  - intro s. apply (sv_in_filter (fun x => memN x svs)).
  - intro s. apply (sv_in_filter (fun x => negb (memN x svs))).
  - reflexivity.
  - reflexivity.
  - apply (num_voxels_partition (fun e => memN (ksv e) svs)).
  - intro W. split; now apply filter_wf.
Qed.

(* ---------- Index.ModifyBlocks applies signed deltas; no count goes negative or wraps under
   the precondition that every resulting count fits in uint32 ---------- *)
Lemma two32 : (2 ^ 32 = 4294967296)%Z. Proof. reflexivity. Qed.
Lemma two31 : (2 ^ 31 = 2147483648)%Z. Proof. reflexivity. Qed.

Lemma wrap32_small z : (0 <= z < 2 ^ 32)%Z -> Z.of_N (wrap32 z) = z.
Proof. unfold wrap32. rewrite two32. intro H. rewrite Z2N.id; [|apply Z.mod_pos_bound; lia]. apply Z.mod_small. lia. Qed.

Lemma mod_one_spec idx s b d :
  (- 2 ^ 31 <= d < 2 ^ 31)%Z -> (0 <= Z.of_N (cnt idx b s) + d < 2 ^ 32)%Z ->
  exists idx', mod_one idx s b d = Ok idx' /\
    forall b' s', Z.of_N (cnt idx' b' s') =
                  if key_eqb (b', s') (b, s) then (Z.of_N (cnt idx b s) + d)%Z else Z.of_N (cnt idx b' s').
Proof.
  intros Hd Hr. unfold mod_one. destruct (block_in idx b) eqn:Bi.
  - assert ((d <? 0)%Z && (cnt idx b s <? wrap32 (- d)) = false) as E.
    { destruct (d <? 0)%Z eqn:Dn; [|reflexivity]. simpl. apply N.ltb_ge.
      apply Z.ltb_lt in Dn. rewrite two31 in Hd. rewrite two32 in Hr.
      assert (Z.of_N (wrap32 (- d)) = (- d)%Z) by (apply wrap32_small; rewrite two32; lia). lia. }
    rewrite E. pose proof (wrap32_small _ Hr) as W.
    destruct (wrap32 (Z.of_N (cnt idx b s) + d) =? 0) eqn:Z0.
    + eexists; split; [reflexivity|]. intros b' s'. rewrite cnt_adel.
      apply N.eqb_eq in Z0. rewrite Z0 in W. destruct (key_eqb (b', s') (b, s)); [simpl in W; lia | reflexivity].
    + eexists; split; [reflexivity|]. intros b' s'. rewrite cnt_aset.
      destruct (key_eqb (b', s') (b, s)); [exact W | reflexivity].
  - pose proof (block_in_false_cnt idx b s Bi) as C0. rewrite C0 in *. simpl in Hr.
    destruct (d <? 0)%Z eqn:Dn; [apply Z.ltb_lt in Dn; lia|].
    eexists; split; [reflexivity|]. intros b' s'. rewrite cnt_aset.
    destruct (key_eqb (b', s') (b, s)); [|reflexivity]. simpl. apply wrap32_small. lia.
Qed.

(* the nested loops of ModifyBlocks as one list of (supervoxel, block, delta) *)
Definition flat_changes (accept : N -> bool) (sc : changes) : list (N * N * Z) :=
  flat_map (fun sb => if accept (fst sb) then map (fun bd => (fst sb, fst bd, snd bd)) (snd sb) else []) sc.

Definition apply_flat (l : list (N * N * Z)) (a : res index) : res index :=
  fold_left (fun a t => res_bind a (fun i => mod_one i (fst (fst t)) (snd (fst t)) (snd t))) l a.

Lemma mod_blocks_of_flat s bcs a :
  mod_blocks_of s bcs a = apply_flat (map (fun bd => (s, fst bd, snd bd)) bcs) a.
Proof.
  unfold mod_blocks_of, apply_flat. revert a. induction bcs as [|bd r IH]; intro a; simpl; [reflexivity|].
  apply IH.
Qed.

Lemma apply_flat_app l1 l2 a : apply_flat (l1 ++ l2) a = apply_flat l2 (apply_flat l1 a).
Proof. unfold apply_flat. apply fold_left_app. Qed.

Lemma modify_blocks_flat label idx sc members :
  modify_blocks label idx sc members = apply_flat (flat_changes (accepts label idx members) sc) (Ok idx).
Proof.
  unfold modify_blocks.
  generalize (Ok idx) as a. induction sc as [|sb r IH]; intro a; simpl; [reflexivity|].
  rewrite apply_flat_app. rewrite IH. f_equal.
  destruct (accepts label idx members (fst sb)); [apply mod_blocks_of_flat | reflexivity].
Qed.

(* total delta of a change list for one (supervoxel, block) *)
Definition dsum (l : list (N * N * Z)) (s b : N) : Z :=
  fold_right (fun t acc => if (fst (fst t) =? s) && (snd (fst t) =? b) then (snd t + acc)%Z else acc) 0%Z l.

Lemma dsum_notin l s b : ~ In (s, b) (map fst l) -> dsum l s b = 0%Z.
Proof.
  induction l as [|[[s' b'] d] r IH]; simpl; [reflexivity|]. intro H.
  destruct ((s' =? s) && (b' =? b)) eqn:E.
  - apply andb_true_iff in E as [E1 E2]. apply N.eqb_eq in E1, E2. subst. exfalso. apply H. now left.
  - apply IH. tauto.
Qed.

Lemma apply_flat_spec l : forall idx,
  NoDup (map fst l) ->
  (forall s b d, In (s, b, d) l -> (- 2 ^ 31 <= d < 2 ^ 31)%Z /\ (0 <= Z.of_N (cnt idx b s) + d < 2 ^ 32)%Z) ->
  exists idx', apply_flat l (Ok idx) = Ok idx' /\
    forall b s, Z.of_N (cnt idx' b s) = (Z.of_N (cnt idx b s) + dsum l s b)%Z.
Proof.
  induction l as [|[[s0 b0] d0] r IH]; intros idx ND Pre.
  - exists idx. split; [reflexivity|]. intros; simpl; lia.
  - inversion ND as [|? ? Hn ND']; subst.
    destruct (Pre s0 b0 d0 (or_introl eq_refl)) as [Hd Hr].
    destruct (mod_one_spec idx s0 b0 d0 Hd Hr) as [idx1 [E1 C1]].
    destruct (IH idx1 ND') as [idx' [E' C']].
    { intros s b d Hin. destruct (Pre s b d (or_intror Hin)) as [Hd' Hr']. split; [exact Hd'|].
      rewrite C1. destruct (key_eqb (b, s) (b0, s0)) eqn:K; [|exact Hr'].
      apply key_eqb_eq in K. inversion K; subst. exfalso. apply Hn.
      apply in_map_iff. exists (s0, b0, d). split; [reflexivity | exact Hin]. }
    exists idx'. split.
    + unfold apply_flat in *. simpl. rewrite E1. exact E'.
    + intros b s. rewrite C', C1. simpl.
      destruct (key_eqb (b, s) (b0, s0)) eqn:K.
      * apply key_eqb_eq in K. inversion K; subst. rewrite !N.eqb_refl. simpl. lia.
      * assert ((s0 =? s) && (b0 =? b) = false) as F.
        { apply andb_false_iff. unfold key_eqb in K; simpl in K. apply andb_false_iff in K as [K|K]; [right|left];
            rewrite N.eqb_sym; exact K. }
        rewrite F. reflexivity.
Qed.

Theorem modify_blocks_spec label idx sc members :
  let l := flat_changes (accepts label idx members) sc in
  NoDup (map fst l) ->
  (forall s b d, In (s, b, d) l -> (- 2 ^ 31 <= d < 2 ^ 31)%Z /\ (0 <= Z.of_N (cnt idx b s) + d < 2 ^ 32)%Z) ->
  exists idx', modify_blocks label idx sc members = Ok idx' /\
    forall b s, Z.of_N (cnt idx' b s) = (Z.of_N (cnt idx b s) + dsum l s b)%Z.
Proof. intros l ND Pre. rewrite modify_blocks_flat. now apply apply_flat_spec. Qed.

(* changes of supervoxels that are neither in the index nor named as members are dropped *)
Lemma dsum_flat_rejected accept sc s b : accept s = false -> dsum (flat_changes accept sc) s b = 0%Z.
Proof.
  intro A. apply dsum_notin. intro H. apply in_map_iff in H as [[[s' b'] d] [E Hin]]. simpl in E.
  inversion E; subst. unfold flat_changes in Hin. apply in_flat_map in Hin as [sb [_ Hin]].
  destruct (accept (fst sb)) eqn:A2; [|destruct Hin].
  apply in_map_iff in Hin as [bd [E2 _]]. inversion E2; subst. congruence.
Qed.

(* ---------- Block.CalcNumLabels: per-label voxel count differences ---------- *)
Definition occ (arr : list N) (s : N) : N := fold_right (fun l acc => if l =? s then 1 + acc else acc) 0 arr.
Definition occo (prev : option (list N)) (s : N) : N := match prev with Some p => occ p s | None => 0 end.

Lemma occ_cons l r s : occ (l :: r) s = if l =? s then 1 + occ r s else occ r s.
Proof. reflexivity. Qed.
Lemma occ_nil s : occ [] s = 0.
Proof. reflexivity. Qed.

Lemma zget_aset l v acc s : zget s (aset N.eqb l v acc) = if s =? l then v else zget s acc.
Proof.
  unfold zget. destruct (s =? l) eqn:E.
  - apply N.eqb_eq in E; subst. now rewrite (aget_aset_eq N.eqb N.eqb_eq).
  - rewrite (aget_aset_ne N.eqb N.eqb_eq); [reflexivity|]. intro H; subst. now rewrite N.eqb_refl in E.
Qed.

Lemma ahas_aset {V} l (v : V) acc s : ahas N.eqb s (aset N.eqb l v acc) = ahas N.eqb s acc || (s =? l).
Proof.
  unfold ahas. destruct (s =? l) eqn:E.
  - apply N.eqb_eq in E; subst. rewrite (aget_aset_eq N.eqb N.eqb_eq). now rewrite orb_true_r.
  - rewrite (aget_aset_ne N.eqb N.eqb_eq); [now rewrite orb_false_r|]. intro H; subst. now rewrite N.eqb_refl in E.
Qed.

Lemma hist_zget arr sign : forall acc s,
  zget s (hist arr sign acc) = (zget s acc + (if (s =? 0)%N then 0 else sign * Z.of_N (occ arr s)))%Z.
Proof.
  induction arr as [|l r IH]; intros acc s; cbn [hist].
  - rewrite occ_nil. destruct (s =? 0); lia.
  - rewrite IH, occ_cons. destruct (l =? 0) eqn:L0.
    + apply N.eqb_eq in L0; subst l. destruct (s =? 0) eqn:S0; [lia|].
      rewrite (N.eqb_sym 0 s), S0. lia.
    + rewrite zget_aset. destruct (s =? l) eqn:E.
      * apply N.eqb_eq in E; subst s. rewrite L0, N.eqb_refl. lia.
      * rewrite (N.eqb_sym l s), E. destruct (s =? 0); lia.
Qed.

Lemma hist_has arr sign : forall acc s,
  ahas N.eqb s (hist arr sign acc) = ahas N.eqb s acc || (negb (s =? 0) && (0 <? occ arr s)).
Proof.
  induction arr as [|l r IH]; intros acc s; cbn [hist].
  - rewrite occ_nil. now rewrite andb_false_r, orb_false_r.
  - rewrite IH, occ_cons. destruct (l =? 0) eqn:L0.
    + apply N.eqb_eq in L0; subst l. destruct (s =? 0) eqn:S0; cbn [negb andb]; [reflexivity|].
      now rewrite (N.eqb_sym 0 s), S0.
    + rewrite ahas_aset. destruct (s =? l) eqn:E.
      * apply N.eqb_eq in E; subst s. rewrite L0, N.eqb_refl. cbn [negb andb].
        rewrite orb_true_r. cbn [orb]. destruct (0 <? 1 + occ r l) eqn:P; [now rewrite !orb_true_r | apply N.ltb_ge in P; lia].
      * rewrite (N.eqb_sym l s), E. now rewrite orb_false_r.
Qed.

Lemma hist_nodup arr sign : forall acc, NoDup (map fst acc) -> NoDup (map fst (hist arr sign acc)).
Proof.
  induction arr as [|l r IH]; intros acc H; simpl; [exact H|].
  apply IH. destruct (l =? 0); [exact H | now apply (nodup_aset N.eqb N.eqb_eq)].
Qed.

Theorem calc_num_labels_spec cur prev s :
  zget s (calc_num_labels cur prev) =
  if s =? 0 then 0%Z else (Z.of_N (occ cur s) - Z.of_N (occo prev s))%Z.
Proof.
  unfold calc_num_labels. rewrite hist_zget. destruct prev as [p|]; cbn [occo].
  - rewrite hist_zget. change (zget s []) with 0%Z. destruct (s =? 0); lia.
  - change (zget s []) with 0%Z. destruct (s =? 0); lia.
Qed.

Lemma calc_num_labels_has cur prev s :
  ahas N.eqb s (calc_num_labels cur prev) = negb (s =? 0) && ((0 <? occ cur s) || (0 <? occo prev s)).
Proof.
  unfold calc_num_labels. rewrite hist_has. destruct prev as [p|]; cbn [occo].
  - rewrite hist_has. change (ahas N.eqb s (@nil (N * Z))) with false.
    destruct (s =? 0); cbn [negb andb orb]; [reflexivity|]. now rewrite orb_comm.
  - change (ahas N.eqb s (@nil (N * Z))) with false. change (0 <? 0) with false.
    destruct (s =? 0); cbn [negb andb orb]; [reflexivity|]. now rewrite orb_false_r.
Qed.

Lemma calc_num_labels_nodup cur prev : NoDup (map fst (calc_num_labels cur prev)).
Proof.
  unfold calc_num_labels. apply hist_nodup. destruct prev; [apply hist_nodup|]; constructor.
Qed.

Lemma occ_le_length arr s : occ arr s <= N.of_nat (length arr).
Proof. induction arr as [|l r IH]; [simpl; lia|]. rewrite occ_cons. cbn [length]. destruct (l =? s); lia. Qed.

(* ---------- aggregateBlockChanges: svChanges[sv][block] is the block's delta for sv ---------- *)
Definition dl (svc : changes) (s b : N) : Z :=
  zget b (match aget N.eqb s svc with Some l => l | None => [] end).

Definition CWf (svc : changes) : Prop :=
  NoDup (map fst svc) /\ forall s l, In (s, l) svc -> NoDup (map fst l).

Lemma in_aset_N {V} k (v : V) l x : In x (aset N.eqb k v l) -> x = (k, v) \/ In x l.
Proof.
  induction l as [|[k' v'] r IH]; simpl.
  - intros [H|[]]; auto.
  - destruct (k =? k') eqn:E; simpl.
    + apply N.eqb_eq in E; subst. intros [H|H]; auto.
    + intros [H|H]; auto. destruct (IH H); auto.
Qed.

Lemma aget_aset_Nk {V} k (v : V) m k' :
  aget N.eqb k' (aset N.eqb k v m) = if k' =? k then Some v else aget N.eqb k' m.
Proof.
  destruct (k' =? k) eqn:E.
  - apply N.eqb_eq in E; subst. apply (aget_aset_eq N.eqb N.eqb_eq).
  - apply (aget_aset_ne N.eqb N.eqb_eq). intro H; subst. now rewrite N.eqb_refl in E.
Qed.

Lemma dl_agg_add svc s b d s' b' :
  dl (agg_add svc s b d) s' b' = if (s' =? s) && (b' =? b) then (dl svc s b + d)%Z else dl svc s' b'.
Proof.
  unfold dl, agg_add. rewrite aget_aset_Nk. destruct (s' =? s) eqn:Es; cbn [andb].
  - apply N.eqb_eq in Es; subst s'. rewrite zget_aset. destruct (b' =? b) eqn:Eb; [reflexivity|].
    reflexivity.
  - reflexivity.
Qed.

Lemma has_agg_add svc s b d s' : ahas N.eqb s' (agg_add svc s b d) = ahas N.eqb s' svc || (s' =? s).
Proof. unfold agg_add. apply ahas_aset. Qed.

Lemma cwf_agg_add svc s b d : CWf svc -> CWf (agg_add svc s b d).
Proof.
  intros [ND H]. unfold agg_add. split.
  - now apply (nodup_aset N.eqb N.eqb_eq).
  - intros s' l Hin. apply in_aset_N in Hin as [Hin|Hin].
    + inversion Hin; subst. apply (nodup_aset N.eqb N.eqb_eq).
      destruct (aget N.eqb s svc) as [bc|] eqn:A; [|constructor].
      apply (H s bc). now apply (aget_Some_in N.eqb N.eqb_eq).
    + now apply (H s' l).
Qed.

Definition agg_block (svc : changes) (ch : N * list (N * Z)) : changes :=
  fold_left (fun svc' sd => agg_add svc' (fst sd) (fst ch) (snd sd)) (snd ch) svc.

Lemma agg_changes_fold chs : agg_changes chs = fold_left agg_block chs [].
Proof. reflexivity. Qed.

Lemma zget_notin s (l : list (N * Z)) : ~ In s (map fst l) -> zget s l = 0%Z.
Proof. intro H. unfold zget. now rewrite (proj2 (aget_None_notin N.eqb N.eqb_eq s l) H). Qed.

Lemma dl_agg_block b ds : forall svc s' b',
  NoDup (map fst ds) ->
  dl (agg_block svc (b, ds)) s' b' = if b' =? b then (dl svc s' b + zget s' ds)%Z else dl svc s' b'.
Proof.
  unfold agg_block; simpl. induction ds as [|[s0 d0] r IH]; intros svc s' b' ND; simpl.
  - unfold zget; simpl. destruct (b' =? b) eqn:E; [apply N.eqb_eq in E; subst; lia | reflexivity].
  - inversion ND as [|? ? Hn ND']; subst. rewrite (IH _ s' b' ND'). rewrite !dl_agg_add.
    destruct (b' =? b) eqn:Eb.
    + rewrite N.eqb_refl, andb_true_r. unfold zget at 2; simpl.
      destruct (s' =? s0) eqn:Es.
      * apply N.eqb_eq in Es; subst s'. rewrite (zget_notin s0 r Hn). lia.
      * fold (zget s' r). lia.
    + now rewrite andb_false_r.
Qed.

Lemma has_agg_block b ds : forall svc s',
  ahas N.eqb s' (agg_block svc (b, ds)) = ahas N.eqb s' svc || ahas N.eqb s' ds.
Proof.
  unfold agg_block; simpl. induction ds as [|[s0 d0] r IH]; intros svc s'; simpl.
  - unfold ahas at 3; simpl. now rewrite orb_false_r.
  - rewrite IH, has_agg_add. unfold ahas at 2 3 4. simpl. destruct (s' =? s0); simpl.
    + now rewrite !orb_true_r.
    + now rewrite orb_false_r.
Qed.

Lemma cwf_agg_block ch svc : CWf svc -> CWf (agg_block svc ch).
Proof.
  unfold agg_block. revert svc. induction (snd ch) as [|sd r IH]; intros svc H; simpl; [exact H|].
  apply IH. now apply cwf_agg_add.
Qed.

Definition delta_at (chs : list (N * list (N * Z))) (s b : N) : Z :=
  match aget N.eqb b chs with Some ds => zget s ds | None => 0%Z end.

Lemma dl_fold_blocks chs : forall svc s b,
  NoDup (map fst chs) -> (forall b' ds, In (b', ds) chs -> NoDup (map fst ds)) ->
  dl (fold_left agg_block chs svc) s b = (dl svc s b + delta_at chs s b)%Z.
Proof.
  induction chs as [|[b0 ds0] r IH]; intros svc s b ND Hd; simpl.
  - unfold delta_at; simpl. lia.
  - inversion ND as [|? ? Hn ND']; subst.
    rewrite IH; [|exact ND' | intros; eapply Hd; right; eassumption].
    rewrite dl_agg_block by (eapply Hd; left; reflexivity).
    unfold delta_at; simpl. destruct (b =? b0) eqn:E.
    + apply N.eqb_eq in E; subst b0.
      rewrite (proj2 (aget_None_notin N.eqb N.eqb_eq b r) Hn). lia.
    + lia.
Qed.

Lemma has_fold_blocks chs : forall svc s,
  ahas N.eqb s (fold_left agg_block chs svc) = ahas N.eqb s svc || existsb (fun ch => ahas N.eqb s (snd ch)) chs.
Proof.
  induction chs as [|[b0 ds0] r IH]; intros svc s; simpl; [now rewrite orb_false_r|].
  rewrite IH, has_agg_block. now rewrite orb_assoc.
Qed.

Lemma cwf_fold_blocks chs : forall svc, CWf svc -> CWf (fold_left agg_block chs svc).
Proof. induction chs as [|ch r IH]; intros svc H; simpl; [exact H | apply IH; now apply cwf_agg_block]. Qed.

Lemma cwf_nil : CWf [].
Proof. split; [constructor | intros s l []]. Qed.

(* the flattened change list of ModifyBlocks against svChanges *)
Lemma dsum_app l1 l2 s b : dsum (l1 ++ l2) s b = (dsum l1 s b + dsum l2 s b)%Z.
Proof.
  unfold dsum. induction l1 as [|t r IH]; simpl; [lia|].
  destruct ((fst (fst t) =? s) && (snd (fst t) =? b)); rewrite IH; lia.
Qed.

Lemma zget_cons b0 d0 (r : list (N * Z)) b : zget b ((b0, d0) :: r) = if b =? b0 then d0 else zget b r.
Proof. unfold zget; simpl. now destruct (b =? b0). Qed.

Lemma dsum_one s0 bcs s b : NoDup (map fst bcs) ->
  dsum (map (fun bd : N * Z => (s0, fst bd, snd bd)) bcs) s b = if s =? s0 then zget b bcs else 0%Z.
Proof.
  intro ND. induction bcs as [|[b0 d0] r IH]; simpl.
  - unfold zget; simpl. now destruct (s =? s0).
  - inversion ND as [|? ? Hn ND']; subst. rewrite (IH ND'), zget_cons.
    rewrite (N.eqb_sym s0 s), (N.eqb_sym b0 b). destruct (s =? s0) eqn:Es; simpl; [|reflexivity].
    destruct (b =? b0) eqn:Eb.
    + apply N.eqb_eq in Eb; subst b0. rewrite (zget_notin b r Hn). lia.
    + reflexivity.
Qed.

Lemma dsum_flat accept svc s b : CWf svc ->
  dsum (flat_changes accept svc) s b = if accept s then dl svc s b else 0%Z.
Proof.
  intros [ND H]. unfold flat_changes, dl. induction svc as [|[s0 bcs] r IH]; simpl.
  - unfold zget; simpl. now destruct (accept s).
  - inversion ND as [|? ? Hn ND']; subst. rewrite dsum_app.
    rewrite IH; [|exact ND' | intros; eapply H; right; eassumption].
    destruct (s =? s0) eqn:Es.
    + apply N.eqb_eq in Es; subst s0.
      rewrite (proj2 (aget_None_notin N.eqb N.eqb_eq s r) Hn).
      destruct (accept s) eqn:A.
      * rewrite dsum_one by (eapply H; left; reflexivity). rewrite N.eqb_refl. unfold zget at 2; simpl. lia.
      * reflexivity.
    + destruct (accept s0).
      * rewrite dsum_one by (eapply H; left; reflexivity). rewrite Es. lia.
      * reflexivity.
Qed.

Lemma nodup_flat accept svc : CWf svc -> NoDup (map fst (flat_changes accept svc)).
Proof.
  intros [ND H]. unfold flat_changes. induction svc as [|[s0 bcs] r IH]; simpl; [constructor|].
  inversion ND as [|? ? Hn ND']; subst. rewrite map_app. apply NoDup_app_intro.
  - destruct (accept s0); [|constructor]. rewrite map_map. simpl.
    assert (NoDup (map fst bcs)) as Hb by (eapply H; left; reflexivity).
    clear - Hb. induction bcs as [|[b0 d0] t IHt]; simpl; [constructor|].
    inversion Hb; subst. constructor; [|auto]. intro Hin. apply in_map_iff in Hin as [[b1 d1] [E Hin]].
    inversion E; subst. apply H1. apply in_map_iff. now exists (b0, d1).
  - apply IH; [exact ND' | intros; eapply H; right; eassumption].
  - intros [s b] H1 H2. destruct (accept s0); [|destruct H1].
    apply in_map_iff in H1 as [[[s1 b1] d1] [E1 Hin1]]. apply in_map_iff in Hin1 as [bd [E Hin1]].
    inversion E; subst. simpl in E1. inversion E1; subst.
    apply in_map_iff in H2 as [[[s2 b2] d2] [E2 Hin2]]. simpl in E2. inversion E2; subst.
    apply in_flat_map in Hin2 as [[s3 bcs3] [Hin3 Hin4]]. simpl in Hin4.
    destruct (accept s3); [|destruct Hin4]. apply in_map_iff in Hin4 as [bd4 [E4 _]]. inversion E4; subst.
    apply Hn. apply in_map_iff. now exists (s, bcs3).
Qed.

Lemma in_flat_changes accept svc s b d :
  In (s, b, d) (flat_changes accept svc) -> accept s = true /\ ahas N.eqb s svc = true.
Proof.
  unfold flat_changes. intro H. apply in_flat_map in H as [[s0 bcs] [Hin H]]. simpl in H.
  destruct (accept s0) eqn:A; [|destruct H]. apply in_map_iff in H as [bd [E _]]. inversion E; subst.
  split; [exact A|]. unfold ahas. destruct (aget N.eqb s svc) eqn:G; [reflexivity|].
  apply (aget_None_notin N.eqb N.eqb_eq) in G. exfalso. apply G. apply in_map_iff. now exists (s, bcs).
Qed.

Lemma in_flat_changes_dl accept svc s b d : CWf svc ->
  In (s, b, d) (flat_changes accept svc) -> d = dl svc s b.
Proof.
  intros [ND H] Hin. unfold flat_changes in Hin. apply in_flat_map in Hin as [[s0 bcs] [Hin0 Hin]]. simpl in Hin.
  destruct (accept s0); [|destruct Hin]. apply in_map_iff in Hin as [[b1 d1] [E Hin1]]. inversion E; subst.
  unfold dl. rewrite (in_aget_nodup N.eqb N.eqb_eq s bcs svc ND Hin0).
  unfold zget. now rewrite (in_aget_nodup N.eqb N.eqb_eq b d bcs (H s bcs Hin0) Hin1).
Qed.

(* ---------- ModifyBlocks keeps stored indices well formed ---------- *)
Lemma in_aset_key k (v : N) (l : index) x : In x (aset key_eqb k v l) -> x = (k, v) \/ In x l.
Proof.
  intro H. destruct (in_aset key_eqb key_eqb_eq x k v l H) as [H1|[H1|[k' [E H1]]]]; auto. subst. auto.
Qed.

Lemma wf_aset idx k c : Wf idx -> 0 < c -> Wf (aset key_eqb k c idx).
Proof.
  intros [ND P] Hc. split.
  - unfold keys_of. now apply (nodup_aset key_eqb key_eqb_eq).
  - apply Forall_forall. intros x Hx. apply in_aset_key in Hx as [->|Hx]; [exact Hc|].
    rewrite Forall_forall in P. now apply P.
Qed.

Lemma wf_adel idx k : Wf idx -> Wf (adel key_eqb k idx).
Proof.
  intros [ND P]. split.
  - unfold keys_of. now apply (nodup_adel key_eqb).
  - apply Forall_forall. intros x Hx. apply (in_adel key_eqb) in Hx. rewrite Forall_forall in P. now apply P.
Qed.

Lemma mod_one_wf idx s b d idx' :
  Wf idx -> (- 2 ^ 31 <= d < 2 ^ 31)%Z -> (0 <= Z.of_N (cnt idx b s) + d < 2 ^ 32)%Z ->
  ((0 < Z.of_N (cnt idx b s) + d)%Z \/ 0 < cnt idx b s) ->
  mod_one idx s b d = Ok idx' -> Wf idx'.
Proof.
  intros W Hd Hr Hp. unfold mod_one. destruct (block_in idx b) eqn:Bi.
  - destruct ((d <? 0)%Z && (cnt idx b s <? wrap32 (- d))); [discriminate|].
    pose proof (wrap32_small _ Hr) as Ws.
    destruct (wrap32 (Z.of_N (cnt idx b s) + d) =? 0) eqn:Z0; intro E; apply Ok_inj in E; subst idx'.
    + now apply wf_adel.
    + apply wf_aset; [exact W|]. apply N.eqb_neq in Z0. lia.
  - pose proof (block_in_false_cnt idx b s Bi) as C0. rewrite C0 in *.
    destruct (d <? 0)%Z eqn:Dn; [discriminate|]. intro E; apply Ok_inj in E; subst idx'.
    apply wf_aset; [exact W|]. assert (Z.of_N (wrap32 d) = d) by (apply wrap32_small; lia). lia.
Qed.

Lemma apply_flat_wf l : forall idx idx',
  Wf idx -> NoDup (map fst l) ->
  (forall s b d, In (s, b, d) l ->
     (- 2 ^ 31 <= d < 2 ^ 31)%Z /\ (0 <= Z.of_N (cnt idx b s) + d < 2 ^ 32)%Z /\
     ((0 < Z.of_N (cnt idx b s) + d)%Z \/ 0 < cnt idx b s)) ->
  apply_flat l (Ok idx) = Ok idx' -> Wf idx'.
Proof.
  induction l as [|[[s0 b0] d0] r IH]; intros idx idx' W ND Pre H.
  - unfold apply_flat in H; simpl in H. apply Ok_inj in H. now subst.
  - inversion ND as [|? ? Hn ND']; subst.
    destruct (Pre s0 b0 d0 (or_introl eq_refl)) as (Hd & Hr & Hp).
    destruct (mod_one_spec idx s0 b0 d0 Hd Hr) as [idx1 [E1 C1]].
    unfold apply_flat in H; simpl in H. rewrite E1 in H.
    apply (IH idx1 idx'); [eapply mod_one_wf; eauto | exact ND' | | exact H].
    intros s b d Hin. destruct (Pre s b d (or_intror Hin)) as (Hd' & Hr' & Hp').
    assert (Z.of_N (cnt idx1 b s) = Z.of_N (cnt idx b s)) as Same.
    { rewrite C1. destruct (key_eqb (b, s) (b0, s0)) eqn:K; [|reflexivity].
      apply key_eqb_eq in K. inversion K; subst. exfalso. apply Hn.
      apply in_map_iff. exists (s0, b0, d). split; [reflexivity | exact Hin]. }
    assert (cnt idx1 b s = cnt idx b s) as Same' by lia. rewrite Same'. auto.
Qed.

(* which blocks svChanges[sv] mentions *)
Definition bkeys (svc : changes) (s : N) : list N :=
  map fst (match aget N.eqb s svc with Some l => l | None => [] end).

Lemma keys_aset_in {V} k (v : V) (l : list (N * V)) x :
  In x (map fst (aset N.eqb k v l)) <-> In x (map fst l) \/ x = k.
Proof.
  rewrite (keys_aset N.eqb). unfold ahas. destruct (aget N.eqb k l) eqn:A.
  - split; [auto|]. intros [H|H]; [exact H|]. subst.
    apply (aget_Some_in N.eqb N.eqb_eq) in A. apply in_map_iff. now exists (k, v0).
  - rewrite in_app_iff. simpl. split; intros [H|H]; auto. destruct H; auto. contradiction.
Qed.

Lemma bkeys_agg_add svc s b d s' b' :
  In b' (bkeys (agg_add svc s b d) s') <-> In b' (bkeys svc s') \/ (s' = s /\ b' = b).
Proof.
  unfold bkeys, agg_add. rewrite aget_aset_Nk. destruct (s' =? s) eqn:E.
  - apply N.eqb_eq in E; subst s'. rewrite keys_aset_in. split; intros [H|H]; auto; tauto.
  - apply N.eqb_neq in E. split; [auto | intros [H|[H _]]; [exact H | contradiction]].
Qed.

Lemma bkeys_agg_block b ds : forall svc s' b',
  In b' (bkeys (agg_block svc (b, ds)) s') <-> In b' (bkeys svc s') \/ (b' = b /\ ahas N.eqb s' ds = true).
Proof.
  unfold agg_block; simpl. induction ds as [|[s0 d0] r IH]; intros svc s' b'; simpl.
  - unfold ahas; simpl. split; [auto | intros [H|[_ H]]; [exact H | discriminate]].
  - rewrite IH, bkeys_agg_add. unfold ahas at 2; simpl. unfold ahas.
    destruct (s' =? s0) eqn:E.
    + apply N.eqb_eq in E; subst. tauto.
    + apply N.eqb_neq in E. tauto.
Qed.

Lemma bkeys_fold_blocks chs : forall svc s b,
  In b (bkeys (fold_left agg_block chs svc) s) <->
  In b (bkeys svc s) \/ exists ds, In (b, ds) chs /\ ahas N.eqb s ds = true.
Proof.
  induction chs as [|[b0 ds0] r IH]; intros svc s b; simpl.
  - split; [auto | intros [H|[ds [[] _]]]; exact H].
  - rewrite IH, bkeys_agg_block. split.
    + intros [[H|[H1 H2]]|[ds [H1 H2]]]; auto.
      * right. exists ds0. subst. auto.
      * right. exists ds. auto.
    + intros [H|[ds [[H1|H1] H2]]]; auto.
      * inversion H1; subst. auto.
      * right. exists ds. auto.
Qed.

Lemma in_flat_changes_bkeys accept svc s b d : In (s, b, d) (flat_changes accept svc) -> NoDup (map fst svc) -> In b (bkeys svc s).
Proof.
  intros Hin ND. unfold flat_changes in Hin. apply in_flat_map in Hin as [[s0 bcs] [Hin0 Hin]]. simpl in Hin.
  destruct (accept s0); [|destruct Hin]. apply in_map_iff in Hin as [[b1 d1] [E Hin1]]. inversion E; subst.
  unfold bkeys. rewrite (in_aget_nodup N.eqb N.eqb_eq s bcs svc ND Hin0). apply in_map_iff. now exists (b, d).
Qed.

(* ---------- splitSupervoxelIndex moves exactly the split counts ---------- *)
Definition nb (rl : list (N * N)) (b : N) : N := match aget N.eqb b rl with Some n => n | None => 0 end.

Lemma two32N : 2 ^ 32 = 4294967296. Proof. reflexivity. Qed.

Lemma N_eqb_neq' a b : a <> b -> (a =? b) = false.
Proof. intro H. now apply N.eqb_neq. Qed.

Lemma sv_in_false_cnt idx b s : sv_in idx s = false -> cnt idx b s = 0.
Proof.
  intro H. unfold cnt. destruct (aget key_eqb (b, s) idx) eqn:A; [|reflexivity].
  apply (aget_Some_in key_eqb key_eqb_eq) in A.
  assert (sv_in idx s = true) as C; [|congruence].
  unfold sv_in. apply existsb_exists. exists ((b, s), n). split; [exact A | apply N.eqb_refl].
Qed.

Definition split_formula (sv split remain : N) (rl : list (N * N)) (c : N) (old : N) (b s : N) : N :=
  if s =? sv then 0 else if s =? split then nb rl b else if s =? remain then c - nb rl b else old.

Lemma split_sv_block_spec sv split remain rl acc e acc' :
  ksv e = sv -> split <> remain -> split <> sv -> remain <> sv ->
  cnt acc (kblock e) split = 0 -> cnt acc (kblock e) remain = 0 ->
  (forall n, aget N.eqb (kblock e) rl = Some n -> 0 < n < 2 ^ 32) -> 0 < snd e < 2 ^ 32 ->
  Wf acc ->
  split_sv_block sv split remain rl (Ok acc) e = Ok acc' ->
  nb rl (kblock e) <= snd e /\ Wf acc' /\
  forall b s, cnt acc' b s =
              if b =? kblock e then split_formula sv split remain rl (snd e) (cnt acc b s) b s else cnt acc b s.
Proof.
  intros Hk Hsr Hss Hrs Z1 Z2 Hn Hc W. unfold split_sv_block, split_formula. cbn [res_bind].
  set (b0 := kblock e) in *. set (c := snd e) in *. unfold nb at 1.
  destruct (aget N.eqb b0 rl) as [n|] eqn:A.
  - destruct (Hn n eq_refl) as [Hn0 Hn32]. rewrite two32N in *.
    assert (n mod 4294967296 = n) as Mn by (apply N.mod_small; lia). rewrite Mn.
    assert (forall b, b = b0 -> nb rl b = n) as NB by (intros b ->; unfold nb; now rewrite A).
    destruct (c <? n) eqn:Lt; [discriminate|]. apply N.ltb_ge in Lt.
    destruct (n =? c) eqn:Eq; intro E; apply Ok_inj in E; subst acc'.
    + apply N.eqb_eq in Eq. subst n. split; [lia|]. split.
      * apply wf_aset; [now apply wf_adel | lia].
      * intros b s. rewrite cnt_aset, cnt_adel. unfold key_eqb; simpl.
        destruct (b =? b0) eqn:Eb; simpl; [|reflexivity]. apply N.eqb_eq in Eb; subst b. rewrite (NB b0 eq_refl).
        destruct (s =? split) eqn:E1.
        -- apply N.eqb_eq in E1; subst s. now rewrite (N_eqb_neq' split sv Hss).
        -- destruct (s =? sv) eqn:E2; [reflexivity|].
           destruct (s =? remain) eqn:E3; [|reflexivity].
           apply N.eqb_eq in E3; subst s. rewrite Z2. lia.
    + apply N.eqb_neq in Eq. split; [lia|]. split.
      * apply wf_aset; [apply wf_aset; [now apply wf_adel | lia] | lia].
      * intros b s. rewrite !cnt_aset, cnt_adel. unfold key_eqb; simpl.
        destruct (b =? b0) eqn:Eb; simpl; [|reflexivity]. apply N.eqb_eq in Eb; subst b. rewrite (NB b0 eq_refl).
        destruct (s =? remain) eqn:E3.
        -- apply N.eqb_eq in E3; subst s. rewrite (N_eqb_neq' remain sv Hrs).
           rewrite (N_eqb_neq' remain split) by congruence. reflexivity.
        -- destruct (s =? split) eqn:E1.
           ++ apply N.eqb_eq in E1; subst s. now rewrite (N_eqb_neq' split sv Hss).
           ++ destruct (s =? sv); reflexivity.
  - assert (forall b, b = b0 -> nb rl b = 0) as NB by (intros b ->; unfold nb; now rewrite A).
    intro E; apply Ok_inj in E; subst acc'. split; [lia|]. split.
    + apply wf_aset; [now apply wf_adel | lia].
    + intros b s. rewrite cnt_aset, cnt_adel. unfold key_eqb; simpl.
      destruct (b =? b0) eqn:Eb; simpl; [|reflexivity]. apply N.eqb_eq in Eb; subst b. rewrite (NB b0 eq_refl).
      destruct (s =? remain) eqn:E3.
      * apply N.eqb_eq in E3; subst s. rewrite (N_eqb_neq' remain sv Hrs).
        rewrite (N_eqb_neq' remain split) by congruence. lia.
      * destruct (s =? sv) eqn:E2; [reflexivity|].
        destruct (s =? split) eqn:E1; [|reflexivity]. apply N.eqb_eq in E1; subst s. exact Z1.
Qed.

Lemma fold_split_err sv split remain rl L : fold_left (split_sv_block sv split remain rl) L Err = Err.
Proof. induction L; simpl; auto. Qed.
Lemma fold_split_panic sv split remain rl L : fold_left (split_sv_block sv split remain rl) L Panic = Panic.
Proof. induction L; simpl; auto. Qed.

Lemma split_sv_fold sv split remain rl : forall L acc acc',
  split <> remain -> split <> sv -> remain <> sv ->
  NoDup (map kblock L) ->
  (forall e, In e L -> ksv e = sv /\ cnt acc (kblock e) split = 0 /\ cnt acc (kblock e) remain = 0 /\
                       0 < snd e < 2 ^ 32) ->
  (forall b n, aget N.eqb b rl = Some n -> 0 < n < 2 ^ 32) ->
  Wf acc ->
  fold_left (split_sv_block sv split remain rl) L (Ok acc) = Ok acc' ->
  (forall e, In e L -> nb rl (kblock e) <= snd e) /\ Wf acc' /\
  forall b s, cnt acc' b s =
              match find (fun e => kblock e =? b) L with
              | Some e => split_formula sv split remain rl (snd e) (cnt acc b s) b s
              | None => cnt acc b s
              end.
Proof.
  induction L as [|e r IH]; intros acc acc' Hsr Hss Hrs ND HL Hrl W H.
  - simpl in H. apply Ok_inj in H; subst. split; [intros e []|]. split; [exact W | reflexivity].
  - cbn [fold_left] in H. inversion ND as [|? ? Hn ND']; subst.
    destruct (split_sv_block sv split remain rl (Ok acc) e) as [acc1| |] eqn:E1;
      [| rewrite fold_split_err in H; discriminate | rewrite fold_split_panic in H; discriminate].
    destruct (HL e (or_introl eq_refl)) as (Hk & Z1 & Z2 & Hc).
    destruct (split_sv_block_spec sv split remain rl acc e acc1 Hk Hsr Hss Hrs Z1 Z2 (Hrl (kblock e)) Hc W E1)
      as (Hle & W1 & C1).
    destruct (IH acc1 acc' Hsr Hss Hrs ND') as (Hle' & W' & C'); [| exact Hrl | exact W1 | exact H |].
    { intros e' He'. destruct (HL e' (or_intror He')) as (Hk' & Z1' & Z2' & Hc').
      assert ((kblock e' =? kblock e) = false) as Ne.
      { apply N.eqb_neq. intro Eq. apply Hn. rewrite <- Eq. apply in_map_iff. now exists e'. }
      split; [exact Hk'|]. split; [rewrite C1, Ne; exact Z1'|]. split; [rewrite C1, Ne; exact Z2' | exact Hc']. }
    split; [intros e' [<-|He']; auto|]. split; [exact W'|].
    intros b s. rewrite C'. simpl. destruct (kblock e =? b) eqn:Eb.
    + apply N.eqb_eq in Eb; subst b.
      assert (find (fun e0 => kblock e0 =? kblock e) r = None) as Fn.
      { destruct (find (fun e0 => kblock e0 =? kblock e) r) eqn:F; [|reflexivity].
        apply find_some in F as [Hin Heq]. apply N.eqb_eq in Heq. exfalso. apply Hn.
        rewrite <- Heq. apply in_map_iff. now exists p. }
      rewrite Fn, C1, N.eqb_refl. reflexivity.
    + destruct (find (fun e0 => kblock e0 =? b) r) as [e'|]; rewrite C1, (N.eqb_sym b (kblock e)), Eb; reflexivity.
Qed.

Theorem split_sv_index_spec idx sv split remain rl idx' :
  Wf idx -> split <> remain -> split <> sv -> remain <> sv ->
  sv_in idx split = false -> sv_in idx remain = false ->
  (forall b n, aget N.eqb b rl = Some n -> 0 < n < 2 ^ 32) ->
  (forall b s, cnt idx b s < 2 ^ 32) ->
  split_sv_index idx sv split remain rl = Ok idx' ->
  Wf idx' /\
  (forall b, 0 < cnt idx b sv -> nb rl b <= cnt idx b sv) /\
  forall b s, cnt idx' b s =
              if 0 <? cnt idx b sv then split_formula sv split remain rl (cnt idx b sv) (cnt idx b s) b s
              else cnt idx b s.
Proof.
  intros W Hsr Hss Hrs Fs Fr Hrl Hb H. unfold split_sv_index in H.
  set (L := filter (fun e => ksv e =? sv) idx) in *.
  destruct W as [ND P]. rewrite Forall_forall in P.
  assert (forall e, In e L -> In e idx /\ ksv e = sv) as HLin.
  { intros e He. apply filter_In in He as [H1 H2]. apply N.eqb_eq in H2. auto. }
  assert (forall e, In e L -> cnt idx (kblock e) sv = snd e) as Hcnt.
  { intros [[b s] c] He. destruct (HLin _ He) as [Hin Hk]. unfold ksv in Hk; simpl in Hk; subst s.
    unfold cnt, kblock; simpl. now rewrite (in_aget_nodup key_eqb key_eqb_eq (b, sv) c idx ND Hin). }
  assert (NoDup (map kblock L)) as NDL.
  { unfold L. clear - ND. unfold keys_of in ND. induction idx as [|[[b s] c] r IH]; simpl; [constructor|].
    inversion ND as [|? ? Hn ND']; subst. unfold ksv at 1; simpl. destruct (s =? sv) eqn:E; [|auto].
    apply N.eqb_eq in E; subst s. simpl. constructor; [|auto].
    intro Hin. apply in_map_iff in Hin as [[[b' s'] c'] [Hb Hin]]. unfold kblock in Hb; simpl in Hb; subst b'.
    apply filter_In in Hin as [Hin Hs]. unfold ksv in Hs; simpl in Hs. apply N.eqb_eq in Hs; subst s'.
    apply Hn. apply in_map_iff. now exists ((b, sv), c'). }
  destruct (split_sv_fold sv split remain rl L idx idx' Hsr Hss Hrs NDL) as (Hle & W' & C'); try assumption.
  { intros e He. destruct (HLin e He) as [Hin Hk]. repeat split; try assumption.
    - now apply sv_in_false_cnt.
    - now apply sv_in_false_cnt.
    - now apply P.
    - rewrite <- (Hcnt e He). apply Hb. }
  { split; [exact ND | now apply Forall_forall]. }
  assert (forall b, match find (fun e => kblock e =? b) L with
                    | Some e => cnt idx b sv = snd e /\ In e L /\ kblock e = b
                    | None => cnt idx b sv = 0
                    end) as Hfind.
  { intro b. destruct (find (fun e => kblock e =? b) L) as [e|] eqn:F.
    - apply find_some in F as [Hin Heq]. apply N.eqb_eq in Heq. subst b. auto.
    - unfold cnt. destruct (aget key_eqb (b, sv) idx) as [c|] eqn:A; [|reflexivity].
      apply (aget_Some_in key_eqb key_eqb_eq) in A. exfalso.
      assert (In ((b, sv), c) L) as HinL by (apply filter_In; split; [exact A | apply N.eqb_refl]).
      pose proof (find_none _ _ F _ HinL) as X. unfold kblock in X; simpl in X. now rewrite N.eqb_refl in X. }
  split; [exact W'|]. split.
  - intros b Hpos. specialize (Hfind b). destruct (find (fun e => kblock e =? b) L) as [e|].
    + destruct Hfind as (Hc & Hin & Hkb). rewrite Hc, <- Hkb. now apply Hle.
    + lia.
  - intros b s. rewrite C'. specialize (Hfind b). destruct (find (fun e => kblock e =? b) L) as [e|].
    + destruct Hfind as (Hc & Hin & Hkb). destruct (HLin e Hin) as [Hine _]. pose proof (P e Hine).
      rewrite Hc. destruct (0 <? snd e) eqn:Pz; [reflexivity | apply N.ltb_ge in Pz; lia].
    + rewrite Hfind. reflexivity.
Qed.

(* ---------- splitIndex conserves the counts between the kept and the new index ---------- *)
Lemma num_voxels_cons' (e : key * N) (r : index) : num_voxels (e :: r) = snd e + num_voxels r.
Proof. reflexivity. Qed.

Lemma split_entry_sum bs sm e r s :
  split_entry bs sm e = Ok (r, s) -> num_voxels r + num_voxels s = snd e.
Proof.
  unfold split_entry. destruct (aget N.eqb (ksv e) sm) as [[spl rem]|].
  - destruct (aget key_eqb (kblock e, ksv e) bs) as [[spl' n]|].
    + destruct (snd e <? n) eqn:L1; [discriminate|]. apply N.ltb_ge in L1.
      destruct (n <? snd e) eqn:L2; intro H; apply Ok_inj in H; inversion H; subst; unfold num_voxels; simpl.
      * apply N.ltb_lt in L2. lia.
      * apply N.ltb_ge in L2. lia.
    + intro H; apply Ok_inj in H; inversion H; subst. unfold num_voxels; simpl. lia.
  - intro H; apply Ok_inj in H; inversion H; subst. unfold num_voxels; simpl. lia.
Qed.

Theorem split_index_conserves idx bs sm : forall r s,
  split_index idx bs sm = Ok (r, s) -> num_voxels r + num_voxels s = num_voxels idx.
Proof.
  induction idx as [|e t IH]; intros r s H; simpl in H.
  - apply Ok_inj in H; inversion H; subst. reflexivity.
  - destruct (split_entry bs sm e) as [[r1 s1]| |] eqn:E1; simpl in H; try discriminate.
    destruct (split_index t bs sm) as [[r2 s2]| |] eqn:E2; simpl in H; try discriminate.
    apply Ok_inj in H; inversion H; subst. rewrite !num_voxels_app, num_voxels_cons'.
    pose proof (split_entry_sum bs sm e r1 s1 E1). pose proof (IH r2 s2 eq_refl). lia.
Qed.
