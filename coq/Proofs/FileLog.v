(* Proofs.FileLog: the repaired log reader returns exactly the completely written records of any
   torn log; the reader as it stands does so only for cuts outside payloads. *)
From DV Require Import Base.Prelude Base.Int Model.FileLog.
From Coq Require Import ZifyN ZifyNat ZifyBool.
Local Open Scope N_scope.

Lemma encode1_length m : length (encode1 m) = (6 + length (snd m))%nat.
Proof. unfold encode1. rewrite !app_length, !le_enc_length. lia. Qed.

Lemma firstn_app_ge {A} (a b : list A) n :
  (length a <= n)%nat -> firstn n (a ++ b) = a ++ firstn (n - length a) b.
Proof. intro H. rewrite firstn_app. f_equal. apply firstn_all2. exact H. Qed.

Lemma bslice_mid pre x post st :
  bslice {| b_data := pre ++ x ++ post; b_stale := st |}
         (N.of_nat (length pre)) (N.of_nat (length pre) + N.of_nat (length x)) = Some x.
Proof.
  unfold bslice, bcap. cbn [b_data b_stale].
  rewrite !app_length.
  destruct (_ <? _) eqn:E1; [lia|].
  destruct (N.of_nat _ <? _) eqn:E2; [lia|]. cbn [orb].
  f_equal.
  replace (N.to_nat (N.of_nat (length pre) + N.of_nat (length x) - N.of_nat (length pre))) with (length x) by lia.
  rewrite Nat2N.id.
  rewrite <- app_assoc. rewrite skipn_app. rewrite skipn_all. rewrite Nat.sub_diag. cbn [app skipn].
  rewrite <- app_assoc. rewrite firstn_app. rewrite Nat.sub_diag. rewrite firstn_all. cbn [firstn]. apply app_nil_r.
Qed.

Lemma complete_prefix_0 rs : complete_prefix rs 0 = [].
Proof.
  destruct rs as [|r rs]; [reflexivity|]. cbn [complete_prefix]. rewrite encode1_length. reflexivity.
Qed.

Lemma pow16 : 2 ^ 16 = 256 ^ N.of_nat 2. Proof. reflexivity. Qed.
Lemma pow32 : 2 ^ 32 = 256 ^ N.of_nat 4. Proof. reflexivity. Qed.

(* header_cut of a longer log, when the first record fits *)
Lemma header_cut_cons r rs n :
  (length (encode1 r) <= n)%nat -> header_cut (r :: rs) n = header_cut rs (n - length (encode1 r)).
Proof.
  intro H. unfold header_cut. cbn [complete_prefix].
  apply Nat.leb_le in H. rewrite H. cbn [encode]. rewrite app_length.
  f_equal. lia.
Qed.

Lemma header_cut_short r rs n :
  (n < length (encode1 r))%nat -> header_cut (r :: rs) n = Nat.ltb n hdr_len.
Proof.
  intro H. unfold header_cut. cbn [complete_prefix].
  apply Nat.leb_gt in H. rewrite H. cbn [encode length]. now rewrite Nat.sub_0_r.
Qed.

(* The loop, started at a record boundary [length pre] of a file torn [n] bytes after it. *)
Lemma read_loop_spec guard : forall rs pre n acc fuel st,
  Forall record_ok rs ->
  (n <= length (encode rs))%nat -> (0 < n)%nat -> (n < fuel)%nat ->
  guard = true \/ header_cut rs n = true ->
  read_loop guard fuel {| b_data := pre ++ firstn n (encode rs); b_stale := st |}
            (N.of_nat (length pre)) acc
  = LOk (rev acc ++ complete_prefix rs n).
Proof.
  induction rs as [|r rs IH]; intros pre n acc fuel st Hok Hn Hpos Hfuel Hg.
  - cbn in Hn. lia.
  - destruct fuel as [|fuel]; [lia|].
    inversion Hok as [|? ? [Ht [Hs Hb]] Hok']; subst.
    destruct r as [t d]. cbn [fst snd] in *.
    cbn [read_loop].
    set (h2 := le_enc 2 t). set (h4 := le_enc 4 (N.of_nat (length d))).
    assert (L2 : length h2 = 2%nat) by apply le_enc_length.
    assert (L4 : length h4 = 4%nat) by apply le_enc_length.
    assert (El : length (encode1 (t, d)) = (6 + length d)%nat) by apply encode1_length.
    assert (Ee : encode ((t, d) :: rs) = h2 ++ h4 ++ d ++ encode rs).
    { cbn [encode]. unfold encode1. cbn [fst snd]. now rewrite <- !app_assoc. }
    destruct (Nat.ltb n 6) eqn:En6.
    + (* torn inside the header *)
      apply Nat.ltb_lt in En6.
      assert (Hlen : blen {| b_data := pre ++ firstn n (encode ((t, d) :: rs)); b_stale := st |}
                     <? N.of_nat (length pre) + 6 = true).
      { unfold blen. cbn [b_data]. rewrite app_length, firstn_length. lia. }
      rewrite Hlen.
      cbn [complete_prefix]. rewrite El.
      replace (Nat.leb (6 + length d) n) with false by (symmetry; apply Nat.leb_gt; lia).
      now rewrite app_nil_r.
    + apply Nat.ltb_ge in En6.
      (* the header is complete *)
      assert (Ef : firstn n (encode ((t, d) :: rs)) = h2 ++ h4 ++ firstn (n - 6) (d ++ encode rs)).
      { rewrite Ee. rewrite firstn_app_ge by lia. f_equal. rewrite firstn_app_ge by lia.
        f_equal. f_equal. lia. }
      rewrite Ef.
      set (rest := firstn (n - 6) (d ++ encode rs)).
      assert (Hlen : blen {| b_data := pre ++ h2 ++ h4 ++ rest; b_stale := st |}
                     <? N.of_nat (length pre) + 6 = false).
      { unfold blen. cbn [b_data]. rewrite !app_length. lia. }
      rewrite Hlen.
      replace (N.of_nat (length pre) + 2) with (N.of_nat (length pre) + N.of_nat (length h2)) by lia.
      rewrite (bslice_mid pre h2 (h4 ++ rest) st).
      replace (N.of_nat (length pre) + 6) with (N.of_nat (length (pre ++ h2)) + N.of_nat (length h4))
        by (rewrite app_length; lia).
      replace (N.of_nat (length pre) + N.of_nat (length h2)) with (N.of_nat (length (pre ++ h2)))
        by (rewrite app_length; lia).
      replace (pre ++ h2 ++ h4 ++ rest) with ((pre ++ h2) ++ h4 ++ rest) by now rewrite <- app_assoc.
      rewrite (bslice_mid (pre ++ h2) h4 rest st).
      cbv beta iota.
      assert (D2 : le_dec h2 = t) by (unfold h2; apply le_dec_enc; rewrite <- pow16; exact Ht).
      assert (D4 : le_dec h4 = N.of_nat (length d)) by (unfold h4; apply le_dec_enc; rewrite <- pow32; exact Hs).
      rewrite D2, D4.
      destruct (Nat.ltb n (6 + length d)) eqn:Enl.
      * (* torn inside the payload *)
        apply Nat.ltb_lt in Enl.
        destruct Hg as [Hg|Hg].
        2:{ rewrite header_cut_short in Hg by lia. apply Nat.ltb_lt in Hg. unfold hdr_len in Hg. lia. }
        subst guard.
        assert (Hg2 : blen {| b_data := (pre ++ h2) ++ h4 ++ rest; b_stale := st |}
                      <? N.of_nat (length (pre ++ h2)) + N.of_nat (length h4) + N.of_nat (length d) = true).
        { unfold blen. cbn [b_data]. unfold rest. rewrite !app_length, firstn_length, app_length. lia. }
        rewrite Hg2. cbn [andb].
        cbn [complete_prefix]. rewrite El.
        replace (Nat.leb (6 + length d) n) with false by (symmetry; apply Nat.leb_gt; lia).
        now rewrite app_nil_r.
      * apply Nat.ltb_ge in Enl.
        assert (Er : rest = d ++ firstn (n - (6 + length d)) (encode rs)).
        { unfold rest. rewrite firstn_app_ge by lia. f_equal. f_equal. lia. }
        assert (Hg2 : blen {| b_data := (pre ++ h2) ++ h4 ++ rest; b_stale := st |}
                      <? N.of_nat (length (pre ++ h2)) + N.of_nat (length h4) + N.of_nat (length d) = false).
        { unfold blen. cbn [b_data]. rewrite Er. rewrite !app_length. lia. }
        rewrite Hg2. rewrite andb_false_r.
        rewrite Er.
        set (tl := firstn (n - (6 + length d)) (encode rs)).
        replace ((pre ++ h2) ++ h4 ++ d ++ tl) with (((pre ++ h2) ++ h4) ++ d ++ tl) by now rewrite <- !app_assoc.
        replace (N.of_nat (length (pre ++ h2)) + N.of_nat (length h4))
          with (N.of_nat (length ((pre ++ h2) ++ h4))) by (rewrite !app_length; lia).
        rewrite (bslice_mid ((pre ++ h2) ++ h4) d tl st).
        cbn [complete_prefix]. rewrite El.
        replace (Nat.leb (6 + length d) n) with true by (symmetry; apply Nat.leb_le; lia).
        destruct (Nat.eqb n (6 + length d)) eqn:Eeq.
        -- apply Nat.eqb_eq in Eeq.
           assert (Htl : tl = []).
           { unfold tl. replace (n - (6 + length d))%nat with 0%nat by lia. reflexivity. }
           rewrite Htl.
           assert (Hend : blen {| b_data := ((pre ++ h2) ++ h4) ++ d ++ []; b_stale := st |}
                          =? N.of_nat (length ((pre ++ h2) ++ h4)) + N.of_nat (length d) = true).
           { apply N.eqb_eq. unfold blen. cbn [b_data]. rewrite !app_length. cbn [length]. lia. }
           rewrite Hend.
           replace (n - (6 + length d))%nat with 0%nat by lia.
           rewrite complete_prefix_0. cbn [rev]. reflexivity.
        -- apply Nat.eqb_neq in Eeq.
           assert (Htl : (0 < length tl)%nat).
           { unfold tl. rewrite firstn_length. rewrite Ee in Hn. rewrite !app_length in Hn. lia. }
           assert (Hend : blen {| b_data := ((pre ++ h2) ++ h4) ++ d ++ tl; b_stale := st |}
                          =? N.of_nat (length ((pre ++ h2) ++ h4)) + N.of_nat (length d) = false).
           { apply N.eqb_neq. unfold blen. cbn [b_data]. rewrite !app_length. lia. }
           rewrite Hend.
           replace (((pre ++ h2) ++ h4) ++ d ++ tl) with ((((pre ++ h2) ++ h4) ++ d) ++ tl) by now rewrite <- !app_assoc.
           replace (N.of_nat (length ((pre ++ h2) ++ h4)) + N.of_nat (length d))
             with (N.of_nat (length (((pre ++ h2) ++ h4) ++ d))) by (rewrite !app_length; lia).
           unfold tl.
           rewrite (IH (((pre ++ h2) ++ h4) ++ d) (n - (6 + length d))%nat ((t, d) :: acc) fuel st); try lia.
           ++ cbn [rev]. now rewrite <- app_assoc.
           ++ exact Hok'.
           ++ rewrite Ee in Hn. rewrite !app_length in Hn. lia.
           ++ destruct Hg as [Hg|Hg]; [now left|right].
              rewrite header_cut_cons in Hg by lia. now rewrite El in Hg.
Qed.

Lemma read_all_g_spec guard rs n st :
  Forall record_ok rs -> (n <= length (encode rs))%nat ->
  guard = true \/ header_cut rs n = true ->
  read_all_g guard (torn rs n st) = LOk (complete_prefix rs n).
Proof.
  intros Hok Hn Hg. unfold read_all_g, torn, blen. cbn [b_data].
  destruct n as [|n].
  - cbn [firstn length]. cbn. now rewrite complete_prefix_0.
  - assert (Hl : length (firstn (S n) (encode rs)) = S n) by (rewrite firstn_length; lia).
    rewrite Hl.
    replace (N.of_nat (S n) =? 0) with false by (symmetry; apply N.eqb_neq; lia).
    pose proof (read_loop_spec guard rs [] (S n) [] (S (S n)) st Hok Hn) as H.
    cbn [app length rev] in H. apply H; try lia.
Qed.

(* log_prefix for the repaired readers: every record list, every cut, every spare capacity *)
Lemma log_prefix_fixed rs n st :
  Forall record_ok rs -> (n <= length (encode rs))%nat ->
  read_all_fixed (torn rs n st) = LOk (complete_prefix rs n)
  /\ stream_all_fixed (torn rs n st) = LOk (complete_prefix rs n).
Proof. intros. split; apply read_all_g_spec; auto. Qed.

(* the reader as it stands is right whenever the cut is not inside a payload *)
Lemma log_prefix_header_cut rs n st :
  Forall record_ok rs -> (n <= length (encode rs))%nat -> header_cut rs n = true ->
  read_all (torn rs n st) = LOk (complete_prefix rs n).
Proof. intros. apply read_all_g_spec; auto. Qed.

Lemma complete_prefix_all rs : complete_prefix rs (length (encode rs)) = rs.
Proof.
  induction rs as [|r rs IH]; [reflexivity|].
  cbn [encode complete_prefix]. rewrite app_length.
  replace (Nat.leb _ _) with true by (symmetry; apply Nat.leb_le; lia).
  f_equal. replace (length (encode1 r) + length (encode rs) - length (encode1 r))%nat with (length (encode rs)) by lia. exact IH.
Qed.

Lemma header_cut_all rs : header_cut rs (length (encode rs)) = true.
Proof. unfold header_cut. rewrite complete_prefix_all. rewrite Nat.sub_diag. reflexivity. Qed.

(* an untorn log reads back exactly what was appended, with the reader as it stands *)
Lemma log_complete rs st :
  Forall record_ok rs -> read_all (torn rs (length (encode rs)) st) = LOk rs.
Proof.
  intro H. rewrite log_prefix_header_cut; auto using header_cut_all. now rewrite complete_prefix_all.
Qed.

(* one Append = two writes whose concatenation is the record's encoding *)
Lemma append_writes_concat m : concat (append_writes m) = encode1 m.
Proof. unfold append_writes, encode1. cbn [concat]. now rewrite app_nil_r, <- app_assoc. Qed.

(* ---- the readers as they stand violate log_prefix ---- *)
Definition w_small : list logmsg := [(1, [7; 7; 7])].
Definition w_big : list logmsg := [(1, repeat 7 700)].
Definition w_stale : bytes := repeat 0 505.       (* io.ReadAll: capacity 512 for a 7-byte file *)

Lemma w_small_ok : Forall record_ok w_small.
Proof. repeat constructor; cbn; try lia. Qed.
Lemma w_big_ok : Forall record_ok w_big.
Proof.
  constructor; [|constructor]. split; [cbn; lia|]. split; [cbn; lia|].
  cbn [snd]. unfold bytes_ok. apply Forall_forall. intros x Hx. apply repeat_spec in Hx. subst. unfold byte_ok. lia.
Qed.

Lemma read_all_padded : read_all (torn w_small 7 w_stale) = LOk [(1, [7; 0; 0])].
Proof. vm_compute. reflexivity. Qed.
Lemma read_all_panics : read_all (torn w_big 7 w_stale) = LPanic.
Proof. vm_compute. reflexivity. Qed.
Lemma stream_all_padded : stream_all (torn w_small 7 w_stale) = LOk [(1, [7; 0; 0])].
Proof. vm_compute. reflexivity. Qed.
Lemma stream_all_panics : stream_all (torn w_big 7 w_stale) = LPanic.
Proof. vm_compute. reflexivity. Qed.

Lemma log_prefix_refuted_read :
  (exists rs n st, Forall record_ok rs /\ (n <= length (encode rs))%nat /\ read_all (torn rs n st) = LPanic)
  /\ (exists rs n st, Forall record_ok rs /\ (n <= length (encode rs))%nat /\
        read_all (torn rs n st) <> LOk (complete_prefix rs n) /\ read_all (torn rs n st) <> LPanic).
Proof.
  split.
  - exists w_big, 7%nat, w_stale. split; [apply w_big_ok|]. split; [cbn; lia|]. apply read_all_panics.
  - exists w_small, 7%nat, w_stale. split; [apply w_small_ok|]. split; [cbn; lia|].
    rewrite read_all_padded. split; [vm_compute|]; discriminate.
Qed.

Lemma log_prefix_refuted_stream :
  (exists rs n st, Forall record_ok rs /\ (n <= length (encode rs))%nat /\ stream_all (torn rs n st) = LPanic)
  /\ (exists rs n st, Forall record_ok rs /\ (n <= length (encode rs))%nat /\
        stream_all (torn rs n st) <> LOk (complete_prefix rs n) /\ stream_all (torn rs n st) <> LPanic).
Proof.
  split.
  - exists w_big, 7%nat, w_stale. split; [apply w_big_ok|]. split; [cbn; lia|]. apply stream_all_panics.
  - exists w_small, 7%nat, w_stale. split; [apply w_small_ok|]. split; [cbn; lia|].
    rewrite stream_all_padded. split; [vm_compute|]; discriminate.
Qed.

(* ---- appending after a crash ---- *)
Lemma encode_app a b : encode (a ++ b) = encode a ++ encode b.
Proof. induction a as [|x a IH]; [reflexivity|]. cbn [app encode]. now rewrite IH, app_assoc. Qed.

Lemma complete_prefix_len rs n : (length (encode (complete_prefix rs n)) <= n)%nat.
Proof.
  revert n; induction rs as [|r rs IH]; intro n; cbn [complete_prefix]; [cbn; lia|].
  destruct (Nat.leb _ n) eqn:E; [|cbn; lia].
  apply Nat.leb_le in E. cbn [encode]. rewrite app_length. specialize (IH (n - length (encode1 r))%nat). lia.
Qed.

Lemma firstn_encode_boundary rs : forall n,
  (n <= length (encode rs))%nat -> boundary_cut rs n = true ->
  firstn n (encode rs) = encode (complete_prefix rs n).
Proof.
  induction rs as [|r rs IH]; intros n Hn Hb.
  - cbn in *. now destruct n.
  - unfold boundary_cut in Hb. apply Nat.eqb_eq in Hb.
    cbn [complete_prefix] in *. destruct (Nat.leb (length (encode1 r)) n) eqn:E.
    + apply Nat.leb_le in E. cbn [encode] in *. rewrite app_length in *.
      rewrite firstn_app_ge by exact E. f_equal. apply IH; [lia|].
      unfold boundary_cut. apply Nat.eqb_eq. lia.
    + apply Nat.leb_gt in E. cbn [encode length] in Hb. replace n with 0%nat by lia. reflexivity.
Qed.

Lemma complete_prefix_ok rs n : Forall record_ok rs -> Forall record_ok (complete_prefix rs n).
Proof.
  revert n; induction rs as [|r rs IH]; intros n H; cbn [complete_prefix]; [constructor|].
  inversion H; subst. destruct (Nat.leb _ n); constructor; auto.
Qed.

(* a crash that left the log cut on a record boundary is harmless for later appends *)
Lemma append_after_boundary rs n after st :
  Forall record_ok rs -> Forall record_ok after -> (n <= length (encode rs))%nat ->
  boundary_cut rs n = true ->
  read_all_fixed (torn_then_appended rs n after st) = LOk (complete_prefix rs n ++ after).
Proof.
  intros Hrs Haf Hn Hb. unfold torn_then_appended.
  rewrite firstn_encode_boundary by assumption. rewrite <- encode_app.
  pose proof (read_all_g_spec true (complete_prefix rs n ++ after) (length (encode (complete_prefix rs n ++ after))) st) as H.
  unfold torn in H. rewrite firstn_all in H. unfold read_all_fixed. rewrite H.
  - now rewrite complete_prefix_all.
  - apply Forall_app; split; [now apply complete_prefix_ok | assumption].
  - lia.
  - now left.
Qed.

(* ... but after a torn tail the appended records are swallowed or mis-framed, even by the
   repaired reader (known finding C04-append-after-torn) *)
Lemma append_after_torn_refuted :
  exists rs n after st, Forall record_ok rs /\ Forall record_ok after /\ (n <= length (encode rs))%nat /\
    read_all_fixed (torn_then_appended rs n after st) <> LOk (complete_prefix rs n ++ after).
Proof.
  exists [(1, [11; 12; 13])], 8%nat, [(4, [41; 42])], [].
  split; [repeat constructor; cbn; lia|]. split; [repeat constructor; cbn; lia|].
  split; [cbn; lia|]. vm_compute. discriminate.
Qed.

(* ---- the repaired engine trims a torn tail before it appends ---- *)
Lemma complete_prefix_is_prefix rs : forall n, exists tl, encode rs = encode (complete_prefix rs n) ++ tl.
Proof.
  induction rs as [|r rs IH]; intro n; cbn [complete_prefix]; [exists []; reflexivity|].
  destruct (Nat.leb _ n); [|exists (encode (r :: rs)); reflexivity].
  destruct (IH (n - length (encode1 r))%nat) as [tl H]. exists tl. cbn [encode]. rewrite H at 1. now rewrite app_assoc.
Qed.

Lemma skipn_firstn_sub {A} (l : list A) m n : skipn m (firstn n l) = firstn (n - m) (skipn m l).
Proof.
  revert m n; induction l as [|a l IH]; intros m n.
  - now rewrite firstn_nil, !skipn_nil, firstn_nil.
  - destruct m; [now rewrite Nat.sub_0_r|]. destruct n; [reflexivity|]. cbn. apply IH.
Qed.

Lemma skipn_app_len {A} (a b : list A) k : length a = k -> skipn k (a ++ b) = b.
Proof. intro H. subst k. rewrite skipn_app, skipn_all, Nat.sub_diag. reflexivity. Qed.
Lemma firstn_app_len {A} (a b : list A) k : length a = k -> firstn k (a ++ b) = a.
Proof. intro H. subst k. rewrite firstn_app, firstn_all, Nat.sub_diag. cbn. apply app_nil_r. Qed.

Lemma trim_len_spec rs : forall n fuel, Forall record_ok rs -> (n <= length (encode rs))%nat -> (n < fuel)%nat ->
  trim_len fuel (firstn n (encode rs)) = length (encode (complete_prefix rs n)).
Proof.
  induction rs as [|r rs IH]; intros n fuel Hok Hn Hf.
  - destruct fuel; [lia|]. cbn in Hn. replace n with 0%nat by lia. reflexivity.
  - destruct fuel as [|fuel]; [lia|].
    inversion Hok as [|? ? [Ht [Hs Hb]] Hok']; subst. destruct r as [t d]. cbn [fst snd] in *.
    set (h2 := le_enc 2 t). set (h4 := le_enc 4 (N.of_nat (length d))).
    assert (L2 : length h2 = 2%nat) by apply le_enc_length.
    assert (L4 : length h4 = 4%nat) by apply le_enc_length.
    assert (El : length (encode1 (t, d)) = (6 + length d)%nat) by apply encode1_length.
    assert (Ee : encode ((t, d) :: rs) = h2 ++ h4 ++ d ++ encode rs).
    { cbn [encode]. unfold encode1. cbn [fst snd]. now rewrite <- !app_assoc. }
    cbn [trim_len complete_prefix]. rewrite El.
    assert (Hlen : length (firstn n (encode ((t, d) :: rs))) = n) by (rewrite firstn_length; lia).
    rewrite Hlen.
    destruct (Nat.ltb n 6) eqn:E6.
    + apply Nat.ltb_lt in E6. replace (Nat.leb (6 + length d) n) with false by (symmetry; apply Nat.leb_gt; lia). reflexivity.
    + apply Nat.ltb_ge in E6.
      assert (Ef : firstn n (encode ((t, d) :: rs)) = h2 ++ h4 ++ firstn (n - 6) (d ++ encode rs)).
      { rewrite Ee. rewrite firstn_app_ge by lia. f_equal. rewrite firstn_app_ge by lia. f_equal. f_equal. lia. }
      assert (Hsz : N.to_nat (le_dec (firstn 4 (skipn 2 (firstn n (encode ((t, d) :: rs)))))) = length d).
      { rewrite Ef. rewrite (skipn_app_len h2 _ 2 L2). rewrite (firstn_app_len h4 _ 4 L4).
        unfold h4. rewrite le_dec_enc by (rewrite <- pow32; exact Hs). lia. }
      rewrite Hsz.
      destruct (Nat.ltb n (6 + length d)) eqn:El2.
      * apply Nat.ltb_lt in El2. replace (Nat.leb (6 + length d) n) with false by (symmetry; apply Nat.leb_gt; lia). reflexivity.
      * apply Nat.ltb_ge in El2. replace (Nat.leb (6 + length d) n) with true by (symmetry; apply Nat.leb_le; lia).
        cbn [encode]. rewrite app_length, El.
        rewrite skipn_firstn_sub.
        assert (Hsk : skipn (6 + length d) (encode1 (t, d) ++ encode rs) = encode rs)
          by (apply skipn_app_len; exact El).
        rewrite Hsk. rewrite IH; [reflexivity|exact Hok'| |lia].
        rewrite Ee in Hn. rewrite !app_length in Hn. lia.
Qed.

Lemma trim_tail_spec rs n : Forall record_ok rs -> (n <= length (encode rs))%nat ->
  trim_tail (firstn n (encode rs)) = encode (complete_prefix rs n).
Proof.
  intros Hok Hn. unfold trim_tail.
  assert (Hl : length (firstn n (encode rs)) = n) by (rewrite firstn_length; lia).
  rewrite Hl. rewrite trim_len_spec by (auto; lia).
  rewrite firstn_firstn. rewrite Nat.min_l by apply complete_prefix_len.
  destruct (complete_prefix_is_prefix rs n) as [tl H].
  set (X := encode (complete_prefix rs n)) in *. rewrite H. apply firstn_app_len. reflexivity.
Qed.

(* whatever the cut, records appended by the next process read back behind the complete ones *)
Lemma append_after_crash_fixed rs n after st :
  Forall record_ok rs -> Forall record_ok after -> (n <= length (encode rs))%nat ->
  read_all_fixed (trimmed_then_appended rs n after st) = LOk (complete_prefix rs n ++ after).
Proof.
  intros Hrs Haf Hn. unfold trimmed_then_appended. rewrite trim_tail_spec by assumption. rewrite <- encode_app.
  pose proof (read_all_g_spec true (complete_prefix rs n ++ after) (length (encode (complete_prefix rs n ++ after))) st) as H.
  unfold torn in H. rewrite firstn_all in H. unfold read_all_fixed. rewrite H.
  - now rewrite complete_prefix_all.
  - apply Forall_app; split; [now apply complete_prefix_ok | assumption].
  - lia.
  - now left.
Qed.
