(* Proofs.ResolveSpec: the executable oracle [frontier_read] used by the C01 driver to judge
   the implementation's answers is itself correct w.r.t. the relational specification, hence
   equal to the proved resolver. *)
From DV Require Import Base.Prelude Model.Dag Model.Resolve Proofs.Resolve.
Local Open Scope N_scope.

Section S.
Variable par : V -> list V.
Variable rank : V -> nat.
Hypothesis rank_par : forall v p, In p (par v) -> (rank p < rank v)%nat.
Variable ent : V -> option entry.

Lemma anc_list_sound f : forall v u, In u (anc_list par f v) -> anc par u v.
Proof.
  induction f as [|f IH]; intros v u; simpl.
  - intros [<-|[]]. apply anc_refl.
  - intros [<-|H]; [apply anc_refl|].
    apply in_flat_map in H. destruct H as (p & Hp & H). eapply anc_up; eauto.
Qed.

Lemma anc_list_complete f : forall v u, (rank v <= f)%nat -> anc par u v -> In u (anc_list par f v).
Proof.
  induction f as [|f IH]; intros v u Hr A.
  - apply (anc_inv par) in A. destruct A as [->|P]; [left; reflexivity|].
    apply (panc_rank par rank rank_par) in P. lia.
  - apply (anc_inv par) in A. destruct A as [->|(p & Hp & A)]; [left; reflexivity|].
    right. apply in_flat_map. exists p. split; [exact Hp|].
    apply IH; [|exact A]. specialize (rank_par _ _ Hp). lia.
Qed.

Variable fuel : nat.
Hypothesis fuel_big : forall x, (rank x <= fuel)%nat.

Lemma ancs_spec v u : In u (ancs par fuel v) <-> anc par u v.
Proof.
  unfold ancs. rewrite nodup_In. split; [apply anc_list_sound|apply anc_list_complete; apply fuel_big].
Qed.

Lemma pancs_spec w u : In u (pancs par fuel w) <-> panc par u w.
Proof.
  unfold pancs, panc. rewrite nodup_In, in_flat_map. split; intros (p & Hp & H); exists p; (split; [exact Hp|]).
  - eapply anc_list_sound; eauto.
  - apply anc_list_complete; [apply fuel_big|exact H].
Qed.

Lemma has_spec u : has ent u = true <-> hasP ent u.
Proof. unfold has, hasP. destruct (ent u); split; congruence. Qed.

Lemma frontier_list_spec v u : In u (frontier_list par ent fuel v) <-> frontier par ent v u.
Proof.
  unfold frontier_list, frontier. rewrite !filter_In, ancs_spec, has_spec, negb_true_iff.
  split.
  - intros ((A & Hu) & N). split; [exact A|]. split; [exact Hu|].
    intros w Aw Hw Pw.
    assert (X : existsb (fun w0 => mem u (pancs par fuel w0)) (filter (has ent) (ancs par fuel v)) = true).
    { apply existsb_exists. exists w. split.
      - apply filter_In. split; [apply ancs_spec; exact Aw|apply has_spec; exact Hw].
      - apply mem_In. apply pancs_spec. exact Pw. }
    congruence.
  - intros (A & Hu & N). split; [split; assumption|].
    destruct (existsb _ _) eqn:X; [|reflexivity]. exfalso.
    apply existsb_exists in X. destruct X as (w & Hw & M).
    apply filter_In in Hw. destruct Hw as [Aw Hw].
    apply (N w); [apply ancs_spec; exact Aw|apply has_spec; exact Hw|apply pancs_spec; apply mem_In; exact M].
Qed.

Theorem frontier_read_correct v : read_spec par ent v (frontier_read par ent fuel v).
Proof.
  unfold frontier_read.
  set (L := filter (fun u => is_val (ent u)) (frontier_list par ent fuel v)).
  assert (LS : forall u, In u L <-> livef par ent v u).
  { intro u. unfold L, livef. rewrite filter_In, frontier_list_spec. tauto. }
  assert (ND : NoDup L).
  { unfold L, frontier_list. repeat apply NoDup_filter. unfold ancs. apply NoDup_nodup. }
  destruct L as [|u [|u2 rest]] eqn:EL; simpl.
  - intros y Hy. apply LS in Hy. exact Hy.
  - assert (Lu : livef par ent v u) by (apply LS; left; reflexivity).
    pose proof Lu as [Fu Vu]. destruct (ent u) as [[x|]|] eqn:Eu; try discriminate.
    split; [exact Lu|]. split; [exact Eu|].
    intros y Hy. apply LS in Hy. destruct Hy as [->|[]]. reflexivity.
  - exists u, u2. split; [|split; apply LS; simpl; auto].
    inversion ND as [|? ? Hn _]; subst. intro X. apply Hn. left. symmetry. exact X.
Qed.

(* the proved resolver and the oracle coincide *)
Theorem read_eq_frontier_read fi f v :
  (forall x, (rank x < fi)%nat) -> (rank v < f)%nat ->
  read par ent fi f v = frontier_read par ent fuel v.
Proof.
  intros Hfi Hf. eapply read_spec_det; [eapply read_correct; eauto|apply frontier_read_correct].
Qed.

End S.
