(* Proofs.IZYX: the IZYXSlice operations of dvid/volumes.go as operations on sets of block
   coordinates (C18, round 4). *)
From DV Require Import Base.Prelude Base.Int Base.WrapZ Model.Geometry Model.RLE Model.IZYX.
From DV Require Import Proofs.Geometry Proofs.RLE.
From Coq Require Import ZifyBool ZifyN ZifyNat Sorting.Sorted Sorting.Permutation.
Local Open Scope Z_scope.

(* ---- the order ---- *)
Lemma zlt_spec p q : zlt p q = true <->
  pz p < pz q \/ (pz p = pz q /\ (py p < py q \/ (py p = py q /\ px p < px q))).
Proof.
  unfold zlt, zyx_cmp.
  destruct (Z.compare_spec (pz p) (pz q)), (Z.compare_spec (py p) (py q)), (Z.compare_spec (px p) (px q));
    split; intro; try discriminate; try reflexivity; lia.
Qed.
Lemma cmp_eq p q : zyx_cmp p q = Eq <-> p = q.
Proof.
  unfold zyx_cmp. destruct p as [[a b] c], q as [[a' b'] c']. unfold px, py, pz; cbn [fst snd].
  destruct (Z.compare_spec c c'), (Z.compare_spec b b'), (Z.compare_spec a a');
    split; intro HH; try discriminate; try reflexivity; try (injection HH as ? ? ?; lia); subst; reflexivity.
Qed.
Lemma cmp_lt p q : zyx_cmp p q = Lt <-> zlt p q = true.
Proof. unfold zlt. destruct (zyx_cmp p q); split; intro; congruence. Qed.
Lemma cmp_gt p q : zyx_cmp p q = Gt <-> zlt q p = true.
Proof.
  rewrite zlt_spec. unfold zyx_cmp.
  destruct (Z.compare_spec (pz p) (pz q)), (Z.compare_spec (py p) (py q)), (Z.compare_spec (px p) (px q));
    split; intro; try discriminate; try reflexivity; lia.
Qed.
Lemma zlt_trans a b c : zlt a b = true -> zlt b c = true -> zlt a c = true.
Proof. rewrite !zlt_spec. lia. Qed.
Lemma zlt_irrefl a : zlt a a = false.
Proof. destruct (zlt a a) eqn:E; [|reflexivity]. apply zlt_spec in E. lia. Qed.
Lemma zlt_asym a b : zlt a b = true -> zlt b a = false.
Proof. intro H. destruct (zlt b a) eqn:E; [|reflexivity]. apply zlt_spec in E, H. lia. Qed.
Lemma zlt_total a b : zlt a b = false -> zlt b a = false -> a = b.
Proof.
  intros H1 H2. apply cmp_eq. destruct (zyx_cmp a b) eqn:E; [reflexivity| |].
  - apply cmp_lt in E. congruence.
  - apply cmp_gt in E. congruence.
Qed.
Lemma pt_eqb_false p q : pt_eqb p q = false <-> p <> q.
Proof.
  split.
  - intros H E. apply pt_eqb_eq in E. congruence.
  - intros H. destruct (pt_eqb p q) eqn:E; [|reflexivity]. apply pt_eqb_eq in E. contradiction.
Qed.

Definition lt_all (x : pt) (l : list pt) : Prop := forall y, In y l -> zlt x y = true.

Lemma lt_all_notin x l : lt_all x l -> ~ In x l.
Proof. intros H Hx. apply H in Hx. rewrite zlt_irrefl in Hx. discriminate. Qed.
Lemma lt_all_trans z x l : zlt z x = true -> lt_all x l -> lt_all z l.
Proof. intros H Hl y Hy. eapply zlt_trans; [exact H|apply Hl, Hy]. Qed.
Lemma lt_all_cons z x l : zlt z x = true -> lt_all x l -> lt_all z (x :: l).
Proof. intros H Hl y [<-|Hy]; [exact H|]. eapply zlt_trans; [exact H|apply Hl, Hy]. Qed.

Lemma ssorted_cons x l : ssorted (x :: l) = true <-> lt_all x l /\ ssorted l = true.
Proof.
  revert x. induction l as [|y t IH]; intro x.
  - cbn. split; [intros _; split; [intros ? []|reflexivity]|reflexivity].
  - change (ssorted (x :: y :: t)) with (zlt x y && ssorted (y :: t)).
    rewrite andb_true_iff. split.
    + intros [Hxy Hs]. split; [|exact Hs]. apply lt_all_cons; [exact Hxy|]. apply IH in Hs. apply Hs.
    + intros [Ha Hs]. split; [apply Ha; left; reflexivity|exact Hs].
Qed.

Lemma ssorted_nodup l : ssorted l = true -> NoDup l.
Proof.
  induction l as [|x t IH]; intro H; [constructor|].
  apply ssorted_cons in H. destruct H as [Ha Hs]. constructor; [apply lt_all_notin, Ha|apply IH, Hs].
Qed.

(* every element of a sorted non-empty list is its last element or below it *)
Lemma last_in {A} (l : list A) d : l <> [] -> In (last l d) l.
Proof.
  induction l as [|a t IH]; [congruence|]. intros _. destruct t as [|b t]; [left; reflexivity|].
  right. change (last (a :: b :: t) d) with (last (b :: t) d). apply IH. discriminate.
Qed.

Lemma le_last l : ssorted l = true -> forall d y, In y l -> y = last l d \/ zlt y (last l d) = true.
Proof.
  induction l as [|x t IH]; intros Hs d y Hy; [contradiction|].
  destruct t as [|x1 t'].
  - destruct Hy as [<-|[]]. left. reflexivity.
  - change (last (x :: x1 :: t') d) with (last (x1 :: t') d).
    apply ssorted_cons in Hs. destruct Hs as [Ha Hs]. destruct Hy as [<-|Hy].
    + right. apply Ha. apply last_in. discriminate.
    + apply IH; assumption.
Qed.

Lemma ssorted_app a b : ssorted a = true -> ssorted b = true ->
  (forall x y, In x a -> In y b -> zlt x y = true) -> ssorted (a ++ b) = true.
Proof.
  induction a as [|x t IH]; intros Ha Hb H; [exact Hb|].
  cbn [app]. apply ssorted_cons in Ha. destruct Ha as [Hx Ht]. apply ssorted_cons. split.
  - intros y Hy. apply in_app_iff in Hy. destruct Hy as [Hy|Hy]; [apply Hx, Hy|apply H; [left; reflexivity|exact Hy]].
  - apply IH; [exact Ht|exact Hb|]. intros u v Hu Hv. apply H; [right; exact Hu|exact Hv].
Qed.

(* all of [a] lies below all of [b] when last a < head b *)
Lemma below_of_last a b d e : ssorted a = true -> ssorted b = true -> b <> [] ->
  zlt (last a d) (hd e b) = true -> forall x y, In x a -> In y b -> zlt x y = true.
Proof.
  intros Ha Hb Hne H x y Hx Hy.
  assert (X : zlt x (hd e b) = true).
  { destruct (le_last a Ha d x Hx) as [->|L]; [exact H|eapply zlt_trans; eassumption]. }
  destruct b as [|y0 b']; [congruence|]. cbn [hd] in *. destruct Hy as [<-|Hy]; [exact X|].
  apply ssorted_cons in Hb. eapply zlt_trans; [exact X|apply Hb, Hy].
Qed.

(* ---- Merge ---- *)
Lemma merge_nil_l b : merge_loop_z [] b = b.
Proof. destruct b; reflexivity. Qed.
Lemma merge_nil_r a : merge_loop_z a [] = a.
Proof. destruct a; reflexivity. Qed.
Lemma merge_cons x a' y b' : merge_loop_z (x :: a') (y :: b') =
  match zyx_cmp x y with
  | Lt => x :: merge_loop_z a' (y :: b')
  | Gt => y :: merge_loop_z (x :: a') b'
  | Eq => x :: merge_loop_z a' b'
  end.
Proof. reflexivity. Qed.

Lemma merge_in p a : forall b, In p (merge_loop_z a b) <-> In p a \/ In p b.
Proof.
  induction a as [|x a' IHa]; intro b.
  - rewrite merge_nil_l. cbn. tauto.
  - induction b as [|y b' IHb].
    + rewrite merge_nil_r. cbn. tauto.
    + rewrite merge_cons. destruct (zyx_cmp x y) eqn:E.
      * apply cmp_eq in E. subst y. cbn [In]. rewrite IHa. tauto.
      * cbn [In]. rewrite IHa. cbn [In]. tauto.
      * cbn [In] in *. rewrite IHb. tauto.
Qed.

Lemma merge_sorted a : forall b, ssorted a = true -> ssorted b = true -> ssorted (merge_loop_z a b) = true.
Proof.
  induction a as [|x a' IHa]; intros b Ha Hb.
  - rewrite merge_nil_l. exact Hb.
  - induction b as [|y b' IHb].
    + rewrite merge_nil_r. exact Ha.
    + pose proof Ha as Ha0. pose proof Hb as Hb0.
      apply ssorted_cons in Ha. destruct Ha as [Hx Ha']. apply ssorted_cons in Hb. destruct Hb as [Hy Hb'].
      rewrite merge_cons. destruct (zyx_cmp x y) eqn:E.
      * apply cmp_eq in E. subst y. apply ssorted_cons. split; [|apply IHa; assumption].
        intros q Hq. apply merge_in in Hq. destruct Hq; [apply Hx|apply Hy]; assumption.
      * apply cmp_lt in E. apply ssorted_cons. split; [|apply IHa; assumption].
        intros q Hq. apply merge_in in Hq. destruct Hq as [Hq|Hq]; [apply Hx, Hq|].
        apply (lt_all_cons x y b' E); [|exact Hq]. exact Hy.
      * apply cmp_gt in E. apply ssorted_cons. split; [|apply IHb; assumption].
        intros q Hq. apply merge_in in Hq. destruct Hq as [Hq|Hq]; [|apply Hy, Hq].
        apply (lt_all_cons y x a' E); [|exact Hq]. exact Hx.
Qed.

Lemma imerge_ok a b : ssorted a = true -> ssorted b = true ->
  ssorted (imerge a b) = true /\ forall p, In p (imerge a b) <-> In p a \/ In p b.
Proof.
  intros Ha Hb. unfold imerge. destruct b as [|y0 b'].
  - destruct a as [|x0 a']; (split; [assumption|]); intro p; cbn; tauto.
  - destruct a as [|x0 a']; [split; [assumption|intro p; cbn; tauto]|].
    destruct (zlt (last (x0 :: a') x0) y0) eqn:E1; [|destruct (zlt (last (y0 :: b') y0) x0) eqn:E2].
    + split; [|intro p; apply in_app_iff].
      apply ssorted_app; try assumption.
      apply (below_of_last (x0 :: a') (y0 :: b') x0 y0); try assumption; discriminate.
    + split; [|intro p; rewrite in_app_iff; tauto].
      apply ssorted_app; try assumption.
      apply (below_of_last (y0 :: b') (x0 :: a') y0 x0); try assumption; discriminate.
    + split; [apply merge_sorted; assumption|intro p; apply merge_in].
Qed.

(* ---- Delete ---- *)
Lemma delete_nil_l b : delete_loop [] b = [].
Proof. destruct b; reflexivity. Qed.
Lemma delete_nil_r a : delete_loop a [] = a.
Proof. destruct a; reflexivity. Qed.
Lemma delete_cons x a' y b' : delete_loop (x :: a') (y :: b') =
  if pt_eqb x y then delete_loop a' b'
  else if zlt y x then delete_loop (x :: a') b'
  else x :: delete_loop a' (y :: b').
Proof. reflexivity. Qed.

Lemma delete_in p a : forall b, ssorted a = true -> ssorted b = true ->
  (In p (delete_loop a b) <-> In p a /\ ~ In p b).
Proof.
  induction a as [|x a' IHa]; intros b Ha Hb.
  - rewrite delete_nil_l. cbn. tauto.
  - induction b as [|y b' IHb].
    + rewrite delete_nil_r. cbn. tauto.
    + pose proof Ha as Ha0. pose proof Hb as Hb0.
      apply ssorted_cons in Ha. destruct Ha as [Hx Ha']. apply ssorted_cons in Hb. destruct Hb as [Hy Hb'].
      rewrite delete_cons. destruct (pt_eqb x y) eqn:E; [|destruct (zlt y x) eqn:E2].
      * apply pt_eqb_eq in E. subst y. rewrite IHa by assumption. cbn [In]. split.
        { intros [H1 H2]. split; [right; exact H1|]. intros [<-|H]; [|contradiction].
          exact (lt_all_notin _ _ Hx H1). }
        { intros [[<-|H1] H2]; [exfalso; apply H2; left; reflexivity|]. split; [exact H1|]. intro H. apply H2. right. exact H. }
      * rewrite IHb by assumption. split.
        { intros [H1 H2]. split; [exact H1|]. intros [<-|H]; [|contradiction].
          destruct H1 as [<-|H1]; [rewrite zlt_irrefl in E2; discriminate|].
          apply Hx in H1. rewrite (zlt_asym _ _ E2) in H1. discriminate. }
        { intros [H1 H2]. split; [exact H1|]. intro H. apply H2. right. exact H. }
      * assert (Lxy : zlt x y = true).
        { destruct (zlt x y) eqn:E3; [reflexivity|]. apply pt_eqb_false in E. exfalso. apply E. apply zlt_total; assumption. }
        cbn [In]. rewrite IHa by assumption. cbn [In]. split.
        { intros [<-|[H1 H2]]; [|split; [right; exact H1|exact H2]].
          split; [left; reflexivity|]. intros [->|H]; [rewrite zlt_irrefl in Lxy; discriminate|].
          apply Hy in H. rewrite (zlt_asym _ _ Lxy) in E2. 
          pose proof (zlt_trans _ _ _ Lxy H) as C. rewrite zlt_irrefl in C. discriminate. }
        { intros [[<-|H1] H2]; [left; reflexivity|right; split; assumption]. }
Qed.

Lemma delete_sorted a : forall b, ssorted a = true -> ssorted b = true -> ssorted (delete_loop a b) = true.
Proof.
  induction a as [|x a' IHa]; intros b Ha Hb.
  - rewrite delete_nil_l. reflexivity.
  - induction b as [|y b' IHb].
    + rewrite delete_nil_r. exact Ha.
    + pose proof Ha as Ha0. pose proof Hb as Hb0.
      apply ssorted_cons in Ha. destruct Ha as [Hx Ha']. apply ssorted_cons in Hb. destruct Hb as [Hy Hb'].
      rewrite delete_cons. destruct (pt_eqb x y); [apply IHa; assumption|].
      destruct (zlt y x); [apply IHb; assumption|].
      apply ssorted_cons. split; [|apply IHa; assumption].
      intros q Hq. apply delete_in in Hq; try assumption. apply Hx, Hq.
Qed.

Lemma idelete_ok a b : ssorted a = true -> ssorted b = true ->
  ssorted (idelete a b) = true /\ forall p, In p (idelete a b) <-> In p a /\ ~ In p b.
Proof.
  intros Ha Hb. unfold idelete. destruct a as [|x0 a'].
  - split; [reflexivity|]. intro p. cbn. tauto.
  - destruct b as [|y0 b']; [split; [assumption|intro p; cbn; tauto]|].
    destruct (zlt (last (y0 :: b') y0) x0) eqn:E1; [|destruct (zlt (last (x0 :: a') x0) y0) eqn:E2].
    + cbn [orb]. split; [assumption|]. intro p. split; [|tauto]. intro H. split; [exact H|]. intro Hq.
      pose proof (below_of_last (y0 :: b') (x0 :: a') y0 x0 Hb Ha ltac:(discriminate) E1 p p Hq H) as C.
      rewrite zlt_irrefl in C. discriminate.
    + cbn [orb]. split; [assumption|]. intro p. split; [|tauto]. intro H. split; [exact H|]. intro Hq.
      pose proof (below_of_last (x0 :: a') (y0 :: b') x0 y0 Ha Hb ltac:(discriminate) E2 p p H Hq) as C.
      rewrite zlt_irrefl in C. discriminate.
    + cbn [orb]. split; [apply delete_sorted; assumption|intro p; apply delete_in; assumption].
Qed.

(* ---- Split ---- *)
Lemma ssorted_suffix a b : ssorted (a ++ b) = true -> ssorted b = true.
Proof.
  induction a as [|x t IH]; intro H; [exact H|]. cbn [app] in H. apply ssorted_cons in H. apply IH, H.
Qed.

Lemma adv_spec x rest : forall rz, ssorted (rz :: rest) = true ->
  exists dropped, rz :: rest = dropped ++ fst (adv rz rest x) :: snd (adv rz rest x)
    /\ (forall d, In d dropped -> zlt d x = true)
    /\ (zlt (fst (adv rz rest x)) x = false \/ snd (adv rz rest x) = []).
Proof.
  induction rest as [|r t IH]; intros rz Hs.
  - exists []. cbn. split; [reflexivity|]. split; [intros ? []|right; reflexivity].
  - cbn [adv]. destruct (zlt rz x) eqn:E.
    + apply ssorted_cons in Hs. destruct Hs as [_ Hs]. destruct (IH r Hs) as [dr [Heq [Hd Hc]]].
      exists (rz :: dr). split; [cbn [app]; f_equal; exact Heq|]. split; [|exact Hc].
      intros d [<-|Hin]; [exact E|apply Hd, Hin].
    + exists []. cbn [app fst snd]. split; [reflexivity|]. split; [intros ? []|left; exact E].
Qed.

Lemma split_loop_in p a : forall rz rest, ssorted a = true -> ssorted (rz :: rest) = true ->
  (In p (split_loop_z a rz rest) <-> In p a /\ ~ In p (rz :: rest)).
Proof.
  induction a as [|x a' IH]; intros rz rest Ha Hr.
  - cbn. tauto.
  - cbn [split_loop_z]. cbv zeta.
    destruct (adv_spec x rest rz Hr) as [dr [Heq [Hd Hc]]].
    set (st := adv rz rest x) in *.
    assert (Hs : ssorted (fst st :: snd st) = true) by (rewrite Heq in Hr; exact (ssorted_suffix _ _ Hr)).
    apply ssorted_cons in Ha. destruct Ha as [Hx Ha'].
    specialize (IH (fst st) (snd st) Ha' Hs).
    assert (InR : In p (rz :: rest) <-> In p dr \/ In p (fst st :: snd st)) by (rewrite Heq; apply in_app_iff).
    assert (ND : In p a' -> ~ In p dr).
    { intros H1 H2. apply Hd in H2. apply Hx in H1. rewrite (zlt_asym _ _ H1) in H2. discriminate. }
    destruct (pt_eqb x (fst st)) eqn:E.
    + apply pt_eqb_eq in E. rewrite IH, InR. cbn [In]. split.
      * intros [H1 H2]. split; [right; exact H1|]. intros [H|H]; [exact (ND H1 H)|exact (H2 H)].
      * intros [[<-|H1] H2]; [exfalso; apply H2; right; left; symmetry; exact E|].
        split; [exact H1|]. intro H. apply H2. right. exact H.
    + apply pt_eqb_false in E. cbn [In]. rewrite IH, InR. split.
      * intros [<-|[H1 H2]].
        { split; [left; reflexivity|]. intros [H|[H|H]].
          - apply Hd in H. rewrite zlt_irrefl in H. discriminate.
          - apply E. symmetry. exact H.
          - destruct Hc as [Hc|Hc]; [|rewrite Hc in H; exact H].
            apply ssorted_cons in Hs. destruct Hs as [Hf _]. apply Hf in H.
            destruct (zlt x (fst st)) eqn:E3.
            + pose proof (zlt_trans _ _ _ E3 H) as C. rewrite zlt_irrefl in C. discriminate.
            + apply E. apply zlt_total; assumption. }
        { split; [right; exact H1|]. intros [H|H]; [exact (ND H1 H)|exact (H2 H)]. }
      * intros [[<-|H1] H2]; [left; reflexivity|]. right. split; [exact H1|]. intro H. apply H2. right. exact H.
Qed.

Lemma split_loop_sorted a : forall rz rest, ssorted a = true -> ssorted (rz :: rest) = true ->
  ssorted (split_loop_z a rz rest) = true.
Proof.
  induction a as [|x a' IH]; intros rz rest Ha Hr; [reflexivity|].
  cbn [split_loop_z]. cbv zeta.
  destruct (adv_spec x rest rz Hr) as [dr [Heq [Hd Hc]]].
  set (st := adv rz rest x) in *.
  assert (Hs : ssorted (fst st :: snd st) = true) by (rewrite Heq in Hr; exact (ssorted_suffix _ _ Hr)).
  pose proof Ha as Ha0. apply ssorted_cons in Ha. destruct Ha as [Hx Ha'].
  destruct (pt_eqb x (fst st)); [apply IH; assumption|].
  apply ssorted_cons. split; [|apply IH; assumption].
  intros q Hq. apply split_loop_in in Hq; try assumption. apply Hx, Hq.
Qed.

Lemma isplit_ok a rm : ssorted a = true -> ssorted rm = true ->
  ssorted (isplit a rm) = true /\ forall p, In p (isplit a rm) <-> In p a /\ ~ In p rm.
Proof.
  intros Ha Hr. unfold isplit. destruct a as [|x0 a'].
  - split; [reflexivity|]. intro p. cbn. tauto.
  - destruct rm as [|r0 rm']; [split; [assumption|intro p; cbn; tauto]|].
    split; [apply split_loop_sorted; assumption|intro p; apply split_loop_in; assumption].
Qed.

(* ---- GetBounds ---- *)
Definition mm (acc : Z * Z) (c : Z) : Z * Z :=
  (if c <? fst acc then c else fst acc, if snd acc <? c then c else snd acc).

Lemma bounds_fold_axes l : forall acc,
  let r := fold_left bounds_step l acc in
  (px (fst r), px (snd r)) = fold_left mm (map px l) (px (fst acc), px (snd acc))
  /\ (py (fst r), py (snd r)) = fold_left mm (map py l) (py (fst acc), py (snd acc))
  /\ (pz (fst r), pz (snd r)) = fold_left mm (map pz l) (pz (fst acc), pz (snd acc)).
Proof.
  induction l as [|p t IH]; intro acc; cbv zeta; [cbn; auto|].
  cbn [fold_left map]. specialize (IH (bounds_step acc p)). cbv zeta in IH.
  destruct IH as [I1 [I2 I3]]. rewrite I1, I2, I3. unfold bounds_step, mm, px, py, pz; cbn [fst snd]. auto.
Qed.

Lemma mm_fold cs : forall lo hi,
  let r := fold_left mm cs (lo, hi) in
  fst r <= lo /\ hi <= snd r /\ (forall c, In c cs -> fst r <= c <= snd r)
  /\ (fst r = lo \/ In (fst r) cs) /\ (snd r = hi \/ In (snd r) cs).
Proof.
  induction cs as [|c t IH]; intros lo hi; cbv zeta.
  - cbn. repeat split; try lia; try (left; reflexivity); try (intros; contradiction).
  - cbn [fold_left]. change (mm (lo, hi) c) with (if c <? lo then c else lo, if hi <? c then c else hi).
    specialize (IH (if c <? lo then c else lo) (if hi <? c then c else hi)). cbv zeta in IH.
    destruct IH as [A [B [C [D E]]]].
    destruct (Z.ltb_spec c lo), (Z.ltb_spec hi c); (split; [lia|]); (split; [lia|]);
      (split; [intros c' [<-|Hc]; [lia|apply C, Hc]|]); cbn [In]; (split;
      [destruct D as [D|D]; [first [left; lia|right; left; lia]|right; right; exact D]
      |destruct E as [E|E]; [first [left; lia|right; left; lia]|right; right; exact E]]).
Qed.

Definition axis_bbox (f : pt -> Z) (l : list pt) (mn mx : pt) : Prop :=
  (forall p, In p l -> f mn <= f p <= f mx) /\ (exists p, In p l /\ f p = f mn) /\ (exists p, In p l /\ f p = f mx).
Definition is_bbox (l : list pt) (mn mx : pt) : Prop :=
  axis_bbox px l mn mx /\ axis_bbox py l mn mx /\ axis_bbox pz l mn mx.
Definition coords_in (lo hi : Z) (p : pt) : Prop :=
  lo <= px p <= hi /\ lo <= py p <= hi /\ lo <= pz p <= hi.

Lemma axis_from_fold (f : pt -> Z) l mn mx lo :
  l <> [] -> (forall p, In p l -> lo <= f p <= 2147483647) ->
  (f mn, f mx) = fold_left mm (map f l) (2147483647, lo) -> axis_bbox f l mn mx.
Proof.
  intros Hne Hr Hf. pose proof (mm_fold (map f l) 2147483647 lo) as M. cbv zeta in M. rewrite <- Hf in M.
  cbn [fst snd] in M. destruct M as [A [B [C [D E]]]].
  assert (C' : forall p, In p l -> f mn <= f p <= f mx) by (intros p Hp; apply C, in_map, Hp).
  destruct l as [|p0 t]; [congruence|].
  split; [exact C'|]. split.
  - destruct D as [D|D].
    + exists p0. split; [left; reflexivity|]. specialize (C' p0 (or_introl eq_refl)). specialize (Hr p0 (or_introl eq_refl)). lia.
    + apply in_map_iff in D. destruct D as [q [Hq Hin]]. exists q. split; assumption.
  - destruct E as [E|E].
    + exists p0. split; [left; reflexivity|]. specialize (C' p0 (or_introl eq_refl)). specialize (Hr p0 (or_introl eq_refl)). lia.
    + apply in_map_iff in E. destruct E as [q [Hq Hin]]. exists q. split; assumption.
Qed.

Lemma get_bounds_from_ok lo l : l <> [] -> Forall (coords_in lo 2147483647) l ->
  is_bbox l (fst (get_bounds_from lo l)) (snd (get_bounds_from lo l)).
Proof.
  intros Hne Hl. unfold get_bounds_from. destruct l as [|p0 t] eqn:El; [congruence|]. rewrite <- El in *.
  pose proof (bounds_fold_axes l ((2147483647, 2147483647, 2147483647), (lo, lo, lo))) as F. cbv zeta in F.
  destruct F as [F1 [F2 F3]]. rewrite Forall_forall in Hl.
  split; [|split]; (apply (axis_from_fold _ l _ _ lo); [exact Hne| |assumption]); intros p Hp; apply Hl in Hp; unfold coords_in in Hp; lia.
Qed.

Lemma get_bounds_ok l : l <> [] -> Forall (coords_in (-2147483646) 2147483647) l ->
  is_bbox l (fst (get_bounds l)) (snd (get_bounds l)).
Proof. apply get_bounds_from_ok. Qed.
Lemma get_bounds_fixed_ok l : l <> [] -> Forall pt_is32 l ->
  is_bbox l (fst (get_bounds_fixed l)) (snd (get_bounds_fixed l)).
Proof.
  intros Hne Hl. apply get_bounds_from_ok; [exact Hne|]. eapply Forall_impl; [|exact Hl].
  intros p [A [B C]]. unfold is32 in *. change (2 ^ 31) with 2147483648 in *. unfold coords_in. lia.
Qed.
Lemma get_bounds_min_refuted :
  exists l, l <> [] /\ Forall pt_is32 l /\ ~ is_bbox l (fst (get_bounds l)) (snd (get_bounds l))
            /\ get_bounds l = ((-2147483647, 0, 0), (-2147483646, 0, 0)).
Proof.
  exists [(-2147483647, 0, 0)]. split; [discriminate|]. split.
  - constructor; [|constructor]. unfold pt_is32, is32, px, py, pz; cbn. lia.
  - split; [|vm_compute; reflexivity]. intros [[_ [_ [p [Hp E]]]] _]. destruct Hp as [<-|[]]. vm_compute in E. discriminate.
Qed.

(* ---- FitToBounds on block coordinates ---- *)
Lemma sorted_z_le p t : ssorted (p :: t) = true -> forall q, In q t -> pz p <= pz q.
Proof. intros H q Hq. apply ssorted_cons in H. destruct H as [H _]. apply H in Hq. apply zlt_spec in Hq. lia. Qed.

Lemma ifit_loop_in b q l : ssorted l = true -> (In q (ifit_loop l b) <-> In q l /\ inside b q = true).
Proof.
  induction l as [|p t IH]; intro Hs; [cbn; tauto|].
  pose proof (sorted_z_le p t Hs) as Hz. apply ssorted_cons in Hs. destruct Hs as [_ Hs]. specialize (IH Hs).
  cbn [ifit_loop In].
  assert (Out : inside b p = false -> (In q t /\ inside b q = true <-> (p = q \/ In q t) /\ inside b q = true)).
  { intro Hf. split; [intros [H1 H2]; split; [right; exact H1|exact H2]|].
    intros [[<-|H1] H2]; [congruence|split; assumption]. }
  destruct (ltb_opt (pz p) (minz b)) eqn:E1.
  { rewrite IH. apply Out. unfold inside. rewrite E1. cbn. rewrite !andb_false_r. reflexivity. }
  destruct (gtb_opt (pz p) (maxz b)) eqn:E2.
  { cbn [In]. split; [contradiction|]. intros [[<-|H1] H2].
    - unfold inside in H2. rewrite E2 in H2. cbn in H2. rewrite !andb_false_r in H2. discriminate.
    - apply Hz in H1. unfold inside in H2. unfold gtb_opt in *. destruct (maxz b) as [v|]; [|discriminate].
      assert (v <? pz q = true) by lia. rewrite H in H2. cbn in H2. rewrite !andb_false_r in H2. discriminate. }
  destruct (ltb_opt (py p) (miny b)) eqn:E3.
  { cbn [orb]. rewrite IH. apply Out. unfold inside. rewrite E3. cbn. rewrite !andb_false_r. reflexivity. }
  destruct (gtb_opt (py p) (maxy b)) eqn:E4.
  { cbn [orb]. rewrite IH. apply Out. unfold inside. rewrite E4. cbn. rewrite !andb_false_r. reflexivity. }
  destruct (ltb_opt (px p) (minx b)) eqn:E5.
  { cbn [orb]. rewrite IH. apply Out. unfold inside. rewrite E5. cbn. reflexivity. }
  destruct (gtb_opt (px p) (maxx b)) eqn:E6.
  { cbn [orb]. rewrite IH. apply Out. unfold inside. rewrite E6. cbn. rewrite !andb_false_r. reflexivity. }
  cbn [orb In]. rewrite IH.
  assert (Hin : inside b p = true) by (unfold inside; rewrite E1, E2, E3, E4, E5, E6; reflexivity).
  split.
  - intros [<-|[H1 H2]]; [split; [left; reflexivity|exact Hin]|split; [right; exact H1|exact H2]].
  - intros [[<-|H1] H2]; [left; reflexivity|right; split; assumption].
Qed.

Lemma ifit_loop_sorted b l : ssorted l = true -> ssorted (ifit_loop l b) = true.
Proof.
  induction l as [|p t IH]; intro Hs; [reflexivity|].
  pose proof Hs as Hs0. apply ssorted_cons in Hs. destruct Hs as [Hp Hs].
  cbn [ifit_loop]. destruct (ltb_opt (pz p) (minz b)); [apply IH, Hs|].
  destruct (gtb_opt (pz p) (maxz b)); [reflexivity|].
  destruct (_ || _); [apply IH, Hs|]. apply ssorted_cons. split; [|apply IH, Hs].
  intros q Hq. apply ifit_loop_in in Hq; [|exact Hs]. apply Hp, Hq.
Qed.

Lemma ifit_ok l b : ssorted l = true ->
  ssorted (ifit l b) = true /\ forall q, In q (ifit l b) <-> In q l /\ inside_opt b q = true.
Proof.
  intro Hs. destruct b as [ob|]; cbn [ifit inside_opt].
  - split; [apply ifit_loop_sorted, Hs|intro q; apply ifit_loop_in, Hs].
  - split; [exact Hs|intro q; tauto].
Qed.

(* ---- Downres ---- *)
Lemma pt_insert_in q p l : In q (pt_insert p l) <-> q = p \/ In q l.
Proof.
  induction l as [|h t IH]; [cbn; intuition congruence|].
  cbn [pt_insert]. destruct (zyx_cmp p h) eqn:E.
  - apply cmp_eq in E. subst h. cbn [In]. intuition congruence.
  - cbn [In]. intuition congruence.
  - cbn [In]. rewrite IH. tauto.
Qed.

Lemma pt_insert_sorted p l : ssorted l = true -> ssorted (pt_insert p l) = true.
Proof.
  induction l as [|h t IH]; intro Hs; [reflexivity|].
  cbn [pt_insert]. destruct (zyx_cmp p h) eqn:E; [exact Hs| |].
  - apply cmp_lt in E. apply ssorted_cons. split; [|exact Hs].
    apply ssorted_cons in Hs. apply lt_all_cons; [exact E|apply Hs].
  - apply cmp_gt in E. apply ssorted_cons in Hs. destruct Hs as [Hh Ht]. apply ssorted_cons. split; [|apply IH, Ht].
    intros q Hq. apply pt_insert_in in Hq. destruct Hq as [->|Hq]; [exact E|apply Hh, Hq].
Qed.

Lemma sort_dedup_ok l : ssorted (sort_dedup l) = true /\ forall q, In q (sort_dedup l) <-> In q l.
Proof.
  induction l as [|p t [IH1 IH2]]; [split; [reflexivity|intro q; tauto]|].
  unfold sort_dedup in *. cbn [fold_right]. split; [apply pt_insert_sorted, IH1|].
  intro q. rewrite pt_insert_in, IH2. cbn [In]. intuition congruence.
Qed.

Lemma parent_floor s p : 0 <= s -> parent s p = (px p / 2 ^ s, py p / 2 ^ s, pz p / 2 ^ s).
Proof. intro Hs. unfold parent. rewrite !Z.shiftr_div_pow2 by exact Hs. reflexivity. Qed.

Lemma downres_ok l s : 0 <= s ->
  (s <> 0 -> ssorted (downres l s) = true)
  /\ (s = 0 -> downres l s = l)
  /\ forall q, In q (downres l s) <-> exists p, In p l /\ q = (px p / 2 ^ s, py p / 2 ^ s, pz p / 2 ^ s).
Proof.
  intro Hs. unfold downres. destruct (s =? 0) eqn:E.
  - assert (s = 0) by lia. subst s. split; [congruence|]. split; [reflexivity|].
    intro q. split.
    + intro H. exists q. split; [exact H|]. change (2 ^ 0) with 1. rewrite !Z.div_1_r.
      destruct q as [[a b] c]. reflexivity.
    + intros [p [Hp ->]]. change (2 ^ 0) with 1. rewrite !Z.div_1_r. destruct p as [[a b] c]. exact Hp.
  - destruct (sort_dedup_ok (map (parent s) l)) as [S1 S2].
    split; [intros _; exact S1|]. split; [lia|].
    intro q. rewrite S2, in_map_iff. split.
    + intros [p [<- Hp]]. exists p. split; [exact Hp|apply parent_floor, Hs].
    + intros [p [Hp ->]]. exists p. split; [apply parent_floor, Hs|exact Hp].
Qed.

(* ---- the order and equality of the model are those of the 12-byte keys ---- *)
Lemma key_order p q bp bq : pt_is32 p -> pt_is32 q -> to_zyx p = Ok bp -> to_zyx q = Ok bq ->
  (zlt p q = true <-> bytes_cmp bp bq = Lt) /\ (p = q <-> bp = bq).
Proof.
  intros Hp Hq Ep Eq. pose proof (zyx_order_l p q bp bq Hp Hq Ep Eq) as O. split.
  - unfold zlt. rewrite <- O. destruct (bytes_cmp bp bq); split; congruence.
  - split.
    + intros ->. rewrite Ep in Eq. apply Ok_inj in Eq. exact Eq.
    + intros ->. destruct (zyx_roundtrip_l p Hp) as [b1 [E1 [_ [_ F1]]]].
      destruct (zyx_roundtrip_l q Hq) as [b2 [E2 [_ [_ F2]]]].
      rewrite Ep in E1. rewrite Eq in E2. apply Ok_inj in E1, E2. subst b1 b2.
      rewrite F1 in F2. apply Ok_inj in F2. exact F2.
Qed.

Lemma merge_copy_ok a b : ssorted a = true -> ssorted b = true ->
  ssorted (merge_copy a b) = true /\ forall p, In p (merge_copy a b) <-> In p a \/ In p b.
Proof. intros Ha Hb. split; [apply merge_sorted; assumption|intro p; apply merge_in]. Qed.
