(* Proofs.BlockViews: the run-length view computed on the compressed block (repaired
   writeRLEs) equals the view of the decoded array; the code as found fails on a block at a
   negative coordinate. *)
From DV Require Import Base.Prelude Base.Int Base.BitPack Model.Block Model.BlockViews
     Proofs.BitPack Proofs.Block Gen.Consts.
From Coq Require Import ZifyN ZifyNat ZifyBool.
Ltac Zify.zify_post_hook ::= Z.div_mod_to_equations.
Local Open Scope N_scope.

Lemma mem_In x l : mem x l = true <-> In x l.
Proof.
  unfold mem. rewrite existsb_exists. split.
  - intros [y [Hy E]]. apply N.eqb_eq in E. now subst.
  - intro H. exists x. split; [exact H | apply N.eqb_refl].
Qed.

Lemma combine_nth_seq (labels : list N) : forall s i ix l,
  nth_error (combine (map N.of_nat (seq s (length labels))) labels) i = Some (ix, l) ->
  ix = N.of_nat (s + i) /\ nth_error labels i = Some l.
Proof.
  induction labels as [|a labels IH]; intros s i ix l H; [destruct i; discriminate|].
  cbn [length seq map combine] in H. destruct i as [|i].
  - simpl in H. inversion H; subst. split; [f_equal; lia | reflexivity].
  - simpl in H. apply IH in H as [H1 H2]. split; [rewrite H1; f_equal; lia | exact H2].
Qed.

Lemma combine_seq_nth (labels : list N) : forall s i l,
  nth_error labels i = Some l ->
  nth_error (combine (map N.of_nat (seq s (length labels))) labels) i = Some (N.of_nat (s + i), l).
Proof.
  induction labels as [|a ls IH]; intros s i l0 Hi; [destruct i; discriminate|].
  cbn [length seq map combine]. destruct i; simpl in *.
  - inversion Hi; subst. do 2 f_equal. lia.
  - rewrite (IH (S s) i l0 Hi). do 2 f_equal. lia.
Qed.

(* a table slot is collected iff its label is in the set *)
Lemma label_indices_spec labels lbls ix l :
  nth_N labels ix = Some l -> mem ix (label_indices labels lbls) = mem l lbls.
Proof.
  intro H. unfold label_indices. rewrite nseq_eq, Nat2N.id.
  apply eq_true_iff_eq. rewrite !mem_In, in_map_iff. split.
  - intros [[ix' l'] [E Hin]]. simpl in E. subst ix'. apply filter_In in Hin as [Hin Hm].
    simpl in Hm. apply In_nth_error in Hin as [i Hi].
    apply combine_nth_seq in Hi as [E1 E2]. simpl in E1.
    unfold nth_N in H. rewrite E1, Nat2N.id in H. rewrite E2 in H. inversion H; subst.
    now apply mem_In.
  - intro Hl. exists (ix, l). split; [reflexivity|]. apply filter_In. split; [|now apply mem_In].
    unfold nth_N in H.
    pose proof (combine_seq_nth labels 0%nat (N.to_nat ix) l H) as E.
    simpl in E. rewrite N2Nat.id in E.
    eapply nth_error_In; eauto.
Qed.

(* ---------------- rows_runs ---------------- *)

Lemma rows_runs_ext nx ny nz ox oy oz f g :
  (forall x y z, x < nx -> y < ny -> z < nz -> f x y z = g x y z) ->
  rows_runs nx ny nz ox oy oz f = rows_runs nx ny nz ox oy oz g.
Proof.
  intro H. unfold rows_runs.
  assert (E : mapR (fun z => mapR (fun y =>
          match mapR (fun x => f x y z) (nseq nx) with
          | Ok row => Ok (map (fun r => ((ox + Z.of_N (fst r))%Z, (oy + Z.of_N y)%Z, (oz + Z.of_N z)%Z, snd r)) (runs row))
          | Err => Err | Panic => Panic end) (nseq ny)) (nseq nz)
        = mapR (fun z => mapR (fun y =>
          match mapR (fun x => g x y z) (nseq nx) with
          | Ok row => Ok (map (fun r => ((ox + Z.of_N (fst r))%Z, (oy + Z.of_N y)%Z, (oz + Z.of_N z)%Z, snd r)) (runs row))
          | Err => Err | Panic => Panic end) (nseq ny)) (nseq nz)).
  { apply mapR_ext_in. intros z Hz. apply In_nseq in Hz.
    apply mapR_ext_in. intros y Hy. apply In_nseq in Hy.
    rewrite (mapR_ext_in (fun x => f x y z) (fun x => g x y z)); [reflexivity|].
    intros x Hx. apply In_nseq in Hx. now apply H. }
  now rewrite E.
Qed.

Lemma mapR_pure {A B} (h : A -> B) l : mapR (fun a => Ok (h a)) l = Ok (map h l).
Proof. induction l as [|a l IH]; simpl; [reflexivity|]. now rewrite IH. Qed.

Lemma runs_from_false l : forall x, Forall (fun b => b = false) l -> runs_from l x None = [].
Proof.
  induction l as [|b l IH]; intros x H; [reflexivity|].
  inversion H; subst. simpl. now apply IH.
Qed.

Lemma concat_nils {A} (l : list (list A)) : Forall (fun x => x = []) l -> concat l = [].
Proof. induction 1 as [|x l Hx _ IH]; simpl; [reflexivity|]. now rewrite Hx, IH. Qed.

Lemma rows_runs_false nx ny nz ox oy oz f :
  (forall x y z, x < nx -> y < ny -> z < nz -> f x y z = Ok false) ->
  rows_runs nx ny nz ox oy oz f = Ok [].
Proof.
  intro H. rewrite (rows_runs_ext _ _ _ _ _ _ f (fun _ _ _ => Ok false)) by exact H.
  unfold rows_runs.
  assert (R : forall y z, match mapR (fun _ : N => Ok false) (nseq nx) with
          | Ok row => Ok (map (fun r => ((ox + Z.of_N (fst r))%Z, (oy + Z.of_N y)%Z, (oz + Z.of_N z)%Z, snd r)) (runs row))
          | Err => Err | Panic => Panic end = Ok (@nil run)).
  { intros y z. rewrite (mapR_pure (fun _ => false)). unfold runs.
    rewrite runs_from_false; [reflexivity|]. apply Forall_forall. intros b Hb.
    apply in_map_iff in Hb as [? [E _]]. now symmetry. }
  rewrite (mapR_ext_in _ (fun z => Ok (map (fun _ => @nil run) (nseq ny)))).
  2:{ intros z _. rewrite (mapR_ext_in _ (fun y => Ok (@nil run))); [apply mapR_pure|].
      intros y _. apply R. }
  rewrite mapR_pure. f_equal. apply concat_nils. apply Forall_forall. intros l Hl.
  apply in_concat in Hl as [ll [H1 H2]]. apply in_map_iff in H1 as [z [E _]]. subst ll.
  apply in_map_iff in H2 as [y [E _]]. now symmetry.
Qed.

(* ---------------- foreground flag of one voxel ---------------- *)

Lemma fg_at_sem b voxs lbls offy offz x y z vox v :
  (2 <= length (b_labels b))%nat ->
  Sem (b_labels b) (b_nsb b) (b_idx b) (b_vals b) voxs ->
  8 * N.of_nat (length (b_vals b)) < 2 ^ 32 ->
  x < 8 * b_gx b -> y < 8 * b_gy b -> z < 8 * b_gz b ->
  nth_N voxs (sb_of (b_gx b) (b_gy b) x y z) = Some vox -> nth_N vox (loc_of x y z) = Some v ->
  fg_at true b (label_indices (b_labels b) lbls) offy offz x y z = Ok (mem v lbls).
Proof.
  intros HL S Hbits Hx Hy Hz Hvox Hv.
  set (sbNum := sb_of (b_gx b) (b_gy b) x y z) in *.
  unfold nth_N in Hvox.
  destruct (Sem_split _ _ _ _ _ S (N.to_nat sbNum) vox 0 0 Hvox)
    as [pre_i [ixs [post_i [pre_v [vs [post_v [E1 [E2 [Ssb [Hn P]]]]]]]]]].
  rewrite !N.add_0_l in P.
  destruct Ssb as [Hn1 [_ [_ [Hvs Hf]]]].
  destruct (Hf (N.to_nat (loc_of x y z)) v Hv) as [f [ix [F1 [F2 F3]]]].
  rewrite N2Nat.id in F1.
  set (n := N.of_nat (length ixs)) in *. set (k := bits_for n) in *.
  assert (Hidx : nth_N (b_idx b) (N.of_nat (length pre_i) + f) = Some ix).
  { rewrite E1, nth_N_app_r. now apply nth_N_app_Some. }
  assert (Hfn : f < n) by (apply nth_N_Some_lt in F2; unfold n; lia).
  unfold fg_at. fold sbNum. unfold nth_N at 1. rewrite Hn, P. fold n. fold k.
  replace (n =? 0) with false by (symmetry; apply N.eqb_neq; lia).
  destruct (n =? 1) eqn:N1.
  - apply N.eqb_eq in N1. assert (f = 0) by lia. subst f. rewrite N.add_0_r in Hidx.
    rewrite Hidx. f_equal. now apply label_indices_spec.
  - apply N.eqb_neq in N1.
    assert (Hk : 1 <= k <= 9) by (apply bits_for_range; lia).
    unfold field in F1. replace (k =? 0) with false in F1 by (symmetry; apply N.eqb_neq; lia).
    destruct (loc_of_spec x y z) as [_ [_ [_ L4]]].
    assert (Lv : N.of_nat (length (b_vals b)) = N.of_nat (length pre_v) + 64 * k + N.of_nat (length post_v))
      by (rewrite E2, !app_length; lia).
    assert (Epos : (8 * N.of_nat (length pre_v)
                    + Z.to_N ((Z.of_N (z mod 8) * 64 + Z.of_N (y mod 8) * 8) mod 2 ^ 32)%Z * k
                    + x mod 8 * k) mod 2 ^ 32 = 8 * N.of_nat (length pre_v) + loc_of x y z * k).
    { unfold loc_of in *.
      replace (Z.to_N ((Z.of_N (z mod 8) * 64 + Z.of_N (y mod 8) * 8) mod 2 ^ 32)%Z)
        with (z mod 8 * 64 + y mod 8 * 8) by (clear; lia).
      rewrite N.mod_small; [ring|].
      assert ((z mod 8 * 64 + y mod 8 * 8 + x mod 8) * k < 512 * k) by (apply N.mul_lt_mono_pos_r; lia).
      clear -H Lv Hbits. nia. }
    rewrite Epos.
    replace (8 * N.of_nat (length (b_vals b)) <=? 8 * N.of_nat (length pre_v) + loc_of x y z * k) with false.
    2:{ symmetry. apply N.leb_gt.
        assert (loc_of x y z * k < 512 * k) by (apply N.mul_lt_mono_pos_r; lia).
        clear -H Lv. nia. }
    rewrite E2, get_packed_shift, (get_packed_mono _ _ _ _ _ F1).
    replace (n <=? f) with false by (symmetry; apply N.leb_gt; exact Hfn).
    rewrite Hidx. f_equal. now apply label_indices_spec.
Qed.

(* ---------------- WriteRLEs on the block = run lengths of the decoded array ---------------- *)

Lemma radix3 g1 g2 a b c :
  a < g1 -> b < g2 ->
  ((c * g2 + b) * g1 + a) mod g1 = a /\ (((c * g2 + b) * g1 + a) / g1) mod g2 = b /\
  ((c * g2 + b) * g1 + a) / (g1 * g2) = c.
Proof.
  intros Ha Hb.
  assert (G1 : g1 <> 0) by lia. assert (G2 : g2 <> 0) by lia.
  replace ((c * g2 + b) * g1 + a) with (a + (c * g2 + b) * g1) by ring.
  assert (D : (a + (c * g2 + b) * g1) / g1 = c * g2 + b).
  { rewrite N.div_add by exact G1. rewrite (N.div_small a g1 Ha). lia. }
  split; [|split].
  - rewrite N.mod_add by exact G1. now apply N.mod_small.
  - rewrite D. replace (c * g2 + b) with (b + c * g2) by ring.
    rewrite N.mod_add by exact G2. now apply N.mod_small.
  - rewrite <- N.div_div by assumption. rewrite D.
    replace (c * g2 + b) with (b + c * g2) by ring.
    rewrite N.div_add by exact G2. rewrite (N.div_small b g2 Hb). lia.
Qed.

Lemma assemble_point voxs gx gy gz a x y z :
  assemble voxs gx gy gz = Ok a -> x < 8 * gx -> y < 8 * gy -> z < 8 * gz ->
  exists vox v, nth_N voxs (sb_of gx gy x y z) = Some vox /\ nth_N vox (loc_of x y z) = Some v /\
                nth_N a ((z * (8 * gy) + y) * (8 * gx) + x) = Some v.
Proof.
  intros A Hx Hy Hz. unfold assemble in A.
  set (p := (z * (8 * gy) + y) * (8 * gx) + x).
  assert (Hp : p < 8 * gx * (8 * gy) * (8 * gz)) by (apply lin_lt; assumption).
  destruct (mapR_nth _ _ _ (N.to_nat p) p A) as [v [V1 V2]].
  { rewrite nth_error_nseq by lia. f_equal. lia. }
  destruct (radix3 (8 * gx) (8 * gy) x y z Hx Hy) as [R1 [R2 R3]]. fold p in R1, R2, R3.
  cbv zeta in V2. rewrite R1, R2, R3 in V2.
  destruct (nth_N voxs (sb_of gx gy x y z)) as [vox|]; [|discriminate].
  apply opt_res_Ok in V2. exists vox, v. repeat split; assumption.
Qed.

Lemma label_indices_nil labels lbls ix l :
  label_indices labels lbls = [] -> nth_N labels ix = Some l -> mem l lbls = false.
Proof.
  intros E H. rewrite <- (label_indices_spec labels lbls ix l H), E. reflexivity.
Qed.

Theorem write_rles_sem b voxs a lbls bx by_ bz :
  (2 <= length (b_labels b))%nat ->
  Sem (b_labels b) (b_nsb b) (b_idx b) (b_vals b) voxs ->
  length voxs = N.to_nat (b_gx b * b_gy b * b_gz b) ->
  8 * N.of_nat (length (b_vals b)) < 2 ^ 32 ->
  assemble voxs (b_gx b) (b_gy b) (b_gz b) = Ok a ->
  write_rles true b lbls bx by_ bz = rles_ref a (b_gx b) (b_gy b) (b_gz b) lbls bx by_ bz.
Proof.
  intros HL S Lv Hbits A.
  (* every voxel of the array: its label sits in some table slot *)
  assert (Pt : forall x y z, x < 8 * b_gx b -> y < 8 * b_gy b -> z < 8 * b_gz b ->
    exists v ix, nth_N a ((z * (8 * b_gy b) + y) * (8 * b_gx b) + x) = Some v /\
                 nth_N (b_labels b) ix = Some v /\
                 fg_at true b (label_indices (b_labels b) lbls)
                       (by_ * Z.of_N (8 * b_gy b))%Z (bz * Z.of_N (8 * b_gz b))%Z x y z = Ok (mem v lbls)).
  { intros x y z Hx Hy Hz.
    destruct (assemble_point _ _ _ _ _ x y z A Hx Hy Hz) as [vox [v [V1 [V2 V3]]]].
    pose proof (fg_at_sem b voxs lbls (by_ * Z.of_N (8 * b_gy b))%Z (bz * Z.of_N (8 * b_gz b))%Z
                          x y z vox v HL S Hbits Hx Hy Hz V1 V2) as F.
    unfold nth_N in V1.
    destruct (Sem_split _ _ _ _ _ S _ vox 0 0 V1) as [_ [ixs [_ [_ [vs [_ [_ [_ [Ssb _]]]]]]]]].
    destruct Ssb as [_ [_ [_ [_ Hf]]]]. destruct (Hf _ v V2) as [f [ix [_ [_ F3]]]].
    exists v, ix. repeat split; assumption. }
  assert (Hmem : forall v, In v a -> exists ix, nth_N (b_labels b) ix = Some v).
  { intros v Hv. apply In_nth_error in Hv as [i Hi].
    assert (Hlt : (i < length a)%nat) by (apply nth_error_Some; congruence).
    unfold assemble in A. pose proof (mapR_length _ _ _ A) as LA. rewrite nseq_length in LA.
    set (p := N.of_nat i).
    assert (Hp : p < 8 * b_gx b * (8 * b_gy b) * (8 * b_gz b)) by (unfold p; lia).
    destruct (pos_coords _ _ _ _ Hp) as [Hx [Hy [Hz E]]].
    destruct (Pt _ _ _ Hx Hy Hz) as [v' [ix [P1 [P2 _]]]].
    rewrite E in P1. unfold p in P1. rewrite nth_N_of_nat in P1. exists ix. congruence. }
  assert (Hm : forall (X Y : res (list run)), match b_labels b with [_] => X | _ => Y end = Y).
  { intros. destruct (b_labels b) as [|? [|? ?]]; simpl in HL; try lia; reflexivity. }
  unfold write_rles, rles_ref. rewrite Hm.
  pose proof (Sem_length _ _ _ _ _ S) as SL.
  replace (N.of_nat (length (b_nsb b)) <? b_gx b * b_gy b * b_gz b) with false
    by (symmetry; apply N.ltb_ge; lia).
  destruct (existsb (fun l => mem l lbls) a) eqn:EX; cbn [negb].
  - (* some foreground voxel: the index set is not empty *)
    apply existsb_exists in EX as [v [Hv Hm']].
    destruct (Hmem v Hv) as [ix Hix].
    destruct (label_indices (b_labels b) lbls) as [|i0 inds] eqn:EI.
    { rewrite (label_indices_nil _ _ _ _ EI Hix) in Hm'. discriminate. }
    apply rows_runs_ext. intros x y z Hx Hy Hz.
    destruct (Pt x y z Hx Hy Hz) as [v' [ix' [P1 [_ P3]]]]. rewrite P3, P1. reflexivity.
  - (* no foreground voxel: nothing or empty rows are written *)
    destruct (label_indices (b_labels b) lbls) as [|i0 inds] eqn:EI; [reflexivity|].
    apply rows_runs_false. intros x y z Hx Hy Hz.
    destruct (Pt x y z Hx Hy Hz) as [v' [ix' [P1 [_ P3]]]]. rewrite P3. f_equal.
    destruct (mem v' lbls) eqn:M; [|reflexivity].
    exfalso. assert (existsb (fun l => mem l lbls) a = true); [|congruence].
    apply existsb_exists. exists v'. split; [|exact M]. unfold nth_N in P1. eapply nth_error_In; eauto.
Qed.

Lemma write_rles_solid l gx gy gz lbls bx by_ bz :
  0 < gx -> 0 < gy -> 0 < gz ->
  write_rles true (solid_block l gx gy gz) lbls bx by_ bz
  = rles_ref (repeat l (N.to_nat (8 * gx * (8 * gy) * (8 * gz)))) gx gy gz lbls bx by_ bz.
Proof.
  intros Gx Gy Gz. unfold write_rles, rles_ref, solid_block. cbn [b_gx b_gy b_gz b_labels].
  assert (EI : label_indices [l] lbls = if mem l lbls then [0] else []).
  { unfold label_indices. change (nseq (N.of_nat (length [l]))) with [0]. cbn [combine filter snd].
    destruct (mem l lbls); reflexivity. }
  rewrite EI.
  assert (EX : existsb (fun v => mem v lbls) (repeat l (N.to_nat (8 * gx * (8 * gy) * (8 * gz)))) = mem l lbls).
  { destruct (mem l lbls) eqn:M.
    - apply existsb_exists. exists l. split; [|exact M].
      destruct (N.to_nat (8 * gx * (8 * gy) * (8 * gz))) eqn:E; [nia|]. simpl. now left.
    - apply not_true_is_false. intro H. apply existsb_exists in H as [v [Hv Hm]].
      apply repeat_spec in Hv. subst. congruence. }
  rewrite EX. destruct (mem l lbls) eqn:M; cbn [negb]; [|reflexivity].
  apply rows_runs_ext. intros x y z Hx Hy Hz.
  assert (Hp : (z * (8 * gy) + y) * (8 * gx) + x < 8 * gx * (8 * gy) * (8 * gz)) by (apply lin_lt; assumption).
  unfold nth_N. rewrite nth_error_repeat' by lia. now rewrite M.
Qed.

Theorem write_rles_encode tbl vol wx wy wz ox oy oz gx gy gz sbs b a lbls bx by_ bz :
  gather vol wx wy ox oy oz gx gy gz = Ok sbs -> covers tbl sbs ->
  encode_at tbl vol wx wy wz ox oy oz gx gy gz = Ok b ->
  crop vol wx wy ox oy oz gx gy gz = Ok a ->
  8 * N.of_nat (length (b_vals b)) < 2 ^ 32 ->
  write_rles true b lbls bx by_ bz = rles_ref a gx gy gz lbls bx by_ bz.
Proof.
  intros G C E Cr Hbits.
  destruct (encode_at_sem _ _ _ _ _ _ _ _ _ _ _ _ _ G E) as [Ex [Ey [Ez [El Cases]]]].
  destruct (assemble_gather _ _ _ _ _ _ _ _ _ _ G) as [a' [A1 [A2 [A3 A4]]]].
  rewrite Cr in A2. apply Ok_inj in A2. subst a'.
  destruct (gather_lengths _ _ _ _ _ _ _ _ _ _ G) as [GL _].
  assert (Pos : 0 < gx /\ 0 < gy /\ 0 < gz).
  { unfold encode_at, encode_gen in E. destruct (size_checks wx wy wz ox oy oz gx gy gz) eqn:SC; [|discriminate].
    unfold size_checks in SC. rewrite !andb_true_iff, !negb_true_iff, !orb_false_iff in SC.
    destruct SC as [[[_ [[A B] D]] _] _]. apply N.ltb_ge in A, B, D. lia. }
  destruct Cases as [[l [Et Eb]] | [Hne S]].
  - subst b tbl.
    assert (a = repeat l (N.to_nat (8 * gx * (8 * gy) * (8 * gz)))) as ->.
    { apply all_eq_repeat; [exact A3|]. intros v Hv. specialize (C v (A4 v Hv)). destruct C as [C|[]]. now symmetry. }
    apply write_rles_solid; lia.
  - rewrite <- Ex, <- Ey, <- Ez. apply (write_rles_sem b sbs a).
    + rewrite El. destruct tbl as [|l1 [|l2 t]]; simpl; try lia.
      * exfalso. destruct (sbs_nonempty gx gy gz sbs GL (proj2 (gather_lengths _ _ _ _ _ _ _ _ _ _ G)) ltac:(nia)) as [l Hl].
        exact (C l Hl).
      * exfalso. exact (Hne l1 eq_refl).
    + rewrite El. exact S.
    + rewrite Ex, Ey, Ez. exact GL.
    + exact Hbits.
    + rewrite Ex, Ey, Ez. exact A1.
Qed.

(* the code as found: a two-label block at block coordinate (-1,-1,-1) *)
Definition rle_witness_array : list N :=
  map (fun p => if (p mod 16 <? 3) && ((p / 16) mod 16 =? 1) && (p / 256 =? 9) then 7 else 1) (nseq 4096).

Definition rle_witness_block : block :=
  Eval vm_compute in
    match encode_canon rle_witness_array 16 16 16 0 0 0 2 2 2 with Ok b => b | _ => solid_block 0 0 0 0 end.

Lemma write_rles_unrepaired_panics :
  encode_canon rle_witness_array 16 16 16 0 0 0 2 2 2 = Ok rle_witness_block /\
  decode rle_witness_block = Ok rle_witness_array /\
  write_rles false rle_witness_block [7] (-1) (-1) (-1) = Panic /\
  write_rles true rle_witness_block [7] (-1) (-1) (-1) = Ok [((-16)%Z, (-15)%Z, (-7)%Z, 3)] /\
  rles_ref rle_witness_array 2 2 2 [7] (-1) (-1) (-1) = Ok [((-16)%Z, (-15)%Z, (-7)%Z, 3)].
Proof.
  split; [vm_compute; reflexivity|]. split; [vm_compute; reflexivity|].
  split; [vm_compute; reflexivity|]. split; vm_compute; reflexivity.
Qed.
