(* Proofs.ImageBlkStore: block-aligned writes, histories of writes and reads, extents, ROI frame,
   block streams (C17); builds on the single-block and single-read results of Proofs.ImageBlk. *)
From DV Require Import Base.Prelude Base.WrapZ Model.Geometry Model.ROI Model.ImageBlk Proofs.Geometry Proofs.ROI Proofs.ImageBlk.
From Coq Require Import ZifyBool ZifyNat.
Local Open Scope Z_scope.
(* divisions by the block size stay opaque to lia *)
Ltac Zify.zify_post_hook ::= idtac.

(* ---- writing a block-aligned subvolume ---- *)
Lemma aligned1 k o s b : 0 < k -> 1 <= s -> Z.rem o k = 0 -> Z.rem (o + s) k = 0 ->
  Z.max o (b * k) <= Z.min (o + s - 1) ((b + 1) * k - 1) -> o <= b * k /\ (b + 1) * k - 1 <= o + s - 1.
Proof.
  intros Hk Hs R1 R2 M.
  apply Z.rem_divide in R1; [|lia]. apply Z.rem_divide in R2; [|lia].
  destruct R1 as (q1 & E1). destruct R2 as (q2 & E2).
  assert (A : q1 * k <= (b + 1) * k - 1) by lia. assert (B : b * k <= q2 * k - 1) by lia.
  assert (q1 <= b) by nia. assert (b + 1 <= q2) by nia.
  split; [rewrite E1; apply Z.mul_le_mono_nonneg_r; lia|].
  assert ((b + 1) * k <= q2 * k) by (apply Z.mul_le_mono_nonneg_r; lia). lia.
Qed.

(* in a block-aligned subvolume every block that meets the volume lies inside it *)
Lemma aligned_block_inside c g b p : cfg_ok c -> geom_ok g -> gshape g = Vol3d -> block_aligned c g = true ->
  meets g (bsz c) b -> block_of (bsz c) p = b -> in_geom g p.
Proof.
  intros Hc Hg Sh Al M Eb. pose proof (size3_pos g Hg) as S3.
  assert (P : in_range (lo g (bsz c) b) (hi g (bsz c) b) p); [|apply (in_part_iff c g b p Hc) in P; tauto].
  unfold block_aligned in Al. rewrite g_end_eq in Al by assumption.
  destruct Hc as (Kx & Ky & Kz & _). destruct Hg as (Ho & _).
  unfold meets, in_range, lo, hi, gend, block_of, rem32, px, py, pz in *; cbn [fst snd] in *.
  destruct (bsz c) as [[kx ky] kz]. destruct b as [[bx by_] bz]. destruct p as [[x y] z]. destruct (goff g) as [[ox oy] oz].
  cbn [fst snd] in *.
  set (sx := fst (fst (g_size3 g))) in *. set (sy := snd (fst (g_size3 g))) in *. set (sz := snd (g_size3 g)) in *.
  clearbody sx sy sz.
  assert (Wx : w32 (ox + sx - 1 + 1) = ox + sx) by (clear - Ho S3; rewrite w32_small; lia).
  assert (Wy : w32 (oy + sy - 1 + 1) = oy + sy) by (clear - Ho S3; rewrite w32_small; lia).
  assert (Wz : w32 (oz + sz - 1 + 1) = oz + sz) by (clear - Ho S3; rewrite w32_small; lia).
  rewrite Wx, Wy, Wz in Al. clear Wx Wy Wz.
  apply andb_prop in Al as (Al & A6). apply andb_prop in Al as (Al & A5). apply andb_prop in Al as (Al & A4).
  apply andb_prop in Al as (Al & A3). apply andb_prop in Al as (A1 & A2).
  apply Z.eqb_eq in A1, A2, A3, A4, A5, A6.
  destruct M as (Mx & My & Mz).
  assert (Px : 0 < kx /\ 1 <= sx) by (clear - Kx S3; lia). assert (Py : 0 < ky /\ 1 <= sy) by (clear - Ky S3; lia).
  assert (Pz : 0 < kz /\ 1 <= sz) by (clear - Kz S3; lia).
  destruct (aligned1 kx ox sx bx (proj1 Px) (proj2 Px) A1 A2 Mx) as (X1 & X2).
  destruct (aligned1 ky oy sy by_ (proj1 Py) (proj2 Py) A3 A4 My) as (Y1 & Y2).
  destruct (aligned1 kz oz sz bz (proj1 Pz) (proj2 Pz) A5 A6 Mz) as (Z1 & Z2).
  inversion Eb as [[E1 E2 E3]].
  pose proof (proj2 (div_block_iff kx bx x (proj1 Px)) E1) as Dx. pose proof (proj2 (div_block_iff ky by_ y (proj1 Py)) E2) as Dy.
  pose proof (proj2 (div_block_iff kz bz z (proj1 Pz)) E3) as Dz.
  rewrite E1, E2, E3. clear - X1 X2 Y1 Y2 Z1 Z2 Dx Dy Dz. lia.
Qed.


Lemma put_blocks_spec c g data f : cfg_ok c -> geom_ok g -> gshape g = Vol3d -> block_aligned c g = true ->
  data_len_ok c g (gw g * bpv c) data ->
  forall bl st, store_ok c st -> (forall b, In b bl -> meets g (bsz c) b) ->
  exists st', put_blocks c g (gw g * bpv c) data st (map (fun b => (b, f b)) bl) = Ok st' /\ store_ok c st'
    /\ (forall b, listed b bl && f b = false -> st_get st' b = st_get st b)
    /\ (forall p ch, 0 <= ch < bpv c -> listed (block_of (bsz c) p) bl = true -> f (block_of (bsz c) p) = true ->
          stored_byte c st' p ch = Some (nthZ data (pos c g (gw g * bpv c) p ch))).
Proof.
  intros Hc Hg Sh Al Hd. induction bl as [|b t IH]; intros st Hst Hm; cbn [map put_blocks].
  - exists st. split; [reflexivity|]. split; [assumption|]. split; [reflexivity|]. intros p ch _ F. discriminate F.
  - assert (Hm' : forall b0, In b0 t -> meets g (bsz c) b0) by (intros; apply Hm; now right).
    destruct (f b) eqn:Fb.
    + set (blk := match st_get st b with Some v => v | None => background_block c end).
      assert (Lb : zlen blk = block_bytes c).
      { unfold blk. destruct (st_get st b) eqn:E; [exact (Hst b _ E)|apply background_block_len; assumption]. }
      destruct (block_xfer c g (gw g * bpv c) b data blk Hc Hg (Hm b (or_introl eq_refl)) (stride_ok_exact c g Hc Hg) Hd Lb)
        as (_ & (b' & E' & L' & P' & Q')).
      rewrite E'.
      assert (Hst1 : store_ok c (st_put st b b')).
      { intros k v. rewrite st_get_put. destruct (pt_eqb b k); [intro X; inversion X; subst; lia|apply Hst]. }
      destruct (IH (st_put st b b') Hst1 Hm') as (st' & E & S & F & W).
      exists st'. split; [exact E|]. split; [exact S|]. split.
      * intros k Hk. unfold listed in Hk. cbn [existsb] in Hk. fold (listed k t) in Hk.
        destruct (pt_eqb k b) eqn:Ekb.
        { apply pt_eqb_true in Ekb. subst k. rewrite Fb in Hk. discriminate Hk. }
        cbn [orb] in Hk. rewrite (F k Hk), st_get_put.
        destruct (pt_eqb b k) eqn:Ebk; [|reflexivity]. apply pt_eqb_true in Ebk. subst k.
        assert (pt_eqb b b = true) by (apply pt_eqb_true; reflexivity). congruence.
      * intros p ch Hch Hl Hf. destruct (listed (block_of (bsz c) p) t) eqn:Lt; [apply W; assumption|].
        unfold listed in Hl. cbn [existsb] in Hl. fold (listed (block_of (bsz c) p) t) in Hl. rewrite Lt, orb_false_r in Hl.
        apply pt_eqb_true in Hl. unfold stored_byte. rewrite (F _ ltac:(rewrite Lt; reflexivity)), st_get_put, Hl.
        replace (pt_eqb b b) with true by (symmetry; apply pt_eqb_true; reflexivity).
        f_equal. apply P'; [|assumption]. apply in_part_iff; [assumption|]. split; [|assumption].
        eapply aligned_block_inside; eauto. apply Hm. now left.
    + destruct (IH st Hst Hm') as (st' & E & S & F & W).
      exists st'. split; [exact E|]. split; [exact S|]. split.
      * intros k Hk. apply F. unfold listed in Hk. cbn [existsb] in Hk. fold (listed k t) in Hk.
        destruct (pt_eqb k b) eqn:Ekb; cbn [orb] in Hk; [|exact Hk].
        apply pt_eqb_true in Ekb. subst k. destruct (listed b t); [rewrite Fb; reflexivity|reflexivity].
      * intros p ch Hch Hl Hf. apply W; [assumption| |assumption].
        unfold listed in Hl. cbn [existsb] in Hl. fold (listed (block_of (bsz c) p) t) in Hl.
        destruct (pt_eqb (block_of (bsz c) p) b) eqn:Ep; [|exact Hl].
        apply pt_eqb_true in Ep. rewrite Ep, Fb in Hf. discriminate Hf.
Qed.

Definition in_geomb (g : geom) (p : pt) : bool :=
  (px (goff g) <=? px p) && (px p <=? px (gend g)) && (py (goff g) <=? py p) && (py p <=? py (gend g))
  && (pz (goff g) <=? pz p) && (pz p <=? pz (gend g)).
Lemma in_geomb_ok g p : in_geomb g p = true <-> in_geom g p.
Proof. unfold in_geomb, in_geom, in_range. lia. Qed.

Lemma stored_byte_ext c st st' p ch :
  st_get st' (block_of (bsz c) p) = st_get st (block_of (bsz c) p) -> stored_byte c st' p ch = stored_byte c st p ch.
Proof. unfold stored_byte. now intros ->. Qed.

(* POST raw/0_1_2 of a block-aligned subvolume, with or without an ROI: exactly the voxels of the
   volume whose block is inside the ROI take the posted bytes *)
Lemma post_raw_ok c s off size data roi :
  let g := G Vol3d off (px size) (py size) (pz size) in
  cfg_ok c -> geom_ok g -> block_aligned c g = true -> zlen data = bpv c * g_numvoxels g -> store_ok c (blocks s) ->
  roi_wf roi ->
  exists s', post_raw c s off size data roi = Ok s' /\ store_ok c (blocks s')
    /\ ext s' = adjust_points (ext s) off (gend g)
    /\ forall p ch, 0 <= ch < bpv c ->
         stored_byte c (blocks s') p ch
         = if in_geomb g p && roi_test roi (block_of (bsz c) p)
           then Some (nthZ data (pos c g (gw g * bpv c) p ch)) else stored_byte c (blocks s) p ch.
Proof.
  intros g Hc Hg Al Ld Hst Hr. unfold post_raw. fold g.
  assert (Sz : 1 <= px size /\ 1 <= py size /\ 1 <= pz size) by (destruct Hg as (_ & A & B & C); cbn in A, B, C; lia).
  replace (negb ((1 <=? px size) && (1 <=? py size) && (1 <=? pz size))) with false by lia.
  rewrite Ld, Z.eqb_refl. cbn [negb].
  assert (Kz : (px (bsz c) =? 0) || (py (bsz c) =? 0) || (pz (bsz c) =? 0) = false) by (destruct Hc as (A & B & C & _); lia).
  rewrite Kz, Al. cbn [negb].
  destruct (geom_blocks_spec c g Hc Hg) as (bl & E & M & Sb). rewrite E. rewrite (roi_flags_test roi bl Hr Sb).
  assert (Hd : data_len_ok c g (gw g * bpv c) data).
  { unfold data_len_ok. cbn [gshape g gw gh gd]. rewrite Ld. unfold g_numvoxels. cbn [gshape g gw gh gd]. lia. }
  destruct (put_blocks_spec c g data (roi_test roi) Hc Hg eq_refl Al Hd bl (blocks s) Hst (fun b Hb => proj1 (M b) Hb))
    as (st' & E' & S' & F & W).
  rewrite E'. eexists. split; [reflexivity|]. cbn [blocks ext]. split; [exact S'|]. split.
  { rewrite g_end_eq by assumption. reflexivity. }
  intros p ch Hch. destruct (in_geomb g p) eqn:Ig; cbn [andb].
  - apply in_geomb_ok in Ig.
    assert (Li : listed (block_of (bsz c) p) bl = true).
    { unfold listed. apply existsb_exists. exists (block_of (bsz c) p).
      split; [apply M; apply meets_of_voxel; assumption|apply pt_eqb_true; reflexivity]. }
    destruct (roi_test roi (block_of (bsz c) p)) eqn:Rt; [apply W; assumption|].
    apply stored_byte_ext. apply F. rewrite Rt. apply andb_false_r.
  - apply stored_byte_ext. apply F. destruct (listed (block_of (bsz c) p) bl) eqn:Li; [|reflexivity]. exfalso.
    unfold listed in Li. apply existsb_exists in Li as (b & Hb & Eb). apply pt_eqb_true in Eb.
    assert (in_geom g p) by (eapply (aligned_block_inside c g b p); eauto; apply M; assumption).
    apply in_geomb_ok in H. congruence.
Qed.

(* ---- extents ---- *)
(* ---- extents ---- *)
Definition ple (a b : pt) : Prop := px a <= px b /\ py a <= py b /\ pz a <= pz b.
Definition covers (e : extents) (a b : pt) : Prop :=
  match e with Some (mn, mx) => ple mn a /\ ple b mx | None => False end.

Lemma adjust_covers e a b : ple a b -> covers (adjust_points e a b) a b.
Proof.
  unfold covers, adjust_points, ple, pmin, pmax. destruct e as [[mn mx]|]; unfold px, py, pz; cbn [fst snd]; lia.
Qed.
Lemma adjust_keeps e a b a' b' : covers e a' b' -> covers (adjust_points e a b) a' b'.
Proof.
  unfold covers, adjust_points, ple, pmin, pmax. destruct e as [[mn mx]|]; [|tauto]. unfold px, py, pz; cbn [fst snd]; lia.
Qed.


(* ---- ROI-restricted writes ---- *)
(* ---- ROI-restricted writes ---- *)
Lemma inside_fast_sound b : forall spans cur ins, inside_fast b spans = (cur, ins) ->
  (exists pre, spans = pre ++ cur) /\ (ins = true -> in_spans b cur = true).
Proof.
  induction spans as [|s tl IH]; intros cur ins E; cbn [inside_fast] in E.
  - inversion E; subst. split; [exists []; reflexivity|discriminate].
  - repeat match type of E with
           | (if ?c then _ else _) = _ => destruct c eqn:?
           end;
      try (inversion E; subst; split; [exists []; reflexivity|try discriminate]).
    all: try (destruct (IH _ _ E) as ((pre & Ep) & Hi); split; [exists (s :: pre); cbn; now rewrite Ep|exact Hi]).
    intros _. rewrite in_spans_cons. apply orb_true_iff. left. unfold span_includes. lia.
Qed.

Lemma roi_filter_sound spans0 : forall bl spans b, (exists pre, spans0 = pre ++ spans) ->
  In (b, true) (roi_filter spans bl) -> in_spans b spans0 = true.
Proof.
  induction bl as [|b0 t IH]; intros spans b Hpre Hin; cbn [roi_filter] in Hin; [destruct Hin|].
  destruct (inside_fast b0 spans) as [cur ins] eqn:E.
  destruct (inside_fast_sound b0 spans cur ins E) as ((pre & Ep) & Hi).
  destruct Hpre as (pre0 & E0).
  destruct Hin as [Hin|Hin].
  - inversion Hin; subst. rewrite app_assoc, in_spans_app, (Hi eq_refl). apply orb_true_r.
  - apply (IH cur b); [|exact Hin]. exists (pre0 ++ pre). rewrite E0, Ep. now rewrite app_assoc.
Qed.

Lemma put_blocks_frame c g stride data : forall fl st st', put_blocks c g stride data st fl = Ok st' ->
  forall b, ~ In (b, true) fl -> st_get st' b = st_get st b.
Proof.
  induction fl as [|[b0 ins] t IH]; intros st st' E b Hn; cbn [put_blocks] in E.
  - apply Ok_inj in E. now subst.
  - destruct ins.
    + destruct (write_block c g stride data _ b0) as [blk'| |]; try discriminate.
      rewrite (IH _ _ E b); [|intro; apply Hn; now right]. rewrite st_get_put.
      destruct (pt_eqb b0 b) eqn:Eb; [|reflexivity].
      apply pt_eqb_true in Eb. subst. exfalso. apply Hn. now left.
    + apply (IH _ _ E b). intro; apply Hn; now right.
Qed.

(* roi_write_frame: a write restricted by an ROI leaves every block outside the ROI as it was
   (whatever the order of the stored spans) *)
Lemma roi_write_frame_l c s off size data spans s' : post_raw c s off size data (Some spans) = Ok s' ->
  forall b, in_spans b spans = false -> st_get (blocks s') b = st_get (blocks s) b.
Proof.
  unfold post_raw. intros E b Hb.
  repeat match type of E with
         | (if ?c then _ else _) = _ => destruct c; try discriminate
         end.
  destruct (geom_blocks c _) as [bl| |]; try discriminate. cbn [roi_flags] in E.
  destruct (put_blocks c _ _ data (blocks s) (roi_filter spans bl)) as [st'| |] eqn:Ep; try discriminate.
  apply Ok_inj in E. subst s'. cbn [blocks].
  eapply put_blocks_frame; [exact Ep|]. intro Hin.
  pose proof (roi_filter_sound spans bl spans b (ex_intro _ [] eq_refl) Hin). congruence.
Qed.

(* ---- POST blocks / GET blocks (repaired code) ---- *)
Lemma skipn_plus {A} (l : list A) a b : skipn a (skipn b l) = skipn (b + a) l.
Proof. revert l. induction b as [|b IH]; intro l; [reflexivity|]. destruct l; [now rewrite !skipn_nil|]. cbn. apply IH. Qed.

Lemma post_blocks_loop_spec per : (0 < per)%nat -> forall n st b data,
  length data = (n * per)%nat -> - 1073741824 <= px b -> px b + Z.of_nat n <= 1073741824 ->
  exists st', post_blocks_loop n per st b data = Ok st'
    /\ (forall i, (i < n)%nat -> st_get st' (px b + Z.of_nat i, py b, pz b) = Some (firstn per (skipn (i * per) data)))
    /\ (forall b', (forall i, (i < n)%nat -> b' <> (px b + Z.of_nat i, py b, pz b)) -> st_get st' b' = st_get st b').
Proof.
  intros Hper. induction n as [|n IH]; intros st b data Hl Hlo Hhi; cbn [post_blocks_loop].
  - exists st. split; [reflexivity|]. split; [intros; lia|reflexivity].
  - replace (Nat.ltb (length data) per) with false by (symmetry; apply Nat.ltb_ge; lia).
    rewrite w32_small by lia.
    destruct (IH (st_put st b (firstn per data)) (px b + 1, py b, pz b) (skipn per data)) as (st' & E & G & F).
    { rewrite skipn_length. lia. } { unfold px in *; cbn [fst]. lia. } { unfold px in *; cbn [fst]. lia. }
    exists st'. split; [exact E|]. unfold px, py, pz in *; cbn [fst snd] in *. split.
    + intros [|i] Hi.
      * rewrite F.
        -- rewrite st_get_put. replace (pt_eqb b (fst (fst b) + Z.of_nat 0, snd (fst b), snd b)) with true; [reflexivity|].
           symmetry. apply pt_eqb_true. destruct b as [[bx by_] bz]; cbn [fst snd]. replace (bx + Z.of_nat 0) with bx by lia. reflexivity.
        -- intros j Hj Ej. inversion Ej. lia.
      * specialize (G i ltac:(lia)). replace (fst (fst b) + Z.of_nat (Datatypes.S i)) with (fst (fst b) + 1 + Z.of_nat i) by lia.
        rewrite G. rewrite skipn_plus. reflexivity.
    + intros b' Hb'. rewrite F.
      * rewrite st_get_put. destruct (pt_eqb b b') eqn:Eb; [|reflexivity]. apply pt_eqb_true in Eb. subst b'.
        exfalso. apply (Hb' 0%nat ltac:(lia)). destruct b as [[bx by_] bz]; cbn [fst snd]. replace (bx + Z.of_nat 0) with bx by lia. reflexivity.
      * intros i Hi Ei. apply (Hb' (Datatypes.S i) ltac:(lia)). rewrite Ei.
        replace (fst (fst b) + 1 + Z.of_nat i) with (fst (fst b) + Z.of_nat (Datatypes.S i)) by lia. reflexivity.
Qed.

Lemma chunks_concat per : forall n (data : bytes), length data = (n * per)%nat ->
  flat_map (fun i => firstn per (skipn (i * per) data)) (seq 0 n) = data.
Proof.
  induction n as [|n IH]; intros data Hl.
  - destruct data; [reflexivity|discriminate].
  - cbn [seq flat_map]. transitivity (firstn per data ++ skipn per data); [|apply firstn_skipn].
    f_equal. rewrite <- seq_shift, flat_map_concat_map, map_map, <- flat_map_concat_map.
    etransitivity; [|apply (IH (skipn per data)); rewrite skipn_length; lia].
    apply flat_map_ext. intro i. rewrite skipn_plus. reflexivity.
Qed.

(* POST blocks then GET blocks returns the posted bytes, and the extents cover the posted blocks *)
Lemma small_prod a k : - 1048576 <= a <= 1048576 -> 1 <= k <= 1024 -> - 1073741824 <= a * k <= 1073741824.
Proof. intros. nia. Qed.

Lemma post_blocks_ok c s start span data : cfg_ok c -> 1 <= span <= 524288 ->
  - 524288 <= px start <= 524288 -> - 524288 <= py start <= 524288 -> - 524288 <= pz start <= 524288 ->
  zlen data = span * block_bytes c ->
  exists s', post_blocks true c s start span data = Ok s' /\ get_blocks c s' start span = data
    /\ covers (ext s') (bmin c start) (pminus (bmin c (px start + span, py start + 1, pz start + 1)) (1, 1, 1)).
Proof.
  intros Hc Hsp Hx Hy Hz Hl. unfold post_blocks. replace (span <? 1) with false by lia.
  assert (Bb : 1 <= block_bytes c).
  { destruct Hc as (A & B & C & D). unfold block_bytes, block_voxels. nia. }
  destruct (post_blocks_loop_spec (Z.to_nat (block_bytes c)) ltac:(lia) (Z.to_nat span) (blocks s) start data)
    as (st' & E & G & F); try lia.
  { unfold zlen in Hl. nia. }
  rewrite E. eexists. split; [reflexivity|]. split.
  - unfold get_blocks. cbn [blocks].
    etransitivity; [|apply (chunks_concat (Z.to_nat (block_bytes c)) (Z.to_nat span) data); unfold zlen in Hl; nia].
    rewrite !flat_map_concat_map. f_equal. apply map_ext_in. intros i Hi. apply in_seq in Hi. rewrite (G i ltac:(lia)).
    replace (zlen (firstn (Z.to_nat (block_bytes c)) (skipn (i * Z.to_nat (block_bytes c)) data)) =? block_bytes c) with true; [reflexivity|].
    symmetry. apply Z.eqb_eq. unfold zlen. rewrite firstn_length, skipn_length. unfold zlen in Hl. nia.
  - cbn [ext].
    destruct Hc as (Kx & Ky & Kz & _).
    assert (E1 : block_min (bsz c) start = bmin c start).
    { unfold block_min, bmin.
      pose proof (small_prod (px start) (px (bsz c)) ltac:(lia) ltac:(lia)).
      pose proof (small_prod (py start) (py (bsz c)) ltac:(lia) ltac:(lia)).
      pose proof (small_prod (pz start) (pz (bsz c)) ltac:(lia) ltac:(lia)).
      rewrite !w32_small by lia. reflexivity. }
    assert (E2 : block_max (bsz c) (w32 (px start + w32 (span - 1)), py start, pz start)
                 = pminus (bmin c (px start + span, py start + 1, pz start + 1)) (1, 1, 1)).
    { unfold block_max, bmin, pminus, px, py, pz; cbn [fst snd]. unfold px, py, pz in *.
      rewrite (w32_small (span - 1)) by lia. rewrite (w32_small (fst (fst start) + (span - 1))) by lia.
      rewrite !(w32_small (_ + 1)) by lia.
      pose proof (small_prod (fst (fst start) + (span - 1) + 1) (fst (fst (bsz c))) ltac:(lia) ltac:(lia)).
      pose proof (small_prod (snd (fst start) + 1) (snd (fst (bsz c))) ltac:(lia) ltac:(lia)).
      pose proof (small_prod (snd start + 1) (snd (bsz c)) ltac:(lia) ltac:(lia)).
      rewrite !(w32_small (_ * _)) by lia. rewrite !w32_small by lia.
      replace (fst (fst start) + (span - 1) + 1) with (fst (fst start) + span) by lia. reflexivity. }
    rewrite E1, E2. apply adjust_covers.
    unfold ple, bmin, pminus, px, py, pz in *; cbn [fst snd]. nia.
Qed.

(* ---- the code as it stood before the three repairs ---- *)
(* C17-1: the response buffer is zeroed, so an unwritten voxel reads 0 although Background = 7 *)

(* the voxels of a block and their place in it *)
Lemma bidx_voxel c b p ch : cfg_ok c -> block_of (bsz c) p = b -> 0 <= ch < bpv c ->
  exists K, 0 <= K < block_voxels c /\ bidx c (pminus p (bmin c b)) + ch = K * bpv c + ch.
Proof.
  destruct c as [[[kx ky] kz] v bg pat fx]. destruct b as [[bx by_] bz]. destruct p as [[x y] z].
  intros (Kx & Ky & Kz & Hv) Eb Hch. unfold block_of, bidx, pminus, bmin, block_voxels, px, py, pz in *; cbn [fst snd bsz bpv] in *.
  inversion Eb as [[E1 E2 E3]].
  pose proof (proj2 (div_block_iff kx bx x ltac:(lia)) E1) as Dx. pose proof (proj2 (div_block_iff ky by_ y ltac:(lia)) E2) as Dy.
  pose proof (proj2 (div_block_iff kz bz z ltac:(lia)) E3) as Dz.
  rewrite E1, E2, E3. clear E1 E2 E3 Eb.
  exists (((z - bz * kz) * ky + (y - by_ * ky)) * kx + (x - bx * kx)). split; [|ring].
  pose proof (chan_bound (z - bz * kz) (y - by_ * ky) kz ky ltac:(lia) ltac:(lia)) as B1.
  pose proof (chan_bound ((z - bz * kz) * ky + (y - by_ * ky)) (x - bx * kx) (kz * ky) kx B1 ltac:(lia)). lia.
Qed.

Lemma nthZ_background_block c b p ch : cfg_ok c -> block_of (bsz c) p = b -> 0 <= ch < bpv c ->
  nthZ (background_block c) (bidx c (pminus p (bmin c b)) + ch) = bg_at c ch.
Proof.
  intros Hc Eb Hch. destruct (bidx_voxel c b p ch Hc Eb Hch) as (K & HK & E). rewrite E.
  unfold background_block. apply nthZ_bg_tile; assumption.
Qed.

(* POST blocks (repaired code): the voxels of the posted blocks take the posted bytes *)
Definition in_stream (c : cfg) (start : pt) (span : Z) (p : pt) : bool :=
  let b := block_of (bsz c) p in
  (py b =? py start) && (pz b =? pz start) && (px start <=? px b) && (px b <? px start + span).
Definition stream_pos (c : cfg) (start : pt) (p : pt) (ch : Z) : Z :=
  let b := block_of (bsz c) p in (px b - px start) * block_bytes c + bidx c (pminus p (bmin c b)) + ch.

Lemma post_blocks_stored c s start span data : cfg_ok c -> 1 <= span <= 524288 ->
  - 524288 <= px start <= 524288 -> - 524288 <= py start <= 524288 -> - 524288 <= pz start <= 524288 ->
  zlen data = span * block_bytes c -> store_ok c (blocks s) ->
  exists s', post_blocks true c s start span data = Ok s' /\ store_ok c (blocks s')
    /\ covers (ext s') (bmin c start) (pminus (bmin c (px start + span, py start + 1, pz start + 1)) (1, 1, 1))
    /\ (forall a b, covers (ext s) a b -> covers (ext s') a b)
    /\ forall p ch, 0 <= ch < bpv c ->
         stored_byte c (blocks s') p ch
         = if in_stream c start span p then Some (nthZ data (stream_pos c start p ch)) else stored_byte c (blocks s) p ch.
Proof.
  intros Hc Hsp Hx Hy Hz Hl Hst.
  destruct (post_blocks_ok c s start span data Hc Hsp Hx Hy Hz Hl) as (s' & E & _ & Cv).
  exists s'. split; [exact E|].
  assert (Bb : 1 <= block_bytes c).
  { destruct Hc as (A & B & C & D). unfold block_bytes, block_voxels. nia. }
  unfold post_blocks in E. replace (span <? 1) with false in E by lia.
  destruct (post_blocks_loop_spec (Z.to_nat (block_bytes c)) ltac:(lia) (Z.to_nat span) (blocks s) start data)
    as (st' & El & G & F); try lia.
  { unfold zlen in Hl. nia. }
  rewrite El in E. apply Ok_inj in E. subst s'. cbn [blocks ext] in *.
  assert (Chunk : forall i, (i < Z.to_nat span)%nat ->
            zlen (firstn (Z.to_nat (block_bytes c)) (skipn (i * Z.to_nat (block_bytes c)) data)) = block_bytes c).
  { intros i Hi. unfold zlen. rewrite firstn_length, skipn_length. unfold zlen in Hl. nia. }
  split.
  { intros b v Hb.
    destruct ((py b =? py start) && (pz b =? pz start) && (px start <=? px b) && (px b <? px start + span)) eqn:In.
    - specialize (G (Z.to_nat (px b - px start)) ltac:(lia)).
      replace (px start + Z.of_nat (Z.to_nat (px b - px start)), py start, pz start) with b in G
        by (destruct b as [[? ?] ?]; unfold px, py, pz in *; cbn [fst snd] in *; f_equal; [f_equal|]; lia).
      rewrite G in Hb. inversion Hb; subst. apply Chunk. lia.
    - rewrite F in Hb; [exact (Hst b v Hb)|].
      intros i Hi Eq. rewrite Eq in In. unfold px, py, pz in In; cbn [fst snd] in In. lia. }
  split; [exact Cv|]. split; [intros a b Cab; apply adjust_keeps; exact Cab|].
  intros p ch Hch. unfold in_stream, stream_pos. set (b := block_of (bsz c) p).
  destruct ((py b =? py start) && (pz b =? pz start) && (px start <=? px b) && (px b <? px start + span)) eqn:In.
  - unfold stored_byte. fold b.
    specialize (G (Z.to_nat (px b - px start)) ltac:(lia)).
    replace (px start + Z.of_nat (Z.to_nat (px b - px start)), py start, pz start) with b in G
      by (destruct b as [[? ?] ?]; unfold px, py, pz in *; cbn [fst snd] in *; f_equal; [f_equal|]; lia).
    rewrite G. f_equal.
    destruct (bidx_voxel c b p ch Hc eq_refl Hch) as (K & HK & EK).
    assert (Kb : 0 <= bidx c (pminus p (bmin c b)) + ch < block_bytes c).
    { rewrite EK. unfold block_bytes. destruct Hc as (_ & _ & _ & Hv). nia. }
    rewrite nthZ_firstn by lia. rewrite nthZ_skipn by lia. f_equal. nia.
  - apply stored_byte_ext. fold b. apply F. intros i Hi Eq. rewrite Eq in In. unfold px, py, pz in In; cbn [fst snd] in In. lia.
Qed.

(* ---- histories: raw writes (optionally ROI-restricted) and block streams, in any order ---- *)
Inductive wop : Type :=
| WRaw (off size : pt) (data : bytes) (roi : option (list span))
| WBlk (start : pt) (span : Z) (data : bytes).

Definition raw_geom (off size : pt) : geom := G Vol3d off (px size) (py size) (pz size).

Definition wop_ok (c : cfg) (w : wop) : Prop :=
  match w with
  | WRaw off size data roi =>
    geom_ok (raw_geom off size) /\ block_aligned c (raw_geom off size) = true
    /\ zlen data = bpv c * g_numvoxels (raw_geom off size) /\ roi_wf roi
  | WBlk start span data =>
    1 <= span <= 524288 /\ - 524288 <= px start <= 524288 /\ - 524288 <= py start <= 524288
    /\ - 524288 <= pz start <= 524288 /\ zlen data = span * block_bytes c
  end.

Definition apply_op (c : cfg) (s : state) (w : wop) : res state :=
  match w with
  | WRaw off size data roi => post_raw c s off size data roi
  | WBlk start span data => post_blocks true c s start span data
  end.
Fixpoint apply_writes (c : cfg) (s : state) (ws : list wop) : res state :=
  match ws with
  | [] => Ok s
  | w :: t => match apply_op c s w with
              | Ok s' => apply_writes c s' t
              | Err => Err
              | Panic => Panic
              end
  end.

(* byte ch of voxel p as write w sets it, if it does *)
Definition op_byte (c : cfg) (w : wop) (p : pt) (ch : Z) : option N :=
  match w with
  | WRaw off size data roi =>
    let g := raw_geom off size in
    if in_geomb g p && roi_test roi (block_of (bsz c) p) then Some (nthZ data (pos c g (gw g * bpv c) p ch)) else None
  | WBlk start span data =>
    if in_stream c start span p then Some (nthZ data (stream_pos c start p ch)) else None
  end.
(* ... in the LAST write of the (chronological) list that sets it *)
Fixpoint last_write (c : cfg) (ws : list wop) (p : pt) (ch : Z) : option N :=
  match ws with
  | [] => None
  | w :: t => match last_write c t p ch with Some v => Some v | None => op_byte c w p ch end
  end.

(* the box a write extends the extents by *)
Definition op_box (c : cfg) (w : wop) : pt * pt :=
  match w with
  | WRaw off size _ _ => (off, gend (raw_geom off size))
  | WBlk start span _ => (bmin c start, pminus (bmin c (px start + span, py start + 1, pz start + 1)) (1, 1, 1))
  end.

Lemma apply_op_spec c s w : cfg_ok c -> wop_ok c w -> store_ok c (blocks s) ->
  exists s', apply_op c s w = Ok s' /\ store_ok c (blocks s')
    /\ covers (ext s') (fst (op_box c w)) (snd (op_box c w))
    /\ (forall a b, covers (ext s) a b -> covers (ext s') a b)
    /\ forall p ch, 0 <= ch < bpv c ->
         stored_byte c (blocks s') p ch = match op_byte c w p ch with Some v => Some v | None => stored_byte c (blocks s) p ch end.
Proof.
  intros Hc Hw Hst. destruct w as [off size data roi|start span data]; cbn [apply_op op_byte op_box fst snd].
  - destruct Hw as (Hg & Al & Ld & Hr).
    destruct (post_raw_ok c s off size data roi Hc Hg Al Ld Hst Hr) as (s' & E & S & X & W).
    exists s'. split; [exact E|]. split; [exact S|]. split.
    { rewrite X. apply adjust_covers. pose proof (size3_pos _ Hg) as S3.
      unfold ple, gend, raw_geom, px, py, pz in *. cbn [goff fst snd] in *. lia. }
    split; [intros a b Cab; rewrite X; apply adjust_keeps; exact Cab|].
    intros p ch Hch. rewrite (W p ch Hch). fold (raw_geom off size).
    destruct (in_geomb (raw_geom off size) p && roi_test roi (block_of (bsz c) p)); reflexivity.
  - destruct Hw as (Hsp & Hx & Hy & Hz & Hl).
    destruct (post_blocks_stored c s start span data Hc Hsp Hx Hy Hz Hl Hst) as (s' & E & S & Cv & K & W).
    exists s'. split; [exact E|]. split; [exact S|]. split; [exact Cv|]. split; [exact K|].
    intros p ch Hch. rewrite (W p ch Hch). destruct (in_stream c start span p); reflexivity.
Qed.

Lemma apply_writes_spec c ws : cfg_ok c -> Forall (wop_ok c) ws -> forall s, store_ok c (blocks s) ->
  exists s', apply_writes c s ws = Ok s' /\ store_ok c (blocks s')
    /\ (forall a b, covers (ext s) a b -> covers (ext s') a b)
    /\ (forall w, In w ws -> covers (ext s') (fst (op_box c w)) (snd (op_box c w)))
    /\ forall p ch, 0 <= ch < bpv c ->
         stored_byte c (blocks s') p ch
         = match last_write c ws p ch with Some v => Some v | None => stored_byte c (blocks s) p ch end.
Proof.
  intros Hc. induction 1 as [|w t Hw Ht IH]; intros s Hst; cbn [apply_writes last_write].
  - exists s. split; [reflexivity|]. split; [assumption|]. split; [auto|]. split; [intros w []|reflexivity].
  - destruct (apply_op_spec c s w Hc Hw Hst) as (s1 & E1 & S1 & C1 & K1 & W1).
    rewrite E1. destruct (IH s1 S1) as (s' & E & S & K & A & W).
    exists s'. split; [exact E|]. split; [exact S|]. split; [intros a b Cab; apply K, K1, Cab|]. split.
    + intros w' [<-|Hw']; [apply K, C1|apply A, Hw'].
    + intros p ch Hch. rewrite (W p ch Hch). destruct (last_write c t p ch); [reflexivity|]. apply W1. exact Hch.
Qed.

Lemma store_ok_empty c : store_ok c [].
Proof. intros b v H. discriminate H. Qed.

Lemma nthZ_map0 (f : N -> N) l k : f 0%N = 0%N -> nthZ (map f l) k = f (nthZ l k).
Proof.
  intro F. unfold nthZ. destruct (k <? 0); [now rewrite F|].
  rewrite <- F at 1. apply map_nth.
Qed.

(* what a read through ROI [roi] with attenuation [att] shows of a voxel whose last write put
   byte lw there (None: never written): inside the ROI the byte; outside the background, or the
   byte shifted right for one-byte voxels *)
Definition shown (c : cfg) (roi : option (list span)) (att : Z) (lw : option N) (b : pt) (ch : Z) : N :=
  match lw with
  | None => bg_at c ch
  | Some v => if roi_test roi b then v
              else if att =? 0 then bg_at c ch
              else if bpv c =? 1 then N.shiftr v (Z.to_N att) else bg_at c ch
  end.

Lemma view_of_stored c st roi att p ch : cfg_ok c -> 0 <= ch < bpv c ->
  match view_byte c st (roi_test roi) att p ch with Some v => v | None => bg_at c ch end
  = shown c roi att (stored_byte c st p ch) (block_of (bsz c) p) ch.
Proof.
  intros Hc Hch. unfold view_byte, stored_byte, shown. destruct (st_get st (block_of (bsz c) p)) as [blk|]; [|reflexivity].
  destruct (roi_test roi (block_of (bsz c) p)); [reflexivity|].
  destruct (att =? 0); [apply nthZ_background_block; auto|].
  destruct (bpv c =? 1); [|reflexivity]. unfold scaled_block. apply nthZ_map0. apply N.shiftr_0_l.
Qed.

(* read_after_writes: after ANY sequence of block-aligned raw writes (with or without ROI) and block
   streams, EVERY read (3d box of any alignment, XY / XZ / YZ slice; with or without ROI and
   attenuation) succeeds and shows, for every voxel, the last write that set it, else the background *)
Lemma read_after_writes_l c ws g roi att : cfg_ok c -> Forall (wop_ok c) ws -> geom_ok g -> roi_wf roi ->
  exists s buf, apply_writes c st0 ws = Ok s /\ get_raw_att true c s g roi att = Ok buf
    /\ zlen buf = bpv c * g_numvoxels g
    /\ forall p ch, in_geom g p -> 0 <= ch < bpv c ->
         nthZ buf (pos c g (gw g * bpv c) p ch) = shown c roi att (last_write c ws p ch) (block_of (bsz c) p) ch.
Proof.
  intros Hc Hws Hg Hr. destruct (apply_writes_spec c ws Hc Hws st0 (store_ok_empty c)) as (s & E & S & _ & _ & W).
  destruct (get_raw_roi_ok true c s g roi att Hc Hg S Hr) as (buf & Eb & Lb & R).
  exists s, buf. split; [exact E|]. split; [exact Eb|]. split; [exact Lb|].
  intros p ch Hp Hch. rewrite (R p ch Hp Hch). unfold init_at.
  rewrite (view_of_stored c (blocks s) roi att p ch Hc Hch), (W p ch Hch).
  destruct (last_write c ws p ch); reflexivity.
Qed.

(* the plain case: no ROI on the read *)
Lemma read_after_writes_plain c ws g : cfg_ok c -> Forall (wop_ok c) ws -> geom_ok g ->
  exists s buf, apply_writes c st0 ws = Ok s /\ get_raw true c s g None = Ok buf
    /\ zlen buf = bpv c * g_numvoxels g
    /\ forall p ch, in_geom g p -> 0 <= ch < bpv c ->
         nthZ buf (pos c g (gw g * bpv c) p ch)
         = match last_write c ws p ch with Some v => v | None => bg_at c ch end.
Proof.
  intros Hc Hws Hg. destruct (read_after_writes_l c ws g None 0 Hc Hws Hg I) as (s & buf & E & Eb & L & R).
  exists s, buf. split; [exact E|]. split; [exact Eb|]. split; [exact L|]. intros p ch Hp Hch.
  rewrite (R p ch Hp Hch). unfold shown. destruct (last_write c ws p ch); reflexivity.
Qed.

(* extents_cover *)
Lemma extents_cover_l c ws s : cfg_ok c -> Forall (wop_ok c) ws -> apply_writes c st0 ws = Ok s ->
  forall w, In w ws -> covers (ext s) (fst (op_box c w)) (snd (op_box c w)).
Proof.
  intros Hc Hws E. destruct (apply_writes_spec c ws Hc Hws st0 (store_ok_empty c)) as (s' & E' & _ & _ & A & _).
  rewrite E in E'. apply Ok_inj in E'. subst s'. exact A.
Qed.

(* ---- the code as it stood before the repairs ---- *)
(* C17-1: the response buffer is zeroed, so an unwritten voxel reads 0 although Background = 7 *)
Lemma nofill_refuted :
  exists c g p, cfg_ok c /\ geom_ok g /\ in_geom g p /\
    exists buf, get_raw false c st0 g None = Ok buf /\ nthZ buf (pos c g (gw g * bpv c) p 0) <> bg_at c 0.
Proof.
  exists (C (4, 4, 4) 1 7 [7%N] false), (G Vol3d (-5, 0, 4) 6 2 1), (-5, 0, 4).
  split; [unfold cfg_ok, px, py, pz; cbn; lia|].
  split; [unfold geom_ok, px, py, pz; cbn; lia|].
  split; [unfold in_geom, in_range, gend, g_size3, px, py, pz; cbn; lia|].
  eexists. split; [vm_compute; reflexivity|]. vm_compute. discriminate.
Qed.

(* C17-2: POST blocks took Prod(BlockSize) bytes per block whatever the voxel width *)
Lemma post_blocks_orig_refuted :
  exists c start span data s, cfg_ok c /\ zlen data = span * block_bytes c
    /\ post_blocks false c st0 start span data = Ok s /\ get_blocks c s start span <> data.
Proof.
  exists (C (2, 2, 2) 2 0 [0%N; 0%N] true), (0, 0, 0), 1, (map N.of_nat (seq 1 16)).
  eexists. split; [unfold cfg_ok, px, py, pz; cbn; lia|]. split; [vm_compute; reflexivity|].
  split; [vm_compute; reflexivity|]. vm_compute. discriminate.
Qed.

(* C17-3: POST blocks left the extents untouched *)
Lemma post_blocks_orig_extents_refuted :
  exists c start span data s, cfg_ok c /\ zlen data = span * block_bytes c
    /\ post_blocks false c st0 start span data = Ok s /\ ext s = None.
Proof.
  exists (C (2, 2, 2) 1 0 [0%N] true), (1, -1, 0), 1, (map N.of_nat (seq 1 8)).
  eexists. split; [unfold cfg_ok, px, py, pz; cbn; lia|]. split; [vm_compute; reflexivity|].
  split; vm_compute; reflexivity.
Qed.

(* C17-4: for voxels wider than one byte the code had no single background: BackgroundBlock and
   NewVoxels wrote 0, GET blocks repeated the Background byte; neither is the voxel whose value is
   Background (here uint16, Background 7: bytes 7 0) *)
Lemma wide_background_refuted :
  exists c g p, cfg_ok c /\ bgfix c = false /\ geom_ok g /\ in_geom g p /\
    (exists buf, get_raw true c st0 g None = Ok buf
       /\ nthZ buf (pos c g (gw g * bpv c) p 0) <> nth 0 (bgpat c) 0%N)
    /\ get_blocks c st0 (0, 0, 0) 1 <> concat (repeat (bgpat c) (Z.to_nat (block_voxels c))).
Proof.
  exists (C (2, 2, 2) 2 7 [7%N; 0%N] false), (G Vol3d (0, 0, 0) 2 1 1), (0, 0, 0).
  split; [unfold cfg_ok, px, py, pz; cbn; lia|]. split; [reflexivity|].
  split; [unfold geom_ok, px, py, pz; cbn; lia|].
  split; [unfold in_geom, in_range, gend, g_size3, px, py, pz; cbn; lia|].
  split; [eexists; split; [vm_compute; reflexivity|vm_compute; discriminate]|vm_compute; discriminate].
Qed.
(* with the repair the background voxel is the pattern, in every path *)
Lemma bg_at_fixed c ch : bgfix c = true -> bg_at c ch = nth (Z.to_nat ch) (bgpat c) 0%N.
Proof. unfold bg_at. now intros ->. Qed.
