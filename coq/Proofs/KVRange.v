(* Proofs.KVRange: the versioned range scan groups the stored entries by TKey exactly as point
   reads do, for any version resolver. *)
From DV Require Import Base.Prelude Base.Int Base.Lex Base.KeyShape Gen.Consts Gen.KeyLits Gen.KeyClasses
     Model.Keys Model.KV Model.KVRange Proofs.Keys Proofs.KV.
From Coq Require Import Sorting.Sorted.
From Coq Require Import ZifyN ZifyNat ZifyBool.
Local Open Scope N_scope.

(* the TKey a stored key belongs to *)
Definition lab (e : kv) : bytes := match tkey_from_key (Some (fst e)) with Ok tk => tk | _ => [] end.

(* consecutive entries with the same TKey *)
Fixpoint chunk (l : list kv) : list (list kv) :=
  match l with
  | [] => []
  | x :: r =>
    match chunk r with
    | (y :: g) :: gs => if bytes_eqb (lab x) (lab y) then (x :: y :: g) :: gs else [x] :: (y :: g) :: gs
    | gs => [x] :: gs
    end
  end.

Lemma chunk_concat l : concat (chunk l) = l.
Proof.
  induction l as [|x r IH]; simpl; [reflexivity|].
  destruct (chunk r) as [|[|y g] gs] eqn:E; simpl in *.
  - now rewrite <- IH.
  - now rewrite <- IH.
  - destruct (bytes_eqb (lab x) (lab y)); simpl; now rewrite <- IH.
Qed.

Lemma chunk_nonempty l g : In g (chunk l) -> g <> [].
Proof.
  revert g; induction l as [|x r IH]; simpl; [contradiction|]. intros g H.
  destruct (chunk r) as [|[|y g'] gs] eqn:E.
  - destruct H as [<-|[]]. discriminate.
  - destruct H as [<-|H]; [discriminate|]. apply IH. exact H.
  - destruct (bytes_eqb (lab x) (lab y)).
    + destruct H as [<-|H]; [discriminate|]. apply IH. now right.
    + destruct H as [<-|H]; [discriminate|]. apply IH. exact H.
Qed.

Definition same_lab (t : bytes) (g : list kv) : Prop := Forall (fun e => lab e = t) g.

Lemma chunk_head_label x r : exists g gs, chunk (x :: r) = (x :: g) :: gs /\ same_lab (lab x) (x :: g).
Proof.
  revert x; induction r as [|y r IH]; intro x.
  - exists [], []. split; [reflexivity|]. repeat constructor.
  - destruct (IH y) as (g & gs & E & S).
    change (chunk (x :: y :: r)) with
      (match chunk (y :: r) with
       | (y0 :: g0) :: gs0 => if bytes_eqb (lab x) (lab y0) then (x :: y0 :: g0) :: gs0 else [x] :: (y0 :: g0) :: gs0
       | gs0 => [x] :: gs0
       end).
    rewrite E.
    destruct (bytes_eqb (lab x) (lab y)) eqn:B.
    + apply bytes_eqb_eq in B. exists (y :: g), gs. split; [reflexivity|].
      constructor; [reflexivity|]. rewrite B. exact S.
    + exists [], ((y :: g) :: gs). split; [reflexivity|]. repeat constructor.
Qed.

(* a run of one TKey followed by an entry of another *)
Lemma chunk_cons_diff a x r : lab a <> lab x -> chunk (a :: x :: r) = [a] :: chunk (x :: r).
Proof.
  intro D. destruct (chunk_head_label x r) as (g & gs & E & _).
  change (chunk (a :: x :: r)) with
      (match chunk (x :: r) with
       | (y0 :: g0) :: gs0 => if bytes_eqb (lab a) (lab y0) then (a :: y0 :: g0) :: gs0 else [a] :: (y0 :: g0) :: gs0
       | gs0 => [a] :: gs0
       end).
  rewrite E. destruct (bytes_eqb (lab a) (lab x)) eqn:B; [|reflexivity].
  apply bytes_eqb_eq in B. contradiction.
Qed.

Lemma chunk_cons_eq a x r g gs : lab a = lab x -> chunk (x :: r) = (x :: g) :: gs ->
  chunk (a :: x :: r) = (a :: x :: g) :: gs.
Proof.
  intros D E.
  change (chunk (a :: x :: r)) with
      (match chunk (x :: r) with
       | (y0 :: g0) :: gs0 => if bytes_eqb (lab a) (lab y0) then (a :: y0 :: g0) :: gs0 else [a] :: (y0 :: g0) :: gs0
       | gs0 => [a] :: gs0
       end).
  rewrite E, D. now rewrite (proj2 (bytes_eqb_eq _ _) eq_refl).
Qed.

Lemma chunk_app_diff t g x r :
  g <> [] -> same_lab t g -> lab x <> t -> chunk (g ++ x :: r) = g :: chunk (x :: r).
Proof.
  intros NE S D. induction g as [|a g IH]; [contradiction|].
  inversion S as [|? ? Ha Sg]; subst.
  destruct g as [|b g'].
  - simpl app. apply chunk_cons_diff. congruence.
  - specialize (IH ltac:(discriminate) Sg).
    change ((a :: b :: g') ++ x :: r) with (a :: b :: (g' ++ x :: r)).
    change ((b :: g') ++ x :: r) with (b :: (g' ++ x :: r)) in IH.
    inversion Sg; subst.
    erewrite chunk_cons_eq; [reflexivity|congruence|exact IH].
Qed.

Lemma chunk_same t g : g <> [] -> same_lab t g -> chunk g = [g].
Proof.
  induction g as [|x r IH]; intros NE S; [contradiction|].
  destruct r as [|y r']; [reflexivity|].
  inversion S as [|? ? Hx Sr]; subst. inversion Sr; subst.
  specialize (IH ltac:(discriminate) Sr).
  erewrite chunk_cons_eq; [reflexivity|congruence|exact IH].
Qed.

(* labels that never decrease along the list *)
Definition lab_le (a b : kv) : Prop := lex_le (lab a) (lab b).
Definition mono (l : list kv) : Prop := StronglySorted lab_le l.

Lemma filter_cons1 {A} (f : A -> bool) (x : A) l :
  filter f (x :: l) = if f x then x :: filter f l else filter f l.
Proof. reflexivity. Qed.

(* each chunk is the set of all entries with its label *)
Lemma chunk_filter l : mono l ->
  forall g, In g (chunk l) ->
  exists t, same_lab t g /\ g = filter (fun e => bytes_eqb (lab e) t) l.
Proof.
  induction 1 as [|x r Hr IH Hx]; intros g Hg; [contradiction|].
  assert (LE : forall e, In e r -> lex_le (lab x) (lab e)).
  { rewrite Forall_forall in Hx. exact Hx. }
  simpl chunk in Hg. destruct (chunk r) as [|[|y g'] gs] eqn:E.
  - destruct Hg as [<-|[]]. exists (lab x). split; [repeat constructor|].
    assert (r = []) by (rewrite <- (chunk_concat r), E; reflexivity). subst. simpl.
    now rewrite (proj2 (bytes_eqb_eq _ _) eq_refl).
  - exfalso. apply (chunk_nonempty r []); [rewrite E; now left|reflexivity].
  - assert (exists r', r = y :: r') as [r' ->].
    { destruct r as [|a r']; [discriminate E|].
      destruct (chunk_head_label a r') as (g1 & gs1 & E1 & _). rewrite E1 in E. inversion E; subst. now exists r'. }
    assert (LEy : forall e, In e (y :: r') -> lex_le (lab y) (lab e)).
    { intros e [<-|He]; [apply lex_le_refl|]. inversion Hr as [|? ? _ Hall]; subst.
      rewrite Forall_forall in Hall. now apply Hall. }
    destruct (IH (y :: g') ltac:(now left)) as (t & St & Ft).
    assert (t = lab y) by (inversion St; subst; reflexivity). subst t.
    (* no later chunk of the tail carries the label of its first chunk *)
    assert (LATER : forall g2 t2, In g2 gs -> same_lab t2 g2 ->
                    g2 = filter (fun e => bytes_eqb (lab e) t2) (y :: r') -> t2 <> lab y).
    { intros g2 t2 Hg2 S2 F2 ->.
      assert (EG : g2 = y :: g') by (rewrite F2, Ft; reflexivity). rewrite EG in Hg2. clear - Hg2 E Ft St.
      assert (C : (2 * length (y :: g') <= length (filter (fun e => bytes_eqb (lab e) (lab y)) (concat ((y :: g') :: gs))))%nat).
      { change (concat ((y :: g') :: gs)) with ((y :: g') ++ concat gs). rewrite filter_app, app_length.
        assert (F1 : filter (fun e => bytes_eqb (lab e) (lab y)) (y :: g') = y :: g').
        { apply filter_all. apply Forall_forall. intros e He. apply bytes_eqb_eq.
          unfold same_lab in St. rewrite Forall_forall in St. auto. }
        rewrite F1.
        assert (F2 : (length (y :: g') <= length (filter (fun e => bytes_eqb (lab e) (lab y)) (concat gs)))%nat).
        { apply in_split in Hg2 as (g1 & g3 & ->). rewrite concat_app.
          change (concat ((y :: g') :: g3)) with ((y :: g') ++ concat g3).
          rewrite !filter_app, !app_length, F1. lia. }
        lia. }
      rewrite <- E, chunk_concat, <- Ft in C. simpl in C. lia. }
    destruct (bytes_eqb (lab x) (lab y)) eqn:B.
    + apply bytes_eqb_eq in B. destruct Hg as [<-|Hg].
      * exists (lab x). split; [constructor; [reflexivity|now rewrite B]|].
        rewrite filter_cons1. rewrite (proj2 (bytes_eqb_eq _ _) eq_refl). f_equal. rewrite B. exact Ft.
      * destruct (IH g ltac:(now right)) as (t & St' & Ft'). exists t. split; [exact St'|].
        rewrite filter_cons1. destruct (bytes_eqb (lab x) t) eqn:B2; [|exact Ft'].
        exfalso. apply bytes_eqb_eq in B2. apply (LATER g t Hg St' Ft'). congruence.
    + destruct Hg as [<-|Hg].
      * exists (lab x). split; [repeat constructor|]. rewrite filter_cons1.
        rewrite (proj2 (bytes_eqb_eq _ _) eq_refl). f_equal. symmetry. apply filter_none.
        apply Forall_forall. intros e He. destruct (bytes_eqb (lab e) (lab x)) eqn:B2; [|reflexivity].
        exfalso. apply bytes_eqb_eq in B2.
        assert (H1 : lex_le (lab x) (lab y)) by (apply LE; now left).
        assert (H2 : lex_le (lab y) (lab e)) by now apply LEy.
        rewrite B2 in H2. pose proof (lex_le_antisym _ _ H1 H2) as EQ.
        rewrite EQ, (proj2 (bytes_eqb_eq _ _) eq_refl) in B. discriminate.
      * destruct (IH g Hg) as (t & St' & Ft'). exists t. split; [exact St'|].
        rewrite filter_cons1. destruct (bytes_eqb (lab x) t) eqn:B2; [|exact Ft'].
        exfalso. apply bytes_eqb_eq in B2. subst t.
        destruct g as [|e g0]; [now apply (chunk_nonempty (y :: r') []); rewrite ?E|].
        assert (He : In e (y :: r')).
        { rewrite <- (chunk_concat (y :: r')). apply in_concat. exists (e :: g0). split; [rewrite E; exact Hg|now left]. }
        assert (H0 : lab e = lab x) by (inversion St'; subst; assumption).
        assert (H1 : lex_le (lab x) (lab y)) by (apply LE; now left).
        assert (H2 : lex_le (lab y) (lab e)) by now apply LEy.
        rewrite H0 in H2. pose proof (lex_le_antisym _ _ H1 H2) as EQ.
        rewrite EQ, (proj2 (bytes_eqb_eq _ _) eq_refl) in B. discriminate.
Qed.

Lemma filter_filter_impl' {A} (f g : A -> bool) l : filter f (filter g l) = filter (fun x => f x && g x) l.
Proof.
  induction l as [|x l IH]; simpl; [reflexivity|].
  destruct (g x); simpl; [destruct (f x); simpl; now rewrite IH|now rewrite andb_false_r].
Qed.

(* ---- generic: a list splits at the first element failing a test ---- *)
Lemma take_drop {A} (p : A -> bool) l : l = take_while p l ++ drop_while p l.
Proof. induction l as [|x l IH]; simpl; [reflexivity|]. destruct (p x); simpl; [now f_equal|reflexivity]. Qed.

Lemma drop_while_head {A} (p : A -> bool) l : drop_while p l = [] \/ exists t r, drop_while p l = t :: r /\ p t = false.
Proof.
  induction l as [|x l IH]; simpl; [now left|]. destruct (p x) eqn:E; [exact IH|].
  right. now exists x, l.
Qed.

Lemma take_while_all {A} (p : A -> bool) l : Forall (fun x => p x = true) (take_while p l).
Proof. induction l as [|x l IH]; simpl; [constructor|]. destruct (p x) eqn:E; [now constructor|constructor]. Qed.

Lemma take_while_incl {A} (p : A -> bool) l x : In x (take_while p l) -> In x l.
Proof. induction l as [|y l IH]; simpl; [auto|]. destruct (p y); simpl; [intros [->|H]; auto|contradiction]. Qed.

Lemma drop_while_incl {A} (p : A -> bool) l x : In x (drop_while p l) -> In x l.
Proof. induction l as [|y l IH]; simpl; [auto|]. destruct (p y); simpl; [auto|intros [->|H]; auto]. Qed.

(* whatever lies between two keys with a common prefix has that prefix *)
Lemma in_range_common_prefix p x y k : in_range (p ++ x) (p ++ y) k -> is_prefix p k.
Proof.
  revert k; induction p as [|u p IH]; intros k [H1 H2]; [now exists k|].
  unfold lex_le in *. destruct k as [|w k]; simpl in *; [congruence|].
  rewrite (N.compare_antisym u w) in H2.
  destruct (u ?= w) eqn:E; simpl in *; try congruence.
  apply N.compare_eq in E. subst w.
  destruct (IH k) as [r ->]; [split; assumption|]. now exists r.
Qed.

Lemma is_data_key_tkey k : is_data_key k = true -> exists tk, tkey_from_key (Some k) = Ok tk.
Proof.
  unfold is_data_key, tkey_from_key. destruct k as [|p rest]; [discriminate|].
  rewrite andb_true_iff, negb_true_iff, N.ltb_ge, N.eqb_eq. intros [L ->].
  replace (n_dataKeyPrefix =? n_metadataKeyPrefix) with false by reflexivity.
  replace (n_dataKeyPrefix =? n_dataKeyPrefix) with true by reflexivity.
  unfold suffix_start. rewrite suffix_size_eq, iid_size_eq.
  unfold n_IsDataKey_minlen in L.
  set (k := n_dataKeyPrefix :: rest) in *.
  replace (Z.of_nat (length k) - Z.of_nat 9 <? Z.of_nat (1 + 4))%Z with false by (symmetry; apply Z.ltb_ge; lia).
  unfold slice.
  replace (Nat.leb (1 + 4) (Z.to_nat (Z.of_nat (length k) - Z.of_nat 9))) with true by (symmetry; apply Nat.leb_le; lia).
  replace (Nat.leb (Z.to_nat (Z.of_nat (length k) - Z.of_nat 9)) (length k)) with true by (symmetry; apply Nat.leb_le; lia).
  simpl andb. eexists. reflexivity.
Qed.

Section Loop.
Variable best : list bytes -> res (option bytes).
Variable cx : vctx.
Let i := cx_instance cx.
Hypothesis Hi : id_ok i.

(* a stored entry of instance i *)
Definition entry_of (e : kv) : Prop :=
  exists tk v c m, fst e = data_key i tk v c m /\ id_ok v /\ id_ok c /\ byte_ok m.

Lemma lab_entry e tk v c m : fst e = data_key i tk v c m -> lab e = tk.
Proof. intro H. unfold lab. now rewrite H, tkey_from_data_key. Qed.

Lemma entry_is_data_key e : entry_of e -> is_data_key (fst e) = true /\ tkey_from_key (Some (fst e)) = Ok (lab e).
Proof.
  intros (tk & v & c & m & E & _). rewrite (lab_entry e tk v c m E), E.
  split; [apply is_data_key_data_key|apply tkey_from_data_key].
Qed.

Lemma max_id_ok : id_ok n_MaxVersionID /\ id_ok n_MaxClientID.
Proof. split; unfold id_ok; reflexivity. Qed.

(* comparing an entry with the upper version bound of a TKey compares the TKeys *)
Lemma entry_vs_max e cur : entry_of e -> prefix_free_pair (lab e) cur ->
  (lex_compare (fst e) (max_version_key i cur) = Gt <-> lex_compare (lab e) cur = Gt).
Proof.
  intros (tk & v & c & m & E & Hv & Hc & Hm) PF. rewrite (lab_entry e tk v c m E) in *. rewrite E.
  rewrite max_version_key_eq, key_order; try assumption; try apply max_id_ok.
  unfold tuple_compare. rewrite N.compare_refl. cbn [cmp_then].
  destruct (lex_compare tk cur) eqn:C; cbn [cmp_then]; split; intro H; try congruence; try reflexivity.
  exfalso. unfold id_ok, byte_ok, n_MaxVersionID, n_MaxClientID in *.
  destruct (v ?= 4294967295) eqn:E1; cbn [cmp_then] in H; try congruence.
  - destruct (c ?= 4294967295) eqn:E2; cbn [cmp_then] in H; try congruence.
    + rewrite N.compare_gt_iff in H. lia.
    + rewrite N.compare_gt_iff in E2. lia.
  - rewrite N.compare_gt_iff in E1. lia.
Qed.

(* ... and with the lower bound *)
Lemma entry_vs_min e lo : entry_of e -> prefix_free_pair lo (lab e) ->
  lex_le (min_version_key i lo) (fst e) -> lex_le lo (lab e).
Proof.
  intros (tk & v & c & m & E & Hv & Hc & Hm) PF. rewrite (lab_entry e tk v c m E) in *. rewrite E.
  unfold lex_le. rewrite min_version_key_eq, key_order; try assumption; try (unfold id_ok; reflexivity).
  unfold tuple_compare. rewrite N.compare_refl. cbn [cmp_then].
  destruct (lex_compare lo tk); cbn [cmp_then]; congruence.
Qed.

Lemma max_key_mono t hi : prefix_free_pair t hi -> lex_le t hi -> lex_le (max_version_key i t) (max_version_key i hi).
Proof.
  intros PF L. unfold lex_le in *. rewrite !max_version_key_eq, key_order; try assumption; try apply max_id_ok.
  unfold tuple_compare. rewrite !N.compare_refl. cbn [cmp_then].
  destruct (lex_compare t hi); cbn [cmp_then]; congruence.
Qed.

Lemma entry_le_max_key e hi : entry_of e -> prefix_free_pair (lab e) hi ->
  lex_le (fst e) (max_version_key i hi) -> lex_le (lab e) hi.
Proof.
  intros He PF L. unfold lex_le in *. intro C. apply L. now apply entry_vs_max.
Qed.

Lemma entries_mono a b : entry_of a -> entry_of b -> prefix_free_pair (lab a) (lab b) ->
  lex_lt (fst a) (fst b) -> lex_le (lab a) (lab b).
Proof.
  intros (ta & va & ca & ma & Ea & Hva & Hca & _) (tb & vb & cb & mb & Eb & Hvb & Hcb & _) PF L.
  rewrite (lab_entry a ta va ca ma Ea), (lab_entry b tb vb cb mb Eb) in *.
  unfold lex_lt, lex_le in *. rewrite Ea, Eb, key_order in L by assumption.
  unfold tuple_compare in L. rewrite N.compare_refl in L. cbn [cmp_then] in L.
  destruct (lex_compare ta tb); cbn [cmp_then] in L; congruence.
Qed.

Definition send (g : list kv) : list (res kv) := send_kv best g.

(* what the loop needs to know about the entries still to come *)
Record run_ok (max_key : bytes) (l : list kv) : Prop := {
  ro_entries : Forall entry_of l;
  ro_pf : forall a b, In a l -> In b l -> prefix_free_pair (lab a) (lab b);
  ro_mono : mono l;
  ro_vk : Forall (fun e => lex_le (max_version_key i (lab e)) max_key) l
}.

Lemma run_ok_tail max_key x l : run_ok max_key (x :: l) -> run_ok max_key l.
Proof.
  intros [H1 H2 H3 H4]. constructor.
  - now inversion H1.
  - intros a b Ha Hb. apply H2; now right.
  - now inversion H3.
  - now inversion H4.
Qed.

Definition tail_ok (max_key : bytes) (tail : store) : Prop :=
  tail = [] \/ exists t r, tail = t :: r /\ lex_compare (fst t) max_key = Gt.

Lemma send_nil : send_kv best [] = []. Proof. reflexivity. Qed.

Lemma loop_at_tail max_key tail cur values :
  tail_ok max_key tail -> lex_le (max_version_key i cur) max_key ->
  vrange_loop best cx max_key tail (max_version_key i cur) values = send values.
Proof.
  intros [->|(t & r & -> & G)] L; [reflexivity|].
  destruct t as [k v]. cbn [vrange_loop fst] in *.
  assert (P : lex_compare k (max_version_key i cur) = Gt).
  { apply lex_gt_lt. apply lex_gt_lt in G. eapply lex_le_lt_trans; eauto. }
  rewrite P. cbn [andb].
  destruct (is_data_key k) eqn:D.
  - destruct (is_data_key_tkey k D) as [tk ->]. rewrite G. unfold send. now rewrite send_nil, app_nil_r.
  - rewrite G. unfold send. now rewrite send_nil, app_nil_r.
Qed.

Lemma loop_run max_key : forall l tail values cur,
  run_ok max_key (values ++ l) -> values <> [] -> same_lab cur values ->
  Forall (fun e => lex_le (fst e) max_key) l -> tail_ok max_key tail ->
  vrange_loop best cx max_key (l ++ tail) (max_version_key i cur) values = flat_map send (chunk (values ++ l)).
Proof.
  induction l as [|x r IH]; intros tail values cur RO NE SL InR TO.
  - rewrite app_nil_r in *. cbn [app]. rewrite (chunk_same cur values NE SL). cbn [flat_map]. rewrite app_nil_r.
    apply loop_at_tail; [exact TO|].
    destruct values as [|e0 vs]; [contradiction|].
    pose proof (ro_vk _ _ RO) as V. inversion V; subst. inversion SL; subst. exact H1.
  - destruct x as [k v].
    assert (Hx : entry_of (k, v)).
    { pose proof (ro_entries _ _ RO) as E. rewrite Forall_forall in E. apply E. apply in_or_app. right. now left. }
    destruct values as [|e0 vs]; [contradiction|].
    assert (L0 : lab e0 = cur) by now inversion SL.
    assert (PF : prefix_free_pair (lab (k, v)) cur).
    { rewrite <- L0. apply (ro_pf _ _ RO); [apply in_or_app; right; now left|now left]. }
    assert (LE : lex_le cur (lab (k, v))).
    { rewrite <- L0. pose proof (ro_mono _ _ RO) as M. cbn [app] in M. inversion M as [|? ? _ Hall]; subst.
      rewrite Forall_forall in Hall. apply Hall. apply in_or_app. right. now left. }
    assert (Kle : lex_compare k max_key <> Gt) by now inversion InR.
    destruct (entry_is_data_key _ Hx) as [D T]. cbn [fst] in D, T.
    remember (e0 :: vs) as vals eqn:Hvals.
    assert (NE2 : vals ++ [(k, v)] <> []) by (subst vals; discriminate).
    change (((k, v) :: r) ++ tail) with ((k, v) :: (r ++ tail)).
    cbn [vrange_loop]. rewrite D, T.
    destruct (lex_compare k (max_version_key i cur)) eqn:P.
    + (* same TKey *)
      assert (EQ : lab (k, v) = cur).
      { apply lex_le_antisym; [|exact LE]. unfold lex_le. intro C.
        apply (entry_vs_max (k, v) cur Hx PF) in C. cbn [fst] in C. congruence. }
      cbn [andb]. change ([] ++ vrange_loop best cx max_key (r ++ tail) (max_version_key i cur) (vals ++ [(k, v)]))
        with (vrange_loop best cx max_key (r ++ tail) (max_version_key i cur) (vals ++ [(k, v)])).
      destruct (lex_compare k max_key) eqn:K; try congruence;
        (rewrite (IH tail (vals ++ [(k, v)]) cur);
         [now rewrite <- app_assoc
         |now rewrite <- app_assoc
         |exact NE2
         |apply Forall_app; split; [exact SL|repeat constructor; exact EQ]
         |now inversion InR
         |exact TO]).
    + assert (EQ : lab (k, v) = cur).
      { apply lex_le_antisym; [|exact LE]. unfold lex_le. intro C.
        apply (entry_vs_max (k, v) cur Hx PF) in C. cbn [fst] in C. congruence. }
      cbn [andb]. change ([] ++ vrange_loop best cx max_key (r ++ tail) (max_version_key i cur) (vals ++ [(k, v)]))
        with (vrange_loop best cx max_key (r ++ tail) (max_version_key i cur) (vals ++ [(k, v)])).
      destruct (lex_compare k max_key) eqn:K; try congruence;
        (rewrite (IH tail (vals ++ [(k, v)]) cur);
         [now rewrite <- app_assoc
         |now rewrite <- app_assoc
         |exact NE2
         |apply Forall_app; split; [exact SL|repeat constructor; exact EQ]
         |now inversion InR
         |exact TO]).
    + (* a new TKey begins *)
      assert (NEQ : lab (k, v) <> cur).
      { intro EQ. assert (C : lex_compare (lab (k, v)) cur = Gt) by (apply (entry_vs_max (k, v) cur Hx PF); exact P).
        rewrite EQ, lex_compare_refl in C. discriminate. }
      cbn [andb].
      assert (RO' : run_ok max_key ([(k, v)] ++ r)).
      { clear - RO. cbn [app]. revert RO. generalize vals as vals0. intro vals0.
        induction vals0 as [|a vals0 IHv]; intro RO; [exact RO|]. apply IHv. now apply (run_ok_tail max_key a). }
      fold (send vals).
      rewrite (chunk_app_diff cur vals (k, v) r NE SL NEQ). cbn [flat_map].
      change ([] ++ [(k, v)]) with [(k, v)]. fold i.
      destruct (lex_compare k max_key) eqn:K; try congruence;
        (f_equal; rewrite (IH tail [(k, v)] (lab (k, v)));
         [reflexivity|exact RO'|discriminate|repeat constructor|now inversion InR|exact TO]).
Qed.

(* the loop from its initial state *)
Lemma loop_start max_key lo l tail :
  run_ok max_key l -> Forall (fun e => lex_le (fst e) max_key) l -> tail_ok max_key tail ->
  (forall e, In e l -> prefix_free_pair (lab e) lo /\ lex_le lo (lab e)) ->
  lex_le (max_version_key i lo) max_key ->
  vrange_loop best cx max_key (l ++ tail) (max_version_key i lo) [] = flat_map send (chunk l).
Proof.
  intros RO InR TO LO LM. destruct l as [|[k v] r].
  - cbn [app chunk flat_map]. rewrite (loop_at_tail max_key tail lo [] TO LM). reflexivity.
  - assert (Hx : entry_of (k, v)) by (pose proof (ro_entries _ _ RO) as E; now inversion E).
    destruct (LO (k, v) ltac:(now left)) as [PF LE].
    assert (Kle : lex_compare k max_key <> Gt) by now inversion InR.
    destruct (entry_is_data_key _ Hx) as [D T]. cbn [fst] in D, T.
    cbn [app vrange_loop]. rewrite D, T, send_nil. cbn [app].
    assert (STEP : vrange_loop best cx max_key (r ++ tail) (max_version_key i (lab (k, v))) [(k, v)]
                   = flat_map send (chunk ((k, v) :: r))).
    { apply (loop_run max_key r tail [(k, v)] (lab (k, v))); auto; try discriminate.
      - repeat constructor.
      - now inversion InR. }
    destruct (lex_compare k (max_version_key i lo)) eqn:P.
    + assert (EQ : lab (k, v) = lo).
      { apply lex_le_antisym; [|exact LE]. unfold lex_le. intro C.
        apply (entry_vs_max (k, v) lo Hx PF) in C. cbn [fst] in C. congruence. }
      cbn [andb]. rewrite <- EQ. destruct (lex_compare k max_key); try congruence; exact STEP.
    + assert (EQ : lab (k, v) = lo).
      { apply lex_le_antisym; [|exact LE]. unfold lex_le. intro C.
        apply (entry_vs_max (k, v) lo Hx PF) in C. cbn [fst] in C. congruence. }
      cbn [andb]. rewrite <- EQ. destruct (lex_compare k max_key); try congruence; exact STEP.
    + cbn [andb]. destruct (lex_compare k max_key); try congruence; exact STEP.
Qed.

End Loop.

(* ---- stores the range theorems speak about ---- *)
Section RangeSpec.
Variable best : list bytes -> res (option bytes).
Variable cx : vctx.
Let i := cx_instance cx.
Hypothesis Hi : id_ok i.

(* sorted; whatever is stored under instance i is a well-formed entry; the TKeys present under
   instance i are pairwise equal or not prefix related (C06 supplies this per key class) *)
Record store_ok (s : store) : Prop := {
  so_sorted : sorted s;
  so_entries : forall e, In e s -> of_instance i (fst e) = true -> entry_of cx e;
  so_pf : forall a b, In a s -> In b s -> of_instance i (fst a) = true -> of_instance i (fst b) = true ->
                      prefix_free_pair (lab a) (lab b)
}.
(* an interval end that can be compared with the stored TKeys *)
Definition bound_ok (s : store) (b : bytes) : Prop :=
  forall e, In e s -> of_instance i (fst e) = true -> prefix_free_pair b (lab e).

Lemma strip_in ko s e : In e (strip ko s) -> exists e0, In e0 s /\ fst e0 = fst e.
Proof.
  unfold strip. destruct ko; [|intro H; now exists e].
  intro H. apply in_map_iff in H as [e0 [<- H]]. now exists e0.
Qed.

Lemma lab_fst a b : fst a = fst b -> lab a = lab b.
Proof. unfold lab. now intros ->. Qed.

Lemma entry_of_fst a b : fst a = fst b -> entry_of cx a -> entry_of cx b.
Proof. intros E (tk & v & c & m & H). exists tk, v, c, m. now rewrite <- E. Qed.

Lemma sorted_strip ko s : sorted s -> sorted (strip ko s).
Proof.
  unfold strip. destruct ko; [|auto]. induction 1 as [|a s Hs IH Ha]; simpl; constructor; auto.
  apply Forall_forall. intros x Hx. apply in_map_iff in Hx as [y [<- Hy]].
  rewrite Forall_forall in Ha. exact (Ha y Hy).
Qed.

Lemma store_ok_strip ko s : store_ok s -> store_ok (strip ko s).
Proof.
  intros [H1 H2 H3]. constructor.
  - now apply sorted_strip.
  - intros e He O. destruct (strip_in ko s e He) as (e0 & H0 & E0).
    apply (entry_of_fst e0 e E0). apply H2; [exact H0|now rewrite E0].
  - intros a b Ha Hb Oa Ob.
    destruct (strip_in ko s a Ha) as (a0 & Ha0 & Ea). destruct (strip_in ko s b Hb) as (b0 & Hb0 & Eb).
    rewrite <- (lab_fst a0 a Ea), <- (lab_fst b0 b Eb). apply H3; auto; congruence.
Qed.

Lemma bound_ok_strip ko s b : bound_ok s b -> bound_ok (strip ko s) b.
Proof.
  intros H e He O. destruct (strip_in ko s e He) as (e0 & H0 & E0).
  rewrite <- (lab_fst e0 e E0). apply H; [exact H0|now rewrite E0].
Qed.

(* the part of the store a range over [lo, hi] scans *)
Definition in_scan (lo hi : bytes) (s : store) : store :=
  scan (min_version_key i lo) (max_version_key i hi) s.

Lemma in_scan_props lo hi s e : store_ok s -> In e (in_scan lo hi s) ->
  In e s /\ of_instance i (fst e) = true /\ entry_of cx e /\
  lex_le (min_version_key i lo) (fst e) /\ lex_le (fst e) (max_version_key i hi).
Proof.
  intros SO H. unfold in_scan in H. rewrite scan_filter in H by apply SO.
  apply filter_In in H as [H R]. apply in_rangeb_in_range in R.
  assert (O : of_instance i (fst e) = true).
  { apply prefixb_is_prefix. rewrite min_version_key_eq, max_version_key_eq, !data_key_split in R.
    apply (in_range_common_prefix _ _ _ _ R). }
  destruct R as [R1 R2]. repeat split; auto. now apply (so_entries s SO).
Qed.

Lemma sorted_mono_entries l :
  sorted l -> Forall (entry_of cx) l ->
  (forall a b, In a l -> In b l -> prefix_free_pair (lab a) (lab b)) -> mono l.
Proof.
  induction 1 as [|a l Hl IH Ha]; intros E PF; constructor.
  - apply IH; [now inversion E|]. intros x y Hx Hy. apply PF; now right.
  - apply Forall_forall. intros b Hb. inversion E as [|? ? Ea El]; subst.
    rewrite Forall_forall in Ha, El. apply (entries_mono cx Hi a b); auto.
    + apply PF; [now left|now right].
    + apply Ha. exact Hb.
Qed.

(* Main step: the messages of versionedRange are the resolver's verdicts on the runs of equal TKey *)
Lemma versioned_range_chunks lo hi ko s :
  store_ok s -> bound_ok s lo -> bound_ok s hi -> prefix_free_pair lo hi -> lex_le lo hi ->
  versioned_range best cx lo hi ko s = flat_map (send best) (chunk (in_scan lo hi (strip ko s))).
Proof.
  intros SO0 BL0 BH0 PLH LLH.
  pose proof (store_ok_strip ko s SO0) as SO. pose proof (bound_ok_strip ko s lo BL0) as BL.
  pose proof (bound_ok_strip ko s hi BH0) as BH. clear SO0 BL0 BH0.
  set (s' := strip ko s) in *.
  unfold versioned_range. fold i. fold s'.
  set (items := seek (min_version_key i lo) s').
  rewrite (take_drop (fun e => lex_leb (fst e) (max_version_key i hi)) items).
  assert (SC : take_while (fun e => lex_leb (fst e) (max_version_key i hi)) items = in_scan lo hi s') by reflexivity.
  rewrite SC.
  assert (P : forall e, In e (in_scan lo hi s') ->
              In e s' /\ of_instance i (fst e) = true /\ entry_of cx e /\
              lex_le (min_version_key i lo) (fst e) /\ lex_le (fst e) (max_version_key i hi))
    by (intros e He; now apply in_scan_props).
  apply (loop_start best cx Hi (max_version_key i hi) lo).
  - constructor.
    + apply Forall_forall. intros e He. apply P in He. tauto.
    + intros a b Ha Hb. apply P in Ha. apply P in Hb. apply (so_pf s' SO); tauto.
    + apply sorted_mono_entries.
      * unfold in_scan. rewrite scan_filter by apply SO. apply sorted_filter. apply SO.
      * apply Forall_forall. intros e He. apply P in He. tauto.
      * intros a b Ha Hb. apply P in Ha. apply P in Hb. apply (so_pf s' SO); tauto.
    + apply Forall_forall. intros e He. apply P in He. destruct He as (H1 & H2 & H3 & H4 & H5).
      apply (max_key_mono cx Hi).
      * apply prefix_free_pair_sym. now apply BH.
      * apply (entry_le_max_key cx Hi e hi H3); [apply prefix_free_pair_sym; now apply BH|exact H5].
  - apply Forall_forall. intros e He. apply P in He. tauto.
  - destruct (drop_while_head (fun e => lex_leb (fst e) (max_version_key i hi)) items) as [->|(t & r & -> & F)];
      [now left|right]. exists t, r. split; [reflexivity|].
    unfold lex_leb in F. destruct (lex_compare (fst t) (max_version_key i hi)); congruence.
  - intros e He. apply P in He. destruct He as (H1 & H2 & H3 & H4 & H5). split.
    + apply prefix_free_pair_sym. now apply BL.
    + apply (entry_vs_min cx Hi e lo H3); [now apply BL|exact H4].
  - now apply (max_key_mono cx Hi).
Qed.

(* ---- each run is exactly what a point read of its TKey looks at ---- *)
Definition entries_kv (tk : bytes) (s : store) : store :=
  filter (fun e => prefixb (unversioned_prefix i tk) (fst e)
                   && Nat.eqb (length (fst e)) (length (unversioned_prefix i tk) + suffix_size)) s.

Lemma entries_kv_keys tk s : sorted s -> map fst (entries_kv tk s) = get_key_versions_exact i tk s.
Proof. intro H. now rewrite get_key_versions_exact_spec. Qed.

Lemma chunk_is_point_read lo hi s g :
  store_ok s -> bound_ok s lo -> bound_ok s hi ->
  In g (chunk (in_scan lo hi s)) ->
  exists tk, same_lab tk g /\ g <> [] /\ lex_le lo tk /\ lex_le tk hi /\ g = entries_kv tk s.
Proof.
  intros SO BL BH Hg.
  assert (P : forall e, In e (in_scan lo hi s) ->
              In e s /\ of_instance i (fst e) = true /\ entry_of cx e /\
              lex_le (min_version_key i lo) (fst e) /\ lex_le (fst e) (max_version_key i hi))
    by (intros e He; now apply in_scan_props).
  assert (M : mono (in_scan lo hi s)).
  { apply sorted_mono_entries.
    - unfold in_scan. rewrite scan_filter by apply SO. apply sorted_filter. apply SO.
    - apply Forall_forall. intros e He. apply P in He. tauto.
    - intros a b Ha Hb. apply P in Ha. apply P in Hb. apply (so_pf s SO); tauto. }
  destruct (chunk_filter _ M g Hg) as (tk & SL & F).
  pose proof (chunk_nonempty _ g Hg) as NE.
  destruct g as [|e0 g0]; [contradiction|].
  assert (He0 : In e0 (in_scan lo hi s)).
  { rewrite <- (chunk_concat (in_scan lo hi s)). apply in_concat. exists (e0 :: g0). split; [exact Hg|now left]. }
  assert (L0 : lab e0 = tk) by now inversion SL.
  destruct (P e0 He0) as (I0 & O0 & E0 & Lo0 & Hi0).
  exists tk. split; [exact SL|]. split; [discriminate|]. split; [|split].
  - rewrite <- L0. apply (entry_vs_min cx Hi e0 lo E0); [now apply BL|exact Lo0].
  - rewrite <- L0. apply (entry_le_max_key cx Hi e0 hi E0); [apply prefix_free_pair_sym; now apply BH|exact Hi0].
  - rewrite F. unfold in_scan. rewrite scan_filter by apply SO. unfold entries_kv.
    rewrite filter_filter_impl'. apply filter_ext_in. intros e He.
    destruct (prefixb (unversioned_prefix i tk) (fst e) &&
              Nat.eqb (length (fst e)) (length (unversioned_prefix i tk) + suffix_size)) eqn:X.
    + (* an exact entry of tk: in range, labelled tk *)
      apply andb_true_iff in X as [X1 X2]. apply Nat.eqb_eq in X2.
      pose proof (prefix_of_instance _ _ _ X1) as O.
      destruct (so_entries s SO e He O) as (tk' & v & c & m & Ek & Hv & Hc & Hm).
      rewrite Ek in X1, X2. destruct (exact_entry_is_own i tk i tk' v c m Hi Hi X1 X2) as [_ ->].
      assert (LB : lab e = tk) by (unfold lab; now rewrite Ek, tkey_from_data_key).
      rewrite LB, (proj2 (bytes_eqb_eq _ _) eq_refl). cbn [andb]. rewrite Ek.
      apply in_rangeb_in_range. split.
      * eapply lex_le_trans; [|apply (versions_between i tk v c m Hi Hv Hc Hm)].
        (* min_version_key lo <= min_version_key tk *)
        rewrite <- L0 in *. clear - Lo0 Hi E0 BL I0 O0 Hi0.
        destruct E0 as (t0 & v0 & c0 & m0 & E0 & Hv0 & Hc0 & Hm0).
        assert (lab e0 = t0) by (unfold lab; now rewrite E0, tkey_from_data_key). rewrite H in *.
        pose proof (BL e0 I0 O0) as PF. rewrite H in PF.
        unfold lex_le in *. rewrite E0 in Lo0.
        rewrite !min_version_key_eq in *. rewrite key_order in Lo0 |- *; try assumption; try (unfold id_ok; reflexivity).
        unfold tuple_compare in *. rewrite N.compare_refl in *. cbn [cmp_then] in *.
        destruct (lex_compare lo t0); cbn [cmp_then] in *; try congruence. rewrite !N.compare_refl. cbn. discriminate.
      * eapply lex_le_trans; [apply (versions_between i tk v c m Hi Hv Hc Hm)|].
        rewrite <- L0 in *. clear - Hi0 Hi E0 BH I0 O0.
        apply (max_key_mono cx Hi).
        -- apply prefix_free_pair_sym. now apply BH.
        -- apply (entry_le_max_key cx Hi e0 hi E0); [apply prefix_free_pair_sym; now apply BH|exact Hi0].
    + (* not an exact entry of tk: either out of range or another label *)
      destruct (in_rangeb (min_version_key i lo) (max_version_key i hi) (fst e)) eqn:R; [|now rewrite andb_false_r].
      rewrite andb_true_r. destruct (bytes_eqb (lab e) tk) eqn:B; [|reflexivity]. exfalso.
      apply bytes_eqb_eq in B.
      assert (O : of_instance i (fst e) = true).
      { apply in_rangeb_in_range in R. apply prefixb_is_prefix.
        rewrite min_version_key_eq, max_version_key_eq, !data_key_split in R.
        apply (in_range_common_prefix _ _ _ _ R). }
      destruct (so_entries s SO e He O) as (tk' & v & c & m & Ek & _).
      assert (LB : lab e = tk') by (unfold lab; now rewrite Ek, tkey_from_data_key).
      rewrite LB in B. subst tk'. rewrite Ek in X.
      destruct (own_entry_is_exact i tk v c m) as [Y1 Y2]. apply Nat.eqb_eq in Y2.
      unfold i in *. rewrite Y1, Y2 in X. discriminate.
Qed.

End RangeSpec.

(* ---- packaging: range = ascending point reads ---- *)
Definition hd_lab (g : list kv) : bytes := match g with e :: _ => lab e | [] => [] end.

(* the verdicts of the resolver, TKey by TKey; the first conflict fails the whole range *)
Fixpoint collect (l : list (bytes * res (option kv))) : res (list kv) :=
  match l with
  | [] => Ok []
  | (tk, Ok None) :: r => collect r
  | (tk, Ok (Some (_, v))) :: r => res_bind (collect r) (fun l' => Ok ((tk, v) :: l'))
  | (_, Err) :: _ => Err
  | (_, Panic) :: _ => Panic
  end.

Section Packaging.
Variable best : list bytes -> res (option bytes).
Variable cx : vctx.
Let i := cx_instance cx.
Hypothesis Hi : id_ok i.
(* the resolver picks one of the keys it was given (true of VersionedKeyValue / GetBestKeyVersion:
   they return an element of the map they built from those keys) *)
Hypothesis best_in : forall ks k, best ks = Ok (Some k) -> In k ks.

Definition point_kv (tk : bytes) (s : store) : res (option kv) :=
  versioned_key_value best (entries_kv cx tk s).
Definition range_tkeys (lo hi : bytes) (s : store) : list bytes :=
  map hd_lab (chunk (in_scan cx lo hi s)).

Lemma vkv_key_in g k v : versioned_key_value best g = Ok (Some (k, v)) -> In (k, v) g.
Proof.
  unfold versioned_key_value. destruct (best (map fst g)) as [[k'|]| |] eqn:B; try discriminate.
  destruct (assoc k' g) as [v'|] eqn:A; try discriminate. intro H. inversion H; subst. clear H B.
  induction g as [|[k2 v2] g IH]; simpl in A; [discriminate|].
  destruct (bytes_eqb k k2) eqn:E.
  - apply bytes_eqb_eq in E. inversion A; subst. now left.
  - right. auto.
Qed.

Lemma consume_app a b : consume (a ++ b) =
  match consume a with Ok l => res_bind (consume b) (fun l' => Ok (l ++ l')) | Err => Err | Panic => Panic end.
Proof.
  induction a as [|[e| |] a IH]; simpl.
  - destruct (consume b); reflexivity.
  - rewrite IH. destruct (consume a); simpl; try reflexivity. destruct (consume b); reflexivity.
  - reflexivity.
  - reflexivity.
Qed.

Lemma collect_chunks (gs : list (list kv)) :
  (forall g, In g gs -> g <> [] /\ forall e, In e g -> tkey_from_key (Some (fst e)) = Ok (hd_lab g)) ->
  res_bind (consume (flat_map (send best) gs)) to_tkvs
  = collect (map (fun g => (hd_lab g, versioned_key_value best g)) gs).
Proof.
  induction gs as [|g gs IH]; intro H; [reflexivity|].
  cbn [flat_map map collect]. rewrite consume_app.
  destruct (H g ltac:(now left)) as [NE TK].
  assert (IH' := IH (fun g' Hg' => H g' (or_intror Hg'))). clear IH.
  destruct g as [|e0 g0]; [contradiction|].
  assert (S : send best (e0 :: g0) = match versioned_key_value best (e0 :: g0) with
                                     | Ok None => [] | Ok (Some e) => [Ok e] | Err => [Err] | Panic => [Panic] end)
    by reflexivity.
  rewrite S. clear S.
  destruct (versioned_key_value best (e0 :: g0)) as [[[k v]|]| |] eqn:V; cbn [consume res_bind].
  - pose proof (vkv_key_in _ _ _ V) as I. specialize (TK _ I). cbn [fst] in TK.
    destruct (consume (flat_map (send best) gs)) as [l| |] eqn:C; cbn [res_bind] in *.
    + cbn [app to_tkvs]. rewrite TK. cbn [res_bind]. rewrite <- IH'. destruct (to_tkvs l); reflexivity.
    + now rewrite <- IH'.
    + now rewrite <- IH'.
  - destruct (consume (flat_map (send best) gs)) as [l| |] eqn:C; cbn [res_bind app] in *; exact IH'.
  - reflexivity.
  - reflexivity.
Qed.

(* C05, theorem 1: for every resolver, GetRange over [lo, hi] = the point verdicts of the TKeys
   present in the interval, in ascending order, each once *)
Lemma get_range_points lo hi s :
  store_ok cx s -> bound_ok cx s lo -> bound_ok cx s hi -> prefix_free_pair lo hi -> lex_le lo hi ->
  get_range best cx lo hi s = collect (map (fun tk => (tk, point_kv tk s)) (range_tkeys lo hi s)).
Proof.
  intros SO BL BH PF LE. unfold get_range.
  rewrite (versioned_range_chunks best cx Hi lo hi false s SO BL BH PF LE).
  change (strip false s) with s.
  rewrite collect_chunks.
  - unfold range_tkeys. rewrite map_map. f_equal. apply map_ext_in. intros g Hg.
    destruct (chunk_is_point_read cx Hi lo hi s g SO BL BH Hg) as (tk & SL & NE & _ & _ & EQ).
    assert (hd_lab g = tk) by (destruct g; [contradiction|]; now inversion SL).
    unfold point_kv. now rewrite H, <- EQ.
  - intros g Hg. destruct (chunk_is_point_read cx Hi lo hi s g SO BL BH Hg) as (tk & SL & NE & _ & _ & EQ).
    split; [exact NE|]. intros e He.
    assert (hd_lab g = tk) by (destruct g; [contradiction|]; now inversion SL). rewrite H.
    assert (In e s) by (rewrite EQ in He; now apply filter_In in He).
    assert (O : of_instance i (fst e) = true).
    { rewrite EQ in He. apply filter_In in He as [_ X]. apply andb_true_iff in X as [X _].
      now apply prefix_of_instance in X. }
    destruct (entry_is_data_key cx e (so_entries cx s SO e H0 O)) as [_ T]. rewrite T. f_equal.
    unfold same_lab in SL. rewrite Forall_forall in SL. auto.
Qed.

(* the TKeys of the result: inside the interval, present in the store ... *)
Lemma range_tkeys_sound lo hi s tk :
  store_ok cx s -> bound_ok cx s lo -> bound_ok cx s hi -> In tk (range_tkeys lo hi s) ->
  lex_le lo tk /\ lex_le tk hi /\ entries_kv cx tk s <> [].
Proof.
  intros SO BL BH H. unfold range_tkeys in H. apply in_map_iff in H as (g & E & Hg).
  destruct (chunk_is_point_read cx Hi lo hi s g SO BL BH Hg) as (tk' & SL & NE & L1 & L2 & EQ).
  assert (hd_lab g = tk') by (destruct g; [contradiction|]; now inversion SL).
  rewrite H in E. subst tk'. repeat split; auto. now rewrite <- EQ.
Qed.

(* ... all of them ... *)
Lemma range_tkeys_complete lo hi s e :
  store_ok cx s -> bound_ok cx s lo -> bound_ok cx s hi ->
  In e s -> of_instance i (fst e) = true -> lex_le lo (lab e) -> lex_le (lab e) hi ->
  In (lab e) (range_tkeys lo hi s).
Proof.
  intros SO BL BH He O L1 L2.
  destruct (so_entries cx s SO e He O) as (tk & v & c & m & Ek & Hv & Hc & Hm).
  assert (LB : lab e = tk) by (unfold lab; now rewrite Ek, tkey_from_data_key). rewrite LB in *.
  assert (IS : In e (in_scan cx lo hi s)).
  { unfold in_scan. rewrite scan_filter by apply SO. apply filter_In. split; [exact He|].
    apply in_rangeb_in_range. rewrite Ek. fold i. split.
    - eapply lex_le_trans; [|apply (versions_between i tk v c m Hi Hv Hc Hm)].
      pose proof (BL e He O) as PF. rewrite LB in PF.
      unfold lex_le in *. rewrite !min_version_key_eq, key_order; try assumption; try (unfold id_ok; reflexivity).
      unfold tuple_compare. rewrite !N.compare_refl. cbn [cmp_then].
      destruct (lex_compare lo tk); cbn [cmp_then]; try congruence; try discriminate.
    - eapply lex_le_trans; [apply (versions_between i tk v c m Hi Hv Hc Hm)|].
      apply (max_key_mono cx Hi); [|exact L2]. apply prefix_free_pair_sym. rewrite <- LB. now apply BH. }
  rewrite <- (chunk_concat (in_scan cx lo hi s)) in IS. apply in_concat in IS as (g & Hg & Ig).
  destruct (chunk_is_point_read cx Hi lo hi s g SO BL BH Hg) as (tk' & SL & NE & _ & _ & _).
  unfold range_tkeys. apply in_map_iff. exists g. split; [|exact Hg].
  assert (hd_lab g = tk') by (destruct g; [contradiction|]; now inversion SL). rewrite H.
  unfold same_lab in SL. rewrite Forall_forall in SL. rewrite <- (SL e Ig). exact LB.
Qed.

End Packaging.

(* ... in strictly ascending order *)
Lemma lex_lt_of_le_ne a b : lex_le a b -> a <> b -> lex_lt a b.
Proof. intros L N. apply lex_le_cases in L as [L|L]; [exact L|contradiction]. Qed.

Lemma chunk_labels_ascending l : mono l -> StronglySorted lex_lt (map hd_lab (chunk l)).
Proof.
  induction 1 as [|x r Hr IH Hx]; [constructor|].
  destruct r as [|y r'].
  - simpl. repeat constructor.
  - destruct (chunk_head_label y r') as (g & gs & E & _).
    destruct (bytes_eqb (lab x) (lab y)) eqn:B.
    + apply bytes_eqb_eq in B. rewrite (chunk_cons_eq x y r' g gs B E).
      rewrite E in IH. cbn [map hd_lab] in *. now rewrite B.
    + assert (NE : lab x <> lab y) by (intro C; rewrite C, (proj2 (bytes_eqb_eq _ _) eq_refl) in B; discriminate).
      rewrite (chunk_cons_diff x y r' NE). cbn [map hd_lab].
      constructor; [exact IH|].
      rewrite E in *. cbn [map hd_lab] in *.
      assert (L1 : lex_lt (lab x) (lab y)).
      { apply lex_lt_of_le_ne; [|exact NE]. inversion Hx; subst. exact H1. }
      constructor; [exact L1|].
      inversion IH as [|? ? _ Hall]; subst.
      apply Forall_forall. intros t Ht. rewrite Forall_forall in Hall.
      unfold lex_lt in *. eapply lex_compare_lt_trans; eauto.
Qed.

Lemma range_tkeys_ascending cx lo hi s :
  id_ok (cx_instance cx) -> store_ok cx s -> StronglySorted lex_lt (range_tkeys cx lo hi s).
Proof.
  intros Hi SO. unfold range_tkeys. apply chunk_labels_ascending.
  assert (P : forall e, In e (in_scan cx lo hi s) ->
              In e s /\ of_instance (cx_instance cx) (fst e) = true /\ entry_of cx e /\
              lex_le (min_version_key (cx_instance cx) lo) (fst e) /\ lex_le (fst e) (max_version_key (cx_instance cx) hi))
    by (intros e He; now apply in_scan_props).
  apply (sorted_mono_entries cx Hi).
  - unfold in_scan. rewrite scan_filter by apply SO. apply sorted_filter. apply SO.
  - apply Forall_forall. intros e He. apply P in He. tauto.
  - intros a b Ha Hb. apply P in Ha. apply P in Hb. apply (so_pf cx s SO); tauto.
Qed.

(* ---- the point read of badger.Get is the same verdict, read through kv_get ---- *)
Lemma bytes_eqb_sym a b : bytes_eqb a b = bytes_eqb b a.
Proof.
  destruct (bytes_eqb a b) eqn:E1, (bytes_eqb b a) eqn:E2; try reflexivity.
  - apply bytes_eqb_eq in E1. subst. rewrite (proj2 (bytes_eqb_eq _ _) eq_refl) in E2. discriminate.
  - apply bytes_eqb_eq in E2. subst. rewrite (proj2 (bytes_eqb_eq _ _) eq_refl) in E1. discriminate.
Qed.

Lemma assoc_filter_sorted (P : bytes -> bool) k s : sorted s ->
  In k (map fst (filter (fun e => P (fst e)) s)) ->
  assoc k (filter (fun e => P (fst e)) s) = kv_get k s.
Proof.
  induction 1 as [|[k' v'] s Hs IH Ha]; intro Hk; [contradiction|].
  assert (GT : forall x, In x s -> lex_lt k' (fst x)).
  { rewrite Forall_forall in Ha. exact Ha. }
  assert (TAIL : In k (map fst (filter (fun e => P (fst e)) s)) -> lex_compare k k' = Gt).
  { intro H. apply in_map_iff in H as (e & <- & He). apply filter_In in He as [He _].
    apply lex_gt_lt. now apply GT. }
  cbn [filter fst] in *. cbn [kv_get]. destruct (P k') eqn:Pk.
  - cbn [map fst assoc] in *. destruct Hk as [<-|Hk].
    + rewrite lex_compare_refl. now rewrite (proj2 (bytes_eqb_eq _ _) eq_refl).
    + rewrite (TAIL Hk). destruct (bytes_eqb k k') eqn:B.
      * apply bytes_eqb_eq in B. subst. specialize (TAIL Hk). rewrite lex_compare_refl in TAIL. discriminate.
      * now apply IH.
  - rewrite (TAIL Hk). now apply IH.
Qed.

Section PointRead.
Variable best : list bytes -> res (option bytes).
Variable cx : vctx.
Let i := cx_instance cx.
Hypothesis best_in : forall ks k, best ks = Ok (Some k) -> In k ks.

Lemma point_get_verdict tk s : sorted s ->
  point_get best cx tk s =
  match point_kv best cx tk s with
  | Ok (Some (_, v)) => Some v
  | _ => None
  end.
Proof.
  intro Hs. unfold point_get, point_key, point_kv, versioned_key_value.
  rewrite (entries_kv_keys cx tk s Hs).
  destruct (best (get_key_versions_exact (cx_instance cx) tk s)) as [[k|]| |] eqn:B; try reflexivity.
  pose proof (best_in _ _ B) as I. rewrite <- (entries_kv_keys cx tk s Hs) in I.
  unfold entries_kv in *.
  rewrite (assoc_filter_sorted
             (fun k0 => prefixb (unversioned_prefix (cx_instance cx) tk) k0
                        && Nat.eqb (length k0) (length (unversioned_prefix (cx_instance cx) tk) + suffix_size)) k s Hs I).
  destruct (kv_get k s); reflexivity.
Qed.

(* keys-only scans run the same resolver on the same keys *)
Lemma entries_kv_strip tk s : map fst (entries_kv cx tk (strip true s)) = map fst (entries_kv cx tk s).
Proof.
  unfold entries_kv, strip. induction s as [|[k v] s IH]; [reflexivity|]. cbn [map filter fst].
  destruct (prefixb _ k && Nat.eqb _ _); cbn [map fst]; now rewrite IH.
Qed.

Lemma keys_in_range_as_get_range lo hi s :
  keys_in_range best cx lo hi s = res_bind (get_range best cx lo hi (strip true s)) (fun l => Ok (map fst l)).
Proof.
  unfold keys_in_range, get_range, versioned_range. change (strip false (strip true s)) with (strip true s).
  destruct (consume _); reflexivity.
Qed.

Lemma consume_until m l : consume m = Ok l -> until_stop m = l.
Proof.
  revert l; induction m as [|[e| |] m IH]; intros l H; simpl in *; try discriminate.
  - now inversion H.
  - destruct (consume m) as [l0| |]; try discriminate. inversion H; subst. f_equal. now apply IH.
Qed.

(* C05, theorem 3a: DeleteRange deletes (at the context's version) exactly the TKeys the keys-only
   scan reports, when that scan succeeds *)
Lemma delete_range_keys lo hi s tks :
  keys_in_range best cx lo hi s = Ok tks ->
  delete_range best cx lo hi s = Ok (fold_left (fun acc tk => delete cx tk acc) tks s).
Proof.
  unfold keys_in_range, delete_range.
  destruct (consume (versioned_range best cx lo hi true s)) as [l| |] eqn:C; try discriminate.
  rewrite (consume_until _ _ C). cbn [res_bind].
  destruct (to_tkvs l) as [l'| |]; try discriminate. cbn [res_bind]. intro H. inversion H; subst. f_equal.
  clear. revert s. induction l' as [|e l' IH]; intro s; [reflexivity|]. simpl. apply IH.
Qed.

(* C05, theorem 3b: whatever DeleteRange does, it only writes entries of (instance, context version):
   every other version's entries, and every other instance's, are untouched *)
Definition own_version (k : bytes) : bool :=
  of_instance i k && match version_from_key (Some k) with Ok v => v =? cx_version cx | _ => false end.

Lemma own_version_data_key tk c m : id_ok (cx_version cx) -> own_version (data_key i tk (cx_version cx) c m) = true.
Proof.
  intro Hv. unfold own_version. rewrite version_of_data_key by assumption. rewrite N.eqb_refl, andb_true_r.
  apply prefixb_is_prefix. rewrite data_key_split. now exists (tk ++ key_suffix (cx_version cx) c m).
Qed.

Lemma delete_keeps_other_versions tk s : id_ok (cx_version cx) ->
  filter (fun e => negb (own_version (fst e))) (delete cx tk s) = filter (fun e => negb (own_version (fst e))) s.
Proof.
  intro Hv. unfold delete, tombstone_key, construct_data_key. fold i.
  rewrite (filter_kv_set (fun k => negb (own_version k))) by (now rewrite own_version_data_key).
  now rewrite (filter_kv_del (fun k => negb (own_version k))) by (now rewrite own_version_data_key).
Qed.

Lemma delete_range_other_versions lo hi s s' : id_ok (cx_version cx) ->
  delete_range best cx lo hi s = Ok s' ->
  filter (fun e => negb (own_version (fst e))) s' = filter (fun e => negb (own_version (fst e))) s.
Proof.
  intros Hv. unfold delete_range.
  destruct (to_tkvs _) as [l| |]; try discriminate. cbn [res_bind]. intro H. inversion H; subst. clear H.
  revert s. induction l as [|e l IH]; intro s; [reflexivity|]. simpl. rewrite IH.
  now apply delete_keeps_other_versions.
Qed.

End PointRead.

(* ---- C05, theorem 4: keyvalue key strings without byte 0 sort like their TKeys ---- *)
Lemma term_compare a b : ~ In 0 a -> ~ In 0 b -> lex_compare (a ++ [0]) (b ++ [0]) = lex_compare a b.
Proof.
  revert b; induction a as [|x a IH]; intros b Na Nb.
  - destruct b as [|y b]; [reflexivity|]. simpl. destruct y; [exfalso; apply Nb; now left|reflexivity].
  - destruct b as [|y b].
    + simpl. destruct x; [exfalso; apply Na; now left|reflexivity].
    + simpl. destruct (x ?= y); try reflexivity. apply IH; intro H; [apply Na|apply Nb]; now right.
Qed.

Lemma kv_string_order a b : ~ In 0 a -> ~ In 0 b -> lex_compare (kv_tkey a) (kv_tkey b) = lex_compare a b.
Proof.
  intros Na Nb. unfold kv_tkey, tkey_of. cbn [kc_shape kc_keyvalue_NewTKey]. unfold new_tkey.
  rewrite !lex_compare_cons. now apply term_compare.
Qed.

(* witness for the empty-value finding: one entry whose value is empty, a resolver choosing it *)
Definition wit_best (ks : list bytes) : res (option bytes) :=
  match ks with k :: _ => Ok (Some k) | [] => Ok None end.
Definition wit_cx : vctx := {| cx_instance := 1; cx_version := 1; cx_client := 0 |}.
Definition wit_empty_store : store := [(construct_data_key 1 1 0 (kv_tkey [101]), [])].
Lemma empty_value_witness :
  keys_in_range wit_best wit_cx (min_tkey 177) (max_tkey 177) wit_empty_store = Ok [kv_tkey [101]] /\
  point_exists wit_best wit_cx (kv_tkey [101]) wit_empty_store = true /\
  point_get_nil wit_best wit_cx (kv_tkey [101]) wit_empty_store = None /\
  point_get wit_best wit_cx (kv_tkey [101]) wit_empty_store = Some [].
Proof. vm_compute. repeat split. Qed.
